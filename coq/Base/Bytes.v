(* Base/Bytes.v — byte strings as [list byte]; literals, comparison, ASCII case, trimming,
   splitting.  Definitions and their characterising lemmas (these are library facts, not
   property proofs, so they live beside the definitions). *)
From Coq Require Export List Bool Arith NArith ZArith Lia.
From Coq Require Export Init.Byte Strings.Byte.
Export ListNotations.

Notation bytes := (list byte).

(* ---- literals:  B"text"  is a fully evaluated [list byte] ---- *)
Inductive bwrap := BW (l : list byte).
Definition unwrap (w : bwrap) : list byte := match w with BW l => l end.
Declare Scope bs_scope.
Delimit Scope bs_scope with bs.
String Notation bwrap BW unwrap : bs_scope.
Notation "'B' s" := (ltac:(let v := eval cbv in (unwrap s%bs) in exact v))
  (at level 0, s at level 0, only parsing).

(* ---- equality ---- *)
Definition beqb (a b : byte) : bool := Byte.eqb a b.

Lemma beqb_eq a b : beqb a b = true <-> a = b.
Proof. split; [apply Byte.byte_dec_bl | apply Byte.byte_dec_lb]. Qed.

Lemma beqb_refl a : beqb a a = true.
Proof. apply beqb_eq; reflexivity. Qed.

Lemma beqb_neq a b : beqb a b = false <-> a <> b.
Proof.
  split.
  - intros H E. apply beqb_eq in E. congruence.
  - intros H. destruct (beqb a b) eqn:E; [apply beqb_eq in E; contradiction | reflexivity].
Qed.

Fixpoint bytes_eqb (a b : bytes) : bool :=
  match a, b with
  | [], [] => true
  | x :: a', y :: b' => beqb x y && bytes_eqb a' b'
  | _, _ => false
  end.

Lemma bytes_eqb_eq a b : bytes_eqb a b = true <-> a = b.
Proof.
  revert b; induction a as [|x a IH]; intros [|y b]; cbn; try (split; congruence).
  rewrite andb_true_iff, beqb_eq, IH. split; [intros [-> ->]; reflexivity | intros E; inversion E; auto].
Qed.

Lemma bytes_eqb_refl a : bytes_eqb a a = true.
Proof. apply bytes_eqb_eq; reflexivity. Qed.

Lemma bytes_eqb_neq a b : bytes_eqb a b = false <-> a <> b.
Proof.
  split.
  - intros H E. apply bytes_eqb_eq in E. congruence.
  - intros H. destruct (bytes_eqb a b) eqn:E; [apply bytes_eqb_eq in E; contradiction | reflexivity].
Qed.

Definition bytes_eq_dec (a b : bytes) : {a = b} + {a <> b}.
Proof. decide equality. apply Byte.byte_eq_dec. Defined.

(* membership of a byte string in a list *)
Fixpoint mem_bytes (x : bytes) (l : list bytes) : bool :=
  match l with [] => false | y :: l' => bytes_eqb x y || mem_bytes x l' end.

Lemma mem_bytes_In x l : mem_bytes x l = true <-> In x l.
Proof.
  induction l as [|y l IH]; cbn; [split; [discriminate | tauto]|].
  rewrite orb_true_iff, bytes_eqb_eq, IH. split; intros [H|H]; auto.
Qed.

(* ---- prefix / suffix ---- *)
Fixpoint is_prefix (p v : bytes) : bool :=
  match p, v with
  | [], _ => true
  | x :: p', y :: v' => beqb x y && is_prefix p' v'
  | _ :: _, [] => false
  end.

Lemma is_prefix_spec p v : is_prefix p v = true <-> exists r, v = p ++ r.
Proof.
  revert v; induction p as [|x p IH]; intros v; cbn.
  - split; [intros _; exists v; reflexivity | reflexivity].
  - destruct v as [|y v].
    + split; [discriminate | intros [r Hr]; discriminate].
    + rewrite andb_true_iff, beqb_eq, IH. split.
      * intros [-> [r ->]]. exists r; reflexivity.
      * intros [r Hr]. inversion Hr; subst. split; [reflexivity | exists r; reflexivity].
Qed.

Definition is_suffix (s v : bytes) : bool :=
  (length s <=? length v) && bytes_eqb (skipn (length v - length s) v) s.

Lemma is_suffix_spec s v : is_suffix s v = true <-> exists r, v = r ++ s.
Proof.
  unfold is_suffix. rewrite andb_true_iff, Nat.leb_le, bytes_eqb_eq. split.
  - intros [Hl Hs]. exists (firstn (length v - length s) v).
    rewrite <- Hs at 2. symmetry; apply firstn_skipn.
  - intros [r ->]. rewrite app_length. split; [lia|].
    replace (length r + length s - length s) with (length r) by lia.
    rewrite skipn_app, skipn_all, Nat.sub_diag. reflexivity.
Qed.

(* ---- searching ---- *)
(* split at the first occurrence of byte [c]: Some (before, after) *)
Fixpoint split_first (c : byte) (l : bytes) : option (bytes * bytes) :=
  match l with
  | [] => None
  | x :: l' => if beqb x c then Some ([], l')
               else match split_first c l' with
                    | Some (a, b) => Some (x :: a, b)
                    | None => None
                    end
  end.

Lemma split_first_Some c l a b :
  split_first c l = Some (a, b) <-> l = a ++ c :: b /\ ~ In c a.
Proof.
  revert a b; induction l as [|x l IH]; intros a b; cbn.
  - split; [discriminate | intros [H _]; destruct a; discriminate].
  - destruct (beqb x c) eqn:E.
    + apply beqb_eq in E; subst x. split.
      * intros H; inversion H; subst. split; [reflexivity | intros []].
      * intros [H Hn]. destruct a as [|y a]; cbn in H.
        -- inversion H; reflexivity.
        -- inversion H; subst. exfalso; apply Hn; left; reflexivity.
    + apply beqb_neq in E. destruct (split_first c l) as [[a' b']|] eqn:S.
      * split.
        -- intros H; inversion H; subst. destruct (proj1 (IH a' b) eq_refl) as [-> Hn].
           split; [reflexivity|]. intros [H1|H1]; [congruence | contradiction].
        -- intros [H Hn]. destruct a as [|y a]; cbn in H; inversion H; subst; [congruence|].
           assert (Some (a', b') = Some (a, b)) as H1.
           { apply IH. split; [reflexivity | intros H2; apply Hn; right; exact H2]. }
           inversion H1; reflexivity.
      * split; [discriminate|]. intros [H Hn]. destruct a as [|y a]; cbn in H; inversion H; subst; [congruence|].
        assert (None = Some (a, b)) as H1.
        { apply IH. split; [reflexivity | intros H2; apply Hn; right; exact H2]. }
        discriminate.
Qed.

Lemma split_first_None c l : split_first c l = None <-> ~ In c l.
Proof.
  induction l as [|x l IH]; cbn; [tauto|].
  destruct (beqb x c) eqn:E.
  - apply beqb_eq in E. split; [discriminate | intros H; exfalso; apply H; left; exact E].
  - apply beqb_neq in E. destruct (split_first c l) as [[a b]|].
    + split; [discriminate|]. intros H. exfalso. apply H. right.
      destruct (In_dec Byte.byte_eq_dec c l) as [i|n]; [exact i|]. apply IH in n; discriminate.
    + split; [|reflexivity]. intros _ [H|H]; [contradiction | apply (proj1 IH eq_refl); exact H].
Qed.

(* split on every occurrence of [c] (like strings.Split with a one-byte separator):
   always returns a non-empty list *)
Fixpoint split_on (c : byte) (l : bytes) : list bytes :=
  match l with
  | [] => [[]]
  | x :: l' =>
      if beqb x c then [] :: split_on c l'
      else match split_on c l' with
           | [] => [[x]]   (* unreachable *)
           | h :: t => (x :: h) :: t
           end
  end.

Fixpoint join (sep : bytes) (l : list bytes) : bytes :=
  match l with
  | [] => []
  | [x] => x
  | x :: l' => x ++ sep ++ join sep l'
  end.

Lemma split_on_nonempty c l : split_on c l <> [].
Proof. induction l as [|x l IH]; cbn; [discriminate|]. destruct (beqb x c); [discriminate|]. destruct (split_on c l); [contradiction | discriminate]. Qed.

Lemma join_split_on c l : join [c] (split_on c l) = l.
Proof.
  induction l as [|x l IH]; cbn; [reflexivity|].
  destruct (beqb x c) eqn:E.
  - apply beqb_eq in E; subst. pose proof (split_on_nonempty c l) as Hn.
    destruct (split_on c l) as [|h t] eqn:S; [contradiction|]. cbn [join app]. cbn in IH. rewrite IH. reflexivity.
  - pose proof (split_on_nonempty c l) as Hn.
    destruct (split_on c l) as [|h t] eqn:S; [contradiction|].
    destruct t as [|h2 t]; cbn in *; rewrite <- IH; reflexivity.
Qed.

(* ---- ASCII case and whitespace (Go's strings.ToLower/ToUpper/TrimSpace restricted to ASCII) ---- *)
Definition byteN (b : byte) : N := Byte.to_N b.
Definition Nbyte (n : N) : byte := match Byte.of_N n with Some b => b | None => x00 end.

Definition lower_byte (b : byte) : byte :=
  let n := byteN b in if (65 <=? n)%N && (n <=? 90)%N then Nbyte (n + 32) else b.
Definition upper_byte (b : byte) : byte :=
  let n := byteN b in if (97 <=? n)%N && (n <=? 122)%N then Nbyte (n - 32) else b.
Definition to_lower (l : bytes) : bytes := map lower_byte l.
Definition to_upper (l : bytes) : bytes := map upper_byte l.

(* ASCII white space as strings.TrimSpace sees it: \t \n \v \f \r and space *)
Definition is_space (b : byte) : bool :=
  let n := byteN b in ((9 <=? n)%N && (n <=? 13)%N) || (n =? 32)%N.

Fixpoint trim_left (l : bytes) : bytes :=
  match l with
  | [] => []
  | x :: l' => if is_space x then trim_left l' else l
  end.
Definition trim_right (l : bytes) : bytes := rev (trim_left (rev l)).
Definition trim_space (l : bytes) : bytes := trim_right (trim_left l).

Definition is_nil {A} (l : list A) : bool := match l with [] => true | _ => false end.
Definition is_empty (l : bytes) : bool := match l with [] => true | _ => false end.

Fixpoint count_byte (c : byte) (l : bytes) : nat :=
  match l with [] => 0 | x :: l' => (if beqb x c then 1 else 0) + count_byte c l' end.

Definition lenN (l : bytes) : N := N.of_nat (length l).
