(* Base/Codec.v — the line protocol shared by the Go harness, the extracted model runner and the
   in-Coq [vm_compute] cross-check.  A case is one line of space separated tokens; byte strings
   travel hex encoded ("-" for the empty string), numbers in decimal, lists of byte strings as
   comma separated hex items ("_" for the empty list), lists of lists with ';'. All parsing and
   printing is done in Gallina so the OCaml driver only moves bytes. *)
From Verif Require Export Bytes.

Definition hex_digit (n : N) : byte :=
  if (n <? 10)%N then Nbyte (48 + n) else Nbyte (87 + n).
Definition hex_val (b : byte) : option N :=
  let n := byteN b in
  if (48 <=? n)%N && (n <=? 57)%N then Some (n - 48)%N
  else if (97 <=? n)%N && (n <=? 102)%N then Some (n - 87)%N
  else if (65 <=? n)%N && (n <=? 70)%N then Some (n - 55)%N
  else None.

Fixpoint hex_enc (l : bytes) : bytes :=
  match l with
  | [] => []
  | b :: l' => hex_digit (byteN b / 16) :: hex_digit (byteN b mod 16) :: hex_enc l'
  end.
Fixpoint hex_dec (l : bytes) : option bytes :=
  match l with
  | [] => Some []
  | h :: lo :: l' =>
      match hex_val h, hex_val lo, hex_dec l' with
      | Some a, Some b, Some r => Some (Nbyte (16 * a + b) :: r)
      | _, _, _ => None
      end
  | _ => None
  end.

(* token forms *)
Definition tok_bytes (l : bytes) : bytes := match l with [] => B"-" | _ => hex_enc l end.
Definition untok_bytes (t : bytes) : option bytes :=
  if bytes_eqb t B"-" then Some [] else hex_dec t.

Fixpoint mapM {A C} (f : A -> option C) (l : list A) : option (list C) :=
  match l with
  | [] => Some []
  | x :: l' => match f x, mapM f l' with Some y, Some r => Some (y :: r) | _, _ => None end
  end.

Definition tok_list (l : list bytes) : bytes :=
  match l with [] => B"_" | _ => join B"," (map tok_bytes l) end.
Definition untok_list (t : bytes) : option (list bytes) :=
  if bytes_eqb t B"_" then Some [] else mapM untok_bytes (split_on ","%byte t).

Definition tok_list2 (l : list (list bytes)) : bytes :=
  match l with [] => B"!" | _ => join B";" (map tok_list l) end.
Definition untok_list2 (t : bytes) : option (list (list bytes)) :=
  if bytes_eqb t B"!" then Some [] else mapM untok_list (split_on ";"%byte t).

(* decimal numbers *)
Fixpoint dec_digits (fuel : nat) (n : N) (acc : bytes) : bytes :=
  match fuel with
  | O => acc
  | S f => let acc' := Nbyte (48 + n mod 10) :: acc in
           if (n <? 10)%N then acc' else dec_digits f (n / 10) acc'
  end.
Definition show_N (n : N) : bytes := dec_digits (S (N.to_nat (N.log2 n))) n [].
Definition show_Z (z : Z) : bytes :=
  match z with
  | Zneg p => "-"%byte :: show_N (Npos p)
  | _ => show_N (Z.to_N z)
  end.
Definition show_nat (n : nat) : bytes := show_N (N.of_nat n).
Definition show_bool (b : bool) : bytes := if b then B"1" else B"0".

Fixpoint parse_dec (l : bytes) (acc : N) : option N :=
  match l with
  | [] => Some acc
  | b :: l' => let n := byteN b in
               if (48 <=? n)%N && (n <=? 57)%N then parse_dec l' (10 * acc + (n - 48)) else None
  end.
Definition parse_N (l : bytes) : option N := match l with [] => None | _ => parse_dec l 0%N end.
Definition parse_Z (l : bytes) : option Z :=
  match l with
  | b :: l' => if beqb b "-"%byte then option_map (fun n => Z.opp (Z.of_N n)) (parse_N l')
               else option_map Z.of_N (parse_N l)
  | [] => None
  end.
Definition parse_nat (l : bytes) : option nat := option_map N.to_nat (parse_N l).
Definition parse_bool (l : bytes) : option bool :=
  if bytes_eqb l B"1" then Some true else if bytes_eqb l B"0" then Some false else None.

Definition tokens (l : bytes) : list bytes := split_on " "%byte l.
Definition unwords (l : list bytes) : bytes := join B" " l.

Definition parse_error : bytes := B"PARSE-ERROR".

(* all 256 bytes in numeric order: the OCaml driver builds its char<->byte tables from this *)
Definition all_bytes : list byte := map (fun n => Nbyte (N.of_nat n)) (seq 0 256).

(* option bind notation used by the run_line parsers *)
Notation "'do' x <- e ; k" := (match e with Some x => k | None => parse_error end)
  (at level 200, x pattern, e at level 100, k at level 200, right associativity).
