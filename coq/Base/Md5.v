(* Base/Md5.v — RFC 1321 MD5 over [list byte], so the models can print real ETag strings.
   Correctness of this transcription is not proved; it is checked against Go's crypto/md5 by every
   correspondence run that compares ETags (and by the RFC test vectors below). *)
From Verif Require Import Bytes Codec.
Local Open Scope N_scope.

Definition w32 (x : N) : N := x mod 4294967296.
Definition rotl32 (x : N) (c : N) : N := w32 (N.lor (N.shiftl x c) (N.shiftr (w32 x) (32 - c))).
Definition not32 (x : N) : N := 4294967295 - w32 x.

Definition md5_s : list N :=
  [7;12;17;22;7;12;17;22;7;12;17;22;7;12;17;22;
   5;9;14;20;5;9;14;20;5;9;14;20;5;9;14;20;
   4;11;16;23;4;11;16;23;4;11;16;23;4;11;16;23;
   6;10;15;21;6;10;15;21;6;10;15;21;6;10;15;21].
Definition md5_k : list N :=
  [0xd76aa478;0xe8c7b756;0x242070db;0xc1bdceee;0xf57c0faf;0x4787c62a;0xa8304613;0xfd469501;
   0x698098d8;0x8b44f7af;0xffff5bb1;0x895cd7be;0x6b901122;0xfd987193;0xa679438e;0x49b40821;
   0xf61e2562;0xc040b340;0x265e5a51;0xe9b6c7aa;0xd62f105d;0x02441453;0xd8a1e681;0xe7d3fbc8;
   0x21e1cde6;0xc33707d6;0xf4d50d87;0x455a14ed;0xa9e3e905;0xfcefa3f8;0x676f02d9;0x8d2a4c8a;
   0xfffa3942;0x8771f681;0x6d9d6122;0xfde5380c;0xa4beea44;0x4bdecfa9;0xf6bb4b60;0xbebfbc70;
   0x289b7ec6;0xeaa127fa;0xd4ef3085;0x04881d05;0xd9d4d039;0xe6db99e5;0x1fa27cf8;0xc4ac5665;
   0xf4292244;0x432aff97;0xab9423a7;0xfc93a039;0x655b59c3;0x8f0ccc92;0xffeff47d;0x85845dd1;
   0x6fa87e4f;0xfe2ce6e0;0xa3014314;0x4e0811a1;0xf7537e82;0xbd3af235;0x2ad7d2bb;0xeb86d391].

Fixpoint le_words (l : bytes) : list N :=
  match l with
  | a :: b :: c :: d :: r => (byteN a + 256 * byteN b + 65536 * byteN c + 16777216 * byteN d) :: le_words r
  | _ => []
  end.
Fixpoint le_bytes (n : nat) (x : N) : bytes :=
  match n with O => [] | S n' => Nbyte (x mod 256) :: le_bytes n' (x / 256) end.

Definition md5_round (m : list N) (st : N * N * N * N) (i : nat) : N * N * N * N :=
  let '(a, b, c, d) := st in
  let iN := N.of_nat i in
  let '(f, g) :=
    if iN <? 16 then (N.lor (N.land b c) (N.land (not32 b) d), iN)
    else if iN <? 32 then (N.lor (N.land d b) (N.land (not32 d) c), (5 * iN + 1) mod 16)
    else if iN <? 48 then (N.lxor (N.lxor b c) d, (3 * iN + 5) mod 16)
    else (N.lxor c (N.lor b (not32 d)), (7 * iN) mod 16) in
  let f := w32 (f + a + nth i md5_k 0 + nth (N.to_nat g) m 0) in
  (d, w32 (b + rotl32 f (nth i md5_s 0)), b, c).

Definition md5_chunk (st : N * N * N * N) (chunk : bytes) : N * N * N * N :=
  let m := le_words chunk in
  let '(a, b, c, d) := st in
  let '(a', b', c', d') := fold_left (md5_round m) (seq 0 64) st in
  (w32 (a + a'), w32 (b + b'), w32 (c + c'), w32 (d + d')).

Fixpoint chunks64 (fuel : nat) (l : bytes) : list bytes :=
  match fuel with
  | O => []
  | S f => match l with [] => [] | _ => firstn 64 l :: chunks64 f (skipn 64 l) end
  end.

Definition md5_pad (l : bytes) : bytes :=
  let len := length l in
  let zeros := (Nat.modulo (119 - Nat.modulo len 64) 64)%nat in
  l ++ [x80] ++ repeat x00 zeros ++ le_bytes 8 (8 * N.of_nat len).

Definition md5 (l : bytes) : bytes :=
  let p := md5_pad l in
  let '(a, b, c, d) := fold_left md5_chunk (chunks64 (S (length p)) p)
                                 (0x67452301, 0xefcdab89, 0x98badcfe, 0x10325476) in
  le_bytes 4 a ++ le_bytes 4 b ++ le_bytes 4 c ++ le_bytes 4 d.

Definition md5_hex (l : bytes) : bytes := hex_enc (md5 l).

(* RFC 1321 test suite *)
Example md5_empty : md5_hex [] = B"d41d8cd98f00b204e9800998ecf8427e". Proof. vm_compute. reflexivity. Qed.
Example md5_abc : md5_hex B"abc" = B"900150983cd24fb0d6963f7d28e17f72". Proof. vm_compute. reflexivity. Qed.
Example md5_long : md5_hex B"12345678901234567890123456789012345678901234567890123456789012345678901234567890"
  = B"57edf4a22be3c955ac49da2e2107b67a". Proof. vm_compute. reflexivity. Qed.
