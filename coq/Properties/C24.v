(* Properties/C24.v — bucket-routed storages are isolated (conditional middleware).
   Statements are over ALL routing configurations, ALL worlds (lists of backing stores) and ALL
   operations / histories of the model. *)
From Verif Require Import Bytes Codec Router RouterProofs.

(* isolation, part 1: an operation changes no backing storage other than the one its (destination)
   bucket is routed to; reads (Head, ListBuckets) change nothing at all *)
Theorem C24_isolation_storages : forall c w o j,
  (forall i b, target c o = Some (i, b) -> j <> i) ->
  get_store (fst (step c w o)) j = get_store w j.
Proof. exact step_other_storage. Qed.
Print Assumptions C24_isolation_storages.

(* isolation, part 2: inside that storage only the named bucket changes *)
Theorem C24_isolation_buckets : forall c w o i b b2,
  target c o = Some (i, b) -> b2 <> b -> i < length w ->
  aget b2 (get_store (fst (step c w o)) i) = aget b2 (get_store w i).
Proof. exact step_other_bucket. Qed.
Print Assumptions C24_isolation_buckets.

(* isolation over histories: a storage that no operation of the history targets is untouched *)
Theorem C24_isolation_history : forall c ops w j,
  (forall o i b, In o ops -> target c o = Some (i, b) -> j <> i) ->
  get_store (fst (run c w ops)) j = get_store w j.
Proof.
  intros c ops. induction ops as [|o ops IH]; intros w j H; cbn [run]; [reflexivity|].
  destruct (step c w o) as [w1 x] eqn:E. destruct (run c w1 ops) as [w2 xs] eqn:E2. cbn [fst].
  replace w2 with (fst (run c w1 ops)) by (rewrite E2; reflexivity).
  rewrite IH by (intros o' i b Hin; apply H; right; exact Hin).
  replace w1 with (fst (step c w o)) by (rewrite E; reflexivity).
  apply step_other_storage. intros i b. apply H. left. reflexivity.
Qed.
Print Assumptions C24_isolation_history.

(* the target of an operation is the storage its bucket is routed to (lookupStorage) *)
Theorem C24_target_is_route : forall c o i b, target c o = Some (i, b) -> i = route c b.
Proof. intros c o i b. destruct o; cbn; intros H; inversion H; reflexivity. Qed.
Print Assumptions C24_target_is_route.

(* ListBuckets is complete: every bucket of the default storage and of every mapped storage is listed *)
Theorem C24_list_complete : forall c w b,
  (In b (buckets_of (get_store w 0)) \/ exists e, In e c /\ In b (buckets_of (get_store w (snd e)))) ->
  exists l, snd (step c w ListBuckets) = RList l /\ In b l.
Proof.
  intros c w b H. eexists. split; [reflexivity|]. apply In_isort. apply in_or_app.
  destruct H as [H|(e & He & Hb)]; [right; exact H | left]. apply in_flat_map. exists e. split; assumption.
Qed.
Print Assumptions C24_list_complete.

(* list_no_dup at full strength: each bucket once — refuted: two mapping entries that share one
   backing database (each entry is its own storage instance) list that database once per entry *)
Definition C24_list_no_dup_full : Prop :=
  forall c w l, snd (step c w ListBuckets) = RList l -> NoDup l.

Theorem C24_list_no_dup_refuted : ~ C24_list_no_dup_full.
Proof.
  intros F.
  specialize (F [(B"aaa", 1); (B"bbb", 1)] (fst (run [(B"aaa", 1); (B"bbb", 1)] [[]; []; []] [CreateBucket B"aaa"])) _ eq_refl).
  vm_compute in F. inversion F as [|x l Hn Hd]. apply Hn. left. reflexivity.
Qed.
Print Assumptions C24_list_no_dup_refuted.

(* what remains true with no mapping entries at all: the listing is the default storage's listing *)
Theorem C24_list_no_dup_partial : forall w l,
  snd (step [] w ListBuckets) = RList l -> forall b, In b l <-> In b (buckets_of (get_store w 0)).
Proof. intros w l H b. cbn in H. inversion H; subst. apply In_isort. Qed.
Print Assumptions C24_list_no_dup_partial.

(* cross_copy_eq_same_copy at full strength: after a successful copy the destination object is the
   source object, whichever storages are involved — refuted: a copy between different storage
   instances re-puts the bytes with nil options and loses user metadata, tags and the multipart ETag *)
Definition C24_cross_copy_eq_same_copy_full : Prop :=
  forall c w sb sk db dk ob,
  find_obj (get_store w (route c sb)) sb sk = inr ob ->
  snd (step c w (Copy sb sk db dk)) = ROk ->
  find_obj (get_store (fst (step c w (Copy sb sk db dk))) (route c db)) db dk = inr ob.

Theorem C24_cross_copy_eq_same_copy_refuted : ~ C24_cross_copy_eq_same_copy_full.
Proof.
  intros F.
  set (c := [(B"aaa", 1)]).
  set (w := fst (run c [[]; []; []] [CreateBucket B"aaa"; CreateBucket B"ddd"; Put B"aaa" B"k" (mkobj B"d" true false)])).
  specialize (F c w B"aaa" B"k" B"ddd" B"k2" (mkobj B"d" true false) eq_refl eq_refl).
  vm_compute in F. discriminate.
Qed.
Print Assumptions C24_cross_copy_eq_same_copy_refuted.

(* ... and what is true: a same-instance copy preserves the object entirely; a cross-instance copy
   preserves content and content type and is exact when the source carries no user metadata, no
   tags and no multipart ETag *)
Theorem C24_cross_copy_eq_same_copy_partial : forall c w sb sk db dk ob,
  find_obj (get_store w (route c sb)) sb sk = inr ob ->
  snd (step c w (Copy sb sk db dk)) = ROk ->
  (same_instance c sb db = true \/ (o_u ob = false /\ o_t ob = false /\ o_m ob = false)) ->
  find_obj (get_store (fst (step c w (Copy sb sk db dk))) (route c db)) db dk = inr ob.
Proof.
  intros c w sb sk db dk ob F R H. rewrite (copy_result _ _ _ _ _ _ _ F R).
  destruct H as [H|(H1 & H2 & H3)]; [rewrite H; reflexivity|].
  destruct (same_instance c sb db); [reflexivity|]. destruct ob; cbn in *; subst; reflexivity.
Qed.
Print Assumptions C24_cross_copy_eq_same_copy_partial.

Theorem C24_cross_copy_content_preserved : forall c w sb sk db dk ob,
  find_obj (get_store w (route c sb)) sb sk = inr ob ->
  snd (step c w (Copy sb sk db dk)) = ROk ->
  exists ob', find_obj (get_store (fst (step c w (Copy sb sk db dk))) (route c db)) db dk = inr ob'
              /\ o_data ob' = o_data ob /\ o_c ob' = o_c ob.
Proof.
  intros c w sb sk db dk ob F R. eexists. split; [exact (copy_result _ _ _ _ _ _ _ F R)|].
  destruct (same_instance c sb db); split; reflexivity.
Qed.
Print Assumptions C24_cross_copy_content_preserved.

(* non-vacuity: three storages, a cross copy and a duplicated listing *)
Example C24_ex :
  run_line B"aaa:1,bbb:1,ccc:2 cb,aaa;cb,ccc;put,aaa,k1,d1,1;cp,aaa,k1,ccc,k2;cp,aaa,k1,aaa,k3;lb" =
  B"ok;ok;ok;ok;ok;L:aaa,aaa,ccc | 0: 1:aaa{k1=d1:c1u1t1m0,k3=d1:c1u1t1m0} 2:ccc{k2=d1:c1u0t0m0}".
Proof. vm_compute. reflexivity. Qed.
