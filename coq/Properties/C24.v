(* Properties/C24.v — bucket-routed storages are isolated (conditional middleware).
   Statements are over ALL routing configurations, ALL worlds (lists of backing stores with
   versioned and unversioned buckets), ALL operations / histories and ALL copy options (source
   version id, byte range, the four copy-source preconditions) of the model. *)
From Verif Require Import Bytes Codec Router RouterProofs.

(* isolation, part 1: an operation changes no backing storage other than the one its (destination)
   bucket is routed to; reads (Head, ListBuckets) change nothing at all *)
Theorem C24_isolation_storages : forall c now w o j,
  (forall i b, target c o = Some (i, b) -> j <> i) ->
  get_store (fst (step c now w o)) j = get_store w j.
Proof. exact step_other_storage. Qed.
Print Assumptions C24_isolation_storages.

(* isolation, part 2: inside that storage only the named bucket changes *)
Theorem C24_isolation_buckets : forall c now w o i b b2,
  target c o = Some (i, b) -> b2 <> b -> i < length w ->
  aget b2 (get_store (fst (step c now w o)) i) = aget b2 (get_store w i).
Proof. exact step_other_bucket. Qed.
Print Assumptions C24_isolation_buckets.

(* isolation over histories: a storage that no operation of the history targets is untouched *)
Theorem C24_isolation_history : forall c ops n w j,
  (forall o i b, In o ops -> target c o = Some (i, b) -> j <> i) ->
  get_store (fst (run_from c n w ops)) j = get_store w j.
Proof.
  intros c ops. induction ops as [|o ops IH]; intros n w j H; cbn [run_from]; [reflexivity|].
  destruct (step c (n * 1000 + 537)%Z w o) as [w1 x] eqn:E. destruct (run_from c (n + 1)%Z w1 ops) as [w2 xs] eqn:E2. cbn [fst].
  replace w2 with (fst (run_from c (n + 1)%Z w1 ops)) by (rewrite E2; reflexivity).
  rewrite IH by (intros o' i b Hin; apply H; right; exact Hin).
  replace w1 with (fst (step c (n * 1000 + 537)%Z w o)) by (rewrite E; reflexivity).
  apply step_other_storage. intros i b. apply H. left. reflexivity.
Qed.
Print Assumptions C24_isolation_history.

(* the target of an operation is the storage its bucket is routed to (lookupStorage) *)
Theorem C24_target_is_route : forall c o i b, target c o = Some (i, b) -> i = route c b.
Proof. intros c o i b. destruct o; cbn; intros H; inversion H; reflexivity. Qed.
Print Assumptions C24_target_is_route.

(* ListBuckets is complete: every bucket of the default storage and of every mapped storage is listed *)
Theorem C24_list_complete : forall c now w b,
  (In b (buckets_of (get_store w 0)) \/ exists e, In e c /\ In b (buckets_of (get_store w (snd e)))) ->
  exists l, snd (step c now w ListBuckets) = RList l /\ In b l.
Proof.
  intros c now w b H. eexists. split; [reflexivity|]. apply In_isort. apply in_or_app.
  destruct H as [H|(e & He & Hb)]; [right; exact H | left]. apply in_flat_map. exists e. split; assumption.
Qed.
Print Assumptions C24_list_complete.

(* list_no_dup at full strength: each bucket once — refuted: two mapping entries that share one
   backing database (each entry is its own storage instance) list that database once per entry *)
Definition C24_list_no_dup_full : Prop :=
  forall c now w l, snd (step c now w ListBuckets) = RList l -> NoDup l.

Theorem C24_list_no_dup_refuted : ~ C24_list_no_dup_full.
Proof.
  intros F.
  specialize (F [(B"aaa", 1); (B"bbb", 1)] 0%Z (fst (run [(B"aaa", 1); (B"bbb", 1)] [[]; []; []] [CreateBucket B"aaa" false])) _ eq_refl).
  vm_compute in F. inversion F as [|x l Hn Hd]. apply Hn. left. reflexivity.
Qed.
Print Assumptions C24_list_no_dup_refuted.

(* what remains true with no mapping entries at all: the listing is the default storage's listing *)
Theorem C24_list_no_dup_partial : forall now w l,
  snd (step [] now w ListBuckets) = RList l -> forall b, In b l <-> In b (buckets_of (get_store w 0)).
Proof. intros now w l H b. cbn in H. inversion H; subst. apply In_isort. Qed.
Print Assumptions C24_list_no_dup_partial.

(* ---- copy-source preconditions ---- *)
(* the middleware's copySourceConditionsSatisfied decides exactly like the storage's own
   evaluateCopySourceConditions, for every combination of the four headers and every instant *)
Theorem C24_copy_conditions_agree : forall c lm, cross_conditions c lm = inner_conditions c lm.
Proof. exact conditions_agree. Qed.
Print Assumptions C24_copy_conditions_agree.

(* time preconditions are evaluated at second granularity: only the second of Last-Modified matters *)
Theorem C24_time_conditions_second_granularity : forall c lm lm',
  (lm / 1000 = lm' / 1000)%Z -> cross_conditions c lm = cross_conditions c lm'.
Proof. intros c lm lm' H. apply conditions_second_granularity. unfold trunc_s. rewrite H. reflexivity. Qed.
Print Assumptions C24_time_conditions_second_granularity.

(* a client that echoes the source's Last-Modified second back: If-Unmodified-Since passes,
   If-Modified-Since fails, whatever the sub-second part of the stored timestamp *)
Theorem C24_echoed_last_modified : forall lm,
  cross_conditions {| c_im := None; c_inm := None; c_ius := Some (lm / 1000 * 1000)%Z; c_ims := None |} lm = true /\
  cross_conditions {| c_im := None; c_inm := None; c_ius := None; c_ims := Some (lm / 1000 * 1000)%Z |} lm = false.
Proof.
  intros lm. unfold cross_conditions, trunc_s. cbn. rewrite Z.ltb_irrefl. cbn. split; reflexivity.
Qed.
Print Assumptions C24_echoed_last_modified.

(* ---- cross-storage copy = same-storage copy ---- *)
(* full strength: for every source store, destination store, source version id, range, precondition
   set, for CopyObject (mp = false) and UploadPartCopy + complete (mp = true), the cross-storage
   path has exactly the result (success / error kind, reported source version id) and writes exactly
   the destination state of the storage's own copy *)
Definition C24_cross_copy_eq_same_copy_full : Prop :=
  forall ss ds sb sk db dk co mp now,
  cross_copy ss ds sb sk db dk co mp now = inner_copy ss ds sb sk db dk co mp now.

(* refuted (1): user metadata, tags and the multipart ETag are lost by the re-put with nil options *)
Definition c24_src_store : store :=
  [(B"aaa", {| b_versioned := false; b_keys := [(B"k", [VObj {| o_data := B"d"; o_c := true; o_u := true; o_t := true; o_m := false; o_lm := 1537 |}])] |})].
Definition c24_dst_store : store := [(B"ddd", {| b_versioned := false; b_keys := [] |})].

Theorem C24_cross_copy_eq_same_copy_refuted : ~ C24_cross_copy_eq_same_copy_full.
Proof.
  intros F. specialize (F c24_src_store c24_dst_store B"aaa" B"k" B"ddd" B"k2" no_opts false 2537%Z).
  vm_compute in F. discriminate.
Qed.
Print Assumptions C24_cross_copy_eq_same_copy_refuted.

(* refuted (2): even the result kind differs for a ranged UploadPartCopy of an EMPTY source — the
   storage shares the wholly covered part without opening a reader (ok), the middleware's
   GetObject rejects the empty window (InvalidRange) *)
Definition C24_cross_copy_result_kind_full : Prop :=
  forall ss ds sb sk db dk co mp now,
  snd (cross_copy ss ds sb sk db dk co mp now) = snd (inner_copy ss ds sb sk db dk co mp now).

Theorem C24_cross_copy_result_kind_refuted : ~ C24_cross_copy_result_kind_full.
Proof.
  intros F.
  specialize (F [(B"aaa", {| b_versioned := false; b_keys := [(B"k", [VObj {| o_data := []; o_c := false; o_u := false; o_t := false; o_m := false; o_lm := 1537 |}])] |})]
                c24_dst_store B"aaa" B"k" B"ddd" B"k2" {| co_vid := None; co_range := RgSuffix 3; co_conds := no_conds |} true 2537%Z).
  vm_compute in F. discriminate.
Qed.
Print Assumptions C24_cross_copy_result_kind_refuted.

(* partial (a): outside that corner the result — success or the same error kind (NoSuchBucket,
   NoSuchKey, DeleteMarker, MethodNotAllowed for a pinned delete marker, PreconditionFailed,
   InvalidRange) and the reported source version id — is the same, for every source version id,
   range and precondition set, CopyObject and UploadPartCopy alike *)
Theorem C24_cross_copy_result_kind_partial : forall ss ds sb sk db dk co mp now,
  (forall src v, find_version ss sb sk (co_vid co) = inr (src, v) -> mp = true -> o_data src = [] -> is_ranged (co_range co) = false) ->
  snd (cross_copy ss ds sb sk db dk co mp now) = snd (inner_copy ss ds sb sk db dk co mp now).
Proof. exact copy_kinds_agree. Qed.
Print Assumptions C24_cross_copy_result_kind_partial.

(* partial (b): the written destination state is identical as well when the copy is an
   UploadPartCopy, or the source carries no user metadata, no tags and (for an unranged copy) no
   multipart ETag *)
Theorem C24_cross_copy_eq_same_copy_partial : forall ss ds sb sk db dk co mp now,
  (forall src v, find_version ss sb sk (co_vid co) = inr (src, v) ->
     (mp = true -> o_data src = [] -> is_ranged (co_range co) = false) /\
     (mp = true \/ (o_u src = false /\ o_t src = false /\ (o_m src = false \/ is_ranged (co_range co) = true)))) ->
  cross_copy ss ds sb sk db dk co mp now = inner_copy ss ds sb sk db dk co mp now.
Proof. exact copy_stores_agree. Qed.
Print Assumptions C24_cross_copy_eq_same_copy_partial.

(* partial (c): content (the requested window of the pinned version) and content type always survive *)
Theorem C24_cross_copy_content_preserved : forall src win rg mp now,
  o_data (copied_obj src win rg true mp now) = o_data (copied_obj src win rg false mp now) /\
  o_c (copied_obj src win rg true mp now) = o_c (copied_obj src win rg false mp now).
Proof. exact copied_obj_content. Qed.
Print Assumptions C24_cross_copy_content_preserved.

(* the router uses the storage's own copy exactly when both buckets resolve to one instance *)
Theorem C24_router_copy_paths : forall c now w sb sk db dk co,
  step c now w (Copy sb sk db dk co) =
  let '(ds', r) := (if same_instance c sb db then inner_copy else cross_copy)
                     (get_store w (route c sb)) (get_store w (route c db)) sb sk db dk co false now in
  (match ds' with Some s' => upd_nth (route c db) (fun _ => s') w | None => w end, r).
Proof. reflexivity. Qed.
Print Assumptions C24_router_copy_paths.

(* non-vacuity: versions, a pinned non-current version, a range, echoed Last-Modified, a duplicated listing *)
Example C24_ex :
  run_line B"aaa:1,bbb:1,ccc:2 cbv,aaa;cb,ccc;put,aaa,k1,abcdefgh,1;put,aaa,k1,xy,0;del,aaa,k1;cp,aaa,k1,ccc,k2,1,2:6,us0;cp,aaa,k1,ccc,k3,-,-,-;cp,aaa,k1,ccc,k3,3,-,-;upc,aaa,k1,ccc,k4,2,-,ms0;lb" =
  B"ok;ok;ok;ok;ok;ok:1;DeleteMarker;MethodNotAllowed;PreconditionFailed;L:aaa,aaa,ccc | 0: 1:aaa!{k1=DM|xy:c0u0t0m0|abcdefgh:c1u1t1m0} 2:ccc{k2=cdef:c1u0t0m0}".
Proof. vm_compute. reflexivity. Qed.
