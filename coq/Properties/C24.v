(* Properties/C24.v — bucket-routed storages are isolated (conditional middleware).
   Statements are over ALL routing configurations, ALL worlds (lists of backing stores with
   versioned and unversioned buckets), ALL operations / histories and ALL copy options (source
   version id, byte range, the four copy-source preconditions) of the model. *)
From Verif Require Import Bytes Codec Router RouterProofs.

(* isolation, part 1: an operation changes no backing storage other than the one its (destination)
   bucket is routed to; reads (Head, ListBuckets) change nothing at all *)
Theorem C24_isolation_storages : forall c now w o j,
  (forall i b, In (i, b) (targets c o) -> j <> i) ->
  get_store (fst (step c now w o)) j = get_store w j.
Proof. exact step_other_storage. Qed.
Print Assumptions C24_isolation_storages.

(* isolation, part 2: a bucket the operation does not name is unchanged in every backing storage *)
Theorem C24_isolation_buckets : forall c now w o j b2,
  (forall i b, In (i, b) (targets c o) -> b2 <> b) ->
  aget b2 (get_store (fst (step c now w o)) j) = aget b2 (get_store w j).
Proof. exact step_other_bucket. Qed.
Print Assumptions C24_isolation_buckets.

(* isolation over histories: a storage that no operation of the history targets is untouched *)
Theorem C24_isolation_history : forall c ops n w j,
  (forall o i b, In o ops -> In (i, b) (targets c o) -> j <> i) ->
  get_store (fst (run_from c n w ops)) j = get_store w j.
Proof.
  intros c ops. induction ops as [|o ops IH]; intros n w j H; cbn [run_from]; [reflexivity|].
  destruct (step c (n * 1000 + 537)%Z w o) as [w1 x] eqn:E. destruct (run_from c (n + 1)%Z w1 ops) as [w2 xs] eqn:E2. cbn [fst].
  replace w2 with (fst (run_from c (n + 1)%Z w1 ops)) by (rewrite E2; reflexivity).
  rewrite IH by (intros o' i b Hin; apply H; right; exact Hin).
  replace w1 with (fst (step c (n * 1000 + 537)%Z w o)) by (rewrite E; reflexivity).
  apply step_other_storage. intros i b. apply H. left. reflexivity.
Qed.
Print Assumptions C24_isolation_history.

(* the targets of an operation are the storages its buckets are routed to (lookupStorage) *)
Theorem C24_target_is_route : forall c o i b, In (i, b) (targets c o) -> i = route c b.
Proof. intros c o i b. destruct o; cbn; intros H; repeat (destruct H as [H|H]; [inversion H; reflexivity|]); destruct H. Qed.
Print Assumptions C24_target_is_route.

(* ListBuckets is complete: every bucket of the default storage and of every mapped storage is listed *)
Theorem C24_list_complete : forall c now w b,
  (In b (buckets_of (get_store w 0)) \/ exists e, In e c /\ In b (buckets_of (get_store w (snd e)))) ->
  exists l, snd (step c now w ListBuckets) = RList l /\ In b l.
Proof.
  intros c now w b H. eexists. split; [reflexivity|]. apply In_isort. apply in_or_app.
  destruct H as [H|(e & He & Hb)]; [right; exact H | left]. apply in_flat_map. exists e. split; assumption.
Qed.
Print Assumptions C24_list_complete.

(* list_no_dup at full strength: each bucket once — refuted: two mapping entries that share one
   backing database (each entry is its own storage instance) list that database once per entry *)
Definition C24_list_no_dup_full : Prop :=
  forall c now w l, snd (step c now w ListBuckets) = RList l -> NoDup l.

Theorem C24_list_no_dup_refuted : ~ C24_list_no_dup_full.
Proof.
  intros F.
  specialize (F [(B"aaa", 1); (B"bbb", 1)] 0%Z (fst (run [(B"aaa", 1); (B"bbb", 1)] [[]; []; []] [CreateBucket B"aaa" VOff])) _ eq_refl).
  vm_compute in F. inversion F as [|x l Hn Hd]. apply Hn. left. reflexivity.
Qed.
Print Assumptions C24_list_no_dup_refuted.

(* what remains true with no mapping entries at all: the listing is the default storage's listing *)
Theorem C24_list_no_dup_partial : forall now w l,
  snd (step [] now w ListBuckets) = RList l -> forall b, In b l <-> In b (buckets_of (get_store w 0)).
Proof. intros now w l H b. cbn in H. inversion H; subst. apply In_isort. Qed.
Print Assumptions C24_list_no_dup_partial.

(* ---- copy-source preconditions ---- *)
(* the middleware's copySourceConditionsSatisfied decides exactly like the storage's own
   evaluateCopySourceConditions, for every combination of the four headers and every instant *)
Theorem C24_copy_conditions_agree : forall c src, cross_conditions c src = inner_conditions c src.
Proof. exact conditions_agree. Qed.
Print Assumptions C24_copy_conditions_agree.

(* time preconditions are evaluated at second granularity: only the second of Last-Modified matters *)
Theorem C24_time_conditions_second_granularity : forall c o o',
  o_data o = o_data o' -> o_m o = o_m o' -> (o_lm o / 1000 = o_lm o' / 1000)%Z ->
  cross_conditions c o = cross_conditions c o'.
Proof. intros c o o' D M H. apply conditions_second_granularity; auto. unfold trunc_s. rewrite H. reflexivity. Qed.
Print Assumptions C24_time_conditions_second_granularity.

(* a client that echoes the source's Last-Modified second back: If-Unmodified-Since passes,
   If-Modified-Since fails, whatever the sub-second part of the stored timestamp *)
Theorem C24_echoed_last_modified : forall o,
  cross_conditions {| c_im := None; c_inm := None; c_ius := Some (o_lm o / 1000 * 1000)%Z; c_ims := None |} o = true /\
  cross_conditions {| c_im := None; c_inm := None; c_ius := None; c_ims := Some (o_lm o / 1000 * 1000)%Z |} o = false.
Proof.
  intros o. unfold cross_conditions, trunc_s. cbn. rewrite Z.ltb_irrefl. cbn. split; reflexivity.
Qed.
Print Assumptions C24_echoed_last_modified.

(* ---- cross-storage copy = same-storage copy ---- *)
(* full strength: for every source store, destination store, source version id, range, precondition
   set, for CopyObject (mp = false) and UploadPartCopy + complete (mp = true), the cross-storage
   path has exactly the result (success / error kind, reported source version id) and writes exactly
   the destination state of the storage's own copy *)
Definition C24_cross_copy_eq_same_copy_full : Prop :=
  forall ss ds sb sk db dk co mp now,
  cross_copy ss ds sb sk db dk co mp now = inner_copy ss ds sb sk db dk co mp now.

(* refuted (1): user metadata, tags and the multipart ETag are lost by the re-put with nil options *)
Definition c24_src_store : store :=
  [(B"aaa", {| b_mode := VOff; b_keys := [(B"k", [VObj {| o_data := B"d"; o_c := true; o_u := true; o_t := true; o_m := false; o_lm := 1537 |}])] |})].
Definition c24_dst_store : store := [(B"ddd", {| b_mode := VOff; b_keys := [] |})].

Theorem C24_cross_copy_eq_same_copy_refuted : ~ C24_cross_copy_eq_same_copy_full.
Proof.
  intros F. specialize (F c24_src_store c24_dst_store B"aaa" B"k" B"ddd" B"k2" no_opts false 2537%Z).
  vm_compute in F. discriminate.
Qed.
Print Assumptions C24_cross_copy_eq_same_copy_refuted.

(* refuted (2): even the result kind differs for a ranged UploadPartCopy of an EMPTY source — the
   storage shares the wholly covered part without opening a reader (ok), the middleware's
   GetObject rejects the empty window (InvalidRange) *)
Definition C24_cross_copy_result_kind_full : Prop :=
  forall ss ds sb sk db dk co mp now,
  snd (cross_copy ss ds sb sk db dk co mp now) = snd (inner_copy ss ds sb sk db dk co mp now).

Theorem C24_cross_copy_result_kind_refuted : ~ C24_cross_copy_result_kind_full.
Proof.
  intros F.
  specialize (F [(B"aaa", {| b_mode := VOff; b_keys := [(B"k", [VObj {| o_data := []; o_c := false; o_u := false; o_t := false; o_m := false; o_lm := 1537 |}])] |})]
                c24_dst_store B"aaa" B"k" B"ddd" B"k2" {| co_vid := None; co_range := RgSuffix 3; co_conds := no_conds |} true 2537%Z).
  vm_compute in F. discriminate.
Qed.
Print Assumptions C24_cross_copy_result_kind_refuted.

(* partial (a): outside that corner the result — success or the same error kind (NoSuchBucket,
   NoSuchKey, DeleteMarker, MethodNotAllowed for a pinned delete marker, PreconditionFailed,
   InvalidRange) and the reported source version id — is the same, for every source version id,
   range and precondition set, CopyObject and UploadPartCopy alike *)
Theorem C24_cross_copy_result_kind_partial : forall ss ds sb sk db dk co mp now,
  (forall src v, find_version ss sb sk (co_vid co) = inr (src, v) -> mp = true -> o_data src = [] -> is_ranged (co_range co) = false) ->
  snd (cross_copy ss ds sb sk db dk co mp now) = snd (inner_copy ss ds sb sk db dk co mp now).
Proof. exact copy_kinds_agree. Qed.
Print Assumptions C24_cross_copy_result_kind_partial.

(* partial (b): the written destination state is identical as well when the copy is an
   UploadPartCopy, or the source carries no user metadata, no tags and (for an unranged copy) no
   multipart ETag *)
Theorem C24_cross_copy_eq_same_copy_partial : forall ss ds sb sk db dk co mp now,
  (forall src v, find_version ss sb sk (co_vid co) = inr (src, v) ->
     (mp = true -> o_data src = [] -> is_ranged (co_range co) = false) /\
     (mp = true \/ (o_u src = false /\ o_t src = false /\ (o_m src = false \/ is_ranged (co_range co) = true)))) ->
  cross_copy ss ds sb sk db dk co mp now = inner_copy ss ds sb sk db dk co mp now.
Proof. exact copy_stores_agree. Qed.
Print Assumptions C24_cross_copy_eq_same_copy_partial.

(* partial (c): content (the requested window of the pinned version) and content type always survive *)
Theorem C24_cross_copy_content_preserved : forall src win rg mp now,
  o_data (copied_obj src win rg true mp now) = o_data (copied_obj src win rg false mp now) /\
  o_c (copied_obj src win rg true mp now) = o_c (copied_obj src win rg false mp now).
Proof. exact copied_obj_content. Qed.
Print Assumptions C24_cross_copy_content_preserved.

(* the router uses the storage's own copy exactly when both buckets resolve to one instance *)
Theorem C24_router_copy_paths : forall c now w sb sk db dk co,
  step c now w (Copy sb sk db dk co) =
  let '(ds', r) := (if same_instance c sb db then inner_copy else cross_copy)
                     (get_store w (route c sb)) (get_store w (route c db)) sb sk db dk co false now in
  (match ds' with Some s' => upd_nth (route c db) (fun _ => s') w | None => w end, r).
Proof. reflexivity. Qed.
Print Assumptions C24_router_copy_paths.

(* ---- a cross-storage copy racing with another client ---- *)
(* The cross-storage copy is several source calls.  For EVERY call boundary k at which another client
   overwrites or deletes the source key (any bucket mode: unversioned, Enabled, Suspended; any
   source version id, range, precondition set; CopyObject and UploadPartCopy), the copy is one
   atomic step: its result and the destination state are those of the copy executed entirely before
   the writer, or entirely after the writer, or it fails with PreconditionFailed and writes nothing.
   Never bytes of one generation with metadata / preconditions / SourceVersionID of another. *)
Theorem C24_interleaved_copy_atomic : forall k wr ss ds sb sk db dk co mp now,
  cross_copy_at k wr ss ds sb sk db dk co mp now = cross_copy ss ds sb sk db dk co mp now \/
  cross_copy_at k wr ss ds sb sk db dk co mp now = cross_copy (apply_writer wr ss sb sk) ds sb sk db dk co mp now \/
  cross_copy_at k wr ss ds sb sk db dk co mp now = (None, RPrecondition).
Proof. intros. apply cross_copy_at_atomic. Qed.
Print Assumptions C24_interleaved_copy_atomic.

(* the call sequence Head / preconditions / Get(IfMatch = head's ETag) / Put IS the copy when
   nothing intervenes, and between Head and Get the only third outcome is the failed precondition *)
Theorem C24_copy_call_sequence : forall s sw ds sb sk db dk co mp now,
  cross_copy_gen s s ds sb sk db dk co mp now = cross_copy s ds sb sk db dk co mp now /\
  (cross_copy_gen s sw ds sb sk db dk co mp now = cross_copy s ds sb sk db dk co mp now \/
   cross_copy_gen s sw ds sb sk db dk co mp now = cross_copy sw ds sb sk db dk co mp now \/
   cross_copy_gen s sw ds sb sk db dk co mp now = (None, RPrecondition)).
Proof. intros. split; [apply cross_copy_gen_same | apply cross_copy_gen_race]. Qed.
Print Assumptions C24_copy_call_sequence.

(* ---- the ambient transaction ---- *)
(* routing is independent of the ambient transaction: the operations of a transaction element give
   the results of the same operations run plainly; after a commit the world is the plain world; after
   a rollback every routed backing is the plain one and the default backing is what it was *)
Theorem C24_routing_independent_of_ambient_tx : forall c n w commit ops,
  w <> [] ->
  run_elem c n w (PTx commit ops) =
  (if commit then fst (plain_run c (n * 1000)%Z w ops)
   else set0 (fst (plain_run c (n * 1000)%Z w ops)) (get_store w 0),
   RTx (snd (plain_run c (n * 1000)%Z w ops)) commit).
Proof.
  intros c n w commit ops Hw. cbn [run_elem]. rewrite (tx_run_plain c ops _ w (get_store w 0) Hw).
  rewrite set0_get. destruct commit; [|reflexivity]. rewrite set0_set0, set0_get. reflexivity.
Qed.
Print Assumptions C24_routing_independent_of_ambient_tx.

Theorem C24_rollback_restores_only_the_default : forall c n w ops j,
  w <> [] ->
  get_store (fst (run_elem c n w (PTx false ops))) j =
  if Nat.eqb j 0 then get_store w 0 else get_store (fst (plain_run c (n * 1000)%Z w ops)) j.
Proof.
  intros c n w ops j Hw. rewrite C24_routing_independent_of_ambient_tx by exact Hw. cbn [fst].
  destruct j as [|j]; cbn [Nat.eqb].
  - apply get_set0. intros E. pose proof (f_equal (@length _) E) as L.
    assert (Hl : forall ops n w, length (fst (plain_run c n w ops)) = length w).
    { clear. induction ops as [|p ops IH]; intros n w; cbn [plain_run]; [reflexivity|].
      destruct (step c (n * 1000 + 537)%Z w (resolve c w p (n * 1000 + 537)%Z)) as [w1 x] eqn:E.
      specialize (IH (n + 1)%Z w1). destruct (plain_run c (n + 1)%Z w1 ops) as [w2 xs]. cbn [fst] in *.
      rewrite IH. replace w1 with (fst (step c (n * 1000 + 537)%Z w (resolve c w p (n * 1000 + 537)%Z))) by (rewrite E; reflexivity).
      apply step_length. }
    rewrite Hl in L. destruct w; [congruence | discriminate].
  - apply get_set0_other. discriminate.
Qed.
Print Assumptions C24_rollback_restores_only_the_default.

(* non-vacuity: versions, a pinned non-current version, a range, echoed Last-Modified, a duplicated listing *)
Example C24_ex :
  run_line B"aaa:1,bbb:1,ccc:2 cbv,aaa;cb,ccc;put,aaa,k1,abcdefgh,1;put,aaa,k1,xy,0;del,aaa,k1;cp,aaa,k1,ccc,k2,1,2:6,us0;cp,aaa,k1,ccc,k3,-,-,-;cp,aaa,k1,ccc,k3,3,-,-;upc,aaa,k1,ccc,k4,2,-,ms0;lb" =
  B"ok;ok;ok;ok;ok;ok:1;DeleteMarker;MethodNotAllowed;PreconditionFailed;L:aaa,aaa,ccc | 0: 1:aaa!{k1=DM|xy:c0u0t0m0|abcdefgh:c1u1t1m0} 2:ccc{k2=cdef:c1u0t0m0}".
Proof. vm_compute. reflexivity. Qed.
Example C24_ex_race :
  run_line B"aaa:1,ccc:2 cbs,aaa;cb,ccc;put,aaa,k1,abcdefgh,2;cpi,aaa,k1,ccc,k1,-,-,imE,2,put:xy:0;put,aaa,k2,abcdefgh,2;cpi,aaa,k2,ccc,k2,-,-,-,2,put:abcdefgh:0;txr=cb,ddd/put,ccc,k9,xy,0" =
  B"ok;ok;ok;PreconditionFailed;ok;ok:null;T[ok/ok]:rb | 0: 1:aaa~{k1=xy:c0u0t0m0,k2=abcdefgh:c0u0t0m0} 2:ccc{k2=abcdefgh:c1u0t0m0,k9=xy:c0u0t0m0}".
Proof. vm_compute. reflexivity. Qed.
