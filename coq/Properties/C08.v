(* Properties/C08.v — No referenced part content is ever deleted (sequential half, M-META, Model/Meta.v):
   the reference-counting / dedup / part-store protocol keeps the invariant [PartsInv] across every one of the
   15 operations and hence over all histories; corollaries: referenced parts are present, GET returns exactly
   the recorded bytes (byte half of C01), and sequential histories leave no orphans in the store (C09, sequential
   part).  The interleaving/GC half is in C08gc.v / C09.v.
   Statements + exact-lemma proofs + Print Assumptions only. *)
From Verif Require Import Bytes Codec Md5 Meta MetaBasics MetaWitness MetaPartsDefs MetaParts MetaPartsOps MetaPartsOwned.

Print count_rows.
Print PartsInv.
Print NoOrphans.
Print Dead.

(* every reachable state satisfies the part-protocol invariant — for ALL histories over all 15 operations:
   (1) the registry's ref_count of a part id is exactly the number of part rows carrying it, and the registry row is
       absent iff that number is 0;
   (2) every part row's bytes are in the store under its part id (no referenced part content is ever deleted);
   (3) every dedup-index entry points to a registered part that is stored with exactly the indexed content;
   (4) part ids in the store are old ids (never a future fresh id) *)
Theorem C08_parts_inv_reachable : forall ops,
  let s := fst (run ops) in
  (forall pid, reg_get (registry s) pid =
     if N.eqb (N.of_nat (length (filter (fun p => N.eqb (p_pid p) pid) (parts s)))) 0 then None
     else Some (N.of_nat (length (filter (fun p => N.eqb (p_pid p) pid) (parts s)))))
  /\ (forall row, In row (parts s) -> store_get (store s) (p_pid row) = Some (p_content row))
  /\ (forall c pid, In (c, pid) (dedup s) -> reg_get (registry s) pid <> None /\ store_get (store s) pid = Some c)
  /\ (forall p c, In (p, c) (store s) -> (p < next_id s)%N).
Proof. exact (fun ops => proj1 (run_parts_inv ops)). Qed.
Print Assumptions C08_parts_inv_reachable.

(* the same as a step theorem from ANY state satisfying the invariant (this is what the GC/interleaving proofs
   compose with): each operation transaction preserves PartsInv *)
Theorem C08_parts_inv_step : forall i hist s o, PartsInv s -> PartsInv (fst (step i hist s o)).
Proof. exact step_parts_inv. Qed.
Print Assumptions C08_parts_inv_step.

(* an id that nothing references or indexes any more is never referenced again by any operation
   (fresh ids are never reused; TryAddReferences needs a registry row; dedup entries are only added for fresh ids) *)
Theorem C08_dead_stays_dead : forall i hist s o pid,
  PartsInv s ->
  (count_rows s pid = 0%N /\ reg_get (registry s) pid = None /\ (forall c, ~ In (c, pid) (dedup s)) /\
   (pid < next_id s)%N) ->
  let s' := fst (step i hist s o) in
  count_rows s' pid = 0%N /\ reg_get (registry s') pid = None /\ (forall c, ~ In (c, pid) (dedup s')) /\
  (pid < next_id s')%N.
Proof. exact step_dead. Qed.
Print Assumptions C08_dead_stays_dead.

Theorem C08_next_id_monotone : forall i hist s o,
  PartsInv s -> (next_id s <= next_id (fst (step i hist s o)))%N.
Proof. exact step_next_id_mono. Qed.
Print Assumptions C08_next_id_monotone.

(* C08 proper, sequential histories: a part referenced by a part row (of a committed version or a pending
   upload) is in the part store with the recorded content *)
Theorem C08_referenced_present : forall ops row,
  In row (parts (fst (run ops))) ->
  store_get (store (fst (run ops))) (p_pid row) = Some (p_content row).
Proof. exact (fun ops => proj1 (proj2 (proj1 (run_parts_inv ops)))). Qed.
Print Assumptions C08_referenced_present.

(* byte half of C01: in every reachable state the part reader of ANY object row (completed or pending, whatever
   its recorded size) succeeds and yields exactly the concatenation of the recorded part contents in
   sequence-number order *)
Theorem C08_get_returns_recorded_bytes : forall ops r,
  let s := fst (run ops) in
  read_parts s (row_parts s r) = Some (concat (map p_content (row_parts s r))).
Proof. exact (fun ops r => get_recorded_bytes _ r (proj1 (run_parts_inv ops))). Qed.
Print Assumptions C08_get_returns_recorded_bytes.

(* … and GetObject of a row whose recorded size equals the sum of its part sizes returns the whole of it *)
Theorem C08_get_object_full_body : forall ops b k v r,
  let s := fst (run ops) in
  lookup s b k v = inl (Some r) -> parts_size (row_parts s r) = o_size r ->
  op_get s b k v = RObj (row_vid r) (o_etag r) (o_size r) (o_updated r) (o_ctype r)
                        (Some (concat (map p_content (row_parts s r)))).
Proof. exact (fun ops b k v r => op_get_recorded _ b k v r (proj1 (run_parts_inv ops))). Qed.
Print Assumptions C08_get_object_full_body.

(* C09, sequential part: in every reachable state every store entry is referenced by some part row, i.e.
   histories without crashes and without concurrency (including failed and rolled-back operations, dedup hits,
   overwrites, aborted uploads) leave nothing for the GC *)
Theorem C09_no_orphans_sequential : forall ops p c,
  store_get (store (fst (run ops))) p = Some c ->
  exists row, In row (parts (fst (run ops))) /\ p_pid row = p.
Proof. exact (fun ops => proj2 (run_parts_inv ops)). Qed.
Print Assumptions C09_no_orphans_sequential.

Theorem C09_no_orphans_step : forall i hist s o,
  PartsInv s -> NoOrphans s -> NoOrphans (fst (step i hist s o)).
Proof. exact step_no_orphans. Qed.
Print Assumptions C09_no_orphans_step.

(* no dangling part rows: in every reachable state each part row belongs to an existing object row (committed
   version or pending upload) that is not a delete marker; delete markers carry no parts *)
Theorem C08_parts_owned : forall ops row, In row (parts (fst (run ops))) ->
  exists r, In r (objs (fst (run ops))) /\ o_id r = p_obj row /\ o_dm r = false.
Proof. exact run_parts_owned. Qed.
Print Assumptions C08_parts_owned.

Theorem C08_delete_markers_have_no_parts : forall ops r row,
  In r (objs (fst (run ops))) -> o_dm r = true -> In row (parts (fst (run ops))) -> p_obj row <> o_id r.
Proof. exact run_dm_no_parts. Qed.
Print Assumptions C08_delete_markers_have_no_parts.

(* C09, sequential part, at full strength: every stored part is the recorded content of a part row of an existing
   object version or pending upload — stored bytes = referenced set after every sequential history *)
Theorem C09_stored_is_referenced_sequential : forall ops p c,
  store_get (store (fst (run ops))) p = Some c ->
  exists row r, In row (parts (fst (run ops))) /\ p_pid row = p /\ p_content row = c /\
                In r (objs (fst (run ops))) /\ o_id r = p_obj row /\ o_dm r = false.
Proof. exact run_stored_is_referenced. Qed.
Print Assumptions C09_stored_is_referenced_sequential.

(* ---- non-vacuity: concrete histories evaluated on the model ---- *)
Definition c08_k2 : bytes := B"k2".
Definition c08_view (s : mstate) :=
  (map (fun p => (p_obj p, p_seq p, p_pid p)) (parts s), registry s, map snd (dedup s), map fst (store s)).

(* three writes of identical content (one of them an in-place overwrite with identical content): one stored part,
   ref_count 2, the fresh duplicates were deleted again *)
Definition c08_h1 : list op := [OMb wb; OPut wb wk cA CRNone; OPut wb c08_k2 cA CRNone; OPut wb wk cA CRNone].
Example C08_ex_dedup_overwrite :
  c08_view (fst (run c08_h1)) = ([(4, 0, 1); (2, 0, 1)], [(1, 2)], [1], [1])%N.
Proof. vm_compute. reflexivity. Qed.
(* deleting one of the two sharers keeps the part, deleting the last one removes bytes, registry row and index entry *)
Example C08_ex_delete_sharer :
  c08_view (fst (run (c08_h1 ++ [ODel wb c08_k2 VRNone CRNone]))) = ([(2, 0, 1)], [(1, 1)], [1], [1])%N /\
  c08_view (fst (run (c08_h1 ++ [ODel wb c08_k2 VRNone CRNone; ODel wb wk VRNone CRNone]))) = ([], [], [], []).
Proof. split; vm_compute; reflexivity. Qed.
(* copy onto itself, re-upload of a part number, completion, in-place append, versioned append sharing the prefix:
   ref_counts 5, 2, 1 over 8 part rows and 3 stored parts *)
Definition c08_h2 : list op :=
  c08_h1 ++ [OPut wb wk cB CRNone; OCp wb wk VRNone wb wk; OCmu wb c08_k2; OUp wb c08_k2 6 1 cA;
             OUp wb c08_k2 6 1 cB; OUp wb c08_k2 6 2 cB; OCpl wb c08_k2 6 None CRNone; OApp wb c08_k2 cC None;
             OVer wb VEnabled; OApp wb c08_k2 cA None].
Example C08_ex_shared_prefix :
  registry (fst (run c08_h2)) = [(6, 5); (11, 2); (12, 1)]%N /\
  length (parts (fst (run c08_h2))) = 8 /\ map fst (store (fst (run c08_h2))) = [12; 11; 6]%N.
Proof. repeat split; vm_compute; reflexivity. Qed.
(* the hypotheses of C08_get_object_full_body are satisfiable by a 4-part object *)
Example C08_ex_get_hypotheses : exists r,
  lookup (fst (run c08_h2)) wb c08_k2 None = inl (Some r) /\
  parts_size (row_parts (fst (run c08_h2)) r) = o_size r /\
  length (row_parts (fst (run c08_h2)) r) = 4 /\
  concat (map p_content (row_parts (fst (run c08_h2)) r)) = cB ++ cB ++ cC ++ cA.
Proof. eexists. split; [vm_compute; reflexivity|]. repeat split; vm_compute; reflexivity. Qed.
(* Dead is satisfiable: after everything is deleted, part id 1 is dead *)
Example C08_ex_dead :
  Dead (fst (run (c08_h1 ++ [ODel wb c08_k2 VRNone CRNone; ODel wb wk VRNone CRNone]))) 1.
Proof. repeat split; try (vm_compute; reflexivity). intros c H. vm_compute in H. exact H. Qed.
(* delete markers and pending uploads coexist with stored parts in the example state: 3 object rows, one of them a
   delete marker without parts *)
Example C08_ex_owned_with_delete_marker :
  let s := fst (run [OMb wb; OVer wb VEnabled; OPut wb wk cA CRNone; ODel wb wk VRNone CRNone; OCmu wb wk;
                     OUp wb wk 4 1 cB]) in
  map (fun r => (o_id r, o_dm r, completed r)) (objs s) = [(2, false, true); (3, true, true); (4, false, false)]%N /\
  map (fun p => (p_obj p, p_pid p)) (parts s) = [(2, 1); (4, 5)]%N.
Proof. split; vm_compute; reflexivity. Qed.

(* ===== collector / interleaving half (from b-gc; Proofs/MetaGc*.v) ===== *)
(* Properties/C08gc.v — C08 "no referenced part content is ever deleted", garbage-collector and
   interleaving half (Model/MetaGc.v over Model/Meta.v).  The operations half (every storage operation
   preserves the part-protocol invariant, sequential histories) is Properties/C08.v by p-meta2; its
   theorems step_parts_inv / step_dead / step_next_id_mono (Proofs/MetaPartsOps.v) are what discharges the
   premises of the generic interleaving lemmas of Proofs/MetaGcSafe.v here.
   Statements + exact-lemma proofs + Print Assumptions only.

   Trace model: [run_trace ginit tr] for an ARBITRARY list [tr] of atomic steps
     SOp i h o            one whole storage operation transaction (Meta.step, any operation, any arguments)
     SObserve             GC: read the registry-vs-part-rows reconciliation (a snapshot that goes stale)
     SReconcile k aba     GC: apply one pending observation (version-guarded registry write)
     SPrune               GC: prune + backfill the dedup index
     SList young          GC: list the store's part ids (a snapshot that goes stale); ANY subset may be
                          exempted as "younger than the grace window" — including none
     SCondemn k           GC: Condemn one listed id inside a transaction (+ delete its dedup entries)
     SExtDel k/SExtSkip k GC: the transaction-free DeletePart of one condemned id, at any later time / failing
     SCrashPublished c, SCrashBeforeCommit c, SCrashAfterCommit i h o   processes dying around a commit
   The pools of pending observations / candidates / condemned ids are shared, steps pick any element:
   every interleaving of any number of operation threads and collector threads is such a list. *)
From Verif Require Import Bytes Codec Md5 Meta MetaGc MetaGcFinal.

(* SAFETY: in every state reachable by any interleaving, every part row (of a committed version or a
   pending upload) has its recorded bytes in the part store.  No grace window is assumed. *)
Theorem C08_gc_safe : forall tr,
  let g := run_trace ginit tr in
  forall row, In row (parts (ms g)) -> store_get (store (ms g)) (p_pid row) = Some (p_content row).
Proof. exact gc_safe. Qed.
Print Assumptions C08_gc_safe.

(* … hence every object row reads back completely: the reader's concatenation over its part rows succeeds
   and yields exactly the recorded part contents *)
Theorem C08_gc_every_version_readable : forall tr,
  let g := run_trace ginit tr in
  forall r, read_parts (ms g) (row_parts (ms g) r) = Some (concat (map p_content (row_parts (ms g) r))).
Proof. exact gc_readable. Qed.
Print Assumptions C08_gc_every_version_readable.

(* the registry equals the number of part rows at every transaction boundary of every interleaving *)
Theorem C08_gc_registry_exact : forall tr,
  let s := ms (run_trace ginit tr) in
  forall pid, reg_get (registry s) pid =
              if N.eqb (live_rows s pid) 0 then None else Some (live_rows s pid).
Proof. exact gc_registry_exact. Qed.
Print Assumptions C08_gc_registry_exact.

(* condemn_only_unreferenced: in ANY state (no invariant needed) Condemn answers true only for an id
   without part rows, and touches neither part rows nor the store *)
Theorem C08_condemn_only_unreferenced : forall s pid s',
  condemn_check s pid = (true, s') ->
  live_rows s pid = 0%N /\ parts s' = parts s /\ store s' = store s /\ reg_get (registry s') pid = None.
Proof. exact gc_condemn_unreferenced. Qed.
Print Assumptions C08_condemn_only_unreferenced.

(* condemned_never_re_referenced: once an id is on a collector's condemned list it has no part row, no
   registry row, no dedup entry, and is not a fresh id — in every continuation of the trace, i.e. whatever
   operations and GC steps run before (or after) its external delete *)
Theorem C08_condemned_never_re_referenced : forall tr1 tr2 pid,
  let g1 := run_trace ginit tr1 in
  In pid (g_cond g1) ->
  let s := ms (run_trace g1 tr2) in
  live_rows s pid = 0%N /\ reg_get (registry s) pid = None /\ (forall c, ~ In (c, pid) (dedup s))
  /\ (pid < next_id s)%N.
Proof. exact gc_condemned_dead. Qed.
Print Assumptions C08_condemned_never_re_referenced.

(* a stale reconciliation snapshot is harmless: in reachable states applying any pending observation
   changes nothing (the registry is already exact when the observation is taken) *)
Theorem C08_stale_reconciliation_is_noop : forall tr k aba,
  let g := run_trace ginit tr in
  ms (gstep_fn g (SReconcile k aba)) = ms g.
Proof. exact gc_reconcile_noop. Qed.
Print Assumptions C08_stale_reconciliation_is_noop.

(* non-vacuity: a trace in which the collector really condemns and deletes something while operations run:
   an orphan published by a crashed writer is listed, an identical body is then written (a fresh part, the
   dead one is not shared), the orphan is condemned and deleted, the object stays readable *)
Definition exb : bytes := B"b".
Definition exk : bytes := B"k".
Definition ex_trace : list gstep :=
  [SOp 0 [] (OMb exb); SCrashPublished B"xx"; SObserve; SList []; SOp 1 [] (OPut exb exk B"xx" CRNone);
   SCondemn 0; SReconcile 0 false; SPrune].
Example C08_ex_condemned : g_cond (run_trace ginit ex_trace) = [1%N].
Proof. vm_compute. reflexivity. Qed.
Example C08_ex_after_delete :
  let g := run_trace ginit (ex_trace ++ [SExtDel 0; SOp 2 [] (OGet exb exk VRNone)]) in
  map fst (store (ms g)) = [2%N] /\ map p_pid (parts (ms g)) = [2%N].
Proof. vm_compute. split; reflexivity. Qed.

(* ======================================================================================================
   Extended machine (Model/MetaExt.v): ranged GetObject, UploadPartCopy (sharing of a wholly covered source
   part via TryAddReferences, otherwise a fresh slice), ranged CopyObject.  All results above hold for every
   history of [xop]s run by [xrun] / every [xstep].  (Proofs/MetaPartsExt.v, MetaPartsExtIds.v, MetaPartsExtGc.v)
   ====================================================================================================== *)
From Verif Require Import MetaExt MetaPartsExt MetaPartsExtIds MetaPartsExtGc MetaRows1.

Theorem C08_ext_parts_inv_reachable : forall ops,
  let s := fst (xrun ops) in
  (forall pid, reg_get (registry s) pid =
     if N.eqb (N.of_nat (length (filter (fun p => N.eqb (p_pid p) pid) (parts s)))) 0 then None
     else Some (N.of_nat (length (filter (fun p => N.eqb (p_pid p) pid) (parts s)))))
  /\ (forall row, In row (parts s) -> store_get (store s) (p_pid row) = Some (p_content row))
  /\ (forall c pid, In (c, pid) (dedup s) -> reg_get (registry s) pid <> None /\ store_get (store s) pid = Some c)
  /\ (forall p c, In (p, c) (store s) -> (p < next_id s)%N).
Proof. exact (fun ops => proj1 (xrun_parts_inv ops)). Qed.
Print Assumptions C08_ext_parts_inv_reachable.

Theorem C08_ext_parts_inv_step : forall i hist s o, PartsInv s -> PartsInv (fst (xstep i hist s o)).
Proof. exact xstep_parts_inv. Qed.
Print Assumptions C08_ext_parts_inv_step.

Theorem C08_ext_dead_stays_dead : forall i hist s o pid,
  PartsInv s ->
  (count_rows s pid = 0%N /\ reg_get (registry s) pid = None /\ (forall c, ~ In (c, pid) (dedup s)) /\
   (pid < next_id s)%N) ->
  let s' := fst (xstep i hist s o) in
  count_rows s' pid = 0%N /\ reg_get (registry s') pid = None /\ (forall c, ~ In (c, pid) (dedup s')) /\
  (pid < next_id s')%N.
Proof. exact xstep_dead. Qed.
Print Assumptions C08_ext_dead_stays_dead.

(* next_id never decreases — with no premise on the state, for the core and for the extended step *)
Theorem C08_next_id_monotone_unconditional : forall i hist s o,
  (next_id s <= next_id (fst (step i hist s o)))%N.
Proof. exact step_next_id_mono_all. Qed.
Print Assumptions C08_next_id_monotone_unconditional.

Theorem C08_ext_next_id_monotone_unconditional : forall i hist s o,
  (next_id s <= next_id (fst (xstep i hist s o)))%N.
Proof. exact xstep_next_id_mono_all. Qed.
Print Assumptions C08_ext_next_id_monotone_unconditional.

Theorem C08_ext_referenced_present : forall ops row,
  In row (parts (fst (xrun ops))) ->
  store_get (store (fst (xrun ops))) (p_pid row) = Some (p_content row).
Proof. exact (fun ops => proj1 (proj2 (proj1 (xrun_parts_inv ops)))). Qed.
Print Assumptions C08_ext_referenced_present.

Theorem C08_ext_get_returns_recorded_bytes : forall ops r,
  let s := fst (xrun ops) in
  read_parts s (row_parts s r) = Some (concat (map p_content (row_parts s r))).
Proof. exact (fun ops r => get_recorded_bytes _ r (proj1 (xrun_parts_inv ops))). Qed.
Print Assumptions C08_ext_get_returns_recorded_bytes.

Theorem C08_ext_get_object_full_body : forall ops b k v r,
  let s := fst (xrun ops) in
  lookup s b k v = inl (Some r) -> parts_size (row_parts s r) = o_size r ->
  op_get s b k v = RObj (row_vid r) (o_etag r) (o_size r) (o_updated r) (o_ctype r)
                        (Some (concat (map p_content (row_parts s r)))).
Proof. exact (fun ops b k v r => op_get_recorded _ b k v r (proj1 (xrun_parts_inv ops))). Qed.
Print Assumptions C08_ext_get_object_full_body.

(* ranged GetObject: the returned body is the requested slice of the concatenation of the recorded part contents *)
Theorem C08_ext_get_range_returns_slice : forall ops b k v rs re r rg,
  let s := fst (xrun ops) in
  lookup s b k v = inl (Some r) -> parts_size (row_parts s r) = o_size r ->
  range_of (o_size r) rs re = Some rg ->
  op_get_range s b k v rs re =
    RObj (row_vid r) (o_etag r) (o_size r) (o_updated r) (o_ctype r)
         (Some (slice (concat (map p_content (row_parts s r))) rg)).
Proof. exact (fun ops b k v rs re r rg => op_get_range_recorded _ b k v rs re r rg (proj1 (xrun_parts_inv ops))). Qed.
Print Assumptions C08_ext_get_range_returns_slice.

(* … and a ranged read of an existing object never fails for lack of part bytes *)
Theorem C08_ext_get_range_never_misses_bytes : forall ops b k v rs re r,
  lookup (fst (xrun ops)) b k v = inl (Some r) ->
  op_get_range (fst (xrun ops)) b k v rs re <> RErr OtherErr.
Proof. exact (fun ops b k v rs re r => op_get_range_total _ b k v rs re r (proj1 (xrun_parts_inv ops))). Qed.
Print Assumptions C08_ext_get_range_never_misses_bytes.

Theorem C09_ext_no_orphans_sequential : forall ops p c,
  store_get (store (fst (xrun ops))) p = Some c ->
  exists row, In row (parts (fst (xrun ops))) /\ p_pid row = p.
Proof. exact (fun ops => proj2 (xrun_parts_inv ops)). Qed.
Print Assumptions C09_ext_no_orphans_sequential.

Theorem C09_ext_no_orphans_step : forall i hist s o,
  PartsInv s -> NoOrphans s -> NoOrphans (fst (xstep i hist s o)).
Proof. exact xstep_no_orphans. Qed.
Print Assumptions C09_ext_no_orphans_step.

Theorem C08_ext_parts_owned : forall ops row, In row (parts (fst (xrun ops))) ->
  exists r, In r (objs (fst (xrun ops))) /\ o_id r = p_obj row /\ o_dm r = false.
Proof. exact xrun_parts_owned. Qed.
Print Assumptions C08_ext_parts_owned.

Theorem C09_ext_stored_is_referenced_sequential : forall ops p c,
  store_get (store (fst (xrun ops))) p = Some c ->
  exists row r, In row (parts (fst (xrun ops))) /\ p_pid row = p /\ p_content row = c /\
                In r (objs (fst (xrun ops))) /\ o_id r = p_obj row /\ o_dm r = false.
Proof. exact xrun_stored_is_referenced. Qed.
Print Assumptions C09_ext_stored_is_referenced_sequential.

(* row ids are unique and old, in every reachable state of the core and of the extended machine *)
Theorem C08_row_ids_unique : forall ops,
  NoDup (map o_id (objs (fst (run ops)))) /\
  forall x, In x (objs (fst (run ops))) -> (o_id x < next_id (fst (run ops)))%N.
Proof. exact run_ids. Qed.
Print Assumptions C08_row_ids_unique.

Theorem C08_ext_row_ids_unique : forall ops,
  NoDup (map o_id (objs (fst (xrun ops)))) /\
  forall x, In x (objs (fst (xrun ops))) -> (o_id x < next_id (fst (xrun ops)))%N.
Proof. exact xrun_ids. Qed.
Print Assumptions C08_ext_row_ids_unique.

(* collector interleavings whose operation steps may also be extended operations: xgstep = any step of the collector
   model (MetaGc.gstep, incl. Meta.step transactions, crashes, reconcile/prune/condemn/external delete) or one xstep *)
Print xgstep.
Print xgstep_fn.
Theorem C08_ext_safe_interleaved : forall tr,
  let g := fold_left xgstep_fn tr ginit in
  forall row, In row (parts (ms g)) -> store_get (store (ms g)) (p_pid row) = Some (p_content row).
Proof. exact xgc_safe. Qed.
Print Assumptions C08_ext_safe_interleaved.

Theorem C08_ext_condemned_never_re_referenced : forall tr1 tr2 pid,
  let g1 := fold_left xgstep_fn tr1 ginit in
  In pid (g_cond g1) ->
  let s := ms (fold_left xgstep_fn tr2 g1) in
  count_rows s pid = 0%N /\ reg_get (registry s) pid = None /\ (forall c, ~ In (c, pid) (dedup s))
  /\ (pid < next_id s)%N.
Proof. exact xgc_condemned_dead. Qed.
Print Assumptions C08_ext_condemned_never_re_referenced.

(* ---- non-vacuity for the extended operations ---- *)
(* UploadPartCopy of a wholly covered source part shares it (ref_count 2, no new bytes); of a sub-range it stores
   the slice as a fresh part; a ranged copy stores the slice *)
Definition c08x_h : list xop :=
  [Core (OMb wb); Core (OPut wb wk (cA ++ cB) CRNone); Core (OCmu wb c08_k2);
   XUpc wb wk VRNone wb c08_k2 2 1 None None; XUpc wb wk VRNone wb c08_k2 2 2 (Some 4%Z) (Some 12%Z);
   Core (OCpl wb c08_k2 2 None CRNone); XCpr wb c08_k2 VRNone wb B"k3" None (Some 5%Z);
   XGetR wb c08_k2 VRNone (Some 14%Z) (Some 20%Z)].
Example C08_ex_ext_state :
  c08_view (fst (xrun c08x_h)) =
    ([(2, 0, 1); (3, 1, 1); (3, 2, 4); (6, 0, 5)], [(1, 2); (4, 1); (5, 1)], [1; 4; 5], [5; 4; 1])%N.
Proof. vm_compute. reflexivity. Qed.
Example C08_ex_ext_range_read :
  nth_error (snd (xrun c08x_h)) 7 =
  Some (RObj VNull (mk_multi [cA ++ cB; B"AAAABBBB"]) 24 5000 None (Some B"BBAAAA")).
Proof. vm_compute. reflexivity. Qed.
Example C08_ex_ext_trace :
  let g := fold_left xgstep_fn
             [XG (SOp 0 [] (OMb wb)); XG (SOp 1 [] (OPut wb wk cA CRNone)); XG (SCrashPublished cB); XG SObserve;
              XG (SList []); XOpx 2 [] (XCpr wb wk VRNone wb c08_k2 (Some 2%Z) None); XG (SCondemn 0); XG (SExtDel 0)]
             ginit in
  map fst (store (ms g)) = [4; 1]%N /\ map p_pid (parts (ms g)) = [1; 4]%N.
Proof. vm_compute. split; reflexivity. Qed.

(* ================================================================================================================
   SEVERAL PART STORES and cross-store TransitionObjectStorageClass (Model/MetaGcStores.v).
   A part row records the store its bytes live in ([r_store]); [blobs] is what the stores physically hold, keyed by
   (store, part id); the registry counts part rows per id whatever the store.  Operations ([sop]): PutObject into
   the store of the object's class, AppendObject in place and as a new version sharing the old parts, CopyObject
   (same-store parts shared, cross-store parts shared through the destination store's dedup index or copied),
   TransitionObjectStorageClass (parts in the target store stay with a pre-acquired reference, the others are
   relocated under fresh ids, the source parts whose LAST reference went are deleted from the store on their rows),
   deletes, multipart upload incl. part replacement, UploadPartCopy sharing a whole part, complete/abort.
   Trace = any list of { one whole operation transaction | reconciliation snapshot | apply one observation |
   prune+backfill | GetPartIds of ONE store with any subset exempted as young | condemn one listed (store, id) |
   the later DeletePart of one condemned (store, id) on that store, or its failure | a crashed writer's orphan file },
   pooled work lists (any number of collectors).
   ================================================================================================================ *)
From Verif Require Import MetaGcStores StoresBasics StoresBlocks StoresOps StoresGc.

(* SAFETY PER STORE: in every state reachable by any interleaving, every part row (of a committed object, an older
   version or a pending upload) has its recorded bytes in THE STORE NAMED ON THE ROW — whoever else shared the
   part, wherever the sharers were transitioned to, in whatever order they were transitioned/deleted *)
Theorem C08_stores_safe : forall tr,
  let s := sm (srun_trace sginit tr) in
  forall r, In r (rows s) -> bget (blobs s) (r_store r, r_id r) = Some (r_cont r).
Proof. exact stores_safe. Qed.
Print Assumptions C08_stores_safe.

(* … hence every holder (object row, version row, pending upload) reads back completely *)
Theorem C08_stores_every_sharer_readable : forall tr h,
  let s := sm (srun_trace sginit tr) in
  read_rows s (rows_of s h) = Some (concat (map r_cont (rows_of s h))).
Proof. exact stores_readable. Qed.
Print Assumptions C08_stores_every_sharer_readable.

(* the registry's ref_count equals the number of part rows of the id over ALL stores, row absent iff zero *)
Theorem C08_stores_registry_exact : forall tr id,
  let s := sm (srun_trace sginit tr) in
  rget (reg s) id = if N.eqb (scount s id) 0 then None else Some (scount s id).
Proof. exact stores_registry_exact. Qed.
Print Assumptions C08_stores_registry_exact.

(* an id on a collector's condemned list has no part row, no registry row and no dedup entry in any store *)
Theorem C08_stores_condemned_unreferenced : forall tr k,
  let g := srun_trace sginit tr in
  In k (sg_cond g) ->
  let s := sm g in
  scount s (snd k) = 0%N /\ rget (reg s) (snd k) = None /\ (forall key, ~ In (key, snd k) (idx s)).
Proof. exact stores_condemned_dead. Qed.
Print Assumptions C08_stores_condemned_unreferenced.

(* the operation-level statement behind it: EVERY operation preserves the invariant (written out: registry exact,
   rows present in their store, dedup entries sound, only old ids stored), for every set D of dead ids *)
Theorem C08_stores_every_operation_preserves : forall (D : N -> Prop) s o,
  SInv D s -> SInv D (fst (sop_run s o)).
Proof. exact sop_run_SInv. Qed.
Print Assumptions C08_stores_every_operation_preserves.
Print PI.

(* non-vacuity: two objects share one part in the default store (an identical PutObject deduplicated onto it),
   a third shares it through UploadPartCopy; one sharer is transitioned to store 1: the shared source part stays;
   the second sharer follows: still there for the pending upload; the upload is aborted: the last reference goes
   and the source part is deleted inline; both transitioned objects read back from store 1 *)
Definition sx (h cs : N) : hold := {| h_id := h; h_cs := cs; h_vkey := None; h_pend := false |}.
Definition ex_share : list sstep :=
  [TOpS (QPut (sx 0 0) B"x"); TOpS (QPut (sx 1 0) B"x"); TOpS (QCreateUpload (sx 9 0)); TOpS (QUploadCopy 0 9 1)].
Example C08_ex_stores_shared :
  let s := sm (srun_trace sginit ex_share) in reg s = [(1, 3)]%N /\ map fst (blobs s) = [(0, 1)]%N.
Proof. vm_compute. split; reflexivity. Qed.
Example C08_ex_stores_transition_one_sharer :
  let s := sm (srun_trace sginit (ex_share ++ [TOpS (QTransition 0 1)])) in
  reg s = [(1, 2); (3, 1)]%N /\ map fst (blobs s) = [(1, 3); (0, 1)]%N /\ read_rows s (rows_of s 1) = Some B"x".
Proof. vm_compute. repeat split; reflexivity. Qed.
Example C08_ex_stores_last_reference :
  let s := sm (srun_trace sginit (ex_share ++ [TOpS (QTransition 0 1); TObserve; TList 0 []; TOpS (QTransition 1 1);
                                               TCondemn 0; TOpS (QDrop 9); TReconcile 0 false])) in
  map fst (blobs s) = [(1, 4); (1, 3)]%N /\ read_rows s (rows_of s 0) = Some B"x" /\ read_rows s (rows_of s 1) = Some B"x".
Proof. vm_compute. repeat split; reflexivity. Qed.
