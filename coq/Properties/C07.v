(* Properties/C07.v — Conditional writes are atomic under concurrency.
   Model: Model/Meta.v (op_put, op_complete, op_delete with conditions; frozen) + Model/MetaConc.v (cwriter, run_cw,
   is_interleaving, cur_row).  Concurrency model: each writing transaction is one atomic step (SQLite write pool
   MaxOpenConns(1), _txlock=immediate), so an execution of n writers is an interleaving of whole steps; theorems quantify
   over ALL schedules that are interleavings of the writers' programs (induction over the schedule). *)
From Verif Require Import Bytes Codec Md5 Meta MetaBasics MetaWitness MetaConc MetaConcBase MetaConcState MetaConcAppend MetaConcCond MetaIP MetaIPProofs.
From Coq Require Import Permutation.

(* ---- commit point: a conditional write commits only if its condition holds for the object it replaces (ANY state) ---- *)
Theorem C07_put_if_match_commit_point : forall s vn b k c e s' r,
  op_put s vn b k c (CIfMatch e) = (s', r) -> (forall x, r <> RErr x) ->
  exists a, cur_row s b k = Some a /\ etag_eqb (o_etag a) e = true.
Proof. intros s vn b k c e s' r H NE. apply op_put_ok in H; [|exact NE]. apply cond_if_match. exact (proj1 H). Qed.
Print Assumptions C07_put_if_match_commit_point.

Theorem C07_complete_if_match_commit_point : forall s vn b k u m e s' r,
  op_complete s vn b k u m (CIfMatch e) = (s', r) -> (forall x, r <> RErr x) ->
  exists a, cur_row s b k = Some a /\ etag_eqb (o_etag a) e = true.
Proof. intros s vn b k u m e s' r H NE. apply cond_if_match. eapply op_complete_cond; eassumption. Qed.
Print Assumptions C07_complete_if_match_commit_point.

Theorem C07_delete_if_match_commit_point : forall s vn b k e s' r,
  op_delete s vn b k None (CIfMatch e) = (s', r) -> (forall x, r <> RErr x) ->
  exists a, cur_row s b k = Some a /\ etag_eqb (o_etag a) e = true.
Proof. intros s vn b k e s' r H NE. apply op_delete_ok in H; [|exact NE]. apply del_cond_if_match. exact (proj1 H). Qed.
Print Assumptions C07_delete_if_match_commit_point.

Theorem C07_if_none_match_commit_point : forall s vn b k s' r,
  (forall c, op_put s vn b k c CIfNoneMatchStar = (s', r) -> (forall x, r <> RErr x) -> cur_row s b k = None) /\
  (forall u m, op_complete s vn b k u m CIfNoneMatchStar = (s', r) -> (forall x, r <> RErr x) -> cur_row s b k = None).
Proof.
  intros s vn b k s' r. split.
  - intros c H NE. apply op_put_ok in H; [|exact NE]. apply cond_inm. exact (proj1 H).
  - intros u m H NE. apply cond_inm. eapply op_complete_cond; eassumption.
Qed.
Print Assumptions C07_if_none_match_commit_point.

(* what a committed conditional put / delete leaves behind; a failed writer changes nothing *)
Theorem C07_put_installs_etag : forall s vn b k c cd s' r,
  op_put s vn b k c cd = (s', r) -> (forall x, r <> RErr x) ->
  (exists v, r = RPut v (mk_md5 c)) /\ exists a, cur_row s' b k = Some a /\ o_etag a = mk_md5 c.
Proof. intros s vn b k c cd s' r H NE. apply op_put_ok in H; [|exact NE]. exact (proj2 H). Qed.
Print Assumptions C07_put_installs_etag.

Theorem C07_delete_removes : forall s vn b k cd s' r,
  op_delete s vn b k None cd = (s', r) -> (forall x, r <> RErr x) -> unique_ok s = true -> cur_row s' b k = None.
Proof. intros s vn b k cd s' r H NE U. apply op_delete_ok in H; [|exact NE]. exact (proj2 H U). Qed.
Print Assumptions C07_delete_removes.

Theorem C07_failed_writer_no_effect : forall b k i s w s' e,
  cw_step b k i s w = (s', RErr e) -> s' = with_ids s i.
Proof. exact cw_err_state. Qed.
Print Assumptions C07_failed_writer_no_effect.

(* ---- ALL interleavings ---- *)
(* n writers PUT with If-None-Match:* on one key, any state, any schedule: at most one commits *)
Theorem C07_at_most_one_if_none_match : forall b k (threads : list (list cwriter)) sched,
  is_interleaving threads sched ->
  Forall (Forall (fun w => exists c, w = WPut c CIfNoneMatchStar)) threads ->
  forall i s s' rs, run_cw b k i s sched = (s', rs) ->
  Permutation (concat threads) sched /\ (count_ok rs <= 1)%nat.
Proof.
  intros b k threads sched Hi HF i s s' rs H. split; [apply interleaving_perm; exact Hi|].
  eapply (inm_at_most_one b k sched); [|exact H]. exact (interleaving_forall _ threads sched Hi HF).
Qed.
Print Assumptions C07_at_most_one_if_none_match.

(* ... and on an absent key (no completed row of the key; bucket exists; state satisfies the unique indexes and id
   freshness) EXACTLY one commits — the first of the schedule — and every other one gets PreconditionFailed *)
Theorem C07_exactly_one_if_none_match : forall b k (threads : list (list cwriter)) w sched,
  is_interleaving threads (w :: sched) ->
  Forall (Forall (fun w => exists c, w = WPut c CIfNoneMatchStar)) threads ->
  forall i s s' rs bk,
  find_bucket s b = Some bk -> (forall r, In r (objs s) -> on_key b k r && completed r = false) ->
  unique_ok s = true -> parts_unique_ok s = true -> ids_fresh s ->
  run_cw b k i s (w :: sched) = (s', rs) ->
  count_ok rs = 1%nat /\
  exists r rs', rs = r :: rs' /\ (forall x, r <> RErr x) /\ Forall (fun x => x = RErr PreconditionFailed) rs'.
Proof.
  intros b k threads w sched Hi HF i s s' rs bk FB NR U PU FR H.
  eapply (inm_exactly_one b k w sched); try eassumption. exact (interleaving_forall _ threads _ Hi HF).
Qed.
Print Assumptions C07_exactly_one_if_none_match.

(* n writers (puts and key deletes) all conditional on If-Match e, the puts' contents having ETags different from e:
   for every schedule at most one commits — no acknowledged write is overwritten by a writer that observed e *)
Theorem C07_if_match_no_lost_update : forall b k e (threads : list (list cwriter)) sched,
  is_interleaving threads sched ->
  Forall (Forall (fun w => (exists c, w = WPut c (CIfMatch e) /\ etag_eqb (mk_md5 c) e = false) \/ w = WDel (CIfMatch e))) threads ->
  forall i s s' rs, unique_ok s = true -> run_cw b k i s sched = (s', rs) ->
  (count_ok rs <= 1)%nat.
Proof.
  intros b k e threads sched Hi HF i s s' rs U H.
  eapply (im_at_most_one b k e sched); [|exact U|exact H]. exact (interleaving_forall _ threads sched Hi HF).
Qed.
Print Assumptions C07_if_match_no_lost_update.

(* the writers' steps are the frozen model's steps on OPut / OCpl / ODel *)
Theorem C07_writer_step_is_model_step : forall b k i hist s,
  (forall c cr, step i hist s (OPut b k c cr) = cw_step b k i s (WPut c (resolve_cond hist cr))) /\
  (forall u m cr, step i hist s (OCpl b k u m cr) = cw_step b k i s (WCpl u m (resolve_cond hist cr))) /\
  (forall cr, resolve_cond hist cr <> CIfNoneMatchStar ->
              step i hist s (ODel b k VRNone cr) = cw_step b k i s (WDel (resolve_cond hist cr))).
Proof.
  intros b k i hist s. split; [reflexivity|]. split; [reflexivity|].
  intros cr H. cbn [step cw_step resolve_vref]. destruct (resolve_cond hist cr); try reflexivity. contradiction.
Qed.
Print Assumptions C07_writer_step_is_model_step.

(* ================= READ COMMITTED visibility (a backend that does not serialize write transactions) =================
   Model/MetaIP.v: the victim PutObject as its sequence of repository calls (dedup lookup, FindObjectByBucketNameAndKey,
   the If-None-Match re-read, UpdateObjectByIdAndOptimisticLockVersion = compare-and-swap on the version column,
   FindNullObjectVersion, the writes); an arbitrary RIVAL (any function on the row store) runs at boundary p and is
   visible to every later statement.  Quantified over ALL boundaries p and ALL rivals. *)

(* acknowledged with If-Match e: the condition was evaluated on a row a of s_read (not a delete marker, ETag e) and
   the compare-and-swap on a's version succeeded in s_cas, the state the write was applied to; in between at most the rival *)
Theorem C07_ip_if_match_cas_guard : forall p (rv : rivalf) s0 vn b k c e s' r ro,
  ip_put p rv s0 vn b k c (CIfMatch e) = (s', r, ro) -> (forall x, r <> RErr x) ->
  exists s_read s_cas a x,
    find_latest s_read b k = Some a /\ o_dm a = false /\ etag_eqb (o_etag a) e = true /\
    (s_cas = s_read \/ s_cas = fst (rv s_read)) /\
    In x (objs s_cas) /\ o_id x = o_id a /\ o_lock x = o_lock a.
Proof. exact ip_put_if_match_cas. Qed.
Print Assumptions C07_ip_if_match_cas_guard.

(* with a rival that respects the version column (a row that keeps id and version keeps all its fields — every UPDATE of
   the repositories increments optimistic_lock_version), the condition holds AT THE LINEARISATION POINT: the state the
   victim's write is applied to still contains, unchanged and flagged latest, the object with ETag e.  Hence of two
   conflicting conditional writers the one that got in between makes the other fail *)
Theorem C07_ip_if_match_holds_at_linearization_point : forall p (rv : rivalf) s0 vn b k c e s' r ro,
  (forall s a a', In a (objs s) -> In a' (objs (fst (rv s))) -> o_id a' = o_id a -> o_lock a' = o_lock a -> a' = a) ->
  ip_put p rv s0 vn b k c (CIfMatch e) = (s', r, ro) -> (forall x, r <> RErr x) ->
  exists s_cas a, In a (objs s_cas) /\ on_key b k a = true /\ completed a = true /\ o_latest a = true /\
                  o_dm a = false /\ etag_eqb (o_etag a) e = true.
Proof. exact ip_put_if_match_linearizes. Qed.
Print Assumptions C07_ip_if_match_holds_at_linearization_point.

(* If-None-Match:* : acknowledged only if the key resolved to nothing at the victim's (re-)read, and its insert passed the
   unique index on (bucket, key, is_latest): a rival that created the object in between makes it fail (PreconditionFailed) *)
Theorem C07_ip_if_none_match_guard : forall p (rv : rivalf) s0 vn b k c s' r ro,
  ip_put p rv s0 vn b k c CIfNoneMatchStar = (s', r, ro) -> (forall x, r <> RErr x) ->
  (exists s_read, cur_row s_read b k = None) /\ unique_ok s' = true.
Proof. exact ip_put_inm_guard. Qed.
Print Assumptions C07_ip_if_none_match_guard.

(* a rejected conditional write leaves no trace: the store is the initial one, or the initial one with the rival alone *)
Theorem C07_ip_rejected_leaves_no_trace : forall p (rv : rivalf) s0 vn b k c cd,
  match snd (fst (ip_put p rv s0 vn b k c cd)) with
  | RErr _ => fst (fst (ip_put p rv s0 vn b k c cd)) = s0 \/ fst (fst (ip_put p rv s0 vn b k c cd)) = fst (rv s0)
  | _ => True
  end.
Proof. exact ip_put_rejected. Qed.
Print Assumptions C07_ip_rejected_leaves_no_trace.

(* ---- non-vacuity ---- *)
Example C07_ex_fresh_state :
  let s := fst (op_mb init wb) in
  find_bucket s wb <> None /\ (forall r, In r (objs s) -> on_key wb wk r && completed r = false) /\
  unique_ok s = true /\ parts_unique_ok s = true /\ ids_fresh s.
Proof. cbn. split; [discriminate|]. split; [intros ? []|]. split; [reflexivity|]. split; [reflexivity|]. split; intros ? []. Qed.
Example C07_ex_inm_race :
  snd (run_cw wb wk 1 (fst (op_mb init wb)) [WPut cA CIfNoneMatchStar; WPut cB CIfNoneMatchStar; WPut cC CIfNoneMatchStar]) =
  [RPut VNull (mk_md5 cA); RErr PreconditionFailed; RErr PreconditionFailed].
Proof. vm_compute. reflexivity. Qed.
Example C07_ex_if_match_race :
  let s := fst (op_put (fst (op_mb init wb)) 1 wb wk cA CNone) in
  map is_ok (snd (run_cw wb wk 2 s [WPut cB (CIfMatch (mk_md5 cA)); WDel (CIfMatch (mk_md5 cA)); WPut cC (CIfMatch (mk_md5 cA))])) =
  [true; false; false].
Proof. vm_compute. reflexivity. Qed.
