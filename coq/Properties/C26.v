(* Properties/C26.v — the audit log records every operation and always verifies.
   Only statements, [exact]s to Proofs/AuditWriterProofs.v, witnesses and Print Assumptions. *)
From Verif Require Import Bytes Codec AuditLog AuditLogProofs AuditWriter AuditWriterProofs.
Local Open Scope N_scope.

(* For ANY sequence of log calls — hence for every interleaving of concurrent operations, since
   AuditLogMiddleware.log runs under the middleware's mutex and is therefore one atomic step — of any length,
   with any clock readings, the entries written by a fresh middleware (genesis, chained and signed LOG entries,
   a signed Merkle grounding as soon as the hash buffer holds [block] hashes) are accepted by the validator of
   C27, with or without either verifier: intact chain, valid entry signatures, grounding exactly after every
   [block] LOG entries with the right root and both signatures.  Premises: the verifiers accept what the
   signers produce, signatures have the fixed lengths, block > 0 (GroundingBlockSize = 1000). *)
Theorem C26_writer_accepted :
  forall (H : bytes -> bytes) (signE signM : bytes -> bytes) (vE vM : bytes -> bytes -> bool)
         (useE useM : bool) (block : N),
  (forall h, vE h (signE h) = true) -> (forall h, vM h (signM h) = true) ->
  (forall h, lenN (signE h) = ed_sig_size) -> (forall h, lenN (signM h) = mldsa_sig_size) -> 0 < block ->
  forall (ts : Z) (calls : list call),
  accepted H vE vM useE useM block
    (w_out (run_calls H signE signM block (new_writer H signE [] [] ts) calls)) = true.
Proof. intros H signE signM vE vM useE useM block A1 A2 A3 A4 A5 ts cs. exact (writer_accepted_stmt H signE signM vE vM useE useM block A1 A2 A3 A4 A5 ts cs). Qed.
Print Assumptions C26_writer_accepted.

(* Restart: NewFileSink re-reads an accepted, non-empty log L0 with a Validator and hands its (PrevHash,
   HashBuffer) to a new middleware; whatever that middleware then writes, L0 followed by it is accepted.
   Premises in addition: the last hash is not all zero (otherwise the middleware writes a second genesis) and
   the file does not end between the last LOG entry of a block and its grounding (buffer shorter than block). *)
Theorem C26_restart_accepted :
  forall (H : bytes -> bytes) (signE signM : bytes -> bytes) (vE vM : bytes -> bytes -> bool)
         (useE useM : bool) (block : N),
  (forall h, vE h (signE h) = true) -> (forall h, vM h (signM h) = true) ->
  (forall h, lenN (signE h) = ed_sig_size) -> (forall h, lenN (signM h) = mldsa_sig_size) -> 0 < block ->
  forall (L0 : list entry) (st0 : vstate) (ts : Z) (calls : list call),
  validate_from H vE vM useE useM block init_state L0 = VOk st0 -> L0 <> [] ->
  all_zero (v_prev st0) = false -> lenL (v_buf st0) < block ->
  accepted H vE vM useE useM block
    (L0 ++ w_out (run_calls H signE signM block (new_writer H signE (v_prev st0) (v_buf st0) ts) calls)) = true.
Proof. intros H signE signM vE vM useE useM block A1 A2 A3 A4 A5 L0 st0 ts cs. exact (restart_accepted_stmt H signE signM vE vM useE useM block A1 A2 A3 A4 A5 L0 st0 ts cs). Qed.
Print Assumptions C26_restart_accepted.

(* The LOG entries of the written log are exactly the log calls, in call order (nothing dropped, duplicated or
   reordered).  [run] issues log(START), the storage call, log(COMPLETE) in program order, so in every
   interleaving each wrapped storage call has its START entry before and its COMPLETE entry after it. *)
Theorem C26_log_records_calls_in_order :
  forall (H : bytes -> bytes) (signE signM : bytes -> bytes) (block : N) (ts : Z) (calls : list call),
  log_details (w_out (run_calls H signE signM block (new_writer H signE [] [] ts) calls)) = map snd calls.
Proof.
  intros H signE signM block ts calls. rewrite run_calls_details. reflexivity.
Qed.
Print Assumptions C26_log_records_calls_in_order.

(* ---- "each storage call is recorded" quantifies over the storage.Storage interface ---------- *)
Definition C26_every_storage_call_recorded_full : Prop := forall m, In m storage_ops -> audited m = true.

Theorem C26_every_storage_call_recorded_full_refuted : ~ C26_every_storage_call_recorded_full.
Proof.
  intros F. specialize (F B"PutObjectTagging"). assert (audited B"PutObjectTagging" = true) as E.
  { apply F. vm_compute. tauto. }
  vm_compute in E. discriminate E.
Qed.
Print Assumptions C26_every_storage_call_recorded_full_refuted.

Definition unaudited_ops : list bytes :=
  [B"GetObjectTagging"; B"PutObjectTagging"; B"DeleteObjectTagging"; B"TransitionObjectStorageClass";
   B"GetBucketNotificationConfiguration"; B"PutBucketNotificationConfiguration"].

(* exactly these six methods are inherited from the embedded delegator; every other operation is wrapped *)
Theorem C26_every_storage_call_recorded_partial :
  forall m, In m storage_ops -> (audited m = true <-> ~ In m unaudited_ops).
Proof.
  intros m Hin. vm_compute in Hin.
  repeat (destruct Hin as [<- | Hin];
          [ split; [ intros E; vm_compute in E; try discriminate E; intros Hu; vm_compute in Hu;
                     repeat (destruct Hu as [Hu | Hu]; [discriminate Hu|]); exact Hu
                   | intros Hn; try reflexivity; exfalso; apply Hn; vm_compute; tauto ] |]).
  contradiction.
Qed.
Print Assumptions C26_every_storage_call_recorded_partial.

(* non-vacuity: a tiny block size, concrete "hash" and "signatures" of the right lengths: 5 calls cross two
   grounding blocks; shape S L2 G L2 G L1 *)
Definition x_sE (x : bytes) : bytes := repeat x01 64.
Definition x_sM (x : bytes) : bytes := repeat x02 4627.
Definition x_v (d s : bytes) : bool := true.
Definition x_call (k : bytes) : call := (1%Z, 2%Z, start_details {| o_op := B"PutObject"; o_bucket := B"b"; o_key := k; o_upload := [];
  o_part := 0%Z; o_srcb := []; o_srck := []; o_upload_result := []; o_cred := []; o_auth := B"anonymous"; o_reqid := []; o_trace := [];
  o_ip := []; o_err := [] |}).
Example C26_ex_shape :
  show_shape (w_out (run_calls (fun x => x) x_sE x_sM 2 (new_writer (fun x => x) x_sE [] [] 0%Z)
                       [x_call B"1"; x_call B"2"; x_call B"3"; x_call B"4"; x_call B"5"])) = B"S,L2,G,L2,G,L1".
Proof. vm_compute. reflexivity. Qed.

(* ---- the process environment: Location of Entry.Timestamp ----------------------------------- *)
(* Entry.Timestamp is a time.Time = (instant, Location).  LOG entries are stamped time.Now() (process-local zone),
   GENESIS/GROUNDING entries time.Now().UTC().  Everything that consumes the timestamp — the entry hash, the binary
   encoder and the JSON encoder (which prints Timestamp.UTC() with a literal Z) — is a function of the instant only:
   the offset of the Location does not matter. *)
Theorem C26_timestamp_consumers_see_instant_only : forall (e : entry) (off : Z),
  hash_input_go {| g_e := e; g_off := off |} = hash_input_go {| g_e := e; g_off := 0%Z |} /\
  enc_bin_go {| g_e := e; g_off := off |} = enc_bin_go {| g_e := e; g_off := 0%Z |} /\
  enc_json_go {| g_e := e; g_off := off |} = enc_json_go {| g_e := e; g_off := 0%Z |}.
Proof.
  intros e off. rewrite !hash_input_go_inst, !enc_bin_go_inst, !enc_json_go_inst. repeat split; reflexivity.
Qed.
Print Assumptions C26_timestamp_consumers_see_instant_only.

(* decode . encode preserves the instant (the Location becomes UTC for JSON, the reading process' zone for binary) *)
Theorem C26_roundtrip_preserves_instant : forall (e : entry) (off : Z) (zone : Z -> Z),
  (wf_json e -> dec_json_go (enc_json_go {| g_e := e; g_off := off |}) = Some {| g_e := e; g_off := 0%Z |}) /\
  (wf_bin e -> forall bs rest, enc_bin_go {| g_e := e; g_off := off |} = Some bs ->
               dec_bin_go zone (bs ++ rest) = ROk {| g_e := e; g_off := zone (e_ts e) |} rest).
Proof.
  intros e off zone. split; [apply dec_json_go_enc | intros Hwf bs rest Henc; apply (dec_bin_go_enc zone e off bs rest Hwf Henc)].
Qed.
Print Assumptions C26_roundtrip_preserves_instant.

(* write -> read back -> verify, for EVERY assignment of Locations [offs] to the entries' timestamps and every zone of
   the reading process: both the JSON and the binary file decode to exactly the entries written (same instants, hence
   same hashes) and the validator accepts them.  Extra premises for the binary form: SHA-512 digests are 64 bytes,
   timestamps fit int64 nanoseconds, the recorded strings/integers fit their Go types. *)
Theorem C26_written_log_verifies_in_every_zone :
  forall (H : bytes -> bytes) (signE signM : bytes -> bytes) (vE vM : bytes -> bytes -> bool)
         (useE useM : bool) (block : N),
  (forall h, vE h (signE h) = true) -> (forall h, vM h (signM h) = true) ->
  (forall x, lenN (H x) = sha_size) ->
  (forall h, lenN (signE h) = ed_sig_size) -> (forall h, lenN (signM h) = mldsa_sig_size) -> 0 < block ->
  forall (ts : Z) (calls : list call), i64_ok ts -> Forall call_ok calls ->
  let L := w_out (run_calls H signE signM block (new_writer H signE [] [] ts) calls) in
  forall (offs : list Z) (zone : Z -> Z) (fuel : nat), (length L < fuel)%nat ->
  (exists gs, mapM dec_json_go (map enc_json_go (zipg L offs)) = Some gs /\ map g_e gs = L) /\
  (exists chunks gs, mapM enc_bin_go (zipg L offs) = Some chunks /\
                     dec_all_go zone fuel (concat chunks) = (gs, None) /\ map g_e gs = L) /\
  accepted H vE vM useE useM block L = true.
Proof. exact written_log_any_zone_stmt. Qed.
Print Assumptions C26_written_log_verifies_in_every_zone.

(* ... and after reopen (NewFileSink) + append, JSON form *)
Theorem C26_restart_verifies_in_every_zone :
  forall (H : bytes -> bytes) (signE signM : bytes -> bytes) (vE vM : bytes -> bytes -> bool)
         (useE useM : bool) (block : N),
  (forall h, vE h (signE h) = true) -> (forall h, vM h (signM h) = true) ->
  (forall h, lenN (signE h) = ed_sig_size) -> (forall h, lenN (signM h) = mldsa_sig_size) -> 0 < block ->
  forall (L0 : list entry) (st0 : vstate) (ts : Z) (calls : list call),
  Forall wf_json L0 ->
  validate_from H vE vM useE useM block init_state L0 = VOk st0 -> L0 <> [] ->
  all_zero (v_prev st0) = false -> lenL (v_buf st0) < block ->
  let L := L0 ++ w_out (run_calls H signE signM block (new_writer H signE (v_prev st0) (v_buf st0) ts) calls) in
  forall offs : list Z,
  (exists gs, mapM dec_json_go (map enc_json_go (zipg L offs)) = Some gs /\ map g_e gs = L) /\
  accepted H vE vM useE useM block L = true.
Proof. exact restart_any_zone_stmt. Qed.
Print Assumptions C26_restart_verifies_in_every_zone.

(* non-vacuity: the instant printed (after .UTC()) vs. the local calendar reading of the same time.Time in UTC+02:00 *)
Definition w_genesis_like : entry :=
  {| e_ver := 3; e_ts := 0%Z; e_type := t_log; e_det := DLog (start_details {| o_op := B"PutObject"; o_bucket := B"b"; o_key := B"k";
     o_upload := []; o_part := 0%Z; o_srcb := []; o_srck := []; o_upload_result := []; o_cred := []; o_auth := B"anonymous";
     o_reqid := []; o_trace := []; o_ip := []; o_err := [] |}); e_prev := []; e_hash := []; e_sig := [] |}.
Example C26_ex_zone :
  let g := {| g_e := with_ts w_genesis_like 1700000000500000000%Z; g_off := 7200%Z |} in
  j_ts (enc_json_go g) = 1700000000500000000%Z /\ t_wall (g_time g) = 1700007200500000000%Z.
Proof. vm_compute. split; reflexivity. Qed.
