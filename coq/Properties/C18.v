(* Properties/C18.v — the outbox part store is consistent with its committed history.
   Model: Model/PartOutbox.v.  A trace is ANY list of atomic steps of writers (committed / rolled
   back transactions), readers, and any number of flush workers (claim, tx-free replay, finalize,
   heartbeat, release, crash) and of the clock (lease expiry); worker steps that do not fit the
   worker's program state are no-ops, so every list is an interleaving. *)
From Verif Require Import Bytes Codec PartOutbox PartOutboxProofs.

(* full strength: GetPart / GetPartIds always reflect the latest committed operation per part, and
   an empty outbox means the inner store holds exactly the committed parts *)
Definition C18_read_reflects_latest_commit_full : Prop := forall lease UP tr p,
  get_part (fst (run_p lease UP pinit tr)) p = spec_store (committed tr) p.
Definition C18_drained_inner_eq_committed_full : Prop := forall lease UP tr,
  entries (fst (run_p lease UP pinit tr)) = [] ->
  forall p, inner_parts (fst (run_p lease UP pinit tr)) p = spec_store (committed tr) p.

(* refuted, two workers and one lost lease: worker 0 claims Put(part 1, content 7) and stalls before
   its tx-free inner PutPart; the lease expires; worker 1 re-claims, replays and finalizes it, then
   replays and finalizes a later committed Delete(part 1); worker 0's PutPart now completes: the
   replay is not fenced by the lease, the part is resurrected in the inner store with an empty outbox *)
Definition c18_witness : list pstep :=
  [SCommit [PPutPart 1 7]; SClaim 0; STick 2; SClaim 1; SReplay 1; SFinalize 1;
   SCommit [PDelPart 1]; SClaim 1; SReplay 1; SFinalize 1; SReplay 0].
Theorem C18_drained_inner_eq_committed_full_refuted : ~ C18_drained_inner_eq_committed_full.
Proof. intros H. specialize (H 2%N [1%N] c18_witness eq_refl 1%N). vm_compute in H. discriminate H. Qed.
Print Assumptions C18_drained_inner_eq_committed_full_refuted.
Theorem C18_read_reflects_latest_commit_full_refuted : ~ C18_read_reflects_latest_commit_full.
Proof. intros H. specialize (H 2%N [1%N] c18_witness 1%N). vm_compute in H. discriminate H. Qed.
Print Assumptions C18_read_reflects_latest_commit_full_refuted.

(* partial: for ALL interleavings in which no claim takes an entry away from a live worker that still
   holds it ([no_steal]: decidable on the trace; true with one worker, and whenever leases do not
   expire while a replay is in progress) *)
Theorem C18_read_reflects_latest_commit_partial : forall lease UP tr,
  no_steal lease UP pinit (trace_workers tr) tr = true ->
  (forall p, get_part (fst (run_p lease UP pinit tr)) p = spec_store (committed tr) p) /\
  part_ids UP (fst (run_p lease UP pinit tr)) =
    filter (fun p => match spec_store (committed tr) p with Some _ => true | None => false end) UP.
Proof. exact read_reflects_latest_commit. Qed.
Print Assumptions C18_read_reflects_latest_commit_partial.

Theorem C18_drained_inner_eq_committed_partial : forall lease UP tr,
  no_steal lease UP pinit (trace_workers tr) tr = true ->
  entries (fst (run_p lease UP pinit tr)) = [] ->
  forall p, inner_parts (fst (run_p lease UP pinit tr)) p = spec_store (committed tr) p.
Proof. exact drained_inner_eq_committed. Qed.
Print Assumptions C18_drained_inner_eq_committed_partial.

(* one flush worker (with crashes, restarts, lease expiry of its own dead claims): never a steal *)
Theorem C18_one_worker_no_steal : forall lease UP w tr,
  (forall x, In x (trace_workers tr) -> x = w) ->
  no_steal lease UP pinit (trace_workers tr) tr = true.
Proof. intros lease UP w tr H. exact (one_worker_no_steal lease UP w _ tr H (incl_refl _) pinit). Qed.
Print Assumptions C18_one_worker_no_steal.

(* GetPartIds is two reads: the outbox query (which pins the read transaction's snapshot of the
   entries) and, later, the inner store's listing; flush steps (claim, tx-free replay, finalize,
   heartbeat, crash, clock) of any number of workers may run in between.  With the coded order the
   listing equals the committed set whenever its second read happens (no writer commits between
   the two reads; no steal) ... *)
Theorem C18_listing_two_reads_eq_committed : forall lease UP tr es0,
  no_steal lease UP pinit (trace_workers tr) tr = true ->
  quiet_listing lease UP pinit tr = true ->
  listing (fst (run_p lease UP pinit tr)) = Some (LOutbox es0) ->
  overlay_ids UP es0 (inner_parts (fst (run_p lease UP pinit tr))) =
    filter (fun p => match spec_store (committed tr) p with Some _ => true | None => false end) UP.
Proof. exact listing_eq_committed. Qed.
Print Assumptions C18_listing_two_reads_eq_committed.

(* ... and the order matters: inner listing first, outbox query second loses a committed put whose
   flush (inner write + finalize) completes between the two reads, and resurrects a committed delete *)
Definition c18_swapped_put : list pstep :=
  [SCommit [PPutPart 1 7]; SIdsInnerFirst; SClaim 0; SReplay 0; SFinalize 0; SIdsOutboxSecond].
Definition c18_swapped_del : list pstep :=
  [SCommit [PPutPart 1 7]; SClaim 0; SReplay 0; SFinalize 0; SCommit [PDelPart 1];
   SIdsInnerFirst; SClaim 0; SReplay 0; SFinalize 0; SIdsOutboxSecond].
Example C18_swapped_order_loses_committed_put :
  last (snd (run_p 2 [1%N] pinit c18_swapped_put)) PROk = PRIds [] /\
  spec_store (committed c18_swapped_put) 1%N = Some 7%N.
Proof. split; reflexivity. Qed.
Example C18_swapped_order_resurrects_deleted_part :
  last (snd (run_p 2 [1%N] pinit c18_swapped_del)) PROk = PRIds [1%N] /\
  spec_store (committed c18_swapped_del) 1%N = None.
Proof. split; reflexivity. Qed.
(* the same schedules in the coded order *)
Example C18_coded_order_same_schedules :
  last (snd (run_p 2 [1%N] pinit [SCommit [PPutPart 1 7]; SIdsBegin; SClaim 0; SReplay 0; SFinalize 0; SIdsEnd])) PROk = PRIds [1%N] /\
  last (snd (run_p 2 [1%N] pinit [SCommit [PPutPart 1 7]; SClaim 0; SReplay 0; SFinalize 0; SCommit [PDelPart 1];
                                  SIdsBegin; SClaim 0; SReplay 0; SFinalize 0; SIdsEnd])) PROk = PRIds [].
Proof. split; reflexivity. Qed.

(* the tx-free GetPart (tx = nil: getPartTxFree opens its own read transaction; lazy chunk reader with
   fallback to the inner store) reflects the latest committed operation exactly like the
   transactional read, under the same hypothesis [no_steal]:
   - as ONE snapshot (what SQLite's read transaction gives): SGetFree;
   - lookup by lookup under statement-level isolation (every lookup sees the latest committed
     entries; flush steps of any worker between the lookups; no writer commit in between:
     [quiet_reading]): the lookup that ends the read answers the committed content (deleted =>
     not found, empty put => empty, put => its bytes) — never a read error, never mixed bytes *)
Theorem C18_txfree_read_reflects_latest_commit : forall lease UP tr,
  no_steal lease UP pinit (trace_workers tr) tr = true ->
  quiet_reading lease UP pinit tr = true ->
  let s := fst (run_p lease UP pinit tr) in
  (forall p, snd (step_p lease UP s (SGetFree p)) = PRContent (spec_store (committed tr) p)) /\
  (forall p, reading s = None ->
     snd (step_p lease UP s (SRBegin p)) = PROk \/
     snd (step_p lease UP s (SRBegin p)) = PRContent (spec_store (committed tr) p)) /\
  (forall r, reading s = Some r ->
     snd (step_p lease UP s SRStep) = PROk \/
     snd (step_p lease UP s SRStep) = PRContent (spec_store (committed tr) (rd_pid r))).
Proof. exact txfree_read_reflects_latest_commit. Qed.
Print Assumptions C18_txfree_read_reflects_latest_commit.

(* examples: the entry vanishes between the two lookups (re-evaluation finds the part in the inner
   store) and between two chunks of a two-chunk part (fallback, prefix skipped); a part id that is
   re-put with other content DURING such a read yields mixed bytes (why [quiet_reading] is assumed;
   part ids are write-once in pithos) *)
Example C18_ex_txfree_vanish_between_lookups :
  snd (run_p 2 [1%N] pinit [SCommit [PPutPart 1 7]; SRBegin 1; SClaim 0; SReplay 0; SFinalize 0; SRStep; SRStep])
  = [PROk; PROk; PRClaimed 1; PROk; PRDeleted; PROk; PRContent (Some 7%N)].
Proof. reflexivity. Qed.
Example C18_ex_txfree_vanish_between_chunks :
  snd (run_p 2 [1%N] pinit [SCommit [PPutPart 1 901]; SRBegin 1; SRStep; SClaim 0; SReplay 0; SFinalize 0; SRStep])
  = [PROk; PROk; PROk; PRClaimed 1; PROk; PRDeleted; PRContent (Some 901%N)].
Proof. reflexivity. Qed.
Example C18_ex_txfree_reput_during_read_mixes :
  last (snd (run_p 2 [1%N] pinit [SCommit [PPutPart 1 901]; SRBegin 1; SRStep; SClaim 0; SReplay 0; SFinalize 0;
                                  SCommit [PPutPart 1 902]; SClaim 0; SReplay 0; SFinalize 0; SRStep])) PROk = PRMixed.
Proof. reflexivity. Qed.

(* non-vacuity: the witness is a steal; a two-worker trace with crash + expiry that is not *)
Example C18_ex_witness_steals : no_steal 2 [1%N] pinit (trace_workers c18_witness) c18_witness = false.
Proof. reflexivity. Qed.
Definition c18_ok_trace : list pstep :=
  [SCommit [PPutPart 1 7; PPutPart 2 8]; SClaim 0; SReplay 0; SCrash 0; SGet 1; STick 3; SClaim 1; SReplay 1;
   SFinalize 1; SCommit [PDelPart 1]; SGet 1; SClaim 0; SReplay 0; SFinalize 0; SClaim 1; SReplay 1; SFinalize 1; SIds].
Example C18_ex_ok : no_steal 2 [1%N; 2%N] pinit (trace_workers c18_ok_trace) c18_ok_trace = true /\
  entries (fst (run_p 2 [1%N; 2%N] pinit c18_ok_trace)) = [] /\
  part_ids [1%N; 2%N] (fst (run_p 2 [1%N; 2%N] pinit c18_ok_trace)) = [2%N].
Proof. repeat split; reflexivity. Qed.
