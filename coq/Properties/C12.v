(* Properties/C12.v — AppendObject extends the object without losing concurrent appends.
   Model: Model/Meta.v (op_append, frozen) + Model/MetaConc.v (interleavings, what a key resolves to).
   Concurrency model: every writing transaction is one atomic step (SQLite: write pool MaxOpenConns(1),
   _txlock=immediate), so an execution of n client threads is an interleaving of whole op_append steps; the
   theorems quantify over ALL schedules that are interleavings of the threads' programs. *)
From Verif Require Import Bytes Codec Md5 Meta MetaBasics MetaWitness MetaConc MetaConcBase MetaConcState MetaConcAppend MetaIP MetaIPProofs.
From Coq Require Import Permutation.

(* An append with write offset o is acknowledged iff o equals the current size of the current object (0 when the key
   resolves to nothing or a delete marker) and the same append without offset is acknowledged.  ANY state. *)
Theorem C12_append_ok_iff_offset_eq_size : forall s vn b k c o,
  is_ack (snd (op_append s vn b k c (Some o))) = true <->
  (o = cur_size s b k /\ is_ack (snd (op_append s vn b k c None)) = true).
Proof. exact append_offset_rule. Qed.
Print Assumptions C12_append_ok_iff_offset_eq_size.

(* An acknowledged append (with or without offset; Enabled: new version sharing the prefix; unversioned/suspended: in
   place on the latest row, also when that row is a non-null version or a delete marker; no row: new null version)
   makes the key resolve to the previous chunks followed by the appended bytes, reports size = previous size + length
   and the multipart-style ETag over all chunks, and keeps the state invariant. *)
Theorem C12_append_content : forall s vn b k c off s' e sz,
  op_append s vn b k c off = (s', RAppend e sz) -> CInv s ->
  sz = (cur_size s b k + zlen c)%Z /\
  e = mk_multi (cur_chunks s b k ++ [c]) /\
  (exists r', cur_row s' b k = Some r' /\ o_size r' = sz /\ o_etag r' = e /\
      map p_content (row_parts s' r') = cur_chunks s b k ++ [c]) /\
  CInv s'.
Proof. exact append_post. Qed.
Print Assumptions C12_append_content.

(* an append that is not acknowledged is an error and changes nothing *)
Theorem C12_rejected_append_no_effect : forall s vn b k c off s' r,
  op_append s vn b k c off = (s', r) -> is_ack r = false -> s' = s /\ exists e, r = RErr e.
Proof. exact append_nack_state. Qed.
Print Assumptions C12_rejected_append_no_effect.

(* GET-by-key returns exactly the concatenation of the recorded chunks, provided every part row's bytes are in the part
   store under its id (premise: the C08 invariant "no referenced part content is deleted") *)
Theorem C12_get_returns_chunks : forall s b k r bk,
  find_bucket s b = Some bk -> cur_row s b k = Some r -> parts_present s ->
  o_size r = total_len (cur_chunks s b k) ->
  op_get s b k None =
  RObj (row_vid r) (o_etag r) (o_size r) (o_updated r) (o_ctype r) (Some (concat (cur_chunks s b k))).
Proof. exact get_of_chunks. Qed.
Print Assumptions C12_get_returns_chunks.

(* CONCURRENT APPENDS.  For every set of appender threads (each a program of appends with or without write offset on
   the key) and EVERY schedule that is an interleaving of them (any number of threads, any lengths), started in any
   state satisfying the invariant, with any operation numbering:
   - the schedule contains every append of every thread exactly once (Permutation);
   - the final content is the previous content followed by the chunks of the acknowledged appends, each exactly once,
     in schedule (= commit) order; the final size is the sum;
   - every acknowledged append with write offset o sits at o: o is the size of the content in front of it
     (initial size + lengths of the appends acknowledged before it);
   - the invariant holds again. *)
Theorem C12_concurrent_appends : forall b k (threads : list (list appender)) (sched : list appender),
  is_interleaving threads sched ->
  forall i s s' rs, CInv s -> run_apps b k i s sched = (s', rs) ->
  Permutation (concat threads) sched /\
  length rs = length sched /\
  cur_chunks s' b k = cur_chunks s b k ++ acked sched rs /\
  cur_size s' b k = (cur_size s b k + total_len (acked sched rs))%Z /\
  CInv s' /\
  (forall j c o, nth_error sched j = Some (c, Some o) -> (exists e z, nth_error rs j = Some (RAppend e z)) ->
                 o = (cur_size s b k + total_len (acked (firstn j sched) (firstn j rs)))%Z).
Proof.
  intros b k threads sched Hi i s s' rs Inv H. split; [apply interleaving_perm; exact Hi|].
  exact (run_apps_linear b k sched i s s' rs H Inv).
Qed.
Print Assumptions C12_concurrent_appends.

(* run_apps is the frozen model's own run function on the corresponding OApp operations *)
Theorem C12_schedule_is_model_run : forall b k sched i hist s,
  run_from i hist s (map (app_op b k) sched) =
  (fst (run_apps b k i s sched), rev hist ++ snd (run_apps b k i s sched)).
Proof. exact run_apps_is_run_from. Qed.
Print Assumptions C12_schedule_is_model_run.

(* ANY history of ANY operations (puts, deletes, multipart, copies, versioning changes, other keys in between): every
   acknowledged append with write offset o ran in a state in which the key's current size was exactly o *)
Theorem C12_every_ack_at_its_offset_any_history : forall ops i hist s n b k c o e z,
  nth_error ops n = Some (OApp b k c (Some o)) ->
  nth_error (run_results i hist s ops) n = Some (RAppend e z) ->
  exists sn, nth_error (pre_states i hist s ops) n = Some sn /\ o = cur_size sn b k.
Proof. exact ack_at_offset_any_history. Qed.
Print Assumptions C12_every_ack_at_its_offset_any_history.
Theorem C12_results_are_model_results : forall ops i hist s,
  snd (run_from i hist s ops) = rev hist ++ run_results i hist s ops.
Proof. exact run_results_is_run_from. Qed.
Print Assumptions C12_results_are_model_results.

(* ================= READ COMMITTED visibility (a backend that does not serialize write transactions) =================
   Model/MetaIP.v: the victim AppendObject as its sequence of repository calls (layer-1 HeadObject reads, dedup lookup,
   layer-2 reads of sqlMetadataStore.AppendObject, part-prefix check, compare-and-swap on the version column); an
   arbitrary RIVAL (any function on the row store, in particular any atomic operation of Model/Meta.v) runs at boundary
   p and is visible to every later statement.  Quantified over ALL boundaries p and ALL rivals. *)

(* the full statement: when victim and rival appends are both acknowledged, the object grows by both chunks *)
Definition C12_ip_every_ack_counts_full : Prop :=
  forall (p : nat) (s0 : mstate) (vn : N) (b k c cr : bytes) (off offr : option Z) s' e z er zr,
    ip_append p (fun s => op_append (with_ids s (vn + 1)) (vn + 1) b k cr offr) (with_ids s0 vn) vn b k c off
      = (s', RAppend e z, Some (RAppend er zr)) ->
    cur_size s' b k = (cur_size s0 b k + zlen c + zlen cr)%Z.

(* REFUTED on the faithful model: victim and rival append the same bytes (dedup gives both the same part id, so the
   victim's manifest equals the stored one and the part-prefix check passes): two acknowledgements, one chunk *)
Theorem C12_ip_every_ack_counts_refuted : ~ C12_ip_every_ack_counts_full.
Proof.
  intros H. destruct witness_identical_bytes_shape as (s' & e & z & er & zr & E & W1 & W0).
  pose proof (H 2%nat ws_one 2%N wb wk cB cB None None s' e z er zr E) as X.
  rewrite W1, W0 in X. change (zlen cB) with 8%Z in X. discriminate X.
Qed.
Print Assumptions C12_ip_every_ack_counts_refuted.

(* second witness: versioning enabled — AppendObject becomes PutObject of a version computed from the victim's stale
   read; nothing guards it, the rival's acknowledged chunk is not in the current object *)
Theorem C12_ip_enabled_lost_append_witness : exists s' e z er zr,
  ip_append 2 (fun s => op_append (with_ids s (3 + 1)) (3 + 1) wb wk cC None) (with_ids ws_one_enabled 3) 3 wb wk cB None
    = (s', RAppend e z, Some (RAppend er zr)) /\ cur_chunks s' wb wk = [cA; cB].
Proof. exact witness_enabled_shape. Qed.
Print Assumptions C12_ip_enabled_lost_append_witness.

(* third witness: the rival replaces the object by a put whose bytes equal the object's first part (dedup gives it
   that part id); the stored list [p1] is a prefix of the victim's manifest [p1; p2; new], the victim re-attaches the
   condemned p2 and is acknowledged — the object cannot be read afterwards *)
Theorem C12_ip_dedup_prefix_put_witness : exists s' e z v ep,
  ip_append 2 (fun s => op_put (with_ids s (3 + 1)) (3 + 1) wb wk cA CNone) (with_ids ws_two 3) 3 wb wk cC None
    = (s', RAppend e z, Some (RPut v ep)) /\ op_get s' wb wk None = RErr OtherErr.
Proof. exact witness_dedup_prefix_put_shape. Qed.
Print Assumptions C12_ip_dedup_prefix_put_witness.

(* what holds for every boundary and every rival.  (1) unversioned / suspended bucket: an acknowledged append either
   found no latest row (and inserted one under the unique index) or its compare-and-swap succeeded, in the state the
   write was applied to, on the version of the row it had read — with at most the rival in between *)
Theorem C12_ip_inplace_cas_guard : forall p (rv : rivalf) s0 vn b k c off bk s' r ro,
  find_bucket s0 b = Some bk -> b_ver bk <> VEnabled ->
  ip_append p rv s0 vn b k c off = (s', r, ro) -> (forall x, r <> RErr x) ->
  (exists s_read, find_latest s_read b k = None /\ unique_ok s' = true) \/
  (exists s_read s_cas old x,
     find_latest s_read b k = Some old /\ (s_cas = s_read \/ s_cas = fst (rv s_read)) /\
     In x (objs s_cas) /\ o_id x = o_id old /\ o_lock x = o_lock old).
Proof. exact ip_append_inplace_cas. Qed.
Print Assumptions C12_ip_inplace_cas_guard.

(* (2) a rejected append leaves no trace: the store is the initial one, or the initial one with the rival alone applied *)
Theorem C12_ip_rejected_leaves_no_trace : forall p (rv : rivalf) s0 vn b k c off,
  match snd (fst (ip_append p rv s0 vn b k c off)) with
  | RErr _ => fst (fst (ip_append p rv s0 vn b k c off)) = s0 \/ fst (fst (ip_append p rv s0 vn b k c off)) = fst (rv s0)
  | _ => True
  end.
Proof. exact ip_append_rejected. Qed.
Print Assumptions C12_ip_rejected_leaves_no_trace.

(* ---- non-vacuity ---- *)
Example C12_ex_inv_init : CInv init.
Proof. split; [split; intros ? []|split; [constructor|intros ? []]]. Qed.
Example C12_ex_inv_bucket : CInv (fst (op_ver (fst (op_mb init wb)) wb VEnabled)).
Proof. split; [split; intros ? []|split; [constructor|intros ? []]]. Qed.
Example C12_ex_interleaving :
  is_interleaving [[(cA, None); (cC, Some 16%Z)]; [(cB, Some 8%Z)]] [(cA, None); (cB, Some 8%Z); (cC, Some 16%Z)].
Proof.
  eapply (il_step _ 0%nat); [reflexivity|]. eapply (il_step _ 1%nat); [reflexivity|].
  eapply (il_step _ 0%nat); [reflexivity|]. apply il_done. repeat constructor.
Qed.
(* two threads, one stale offset, versioning enabled: evaluated on the model *)
Example C12_ex_schedule :
  let s0 := fst (op_ver (fst (op_mb init wb)) wb VEnabled) in
  let '(s', rs) := run_apps wb wk 2 s0 [(cA, None); (cB, Some 0%Z); (cB, Some 8%Z); (cC, None)] in
  map is_ack rs = [true; false; true; true] /\ cur_chunks s' wb wk = [cA; cB; cC] /\ cur_size s' wb wk = 24%Z.
Proof. vm_compute. repeat split; reflexivity. Qed.
