(* Properties/C29.v — requests signed by standard SigV4 clients are accepted.
   Statements about the model coq/Model/SigV4.v (signature.go) against the transcription of the documented
   algorithm coq/Spec/SigV4Spec.v.  Only statements, [exact]s, examples and Print Assumptions. *)
From Verif Require Import Bytes Codec SigV4 SigV4Spec SigV4EncProofs SigV4HdrProofs SigV4SortProofs SigV4AuthProofs C29Proofs.
From Coq Require Import Permutation.

(* uriEncode (QueryEscape + three ReplaceAll) is the documented UriEncode for every byte string *)
Theorem C29_uri_encode_eq_spec : forall s, uri_encode s = spec_uri_encode false s.
Proof. exact uri_encode_eq_spec. Qed.
Print Assumptions C29_uri_encode_eq_spec.

(* the server's canonical query string of any raw query is the documented one of its decoded parameters
   (X-Amz-Signature removed): names and values UriEncoded, sorted by encoded name then encoded value *)
Theorem C29_canon_query_eq_spec : forall raw, canonical_query raw = spec_canonical_query (query_pairs raw).
Proof. exact canon_query_eq_spec. Qed.
Print Assumptions C29_canon_query_eq_spec.

(* ... and does not depend on the order in which Go's map iteration delivers the parameters *)
Theorem C29_canon_query_order_independent : forall ps ps',
  Permutation ps ps' -> canon_query_of_pairs ps = canon_query_of_pairs ps'.
Proof. exact canon_query_perm. Qed.
Print Assumptions C29_canon_query_order_independent.

(* for every decoded path (any bytes), the wire form an S3 client sends (UriEncode with '/' kept) survives
   url.ParseRequestURI/EscapedPath unchanged and the server's canonical URI is the documented one *)
Theorem C29_canon_uri_eq_spec : forall path,
  go_escaped_path (spec_uri_encode true path) = Some (spec_uri_encode true path) /\
  canonical_uri (spec_uri_encode true path) = spec_canonical_uri path.
Proof. exact canon_uri_standard. Qed.
Print Assumptions C29_canon_uri_eq_spec.

(* escapes written with lower-case hex digits are canonicalised to the documented (upper-case) form *)
Theorem C29_canon_uri_lower_hex : forall path,
  canon_uri_body (flat_map (fun c => if is_unreserved c || beqb c "/"%byte then [c] else map lower_byte (pct c)) path)
  = spec_uri_encode true path.
Proof. exact canon_uri_lower_hex. Qed.
Print Assumptions C29_canon_uri_lower_hex.

(* header canonicalisation (after /repo bc241f9): canonicalHeaderValue — TrimSpace, then ReplaceAll("  ", " ")
   until no run of spaces is left — is the documented Trimall (runs of spaces collapsed, white space stripped at
   both ends) for EVERY byte string ... *)
Theorem C29_canon_header_value_eq_spec : forall v, canonical_header_value v = spec_trimall v.
Proof. exact canonical_header_value_eq_spec. Qed.
Print Assumptions C29_canon_header_value_eq_spec.

(* ... hence the server's signed header block (host + every signed header, names lower-cased, sorted, each value
   canonicalised, values joined by ',') is the documented one for all hosts, header maps and signed-name lists.
   Nothing is excluded inside the model; what the model does not see: white space is ASCII (\t \n \v \f \r and
   space, as strings.TrimSpace on ASCII) — Go's TrimSpace also strips Unicode spaces (U+0085, U+00A0, ...) at the
   ends, which server and SDK do alike; only runs of the space byte 0x20 are collapsed (tabs are kept, by server,
   SDK and specification alike). *)
Theorem C29_canon_headers_full : forall host h signed,
  collect_signed_headers host h signed = spec_header_pairs host h signed.
Proof. exact collect_eq_spec. Qed.
Print Assumptions C29_canon_headers_full.

(* end to end: a request whose signature is a MAC, under the key of a configured credential for the configured
   region, of the DOCUMENTED canonical request (what a standard client signs), presented inside the time window,
   is authenticated as that credential — whatever its decoded path, query string, method, payload mode and
   header/presigned mode and whatever white space its header values contain. *)
Theorem C29_standard_request_accepted :
  forall cfg facts now r path p id date region service term secret t,
  r_path r = spec_uri_encode true path ->
  existsb is_ctl (r_query r) = false ->
  parse_signature_parameters r = Some p ->
  p_alg p = alg_v4 ->
  split_on "/"%byte (p_credential p) = [id; date; region; service; term] ->
  region = c_region cfg ->
  find_cred id (c_creds cfg) = Some secret ->
  service = B"s3" -> term = B"aws4_request" ->
  parse_timestamp (p_timestamp p) = Some t ->
  date = ts_date (p_timestamp p) ->
  (t - 900 * ns <= now)%Z -> (now <= t + p_expiry_s p * ns)%Z ->
  mem_bytes B"host" (signed_header_names (p_signed_headers p)) = true ->
  forallb (fun kv => negb (must_be_signed (to_lower (fst kv)))
                     || mem_bytes (to_lower (fst kv)) (signed_header_names (p_signed_headers p))) (r_headers r) = true ->
  has_aws_chunked (hget B"Content-Encoding" (r_headers r))
    && mem_bytes (hget sha_hdr (r_headers r))
         [B"STREAMING-AWS4-ECDSA-P256-SHA256-PAYLOAD"; B"STREAMING-AWS4-ECDSA-P256-SHA256-PAYLOAD-TRAILER"] = false ->
  (* when the body has to be hashed (header mode, no payload literal) it is delivered completely *)
  needs_body_hash r (p_presigned p) && r_body_err r = false ->
  verify facts {| k_secret := secret; k_date := date; k_region := region; k_service := service; k_term := term |}
    {| s_alg := p_alg p; s_ts := p_timestamp p; s_scope := join B"/" [date; region; service; term];
       s_cr := canonical_request_of (r_method r) (spec_canonical_uri path)
                 (spec_canonical_query (query_pairs (r_query r)))
                 (spec_header_pairs (r_host r) (r_headers r) (signed_header_names (p_signed_headers p)))
                 (payload_line r (p_presigned p)) |} (p_signature p) = true ->
  middleware cfg facts now r = Accepted id.
Proof. exact standard_request_accepted. Qed.
Print Assumptions C29_standard_request_accepted.

(* ---- non-vacuity ---- *)
Example C29_ex_uri : canonical_uri (spec_uri_encode true B"/bucket/a b+c%~//d*") = B"/bucket/a%20b%2Bc%25~//d%2A".
Proof. vm_compute. reflexivity. Qed.
Example C29_ex_query : canonical_query B"b=2&a-=1&a%2F=x+y&X-Amz-Signature=ff&a-=0" = B"a%2F=x%20y&a-=0&a-=1&b=2".
Proof. vm_compute. reflexivity. Qed.
(* the former refutation witness: "a  b" is now canonicalised to "a b" by server and specification alike;
   HISTORICAL: before bc241f9 the server used TrimSpace(Join(values, ",")) and kept "a  b" (finding
   C29-header-inner-spaces, fixed) *)
Example C29_ex_headers :
  collect_signed_headers B"s3.localhost" [(B"X-Amz-Meta-A", [B" a  b "; B"c   d	"])] [B"host"; B"x-amz-meta-a"]
    = [(B"host", B"s3.localhost"); (B"x-amz-meta-a", B"a b,c d")].
Proof. vm_compute. reflexivity. Qed.
Example C29_ex_headers_historical :
  old_header_value [B"a  b"] = B"a  b" /\ join B"," (map spec_trimall [B"a  b"]) = B"a b".
Proof. vm_compute. split; reflexivity. Qed.
(* a complete header-mode request that satisfies every hypothesis of the end-to-end theorem is accepted *)
Definition ex_req : request :=
  {| r_method := B"GET"; r_host := B"s3.localhost"; r_path := spec_uri_encode true B"/bucket/a b";
     r_query := B"prefix=a%2Fb";
     r_headers := [(B"Authorization", [B"AWS4-HMAC-SHA256 Credential=AK/20260921/eu-central-1/s3/aws4_request, SignedHeaders=host;x-amz-content-sha256;x-amz-date, Signature=ab"]);
                   (B"X-Amz-Content-Sha256", [B"UNSIGNED-PAYLOAD"]); (B"X-Amz-Date", [B"20260921T120000Z"])];
     r_payload := B"e3b0"; r_body_len := 0; r_body_err := false |}.
Definition ex_names : list bytes := [B"host"; B"x-amz-content-sha256"; B"x-amz-date"].
Definition ex_fact : fact :=
  {| f_key := {| k_secret := B"secret"; k_date := B"20260921"; k_region := B"eu-central-1"; k_service := B"s3"; k_term := B"aws4_request" |};
     f_msg := {| s_alg := alg_v4; s_ts := B"20260921T120000Z"; s_scope := B"20260921/eu-central-1/s3/aws4_request";
                 s_cr := canonical_request_of B"GET" (spec_canonical_uri B"/bucket/a b")
                           (spec_canonical_query [(B"prefix", B"a/b")])
                           (spec_header_pairs B"s3.localhost" (r_headers ex_req) ex_names) B"UNSIGNED-PAYLOAD" |};
     f_mac := B"ab" |}.
Example C29_ex_accepted :
  middleware {| c_region := B"eu-central-1"; c_creds := [(B"AK", B"secret")] |} [ex_fact]
    (1789992000 * 1000000000 + 300 * 1000000000)%Z ex_req = Accepted B"AK" /\
  middleware {| c_region := B"eu-central-1"; c_creds := [(B"AK", B"secret")] |} [ex_fact]
    (1789992000 * 1000000000 + 300 * 1000000000 + 1)%Z ex_req = Rejected.
Proof. vm_compute. split; reflexivity. Qed.
