(* C38 — The S3 client backend behaves like the storage it forwards to.
   The end-to-end statement ("every operation sequence gives the same observable results through
   S3ClientStorage as directly") is decided by CORRESPONDENCE ONLY (harness/c38.go: the same history
   through client -> SigV4 -> HTTP -> pithos server -> storage X and directly on storage X'); it is
   refuted there by many translation defects (findings/C38.json).  The theorems below cover the pure
   mappings of Model/S3Client.v. *)
From Verif Require Import Bytes Codec S3Client S3ClientProofs.
From Coq Require Import Lia ZifyBool ZifyN.
Local Open Scope N_scope.

(* ---- which operations are answered with ErrNotImplemented ---- *)
Theorem C38_not_implemented_exact :
  forall op rest,
    not_implemented (op :: rest) = true <->
    (op = B"A" \/ (op = B"C" /\ arg (op :: rest) 11 <> 0) \/ (op = B"T" /\ arg (op :: rest) 4 <> 0)).
Proof. exact not_implemented_exact. Qed.
Print Assumptions C38_not_implemented_exact.

(* the table is complete against the model's operation list: the 35 other operations are always forwarded,
   and A / ranged C / versioned T are the only ones that are not *)
Theorem C38_forwarded_operations :
  Forall (fun op => forall rest, not_implemented (op :: rest) = false)
    [B"P"; B"H"; B"G"; B"D"; B"X"; B"L"; B"V"; B"t+"; B"t?"; B"t-"; B"MC"; B"MP"; B"MF"; B"MA"; B"MQ"; B"MY"; B"ML"; B"LW"; B"VW"; B"MLW"; B"MQW";
     B"BL"; B"BH"; B"BV"; B"BC"; B"BD"; B"OP"; B"OG"; B"OD"; B"YP"; B"YG"; B"YD"; B"WP"; B"WG"; B"WD"]
  /\ (forall op, In op known_ops ->
        In op [B"P"; B"H"; B"G"; B"D"; B"X"; B"L"; B"V"; B"t+"; B"t?"; B"t-"; B"MC"; B"MP"; B"MF"; B"MA"; B"MQ"; B"MY"; B"ML"; B"LW"; B"VW"; B"MLW"; B"MQW";
               B"BL"; B"BH"; B"BV"; B"BC"; B"BD"; B"OP"; B"OG"; B"OD"; B"YP"; B"YG"; B"YD"; B"WP"; B"WG"; B"WD"]
        \/ op = B"A" \/ op = B"C" \/ op = B"T").
Proof.
  split.
  - repeat (constructor; [intros rest; reflexivity|]). constructor.
  - intros op Hin. unfold known_ops in Hin. cbn [In] in Hin.
    repeat (destruct Hin as [<-|Hin]; [cbn [In]; tauto|]). destruct Hin.
Qed.
Print Assumptions C38_forwarded_operations.

(* the "every operation sequence" reading: REFUTED already by the table — AppendObject exists in the
   storage interface and is never forwarded *)
Definition C38_every_operation_forwarded_full : Prop := forall f, not_implemented f = false.
Theorem C38_every_operation_forwarded_refuted : ~ C38_every_operation_forwarded_full.
Proof. intros H. specialize (H [B"A"; B"0"; B"0"; B"1"; B"0"]). discriminate. Qed.
Print Assumptions C38_every_operation_forwarded_refuted.

(* ---- CopyObject: option forwarding, cell by cell ----
   client_field a i = field i of the destination when CopyObject runs through the client
   (s3client request headers -> server copyObjectHandler -> storage), direct_field a i = the same call made on
   the storage.  a ranges over ALL source objects (any subset of the eight fields, tagged or not), both
   metadata directives, any subset of fields in the options (opts.Metadata nil or not), both tagging
   directives and every storage class. *)
(* the storage's own table (metadatapart/copy.go): under REPLACE everything comes from the options, under
   COPY from the source — except the website redirect location, which comes from the options always *)
Theorem C38_copy_storage_semantics :
  forall a i, In i [0; 1; 2; 3; 4; 5; 6; 7] ->
    direct_field a i =
    (if xa_rm a then (if xa_metanil a && negb (i =? 0) then VNone else opt_val a i)
     else if i =? 6 then (if xa_metanil a then VNone else opt_val a 6)
     else src_val a i).
Proof.
  intros a i Hin. unfold direct_field, storage_copy_field, direct_opts. cbn [co_rm co_ct co_meta].
  destruct (xa_rm a).
  - destruct (i =? 0) eqn:E0.
    + apply N.eqb_eq in E0. subst i. now rewrite Bool.andb_false_r.
    + rewrite Bool.andb_true_r. destruct (xa_metanil a); reflexivity.
  - destruct (i =? 6); [destruct (xa_metanil a); reflexivity|reflexivity].
Qed.
Print Assumptions C38_copy_storage_semantics.

(* forwarding table = storage semantics in every cell; the one deviation: an Expires given in a
   non-canonical spelling is stored re-spelled (finding C38-expires-rewritten) *)
Theorem C38_copy_field_forwarding :
  forall a i, In i [0; 1; 2; 3; 4; 5; 6; 7] ->
    client_field a i = direct_field a i \/
    (i = 5 /\ xa_rm a = true /\ xa_metanil a = false /\ N.testbit (xa_omask a) 5 = true /\ N.testbit (xa_omask a) 8 = true /\
     direct_field a i = VAltRaw /\ client_field a i = VAltCanon).
Proof.
  intros a i Hin. pose proof (copy_field_forwarding a i Hin) as H.
  destruct (direct_field a i) eqn:E; cbn in H; auto.
  right. destruct (direct_alt_only_expires a i E) as [-> [H1 [H2 [H3 H4]]]]. repeat split; auto.
Qed.
Print Assumptions C38_copy_field_forwarding.

(* storage class: always forwarded.  Tags: the client sends no tagging directive, the destination always gets
   the source's tags; equal to the storage exactly under the COPY tagging directive *)
Theorem C38_copy_class_and_tags_forwarding :
  forall a, client_cls a = direct_cls a /\ client_tags a = (if xa_stags a then VSrc else VNone) /\
            (xa_rt a = false -> client_tags a = direct_tags a).
Proof. intros a. repeat split. intros H. unfold direct_tags, storage_copy_tags, direct_opts. cbn. now rewrite H. Qed.
Print Assumptions C38_copy_class_and_tags_forwarding.
Definition C38_copy_tags_forwarded_full : Prop := forall a, client_tags a = direct_tags a.
Theorem C38_copy_tags_forwarded_refuted : ~ C38_copy_tags_forwarded_full.
Proof. intros H. specialize (H (mkCXA false 0 false false 0 true true true 0)). discriminate. Qed.
Print Assumptions C38_copy_tags_forwarded_refuted.

(* ---- CompleteMultipartUpload manifests ---- *)
(* client and server pass the manifest on entry by entry: through the client = on the storage *)
Theorem C38_manifest_forwarded : forall up man, through_client_complete up man = storage_complete up man.
Proof. reflexivity. Qed.
Print Assumptions C38_manifest_forwarded.
(* the storage completes exactly: part numbers 1..n uploaded and (no manifest, or the manifest lists exactly
   1..n in ascending order without a wrong ETag); anything else (1,3,2 / 3,2,1, duplicates, gaps, unknown
   parts, wrong ETag) is refused *)
Theorem C38_manifest_accepted_iff :
  forall up man, storage_complete up man = MROk <->
    exists n, nparts up = Some n /\
      (man = [] \/ (map fst man = seqN 1 (N.to_nat n) /\ Forall (fun pe => snd pe <> 1) man)).
Proof.
  intros up man. unfold storage_complete. destruct (nparts up) as [n|].
  - destruct man as [|pe r].
    + split; [intros _; exists n; auto|reflexivity].
    + rewrite (validate_ok n (pe :: r) 0 0) by lia. replace (n - 0) with n by lia. cbn [N.add].
      split.
      * intros [_ [H1 H2]]. exists n. split; auto.
      * intros [n' [Hn [Hnil|[H1 H2]]]]; [discriminate|]. inversion Hn. subst n'. auto.
  - split; [discriminate|]. intros [n [H _]]. discriminate.
Qed.
Print Assumptions C38_manifest_accepted_iff.
(* out-of-order manifests are refused with InvalidPartOrder (witnesses 1,3,2 and 3,2,1 over parts 1..3) *)
Example C38_manifest_examples :
  storage_complete 7 [(1, 0); (3, 0); (2, 0)] = MROrder /\ storage_complete 7 [(3, 0); (2, 0); (1, 0)] = MROrder /\
  storage_complete 7 [(1, 0); (2, 0); (2, 0); (3, 0)] = MROrder /\ storage_complete 7 [(1, 0); (3, 0)] = MRPart /\
  storage_complete 7 [(1, 0); (2, 1); (3, 0)] = MRPart /\ storage_complete 7 [(1, 0); (2, 0); (3, 0)] = MROk /\
  storage_complete 5 [] = MRSeq.
Proof. repeat split; reflexivity. Qed.

(* ---- percent encodings: what the client escapes the server's decoder gives back ---- *)
Theorem C38_escape_roundtrip :
  forall (p : byte -> bool) (plus : bool),
    p "%"%byte = true -> (plus = true -> p "+"%byte = true) ->
    forall s, unescape plus (escape p plus s) = Some s.
Proof. exact escape_roundtrip. Qed.
Print Assumptions C38_escape_roundtrip.

(* copySourceValue: every source key (any bytes) survives url.PathEscape / url.PathUnescape *)
Theorem C38_copy_source_key_roundtrip : forall key, unescape false (path_escape key) = Some key.
Proof. intros key. apply escape_roundtrip; [reflexivity|discriminate]. Qed.
Print Assumptions C38_copy_source_key_roundtrip.

(* x-amz-tagging of CreateMultipartUpload: every tag key / value survives url.QueryEscape / QueryUnescape,
   and the encoded components never contain the pair separators & and = *)
Theorem C38_tagging_component_roundtrip :
  forall s, unescape true (query_escape s) = Some s /\ ~ In "&"%byte (query_escape s) /\ ~ In "="%byte (query_escape s).
Proof.
  intros s. split; [apply escape_roundtrip; reflexivity|]. apply query_escape_no_sep.
Qed.
Print Assumptions C38_tagging_component_roundtrip.

(* ---- error translation ---- *)
(* the server's error kind -> code table is injective (codes identify kinds) *)
Theorem C38_error_code_injective : forall k1 k2, code_of k1 = code_of k2 -> k1 = k2.
Proof. exact code_of_inj. Qed.
Print Assumptions C38_error_code_injective.

(* full strength: every error kind a family of operations can produce comes back as the same kind: REFUTED *)
Definition C38_error_kind_preserved_full : Prop :=
  forall f k, relevant f k = true -> through_client f k = Mapped k.
Theorem C38_error_kind_preserved_refuted_head_no_such_key :
  ~ C38_error_kind_preserved_full /\ through_client FHead KNoSuchKey = Mapped KNoSuchBucket.
Proof. split; [|reflexivity]. intros H. specialize (H FHead KNoSuchKey eq_refl). discriminate. Qed.
Print Assumptions C38_error_kind_preserved_refuted_head_no_such_key.
Theorem C38_error_kind_preserved_refuted_unmapped :
  through_client FDelete KNoSuchBucket = Unmapped /\ through_client FDelete KPreconditionFailed = Unmapped /\
  through_client FPut KNoSuchBucket = Unmapped /\ through_client FGetBody KInvalidRange = Unmapped /\
  through_client FTagging KNoSuchBucket = Unmapped /\ through_client FCopy KInvalidStorageClass = Unmapped.
Proof. repeat split; reflexivity. Qed.
Print Assumptions C38_error_kind_preserved_refuted_unmapped.
(* exactly these (family, kind) pairs are translated correctly *)
Theorem C38_error_kind_preserved_partial :
  forall f k, relevant f k = true ->
    (through_client f k = Mapped k <->
     match f, k with
     | FHead, KNoSuchBucket => True
     | FPut, KPreconditionFailed => True
     | FCopy, (KNoSuchBucket | KNoSuchKey | KPreconditionFailed) => True
     | FTagging, KNoSuchKey => True
     | FDeleteBucket, (KNoSuchBucket | KBucketNotEmpty) => True
     | FCreateBucket, KBucketAlreadyExists => True
     | _, _ => False
     end).
Proof.
  intros f k Hr. rewrite (through_client_exact f k Hr).
  destruct f, k; cbn; split; intros H; try reflexivity; try exact I; try discriminate; try contradiction.
Qed.
Print Assumptions C38_error_kind_preserved_partial.

Example C38_example_copy_source :
  copy_source B"src-bucket" B"dir/b c%" = B"src-bucket/dir%2Fb%20c%25".
Proof. reflexivity. Qed.
Example C38_example_tagging : query_escape B"a b&c=d+e" = B"a+b%26c%3Dd%2Be".
Proof. reflexivity. Qed.
Example C38_example_cross :
  run_line B"H CX,0,0,0,1,255,1,2,0,255,0,1,1,3 CX,0,0,0,1,255,1,0,1,289,0,0,0,0 CX,0,2,0,2,1,0,0,0,0,1,0,0,0 MFX,0,0,7,1:0/3:0/2:0,0,1 MFX,0,1,3,1:0/2:0,2,0"
  = B"I:SSSSSSOSS3 I:O----A--S0 I:E I:InvalidPartOrder:old:open I:ok:new:closed".
Proof. reflexivity. Qed.
Example C38_example_run : run_line B"H P,0,0,1,0,0,0,0,0 A,0,0,1,0 C,0,0,0,1,0,0,0,0,0,0,2,0,0 T,1,0,2,1,0 T,1,0,2,0,0 ZZ" = B"I NI NI NI I BadOp".
Proof. reflexivity. Qed.
