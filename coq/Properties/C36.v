(* Properties/C36.v — streaming reads hold their transaction exactly as long as needed.
   Machine: Model/TxReaders.v (database.WithTxReadClosers + readCloserWithCloseHook + TxController.Rollback).
   [final fixed n ops] is the state after the caller applied [ops] (any order of Read i / Close i, repeated
   closes included) to the n readers it was handed; since the statements quantify over ALL op lists, they
   speak about every intermediate point of every history.  [fixed = true] is the current code (close hook
   once per reader, /repo 057e4df), [fixed = false] the code before that fix (historical Examples below). *)
From Verif Require Import Bytes Codec TxReaders TxReadersProofs TxStream TxStreamProofs.

(* The property: the transaction is released when, and only when, every reader has been closed; it is
   released exactly once; a reader that has not been closed never fails (whatever happened to the
   others, repeated closes included); Close never reports an error.
   Proved of the model of the CURRENT code ([fixed = true]: since /repo 057e4df the close hook of each
   reader decrements the counter at most once). *)
Theorem C36_full : forall n ops, 0 < n -> (forall op, In op ops -> op_index op < n) ->
  let s := final true n ops in
  (tx_done s = true <-> forall i, i < n -> In (Close i) ops) /\
  rb_hooks s = (if tx_done s then 1 else 0) /\ rb_calls s <= 1 /\
  (forall i, i < n -> ~ In (Close i) ops -> snd (step true s (Read i)) = ROk) /\
  (forall i, i < n -> snd (step true s (Close i)) = ROk).
Proof. exact fixed_full_stmt. Qed.
Print Assumptions C36_full.

(* both variants: the inner reader is closed once per Close of its wrapper, nobody else's *)
Theorem C36_inner_close_counts : forall fixed n ops i, (forall op, In op ops -> op_index op < n) -> i < n ->
  nth i (inner_closes (final fixed n ops)) 0 = count_occ Nat.eq_dec (close_indices ops) i.
Proof. intros fixed n ops i Hv Hi. apply (inner_inv fixed n ops Hv); exact Hi. Qed.
Print Assumptions C36_inner_close_counts.

(* the statements above are about [final] and the next [step]; the trace printed by the model (and
   compared with the implementation) is exactly that, position by position *)
Theorem C36_trace_is_stepwise : forall fixed n ops k op,
  nth_error ops k = Some op ->
  nth_error (snd (run_ops fixed (init n) ops)) k =
    Some (snd (step fixed (final fixed n (firstn k ops)) op), final fixed n (firstn (S k) ops)).
Proof. exact trace_stepwise. Qed.
Print Assumptions C36_trace_is_stepwise.

(* no readers handed out (fn failed, or returned none): released exactly once before returning;
   BeginTx failed: nothing to release *)
Theorem C36_no_readers : forall n,
  with_tx_read_closers BeginErr n = NoTx /\
  (exists s, with_tx_read_closers FnErr n = ReturnedErr s /\ tx_done s = true /\ rb_hooks s = 1 /\ rb_calls s = 1) /\
  (exists s, with_tx_read_closers SetupOk 0 = Started s /\ tx_done s = true /\ rb_hooks s = 1 /\ rb_calls s = 1) /\
  (0 < n -> with_tx_read_closers SetupOk n = Started (init n) /\ tx_done (init n) = false /\ rb_hooks (init n) = 0).
Proof. exact no_readers_stmt. Qed.
Print Assumptions C36_no_readers.

(* ---- HISTORICAL: the machine before /repo 057e4df ([fixed = false]: the hook ran on every Close).
   Kept as Examples so that the old defect stays documented and machine-checked; they say nothing about
   the current code. ---- *)
Example C36_prefix_full_refuted :   (* the property failed: n = 2, reader 0 closed twice *)
  ~ (forall n ops, 0 < n -> (forall op, In op ops -> op_index op < n) ->
     let s := final false n ops in
     (tx_done s = true <-> forall i, i < n -> In (Close i) ops) /\
     rb_hooks s = (if tx_done s then 1 else 0) /\ rb_calls s <= 1 /\
     (forall i, i < n -> ~ In (Close i) ops -> snd (step false s (Read i)) = ROk) /\
     (forall i, i < n -> snd (step false s (Close i)) = ROk)).
Proof. exact full_refuted_stmt. Qed.
Example C36_prefix_witness :
  let s := final false 2 [Close 0; Close 0] in
  tx_done s = true /\ rb_hooks s = 1 /\ ~ In (Close 1) [Close 0; Close 0] /\
  snd (step false s (Read 1)) = RTxDone /\
  results false 2 [Close 0; Close 0; Read 1] = [ROk; ROk; RTxDone].
Proof. exact full_refuted_witness_stmt. Qed.
Example C36_prefix_release_at_nth_close :   (* what the old code did: the n-th Close of whichever readers released *)
  forall n ops, 0 < n -> (forall op, In op ops -> op_index op < n) ->
  tx_done (final false n ops) = true <-> n <= n_closes ops.
Proof. intros n ops Hn Hv. exact (proj1 (release_at_nth_close_stmt n ops Hn Hv)). Qed.

(* non-vacuity *)
Example C36_ex_ok : (* three readers, interleaved reads, closed once each in a scrambled order *)
  results true 3 [Read 0; Close 2; Read 1; Read 2; Close 0; Read 1; Close 1; Read 1]
    = [ROk; ROk; ROk; REof; ROk; ROk; ROk; REof]
  /\ tx_done (final true 3 [Read 0; Close 2; Read 1; Read 2; Close 0; Read 1]) = false
  /\ tx_done (final true 3 [Read 0; Close 2; Read 1; Read 2; Close 0; Read 1; Close 1]) = true.
Proof. repeat split. Qed.
Example C36_ex_repeated_close : (* the history that broke the old code *)
  results true 2 [Close 0; Close 0; Read 1; Close 1] = [ROk; ROk; ROk; ROk]
  /\ tx_done (final true 2 [Close 0; Close 0; Read 1]) = false
  /\ rb_hooks (final true 2 [Close 0; Close 0; Read 1; Close 1; Close 1; Close 0]) = 1.
Proof. repeat split. Qed.


(* ================= round 2: GetObject over SEVERAL part stores (Model/TxStream.v) =================
   stores : list skind  — the configured part stores (filesystem | SQL | outbox over filesystem), store 0 = default;
   a part is read through the store recorded on its row ([p_store]); [decide stores] is the mode GetObject chooses
   (NamedPartStores.Capabilities = intersection): MFree = readers carry no transaction, MTx = WithTxReadClosers.
   [srun m stores bsz s ops] runs a schedule of SR i (one Read), SE i (read to EOF / first error), SC i (Close, also
   repeated), SX (object deleted by another request), SF (outbox worker pass). *)

(* (a) the decision: tx-free streaming is chosen only if EVERY configured store can read without a transaction, and
   the transaction is kept as soon as ONE store needs it — whichever store the object's parts are in *)
Theorem C36_stream_decision : forall stores,
  (decide stores = MFree <-> forall k, In k stores -> txfree k = true) /\
  (decide stores = MTx <-> exists k, In k stores /\ txfree k = false).
Proof. intros stores. split; [apply decide_free_all | apply decide_tx_some]. Qed.
Print Assumptions C36_stream_decision.

(* ... hence, with that decision, no Read / read-to-end of ANY schedule on ANY object (parts in any store, any part
   state, any ranges, any buffer size, starting from any state) dereferences a missing transaction *)
Theorem C36_stream_no_nil_tx : forall stores bsz ops s x,
  In x (snd (srun (decide stores) stores bsz s ops)) ->
  fst x <> RErrS ENilTx /\ forall t, fst x <> RErrEnd ENilTx t.
Proof.
  intros stores bsz ops s x Hin. pose proof (srun_no_niltx stores bsz ops s x Hin) as H.
  split; [intros E; apply H; now left | intros t E; apply H; right; now exists t].
Qed.
Print Assumptions C36_stream_no_nil_tx.

(* in MTx mode the shared transaction evolves exactly as the WithTxReadClosers machine of round 1 under the Close
   calls of the schedule, so C36_full applies verbatim: released iff every reader was closed, exactly once *)
Theorem C36_stream_release : forall stores bsz ps rgs ops,
  0 < length rgs -> (forall i, In (SC i) ops -> i < length rgs) ->
  let s := fst (srun MTx stores bsz (sinit MTx ps rgs) ops) in
  amb s = final true (length rgs) (amb_ops ops) /\
  (tx_done (amb s) = true <-> forall i, i < length rgs -> In (SC i) ops) /\
  rb_hooks (amb s) = (if tx_done (amb s) then 1 else 0) /\ rb_calls (amb s) <= 1.
Proof.
  intros stores bsz ps rgs ops Hn Hv. split; [apply stream_ambient_is_txreaders | now apply stream_release].
Qed.
Print Assumptions C36_stream_release.

(* no operation of any schedule (state after any prefix [pre], next operation [o]) fails because the transaction it
   needs has been released: in particular SQL-backed parts stay readable until their reader is closed *)
Theorem C36_stream_no_txdone : forall stores bsz ps rgs pre o,
  0 < length rgs -> (forall i, In (SC i) pre -> i < length rgs) ->
  let m := decide stores in
  let s := fst (srun m stores bsz (sinit m ps rgs) pre) in
  snd (sstep m stores bsz s o) <> RErrS ETxDone /\ forall t, snd (sstep m stores bsz s o) <> RErrEnd ETxDone t.
Proof.
  intros stores bsz ps rgs pre o Hn Hv. pose proof (stream_no_txdone stores bsz ps rgs pre o Hn Hv) as H. cbn zeta in *.
  split; [intros E; apply H; now left | intros t E; apply H; right; now exists t].
Qed.
Print Assumptions C36_stream_no_txdone.

(* (b) transactions the part stores begin themselves (outbox read without an ambient transaction: one per lazily
   opened part).  For EVERY mode, configuration, object, ranges and schedule (repeated closes, deletes and worker
   passes included): begun = finalized + the transactions held by open parts, at most one per unclosed reader ... *)
Theorem C36_stream_counts : forall m stores bsz ps rgs ops,
  let s := fst (srun m stores bsz (sinit m ps rgs) ops) in
  begun s = finalized s + holding (rdrs s) /\
  holding (rdrs s) <= length (filter (fun r => negb (r_closed r)) (rdrs s)).
Proof. exact stream_counts. Qed.
Print Assumptions C36_stream_counts.

(* ... and begun = finalized once every reader has been closed: nothing leaks on any path *)
Theorem C36_stream_quiescent : forall m stores bsz ps rgs ops,
  let s := fst (srun m stores bsz (sinit m ps rgs) (ops ++ close_all (length rgs))) in
  begun s = finalized s.
Proof. exact stream_quiescent. Qed.
Print Assumptions C36_stream_quiescent.

(* what an unsound decision does (mode taken from the default store alone): default filesystem, a storage class routed
   to the SQL store, object written with that class — the first Read has no transaction to read from *)
Example C36_stream_default_only_unsound :
  let stores := [SFs; SSql] in
  let m := decide_default_only stores in
  snd (sstep m stores 4 (sinit m (mk_parts 1 false [8] 0) [None]) (SR 0)) = RErrS ENilTx.
Proof. exact default_only_unsound. Qed.
(* non-vacuity: outbox store, parts "aaaa" (flushed), "" (pending, empty), "bbbb" (pending): five Reads of 3 bytes, Close *)
Example C36_stream_ex_outbox :
  let ps := mk_parts 0 true [4; 0; 4] 1 in
  map (fun x => (fst x, begun (snd x), finalized (snd x)))
      (snd (srun MFree [SOutbox] 3 (sinit MFree ps [None]) [SR 0; SR 0; SR 0; SR 0; SR 0; SC 0]))
  = [(RBytes 3, 1, 1); (RBytes 1, 1, 1); (RBytes 3, 3, 2); (RBytes 1, 3, 2); (REofS, 3, 3); (ROkS, 3, 3)].
Proof. reflexivity. Qed.
Example C36_stream_ex_sql_non_default :
  let ps := mk_parts 1 false [8; 8] 0 in
  decide [SFs; SSql] = MTx /\
  map fst (snd (srun MTx [SFs; SSql] 4 (sinit MTx ps [Some (0, 12); Some (5, 16)]) [SR 0; SC 0; SC 0; SE 1; SC 1]))
  = [RBytes 4; ROkS; ROkS; REnd 11; ROkS].
Proof. split; reflexivity. Qed.
