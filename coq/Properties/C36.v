(* Properties/C36.v — streaming reads hold their transaction exactly as long as needed.
   Machine: Model/TxReaders.v (database.WithTxReadClosers + readCloserWithCloseHook + TxController.Rollback).
   [final fixed n ops] is the state after the caller applied [ops] (any order of Read i / Close i, repeated
   closes included) to the n readers it was handed; since the statements quantify over ALL op lists, they
   speak about every intermediate point of every history.  [fixed = true] is the current code (close hook
   once per reader, /repo 057e4df), [fixed = false] the code before that fix (historical Examples below). *)
From Verif Require Import Bytes Codec TxReaders TxReadersProofs.

(* The property: the transaction is released when, and only when, every reader has been closed; it is
   released exactly once; a reader that has not been closed never fails (whatever happened to the
   others, repeated closes included); Close never reports an error.
   Proved of the model of the CURRENT code ([fixed = true]: since /repo 057e4df the close hook of each
   reader decrements the counter at most once). *)
Theorem C36_full : forall n ops, 0 < n -> (forall op, In op ops -> op_index op < n) ->
  let s := final true n ops in
  (tx_done s = true <-> forall i, i < n -> In (Close i) ops) /\
  rb_hooks s = (if tx_done s then 1 else 0) /\ rb_calls s <= 1 /\
  (forall i, i < n -> ~ In (Close i) ops -> snd (step true s (Read i)) = ROk) /\
  (forall i, i < n -> snd (step true s (Close i)) = ROk).
Proof. exact fixed_full_stmt. Qed.
Print Assumptions C36_full.

(* both variants: the inner reader is closed once per Close of its wrapper, nobody else's *)
Theorem C36_inner_close_counts : forall fixed n ops i, (forall op, In op ops -> op_index op < n) -> i < n ->
  nth i (inner_closes (final fixed n ops)) 0 = count_occ Nat.eq_dec (close_indices ops) i.
Proof. intros fixed n ops i Hv Hi. apply (inner_inv fixed n ops Hv); exact Hi. Qed.
Print Assumptions C36_inner_close_counts.

(* the statements above are about [final] and the next [step]; the trace printed by the model (and
   compared with the implementation) is exactly that, position by position *)
Theorem C36_trace_is_stepwise : forall fixed n ops k op,
  nth_error ops k = Some op ->
  nth_error (snd (run_ops fixed (init n) ops)) k =
    Some (snd (step fixed (final fixed n (firstn k ops)) op), final fixed n (firstn (S k) ops)).
Proof. exact trace_stepwise. Qed.
Print Assumptions C36_trace_is_stepwise.

(* no readers handed out (fn failed, or returned none): released exactly once before returning;
   BeginTx failed: nothing to release *)
Theorem C36_no_readers : forall n,
  with_tx_read_closers BeginErr n = NoTx /\
  (exists s, with_tx_read_closers FnErr n = ReturnedErr s /\ tx_done s = true /\ rb_hooks s = 1 /\ rb_calls s = 1) /\
  (exists s, with_tx_read_closers SetupOk 0 = Started s /\ tx_done s = true /\ rb_hooks s = 1 /\ rb_calls s = 1) /\
  (0 < n -> with_tx_read_closers SetupOk n = Started (init n) /\ tx_done (init n) = false /\ rb_hooks (init n) = 0).
Proof. exact no_readers_stmt. Qed.
Print Assumptions C36_no_readers.

(* ---- HISTORICAL: the machine before /repo 057e4df ([fixed = false]: the hook ran on every Close).
   Kept as Examples so that the old defect stays documented and machine-checked; they say nothing about
   the current code. ---- *)
Example C36_prefix_full_refuted :   (* the property failed: n = 2, reader 0 closed twice *)
  ~ (forall n ops, 0 < n -> (forall op, In op ops -> op_index op < n) ->
     let s := final false n ops in
     (tx_done s = true <-> forall i, i < n -> In (Close i) ops) /\
     rb_hooks s = (if tx_done s then 1 else 0) /\ rb_calls s <= 1 /\
     (forall i, i < n -> ~ In (Close i) ops -> snd (step false s (Read i)) = ROk) /\
     (forall i, i < n -> snd (step false s (Close i)) = ROk)).
Proof. exact full_refuted_stmt. Qed.
Example C36_prefix_witness :
  let s := final false 2 [Close 0; Close 0] in
  tx_done s = true /\ rb_hooks s = 1 /\ ~ In (Close 1) [Close 0; Close 0] /\
  snd (step false s (Read 1)) = RTxDone /\
  results false 2 [Close 0; Close 0; Read 1] = [ROk; ROk; RTxDone].
Proof. exact full_refuted_witness_stmt. Qed.
Example C36_prefix_release_at_nth_close :   (* what the old code did: the n-th Close of whichever readers released *)
  forall n ops, 0 < n -> (forall op, In op ops -> op_index op < n) ->
  tx_done (final false n ops) = true <-> n <= n_closes ops.
Proof. intros n ops Hn Hv. exact (proj1 (release_at_nth_close_stmt n ops Hn Hv)). Qed.

(* non-vacuity *)
Example C36_ex_ok : (* three readers, interleaved reads, closed once each in a scrambled order *)
  results true 3 [Read 0; Close 2; Read 1; Read 2; Close 0; Read 1; Close 1; Read 1]
    = [ROk; ROk; ROk; REof; ROk; ROk; ROk; REof]
  /\ tx_done (final true 3 [Read 0; Close 2; Read 1; Read 2; Close 0; Read 1]) = false
  /\ tx_done (final true 3 [Read 0; Close 2; Read 1; Read 2; Close 0; Read 1; Close 1]) = true.
Proof. repeat split. Qed.
Example C36_ex_repeated_close : (* the history that broke the old code *)
  results true 2 [Close 0; Close 0; Read 1; Close 1] = [ROk; ROk; ROk; ROk]
  /\ tx_done (final true 2 [Close 0; Close 0; Read 1]) = false
  /\ rb_hooks (final true 2 [Close 0; Close 0; Read 1; Close 1; Close 1; Close 0]) = 1.
Proof. repeat split. Qed.
