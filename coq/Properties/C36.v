(* Properties/C36.v — streaming reads hold their transaction exactly as long as needed.
   Machine: Model/TxReaders.v (database.WithTxReadClosers + readCloserWithCloseHook + TxController.Rollback).
   [final fixed n ops] is the state after the caller applied [ops] (any order of Read i / Close i, repeated
   closes included) to the n readers it was handed; since the statements quantify over ALL op lists, they
   speak about every intermediate point of every history.  [fixed = false] is the code as it is,
   [fixed = true] the code after fixes/C36-close-once.patch. *)
From Verif Require Import Bytes Codec TxReaders TxReadersProofs.

(* The property: the transaction is released when, and only when, every reader has been closed; it is
   released exactly once; a reader that has not been closed never fails (whatever happened to the
   others); Close never reports an error. *)
Definition C36_full (fixed : bool) : Prop :=
  forall n ops, 0 < n -> (forall op, In op ops -> op_index op < n) ->
  let s := final fixed n ops in
  (tx_done s = true <-> forall i, i < n -> In (Close i) ops) /\
  rb_hooks s = (if tx_done s then 1 else 0) /\ rb_calls s <= 1 /\
  (forall i, i < n -> ~ In (Close i) ops -> snd (step fixed s (Read i)) = ROk) /\
  (forall i, i < n -> snd (step fixed s (Close i)) = ROk).

(* the code as it is violates it: two readers, reader 0 closed twice — the transaction is gone while
   reader 1 is open and reader 1's next Read fails with sql.ErrTxDone *)
Theorem C36_full_refuted : ~ C36_full false.
Proof. exact full_refuted_stmt. Qed.
Print Assumptions C36_full_refuted.

Theorem C36_full_refuted_witness :
  let s := final false 2 [Close 0; Close 0] in
  tx_done s = true /\ rb_hooks s = 1 /\ ~ In (Close 1) [Close 0; Close 0] /\
  snd (step false s (Read 1)) = RTxDone /\
  results false 2 [Close 0; Close 0; Read 1] = [ROk; ROk; RTxDone].
Proof. exact full_refuted_witness_stmt. Qed.
Print Assumptions C36_full_refuted_witness.

(* what the code does for EVERY history: the n-th Close — of whichever readers — releases the
   transaction; it is never released twice; a not-yet-closed reader fails exactly from then on *)
Theorem C36_release_at_nth_close : forall n ops, 0 < n -> (forall op, In op ops -> op_index op < n) ->
  let s := final false n ops in
  (tx_done s = true <-> n <= n_closes ops) /\
  rb_hooks s = (if tx_done s then 1 else 0) /\ rb_calls s <= 1 /\
  ((forall i, i < n -> In (Close i) ops) -> tx_done s = true) /\
  (forall i, i < n -> snd (step false s (Read i)) =
       if in_dec Nat.eq_dec i (close_indices ops) then REof
       else if n <=? n_closes ops then RTxDone else ROk) /\
  (forall i, snd (step false s (Close i)) = ROk).
Proof. exact release_at_nth_close_stmt. Qed.
Print Assumptions C36_release_at_nth_close.

(* the property holds on every history in which no reader is closed twice *)
Theorem C36_partial : forall n ops, 0 < n -> (forall op, In op ops -> op_index op < n) ->
  NoDup (close_indices ops) ->
  let s := final false n ops in
  (tx_done s = true <-> forall i, i < n -> In (Close i) ops) /\
  rb_hooks s = (if tx_done s then 1 else 0) /\ rb_calls s <= 1 /\
  (forall i, i < n -> ~ In (Close i) ops -> snd (step false s (Read i)) = ROk) /\
  (forall i, i < n -> snd (step false s (Close i)) = ROk).
Proof. exact partial_stmt. Qed.
Print Assumptions C36_partial.

(* conversely: an early release always has a repeated Close of one reader behind it *)
Theorem C36_early_release_needs_double_close : forall n ops i,
  0 < n -> (forall op, In op ops -> op_index op < n) ->
  tx_done (final false n ops) = true -> i < n -> ~ In (Close i) ops ->
  ~ NoDup (close_indices ops).
Proof. exact early_release_needs_double_close_stmt. Qed.
Print Assumptions C36_early_release_needs_double_close.

(* with the close hook made idempotent per reader the property holds for every history *)
Theorem C36_fixed_full : C36_full true.
Proof. exact fixed_full_stmt. Qed.
Print Assumptions C36_fixed_full.

(* both variants: the inner reader is closed once per Close of its wrapper, nobody else's *)
Theorem C36_inner_close_counts : forall fixed n ops i, (forall op, In op ops -> op_index op < n) -> i < n ->
  nth i (inner_closes (final fixed n ops)) 0 = count_occ Nat.eq_dec (close_indices ops) i.
Proof. intros fixed n ops i Hv Hi. apply (inner_inv fixed n ops Hv); exact Hi. Qed.
Print Assumptions C36_inner_close_counts.

(* the statements above are about [final] and the next [step]; the trace printed by the model (and
   compared with the implementation) is exactly that, position by position *)
Theorem C36_trace_is_stepwise : forall fixed n ops k op,
  nth_error ops k = Some op ->
  nth_error (snd (run_ops fixed (init n) ops)) k =
    Some (snd (step fixed (final fixed n (firstn k ops)) op), final fixed n (firstn (S k) ops)).
Proof. exact trace_stepwise. Qed.
Print Assumptions C36_trace_is_stepwise.

(* no readers handed out (fn failed, or returned none): released exactly once before returning;
   BeginTx failed: nothing to release *)
Theorem C36_no_readers : forall n,
  with_tx_read_closers BeginErr n = NoTx /\
  (exists s, with_tx_read_closers FnErr n = ReturnedErr s /\ tx_done s = true /\ rb_hooks s = 1 /\ rb_calls s = 1) /\
  (exists s, with_tx_read_closers SetupOk 0 = Started s /\ tx_done s = true /\ rb_hooks s = 1 /\ rb_calls s = 1) /\
  (0 < n -> with_tx_read_closers SetupOk n = Started (init n) /\ tx_done (init n) = false /\ rb_hooks (init n) = 0).
Proof. exact no_readers_stmt. Qed.
Print Assumptions C36_no_readers.

(* non-vacuity *)
Example C36_ex_ok : (* three readers, interleaved reads, closed once each in a scrambled order *)
  results false 3 [Read 0; Close 2; Read 1; Read 2; Close 0; Read 1; Close 1; Read 1]
    = [ROk; ROk; ROk; REof; ROk; ROk; ROk; REof]
  /\ tx_done (final false 3 [Read 0; Close 2; Read 1; Read 2; Close 0; Read 1]) = false
  /\ tx_done (final false 3 [Read 0; Close 2; Read 1; Read 2; Close 0; Read 1; Close 1]) = true.
Proof. repeat split. Qed.
Example C36_ex_fixed : (* the refuting history on the repaired machine *)
  results true 2 [Close 0; Close 0; Read 1; Close 1] = [ROk; ROk; ROk; ROk]
  /\ tx_done (final true 2 [Close 0; Close 0; Read 1]) = false
  /\ rb_hooks (final true 2 [Close 0; Close 0; Read 1; Close 1; Close 1; Close 0]) = 1.
Proof. repeat split. Qed.
