(* Properties/C16.v — encrypted parts: confidential at rest, tamper-evident, seekable.
   Only statements, [exact]s to Proofs/TinkSeekProofs.v, computed witnesses, Print Assumptions. *)
From Verif Require Import Bytes Codec TinkSeek TinkSeekProofs.
Open Scope N_scope.

(* segment arithmetic of the seekable reader: the segment computed for a plaintext offset contains
   it, for every segment size the reader accepts and every offset *)
Theorem C16_segment_index_inverse : forall css off, 56 < css ->
  seg_start css (seg_of css off) <= off < seg_start css (seg_of css off + 1).
Proof. exact seg_index_inverse. Qed.
Print Assumptions C16_segment_index_inverse.

Theorem C16_segment_index_unique : forall css off j, 56 < css ->
  seg_start css j <= off < seg_start css (j + 1) -> seg_of css off = j.
Proof. exact seg_of_unique. Qed.
Print Assumptions C16_segment_index_unique.

(* layout: from the length of a stream written for n plaintext bytes (40 + n + 16 per segment) the
   reader recovers exactly the writer's segment count and n, for every n and segment size *)
Theorem C16_layout : forall css n, 56 < css ->
  let ct := stream_len css n in
  (ct + css - 1) / css = nseg_of css n /\ ct - 40 - 16 * nseg_of css n = n /\ 56 <= ct.
Proof. exact reader_layout. Qed.
Print Assumptions C16_layout.

(* AUTHENTICITY, for ARBITRARY stored bytes, reader base and reader segment size: under the
   idealised AEAD of the written stream (whatever opens is a segment the writer sealed, under the
   stream header, index and last flag it was sealed with) a segment load that succeeds has buffered
   exactly the original plaintext segment of that index, and the reader's idea of "last segment"
   agrees with the writer's for it *)
Theorem C16_load_authentic :
  forall (css0 : N) (p hdr0 : bytes) (openH : bytes -> N -> bool -> bytes -> option bytes),
    (forall hdr j last c pt, openH hdr j last c = Some pt ->
       hdr = hdr0 /\ j < nseg_of css0 (lenN p) /\ last = (j =? nseg_of css0 (lenN p) - 1) /\ pt = pt_seg css0 p j) ->
    forall rd file st j st', load openH rd file st j = (st', true) ->
      buf st' = pt_seg css0 p j /\ segidx st' = Some j /\ segstart st' = seg_start (r_css rd) j /\
      pos st' = pos st /\ r_hdr rd = hdr0 /\
      j < nseg_of css0 (lenN p) /\ (j =? r_nseg rd - 1) = (j =? nseg_of css0 (lenN p) - 1).
Proof. intros css0 p hdr0 openH Hi. apply (load_authentic css0 p hdr0 openH Hi). Qed.
Print Assumptions C16_load_authentic.

(* ... hence a Read that (re)loads its segment returns exactly the original bytes at its position
   (reader segment size = writer's), whatever was done to the stored bytes *)
Theorem C16_read_loaded_exact :
  forall (css0 : N) (p hdr0 : bytes) (openH : bytes -> N -> bool -> bytes -> option bytes),
    (forall hdr j last c pt, openH hdr j last c = Some pt ->
       hdr = hdr0 /\ j < nseg_of css0 (lenN p) /\ last = (j =? nseg_of css0 (lenN p) - 1) /\ pt = pt_seg css0 p j) ->
    forall rd file st n st' d, 56 < css0 -> r_css rd = css0 ->
      eq_optN (segidx st) (seg_of css0 (pos st)) = false ->
      read openH rd file st n = (st', RData d) ->
      d = sub p (pos st) (lenN d) /\ pos st' = pos st + lenN d.
Proof. intros css0 p hdr0 openH Hi. apply (read_loaded_exact css0 p hdr0 openH Hi). Qed.
Print Assumptions C16_read_loaded_exact.

(* one part's ciphertext under another part id: the wrapped DEK does not open (tink.go) or, at the
   reader, nothing opens under the other key: every read before EOF fails *)
Theorem C16_other_part_id_fails : forall rd file st n,
  pos st < r_ptlen rd -> segidx st = None ->
  snd (read (fun _ _ _ _ => None) rd file st n) = RFail.
Proof. exact wrong_key_fails. Qed.
Print Assumptions C16_other_part_id_fails.
Theorem C16_other_part_id_open_fails : forall hlen v css file,
  open_part (Some (mkHdr hlen v false css)) file = None.
Proof. intros. unfold open_part. cbn. destruct (_ || _); reflexivity. Qed.
Print Assumptions C16_other_part_id_open_fails.

(* the table AEAD used by run_line and by the witnesses below satisfies the ideal hypothesis and
   opens what the writer sealed *)
Theorem C16_ideal_instance : forall css0 p,
  (forall hdr j last c pt, ideal_open css0 p true hdr j last c = Some pt ->
     hdr = toy_hdr /\ j < nseg_of css0 (lenN p) /\ last = (j =? nseg_of css0 (lenN p) - 1) /\ pt = pt_seg css0 p j) /\
  (forall j, j < nseg_of css0 (lenN p) ->
     ideal_open css0 p true toy_hdr j (j =? nseg_of css0 (lenN p) - 1)
       (toy_seal j (j =? nseg_of css0 (lenN p) - 1) (pt_seg css0 p j)) = Some (pt_seg css0 p j)).
Proof. intros. split; [intros; eapply ideal_open_ideal; eassumption | intros; apply ideal_open_correct; assumption]. Qed.
Print Assumptions C16_ideal_instance.

(* SEEKABLE, bounded: on the untampered stream, for every segment size in the list, every length
   up to 2*css+40 (up to 5 segments) and every offset, seeking to the offset and reading to EOF
   yields exactly the plaintext suffix (complete enumeration, computed in the kernel's VM) *)
Theorem C16_seek_read_bounded :
  forallb (fun css => forallb (fun n => forallb (fun off => seek_read_ok css n off) (upto n))
                              (upto (2 * css + 40)))
          [57; 58; 64] = true.
Proof. exact seek_read_bounded. Qed.
Print Assumptions C16_seek_read_bounded.

(* TAMPER EVIDENCE as stated: reading a part to EOF either fails or returns exactly the plaintext,
   whatever the stored bytes, reader base and (unauthenticated) segment size are *)
Definition C16_tamper_evident_full : Prop :=
  forall (css0 : N) (p : bytes) (openH : bytes -> N -> bool -> bytes -> option bytes),
    56 < css0 ->
    (forall hdr j last c pt, openH hdr j last c = Some pt ->
       hdr = toy_hdr /\ j < nseg_of css0 (lenN p) /\ last = (j =? nseg_of css0 (lenN p) - 1) /\ pt = pt_seg css0 p j) ->
    forall file base css rd fuel n st d,
      new_reader file base css = Some rd ->
      read_all openH fuel rd file init_state n = (st, d, REof) -> d = p.

(* refuted (1): the stored stream cut after one full segment + 16 bytes reads as a complete, shorter
   part: EOF is reported from the length alone, the final segment is never authenticated *)
Theorem C16_tamper_evident_refuted_truncation : ~ C16_tamper_evident_full.
Proof.
  intros H.
  pose (p := gen_plain 3 200).
  pose (file := firstn 116 (encrypt toy_seal toy_hdr 100 p)).
  destruct (new_reader file 0 100) as [rd|] eqn:E; [|vm_compute in E; discriminate].
  destruct (read_all (ideal_open 100 p true) 10 rd file init_state 500) as [[st d] e] eqn:R.
  assert (e = REof /\ lenN d = 44) as [-> Hd].
  { vm_compute in E. inversion E; subst rd. vm_compute in R. inversion R. split; reflexivity. }
  specialize (H 100 p (ideal_open 100 p true) ltac:(reflexivity)
                (fun hdr j last c pt => ideal_open_ideal 100 p hdr j last c pt)
                file 0 100 rd 10%nat 500 st d E R).
  subst d. vm_compute in Hd. discriminate.
Qed.
Print Assumptions C16_tamper_evident_refuted_truncation.

(* refuted (2): with the stored bytes untouched, the unauthenticated segment size of the part
   header alone (60 instead of 100) turns a 16-byte part into an empty one, without error *)
Theorem C16_tamper_evident_refuted_segment_size : ~ C16_tamper_evident_full.
Proof.
  intros H.
  pose (p := gen_plain 3 16).
  pose (file := encrypt toy_seal toy_hdr 100 p).
  destruct (new_reader file 0 60) as [rd|] eqn:E; [|vm_compute in E; discriminate].
  destruct (read_all (ideal_open 100 p true) 10 rd file init_state 500) as [[st d] e] eqn:R.
  assert (e = REof /\ d = []) as [-> ->].
  { vm_compute in E. inversion E; subst rd. vm_compute in R. inversion R. split; reflexivity. }
  specialize (H 100 p (ideal_open 100 p true) ltac:(reflexivity)
                (fun hdr j last c pt => ideal_open_ideal 100 p hdr j last c pt)
                file 0 60 rd 10%nat 500 st [] E R).
  vm_compute in H. discriminate.
Qed.
Print Assumptions C16_tamper_evident_refuted_segment_size.

(* the strongest true statement proved: what a successful whole-part read can differ in is ONLY its
   length — every byte delivered by a loading Read is the original byte at that position
   (C16_read_loaded_exact, C16_load_authentic); that it is complete when the reader's final
   segment is non-empty is exercised by the correspondence, not proved. *)

(* NEVER OTHER BYTES as stated: no result of any sequence of seeks and reads on one reader is a
   byte string different from the original bytes at that position *)
Definition bad_out (o : bytes) : bool :=
  match o with c :: _ => beqb c "z"%byte || beqb c "x"%byte | [] => false end.
Definition C16_never_other_bytes_full : Prop :=
  forall (css0 : N) (p : bytes) (openH : bytes -> N -> bool -> bytes -> option bytes),
    56 < css0 ->
    (forall hdr j last c pt, openH hdr j last c = Some pt ->
       hdr = toy_hdr /\ j < nseg_of css0 (lenN p) /\ last = (j =? nseg_of css0 (lenN p) - 1) /\ pt = pt_seg css0 p j) ->
    forall file base rd ops,
      new_reader file base css0 = Some rd ->
      existsb bad_out (run_ops openH p rd file init_state ops) = false.

(* refuted: after a Read failed authentication (one flipped byte in segment 2), a Read of the
   previously buffered segment 1 on the same reader returns zeros: Go's AEAD Open zeroes its
   destination, which is the reader's buffer, and the reader still believes segment 1 is loaded *)
Theorem C16_never_other_bytes_refuted : ~ C16_never_other_bytes_full.
Proof.
  intros H.
  pose (p := gen_plain 3 200).
  pose (file := flip_at (encrypt toy_seal toy_hdr 100 p) 205).
  destruct (new_reader file 0 100) as [rd|] eqn:E; [|vm_compute in E; discriminate].
  specialize (H 100 p (ideal_open 100 p true) ltac:(reflexivity)
                (fun hdr j last c pt => ideal_open_ideal 100 p hdr j last c pt)
                file 0 rd [OSeek 0 50; ORead 10; OSeek 0 130; ORead 10; OSeek 0 50; ORead 10] E).
  vm_compute in E. inversion E; subst rd. vm_compute in H. discriminate.
Qed.
Print Assumptions C16_never_other_bytes_refuted.

(* non-vacuity / the line protocol on the three witnesses and a clean seek sequence *)
Example C16_ex_clean : run_line B"R 100 200 3 5 - a50,s0:50,r10,s2:-1,r5,r5" = B"d0+200,eof;p50;d50+10;p199;d199+1;eof".
Proof. vm_compute. reflexivity. Qed.
Example C16_ex_trunc : run_line B"R 100 200 3 0 T116 a500" = B"d0+44,eof".
Proof. vm_compute. reflexivity. Qed.
Example C16_ex_stale : run_line B"R 100 200 3 0 F205 s0:50,r10,s0:130,r10,s0:50,r10" = B"p50;d50+10;p130;E;p50;z10".
Proof. vm_compute. reflexivity. Qed.
Example C16_ex_css : run_line B"R 100 16 3 0 C60 a500" = B"d0+0,eof".
Proof. vm_compute. reflexivity. Qed.
