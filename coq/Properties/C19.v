(* Properties/C19.v — caches never serve bytes that were not stored.
   Histories are lists of ATOMIC steps of Model/Cache.v (a streaming Set = OBegin/OFeed*/OEof|OErr, a reader =
   OOpen/ORead*/OFinish|OClose, the part store's miss fill = POpen/ORead*/OFinish), so "for all histories" is
   "for all interleavings of concurrent operations at that granularity".  The reference semantics
   (get_sound, part_sound: latest completed Set / inner store content, or miss) is Spec/CacheSpec.v. *)
From Verif Require Import Bytes Codec Cache CacheSpec CacheProofs CachePartProofs CacheTxProofs.

(* ---- the property for the generic cache, at full strength ---- *)
Definition C19_get_sound_full : Prop :=
  forall (kd : pkind) (pl : policy) (maxpart : nat) (ops : list op) (rs : list res),
    forallb cache_op ops = true ->
    run ops (w_init kd pl maxpart) = Some rs ->
    get_sound g0 ops rs.

(* refuted by the filesystem persistor: Store truncates and writes the file in place, so a Get that falls
   between the open and the last write of a streaming Set returns a prefix (here 4 of 10 bytes, for a key that
   has no completed Set at all) *)
Theorem C19_get_sound_refuted : ~ C19_get_sound_full.
Proof.
  intros H. apply fs_partial_unsound.
  apply (H PFs EvictNothing 64 fs_partial_ops); [reflexivity | exact fs_partial_run].
Qed.
Print Assumptions C19_get_sound_refuted.

(* a second witness: a Set on a key that a reader has open rewrites the bytes under the reader, which then
   delivers the first 4 bytes of the old value followed by the tail of the new one *)
Theorem C19_fs_reader_sees_mixed_value :
  run [OSet B"a" (content 1 10) 10; OOpen 0 B"a"; ORead 0 4; OSet B"a" (content 2 10) 10; OFinish 0]
      (w_init PFs EvictNothing 64)
  = Some [ROk; ROpen B"h"; RVal (firstn 4 (content 1 10)); ROk; RVal (skipn 4 (content 2 10))].
Proof. exact fs_mixed_run. Qed.
Print Assumptions C19_fs_reader_sees_mixed_value.

(* what does hold: with the in-memory persistor, for EVERY eviction policy and limit and EVERY interleaving of
   Sets (complete, failing, streaming), Gets, Removes and readers, a Get answers miss or the value of the latest
   completed Set of that key (never partial, foreign or stale after Remove) *)
Theorem C19_get_sound_partial_inmemory :
  forall (pl : policy) (maxpart : nat) (ops : list op) (rs : list res),
    forallb cache_op ops = true ->
    run ops (w_init PMem pl maxpart) = Some rs ->
    get_sound g0 ops rs.
Proof. exact mem_get_sound. Qed.
Print Assumptions C19_get_sound_partial_inmemory.

(* ---- no panics (model of the code after /repo 47ce3e3: the LFU eviction loop stops on an empty heap) ----
   For EVERY persistor, eviction policy, limit (size limits smaller than one entry and key limit 0 included),
   MaxPartSizeBytes and EVERY history of atomic steps — generic cache operations, readers, streaming Sets, and the
   part store's PutPart/DeletePart/GetPart with its miss fill (the Set that runs in the fill goroutine) — no step of
   the model panics.  The only panic of the model is heap.Pop on an empty heap inside TrackSetAndReturnEvictedKeys;
   the proof shows that the loop ends normally because every iteration shortens the heap by one (heap_pop_length).
   Not part of this statement: panics of code that is not modelled (os / io errors are returned, not panics). *)
Theorem C19_no_panic :
  forall (kd : pkind) (pl : policy) (maxpart : nat) (ops : list op), run ops (w_init kd pl maxpart) <> None.
Proof. intros kd pl mp ops. apply run_total. Qed.
Print Assumptions C19_no_panic.

(* regression: the three former panic witnesses now run to completion and serve the stored value *)
Theorem C19_former_panic_witnesses_pass :
  run [OSet B"a" (content 1 5) 5; OGet B"a"] (w_init PMem (LfuSize 4) 64) = Some [ROk; RVal (content 1 5)] /\
  run [OSet B"a" (content 1 1) 1; OSet B"b" (content 2 1) 1; OGet B"a"; OGet B"b"] (w_init PMem (LfuKeys 0) 64)
    = Some [ROk; ROk; RMiss; RVal (content 2 1)] /\
  run [PInner B"a" (content 1 9); PGet B"a"; PGet B"a"] (w_init PMem (LfuSize 4) 64)
    = Some [ROk; RVal (content 1 9); RVal (content 1 9)].
Proof. exact (conj lfu_oversize_ok (conj lfu_keys0_ok lfu_fill_ok)). Qed.
Print Assumptions C19_former_panic_witnesses_pass.

(* ---- the property for the cache-backed part store, at full strength ---- *)
Definition C19_part_sound_full : Prop :=
  forall (kd : pkind) (pl : policy) (maxpart : nat) (ops : list op) (rs : list res),
    run ops (w_init kd pl maxpart) = Some rs -> part_sound [] ops rs.

(* refuted even with the in-memory persistor: a miss fill that completes after DeletePart puts the deleted bytes
   back, the next GetPart serves them (stale after delete) *)
Theorem C19_part_sound_refuted : ~ C19_part_sound_full.
Proof. intros H. apply stale_unsound. apply (H PMem EvictNothing 64 stale_ops). exact stale_run. Qed.
Print Assumptions C19_part_sound_refuted.

(* and with the filesystem persistor a GetPart during the miss fill of the same part returns a prefix *)
Theorem C19_part_partial_read_fs :
  ~ part_sound [] [PInner B"a" (content 1 10); POpen 0 B"a"; ORead 0 4; PGet B"a"]
      [ROk; ROpen B"s"; RVal (firstn 4 (content 1 10)); RVal (firstn 4 (content 1 10))]
  /\ run [PInner B"a" (content 1 10); POpen 0 B"a"; ORead 0 4; PGet B"a"] (w_init PFs EvictNothing 64)
     = Some [ROk; ROpen B"s"; RVal (firstn 4 (content 1 10)); RVal (firstn 4 (content 1 10))].
Proof. split; [exact part_partial_unsound | exact part_partial_run]. Qed.
Print Assumptions C19_part_partial_read_fs.

(* what does hold for the part store, faults included.  For BOTH persistors, every eviction policy and limit and
   every history in which each GetPart runs to its end (ReadAll+Close) or to its early Close before the next
   operation starts (part_seq_op: PutPart, pre-existing parts, DeletePart, GetPart, and the fault steps: inner
   reader failing after k bytes for every k, inner GetPart failing, inner PutPart / DeletePart failing, reader closed
   after n bytes, PutPart whose cache Set fails in the persistor after j bytes):
   every GetPart answers exactly what the inner store holds at that moment (get_ok, Spec/CacheSpec.v) — the stored
   bytes, not-found, or, under a read fault, the k-byte prefix TOGETHER WITH the error; never a prefix without the
   error, never stale or foreign bytes — no matter which faulted reads or writes happened before.
   Excluded exactly: overlapping readers/fills (open findings C19-fs-inplace-partial, C19-stale-fill-after-delete)
   and a persistor failure during the miss fill itself (finding C19-fill-store-error-hangs-reader, next theorem). *)
Theorem C19_part_sound_partial :
  forall (kd : pkind) (pl : policy) (maxpart : nat) (ops : list op) (rs : list res),
    forallb part_seq_op ops = true ->
    run ops (w_init kd pl maxpart) = Some rs ->
    part_sound [] ops rs.
Proof. exact part_sound_seq. Qed.
Print Assumptions C19_part_sound_partial.

(* the excluded fault: the cache persistor fails while the miss fill streams into it.  Cache.Set returns, the fill
   goroutine ends, nobody closes the read end of the pipe, and the consumer's next non-empty Read blocks for ever *)
Theorem C19_fill_store_error_hangs_reader :
  run [PInner B"a" (content 1 10); POpenF 0 B"a" (FStoreFail 0); ORead 0 4] (w_init PMem EvictNothing 64)
  = Some [ROk; ROpen B"s"; RHang].
Proof. vm_compute. reflexivity. Qed.
Print Assumptions C19_fill_store_error_hangs_reader.

(* ---- round 3: mutations inside a write transaction that is still open while others read (real inner stores) ----
   Steps: TBegin, TPutTx/TDelTx (PutPart/DeletePart with the transaction), TCommit (pre-commit hooks, database commit,
   after-commit hooks in registration order: the cache's Set/Remove happen only here), TRollback; readers outside the
   transaction (PGet, PGetClose, ...) and inside it (PGetTx, PGetCloseTx).  Reference (Spec/CacheSpec.v, tsound): a
   reader outside the transaction gets exactly the COMMITTED content of that moment — so never the deleted bytes after
   a committed DeletePart, never the older bytes after a committed PutPart, the pre-transaction bytes after a rollback
   and while the transaction is open, never bytes that were not committed under that id. *)
Definition C19_part_sound_tx_full : Prop :=
  forall (kd : pkind) (pl : policy) (maxpart : nat) (ik : ikind) (ops : list op) (rs : list res),
    forallb (tx_seq_op true) ops = true ->
    run ops (w_init_i kd pl maxpart ik) = Some rs ->
    tsound tg0 ops rs.

(* refuted for the SQL part store: a GetPart INSIDE the open write transaction sees that transaction's uncommitted
   write, its miss fill puts those bytes into the shared cache, and they are served to everybody — also after the
   rollback (PutPart of a new part, read inside the transaction, rollback, read: the never-committed bytes) *)
Theorem C19_part_sound_tx_refuted : ~ C19_part_sound_tx_full.
Proof.
  intros H. apply dirty_unsound. apply (H PMem EvictNothing 64 ISql dirty_ops); [reflexivity | exact dirty_run].
Qed.
Print Assumptions C19_part_sound_tx_refuted.

(* what does hold: for BOTH persistors, every policy/limit, the filesystem AND the SQL part store, and every history
   of transaction steps and complete (or early-closed) readers OUTSIDE the transaction — before the commit, after
   it, after a rollback, two transactions one after the other, put and delete of one id in one transaction, the same
   id several times — every reader gets exactly the committed content.  For the filesystem store (whose transaction
   writes are invisible until the commit) the same holds with readers inside the transaction as well. *)
Theorem C19_part_sound_tx_partial :
  forall (kd : pkind) (pl : policy) (maxpart : nat) (ik : ikind) (intx : bool) (ops : list op) (rs : list res),
    (intx = true -> ik <> ISql) ->
    forallb (tx_seq_op intx) ops = true ->
    run ops (w_init_i kd pl maxpart ik) = Some rs ->
    tsound tg0 ops rs.
Proof.
  intros kd pl mp ik intx ops rs Hik Ho H. eapply trun_J; [exact Ho | exact Hik | apply TJ_init | exact H].
Qed.
Print Assumptions C19_part_sound_tx_partial.

(* the remaining window, decided by the model and replayed on the real code: a reader whose miss fill is still
   running when the commit's after-commit hook removes the cache entry completes its fill afterwards — the bytes of
   the part deleted by the COMMITTED transaction are served again (the transaction form of
   C19-stale-fill-after-delete).  Not a non-overlapping history, hence outside C19_part_sound_tx_partial. *)
Theorem C19_fill_racing_commit :
  run [TBegin; TPutTx B"a" (content 1 10); TPutTx B"b" (content 2 8); TCommit;
       TBegin; TDelTx B"a"; POpen 0 B"a"; ORead 0 4; TCommit; OFinish 0; PGet B"a"]
      (w_init_i PMem (LfuKeys 1) 64 IFs)
  = Some [ROk; ROk; ROk; ROk; ROk; ROk; ROpen B"s"; RVal (firstn 4 (content 1 10)); ROk;
          RVal (skipn 4 (content 1 10)); RVal (content 1 10)].
Proof. exact race_run. Qed.
Print Assumptions C19_fill_racing_commit.

(* observation (not part of the property text): the configured size limit is exceeded although satisfiable —
   limit 10, Set a(5), Set b(3), Set a(8) leaves 11 bytes stored: the eviction pops a's own old heap entry *)
Theorem C19_size_limit_exceeded :
  option_map stored_bytes
    (final [OSet B"a" (content 1 5) 5; OSet B"b" (content 2 3) 3; OSet B"a" (content 3 8) 8] (w_init PMem (LfuSize 10) 64))
  = Some 11.
Proof. exact size_limit_exceeded. Qed.
Print Assumptions C19_size_limit_exceeded.

(* non-vacuity: a history with evictions, a streaming Set overtaken by a Remove, hits and misses *)
Example C19_ex_nontrivial :
  run [OSet B"a" (content 1 3) 3; OBegin 0 B"b" (content 2 6) (-1); OFeed 0 4; OGet B"b"; OGet B"a";
       OFeed 0 9; OEof 0; OGet B"b"; OSet B"c" (content 3 2) 2; OGet B"a"; OGet B"b"; OGet B"c"]
      (w_init PMem (LfuKeys 2) 64)
  = Some [ROk; ROk; ROk; RMiss; RVal (content 1 3); ROk; ROk; RVal (content 2 6); ROk;
          RMiss; RVal (content 2 6); RVal (content 3 2)].
Proof. vm_compute. reflexivity. Qed.

(* non-vacuity of the fault theorem: a read fault mid-stream reports prefix+error and leaves nothing cached; the
   next GetPart serves the whole part; a failed inner put keeps the old value; a failed cache write is harmless *)
Example C19_ex_faults :
  run [PInner B"a" (content 1 10); PGetF B"a" (FReadFail 4); PGet B"a"; PPutFail B"a" (content 2 5); PGet B"a";
       PPutStoreFail B"a" (content 3 8) 0; PGetClose B"a" 3; PGet B"a"; PDeleteFail B"a"; PDelete B"a"; PGet B"a"]
      (w_init PFs (LfuSize 16) 64)
  = Some [ROk; RValErr (firstn 4 (content 1 10)); RVal (content 1 10); RErr; RVal (content 1 10);
          ROk; RVal (firstn 3 (content 3 8)); RVal (content 3 8); RErr; ROk; RNotFound].
Proof. vm_compute. reflexivity. Qed.

(* non-vacuity of the transaction theorem: reads before the commit see the old bytes, after it the new ones; a rollback
   changes nothing; put+delete of one id in one transaction; eviction forces miss fills in between *)
Example C19_ex_tx :
  run [TBegin; TPutTx B"a" (content 1 10); PGet B"a"; TCommit; PGet B"a";
       TBegin; TPutTx B"a" (content 2 6); TDelTx B"b"; PGet B"a"; PGetClose B"a" 3; TRollback; PGet B"a";
       TBegin; TPutTx B"b" (content 3 4); TDelTx B"a"; TPutTx B"a" (content 4 5); TDelTx B"b"; PGet B"a"; TCommit; PGet B"a"; PGet B"b"]
      (w_init_i PFs (LfuKeys 1) 64 ISql)
  = Some [ROk; ROk; RNotFound; ROk; RVal (content 1 10);
          ROk; ROk; ROk; RVal (content 1 10); RVal (firstn 3 (content 1 10)); ROk; RVal (content 1 10);
          ROk; ROk; ROk; ROk; ROk; RVal (content 1 10); ROk; RVal (content 4 5); RNotFound].
Proof. vm_compute. reflexivity. Qed.
