(* Properties/C39.v — the integrity validator flags exactly the corrupted objects.
   Model: Model/Integrity.v.  [corrupted o]: some part of o is missing or its stored bytes' digests
   differ from the recorded ones.  [recorded_by_put]: the object's ETag is the digest of its only part;
   [recorded_by_multipart]: it is the multipart form of the recorded part ETags. *)
From Verif Require Import Bytes Codec Integrity IntegrityProofs.
Local Open Scope N_scope.

(* validateObject reports an object iff it is corrupted — for objects written by PutObject and for
   multipart / appended objects with a number of parts other than one *)
Theorem C39_flags_iff_mismatch_partial : forall o,
  recorded_by_put o \/ (recorded_by_multipart o /\ length (parts o) <> 1%nat) ->
  (validate_object o = false <-> corrupted o).
Proof. exact flags_iff_stmt. Qed.
Print Assumptions C39_flags_iff_mismatch_partial.

(* no false negatives at all: a corrupted object is reported whatever its ETag form *)
Theorem C39_corrupted_always_reported : forall o, corrupted o -> validate_object o = false.
Proof. exact corrupted_reported. Qed.
Print Assumptions C39_corrupted_always_reported.

(* the property for every object the storage can write *)
Definition C39_flags_iff_mismatch_full : Prop := forall o,
  recorded_by_put o \/ recorded_by_multipart o -> (validate_object o = false <-> corrupted o).

(* refuted: an intact multipart object with exactly one part is reported (its "...-1" ETag is compared
   with the part's plain MD5) *)
Theorem C39_flags_iff_mismatch_full_refuted : ~ C39_flags_iff_mismatch_full.
Proof.
  intros H. destruct one_part_multipart_flagged as [R [F N]].
  apply N. apply (H one_part_multipart); [right; exact R | exact F].
Qed.
Print Assumptions C39_flags_iff_mismatch_full_refuted.

(* ValidateAll, when it runs: one result per object, equal to validateObject's verdict; an object is
   deleted only in delete mode and only if it was reported *)
Theorem C39_deletes_only_flagged : forall l del objs rs,
  validate_all l del objs = Some rs ->
  length rs = length objs /\
  forall i, (i < length objs)%nat ->
    fst (nth i rs (true, false)) = validate_object (nth i objs {| oetag := Multi []; parts := [] |}) /\
    (snd (nth i rs (true, false)) = true -> del = true /\ fst (nth i rs (true, false)) = false).
Proof. exact deletes_only_flagged_stmt. Qed.
Print Assumptions C39_deletes_only_flagged.

(* ValidateAll runs on the storage the server builds (field layout of metadataPartStorage since /repo
   df6e7b9) and its verdict for every object is validateObject's; deleted = reported and delete mode *)
Theorem C39_validate_all_runs : forall del objs,
  validate_all current_layout del objs =
  Some (map (fun o => (validate_object o, negb (validate_object o) && del)) objs).
Proof. exact validate_all_runs_stmt. Qed.
Print Assumptions C39_validate_all_runs.

(* regression statement: with the former layout (no field recognised) ValidateAll failed on every input *)
Theorem C39_validate_all_failed_before_fix : forall del objs, validate_all (L false []) del objs = None.
Proof. exact validate_all_failed_before_fix. Qed.
Print Assumptions C39_validate_all_failed_before_fix.

(* ValidateAll reports exactly the corrupted objects among those the partial theorem covers, and in
   delete mode deletes exactly those *)
Theorem C39_validate_all_exact : forall del objs rs,
  Forall (fun o => recorded_by_put o \/ (recorded_by_multipart o /\ length (parts o) <> 1%nat)) objs ->
  validate_all current_layout del objs = Some rs ->
  length rs = length objs /\
  forall i, (i < length objs)%nat ->
    let o := nth i objs {| oetag := Multi []; parts := [] |} in
    (fst (nth i rs (true, false)) = false <-> corrupted o) /\
    (snd (nth i rs (true, false)) = true <-> corrupted o /\ del = true).
Proof. exact validate_all_exact_stmt. Qed.
Print Assumptions C39_validate_all_exact.

(* findPartStore succeeds exactly when a part store is a direct field or reachable through Storage fields *)
Theorem C39_find_part_store_spec : forall d inner,
  find_part_store (L d inner) = true <-> d = true \/ exists l, In l inner /\ find_part_store l = true.
Proof. exact find_part_store_spec. Qed.
Print Assumptions C39_find_part_store_spec.

(* non-vacuity *)
Example C39_ex_put_intact : validate_object {| oetag := Single 5; parts := [{| rec := 5; actual := Some 5 |}] |} = true.
Proof. reflexivity. Qed.
Example C39_ex_multi_flip : validate_object {| oetag := Multi [5; 6]; parts := [{| rec := 5; actual := Some 5 |}; {| rec := 6; actual := Some 9 |}] |} = false.
Proof. reflexivity. Qed.
Example C39_ex_delete : validate_all (L true []) true [{| oetag := Single 5; parts := [{| rec := 5; actual := None |}] |}] = Some [(false, true)].
Proof. reflexivity. Qed.
