(* Properties/C39.v — the integrity validator flags exactly the corrupted objects.
   Model: Model/Integrity.v.  [corrupted o]: some part of o is missing or its stored bytes' digests
   differ from the recorded ones.  Classes of recorded objects (Proofs/IntegrityProofs.v):
     recorded_by_put     one part; ETag / CRC / SHA fields (where present) are the part's plain digests
                         — PutObject, ranged CopyObject, full copies of those; any checksum type;
     recorded_composite  type COMPOSITE; ETag md5-of-md5s "-N"; CRC / SHA (where present) digest-of-part-digests "-N"
                         — multipart COMPOSITE and its full copies;
     recorded_full       type FULL_OBJECT; ETag md5-of-md5s "-N"; CRC absent or the CRC-combine of the parts
                         — multipart FULL_OBJECT / unspecified, AppendObject results, their full copies. *)
From Coq Require Import Permutation.
From Verif Require Import Bytes Codec Integrity IntegrityProofs.
Local Open Scope N_scope.

(* EXACT classes (kind x checksum type): every PutObject-style object, and COMPOSITE / FULL_OBJECT /
   append objects with a part count other than one: reported iff corrupted *)
Theorem C39_flags_iff_mismatch_partial : forall o,
  recorded_by_put o \/ ((recorded_composite o \/ recorded_full o) /\ length (parts o) <> 1%nat) ->
  (validate_object o = false <-> corrupted o).
Proof. exact flags_iff_stmt. Qed.
Print Assumptions C39_flags_iff_mismatch_partial.

(* the object kinds the storage writes (as built by the harness and the model: PutObject / ranged copy =
   put_spec, multipart = multipart_spec with its type, AppendObject = append_spec; a full copy has the
   source's record) are in these classes, for every state of the part files *)
Theorem C39_kinds_in_classes : forall w,
  (forall id, recorded_by_put (to_obj w (put_spec id))) /\
  (forall ids, recorded_composite (to_obj w (multipart_spec TComp ids))) /\
  (forall ids, recorded_full (to_obj w (multipart_spec TFull ids))) /\
  (forall ids, recorded_full (to_obj w (append_spec ids))) /\
  (forall s, length (parts (to_obj w s)) = length (sids s)).
Proof. exact kinds_in_classes. Qed.
Print Assumptions C39_kinds_in_classes.

(* no false negatives at all: a corrupted object is reported whatever was recorded for it *)
Theorem C39_corrupted_always_reported : forall o, corrupted o -> validate_object o = false.
Proof. exact corrupted_reported. Qed.
Print Assumptions C39_corrupted_always_reported.

(* parts are shared (deduplication, full copies): a modified part file makes every object that
   references it reported *)
Theorem C39_shared_part_corrupts_all : forall w s id v,
  In id (sids s) -> wfind w id = Some v -> (v = None \/ exists a, v = Some a /\ a <> id) ->
  validate_object (to_obj w s) = false.
Proof. exact shared_part_corrupts_all. Qed.
Print Assumptions C39_shared_part_corrupts_all.

(* the property for every object the storage can write *)
Definition C39_flags_iff_mismatch_full : Prop := forall o,
  recorded_by_put o \/ recorded_composite o \/ recorded_full o -> (validate_object o = false <-> corrupted o).

(* refuted: an intact object with a multipart-style ETag and exactly one part is reported (its "...-1"
   ETag is compared with the part's plain MD5) — FULL_OBJECT / unspecified / append form *)
Theorem C39_flags_iff_mismatch_full_refuted : ~ C39_flags_iff_mismatch_full.
Proof.
  intros H. destruct one_part_flagged as [[R [F N]] _].
  apply N. apply (H one_part_full); [right; right; exact R | exact F].
Qed.
Print Assumptions C39_flags_iff_mismatch_full_refuted.

(* ... and the COMPOSITE form as well *)
Theorem C39_one_part_composite_flagged :
  recorded_composite one_part_composite /\ validate_object one_part_composite = false /\ ~ corrupted one_part_composite.
Proof. exact (proj2 one_part_flagged). Qed.
Print Assumptions C39_one_part_composite_flagged.

(* a record that carries COMPOSITE values under the type FULL_OBJECT (what a copy that retypes the
   checksum produces) is reported although the bytes are intact: the validator detects the inconsistent
   record; every intact object in an exact class is clean, so such a report points at the writer *)
Theorem C39_retyped_composite_reported : forall o,
  recorded_composite o -> (2 <= length (parts o))%nat -> ocrc o = Some (Comp (recs o) (length (parts o))) ->
  validate_object {| otype := TFull; oetag := oetag o; ocrc := ocrc o; osha := osha o; parts := parts o |} = false.
Proof. exact retyped_composite_reported. Qed.
Print Assumptions C39_retyped_composite_reported.

(* ValidateAll, when it runs: one result per object, equal to validateObject's verdict; an object is
   deleted only in delete mode and only if it was reported *)
Theorem C39_deletes_only_flagged : forall l del objs rs,
  validate_all l del objs = Some rs ->
  length rs = length objs /\
  forall i, (i < length objs)%nat ->
    fst (nth i rs (true, false)) = validate_object (nth i objs dflt) /\
    (snd (nth i rs (true, false)) = true -> del = true /\ fst (nth i rs (true, false)) = false).
Proof. exact deletes_only_flagged_stmt. Qed.
Print Assumptions C39_deletes_only_flagged.

(* ValidateAll runs on the storage the server builds (field layout of metadataPartStorage since /repo
   df6e7b9) and its verdict for every object is validateObject's; deleted = reported and delete mode *)
Theorem C39_validate_all_runs : forall del objs,
  validate_all current_layout del objs =
  Some (map (fun o => (validate_object o, negb (validate_object o) && del)) objs).
Proof. exact validate_all_runs_stmt. Qed.
Print Assumptions C39_validate_all_runs.

(* regression statement: with the former layout (no field recognised) ValidateAll failed on every input *)
Theorem C39_validate_all_failed_before_fix : forall del objs, validate_all (L false []) del objs = None.
Proof. exact validate_all_failed_before_fix. Qed.
Print Assumptions C39_validate_all_failed_before_fix.

(* ValidateAll reports exactly the corrupted objects among those of the exact classes, and in delete
   mode deletes exactly those *)
Theorem C39_validate_all_exact : forall del objs rs,
  Forall (fun o => recorded_by_put o \/ ((recorded_composite o \/ recorded_full o) /\ length (parts o) <> 1%nat)) objs ->
  validate_all current_layout del objs = Some rs ->
  length rs = length objs /\
  forall i, (i < length objs)%nat ->
    let o := nth i objs dflt in
    (fst (nth i rs (true, false)) = false <-> corrupted o) /\
    (snd (nth i rs (true, false)) = true <-> corrupted o /\ del = true).
Proof. exact validate_all_exact_stmt. Qed.
Print Assumptions C39_validate_all_exact.

(* findPartStore succeeds exactly when a part store is a direct field or reachable through Storage fields *)
Theorem C39_find_part_store_spec : forall d inner,
  find_part_store (L d inner) = true <-> d = true \/ exists l, In l inner /\ find_part_store l = true.
Proof. exact find_part_store_spec. Qed.
Print Assumptions C39_find_part_store_spec.

(* ================= several buckets =================
   [validate_buckets] is ValidateAll as a fold over the buckets with the report counters as the only
   state carried from bucket to bucket; [verdict] gives (success, deleted, post-state of the key). *)

(* the fold is a map: what happens in a bucket depends on that bucket only — no accumulator other than
   the three counters (which are sums over the buckets) reaches a later bucket *)
Theorem C39_buckets_independent : forall del bs,
  validate_buckets current_layout del bs =
  Some ({| c_total := sum_by (@length _) (map (validate_bucket del) bs);
           c_failed := sum_by n_failed (map (validate_bucket del) bs);
           c_deleted := sum_by n_deleted (map (validate_bucket del) bs) |},
        map (validate_bucket del) bs).
Proof. exact buckets_independent_stmt. Qed.
Print Assumptions C39_buckets_independent.

(* for every order in which the buckets are visited: same per-bucket results, same counters *)
Theorem C39_bucket_order_irrelevant : forall del bs bs', Permutation bs bs' ->
  exists c rs rs', validate_buckets current_layout del bs = Some (c, rs) /\
                   validate_buckets current_layout del bs' = Some (c, rs') /\
                   Permutation rs rs' /\
                   rs = map (validate_bucket del) bs /\ rs' = map (validate_bucket del) bs'.
Proof. exact bucket_order_irrelevant_stmt. Qed.
Print Assumptions C39_bucket_order_irrelevant.

(* deleted = flagged, bucket by bucket, for every placement of the corruption: in bucket k, object i is
   reported iff corrupted, marked deleted iff corrupted and delete mode, and its key changes iff so *)
Theorem C39_deleted_eq_flagged_per_bucket : forall del bs c rs,
  Forall (fun b => Forall exact_class (bobjs b)) bs ->
  validate_buckets current_layout del bs = Some (c, rs) ->
  length rs = length bs /\
  forall k b, nth_error bs k = Some b ->
    exists r, nth_error rs k = Some r /\ length r = length (bobjs b) /\
    forall i o, nth_error (bobjs b) i = Some o ->
      exists v, nth_error r i = Some v /\
        (fst (fst v) = false <-> corrupted o) /\
        (snd (fst v) = true <-> corrupted o /\ del = true) /\
        (snd v <> Kept <-> corrupted o /\ del = true) /\
        (snd v = delete_effect (bvers b) \/ snd v = Kept).
Proof. exact deleted_eq_flagged_stmt. Qed.
Print Assumptions C39_deleted_eq_flagged_per_bucket.

(* a report-only run deletes nothing in any bucket and DeletedObjects is 0 *)
Theorem C39_report_only_deletes_nothing : forall bs c rs,
  validate_buckets current_layout false bs = Some (c, rs) ->
  c_deleted c = 0%nat /\ Forall (Forall (fun v : bool * bool * post => snd (fst v) = false /\ snd v = Kept)) rs.
Proof. exact report_only_deletes_nothing_stmt. Qed.
Print Assumptions C39_report_only_deletes_nothing.

(* the counters of the report are the sums of the per-bucket verdicts *)
Theorem C39_counters : forall del bs c rs,
  validate_buckets current_layout del bs = Some (c, rs) ->
  c_total c = sum_by (@length _) rs /\ c_failed c = sum_by n_failed rs /\ c_deleted c = sum_by n_deleted rs.
Proof. exact counters_stmt. Qed.
Print Assumptions C39_counters.

(* "deletes ... when asked", at full strength: a deleted object is gone afterwards *)
Definition C39_deleted_means_gone_full : Prop := forall del b o,
  In o (bobjs b) -> snd (fst (verdict del (bvers b) o)) = true -> snd (verdict del (bvers b) o) = Gone.

(* refuted: in a versioning-enabled bucket DeleteObject without a version id only adds a delete marker:
   the report says "Deleted" (and counts it) while the corrupted version stays stored *)
Theorem C39_deleted_means_gone_full_refuted : ~ C39_deleted_means_gone_full.
Proof.
  intros H.
  specialize (H true {| bvers := true; bobjs := [to_obj [(5, None)] (put_spec 5)] |} (to_obj [(5, None)] (put_spec 5))
                (or_introl eq_refl) eq_refl).
  discriminate H.
Qed.
Print Assumptions C39_deleted_means_gone_full_refuted.

(* ... and it holds for unversioned buckets *)
Theorem C39_deleted_means_gone_partial : forall del b o,
  bvers b = false -> snd (fst (verdict del (bvers b) o)) = true -> snd (verdict del (bvers b) o) = Gone.
Proof.
  intros del b o Hb H. rewrite Hb in *. unfold verdict in *. cbn [fst snd] in *. rewrite H. reflexivity.
Qed.
Print Assumptions C39_deleted_means_gone_partial.

(* non-vacuity *)
Example C39_ex_put_intact : validate_object (to_obj [] (put_spec 5)) = true.
Proof. reflexivity. Qed.
Example C39_ex_composite_copy_intact : validate_object (to_obj [] (multipart_spec TComp [4; 6])) = true.
Proof. reflexivity. Qed.
Example C39_ex_composite_flip : validate_object (to_obj [(6, Some 7)] (multipart_spec TComp [4; 6])) = false.
Proof. reflexivity. Qed.
Example C39_ex_retyped : validate_object (to_obj [] (tamper "t"%byte (multipart_spec TComp [4; 6]))) = false.
Proof. reflexivity. Qed.
Example C39_ex_delete : validate_all current_layout true [to_obj [(5, None)] (put_spec 5)] = Some [(false, true)].
Proof. reflexivity. Qed.
Example C39_ex_two_buckets :
  validate_buckets current_layout true
    [{| bvers := false; bobjs := [to_obj [(5, None)] (put_spec 5); to_obj [(5, None)] (put_spec 7)] |};
     {| bvers := true; bobjs := [to_obj [(5, None)] (put_spec 9)] |}]
  = Some ({| c_total := 3; c_failed := 1; c_deleted := 1 |},
          [[(false, true, Gone); (true, false, Kept)]; [(true, false, Kept)]]).
Proof. reflexivity. Qed.
