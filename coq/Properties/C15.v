(* Properties/C15.v — every part store returns exactly the bytes it was given.
   Only statements, [exact]s to Proofs/PartStackProofs.v, non-vacuity examples, Print Assumptions. *)
From Verif Require Import Bytes Codec PartStack PartStackProofs.
Open Scope N_scope.

(* SQL part-content rows and outbox content chunks: for every chunk size n > 0 the stored chunks
   concatenate to the content, none is empty, none exceeds n, all but the last are full *)
Theorem C15_chunks_concat : forall (n : nat) (b : bytes), (0 < n)%nat -> concat (chunk n b) = b.
Proof. intros; apply chunks_concat; assumption. Qed.
Print Assumptions C15_chunks_concat.

Theorem C15_chunk_bounds : forall (n : nat) (b c : bytes), (0 < n)%nat ->
  In c (chunk n b) -> (0 < length c <= n)%nat.
Proof. intros; eapply chunk_bounds; eassumption. Qed.
Print Assumptions C15_chunk_bounds.

Theorem C15_chunks_full : forall (n : nat) (b : bytes) pre c post, (0 < n)%nat ->
  chunk n b = pre ++ c :: post -> post <> [] -> length c = n.
Proof. intros n b pre c post Hn E Hp. eapply (chunk_fuel_full n Hn (length b) b); eauto. Qed.
Print Assumptions C15_chunks_full.

(* the compression header parses back to its algorithm, for every checksum function *)
Theorem C15_header_roundtrip : forall (crc : bytes -> N) (a : N), a <= 2 ->
  parse_header crc (new_header crc a) = Some a /\ length (new_header crc a) = 32%nat.
Proof. intros; split; [apply parse_new_header; assumption | apply new_header_length]. Qed.
Print Assumptions C15_header_roundtrip.

(* compression middleware: GetPart(PutPart b) = b for EVERY b — in particular for a b that itself
   begins with a valid compression header — whatever the sampling decision, for any compressor
   whose decompressor inverts it *)
Theorem C15_roundtrip_compression :
  forall (crc : bytes -> N) (should : bytes -> bool) (compress : bytes -> bytes)
         (decompress : N -> bytes -> option bytes) (alg : N),
    alg = alg_gzip \/ alg = alg_zstd ->
    (forall b, decompress alg (compress b) = Some b) ->
    forall b, comp_decode crc decompress (comp_encode crc should compress alg b) = Some b.
Proof. intros; apply roundtrip_compression; assumption. Qed.
Print Assumptions C15_roundtrip_compression.

Theorem C15_magic_payload_roundtrip :
  forall (crc : bytes -> N) (should : bytes -> bool) (compress : bytes -> bytes)
         (decompress : N -> bytes -> option bytes) (alg a : N) (rest : bytes),
    alg = alg_gzip \/ alg = alg_zstd ->
    (forall b, decompress alg (compress b) = Some b) ->
    let b := new_header crc a ++ rest in
    comp_decode crc decompress (comp_encode crc should compress alg b) = Some b.
Proof. intros; apply roundtrip_compression; assumption. Qed.
Print Assumptions C15_magic_payload_roundtrip.

(* framing of the uncompressed branch, and contents below 1024 bytes are never compressed *)
Theorem C15_compression_framing :
  forall (crc : bytes -> N) (should : bytes -> bool) (compress : bytes -> bytes) (alg : N) (b : bytes),
    ((length b < min_compress)%nat -> comp_decide should b = false) /\
    (comp_decide should b = false ->
     comp_encode crc should compress alg b = new_header crc alg_none ++ b /\
     length (comp_encode crc should compress alg b) = (32 + length b)%nat) /\
    comp_encode crc should compress alg b <> [].
Proof.
  intros crc should compress alg b. split; [apply comp_small_not_compressed|]. split; [|apply comp_encode_nonempty].
  intros H. split; [unfold comp_encode; rewrite H; reflexivity | apply comp_encode_len_none; exact H].
Qed.
Print Assumptions C15_compression_framing.

(* the round-trip law is closed under composition: it holds for every finite stack of codecs *)
Theorem C15_roundtrip_compose : forall (C : Type) (l : list (codec C)),
  (forall k, In k l -> forall c, dec k (enc k c) = Some c) ->
  forall c, dec_stack l (enc_stack l c) = Some c.
Proof. intros C l; apply roundtrip_compose. Qed.
Print Assumptions C15_roundtrip_compose.

(* THE PROPERTY as stated, over every stack (base filesystem|sql under any finite sequence of
   codec / cache / outbox layers, the codecs decoding what they encode), every content type
   (so every content and size, the empty one included), every history of put / get (with or without
   transaction, any skip) / delete / list / outbox worker steps: each GetPart returns the content of
   the last PutPart of that id or not-found after a delete, GetPartIds lists exactly the live ids. *)
Theorem C15_stack_correct :
  forall (C : Type) (csize : C -> N) (s : sstate C) (ops : list (op C)),
    lawful C s -> fresh C s -> outs_ok C [] ops (run C csize s ops).
Proof. intros C cs s ops. apply stack_correct_lawful. Qed.
Print Assumptions C15_stack_correct.

(* the same from any reachable state: the invariant and the abstraction are preserved *)
Theorem C15_stack_correct_from :
  forall (C : Type) (csize : C -> N) (s : sstate C) (m : amap C) (ops : list (op C)),
    rel C s m ->
    Forall (fun o => match o with OPut _ c _ => accepts C s c | _ => True end) ops ->
    outs_ok C m ops (run C csize s ops).
Proof. intros C cs s m ops. apply stack_correct. Qed.
Print Assumptions C15_stack_correct_from.

(* an outbox worker step (any number of them, at any point) never changes what GetPart returns *)
Theorem C15_worker_invisible :
  forall (C : Type) (csize : C -> N) (s : sstate C) (n : nat),
    Inv C s ->
    Inv C (iter_tick C csize n s) /\
    forall id, view C (iter_tick C csize n s) id = view C s id.
Proof. intros; apply iter_correct; assumption. Qed.
Print Assumptions C15_worker_invisible.

(* non-vacuity: a three-layer stack over each base on the symbolic contents of the line protocol *)
Example C15_ex_run :
  run_line B"fs cache,comp,outbox P.0.0.1.2000.t;G.0.t.5;D.0.t;G.0.t.0;L.t" = B"ok;0.1.2000+5;ok;nf;ids:".
Proof. vm_compute. reflexivity. Qed.
Example C15_ex_sql_empty :
  run_line B"sql - P.1.1.1.0.t;G.1.t.0;L.t" = B"ok;e;ids:1".
Proof. vm_compute. reflexivity. Qed.
Example C15_ex_chunk : chunk 3 B"abcdefgh" = [B"abc"; B"def"; B"gh"].
Proof. reflexivity. Qed.
