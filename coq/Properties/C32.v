(* Properties/C32.v — client IP and scheme are only taken from trusted proxies.
   Model: Model/ClientIP.v (resolveClientIPAndScheme and what it calls in luaauthorizer.go).
   [pip] is net.ParseIP (any function: the theorems hold for every parser); a configuration is the list
   of configured CIDR entries after net.ParseCIDR, [None] = the entry did not parse.
   [(Peer, default_scheme q)] = exactly the TCP peer's address and the connection's scheme.
   [resolve_gen pip true] is the CURRENT code (since /repo 4284846: only "no entry configured" means trust every
   peer); [resolve_gen pip false] (= [resolve pip]) is the code before that fix — historical Examples at the end. *)
From Verif Require Import Bytes Codec ClientIP ClientIPProofs.
Local Open Scope N_scope.

(* first half: the values shown to the authorizer differ from the peer's only if forwarded headers are trusted
   AND the peer is a known address AND (no list was configured OR the peer lies in a configured CIDR) *)
Theorem C32_forwarded_only_if_trusted_full : forall (pip : bytes -> option N) trust cfg q,
  resolve_gen pip true trust cfg q <> (Peer, default_scheme q) ->
  trust = true /\
  exists t p, q_remote q = Some t /\ pip t = Some p /\
    (cfg = [] \/ exists c, In (Some c) cfg /\ contains c p = true).
Proof. exact fixed_forwarded_only_if_trusted_stmt. Qed.
Print Assumptions C32_forwarded_only_if_trusted_full.

(* second half: a configured list none of whose entries is usable trusts nobody *)
Theorem C32_unusable_list_trusts_nobody_full : forall (pip : bytes -> option N) trust cfg q,
  cfg <> [] -> (forall e, In e cfg -> e = None) ->
  resolve_gen pip true trust cfg q = (Peer, default_scheme q).
Proof. exact fixed_unusable_list_trusts_nobody_stmt. Qed.
Print Assumptions C32_unusable_list_trusts_nobody_full.

(* the decision is exact: a trusted, known peer (no list, or inside a configured CIDR) DOES get its forwarded
   headers honoured, by the documented precedence *)
Theorem C32_trusted_proxy_honoured : forall (pip : bytes -> option N) cfg q t p,
  q_remote q = Some t -> pip t = Some p ->
  (cfg = [] \/ exists c, In (Some c) cfg /\ contains c p = true) ->
  resolve_gen pip true true cfg q =
   (match header_value (q_cf q) with
    | Some v => match pip (trim_space v) with Some a => Fwd a | None => Peer end
    | None => match header_value (q_xff q) with
              | Some v => match pip (trim_space (first_part v)) with Some a => Fwd a | None => Peer end
              | None => Peer
              end
    end,
    match header_value (q_proto q) with
    | Some v => match parse_forwarded_scheme v with Some s => s | None => default_scheme q end
    | None => default_scheme q
    end).
Proof. exact trusted_proxy_honoured_stmt. Qed.
Print Assumptions C32_trusted_proxy_honoured.

(* not trusted, or peer unknown/unparsable: the headers are never looked at (either variant) *)
Theorem C32_untrusted_unchanged : forall (pip : bytes -> option N) fixed trust cfg q,
  trust = false \/ q_remote q = None \/ (exists t, q_remote q = Some t /\ pip t = None) ->
  resolve_gen pip fixed trust cfg q = (Peer, default_scheme q).
Proof. exact untrusted_unchanged_gen_stmt. Qed.
Print Assumptions C32_untrusted_unchanged.

(* a forwarded client IP is the parse of the CF-Connecting-IP value or, only when that header is absent,
   of the LEFT-MOST X-Forwarded-For entry (trimmed) *)
Theorem C32_forwarded_value_origin : forall (pip : bytes -> option N) fixed trust cfg q p s,
  resolve_gen pip fixed trust cfg q = (Fwd p, s) ->
  (exists v, header_value (q_cf q) = Some v /\ pip (trim_space v) = Some p) \/
  (header_value (q_cf q) = None /\
   exists v, header_value (q_xff q) = Some v /\ pip (trim_space (first_part v)) = Some p).
Proof. exact forwarded_value_origin_gen_stmt. Qed.
Print Assumptions C32_forwarded_value_origin.

(* the scheme is the connection's, or "http"/"https" taken from the first X-Forwarded-Proto entry *)
Theorem C32_scheme_values : forall (pip : bytes -> option N) fixed trust cfg q,
  snd (resolve_gen pip fixed trust cfg q) = default_scheme q \/
  (trust = true /\ exists v, header_value (q_proto q) = Some v /\
     snd (resolve_gen pip fixed trust cfg q) = to_lower (trim_space (first_part v)) /\
     (snd (resolve_gen pip fixed trust cfg q) = B"http" \/ snd (resolve_gen pip fixed trust cfg q) = B"https")).
Proof. exact scheme_values_gen_stmt. Qed.
Print Assumptions C32_scheme_values.

(* "lies inside a configured CIDR" is prefix matching inside one address family *)
Theorem C32_contains_prefix_match : forall c p,
  contains c p = true <->
  if c_v4 c then
    is_v4 p = true /\ low32 p / 2 ^ (32 - c_len c) = low32 (c_addr c) / 2 ^ (32 - c_len c)
  else if is_v4 (mask_to 128 (c_len c) (c_addr c)) then
    is_v4 p = true /\
    low32 p / 2 ^ (32 - (c_len c - 96)) = low32 (mask_to 128 (c_len c) (c_addr c)) / 2 ^ (32 - (c_len c - 96))
  else
    is_v4 p = false /\ p / 2 ^ (128 - c_len c) = c_addr c / 2 ^ (128 - c_len c).
Proof. exact contains_prefix_match_stmt. Qed.
Print Assumptions C32_contains_prefix_match.

(* ================= end to end: settings layer (flags, environment, Settings.merge) + authorizer =================
   [sources] = the two command line flags and the two environment variables; [pcidr] = net.ParseCIDR (any function).
   [e2e_resolve pip pcidr mfix s q]: LoadSettings -> TrustForwardedHeaders()/TrustedProxyCIDRs() ->
   NewLuaAuthorizerWithOptions -> resolveClientIPAndScheme.  [mfix = false] = Settings.merge as it is,
   [mfix = true] = after fixes/C32-settings-merge-slices.patch.
   The property: forwarded headers are honoured only if trusted, the peer is known, and either NO source configured
   any entry or the peer lies inside a usable entry of the configured list (the environment's entries when it has
   any, else the command line's) — a list configured by either source never degrades to trust-all. *)
Definition C32_e2e_full (mfix : bool) : Prop :=
  forall (pip : bytes -> option N) (pcidr : bytes -> option cidr) s q,
  e2e_resolve pip pcidr mfix s q <> (Peer, default_scheme q) ->
  merged_trust s = true /\
  exists t p, q_remote q = Some t /\ pip t = Some p /\
    ((cli_entries s = [] /\ env_entries s = []) \/
     exists e c, In e (match env_entries s with [] => cli_entries s | l => l end) /\
                 pcidr e = Some c /\ contains c p = true).

(* violated by the code as it is: Settings.merge overwrites slice fields unconditionally, so the environment's
   (unset = nil) value replaces a list given on the command line *)
Theorem C32_e2e_refuted : ~ C32_e2e_full false.
Proof. exact e2e_refuted_stmt. Qed.
Print Assumptions C32_e2e_refuted.

Theorem C32_e2e_witness :   (* -trustForwardedHeaders -trustedProxyCIDRs=10.0.0.0/8, peer 203.0.113.9 *)
  e2e_resolve wit_pip wit_pcidr false wit_sources wit_req = (Fwd 281470849515521, B"https") /\
  cli_entries wit_sources = [B"10.0.0.0/8"] /\ env_entries wit_sources = [] /\
  contains (mkCidr true 281470849515520 8) 281474087547145 = false /\
  e2e_resolve wit_pip wit_pcidr true wit_sources wit_req = (Peer, B"http").
Proof. exact e2e_witness_stmt. Qed.
Print Assumptions C32_e2e_witness.

(* it holds whenever the command line configures no entry or the environment configures at least one *)
Theorem C32_e2e_partial : forall (pip : bytes -> option N) (pcidr : bytes -> option cidr) s q,
  cli_entries s = [] \/ env_entries s <> [] ->
  e2e_resolve pip pcidr false s q <> (Peer, default_scheme q) ->
  merged_trust s = true /\
  exists t p, q_remote q = Some t /\ pip t = Some p /\
    ((cli_entries s = [] /\ env_entries s = []) \/
     exists e c, In e (match env_entries s with [] => cli_entries s | l => l end) /\
                 pcidr e = Some c /\ contains c p = true).
Proof. exact e2e_partial_stmt. Qed.
Print Assumptions C32_e2e_partial.

(* what the code does: whatever -trustedProxyCIDRs says is ignored *)
Theorem C32_e2e_cli_list_ignored : forall (pip : bytes -> option N) (pcidr : bytes -> option cidr) ct cc cc' et ec q,
  e2e_resolve pip pcidr false (mkSources ct cc et ec) q = e2e_resolve pip pcidr false (mkSources ct cc' et ec) q.
Proof. exact e2e_asis_ignores_cli_stmt. Qed.
Print Assumptions C32_e2e_cli_list_ignored.

(* with slices merged only when non-empty the end-to-end property holds for every configuration *)
Theorem C32_e2e_merge_fixed : C32_e2e_full true.
Proof. exact e2e_fixed_stmt. Qed.
Print Assumptions C32_e2e_merge_fixed.

(* ---- HISTORICAL: the decision before /repo 4284846 ([resolve pip] = [resolve_gen pip false]: an EMPTY slice of
   parsed networks meant "trust every peer").  Machine-checked record of the old defect; says nothing about the
   current code. ---- *)
Example C32_prefix_forwarded_only_if_trusted_refuted :
  ~ (forall (pip : bytes -> option N) trust cfg q,
     resolve_gen pip false trust cfg q <> (Peer, default_scheme q) ->
     trust = true /\
     exists t p, q_remote q = Some t /\ pip t = Some p /\
       (cfg = [] \/ exists c, In (Some c) cfg /\ contains c p = true)).
Proof. exact forwarded_only_if_trusted_refuted_stmt. Qed.
Example C32_prefix_unusable_list_trusts_nobody_refuted :
  ~ (forall (pip : bytes -> option N) trust cfg q,
     cfg <> [] -> (forall e, In e cfg -> e = None) ->
     resolve_gen pip false trust cfg q = (Peer, default_scheme q)).
Proof. exact unusable_list_trusts_nobody_refuted_stmt. Qed.
Example C32_prefix_witness :   (* TRUSTED_PROXY_CIDRS="10.0.0.1": peer 203.0.113.9 dictated 10.0.0.1 / https *)
  resolve wit_pip true [None] wit_req = (Fwd 281470849515521, B"https") /\
  q_remote wit_req = Some B"203.0.113.9" /\ default_scheme wit_req = B"http".
Proof. exact refuting_witness_stmt. Qed.
Example C32_prefix_trust_decision :   (* what the old code did *)
  forall (pip : bytes -> option N) trust cfg q,
  resolve pip trust cfg q <> (Peer, default_scheme q) ->
  trust = true /\
  exists t p, q_remote q = Some t /\ pip t = Some p /\
    ((forall e, In e cfg -> e = None) \/ exists c, In (Some c) cfg /\ contains c p = true).
Proof. exact trust_decision_stmt. Qed.

(* non-vacuity: 10.0.0.0/8 contains 10.1.2.3 and not 11.0.0.1; ::ffff:10.0.0.0/104 is the same network;
   ::/0 contains no IPv4 peer (Go's IPNet.Contains compares lengths) *)
Example C32_ex_contains :
  contains (mkCidr true 281470849515520 8) 281470849581571 = true /\
  contains (mkCidr true 281470849515520 8) 281470866292737 = false /\
  contains (mkCidr false 281470849515520 104) 281470849581571 = true /\
  contains (mkCidr false 0 0) 281470849581571 = false /\ contains (mkCidr false 0 0) 1 = true.
Proof. vm_compute. repeat split. Qed.
Example C32_ex_trusted_proxy :   (* a proper list: 10.0.0.1 is trusted and its X-Forwarded-For is honoured *)
  resolve_gen wit_pip true true [Some (mkCidr true 281470849515520 8); None]
    (mkReq (Some B"10.0.0.1") B"" None (Some [B" 203.0.113.9 , 10.0.0.1"]) (Some [B"HTTPS, http"]))
  = (Fwd 281474087547145, B"https").
Proof. vm_compute. reflexivity. Qed.
Example C32_ex_untrusted_peer :  (* the same list does not trust 203.0.113.9 *)
  resolve_gen wit_pip true true [Some (mkCidr true 281470849515520 8); None] wit_req = (Peer, B"http").
Proof. vm_compute. reflexivity. Qed.
Example C32_ex_unusable_list :   (* the former witness on the current code: nobody is trusted *)
  resolve_gen wit_pip true true [None] wit_req = (Peer, B"http").
Proof. vm_compute. reflexivity. Qed.
