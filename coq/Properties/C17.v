(* Properties/C17.v — erasure coding tolerates parity-many shard faults and never lies.
   Model: Model/Erasure.v (PutPart / GetPart with heal-on-read of erasurecoding.go).
   SHA-256 and Reed-Solomon are parameters; [ec_assumptions] (Proofs/ErasureProofs.v) says:
   digests have 32 bytes, 1 <= k, k*stripe < 2^32, k+m < 65536, 1024 <= stripe < 2^32, the m parity
   shards are as long as the data shards, and the MDS law: any >= k positions of a code word
   (holes elsewhere) reconstruct the k data shards.
   [shard_cond part i f]: what shard file i may be — the file PutPart wrote | missing | rejected at
   open | opens and its reader only ever yields frames PutPart wrote for (stripe, shard i) until it is
   closed ([tol]).  [C17_fault_kinds_tolerated] shows that the fault kinds of the property produce
   such files.  *)
From Verif Require Import Bytes Codec Erasure ErasureProofs.
Local Open Scope N_scope.

(* With at least k shard files exactly as written (i.e. at most m faulty ones) and every faulty
   shard missing, rejected at open (truncated/corrupted shard header), or tolerated, GetPart
   returns exactly the part and no error. *)
Theorem C17_read_correct_partial : forall sha rs_enc rs_rec k m SS,
  ec_assumptions sha rs_enc rs_rec k m SS ->
  forall part files, N.of_nat (length part) < 2 ^ 64 -> length files = (k + m)%nat ->
  Forall (fun if_ => shard_cond sha rs_enc k m SS part (fst if_) (snd if_)) (indexed files) ->
  (k <= length (filter (intact sha rs_enc k m SS part) (indexed files)))%nat ->
  fst (read sha rs_rec k m SS files) = (part, true).
Proof. exact read_correct_stmt. Qed.
Print Assumptions C17_read_correct_partial.

(* The tolerated faults, as bytes: a missing file; a file shorter than the shard header; the
   written file cut inside a frame header or at a frame boundary (also with any < 48 other bytes
   there); the written frames of some stripes followed by ANY bytes whose next frame the reader
   rejects (stripe index or payload length changed, payload cut short, payload or digest changed so
   that the digest no longer matches) while original stripes are still outstanding. *)
Theorem C17_fault_kinds_tolerated : forall sha rs_enc rs_rec k m SS,
  ec_assumptions sha rs_enc rs_rec k m SS ->
  forall part i, N.of_nat (length part) < 2 ^ 64 -> (i < k + m)%nat ->
    shard_cond sha rs_enc k m SS part i None /\
    (forall b, (length b < 15)%nat -> shard_cond sha rs_enc k m SS part i (Some b)) /\
    (forall bufs1 bufs2 tail, stripes k SS part = bufs1 ++ bufs2 -> (length tail < 48)%nat ->
       shard_cond sha rs_enc k m SS part i
         (Some (shard_header k m SS i ++ good_bytes sha rs_enc k m i 0 bufs1 ++ tail))) /\
    (forall bufs1 buf bufs2 tail, stripes k SS part = bufs1 ++ buf :: bufs2 ->
       read_frame sha (N.of_nat (length bufs1)) tail = FBad ->
       shard_cond sha rs_enc k m SS part i
         (Some (shard_header k m SS i ++ good_bytes sha rs_enc k m i 0 bufs1 ++ tail))).
Proof. exact fault_kinds_stmt. Qed.
Print Assumptions C17_fault_kinds_tolerated.

(* The property at full strength: ANY content of at most m shard files (missing, truncated,
   corrupted anywhere incl. the frame-header fields, stale) is survived. *)
Definition C17_read_correct_full : Prop := forall sha rs_enc rs_rec k m SS,
  ec_assumptions sha rs_enc rs_rec k m SS ->
  forall part files, N.of_nat (length part) < 2 ^ 64 -> length files = (k + m)%nat ->
  (k <= length (filter (intact sha rs_enc k m SS part) (indexed files)))%nat ->
  fst (read sha rs_rec k m SS files) = (part, true).

(* refuted: (1+1), part 01 02, one byte of the dataBytes field of shard 0's frame changed 2 -> 1:
   the read returns the single byte 01 and no error *)
Theorem C17_read_correct_full_refuted : ~ C17_read_correct_full.
Proof.
  intros H. specialize (H sha0 enc11 rec11 1%nat 1%nat 1024 assumptions11 w_part w_databytes).
  destruct w_databytes_lies as [L C]. rewrite L in H.
  assert (([x01], true) = (w_part, true)) as E; [|discriminate E].
  apply H; [vm_compute; reflexivity | reflexivity | ].
  unfold intact. change (write_all sha0 enc11 1 1 1024 w_part) with w_files. rewrite C. apply le_n.
Qed.
Print Assumptions C17_read_correct_full_refuted.

(* Never lies: whatever the shard files contain, the read fails or returns the part. *)
Definition C17_never_lies_full : Prop := forall sha rs_enc rs_rec k m SS,
  ec_assumptions sha rs_enc rs_rec k m SS ->
  forall part files, N.of_nat (length part) < 2 ^ 64 -> length files = (k + m)%nat ->
  snd (fst (read sha rs_rec k m SS files)) = false \/ fst (fst (read sha rs_rec k m SS files)) = part.

(* refuted: all shard files missing -> the read returns the empty part and no error *)
Theorem C17_never_lies_full_refuted : ~ C17_never_lies_full.
Proof.
  intros H. specialize (H sha0 enc11 rec11 1%nat 1%nat 1024 assumptions11 w_part [None; None]).
  rewrite w_all_missing_reads_empty in H. cbn in H.
  destruct H as [H|H]; [vm_compute; reflexivity | reflexivity | discriminate H | discriminate H].
Qed.
Print Assumptions C17_never_lies_full_refuted.

(* Healing: after a successful read every missing shard file is again the one PutPart wrote. *)
Definition C17_heal_restores_full : Prop := forall sha rs_enc rs_rec k m SS,
  ec_assumptions sha rs_enc rs_rec k m SS ->
  forall part files i, N.of_nat (length part) < 2 ^ 64 -> length files = (k + m)%nat -> (i < k + m)%nat ->
  (forall j, nth j files None = None \/ nth j files None = Some (nth j (write_all sha rs_enc k m SS part) [])) ->
  nth i files None = None ->
  fst (read sha rs_rec k m SS files) = (part, true) ->
  nth i (snd (read sha rs_rec k m SS files)) None = Some (nth i (write_all sha rs_enc k m SS part) []).

(* refuted: (1+1), parity shard file missing: the read succeeds and "heals" shard 1 with a file that
   is not the written one (its frames have empty payloads: ReconstructData leaves parity shards nil) *)
Theorem C17_heal_restores_full_refuted : ~ C17_heal_restores_full.
Proof.
  intros H.
  specialize (H sha0 enc11 rec11 1%nat 1%nat 1024 assumptions11 w_part [Some (nth 0 w_files []); None] 1%nat).
  destruct w_parity_not_healed as [R N]. apply N. apply H; try reflexivity; try exact R; try (vm_compute; reflexivity); try lia.
  intros [|[|j]]; cbn; auto. destruct j; auto.
Qed.
Print Assumptions C17_heal_restores_full_refuted.

(* non-vacuity: the assumptions are satisfiable (replication is a (1+1) MDS code), and the partial
   theorem applies to a part with a missing parity shard *)
Example C17_ex_assumptions : ec_assumptions sha0 enc11 rec11 1 1 1024.
Proof. exact assumptions11. Qed.
Example C17_ex_read : fst (read sha0 rec11 1 1 1024 [Some (nth 0 w_files []); None]) = (w_part, true).
Proof. vm_compute. reflexivity. Qed.
