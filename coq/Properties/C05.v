(* Properties/C05.v — Range reads return exactly the requested slice.
   Only statements, [exact]s to Proofs/Range*.v, refutations by computation on concrete witnesses,
   non-vacuity examples and Print Assumptions. *)
From Verif Require Import Bytes Codec Range RangeSpec RangeProofs RangeHttpProofs.
Local Open Scope Z_scope.

(* (a) storage layer: for EVERY list of parts (as byte strings, empty parts included), every declared
   object size and every range [s,e) with 0 <= s < e, createRangeReader succeeds and reading the planned
   (part, skip, limit) segments in order yields exactly bytes s..e-1 of the concatenated parts *)
Theorem C05_plan_concat : forall (parts : list bytes) (objsize s e : Z),
  0 <= s < e ->
  exists p, create_range_reader (map lenZ parts) objsize {| b_start := Some s; b_end := Some e |} = RRPlan p /\
            read_plan parts p = firstn (Z.to_nat (e - s)) (skipn (Z.to_nat s) (concat parts)).
Proof. exact plan_concat_stmt. Qed.
Print Assumptions C05_plan_concat.

(* (b) the Content-Length declared for a multipart/byteranges answer equals the length of the body the
   handler writes, for every separator and every list of (Content-Range, data) parts *)
Theorem C05_multipart_length : forall sep (ps : list (bytes * bytes)), ps <> [] ->
  lenZ (multipart_body sep ps) = multipart_clen (lenZ sep) (map fst ps) (map (fun p => lenZ (snd p)) ps).
Proof. exact multipart_length_stmt. Qed.
Print Assumptions C05_multipart_length.

(* (c) the property: on every syntactically valid Range header (and without one) the answer is the
   RFC 7233 answer.  FALSE for the faithful model — kept as a Definition and refuted below. *)
Definition C05_http_full : Prop :=
  forall sep parts,
    respond sep parts [] = rfc7233 sep (concat parts) None /\
    forall unit its, syntactically_valid unit its = true ->
      respond sep parts (render unit its) = rfc7233 sep (concat parts) (Some (specs_of its)).

Definition it0 (i : item) : pitem := {| p_l := []; p_it := i; p_r := [] |}.

(* witness 1: "bytes=0-1,9-" on a 3-byte object: one satisfiable, one unsatisfiable range -> 416 *)
Theorem C05_http_full_refuted : ~ C05_http_full.
Proof.
  intros H. destruct (H sep26 [B"ab"; B"c"]) as [_ H2].
  specialize (H2 B"bytes" [it0 (IRange B"0" B"1"); it0 (IFrom B"9")] eq_refl).
  vm_compute in H2. discriminate H2.
Qed.
Print Assumptions C05_http_full_refuted.

Theorem C05_refuted_multirange_unsatisfiable :
  let its := [it0 (IRange B"0" B"1"); it0 (IFrom B"9")] in
  syntactically_valid B"bytes" its = true /\
  render B"bytes" its = B"bytes=0-1,9-" /\
  respond sep26 [B"ab"; B"c"] (render B"bytes" its) = R416 /\
  exists n ps, rfc7233 sep26 B"abc" (Some (specs_of its)) = R206M n ps.
Proof. vm_compute. repeat split. eexists. eexists. reflexivity. Qed.
Print Assumptions C05_refuted_multirange_unsatisfiable.

(* witness 2: "bytes=0-9223372036854775807": the +1 on the inclusive end wraps to MinInt64 -> 416;
   "bytes=0-9223372036854775808": ParseInt range error -> 416.  RFC: clamp to the last byte. *)
Theorem C05_refuted_int64_extreme :
  (syntactically_valid B"bytes" [it0 (IRange B"0" B"9223372036854775807")] = true /\
   respond sep26 [B"ab"; B"c"] B"bytes=0-9223372036854775807" = R416 /\
   rfc7233 sep26 B"abc" (Some [FromTo 0 9223372036854775807]) = R206 3 B"bytes 0-2/3" B"abc") /\
  (respond sep26 [B"ab"; B"c"] B"bytes=0-9223372036854775808" = R416 /\
   rfc7233 sep26 B"abc" (Some [FromTo 0 9223372036854775808]) = R206 3 B"bytes 0-2/3" B"abc").
Proof. vm_compute. repeat split. Qed.
Print Assumptions C05_refuted_int64_extreme.

(* witness 3: the range unit is compared case-sensitively: "Bytes=0-0" -> 416 *)
Theorem C05_refuted_unit_case :
  syntactically_valid B"Bytes" [it0 (IRange B"0" B"0")] = true /\
  respond sep26 [B"ab"; B"c"] (render B"Bytes" [it0 (IRange B"0" B"0")]) = R416 /\
  rfc7233 sep26 B"abc" (Some [FromTo 0 0]) = R206 1 B"bytes 0-0/3" B"a".
Proof. vm_compute. repeat split. Qed.
Print Assumptions C05_refuted_unit_case.

(* (d) what does hold, for ALL part lists and ALL such headers: a non-empty object, unit "bytes", ONE
   range (first-last, first-, or -suffix; any OWS padding; leading zeros allowed) whose numbers are below
   2^63-1: status (206 / 416 iff unsatisfiable), Content-Range, Content-Length and body are exactly the
   RFC 7233 answer (last-byte-pos clamped, suffix counted from the end). *)
Theorem C05_http_partial : forall sep parts p,
  pitem_wf p = true -> item_comfort (p_it p) = true -> 0 < total parts ->
  respond sep parts (render B"bytes" [p]) = rfc7233 sep (concat parts) (Some (specs_of [p])).
Proof. exact http_partial_stmt. Qed.
Print Assumptions C05_http_partial.

(* ... and a GET without Range returns 200 with the whole content, for every object (the zero-length
   object included since fix 5621e3b) *)
Theorem C05_no_range_full_body : forall sep parts,
  respond sep parts [] = R200 (total parts) (concat parts).
Proof. intros sep parts. rewrite (no_range_stmt sep parts). unfold rfc7233. rewrite <- total_lenN. reflexivity. Qed.
Print Assumptions C05_no_range_full_body.

(* non-vacuity: a padded, clamped range crossing a part boundary; a suffix; an unsatisfiable one *)
Example C05_ex_clamped :
  respond sep26 [B"ab"; B"cde"; B"f"] B"bytes= 01-99" = R206 5 B"bytes 1-5/6" B"bcdef"
  /\ pitem_wf {| p_l := B" "; p_it := IRange B"01" B"99"; p_r := [] |} = true.
Proof. vm_compute. split; reflexivity. Qed.
Example C05_ex_suffix : respond sep26 [B"ab"; B"cde"; B"f"] B"bytes=-2" = R206 2 B"bytes 4-5/6" B"ef".
Proof. vm_compute. reflexivity. Qed.
Example C05_ex_unsat : respond sep26 [B"ab"; B"cde"; B"f"] B"bytes=6-" = R416.
Proof. vm_compute. reflexivity. Qed.
Example C05_ex_multi :
  exists n, respond sep26 [B"ab"; B"cde"; B"f"] B"bytes=1-2,-1" = R206M n [(B"bytes 1-2/6", B"bc"); (B"bytes 5-5/6", B"f")].
Proof. vm_compute. eexists. reflexivity. Qed.
Example C05_ex_empty_object : respond sep26 [] [] = R200 0 [] /\ respond sep26 [] B"bytes=0-" = R416 /\ respond sep26 [] B"bytes=-1" = R416.
Proof. vm_compute. repeat split. Qed.
