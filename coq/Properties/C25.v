(* Properties/C25.v — lifecycle rules never act early or on the wrong data.
   Statements about the model of the reconciler (Model/Lifecycle.v); [s3_round_up]/[s3_days_due] is the
   S3 due rule written independently of the code's [next_midnight]. *)
From Verif Require Import Bytes Codec Listing ListingProofs Lifecycle LifecycleProofs LifecycleSweep LifecycleSweepProofs.
Open Scope Z_scope.

(* the S3 rounding used as yardstick really is "rounded UP to midnight UTC": the least multiple of a
   day that is not before t *)
Theorem C25_s3_round_up_is_ceiling : forall t,
  t <= s3_round_up t /\ (s3_round_up t) mod day = 0 /\
  forall m, m mod day = 0 -> t <= m -> s3_round_up t <= m.
Proof. intros t. split; [apply s3_round_up_ge|]. split; [apply s3_round_up_multiple | apply s3_round_up_least]. Qed.
Print Assumptions C25_s3_round_up_is_ceiling.

(* the code's due time (first midnight STRICTLY after creation+days) is never before the S3 due time and
   at most one day after it *)
Theorem C25_code_due_not_before_s3 : forall created days,
  s3_days_due created days <= next_midnight (created + days * day) /\
  next_midnight (created + days * day) <= s3_days_due created days + day.
Proof.
  intros. unfold s3_days_due. split; [apply next_midnight_ge_s3|].
  pose proof (next_midnight_strict (created + days * day)). pose proof (s3_round_up_ge (created + days * day)). lia.
Qed.
Print Assumptions C25_code_due_not_before_s3.

(* what "due under S3 semantics" means for a (days | date) action on something created at [created] *)
Definition C25_s3_due (now created : Z) (days date : option Z) : Prop :=
  match date with
  | Some d => d <= now
  | None => match days with Some n => s3_days_due created n <= now | None => False end
  end.

(* rule filter matching equals the declarative definition: key starts with the rule's prefix and, when a
   Filter is present, size is strictly inside the bounds and every filter tag is carried by the object *)
Theorem C25_rule_matches_declarative : forall r key size tags,
  rule_matches r key size tags = true <->
  is_prefix (rule_prefix r) key = true /\
  forall f, r_filter r = Some f ->
    (forall g, eff_gt f = Some g -> g < size) /\ (forall l, eff_lt f = Some l -> size < l) /\
    (forall t, In t (eff_tags f) -> tag_lookup (fst t) tags = Some (snd t)).
Proof. exact rule_matches_spec. Qed.
Print Assumptions C25_rule_matches_declarative.

(* due_never_early, current versions: every DeleteObject the expiration pass issues concerns a listed
   object for which an ENABLED rule with an Expiration MATCHES and is DUE under S3 semantics; the call is
   guarded by the listed ETag and succeeds iff the stored ETag still equals it *)
Theorem C25_expire_due_never_early : forall rules now objs k e ok,
  In (ADelete k e ok) (fst (expire_pass rules now objs)) ->
  exists o, In o objs /\ o_key o = k /\ o_etag o = e /\
    (exists r ex, In r rules /\ r_enabled r = true /\ r_exp r = Some ex /\
       rule_matches r (o_key o) (o_size o) (o_tags o) = true /\
       C25_s3_due now (o_lm o) (e_days ex) (e_date ex)) /\
    ok = bytes_eqb (o_etag (apply_swap o)) (o_etag o).
Proof. exact expire_pass_sound. Qed.
Print Assumptions C25_expire_due_never_early.

(* due_never_early, transitions: target differs from the current class, rule enabled, matches, due *)
Theorem C25_transition_due_never_early : forall rules now objs k c e ok,
  In (ATransition k c e ok) (transition_pass rules now objs) ->
  exists o, In o objs /\ o_key o = k /\ o_etag o = e /\
    exists r t, In r rules /\ r_enabled r = true /\ In t (r_trans r) /\ t_class t = c /\
      rule_matches r (o_key o) (o_size o) (o_tags o) = true /\
      C25_s3_due now (o_lm o) (t_days t) (t_date t) /\ c <> eff_class (o_class o).
Proof. exact transition_pass_sound. Qed.
Print Assumptions C25_transition_due_never_early.

(* expiration_preferred: an object deleted by the expiration pass is never transitioned in the same sweep *)
Theorem C25_expiration_preferred : forall rules now objs,
  NoDup (map o_key objs) -> forall k e c e' ok,
  In (ADelete k e true) (fst (expire_pass rules now objs)) ->
  ~ In (ATransition k c e' ok) (transition_pass rules now (snd (expire_pass rules now objs))).
Proof. exact expiration_preferred. Qed.
Print Assumptions C25_expiration_preferred.

(* noncurrent versions — never early AND keeps_newer_noncurrent: a version expired by the noncurrent pass
   over the versions [vs] of a key (in recency order) is neither current nor a delete marker; an enabled
   matching rule is due counted from [since] = LastModified of the version just before it (its
   successor); and if that rule retains N newer noncurrent versions, MORE than N noncurrent versions
   precede it in recency order — the N newest noncurrent versions are never expired by that rule *)
Theorem C25_noncurrent_never_early_and_keeps_newer : forall rules now vs k i,
  In (ADeleteVersion k i) (nce_loop rules now None 0 vs) ->
  exists before v after since,
    vs = before ++ v :: after /\ v_key v = k /\ v_id v = i /\ v_latest v = false /\ v_dm v = false /\
    last_since None before = Some since /\
    exists r n d, In r rules /\ r_enabled r = true /\ r_nce r = Some n /\ n_days n = Some d /\
      s3_days_due since d <= now /\ rule_matches r (v_key v) (v_size v) (v_tags v) = true /\
      (forall N, n_newer n = Some N -> N < 0 + Z.of_nat (length (filter noncurrent before))).
Proof. intros rules now vs k i. exact (nce_loop_sound rules now vs None 0 k i). Qed.
Print Assumptions C25_noncurrent_never_early_and_keeps_newer.

(* the recency order used: same versions, LastModified non-increasing *)
Theorem C25_recency_order : forall l,
  (forall x, In x (sort_desc l) <-> In x l) /\ desc (sort_desc l).
Proof. intros l. split; [intros x; apply sort_desc_In | apply sort_desc_desc]. Qed.
Print Assumptions C25_recency_order.

(* delete-marker cleanup only removes the current delete marker of a key that has nothing but delete
   markers, under an enabled matching rule with ExpiredObjectDeleteMarker = true *)
Theorem C25_delete_marker_cleanup_sound : forall rules vs k i,
  In (ADeleteVersion k i) (dm_pass_key rules vs) ->
  (forall v, In v vs -> v_dm v = true) /\
  exists m r ex, In m vs /\ v_key m = k /\ v_id m = i /\ v_latest m = true /\ v_dm m = true /\
    In r rules /\ r_enabled r = true /\ r_exp r = Some ex /\ e_dm ex = Some true /\
    rule_matches r (v_key m) (v_size m) [] = true.
Proof. exact dm_pass_key_sound. Qed.
Print Assumptions C25_delete_marker_cleanup_sound.

(* incomplete uploads are aborted only under an enabled rule whose prefix matches, when due *)
Theorem C25_abort_due_never_early : forall rules now us k i,
  In (AAbort k i) (abort_pass rules now us) ->
  exists u r d, In u us /\ u_key u = k /\ u_id u = i /\ In r rules /\ r_enabled r = true /\
    r_abort r = Some d /\ is_prefix (rule_prefix r) (u_key u) = true /\ s3_days_due (u_init u) d <= now.
Proof. exact abort_pass_sound. Qed.
Print Assumptions C25_abort_due_never_early.

(* disabled rules never act *)
Theorem C25_disabled_rules_never_act : forall rules now objs vs us,
  (forall r, In r rules -> r_enabled r = false) -> reconcile rules now objs vs us = [].
Proof. exact disabled_no_action. Qed.
Print Assumptions C25_disabled_rules_never_act.

(* never acts on an object that was replaced after it was listed — full strength: whatever object the
   successful delete removed (the stored one at the time of the call) was due *)
Definition C25_not_on_replaced_full : Prop := forall rules now objs k e,
  In (ADelete k e true) (fst (expire_pass rules now objs)) ->
  exists o, In o objs /\ o_key o = k /\
    exists r ex, In r rules /\ r_enabled r = true /\ r_exp r = Some ex /\
      rule_matches r (o_key o) (o_size o) (o_tags o) = true /\
      C25_s3_due now (o_lm (apply_swap o)) (e_days ex) (e_date ex).

(* witness (finding C25-etag-guard-identical-reupload): rule "expire after 1 day"; object listed 5 days
   old with ETag e; before the guarded delete arrives the same bytes are uploaded again (same ETag,
   LastModified 10 s ago): the guard passes and the 10-second-old object is deleted *)
Definition C25_w_rule : rule :=
  {| r_enabled := true; r_prefix := Some []; r_filter := None;
     r_exp := Some {| e_days := Some 1; e_date := None; e_dm := None |};
     r_trans := []; r_nce := None; r_abort := None |}.
Definition C25_w_now : Z := 1700000000.
Definition C25_w_obj : obj :=
  {| o_key := B"k"; o_size := 1; o_tags := []; o_lm := C25_w_now - 5 * day; o_etag := B"e"; o_class := [];
     o_swap := Some (B"e", C25_w_now - 10) |}.

Theorem C25_not_on_replaced_refuted : ~ C25_not_on_replaced_full.
Proof.
  intros H.
  destruct (H [C25_w_rule] C25_w_now [C25_w_obj] B"k" B"e") as (o & Hin & _ & r & ex & Hr & _ & Hex & _ & Hdue).
  - vm_compute. left; reflexivity.
  - destruct Hin as [<-|[]]. destruct Hr as [<-|[]]. cbn in Hex. inversion Hex; subst ex.
    vm_compute in Hdue. apply Hdue; reflexivity.
Qed.
Print Assumptions C25_not_on_replaced_refuted.

(* partial: when every concurrent replacement changes the ETag, a successful delete removed exactly the
   listed object (unchanged), and that object was due *)
Theorem C25_not_on_replaced_partial : forall rules now objs k e,
  (forall o e2 l2, In o objs -> o_swap o = Some (e2, l2) -> e2 <> o_etag o) ->
  In (ADelete k e true) (fst (expire_pass rules now objs)) ->
  exists o, In o objs /\ o_key o = k /\ apply_swap o = o /\
    exists r ex, In r rules /\ r_enabled r = true /\ r_exp r = Some ex /\
      rule_matches r (o_key (apply_swap o)) (o_size (apply_swap o)) (o_tags (apply_swap o)) = true /\
      C25_s3_due now (o_lm (apply_swap o)) (e_days ex) (e_date ex).
Proof. exact not_on_replaced_partial. Qed.
Print Assumptions C25_not_on_replaced_partial.

(* non-vacuity: a sweep that deletes, keeps the newest noncurrent version, transitions and aborts *)
Example C25_ex_sweep :
  let r := {| r_enabled := true; r_prefix := None;
              r_filter := Some {| f_prefix := Some B"a"; f_tag := None; f_gt := None; f_lt := None; f_and := None |};
              r_exp := Some {| e_days := Some 2; e_date := None; e_dm := None |};
              r_trans := [{| t_days := Some 0; t_date := None; t_class := B"GLACIER" |}];
              r_nce := Some {| n_days := Some 1; n_newer := Some 1 |}; r_abort := Some 1 |} in
  let now := 1700000000 in
  let o k age := {| o_key := k; o_size := 1; o_tags := []; o_lm := now - age * day; o_etag := B"e"; o_class := []; o_swap := None |} in
  let v i la age := {| v_key := B"a"; v_id := i; v_latest := la; v_dm := false; v_lm := now - age * day; v_size := 1; v_tags := [] |} in
  reconcile [r] now [o B"a1" 5; o B"a2" 1; o B"b" 9] [v B"3" true 1; v B"2" false 4; v B"1" false 6; v B"0" false 8]
            [{| u_key := B"a"; u_id := B"u"; u_init := now - 3 * day |}]
  = [ADelete B"a1" B"e" true; ADeleteVersion B"a" B"0"; ATransition B"a2" B"GLACIER" B"e" true; AAbort B"a" B"u"].
Proof. vm_compute. reflexivity. Qed.

(* ============================================================================================ *)
(* Part 2 (Model/LifecycleSweep.v): the sweeps as the code runs them — paged listings, per-key decisions
   on the collected listing, guarded actions with a client acting between listing and action, noncurrent
   transitions.  The decision functions are those of Part 1, so Part 1's theorems apply to every decision. *)

(* (1) paging.  Whatever the page size of the storage, the three version sweeps see the whole listing *)
Theorem C25_versions_collected_whole : forall pg vs,
  NoDup (map (fun v => (v_key (sv_ver v), v_id (sv_ver v))) vs) ->
  collect_versions (eff_cap pg) vs = vs.
Proof. intros pg vs H. apply collect_versions_all; [apply eff_cap_pos | exact H]. Qed.
Print Assumptions C25_versions_collected_whole.

(* ... hence ExpiredObjectDeleteMarker, NoncurrentVersionExpiration (NewerNoncurrentVersions) and the
   noncurrent transitions decide every key on its WHOLE stack: the calls they make and the state they
   leave are the same for any two page sizes *)
Theorem C25_version_decisions_page_independent : forall rules now pg1 pg2 vs,
  NoDup (map (fun v => (v_key (sv_ver v), v_id (sv_ver v))) vs) ->
  let run cap :=
    let rs := map sr_rule rules in
    let '(a2, v1) := exec_vdels vs (dm_decisions rs (collect_versions cap vs)) in
    let '(a3, v2) := exec_vdels v1 (nce_decisions rs now (collect_versions cap v1)) in
    let '(a4, v3) := exec_vtranss v2 (nct_decisions rules now (collect_versions cap v2)) in
    (a2 ++ a3 ++ a4, v3) in
  run (eff_cap pg1) = run (eff_cap pg2).
Proof. intros rules now pg1 pg2 vs H. exact (version_sweeps_page_independent rules now pg1 pg2 vs H). Qed.
Print Assumptions C25_version_decisions_page_independent.

(* the object sweeps (expiration, transition) page by ListObjects/StartAfter: calls and resulting state do
   not depend on the page size either *)
Theorem C25_object_sweeps_page_independent : forall rules now pg1 pg2 st,
  sorted_by skey st ->
  obj_sweep (expire_one rules now) (S (length st)) (eff_cap pg1) None st =
  obj_sweep (expire_one rules now) (S (length st)) (eff_cap pg2) None st /\
  obj_sweep (transition_one rules now) (S (length st)) (eff_cap pg1) None st =
  obj_sweep (transition_one rules now) (S (length st)) (eff_cap pg2) None st.
Proof.
  intros. split; [apply expire_sweep_page_independent | apply transition_sweep_page_independent]; assumption.
Qed.
Print Assumptions C25_object_sweeps_page_independent.

(* (2) guarded actions.  Every DeleteObject of the paged expiration sweep: decided on a LISTED object that an
   enabled matching rule makes due; guarded by the listed ETag; it succeeds only if what the key holds at
   that moment (after whatever another client did) carries that ETag — a key deleted by the client or
   overwritten with other bytes is never touched *)
Theorem C25_sweep_expire_guarded : forall rules now fuel cap start st k e ok,
  In (EDelete k e ok) (fst (obj_sweep (expire_one rules now) fuel cap start st)) ->
  exists o st', k = skey o /\ e = o_etag (so_obj o) /\
    (exists r ex, In r rules /\ r_enabled r = true /\ r_exp r = Some ex /\
       rule_matches r (o_key (so_obj o)) (o_size (so_obj o)) (o_tags (so_obj o)) = true /\
       C25_s3_due now (o_lm (so_obj o)) (e_days ex) (e_date ex)) /\
    (ok = true -> exists held cur, find_obj (skey o) st' = Some held /\ client_apply held = Some cur /\
                                   o_etag (so_obj cur) = o_etag (so_obj o)).
Proof. exact sweep_expire_sound. Qed.
Print Assumptions C25_sweep_expire_guarded.

Theorem C25_sweep_transition_guarded : forall rules now fuel cap start st k c e ok,
  In (ETransition k c e ok) (fst (obj_sweep (transition_one rules now) fuel cap start st)) ->
  exists o st', k = skey o /\ e = o_etag (so_obj o) /\
    (exists r t, In r rules /\ r_enabled r = true /\ In t (r_trans r) /\ t_class t = c /\
       rule_matches r (o_key (so_obj o)) (o_size (so_obj o)) (o_tags (so_obj o)) = true /\
       C25_s3_due now (o_lm (so_obj o)) (t_days t) (t_date t) /\ c <> eff_class (o_class (so_obj o))) /\
    (ok = true -> exists held cur, find_obj (skey o) st' = Some held /\ client_apply held = Some cur /\
                                   o_etag (so_obj cur) = o_etag (so_obj o)).
Proof. exact sweep_transition_sound. Qed.
Print Assumptions C25_sweep_transition_guarded.

(* when the client's PUT changes the ETag, a successful guarded call met the untouched listed generation *)
Theorem C25_guard_meets_listed_generation : forall held cur g,
  (forall e lm, so_client held = Some (CPut e lm) -> e <> g) ->
  o_etag (so_obj held) = g -> client_apply held = Some cur -> o_etag (so_obj cur) = g ->
  cur = held /\ so_client held = None.
Proof. exact client_apply_untouched. Qed.
Print Assumptions C25_guard_meets_listed_generation.

(* version-id addressed deletes (delete-marker cleanup, noncurrent expiration): "never a generation that was
   not listed" at full strength *)
Definition C25_version_delete_full : Prop := forall st acts k i f,
  In (EDeleteVersion k i f) (fst (exec_vdels st acts)) -> f = false.

(* witness (finding C25-version-id-delete-unguarded): the noncurrent NULL version is listed as due; a client
   overwrites it in place (the id "null" is reused); DeleteObject(versionId=null) carries no guard *)
Definition C25_w_null : sver :=
  {| sv_ver := {| v_key := B"k"; v_id := B"null"; v_latest := false; v_dm := false; v_lm := 1699900000;
                  v_size := 1; v_tags := [] |};
     sv_etag := B"e0"; sv_class := []; sv_swap := Some (B"e9", 1700499990) |}.
Theorem C25_version_delete_refuted : ~ C25_version_delete_full.
Proof.
  intros H. specialize (H [C25_w_null] [ADeleteVersion B"k" B"null"] B"k" B"null" true).
  assert (true = false) as E by (apply H; vm_compute; left; reflexivity). discriminate.
Qed.
Print Assumptions C25_version_delete_refuted.

(* partial: when no id of the state is being reused, every delete removes the listed generation *)
Theorem C25_version_delete_partial : forall st acts k i f,
  (forall v, In v st -> sv_swap v = None) ->
  In (EDeleteVersion k i f) (fst (exec_vdels st acts)) ->
  f = false /\ In (ADeleteVersion k i) acts.
Proof.
  intros st acts k i f Hs H. destruct (exec_vdels_from acts st k i f H) as [Ha (v & Hv & _ & Hf)].
  split; [|exact Ha]. rewrite Hf, (Hs v Hv). reflexivity.
Qed.
Print Assumptions C25_version_delete_partial.

(* noncurrent transitions: decided like noncurrent expiration (successor's Last-Modified, more than N newer
   noncurrent versions ahead when the transition retains N, target differs from the current class, enabled
   matching rule, due under S3 rounding) ... *)
Theorem C25_noncurrent_transition_never_early_and_keeps_newer : forall rules now vs v c,
  In (v, c) (nct_loop rules now None 0 vs) ->
  exists before after since,
    vs = before ++ v :: after /\ v_latest (sv_ver v) = false /\ v_dm (sv_ver v) = false /\
    last_since_s None before = Some since /\
    exists cnt,
      (exists r t d, In r rules /\ r_enabled (sr_rule r) = true /\ In t (sr_nct r) /\ nt_class t = c /\
         nt_days t = Some d /\ s3_days_due since d <= now /\
         rule_matches (sr_rule r) (v_key (sv_ver v)) (v_size (sv_ver v)) (v_tags (sv_ver v)) = true /\
         (forall N, nt_newer t = Some N -> N < cnt) /\ c <> eff_class (sv_class v)) /\
      cnt <= 0 + Z.of_nat (length (filter noncurrent_s before)).
Proof. intros rules now vs v c. exact (nct_loop_sound rules now vs None 0 v c). Qed.
Print Assumptions C25_noncurrent_transition_never_early_and_keeps_newer.

(* ... and executed under VersionID + IfMatchETag = listed ETag: it succeeds iff the generation carrying the
   id at that moment has the listed ETag *)
Theorem C25_noncurrent_transition_guarded : forall ds st k i c e ok,
  In (ETransitionVersion k i c e ok) (fst (exec_vtranss st ds)) ->
  exists listed st' held, In (listed, c) ds /\ k = v_key (sv_ver listed) /\ i = v_id (sv_ver listed) /\
    e = sv_etag listed /\ find_ver k i st' = Some held /\
    ok = bytes_eqb (sv_etag (swap_ver held)) (sv_etag listed).
Proof. exact exec_vtranss_In. Qed.
Print Assumptions C25_noncurrent_transition_guarded.

Theorem C25_version_guard_meets_listed_generation : forall held g,
  (forall e lm, sv_swap held = Some (e, lm) -> e <> g) ->
  sv_etag (swap_ver held) = g -> swap_ver held = held /\ sv_swap held = None.
Proof. exact swap_ver_untouched. Qed.
Print Assumptions C25_version_guard_meets_listed_generation.

(* examples: a current delete marker over a data version is kept whatever the page size (1 = the marker and the
   data version arrive in different pages), and the whole sweep of the null-version witness *)
Definition C25_ex_rule_dm : srule :=
  {| sr_rule := {| r_enabled := true; r_prefix := Some []; r_filter := None;
                   r_exp := Some {| e_days := None; e_date := None; e_dm := Some true |};
                   r_trans := []; r_nce := Some {| n_days := Some 1; n_newer := None |}; r_abort := None |};
     sr_nct := [] |}.
Definition C25_ex_ver (k i : bytes) (latest dm : bool) (lm : Z) : sver :=
  {| sv_ver := {| v_key := k; v_id := i; v_latest := latest; v_dm := dm; v_lm := lm; v_size := 1; v_tags := [] |};
     sv_etag := B"e"; sv_class := []; sv_swap := None |}.
Example C25_ex_paging :
  let vs := [C25_ex_ver B"a" B"v1" true true 1700400000; C25_ex_ver B"a" B"v0" false false 1700000000;
             C25_ex_ver B"b" B"v1" true true 1700400000] in
  reconcile_s [C25_ex_rule_dm] 1700500000 1 [] vs [] = [EDeleteVersion B"b" B"v1" false] /\
  reconcile_s [C25_ex_rule_dm] 1700500000 0 [] vs [] = reconcile_s [C25_ex_rule_dm] 1700500000 1 [] vs [].
Proof. vm_compute. split; reflexivity. Qed.
Example C25_ex_null_version_sweep :
  reconcile_s [C25_ex_rule_dm] 1700500000 0 []
    [C25_ex_ver B"k" B"v1" true false 1700000000; C25_w_null] []
  = [EDeleteVersion B"k" B"null" true].
Proof. vm_compute. reflexivity. Qed.
