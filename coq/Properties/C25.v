(* Properties/C25.v — lifecycle rules never act early or on the wrong data.
   Statements about the model of the reconciler (Model/Lifecycle.v); [s3_round_up]/[s3_days_due] is the
   S3 due rule written independently of the code's [next_midnight]. *)
From Verif Require Import Bytes Codec Listing Lifecycle LifecycleProofs.
Open Scope Z_scope.

(* the S3 rounding used as yardstick really is "rounded UP to midnight UTC": the least multiple of a
   day that is not before t *)
Theorem C25_s3_round_up_is_ceiling : forall t,
  t <= s3_round_up t /\ (s3_round_up t) mod day = 0 /\
  forall m, m mod day = 0 -> t <= m -> s3_round_up t <= m.
Proof. intros t. split; [apply s3_round_up_ge|]. split; [apply s3_round_up_multiple | apply s3_round_up_least]. Qed.
Print Assumptions C25_s3_round_up_is_ceiling.

(* the code's due time (first midnight STRICTLY after creation+days) is never before the S3 due time and
   at most one day after it *)
Theorem C25_code_due_not_before_s3 : forall created days,
  s3_days_due created days <= next_midnight (created + days * day) /\
  next_midnight (created + days * day) <= s3_days_due created days + day.
Proof.
  intros. unfold s3_days_due. split; [apply next_midnight_ge_s3|].
  pose proof (next_midnight_strict (created + days * day)). pose proof (s3_round_up_ge (created + days * day)). lia.
Qed.
Print Assumptions C25_code_due_not_before_s3.

(* what "due under S3 semantics" means for a (days | date) action on something created at [created] *)
Definition C25_s3_due (now created : Z) (days date : option Z) : Prop :=
  match date with
  | Some d => d <= now
  | None => match days with Some n => s3_days_due created n <= now | None => False end
  end.

(* rule filter matching equals the declarative definition: key starts with the rule's prefix and, when a
   Filter is present, size is strictly inside the bounds and every filter tag is carried by the object *)
Theorem C25_rule_matches_declarative : forall r key size tags,
  rule_matches r key size tags = true <->
  is_prefix (rule_prefix r) key = true /\
  forall f, r_filter r = Some f ->
    (forall g, eff_gt f = Some g -> g < size) /\ (forall l, eff_lt f = Some l -> size < l) /\
    (forall t, In t (eff_tags f) -> tag_lookup (fst t) tags = Some (snd t)).
Proof. exact rule_matches_spec. Qed.
Print Assumptions C25_rule_matches_declarative.

(* due_never_early, current versions: every DeleteObject the expiration pass issues concerns a listed
   object for which an ENABLED rule with an Expiration MATCHES and is DUE under S3 semantics; the call is
   guarded by the listed ETag and succeeds iff the stored ETag still equals it *)
Theorem C25_expire_due_never_early : forall rules now objs k e ok,
  In (ADelete k e ok) (fst (expire_pass rules now objs)) ->
  exists o, In o objs /\ o_key o = k /\ o_etag o = e /\
    (exists r ex, In r rules /\ r_enabled r = true /\ r_exp r = Some ex /\
       rule_matches r (o_key o) (o_size o) (o_tags o) = true /\
       C25_s3_due now (o_lm o) (e_days ex) (e_date ex)) /\
    ok = bytes_eqb (o_etag (apply_swap o)) (o_etag o).
Proof. exact expire_pass_sound. Qed.
Print Assumptions C25_expire_due_never_early.

(* due_never_early, transitions: target differs from the current class, rule enabled, matches, due *)
Theorem C25_transition_due_never_early : forall rules now objs k c e ok,
  In (ATransition k c e ok) (transition_pass rules now objs) ->
  exists o, In o objs /\ o_key o = k /\ o_etag o = e /\
    exists r t, In r rules /\ r_enabled r = true /\ In t (r_trans r) /\ t_class t = c /\
      rule_matches r (o_key o) (o_size o) (o_tags o) = true /\
      C25_s3_due now (o_lm o) (t_days t) (t_date t) /\ c <> eff_class (o_class o).
Proof. exact transition_pass_sound. Qed.
Print Assumptions C25_transition_due_never_early.

(* expiration_preferred: an object deleted by the expiration pass is never transitioned in the same sweep *)
Theorem C25_expiration_preferred : forall rules now objs,
  NoDup (map o_key objs) -> forall k e c e' ok,
  In (ADelete k e true) (fst (expire_pass rules now objs)) ->
  ~ In (ATransition k c e' ok) (transition_pass rules now (snd (expire_pass rules now objs))).
Proof. exact expiration_preferred. Qed.
Print Assumptions C25_expiration_preferred.

(* noncurrent versions — never early AND keeps_newer_noncurrent: a version expired by the noncurrent pass
   over the versions [vs] of a key (in recency order) is neither current nor a delete marker; an enabled
   matching rule is due counted from [since] = LastModified of the version just before it (its
   successor); and if that rule retains N newer noncurrent versions, MORE than N noncurrent versions
   precede it in recency order — the N newest noncurrent versions are never expired by that rule *)
Theorem C25_noncurrent_never_early_and_keeps_newer : forall rules now vs k i,
  In (ADeleteVersion k i) (nce_loop rules now None 0 vs) ->
  exists before v after since,
    vs = before ++ v :: after /\ v_key v = k /\ v_id v = i /\ v_latest v = false /\ v_dm v = false /\
    last_since None before = Some since /\
    exists r n d, In r rules /\ r_enabled r = true /\ r_nce r = Some n /\ n_days n = Some d /\
      s3_days_due since d <= now /\ rule_matches r (v_key v) (v_size v) (v_tags v) = true /\
      (forall N, n_newer n = Some N -> N < 0 + Z.of_nat (length (filter noncurrent before))).
Proof. intros rules now vs k i. exact (nce_loop_sound rules now vs None 0 k i). Qed.
Print Assumptions C25_noncurrent_never_early_and_keeps_newer.

(* the recency order used: same versions, LastModified non-increasing *)
Theorem C25_recency_order : forall l,
  (forall x, In x (sort_desc l) <-> In x l) /\ desc (sort_desc l).
Proof. intros l. split; [intros x; apply sort_desc_In | apply sort_desc_desc]. Qed.
Print Assumptions C25_recency_order.

(* delete-marker cleanup only removes the current delete marker of a key that has nothing but delete
   markers, under an enabled matching rule with ExpiredObjectDeleteMarker = true *)
Theorem C25_delete_marker_cleanup_sound : forall rules vs k i,
  In (ADeleteVersion k i) (dm_pass_key rules vs) ->
  (forall v, In v vs -> v_dm v = true) /\
  exists m r ex, In m vs /\ v_key m = k /\ v_id m = i /\ v_latest m = true /\ v_dm m = true /\
    In r rules /\ r_enabled r = true /\ r_exp r = Some ex /\ e_dm ex = Some true /\
    rule_matches r (v_key m) (v_size m) [] = true.
Proof. exact dm_pass_key_sound. Qed.
Print Assumptions C25_delete_marker_cleanup_sound.

(* incomplete uploads are aborted only under an enabled rule whose prefix matches, when due *)
Theorem C25_abort_due_never_early : forall rules now us k i,
  In (AAbort k i) (abort_pass rules now us) ->
  exists u r d, In u us /\ u_key u = k /\ u_id u = i /\ In r rules /\ r_enabled r = true /\
    r_abort r = Some d /\ is_prefix (rule_prefix r) (u_key u) = true /\ s3_days_due (u_init u) d <= now.
Proof. exact abort_pass_sound. Qed.
Print Assumptions C25_abort_due_never_early.

(* disabled rules never act *)
Theorem C25_disabled_rules_never_act : forall rules now objs vs us,
  (forall r, In r rules -> r_enabled r = false) -> reconcile rules now objs vs us = [].
Proof. exact disabled_no_action. Qed.
Print Assumptions C25_disabled_rules_never_act.

(* never acts on an object that was replaced after it was listed — full strength: whatever object the
   successful delete removed (the stored one at the time of the call) was due *)
Definition C25_not_on_replaced_full : Prop := forall rules now objs k e,
  In (ADelete k e true) (fst (expire_pass rules now objs)) ->
  exists o, In o objs /\ o_key o = k /\
    exists r ex, In r rules /\ r_enabled r = true /\ r_exp r = Some ex /\
      rule_matches r (o_key o) (o_size o) (o_tags o) = true /\
      C25_s3_due now (o_lm (apply_swap o)) (e_days ex) (e_date ex).

(* witness (finding C25-etag-guard-identical-reupload): rule "expire after 1 day"; object listed 5 days
   old with ETag e; before the guarded delete arrives the same bytes are uploaded again (same ETag,
   LastModified 10 s ago): the guard passes and the 10-second-old object is deleted *)
Definition C25_w_rule : rule :=
  {| r_enabled := true; r_prefix := Some []; r_filter := None;
     r_exp := Some {| e_days := Some 1; e_date := None; e_dm := None |};
     r_trans := []; r_nce := None; r_abort := None |}.
Definition C25_w_now : Z := 1700000000.
Definition C25_w_obj : obj :=
  {| o_key := B"k"; o_size := 1; o_tags := []; o_lm := C25_w_now - 5 * day; o_etag := B"e"; o_class := [];
     o_swap := Some (B"e", C25_w_now - 10) |}.

Theorem C25_not_on_replaced_refuted : ~ C25_not_on_replaced_full.
Proof.
  intros H.
  destruct (H [C25_w_rule] C25_w_now [C25_w_obj] B"k" B"e") as (o & Hin & _ & r & ex & Hr & _ & Hex & _ & Hdue).
  - vm_compute. left; reflexivity.
  - destruct Hin as [<-|[]]. destruct Hr as [<-|[]]. cbn in Hex. inversion Hex; subst ex.
    vm_compute in Hdue. apply Hdue; reflexivity.
Qed.
Print Assumptions C25_not_on_replaced_refuted.

(* partial: when every concurrent replacement changes the ETag, a successful delete removed exactly the
   listed object (unchanged), and that object was due *)
Theorem C25_not_on_replaced_partial : forall rules now objs k e,
  (forall o e2 l2, In o objs -> o_swap o = Some (e2, l2) -> e2 <> o_etag o) ->
  In (ADelete k e true) (fst (expire_pass rules now objs)) ->
  exists o, In o objs /\ o_key o = k /\ apply_swap o = o /\
    exists r ex, In r rules /\ r_enabled r = true /\ r_exp r = Some ex /\
      rule_matches r (o_key (apply_swap o)) (o_size (apply_swap o)) (o_tags (apply_swap o)) = true /\
      C25_s3_due now (o_lm (apply_swap o)) (e_days ex) (e_date ex).
Proof. exact not_on_replaced_partial. Qed.
Print Assumptions C25_not_on_replaced_partial.

(* non-vacuity: a sweep that deletes, keeps the newest noncurrent version, transitions and aborts *)
Example C25_ex_sweep :
  let r := {| r_enabled := true; r_prefix := None;
              r_filter := Some {| f_prefix := Some B"a"; f_tag := None; f_gt := None; f_lt := None; f_and := None |};
              r_exp := Some {| e_days := Some 2; e_date := None; e_dm := None |};
              r_trans := [{| t_days := Some 0; t_date := None; t_class := B"GLACIER" |}];
              r_nce := Some {| n_days := Some 1; n_newer := Some 1 |}; r_abort := Some 1 |} in
  let now := 1700000000 in
  let o k age := {| o_key := k; o_size := 1; o_tags := []; o_lm := now - age * day; o_etag := B"e"; o_class := []; o_swap := None |} in
  let v i la age := {| v_key := B"a"; v_id := i; v_latest := la; v_dm := false; v_lm := now - age * day; v_size := 1; v_tags := [] |} in
  reconcile [r] now [o B"a1" 5; o B"a2" 1; o B"b" 9] [v B"3" true 1; v B"2" false 4; v B"1" false 6; v B"0" false 8]
            [{| u_key := B"a"; u_id := B"u"; u_init := now - 3 * day |}]
  = [ADelete B"a1" B"e" true; ADeleteVersion B"a" B"0"; ATransition B"a2" B"GLACIER" B"e" true; AAbort B"a" B"u"].
Proof. vm_compute. reflexivity. Qed.
