(* Properties/C21.v — the storage outbox gives read-your-writes and converges.
   Model: Model/StorageOutbox.v (outbox.go over an executable inner storage with universes UK/UB).
   Interleavings: a trace is any list of steps  OCall c | ORead r | OJoin | OWork : client operations
   (a waiting one is begun with its last-id snapshot and completed by OJoin once its polling
   condition holds) interleaved with worker steps at arbitrary points.  [seqclient] = one client:
   while an operation waits only the worker moves (the property's histories); the two snapshot
   theorems hold for ALL traces, i.e. also with other clients enqueueing during a wait.
   [FunExt] (extensionality of the functions bytes -> A the storage state consists of) is an explicit
   premise of the three theorems that compare storage states; nothing is assumed as an axiom. *)
From Verif Require Import Bytes Codec StorageOutbox StorageOutboxProofs StorageOutboxOwners StorageOutboxOwnersProofs.

(* every operation that completes — a read, or a write-through (conditional / versioned) write —
   returns exactly what the same operation returns on a plain storage to which all writes
   accepted before it were applied directly, in acceptance order *)
Theorem C21_read_after_write : FunExt -> forall UK UB ops o k,
  seqclient UK UB init_state ops = true ->
  completes (state_after UK UB ops) o = Some k ->
  snd (step UK UB (state_after UK UB ops) o)
  = direct UK UB (apps UK init_inner (accepted UK UB init_state ops)) k.
Proof. exact completed_eq_direct. Qed.
Print Assumptions C21_read_after_write.

(* write-through operations (conditional / versioned PutObject and DeleteObject, DeleteObjects on a
   versioned bucket, PutBucketVersioning, Create/UploadPart/Complete/AbortMultipartUpload, CopyObject,
   AppendObject, Put/DeleteObjectTagging) and reads: when one of them reaches the inner storage,
   no entry of the class it depends on (call_class / rd_class: its key + the bucket's lifecycle
   entries; CopyObject: source and destination; the whole bucket for DeleteObjects and
   PutBucketVersioning) is still pending ... *)
Theorem C21_write_through_waits_for_its_class : FunExt -> forall UK UB ops o k,
  seqclient UK UB init_state ops = true ->
  completes (state_after UK UB ops) o = Some k ->
  Forall (fun e => conflict (cont_class k) (e_pl e) = false) (queue (state_after UK UB ops)).
Proof. exact completes_noconf. Qed.
Print Assumptions C21_write_through_waits_for_its_class.

(* ... and that class is enough: entries outside it change neither the operation's result nor, for a
   write, its effect (it commutes with their replay) — so together with C21_read_after_write a
   write-through operation observes every previously accepted write it depends on, and a later
   replay cannot undo it *)
Theorem C21_class_suffices : FunExt -> forall UK UB k q,
  Forall (fun e => conflict (cont_class k) (e_pl e) = false) q ->
  forall s,
  match k with
  | KCall c => apps UK (app UK s c) (map (fun e => replay_call (e_pl e)) q)
               = app UK (apps UK s (map (fun e => replay_call (e_pl e)) q)) c /\
               snd (apply_call UK (apps UK s (map (fun e => replay_call (e_pl e)) q)) c) = snd (apply_call UK s c)
  | KRead r => read_inner UK UB (apps UK s (map (fun e => replay_call (e_pl e)) q)) r = read_inner UK UB s r
  end.
Proof. exact indep_queue. Qed.
Print Assumptions C21_class_suffices.

(* a write that the queued path refuses after its body was consumed (declared digest does not match:
   ErrBadDigest from inside the outbox transaction, which is rolled back) leaves NO entry and changes
   nothing: it can never be replayed.  (On the write-through path the inner storage refuses it:
   covered by C21_read_after_write, the call's model leaves the storage unchanged.) *)
Theorem C21_refused_write_leaves_no_entry : forall UK UB s c ps,
  rejects c = true -> route (inner s) c = (None, ps) ->
  step UK UB s (OCall c) = (s, ResCall (Some BadDigest)) /\ accepts s (OCall c) = [].
Proof.
  intros UK UB s c ps R Ro. cbn [step accepts]. rewrite Ro, R. split; reflexivity.
Qed.
Print Assumptions C21_refused_write_leaves_no_entry.

(* once the outbox is drained the inner storage is exactly the fold of the accepted writes, in
   acceptance order, applied directly *)
Theorem C21_drained_eq_sequential : FunExt -> forall UK UB ops,
  seqclient UK UB init_state ops = true ->
  queue (state_after UK UB ops) = [] ->
  inner (state_after UK UB ops) = apps UK init_inner (accepted UK UB init_state ops).
Proof. exact drained_eq_sequential. Qed.
Print Assumptions C21_drained_eq_sequential.

(* what the worker replays for a queued call is that call: same bucket, key, content, content type,
   storage class, system + user metadata, tags, version id — on every storage state the replayed
   entries have the effect of the accepted call *)
Theorem C21_options_replayed : FunExt -> forall UK i c ps,
  route i c = (None, ps) ->
  forall s, apps UK s (map replay_call ps) = app UK s c.
Proof. exact replayed_eq_accepted. Qed.
Print Assumptions C21_options_replayed.

Theorem C21_put_options_replayed : forall UK s b k cid ct o,
  o_ifnone o = false -> o_ifmatch o = None ->
  apply_call UK s (replay_call (ser_put b k cid ct o)) = apply_call UK s (CPut b k cid ct o).
Proof. exact put_replayed. Qed.
Print Assumptions C21_put_options_replayed.

(* the snapshot wait, under ALL interleavings: when a wait begins its snapshot dominates every
   pending entry of its class and is below every id handed out later ... *)
Theorem C21_wait_snapshot_covers_pending : forall UK UB ops o k w snap,
  inflight (state_after UK UB ops) = None ->
  inflight (fst (step UK UB (state_after UK UB ops) o)) = Some (k, w, snap) ->
  (forall e, In e (queue (state_after UK UB ops)) -> conflict w (e_pl e) = true -> (e_id e <= snap)%N) /\
  (snap < next_id (state_after UK UB ops))%N.
Proof. exact wait_begin_snapshot. Qed.
Print Assumptions C21_wait_snapshot_covers_pending.

(* ... and when the polling loop lets the operation proceed, every entry of its class that is still
   pending is newer than the snapshot: all writes of the class accepted before the operation
   started have been replayed *)
Theorem C21_wait_done_only_newer_pending : forall UK UB ops k w snap,
  inflight (state_after UK UB ops) = Some (k, w, snap) ->
  wait_done w snap (queue (state_after UK UB ops)) = true ->
  forall e, In e (queue (state_after UK UB ops)) -> conflict w (e_pl e) = true -> (snap < e_id e)%N.
Proof. exact wait_done_snapshot. Qed.
Print Assumptions C21_wait_done_only_newer_pending.

(* convergence.  Full strength: from every reachable state the worker alone can drain the outbox. *)
Definition C21_drainable_full : Prop := forall UK UB ops,
  exists n, queue (fst (run UK UB (state_after UK UB ops) (repeat OWork n))) = [].

(* refuted: an accepted write whose replay fails deterministically (here the second CreateBucket of
   the same bucket: BucketAlreadyExists) stays at the head of the queue for ever; nothing behind it
   is replayed and every operation waiting for its class never returns *)
Definition c21_poison : list op := [OCall (CCreate B"b"); OCall (CCreate B"b"); OWork].
Theorem C21_drainable_full_refuted : ~ C21_drainable_full.
Proof.
  intros H. destruct (H [] [B"b"] c21_poison) as [n Hn].
  assert (S : fst (run [] [B"b"] (state_after [] [B"b"] c21_poison) (repeat OWork n))
              = state_after [] [B"b"] c21_poison).
  { eapply (stuck_forever [] [B"b"] _ {| e_id := 2; e_pl := PCreate B"b" |} [] BucketAlreadyExists); reflexivity. }
  rewrite S in Hn. discriminate Hn.
Qed.
Print Assumptions C21_drainable_full_refuted.

(* partial: if the pending entries replay without error, |queue| worker steps drain the outbox *)
Theorem C21_drainable_partial : forall UK UB s,
  replay_ok UK (inner s) (queue s) = true ->
  queue (fst (run UK UB s (repeat OWork (length (queue s))))) = [].
Proof. exact drains_when_replays_succeed. Qed.
Print Assumptions C21_drainable_partial.

Definition ex_o0 : popts := {| o_tags := []; o_meta := None; o_class := None; o_ifnone := false; o_ifmatch := None |}.
(* ---- several claim owners on one outbox id / database (Model/StorageOutboxOwners.v) ----
   Interleavings: any list of client writes routed to the outbox and of the steps Claim / Replay /
   Finalize / Heartbeat / Crash of any number of owners, and clock ticks (lease expiry).
   Full strength: for EVERY interleaving the drained inner storage is the sequential fold of the
   accepted writes (nobody replays entry n+1 while entry n is pending, nothing is replayed twice). *)
Definition C21_fifo_across_owners_full : Prop := forall lease UK tr,
  m_queue (fst (run_m lease UK minit tr)) = [] ->
  m_inner (fst (run_m lease UK minit tr)) = apps UK init_inner (m_accepted lease UK minit tr).

(* refuted on the faithful model, exactly like C18: owner 0 claims put(k,1) and stalls before its inner
   PutObject; its lease expires; owner 1 takes the entry over, replays and finalizes it and the later
   put(k,2); owner 0's PutObject then completes (the replay is not fenced by the lease): the drained
   inner storage holds the OLDER value *)
Definition ex_p (c : N) : call := CPut B"b" B"k" c None ex_o0.
Definition c21_owner_witness : list mstep :=
  [MCall (CCreate B"b"); MClaim 0; MReplay 0; MFinalize 0; MCall (ex_p 1); MCall (ex_p 2);
   MClaim 0; MTick 2; MClaim 1; MReplay 1; MFinalize 1; MClaim 1; MReplay 1; MFinalize 1; MReplay 0].
Theorem C21_fifo_across_owners_full_refuted : ~ C21_fifo_across_owners_full.
Proof.
  intros H. specialize (H 2%N [B"k"] c21_owner_witness ltac:(vm_compute; reflexivity)).
  apply (f_equal (fun i => read_inner [B"k"] [B"b"] i (RGet B"b" B"k"))) in H. vm_compute in H. discriminate H.
Qed.
Print Assumptions C21_fifo_across_owners_full_refuted.

(* FIFO across owners under the lease assumption [m_orderly] (decidable on the trace): no claim takes
   an entry away from a live owner that still holds it (leases do not expire during a replay), and no
   owner dies between its replay and its finalize (replays are not idempotent).  Claims only ever
   take the HEAD of the queue, so while owner A holds entry n nobody replays entry n+1. *)
Theorem C21_fifo_across_owners : forall lease UK tr,
  m_orderly lease UK minit (m_trace_workers tr) tr = true ->
  m_queue (fst (run_m lease UK minit tr)) = [] ->
  m_inner (fst (run_m lease UK minit tr)) = apps UK init_inner (m_accepted lease UK minit tr).
Proof. exact fifo_across_owners. Qed.
Print Assumptions C21_fifo_across_owners.

Theorem C21_one_owner_orderly : forall lease UK w tr,
  (forall x, In x (m_trace_workers tr) -> x = w) -> Forall no_crash tr ->
  m_orderly lease UK minit (m_trace_workers tr) tr = true.
Proof. intros lease UK w tr H NC. exact (one_owner_orderly lease UK w _ tr H (incl_refl _) NC minit). Qed.
Print Assumptions C21_one_owner_orderly.

(* non-vacuity: two owners alternating and a takeover of a DEAD owner's claim are orderly *)
Definition c21_owner_ok : list mstep :=
  [MCall (CCreate B"b"); MClaim 0; MReplay 0; MFinalize 0; MCall (ex_p 1); MCall (ex_p 2);
   MClaim 0; MClaim 1; MCrash 0; MTick 2; MClaim 1; MReplay 1; MFinalize 1; MClaim 0; MReplay 0; MFinalize 0].
Example C21_ex_owners_ok :
  m_orderly 2 [B"k"] minit (m_trace_workers c21_owner_ok) c21_owner_ok = true /\
  m_queue (fst (run_m 2 [B"k"] minit c21_owner_ok)) = [] /\
  m_orderly 2 [B"k"] minit (m_trace_workers c21_owner_witness) c21_owner_witness = false.
Proof. vm_compute. repeat split; reflexivity. Qed.

(* non-vacuity: a history with a queued put carrying options, a blocked read, worker steps, a join *)
Definition ex_o : popts := {| o_tags := [(B"t", B"1")]; o_meta := Some {| m_sys := [Some B"max-age=1"]; m_user := [(B"u", B"v")] |};
                              o_class := Some B"STANDARD_IA"; o_ifnone := false; o_ifmatch := None |}.
Definition ex_ops : list op :=
  [OCall (CCreate B"b"); OCall (CPut B"b" B"k" 7 (Some B"text/plain") ex_o); ORead (RGet B"b" B"k"); OWork; OWork].
(* an acknowledged, not yet replayed put on k followed by CompleteMultipartUpload If-None-Match:* on k:
   the complete blocks, and after the replay it fails as on a plain storage *)
Definition ex_mp : list op :=
  [OCall (CCreate B"b"); OWork; OCall (CMpCreate B"b" B"k" 1 None ex_o0); OCall (CMpPart B"b" B"k" 1 1 5);
   OCall (CPut B"b" B"k" 7 None ex_o0); OCall (CMpComplete B"b" B"k" 1 true None); OWork; OJoin].
Example C21_ex_complete_inm_after_queued_put :
  seqclient [B"k"] [B"b"] init_state ex_mp = true /\
  snd (run [B"k"] [B"b"] init_state ex_mp) =
    [ResCall None; ResWorker (Some None); ResCall None; ResCall None; ResCall None; ResBlocked;
     ResWorker (Some None); ResCall (Some PreconditionFailed)].
Proof. split; reflexivity. Qed.

(* DeleteObjects mixing an If-Match entry on a settled key with a plain entry for a key whose put is still
   queued: the batch waits for the whole bucket, the delete acknowledged after the put wins; a put
   with a wrong digest is refused and leaves no entry *)
Definition ex_batch : list op :=
  [OCall (CCreate B"b"); OCall (ex_p 1); OWork; OWork;
   OCall (CPut B"b" B"k2" 2 None ex_o0); OCall (CBadDigest (BPut B"b" B"k2"));
   OCall (CDelsC B"b" [(B"k", Some (Some 1%N)); (B"k2", None)]); OWork; OJoin; ORead (RList B"b")].
Example C21_ex_batch_delete_and_refused_put :
  snd (run [B"k"; B"k2"] [B"b"] init_state ex_batch) =
    [ResCall None; ResCall None; ResWorker (Some None); ResWorker (Some None);
     ResCall None; ResCall (Some BadDigest); ResBlocked; ResWorker (Some None); ResCall None; ResKeys []] /\
  length (queue (state_after [B"k"; B"k2"] [B"b"] ex_batch)) = 0.
Proof. split; reflexivity. Qed.

Example C21_ex_blocked_then_served :
  seqclient [B"k"] [B"b"] init_state ex_ops = true /\
  snd (run [B"k"] [B"b"] init_state ex_ops) = [ResCall None; ResCall None; ResBlocked; ResWorker (Some None); ResWorker (Some None)] /\
  completes (state_after [B"k"] [B"b"] ex_ops) OJoin = Some (KRead (RGet B"b" B"k")) /\
  snd (step [B"k"] [B"b"] (state_after [B"k"] [B"b"] ex_ops) OJoin) = ResObj (mk_rec 7 (Some B"text/plain") ex_o).
Proof. repeat split; reflexivity. Qed.
