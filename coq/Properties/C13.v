(* Properties/C13.v — An existing object version never changes under the caller (M-META). *)
From Verif Require Import Bytes Codec Md5 Meta MetaBasics MetaWitness.
From Verif Require Import MetaRows1 MetaRows2 MetaRows3 MetaRows4 MetaRows5 MetaRows6 MetaRows7 MetaRows8 MetaRows9.

(* FULL STATEMENT, Last-Modified half: two reads of one non-null version id report the same Last-Modified.
   FALSE of the faithful model and of the code (corpus/C13/last-modified-bumped.txt, known finding
   C13-last-modified-bumped): writing the key again bumps updated_at of the demoted row. *)
Theorem C13_last_modified_refuted :
  ~ (forall ops i j b k n lm1 lm2,
      nth_error ops i = Some (OHead b k (VROp n)) -> nth_error ops j = Some (OHead b k (VROp n)) ->
      option_map res_lm (nth_error (snd (run ops)) i) = Some (Some lm1) ->
      option_map res_lm (nth_error (snd (run ops)) j) = Some (Some lm2) -> lm1 = lm2).
Proof. exact last_modified_refuted. Qed.
Print Assumptions C13_last_modified_refuted.

(* FULL STATEMENT, content half: two successful reads of one non-null version id return the same bytes.
   FALSE (corpus/C13/append-in-place.txt, known finding C13-append-in-place): AppendObject in a suspended
   bucket rewrites the latest row in place even when it is a non-null version. *)
Theorem C13_append_in_place_refuted :
  ~ (forall ops i j b k n c1 c2,
      nth_error ops i = Some (OGet b k (VROp n)) -> nth_error ops j = Some (OGet b k (VROp n)) ->
      option_map res_body (nth_error (snd (run ops)) i) = Some (Some c1) ->
      option_map res_body (nth_error (snd (run ops)) j) = Some (Some c2) -> c1 = c2).
Proof. exact append_in_place_refuted. Qed.
Print Assumptions C13_append_in_place_refuted.

(* reads never change anything *)
Theorem C13_reads_pure : forall i hist s o,
  match o with OGet _ _ _ | OHead _ _ _ | OLsv _ | OLs _ => True | _ => False end ->
  fst (step i hist s o) = with_ids s i.
Proof. exact reads_pure. Qed.
Print Assumptions C13_reads_pure.

(* ================= row-level theorems (Proofs/MetaRows1..9) ================= *)

(* CONTENT half, partial: from ANY state satisfying the row invariant, an existing non-null version keeps its
   row id, ETag, size, content type and the same part rows across every operation, EXCEPT the explicit,
   decidable region: delete of that very version id; append on the key in a non-Enabled bucket while the
   version is current (the refuted region of C13_append_in_place_refuted); key-only delete in an Unset bucket
   while the version is current. *)
Theorem C13_content_partial : forall i hist s o b k n r,
  (NoDup (map o_id (objs s)) /\ (forall x, In x (objs s) -> (o_id x < next_id s)%N)) /\
  (unique_ok s = true /\ parts_unique_ok s = true) ->
  find_version s b k (VId n) = Some r ->
  match o with
  | ODel b' k' v _ =>
      bytes_eqb b' b && bytes_eqb k' k &&
      match resolve_vref v with
      | Some v' => vid_eqb v' (VId n)
      | None => o_latest r && match option_map b_ver (find_bucket s b) with Some VUnset => true | _ => false end
      end
  | OApp b' k' _ _ =>
      bytes_eqb b' b && bytes_eqb k' k && o_latest r &&
      match option_map b_ver (find_bucket s b) with Some VEnabled | None => false | Some _ => true end
  | _ => false
  end = false ->
  exists r', find_version (fst (step i hist s o)) b k (VId n) = Some r' /\
    o_id r' = o_id r /\ o_etag r' = o_etag r /\ o_size r' = o_size r /\ o_dm r' = o_dm r /\
    o_ctype r' = o_ctype r /\ o_created r' = o_created r /\
    obj_parts (fst (step i hist s o)) (o_id r') = obj_parts s (o_id r).
Proof. exact step_version_persists_out. Qed.
Print Assumptions C13_content_partial.

(* LAST-MODIFIED half, partial: for every history, a HEAD (by version id or by key) that succeeded returns the
   SAME answer — version id, ETag, size, Last-Modified, content type — after any continuation in which no
   operation is addressed to that (bucket,key): other keys and buckets, reads, bucket operations.  (Writes
   to the same key are the refuted region of C13_last_modified_refuted.) *)
Theorem C13_last_modified_partial : forall ops mid b k v,
  Forall (fun o => match o with
    | OPut b' k' _ _ | ODel b' k' _ _ | OCmu b' k' | OUp b' k' _ _ _ | OCpl b' k' _ _ _ | OAbt b' k' _
    | OApp b' k' _ _ => ~ (b' = b /\ k' = k)
    | OCp _ _ _ db dk => ~ (db = b /\ dk = k)
    | _ => True
    end) mid ->
  forall v' e sz lm ct bd,
  op_head (fst (run ops)) b k v = RObj v' e sz lm ct bd ->
  op_head (fst (run (ops ++ mid))) b k v = RObj v' e sz lm ct bd.
Proof. exact run_heads_stable_out. Qed.
Print Assumptions C13_last_modified_partial.

Example C13_ex_last_modified_hyps : exists lm,
  op_head (fst (run [OMb wb; OVer wb VEnabled; OPut wb wk cA CRNone])) wb wk (Some (VId 2)) =
    RObj (VId 2) (mk_md5 cA) 8 lm None None /\
  Forall (fun o => match o with
    | OPut b' k' _ _ | ODel b' k' _ _ | OCmu b' k' | OUp b' k' _ _ _ | OCpl b' k' _ _ _ | OAbt b' k' _
    | OApp b' k' _ _ => ~ (b' = wb /\ k' = wk)
    | OCp _ _ _ db dk => ~ (db = wb /\ dk = wk)
    | _ => True
    end) [OPut wb B"k2" cB CRNone; OVer wb VSuspended; OCp wb wk VRNone wb B"k3"; ORb wb; OLsv wb].
Proof.
  eexists. split; [vm_compute; reflexivity|].
  repeat constructor; cbn; intros [_ E]; discriminate E.
Qed.
