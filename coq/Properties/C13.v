(* Properties/C13.v — An existing object version never changes under the caller (M-META). *)
From Verif Require Import Bytes Codec Md5 Meta MetaBasics MetaWitness.

(* FULL STATEMENT, Last-Modified half: two reads of one non-null version id report the same Last-Modified.
   FALSE of the faithful model and of the code (corpus/C13/last-modified-bumped.txt, known finding
   C13-last-modified-bumped): writing the key again bumps updated_at of the demoted row. *)
Theorem C13_last_modified_refuted :
  ~ (forall ops i j b k n lm1 lm2,
      nth_error ops i = Some (OHead b k (VROp n)) -> nth_error ops j = Some (OHead b k (VROp n)) ->
      option_map res_lm (nth_error (snd (run ops)) i) = Some (Some lm1) ->
      option_map res_lm (nth_error (snd (run ops)) j) = Some (Some lm2) -> lm1 = lm2).
Proof. exact last_modified_refuted. Qed.
Print Assumptions C13_last_modified_refuted.

(* FULL STATEMENT, content half: two successful reads of one non-null version id return the same bytes.
   FALSE (corpus/C13/append-in-place.txt, known finding C13-append-in-place): AppendObject in a suspended
   bucket rewrites the latest row in place even when it is a non-null version. *)
Theorem C13_append_in_place_refuted :
  ~ (forall ops i j b k n c1 c2,
      nth_error ops i = Some (OGet b k (VROp n)) -> nth_error ops j = Some (OGet b k (VROp n)) ->
      option_map res_body (nth_error (snd (run ops)) i) = Some (Some c1) ->
      option_map res_body (nth_error (snd (run ops)) j) = Some (Some c2) -> c1 = c2).
Proof. exact append_in_place_refuted. Qed.
Print Assumptions C13_append_in_place_refuted.

(* reads never change anything *)
Theorem C13_reads_pure : forall i hist s o,
  match o with OGet _ _ _ | OHead _ _ _ | OLsv _ | OLs _ => True | _ => False end ->
  fst (step i hist s o) = with_ids s i.
Proof. exact reads_pure. Qed.
Print Assumptions C13_reads_pure.
