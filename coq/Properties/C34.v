(* Properties/C34.v — CORS headers are granted only by a matching rule.
   Only statements, [exact]s to Proofs/CorsProofs.v, non-vacuity examples and Print Assumptions. *)
From Verif Require Import Bytes Codec Cors CorsProofs.

(* wildcard patterns are matched as documented: at most the first '*' is a wildcard for any
   (possibly empty) byte sequence, every other byte is literal *)
Theorem C34_wildcard_spec : forall p v,
  wildcard_match p v = true <->
  (~ In star p /\ p = v) \/
  (exists pre suf mid, p = pre ++ star :: suf /\ ~ In star pre /\ v = pre ++ mid ++ suf).
Proof. exact wildcardmatch_spec_stmt. Qed.
Print Assumptions C34_wildcard_spec.

(* Access-Control-Allow-Origin is present iff the request carries an Origin and some rule of the
   bucket's configuration matches origin, method and (on a preflight) the requested headers *)
Theorem C34_acao_iff_rule : forall rules q,
  acao (cors rules q) <> None <->
  trim_space (q_origin q) <> [] /\ exists r, In r rules /\ rule_matches r q.
Proof. exact acao_iff_rule. Qed.
Print Assumptions C34_acao_iff_rule.

(* a preflight succeeds iff a rule matches and is rejected (403) iff none does *)
Theorem C34_preflight_403_iff_no_rule : forall rules q,
  is_preflight q = true -> trim_space (q_origin q) <> [] ->
  (out (cors rules q) = PreflightOK <-> exists r, In r rules /\ rule_matches r q) /\
  (out (cors rules q) = Forbidden <-> ~ exists r, In r rules /\ rule_matches r q).
Proof. exact preflight_outcome. Qed.
Print Assumptions C34_preflight_403_iff_no_rule.

(* non-CORS requests are unaffected: no header is added, the request is passed on *)
Theorem C34_no_origin_untouched : forall rules q,
  trim_space (q_origin q) = [] -> cors rules q = plain Next [].
Proof. exact no_origin_untouched. Qed.
Print Assumptions C34_no_origin_untouched.

(* a request that is not a preflight is never blocked by the middleware *)
Theorem C34_non_preflight_passes : forall rules q,
  is_preflight q = false -> out (cors rules q) = Next.
Proof. exact non_preflight_passes. Qed.
Print Assumptions C34_non_preflight_passes.

(* the granted origin is the request's own origin, or "*" only when a matching rule lists "*" *)
Theorem C34_acao_value : forall rules q v,
  acao (cors rules q) = Some v ->
  v = trim_space (q_origin q) \/
  (v = [star] /\ exists r, In r rules /\ rule_matches r q /\ In [star] (r_origins r)).
Proof. exact acao_value. Qed.
Print Assumptions C34_acao_value.

(* the rule used is the first matching one in configuration order *)
Theorem C34_first_match : forall rules q r pat,
  find_matching_rule rules q = Some (r, pat) ->
  exists before after, rules = before ++ r :: after /\ forall r', In r' before -> ~ rule_matches r' q.
Proof. exact find_matching_rule_first. Qed.
Print Assumptions C34_first_match.

(* non-vacuity: a wildcard rule, a matching preflight and a non-matching one *)
Definition ex_rule : rule :=
  {| r_id := None; r_origins := [B"https://*.example.com"]; r_methods := [B"GET"; B"PUT"];
     r_headers := [B"x-amz-*"]; r_expose := [B"ETag"]; r_maxage := Some 60%Z |}.
Definition ex_req (o : bytes) : request :=
  {| q_method := B"OPTIONS"; q_origin := o; q_acrm := B"put"; q_acrh := B"X-Amz-Date, x-amz-meta-a" |}.
Example C34_ex_granted :
  let r := cors [ex_rule] (ex_req B"https://App.Example.com") in
  out r = PreflightOK /\ acao r = Some B"https://App.Example.com".
Proof. vm_compute. split; reflexivity. Qed.
Example C34_ex_rejected :
  out (cors [ex_rule] (ex_req B"https://example.com")) = Forbidden.
Proof. vm_compute. reflexivity. Qed.

(* ---- server leg: resolveCORSRulesForRequest / bucketFromPath over the corscache middleware and the
   bucket's stored configuration (Model/Cors.v sstep; proofs in Proofs/CorsServerProofs.v) ---- *)
From Verif Require Import CorsServerProofs.

(* the cache is transparent: any history of CreateBucket / DeleteBucket / PutBucketCORS / DeleteBucketCORS /
   requests produces exactly the outputs of the cache-free specification *)
Theorem C34_server_cache_transparent : forall ops, srun sinit ops = spec_run [] ops.
Proof. exact srun_init_refines. Qed.
Print Assumptions C34_server_cache_transparent.

(* at any position of any history, the request is answered by the middleware under the configuration
   the bucket addressed by its path has at that moment *)
Theorem C34_server_answered_from_current_config : forall pre path q post,
  nth_error (srun sinit (pre ++ SReq path q :: post)) (length pre) =
  Some (OResp (cors (current_rules (spec_store [] pre) path) q)).
Proof. exact request_answered_from_current_config. Qed.
Print Assumptions C34_server_answered_from_current_config.

(* Access-Control-Allow-Origin only by a matching rule of the addressed bucket's CURRENT configuration *)
Theorem C34_server_acao_only_by_current_rule : forall pre path q post r,
  nth_error (srun sinit (pre ++ SReq path q :: post)) (length pre) = Some (OResp r) ->
  (acao r <> None <->
   trim_space (q_origin q) <> [] /\
   exists b rs rl, bucket_from_path path = Some b /\ alookup b (spec_store [] pre) = Some (Some rs) /\
                   In rl rs /\ rule_matches rl q).
Proof. exact acao_only_by_current_rule. Qed.
Print Assumptions C34_server_acao_only_by_current_rule.

(* a deleted bucket grants nothing, whatever had been cached for it *)
Theorem C34_server_no_grant_after_bucket_delete : forall pre b path q post r,
  bucket_from_path path = Some b ->
  nth_error (srun sinit ((pre ++ [SDeleteBucket b]) ++ SReq path q :: post)) (length (pre ++ [SDeleteBucket b]))
    = Some (OResp r) ->
  acao r = None.
Proof. exact no_grant_after_bucket_delete. Qed.
Print Assumptions C34_server_no_grant_after_bucket_delete.

(* a virtual-hosted request (Host = <bucket>.<api endpoint>) is decided by the configuration of the bucket
   its Host names: the path the CORS middleware sees after the virtual-host rewrite resolves to that bucket *)
Theorem C34_server_vhost_addresses_host_bucket : forall b p,
  b <> [] -> ~ In slash b -> trim_space b = b ->
  (p = [] \/ exists rest, p = slash :: rest) ->
  bucket_from_path (vhost_path b p) = Some b.
Proof. exact bucket_from_path_vhost. Qed.
Print Assumptions C34_server_vhost_addresses_host_bucket.

(* ... and that path is exactly the one C33's model of the virtual-host rewrite (current code) produces for
   Host = bucket.api[:port]: the two models agree on what the CORS middleware is handed *)
From Verif Require CorsVHostBridge VHost VHostProofs.
Theorem C34_server_vhost_path_is_c33_rewrite : forall api bucket port path,
  bucket <> [] -> ~ In ":"%byte bucket -> ~ In ":"%byte api -> VHostProofs.port_ok port ->
  VHost.vhost_rewrite true api ((bucket ++ "."%byte :: api) ++ port) path = vhost_path bucket path.
Proof. exact CorsVHostBridge.vhost_path_is_vhost_rewrite. Qed.
Print Assumptions C34_server_vhost_path_is_c33_rewrite.

(* non-vacuity: configuration cached by a first request, bucket deleted and re-created, same request again *)
Definition ex_get (o : bytes) : request := {| q_method := B"GET"; q_origin := o; q_acrm := []; q_acrh := [] |}.
Example C34_ex_server_history :
  map (fun o => match o with OResp r => acao r | _ => None end)
      (srun sinit [SCreate B"b0"; SPut B"b0" [ex_rule]; SReq B"/b0/key" (ex_get B"https://a.example.com");
                   SDeleteBucket B"b0"; SCreate B"b0"; SReq B"/b0/key" (ex_get B"https://a.example.com");
                   SReq B"/ b0/key" (ex_get B"https://a.example.com")])
  = [None; None; Some B"https://a.example.com"; None; None; None; None].
Proof. vm_compute. reflexivity. Qed.
