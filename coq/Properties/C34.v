(* Properties/C34.v — CORS headers are granted only by a matching rule.
   Only statements, [exact]s to Proofs/CorsProofs.v, non-vacuity examples and Print Assumptions. *)
From Verif Require Import Bytes Codec Cors CorsProofs.

(* wildcard patterns are matched as documented: at most the first '*' is a wildcard for any
   (possibly empty) byte sequence, every other byte is literal *)
Theorem C34_wildcard_spec : forall p v,
  wildcard_match p v = true <->
  (~ In star p /\ p = v) \/
  (exists pre suf mid, p = pre ++ star :: suf /\ ~ In star pre /\ v = pre ++ mid ++ suf).
Proof. exact wildcardmatch_spec_stmt. Qed.
Print Assumptions C34_wildcard_spec.

(* Access-Control-Allow-Origin is present iff the request carries an Origin and some rule of the
   bucket's configuration matches origin, method and (on a preflight) the requested headers *)
Theorem C34_acao_iff_rule : forall rules q,
  acao (cors rules q) <> None <->
  trim_space (q_origin q) <> [] /\ exists r, In r rules /\ rule_matches r q.
Proof. exact acao_iff_rule. Qed.
Print Assumptions C34_acao_iff_rule.

(* a preflight succeeds iff a rule matches and is rejected (403) iff none does *)
Theorem C34_preflight_403_iff_no_rule : forall rules q,
  is_preflight q = true -> trim_space (q_origin q) <> [] ->
  (out (cors rules q) = PreflightOK <-> exists r, In r rules /\ rule_matches r q) /\
  (out (cors rules q) = Forbidden <-> ~ exists r, In r rules /\ rule_matches r q).
Proof. exact preflight_outcome. Qed.
Print Assumptions C34_preflight_403_iff_no_rule.

(* non-CORS requests are unaffected: no header is added, the request is passed on *)
Theorem C34_no_origin_untouched : forall rules q,
  trim_space (q_origin q) = [] -> cors rules q = plain Next [].
Proof. exact no_origin_untouched. Qed.
Print Assumptions C34_no_origin_untouched.

(* a request that is not a preflight is never blocked by the middleware *)
Theorem C34_non_preflight_passes : forall rules q,
  is_preflight q = false -> out (cors rules q) = Next.
Proof. exact non_preflight_passes. Qed.
Print Assumptions C34_non_preflight_passes.

(* the granted origin is the request's own origin, or "*" only when a matching rule lists "*" *)
Theorem C34_acao_value : forall rules q v,
  acao (cors rules q) = Some v ->
  v = trim_space (q_origin q) \/
  (v = [star] /\ exists r, In r rules /\ rule_matches r q /\ In [star] (r_origins r)).
Proof. exact acao_value. Qed.
Print Assumptions C34_acao_value.

(* the rule used is the first matching one in configuration order *)
Theorem C34_first_match : forall rules q r pat,
  find_matching_rule rules q = Some (r, pat) ->
  exists before after, rules = before ++ r :: after /\ forall r', In r' before -> ~ rule_matches r' q.
Proof. exact find_matching_rule_first. Qed.
Print Assumptions C34_first_match.

(* non-vacuity: a wildcard rule, a matching preflight and a non-matching one *)
Definition ex_rule : rule :=
  {| r_id := None; r_origins := [B"https://*.example.com"]; r_methods := [B"GET"; B"PUT"];
     r_headers := [B"x-amz-*"]; r_expose := [B"ETag"]; r_maxage := Some 60%Z |}.
Definition ex_req (o : bytes) : request :=
  {| q_method := B"OPTIONS"; q_origin := o; q_acrm := B"put"; q_acrh := B"X-Amz-Date, x-amz-meta-a" |}.
Example C34_ex_granted :
  let r := cors [ex_rule] (ex_req B"https://App.Example.com") in
  out r = PreflightOK /\ acao r = Some B"https://App.Example.com".
Proof. vm_compute. split; reflexivity. Qed.
Example C34_ex_rejected :
  out (cors [ex_rule] (ex_req B"https://example.com")) = Forbidden.
Proof. vm_compute. reflexivity. Qed.
