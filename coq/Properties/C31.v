(* Properties/C31.v — no request takes effect without the authorizer's permission.
   All statements quantify over EVERY authorizer decision function [decide] / per-item decision
   function [di], EVERY environment [e] (names, storage outcomes, listed items, request validity)
   and EVERY request shape [s] (2 hosts x 7 methods x 3 path shapes x 2^14 query-flag sets x
   copy-source header present/absent = 1 376 256 shapes; the static part is discharged by complete
   enumeration inside Coq: AuthzProofs.route_ok_all, lifted by all_shapes_spec). *)
From Verif Require Import Bytes Codec Authz AuthzProofs.

(* the finite shape space is enumerated completely: a boolean predicate checked by [all_shapes]
   holds for every shape *)
Theorem C31_shape_space_complete : forall f, all_shapes f = true -> forall s, f s = true.
Proof. exact all_shapes_spec. Qed.
Print Assumptions C31_shape_space_complete.

(* a concrete request's behaviour depends only on its shape and the environment: [run] is a
   function of (shape, env, decide); two requests with equal shape have the same handler *)
Theorem C31_behaviour_depends_on_shape_only : forall s1 s2, s1 = s2 -> route s1 = route s2.
Proof. intros s1 s2 ->. reflexivity. Qed.
Print Assumptions C31_behaviour_depends_on_shape_only.

(* every decision recorded in a trace is the authorizer's decision for exactly that request *)
Theorem C31_decisions_are_the_authorizers : forall decide di e s r a,
  In (EAuth r a) (run decide di e s) -> a = decide r.
Proof. intros decide di e s. exact (wf_decisions _ _ _ _ (run_wf decide di e s)). Qed.
Print Assumptions C31_decisions_are_the_authorizers.

(* authorize_first at full strength, stated for all hosts: every storage call other than the
   exempt configuration reads is preceded by an ALLOW of an operation that covers the storage
   method, for the same bucket, key and copy source *)
Definition C31_authorize_first_full : Prop :=
  forall decide di e s pre m b k sb sk keys post,
  run decide di e s = pre ++ ECall m b k sb sk keys :: post ->
  (m = MGetBucketCORS \/ (m = MGetBucketWebsite /\ s_host s = Web)) \/
  exists r, In (EAuth r true) pre /\ covers (a_op r) m = true /\
            a_bucket r = b /\ a_key r = k /\ a_srcb r = sb /\ a_srck r = sk.

(* refuted on the website host: after GetObject was allowed for the requested key only, the
   configured error document (another key) is fetched and served *)
Definition c31_web_env : env :=
  {| e_bucket := B"bkt"; e_key := B"missing"; e_copysrc := []; e_valid := true; e_main := ROk;
     e_items := []; e_max := 0; e_authd := false; e_origin := false;
     e_wcfg := WPlain; e_wobj := WONf; e_widx := false; e_werr := WEOk |}.
Definition c31_no_q : qflags :=
  {| q_versioning := false; q_versions := false; q_cors := false; q_lifecycle := false;
     q_notification := false; q_website := false; q_uploads := false; q_uploadId := false;
     q_partNumber := false; q_list2 := false; q_delete := false; q_append := false;
     q_tagging := false; q_versionId := false |}.
Definition c31_web_get : shape := {| s_host := Web; s_meth := GET; s_path := PObject; s_q := c31_no_q; s_copy := false |}.

Theorem C31_authorize_first_refuted : ~ C31_authorize_first_full.
Proof.
  intros F.
  specialize (F (fun _ => true) (fun _ _ _ => true) c31_web_env c31_web_get
    [ECall MGetBucketWebsite (Some B"bkt") None None None [];
     EAuth {| a_op := OGetObject; a_bucket := Some B"bkt"; a_key := Some B"missing"; a_srcb := None; a_srck := None |} true;
     ECall MGetObject (Some B"bkt") (Some B"missing") None None [];
     ECall MHeadObject (Some B"bkt") (Some B"missing/index.html") None None []]
    MGetObject (Some B"bkt") (Some B"err.html") None None [] [EResp 404 [B"err.html"]] eq_refl).
  destruct F as [[F|[F _]]|(r & Hin & _ & _ & Hk & _)]; try discriminate.
  cbn in Hin. destruct Hin as [Hin|[Hin|[Hin|[Hin|[]]]]]; try discriminate.
  inversion Hin; subst. cbn in Hk. discriminate.
Qed.
Print Assumptions C31_authorize_first_refuted.

(* ... and proved on the API host at full strength; on the website host what remains true is
   that an ALLOW for the same bucket precedes every non-exempt call *)
Theorem C31_authorize_first_partial : forall decide di e s pre m b k sb sk keys post,
  run decide di e s = pre ++ ECall m b k sb sk keys :: post ->
  (m = MGetBucketCORS \/ (m = MGetBucketWebsite /\ s_host s = Web)) \/
  exists r, In (EAuth r true) pre /\ decide r = true /\ a_bucket r = b /\
            (s_host s = Api -> covers (a_op r) m = true /\ a_key r = k /\ a_srcb r = sb /\ a_srck r = sk).
Proof.
  intros decide di e s pre m b k sb sk keys post H.
  destruct (wf_authorize_first _ _ _ _ (run_wf decide di e s) _ _ _ _ _ _ _ _ H) as [X|(r & I1 & D & A & _ & C)].
  - left. destruct m; cbn in X; try contradiction; [|left; reflexivity].
    right. split; [reflexivity|]. unfold is_web in X. destruct (s_host s); [|reflexivity].
    destruct k; try contradiction; destruct sb; try contradiction; destruct sk; try contradiction; destruct keys; try contradiction; discriminate X.
  - right. exists r. split; [exact I1|]. split; [exact D|]. split; [exact A|]. intros Hh. unfold is_web in C. rewrite Hh in C. exact (C eq_refl).
Qed.
Print Assumptions C31_authorize_first_partial.

(* deny_stops: when the authorizer denies, the only storage calls that happened are exempt
   configuration reads, nothing follows the deny but the 401/403 response (no storage call, no
   listing items, no object data) *)
Theorem C31_deny_stops : forall decide di e s r,
  In (EAuth r false) (run decide di e s) ->
  decide r = false /\
  exists pre, run decide di e s = pre ++ [EAuth r false; EResp (if e_authd e then 403 else 401)%N []] /\
    forall ev, In ev pre -> exists b, ev = ECall MGetBucketCORS b None None None [] \/
                                       (ev = ECall MGetBucketWebsite b None None None [] /\ s_host s = Web).
Proof.
  intros decide di e s r Hin.
  destruct (wf_deny_stops _ _ _ _ (run_wf decide di e s) _ Hin) as (D & pre & E & HV).
  split; [exact D|]. exists pre. split; [exact E|]. intros ev Hev. rewrite Forall_forall in HV. specialize (HV _ Hev).
  destruct ev as [| m b k sb sk keys | |]; cbn in HV; try contradiction.
  destruct m; try contradiction; destruct k; try contradiction; destruct sb; try contradiction;
  destruct sk; try contradiction; destruct keys; try contradiction; exists b; [|left; reflexivity].
  right. split; [reflexivity|]. unfold is_web in HV. destruct (s_host s); [discriminate HV | reflexivity].
Qed.
Print Assumptions C31_deny_stops.

(* readonly_never_mutates: a state-changing storage call happens only under an allowed operation
   that the authorizer API reports as NOT read-only — so a policy that allows exactly the
   operations with isReadOnly() = true can never modify state *)
Theorem C31_readonly_never_mutates : forall decide di e s m b k sb sk keys,
  In (ECall m b k sb sk keys) (run decide di e s) -> mutating m = true ->
  exists r, In (EAuth r true) (run decide di e s) /\ decide r = true /\
            is_read_only (a_op r) = false /\ a_bucket r = b.
Proof. intros decide di e s. exact (wf_mutating _ _ _ _ (run_wf decide di e s)). Qed.
Print Assumptions C31_readonly_never_mutates.

Theorem C31_readonly_policy_never_mutates : forall decide di e s,
  (forall r, decide r = true -> is_read_only (a_op r) = true) ->
  forall m b k sb sk keys, In (ECall m b k sb sk keys) (run decide di e s) -> mutating m = false.
Proof.
  intros decide di e s Hro m b k sb sk keys Hin. destruct (mutating m) eqn:Hm; [|reflexivity].
  destruct (wf_mutating _ _ _ _ (run_wf decide di e s) _ _ _ _ _ _ Hin Hm) as (r & _ & D & R & _).
  rewrite (Hro r D) in R. discriminate.
Qed.
Print Assumptions C31_readonly_policy_never_mutates.

(* filters_exact, the loop itself: the listAndFilter* refetch loop over a storage offering [items]
   returns exactly the first max-keys items the per-item hook allows, in order — for every
   page size, every hook decision function *)
Theorem C31_filter_loop_exact : forall di e m t h base ev got,
  list_loop di e (S (length (e_items e))) m t h base (e_items e) (N.to_nat (eff_max e)) = (ev, got) ->
  got = firstn (N.to_nat (eff_max e)) (filter (di h base) (e_items e)).
Proof.
  intros di e m t h base ev got H.
  assert (L1 : length (e_items e) < S (length (e_items e))) by lia.
  exact (proj1 (list_loop_spec di e _ _ _ _ _ _ _ _ _ L1 (eff_max_pos e) H)).
Qed.
Print Assumptions C31_filter_loop_exact.

(* filters_exact on the routes: ListObjects (v1/v2), ListBuckets, multi-object delete *)
Theorem C31_filters_exact_list_objects : forall decide di e s items,
  s_host s = Api -> s_path s = PBucket -> s_meth s = GET ->
  q_versioning (s_q s) = false -> q_versions (s_q s) = false -> q_cors (s_q s) = false -> q_lifecycle (s_q s) = false ->
  q_notification (s_q s) = false -> q_website (s_q s) = false -> q_uploads (s_q s) = false ->
  In (EResp 200 items) (run decide di e s) ->
  exists base, In (EAuth base true) (run decide di e s) /\ a_op base = OListObjects /\ a_bucket base = Some (e_bucket e) /\
    items = firstn (N.to_nat (eff_max e)) (filter (di HListObject base) (e_items e)).
Proof.
  intros decide di e s items Hh Hp Hm A1 A2 A3 A4 A5 A6 A7. apply list_objects_exact; auto.
  unfold q_plain_list. rewrite A1, A2, A3, A4, A5, A6, A7. reflexivity.
Qed.
Print Assumptions C31_filters_exact_list_objects.

Theorem C31_filters_exact_list_buckets : forall decide di e s items,
  s_host s = Api -> s_path s = PRoot -> s_meth s = GET \/ s_meth s = HEAD ->
  In (EResp 200 items) (run decide di e s) ->
  exists base, In (EAuth base true) (run decide di e s) /\ a_op base = OListBuckets /\
    items = filter (di HListBucket base) (e_items e).
Proof. exact list_buckets_exact. Qed.
Print Assumptions C31_filters_exact_list_buckets.

Theorem C31_filters_exact_multi_delete : forall decide di e s b k sb sk keys,
  s_host s = Api -> s_path s = PBucket -> s_meth s = POST -> q_delete (s_q s) = true ->
  In (ECall MDeleteObjects b k sb sk keys) (run decide di e s) ->
  exists base, In (EAuth base true) (run decide di e s) /\ a_op base = ODeleteObjects /\
    keys = filter (di HDeleteEntry base) (filter key_valid (e_items e)).
Proof. exact multi_delete_exact. Qed.
Print Assumptions C31_filters_exact_multi_delete.

(* filters_exact at full strength: whatever request lists the object keys of a bucket shows only
   keys the ListObject hook allows — refuted by GET /bucket?versions, which has no per-item hook *)
Definition C31_filters_exact_full : Prop :=
  forall decide di e s items it,
  s_host s = Api -> s_path s = PBucket -> s_meth s = GET ->
  route s = HSteps [VBucket; Auth OListObjects TBucket; ListLoop MListObjects TBucket HListObject] 200 \/
  route s = HSteps [VBucket; Auth OListObjectVersions TBucket; ListOnce MListObjectVersions TBucket None] 200 ->
  In (EResp 200 items) (run decide di e s) -> In it items ->
  exists base, di HListObject base it = true.

Definition c31_versions : shape :=
  {| s_host := Api; s_meth := GET; s_path := PBucket; s_copy := false;
     s_q := {| q_versioning := false; q_versions := true; q_cors := false; q_lifecycle := false;
               q_notification := false; q_website := false; q_uploads := false; q_uploadId := false;
               q_partNumber := false; q_list2 := false; q_delete := false; q_append := false;
               q_tagging := false; q_versionId := false |} |}.
Definition c31_versions_env : env :=
  {| e_bucket := B"bkt"; e_key := []; e_copysrc := []; e_valid := true; e_main := ROk;
     e_items := [B"secret"]; e_max := 0; e_authd := true; e_origin := false;
     e_wcfg := WPlain; e_wobj := WOOk; e_widx := false; e_werr := WENone |}.

Theorem C31_filters_exact_refuted : ~ C31_filters_exact_full.
Proof.
  intros F.
  destruct (F (fun _ => true) (fun _ _ _ => false) c31_versions_env c31_versions [B"secret"] B"secret"
              eq_refl eq_refl eq_refl (or_intror eq_refl)) as [base Hb].
  - vm_compute. right. right. left. reflexivity.
  - left. reflexivity.
  - discriminate.
Qed.
Print Assumptions C31_filters_exact_refuted.

(* non-vacuity: a table-driven authorizer that allows the request but hides one of three keys *)
Example C31_ex_list :
  let e := {| e_bucket := B"bkt"; e_key := []; e_copysrc := []; e_valid := true; e_main := ROk;
              e_items := [B"a"; B"b"; B"c"]; e_max := 2; e_authd := true; e_origin := true;
              e_wcfg := WPlain; e_wobj := WOOk; e_widx := false; e_werr := WENone |} in
  let s := {| s_host := Api; s_meth := GET; s_path := PBucket; s_q := c31_no_q; s_copy := false |} in
  map (show_event true) (run (fun _ => true) (fun _ _ it => negb (bytes_eqb it B"a")) e s) =
  [B"S:GetBucketCORSConfiguration:626b74:~:~:~:_"; B"A:ListObjects:626b74:~:~:~:1:1";
   B"S:ListObjects:626b74:~:~:~:_"; B"I:ListObject:61:0"; B"I:ListObject:62:1";
   B"S:ListObjects:626b74:~:~:~:_"; B"I:ListObject:63:1"; B"R:200:62,63"].
Proof. vm_compute. reflexivity. Qed.
Example C31_ex_deny :
  let s := {| s_host := Api; s_meth := PUT; s_path := PObject; s_q := c31_no_q; s_copy := true |} in
  let e := {| e_bucket := B"bkt"; e_key := B"k"; e_copysrc := B"/src/a%2Fb"; e_valid := true; e_main := ROk;
              e_items := []; e_max := 0; e_authd := true; e_origin := false;
              e_wcfg := WPlain; e_wobj := WOOk; e_widx := false; e_werr := WENone |} in
  map (show_event true) (run (fun r => negb (match a_srcb r with Some _ => true | None => false end)) (fun _ _ _ => true) e s) =
  [B"A:CopyObject:626b74:6b:737263:612f62:0:0"; B"R:403:_"].
Proof. vm_compute. reflexivity. Qed.
