(* Properties/C27.v — audit log tampering is always detected; every serializer decodes what it encoded.
   Only statements, [exact]s to Proofs/AuditLogProofs.v, witnesses and Print Assumptions. *)
From Verif Require Import Bytes Codec AuditLog AuditLogProofs.
Local Open Scope N_scope.

(* ---- serializers ---------------------------------------------------------------------------- *)
(* binary: a well-formed entry (field ranges of the Go types, details matching the type string, legacy
   versions carrying only what their layout has) is read back exactly, whatever follows it *)
Theorem C27_binary_decode_encode : forall e bs rest,
  wf_bin e -> enc_bin e = Some bs -> dec_bin (bs ++ rest) = ROk e rest.
Proof. exact dec_bin_enc_bin. Qed.
Print Assumptions C27_binary_decode_encode.

(* binary, whole file: the read loop of the tool returns exactly the written entries, then a clean EOF *)
Theorem C27_binary_file_roundtrip : forall L chunks fuel,
  Forall2 (fun e c => wf_bin e /\ enc_bin e = Some c) L chunks -> (length L < fuel)%nat ->
  dec_all fuel (concat chunks) [] = (L, None).
Proof. intros L chunks fuel HF Hf. exact (dec_all_concat L chunks [] fuel HF Hf). Qed.
Print Assumptions C27_binary_file_roundtrip.

(* JSON (at the level of the structs given to / received from encoding/json) *)
Theorem C27_json_decode_encode : forall e, wf_json e -> dec_json (enc_json e) = Some e.
Proof. exact dec_json_enc_json. Qed.
Print Assumptions C27_json_decode_encode.

(* ---- what the entry hash covers ------------------------------------------------------------- *)
(* full strength: equal hash inputs => equal recorded fields (version, timestamp, type, every detail
   field including the copy source, previous hash) *)
Definition C27_hash_input_injective_full : Prop := forall e1 e2 x,
  wf_hash e1 -> wf_hash e2 -> hash_input e1 = Some x -> hash_input e2 = Some x -> recorded e1 = recorded e2.

Definition w_copy (srck : bytes) : entry :=
  {| e_ver := 3; e_ts := 1700000000000000000%Z; e_type := t_log;
     e_det := DLog {| l_op := B"CopyObject"; l_phase := B"COMPLETE"; l_bucket := B"dst"; l_key := B"k"; l_upload := [];
                      l_part := 0%Z; l_srcb := B"src"; l_srck := srck; l_cred := B"AKIA"; l_auth := B"sigv4-header";
                      l_reqid := B"r1"; l_trace := []; l_ip := B"10.0.0.1"; l_status := 200%Z; l_outcome := B"success";
                      l_errcode := []; l_err := []; l_dur := 3%Z |};
     e_prev := B"pppp"; e_hash := []; e_sig := [] |}.

Lemma w_copy_wf s : lenN s < 2 ^ 32 -> wf_hash (w_copy s).
Proof.
  intros Hs. unfold wf_hash, w_copy, wf_details, logd_ok, str_ok, i32_ok, i64_ok. cbn.
  repeat split; try lia; try reflexivity.
Qed.

(* refuted: SourceBucket / SourceKey (format v3) are serialized but not hashed *)
Theorem C27_hash_input_injective_full_refuted : ~ C27_hash_input_injective_full.
Proof.
  intros F.
  assert (recorded (w_copy B"secret/original") = recorded (w_copy B"harmless/other")) as E.
  { apply (F _ _ (match hash_input (w_copy B"secret/original") with Some x => x | None => [] end));
      try (apply w_copy_wf; cbn; lia); reflexivity. }
  discriminate E.
Qed.
Print Assumptions C27_hash_input_injective_full_refuted.

(* the strongest true statement: everything except the two copy-source fields is determined *)
Theorem C27_hash_input_injective_partial : forall e1 e2 x,
  wf_hash e1 -> wf_hash e2 -> hash_input e1 = Some x -> hash_input e2 = Some x ->
  e_ver e1 = e_ver e2 /\ e_ts e1 = e_ts e2 /\ e_type e1 = e_type e2 /\ e_prev e1 = e_prev e2 /\
  strip_src_d (e_det e1) = strip_src_d (e_det e2).
Proof.
  intros e1 e2 x W1 W2 X1 X2. pose proof (hash_input_determines_core e1 e2 x W1 W2 X1 X2) as E.
  unfold core in E. injection E as E1 E2 E3 E4 E5. auto.
Qed.
Print Assumptions C27_hash_input_injective_partial.

(* ---- tamper detection ----------------------------------------------------------------------- *)
(* L: the log as written (accepted); L': what the verifier is shown (accepted as well).  Premises: no SHA-512
   collision among the values occurring in the two logs; every (data, signature) pair the Ed25519 verifier
   accepts was produced by the writer, i.e. occurs in L (strong unforgeability); no Merkle root signed in L is
   the hash of an entry of L' (the same key signs entry hashes and roots without domain separation).
   Full strength: then L' is a prefix of L — any change, insertion, deletion, duplication or reordering
   other than cutting off a suffix is rejected. *)
Definition C27_chain_detects_full : Prop :=
  forall (H : bytes -> bytes) (vE vM : bytes -> bytes -> bool) (useM : bool) (block : N) (L L' : list entry),
  Forall wf_hash L -> Forall wf_hash L' ->
  accepted H vE vM true useM block L = true ->
  accepted H vE vM true useM block L' = true ->
  (forall x y, In x (occ_of L L') -> In y (occ_of L L') -> H x = H y -> x = y) ->
  (forall d s, vE d s = true -> In (d, s) (signed_pairs L)) ->
  (forall e' e root sE sM, In e' L' -> In e L -> e_det e = DGround root sE sM -> e_hash e' <> root) ->
  exists n, L' = firstn n L.

(* witness: SHA-512 := identity (injective), signatures := the ideal functionality "was signed in L" *)
Definition seal (e : entry) : entry :=
  {| e_ver := e_ver e; e_ts := e_ts e; e_type := e_type e; e_det := e_det e; e_prev := e_prev e;
     e_hash := hi_or_empty e; e_sig := e_sig e |}.
Definition w_genesis : entry :=
  seal {| e_ver := 3; e_ts := 1%Z; e_type := t_genesis; e_det := DGenesis; e_prev := B"pithos"; e_hash := []; e_sig := B"sig-g" |}.
Definition w_entry (srck : bytes) : entry :=
  seal {| e_ver := 3; e_ts := 2%Z; e_type := t_log; e_det := e_det (w_copy srck); e_prev := e_hash w_genesis;
          e_hash := []; e_sig := B"sig-c" |}.
Definition w_L : list entry := [w_genesis; w_entry B"secret/original"].
Definition w_L' : list entry := [w_genesis; w_entry B"harmless/other"].
Definition w_H (x : bytes) : bytes := x.
Definition w_vE (d s : bytes) : bool :=
  existsb (fun p => bytes_eqb (fst p) d && bytes_eqb (snd p) s) (signed_pairs w_L).

Lemma w_wf : Forall wf_hash w_L /\ Forall wf_hash w_L'.
Proof.
  split; repeat constructor; unfold wf_hash, wf_details, logd_ok, str_ok, i32_ok, i64_ok; cbn; repeat split; try lia; try reflexivity.
  all: match goal with Hle : _ <= 1 |- _ => vm_compute in Hle; exfalso; apply Hle; reflexivity end.
Qed.
Lemma w_vE_sound : forall d s, w_vE d s = true -> In (d, s) (signed_pairs w_L).
Proof.
  intros d s Hv. unfold w_vE in Hv. apply existsb_exists in Hv. destruct Hv as ([d' s'] & Hin & Heq).
  apply andb_true_iff in Heq. destruct Heq as [E1 E2]. apply bytes_eqb_eq in E1, E2. cbn in E1, E2. subst. exact Hin.
Qed.

Theorem C27_chain_detects_full_refuted : ~ C27_chain_detects_full.
Proof.
  intros F. destruct w_wf as [W W'].
  destruct (F w_H w_vE w_vE false 1000 w_L w_L' W W') as [n En].
  - vm_compute. reflexivity.
  - vm_compute. reflexivity.
  - intros x y _ _ E. exact E.
  - exact w_vE_sound.
  - intros e' e root sE sM _ He Ed. destruct He as [<-|[<-|[]]]; discriminate Ed.
  - apply (f_equal (map (fun e => match e_det e with DLog l => l_srck l | _ => [] end))) in En.
    destruct n as [|[|[|n]]]; vm_compute in En; discriminate En.
Qed.
Print Assumptions C27_chain_detects_full_refuted.

(* the strongest true statement: L' agrees with a prefix of L on every field (including hash and signature)
   except SourceBucket / SourceKey *)
Theorem C27_chain_detects_partial :
  forall (H : bytes -> bytes) (vE vM : bytes -> bytes -> bool) (useM : bool) (block : N) (L L' : list entry),
  Forall wf_hash L -> Forall wf_hash L' ->
  accepted H vE vM true useM block L = true ->
  accepted H vE vM true useM block L' = true ->
  (forall x y, In x (occ_of L L') -> In y (occ_of L L') -> H x = H y -> x = y) ->
  (forall d s, vE d s = true -> In (d, s) (signed_pairs L)) ->
  (forall e' e root sE sM, In e' L' -> In e L -> e_det e = DGround root sE sM -> e_hash e' <> root) ->
  exists n, map strip_src L' = map strip_src (firstn n L).
Proof. exact chain_detects_stmt. Qed.
Print Assumptions C27_chain_detects_partial.

(* non-vacuity: the premises hold for the witness log against itself and against its one-entry prefix *)
Example C27_ex_premises :
  accepted w_H w_vE w_vE true false 1000 w_L = true /\
  accepted w_H w_vE w_vE true false 1000 (firstn 1 w_L) = true /\
  accepted w_H w_vE w_vE true false 1000 (rev w_L) = false /\
  accepted w_H w_vE w_vE true false 1000 [w_genesis; w_genesis] = false.
Proof. vm_compute. repeat split; reflexivity. Qed.
(* a well-formed binary round trip on a concrete v3 entry *)
Example C27_ex_roundtrip :
  let e := {| e_ver := 3; e_ts := 5%Z; e_type := t_log; e_det := e_det (w_copy B"k2"); e_prev := repeat x00 64;
              e_hash := repeat x01 64; e_sig := repeat x02 64 |} in
  match enc_bin e with Some bs => dec_bin (bs ++ B"tail") = ROk e B"tail" | None => False end.
Proof. vm_compute. reflexivity. Qed.
