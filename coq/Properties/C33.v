(* Properties/C33.v — virtual-hosted and path-style requests address the same resource; the website endpoint
   and custom domains are read-only.   Model: Model/VHost.v ([route] = hostname router + virtual-host rewrite +
   custom-domain fallback + the two ServeMux pattern sets of server.SetupServer; decoded paths).
   A virtual-hosted request for [bucket]/[key] has Host = bucket.api[:port] and path "/"key; its path-style twin
   has Host = api[:port] and path "/"bucket"/"key.  [port_ok port]: no port, or ":" followed by bytes other
   than ':' and ']'. *)
From Verif Require Import Bytes Codec VHost VHostProofs.

Definition C33_vhost_eq_path_full : Prop :=
  forall api web bucket port key method,
  bucket <> [] -> ~ In ":"%byte bucket -> ~ In ":"%byte api ->
  (port = [] \/ exists ds, port = ":"%byte :: ds /\ ~ In ":"%byte ds /\ ~ In "]"%byte ds) ->
  key <> [] ->
  route api web ((bucket ++ "."%byte :: api) ++ port) (slash :: key) method =
  route api web (api ++ port) (slash :: bucket ++ slash :: key) method.

(* violated by the code: PUT Host: bucket.s3.localhost /folder/  acts on key "folder", the path-style twin on "folder/" *)
Theorem C33_vhost_eq_path_refuted : ~ C33_vhost_eq_path_full.
Proof. exact vhost_eq_path_refuted_stmt. Qed.
Print Assumptions C33_vhost_eq_path_refuted.

Theorem C33_refuting_witness :
  route B"s3.localhost" B"s3-website.localhost" B"bucket.s3.localhost" B"/folder/" B"PUT"
    = Routed (ApiObject B"bucket" B"folder") /\
  route B"s3.localhost" B"s3-website.localhost" B"s3.localhost" B"/bucket/folder/" B"PUT"
    = Routed (ApiObject B"bucket" B"folder/").
Proof. exact witness_values. Qed.
Print Assumptions C33_refuting_witness.

(* it holds for every endpoint, bucket, method, port and every key that does not end in '/' (any other bytes:
   "//", dot segments, '%', non-ASCII — whatever the mux then does with the path, it does it to both) *)
Theorem C33_vhost_eq_path_partial : forall api web bucket port k c method,
  bucket <> [] -> ~ In ":"%byte bucket -> ~ In ":"%byte api ->
  (port = [] \/ exists ds, port = ":"%byte :: ds /\ ~ In ":"%byte ds /\ ~ In "]"%byte ds) ->
  c <> slash ->
  route api web ((bucket ++ "."%byte :: api) ++ port) (slash :: k ++ [c]) method =
  route api web (api ++ port) (slash :: bucket ++ slash :: k ++ [c]) method.
Proof. exact vhost_eq_path_partial_stmt. Qed.
Print Assumptions C33_vhost_eq_path_partial.

(* the bare virtual-hosted root addresses the bucket itself *)
Theorem C33_vhost_root_is_bucket : forall api web bucket port method,
  bucket <> [] -> ~ In ":"%byte bucket -> ~ In ":"%byte api ->
  (port = [] \/ exists ds, port = ":"%byte :: ds /\ ~ In ":"%byte ds /\ ~ In "]"%byte ds) ->
  route api web ((bucket ++ "."%byte :: api) ++ port) [slash] method =
  route api web (api ++ port) (slash :: bucket) method.
Proof. exact vhost_root_is_bucket_stmt. Qed.
Print Assumptions C33_vhost_root_is_bucket.

(* what the code does with a key ending in '/': it addresses the key with ONE trailing slash removed *)
Theorem C33_vhost_trailing_slash_dropped : forall api web bucket port k method,
  bucket <> [] -> ~ In ":"%byte bucket -> ~ In ":"%byte api ->
  (port = [] \/ exists ds, port = ":"%byte :: ds /\ ~ In ":"%byte ds /\ ~ In "]"%byte ds) ->
  route api web ((bucket ++ "."%byte :: api) ++ port) (slash :: k ++ [slash]) method =
  route api web (api ++ port) (slash :: bucket ++ slash :: k) method.
Proof. exact vhost_trailing_slash_stmt. Qed.
Print Assumptions C33_vhost_trailing_slash_dropped.

(* website endpoint and custom domains: a request is handed to a handler only for GET/HEAD and only to the
   website handlers; API hosts never reach the website handlers *)
Theorem C33_website_readonly : forall api web host path method t,
  route api web host path method = Routed t ->
  let on_api := bytes_eqb (strip_port host) api || is_suffix ("."%byte :: api) (strip_port host) in
  (on_api = false -> is_web_target t = true /\ (method = B"GET" \/ method = B"HEAD")) /\
  (on_api = true -> is_web_target t = false /\ In method api_methods).
Proof. exact website_readonly_stmt. Qed.
Print Assumptions C33_website_readonly.

Theorem C33_website_never_mutates : forall api web host path method,
  bytes_eqb (strip_port host) api || is_suffix ("."%byte :: api) (strip_port host) = false ->
  method <> B"GET" -> method <> B"HEAD" ->
  forall t, route api web host path method <> Routed t.
Proof. exact website_never_mutates_stmt. Qed.
Print Assumptions C33_website_never_mutates.

(* non-vacuity *)
Example C33_ex_same :
  route B"s3.localhost" B"s3-website.localhost" B"my.bucket.s3.localhost:8080" B"/a/b c/%41" B"GET"
    = Routed (ApiObject B"my.bucket" B"a/b c/%41") /\
  route B"s3.localhost" B"s3-website.localhost" B"s3.localhost:8080" B"/my.bucket/a/b c/%41" B"GET"
    = Routed (ApiObject B"my.bucket" B"a/b c/%41").
Proof. vm_compute. split; reflexivity. Qed.
Example C33_ex_web :
  route B"s3.localhost" B"s3-website.localhost" B"site.s3-website.localhost" B"/docs/" B"GET"
    = Routed (WebObject B"site" B"docs/") /\
  route B"s3.localhost" B"s3-website.localhost" B"site.s3-website.localhost" B"/docs/" B"PUT" = MethodNotAllowed /\
  route B"s3.localhost" B"s3-website.localhost" B"www.example.com" B"/x" B"DELETE" = MethodNotAllowed /\
  route B"s3.localhost" B"s3-website.localhost" B"www.example.com" B"/x" B"HEAD"
    = Routed (WebObject B"www.example.com" B"x") /\
  route B"s3.localhost" B"s3-website.localhost" B"bucket.s3.localhost" B"/a//b" B"GET" = Redirect B"/bucket/a/b".
Proof. vm_compute. repeat split. Qed.
