(* Properties/C33.v — virtual-hosted and path-style requests address the same resource; the website endpoint
   and custom domains are read-only.   Model: Model/VHost.v ([route] = [route_gen true] = hostname router +
   virtual-host rewrite of the CURRENT code (/repo 18a80a7) + custom-domain fallback + the two ServeMux pattern sets of
   server.SetupServer; decoded paths).  [route_gen false] is the rewrite before that fix (historical Examples below).
   A virtual-hosted request for [bucket]/[key] has Host = bucket.api[:port] and path "/"key; its path-style twin
   has Host = api[:port] and path "/"bucket"/"key.  A port is absent or ":" followed by bytes other than ':' and ']'. *)
From Verif Require Import Bytes Codec VHost VHostProofs.

(* for EVERY non-empty key (any bytes: trailing '/', "//", dot segments, '%', non-ASCII), every endpoint, bucket
   label, port and method, both addressing styles are routed identically — whatever the mux then does with the path
   (handler, redirect, 405), it does it to both.  The only key not covered is the empty key: there the virtual-hosted
   request is the bucket root, see C33_vhost_root_is_bucket. *)
Theorem C33_vhost_eq_path_full : forall api web bucket port key method,
  bucket <> [] -> ~ In ":"%byte bucket -> ~ In ":"%byte api ->
  (port = [] \/ exists ds, port = ":"%byte :: ds /\ ~ In ":"%byte ds /\ ~ In "]"%byte ds) ->
  key <> [] ->
  route api web ((bucket ++ "."%byte :: api) ++ port) (slash :: key) method =
  route api web (api ++ port) (slash :: bucket ++ slash :: key) method.
Proof. exact vhost_eq_path_full_fixed_stmt. Qed.
Print Assumptions C33_vhost_eq_path_full.

(* empty key: the bare virtual-hosted root ("/" or an empty path) addresses the bucket itself, like path-style "/bucket" *)
Theorem C33_vhost_root_is_bucket : forall api web bucket port method,
  bucket <> [] -> ~ In ":"%byte bucket -> ~ In ":"%byte api ->
  (port = [] \/ exists ds, port = ":"%byte :: ds /\ ~ In ":"%byte ds /\ ~ In "]"%byte ds) ->
  route api web ((bucket ++ "."%byte :: api) ++ port) [slash] method =
  route api web (api ++ port) (slash :: bucket) method /\
  route api web ((bucket ++ "."%byte :: api) ++ port) [] method =
  route api web (api ++ port) (slash :: bucket) method.
Proof. exact vhost_root_is_bucket_stmt. Qed.
Print Assumptions C33_vhost_root_is_bucket.

(* website endpoint and custom domains: a request is handed to a handler only for GET/HEAD and only to the
   website handlers; API hosts never reach the website handlers *)
Theorem C33_website_readonly : forall api web host path method t,
  route api web host path method = Routed t ->
  let on_api := bytes_eqb (strip_port host) api || is_suffix ("."%byte :: api) (strip_port host) in
  (on_api = false -> is_web_target t = true /\ (method = B"GET" \/ method = B"HEAD")) /\
  (on_api = true -> is_web_target t = false /\ In method api_methods).
Proof. exact (website_readonly_stmt true). Qed.
Print Assumptions C33_website_readonly.

Theorem C33_website_never_mutates : forall api web host path method,
  bytes_eqb (strip_port host) api || is_suffix ("."%byte :: api) (strip_port host) = false ->
  method <> B"GET" -> method <> B"HEAD" ->
  forall t, route api web host path method <> Routed t.
Proof. exact (website_never_mutates_stmt true). Qed.
Print Assumptions C33_website_never_mutates.

(* ---- HISTORICAL: the rewrite before /repo 18a80a7 ([route_gen false]: TrimSuffix("/"+bucket+path, "/")).
   Machine-checked record of the old defect; says nothing about the current code. ---- *)
Example C33_prefix_vhost_eq_path_refuted :
  ~ (forall api web bucket port key method,
     bucket <> [] -> ~ In ":"%byte bucket -> ~ In ":"%byte api ->
     (port = [] \/ exists ds, port = ":"%byte :: ds /\ ~ In ":"%byte ds /\ ~ In "]"%byte ds) ->
     key <> [] ->
     route_gen false api web ((bucket ++ "."%byte :: api) ++ port) (slash :: key) method =
     route_gen false api web (api ++ port) (slash :: bucket ++ slash :: key) method).
Proof. exact prefix_vhost_eq_path_refuted_stmt. Qed.
Example C33_prefix_witness :   (* PUT bucket.s3.localhost /folder/ acted on key "folder" *)
  route_gen false B"s3.localhost" B"s3-website.localhost" B"bucket.s3.localhost" B"/folder/" B"PUT"
    = Routed (ApiObject B"bucket" B"folder") /\
  route_gen false B"s3.localhost" B"s3-website.localhost" B"s3.localhost" B"/bucket/folder/" B"PUT"
    = Routed (ApiObject B"bucket" B"folder/").
Proof. exact prefix_witness_values. Qed.
Example C33_prefix_trailing_slash_dropped :   (* exactly one trailing slash of the key was cut off *)
  forall api web bucket port k method,
  bucket <> [] -> ~ In ":"%byte bucket -> ~ In ":"%byte api ->
  (port = [] \/ exists ds, port = ":"%byte :: ds /\ ~ In ":"%byte ds /\ ~ In "]"%byte ds) ->
  route_gen false api web ((bucket ++ "."%byte :: api) ++ port) (slash :: k ++ [slash]) method =
  route_gen false api web (api ++ port) (slash :: bucket ++ slash :: k) method.
Proof. exact prefix_vhost_trailing_slash_stmt. Qed.

(* non-vacuity *)
Example C33_ex_former_witness :   (* the former witness on the current code: both styles address "folder/" *)
  route B"s3.localhost" B"s3-website.localhost" B"bucket.s3.localhost" B"/folder/" B"PUT"
    = Routed (ApiObject B"bucket" B"folder/") /\
  route B"s3.localhost" B"s3-website.localhost" B"s3.localhost" B"/bucket/folder/" B"PUT"
    = Routed (ApiObject B"bucket" B"folder/").
Proof. exact witness_values_now. Qed.
Example C33_ex_same :
  route B"s3.localhost" B"s3-website.localhost" B"my.bucket.s3.localhost:8080" B"/a/b c/%41" B"GET"
    = Routed (ApiObject B"my.bucket" B"a/b c/%41") /\
  route B"s3.localhost" B"s3-website.localhost" B"s3.localhost:8080" B"/my.bucket/a/b c/%41" B"GET"
    = Routed (ApiObject B"my.bucket" B"a/b c/%41").
Proof. vm_compute. split; reflexivity. Qed.
Example C33_ex_web :
  route B"s3.localhost" B"s3-website.localhost" B"site.s3-website.localhost" B"/docs/" B"GET"
    = Routed (WebObject B"site" B"docs/") /\
  route B"s3.localhost" B"s3-website.localhost" B"site.s3-website.localhost" B"/docs/" B"PUT" = MethodNotAllowed /\
  route B"s3.localhost" B"s3-website.localhost" B"www.example.com" B"/x" B"DELETE" = MethodNotAllowed /\
  route B"s3.localhost" B"s3-website.localhost" B"www.example.com" B"/x" B"HEAD"
    = Routed (WebObject B"www.example.com" B"x") /\
  route B"s3.localhost" B"s3-website.localhost" B"bucket.s3.localhost" B"/a//b" B"GET" = Redirect B"/bucket/a/b".
Proof. vm_compute. repeat split. Qed.
(* a key that starts with the bucket's own name is still just a key; a domain that merely ends with the endpoint
   string (no dot boundary) is a custom domain: read-only *)
Example C33_ex_self_named_key :
  route B"s3.localhost" B"s3-website.localhost" B"photos.s3.localhost" B"/photos/2024/a.jpg" B"PUT"
    = Routed (ApiObject B"photos" B"photos/2024/a.jpg") /\
  route B"s3.localhost" B"s3-website.localhost" B"s3.localhost" B"/photos/photos/2024/a.jpg" B"PUT"
    = Routed (ApiObject B"photos" B"photos/2024/a.jpg") /\
  route B"s3.localhost" B"s3-website.localhost" B"photos.s3.localhost" B"/photos" B"PUT"
    = Routed (ApiObject B"photos" B"photos").
Proof. vm_compute. repeat split. Qed.
Example C33_ex_lookalike_domain :
  route B"s3.localhost" B"s3-website.localhost" B"assets3.localhost" B"/photos/a.jpg" B"PUT" = MethodNotAllowed /\
  route B"s3.localhost" B"s3-website.localhost" B"assets3.localhost" B"/photos/a.jpg" B"GET"
    = Routed (WebObject B"assets3.localhost" B"photos/a.jpg") /\
  route B"s3.localhost" B"s3-website.localhost" B"xs3-website.localhost" B"/x" B"DELETE" = MethodNotAllowed.
Proof. vm_compute. repeat split. Qed.
