(* Properties/C03.v — A failed operation leaves no observable trace.
   M-TX (Model/Tx.v: database.WithTx / TxController.Commit / Rollback + the hook programs of the filesystem part
   store) and M-META (Model/Meta.v).  Statements + exact-lemma proofs + Print Assumptions only.

   Faults of a transaction: the body returns an error after any prefix of its steps ([SErr] at any position:
   validation error, failing SQL statement, failing part-store call), pre-commit hook i fails ([FPre i 1]: before it
   did anything; [FPre i 2]: PutPart's temp file is gone, so the hook fails after it made its backup), the database
   commit fails ([FCommit]), after-commit hook j fails ([FAfter j]).  Rollback-hook primitives are assumed not to
   fail (os.Rename of a backup back to its place, os.Remove of a temp file). *)
From Verif Require Import Bytes Codec Md5 Meta Tx Fault TxProofs FaultProofs.

(* (1) every failure up to and including the database commit: committed database state AND the whole directory
   (published part files, temp names, backup names) are exactly as before — for ALL programs (part ids may repeat,
   e.g. PutPart id; DeletePart id on a dedup hit), all fault positions, all initial directories that do not already
   contain the temp/backup names this transaction will generate (os.CreateTemp / ULID names are unique).
   Holds since rollback hooks run last-registered-first (fix 98ee436); with registration order it was false
   (former C03_rollback_full_refuted; the witnesses are the Examples below and corpus/C03/rollback-order-orphan.txt). *)
Theorem C03_rollback_full : forall (D : Type) (prog : list (tstep D)) (ft : fault) (dbc : D) (fs0 : fsys),
  (forall n, fs0 (PTemp n) = None /\ fs0 (PBackup n) = None) ->
  (forall j, ft <> FAfter j) ->
  let '(ok, db', fs') := run_tx ft prog dbc fs0 in
  ok = false -> db' = dbc /\ forall p, fs' p = fs0 p.
Proof. exact run_tx_rollback. Qed.
Print Assumptions C03_rollback_full.

(* (2) the property at full strength — EVERY fault, including a failing after-commit hook — is FALSE:
   Commit returns the hook's error after the database committed *)
Definition C03_full : Prop :=
  forall (prog : list (tstep N)) (ft : fault) (dbc : N) (fs0 : fsys),
  (forall n, fs0 (PTemp n) = None /\ fs0 (PBackup n) = None) ->
  let '(ok, db', fs') := run_tx ft prog dbc fs0 in
  ok = false -> db' = dbc /\ forall id, fs' (PFinal id) = fs0 (PFinal id).
Theorem C03_full_refuted : ~ C03_full.
Proof.
  intros H.
  specialize (H [SDb (fun _ => 5%N); SDel 1%N] (FAfter 0) 0%N (init_fs [(1%N, B"aa")])).
  assert (Hfresh : forall n, init_fs [(1%N, B"aa")] (PTemp n) = None /\ init_fs [(1%N, B"aa")] (PBackup n) = None)
    by (intros n; split; reflexivity).
  specialize (H Hfresh). cbn in H. destruct (H eq_refl) as [H0 _]. discriminate.
Qed.
Print Assumptions C03_full_refuted.

(* (3) M-META: an operation that answers an error — precondition failed, no such bucket/key/upload, invalid part,
   part order, write offset, a violated unique index, … — returns the state it was given (only the model's
   op-index clock is set), for ALL states, histories and operations *)
Theorem C03_meta_error_no_trace : forall i hist s o,
  is_err (snd (step i hist s o)) = true -> fst (step i hist s o) = with_ids s i.
Proof. exact step_err_no_trace. Qed.
Print Assumptions C03_meta_error_no_trace.

(* non-vacuity: a three-step transaction over an existing part fails at the commit and is fully undone; the same
   transaction commits without a fault *)
Example C03_ex_rollback :
  let '(ok, db, fs) := run_tx FCommit [SDb (fun _ => 5%N); SPut 2%N B"bb"; SDel 1%N] 0%N (init_fs [(1%N, B"aa")]) in
  ok = false /\ db = 0%N /\ fs (PFinal 1%N) = Some B"aa" /\ fs (PFinal 2%N) = None.
Proof. vm_compute. repeat split. Qed.
Example C03_ex_commit :
  let '(ok, db, fs) := run_tx FNone [SDb (fun _ => 5%N); SPut 2%N B"bb"; SDel 1%N] 0%N (init_fs [(1%N, B"aa")]) in
  ok = true /\ db = 5%N /\ fs (PFinal 1%N) = None /\ fs (PFinal 2%N) = Some B"bb" /\ fs (PBackup 2) = None.
Proof. vm_compute. repeat split. Qed.
(* regression: the witnesses of the former rollback-order defect are now undone completely *)
Example C03_ex_put_then_delete_same_id :
  let '(ok, db, fs) := run_tx FCommit [SPut 1%N B"bb"; SDel 1%N] 0%N (fun _ => None) in
  ok = false /\ fs (PFinal 1%N) = None /\ fs (PTemp 0) = None /\ fs (PBackup 1) = None.
Proof. vm_compute. repeat split. Qed.
Example C03_ex_delete_then_put_same_id :
  let '(ok, db, fs) := run_tx FCommit [SDel 1%N; SPut 1%N B"bb"] 0%N (init_fs [(1%N, B"aa")]) in
  ok = false /\ fs (PFinal 1%N) = Some B"aa" /\ fs (PBackup 0) = None /\ fs (PTemp 1) = None.
Proof. vm_compute. repeat split. Qed.
Example C03_ex_meta_error : exists s,
  step 1 [ROk] (fst (run [OMb B"b"])) (OPut B"nobucket" B"k" B"x" CRNone) = (s, RErr NoSuchBucket).
Proof. eexists. vm_compute. reflexivity. Qed.
