(* Properties/C01.v — Acknowledged object writes are read back exactly (M-META, Model/Meta.v).
   Statements + exact-lemma proofs + Print Assumptions only. *)
From Verif Require Import Bytes Codec Md5 Meta MetaBasics MetaWitness.
From Verif Require Import MetaPartsDefs MetaParts MetaPartsOps MetaPartsOwned.
From Verif Require Import MetaRows1 MetaRows2 MetaRows3 MetaRows4 MetaRows5 MetaRows6 MetaRows7 MetaRows8 MetaRows9 MetaRows10.
From Verif Require Import MetaRows11 MetaRows12 MetaRows13 MetaRows14.

(* every reachable state satisfies the database's unique indexes: at most one completed is_latest row per
   (bucket,key), version ids unique per key, part sequence numbers unique per object — for ALL histories *)
Theorem C01_reachable_unique_indexes : forall ops,
  unique_ok (fst (run ops)) = true /\ parts_unique_ok (fst (run ops)) = true.
Proof. exact run_uniq. Qed.
Print Assumptions C01_reachable_unique_indexes.

(* read operations never change the state *)
Theorem C01_reads_pure : forall i hist s o,
  match o with OGet _ _ _ | OHead _ _ _ | OLsv _ | OLs _ => True | _ => False end ->
  fst (step i hist s o) = with_ids s i.
Proof. exact reads_pure. Qed.
Print Assumptions C01_reads_pure.

(* bucket deletion succeeds only for buckets holding no objects, versions, delete markers or pending uploads *)
Theorem C01_delete_bucket_ok_iff_no_rows : forall s b,
  snd (op_rb s b) = ROk <->
  (exists bk, find_bucket s b = Some bk) /\ forall r, In r (objs s) -> o_bucket r <> b.
Proof. exact rb_ok_iff. Qed.
Print Assumptions C01_delete_bucket_ok_iff_no_rows.

(* non-vacuity / regression examples evaluated on the model: an empty object is read back (fix 5621e3b),
   an append after a multipart completion extends the object (fix 8a28fc6) *)
Example C01_ex_empty_object : exists lm,
  snd (run [OMb wb; OPut wb wk [] CRNone; OGet wb wk VRNone]) =
  [ROk; RPut VNull (mk_md5 []); RObj VNull (mk_md5 []) 0 lm None (Some [])].
Proof. eexists. vm_compute. reflexivity. Qed.
Example C01_ex_append_after_multipart : exists lm,
  nth_error (snd (run [OMb wb; OCmu wb wk; OUp wb wk 1 1 cA; OUp wb wk 1 2 cB; OCpl wb wk 1 None CRNone;
                       OApp wb wk cC (Some 16%Z); OGet wb wk VRNone])) 6 =
  Some (RObj VNull (mk_multi [cA; cB; cC]) 24 lm None (Some (cA ++ cB ++ cC))).
Proof. eexists. vm_compute. reflexivity. Qed.

(* ================= row-level theorems (Proofs/MetaRows1..9) ================= *)

(* INVARIANT: row ids are unique and below the id counter, and the unique indexes hold; every operation
   preserves it from ANY state … *)
Theorem C01_step_preserves_row_invariant : forall i hist s o,
  (NoDup (map o_id (objs s)) /\ (forall x, In x (objs s) -> (o_id x < next_id s)%N)) /\
  (unique_ok s = true /\ parts_unique_ok s = true) ->
  (NoDup (map o_id (objs (fst (step i hist s o)))) /\
   (forall x, In x (objs (fst (step i hist s o))) -> (o_id x < next_id (fst (step i hist s o)))%N)) /\
  (unique_ok (fst (step i hist s o)) = true /\ parts_unique_ok (fst (step i hist s o)) = true).
Proof. exact step_inv1. Qed.
Print Assumptions C01_step_preserves_row_invariant.

(* … hence it holds after every history *)
Theorem C01_reachable_row_invariant : forall ops,
  (NoDup (map o_id (objs (fst (run ops)))) /\
   (forall x, In x (objs (fst (run ops))) -> (o_id x < next_id (fst (run ops)))%N)) /\
  (unique_ok (fst (run ops)) = true /\ parts_unique_ok (fst (run ops)) = true).
Proof. exact run_inv1. Qed.
Print Assumptions C01_reachable_row_invariant.

(* READ-YOUR-WRITE, PutObject, from ANY state: an acknowledged put (version id v, ETag e) is what HEAD by key
   and HEAD by that version id return, with the MD5 ETag and the size of the body *)
Theorem C01_put_read_your_write : forall i hist s b k c cr s' v e,
  step i hist s (OPut b k c cr) = (s', RPut v e) ->
  e = mk_md5 c /\ exists lm,
  op_head s' b k None = RObj v e (zlen c) lm None None /\
  op_head s' b k (Some v) = RObj v e (zlen c) lm None None.
Proof. exact put_read_your_write. Qed.
Print Assumptions C01_put_read_your_write.

Theorem C01_put_read_your_write_history : forall ops b k c cr s' rs v e,
  run (ops ++ [OPut b k c cr]) = (s', rs ++ [RPut v e]) ->
  e = mk_md5 c /\ exists lm,
  op_head s' b k None = RObj v e (zlen c) lm None None /\
  op_head s' b k (Some v) = RObj v e (zlen c) lm None None.
Proof. exact run_put_read_your_write. Qed.
Print Assumptions C01_put_read_your_write_history.

(* CopyObject: the destination reads back (by key and by the returned version id) with the ETag, size and
   content type that HEAD of the source reported before the copy *)
Theorem C01_copy_read_your_write : forall i hist s sb sk vr db dk s' v e,
  step i hist s (OCp sb sk vr db dk) = (s', RPut v e) ->
  exists sv sz slm ct lm,
  op_head s sb sk (resolve_vref vr) = RObj sv e sz slm ct None /\
  op_head s' db dk None = RObj v e sz lm ct None /\
  op_head s' db dk (Some v) = RObj v e sz lm ct None.
Proof. exact copy_read_your_write. Qed.
Print Assumptions C01_copy_read_your_write.

Theorem C01_copy_read_your_write_history : forall ops sb sk vr db dk s' rs v e,
  run (ops ++ [OCp sb sk vr db dk]) = (s', rs ++ [RPut v e]) ->
  exists sv sz slm ct lm,
  op_head (fst (run ops)) sb sk (resolve_vref vr) = RObj sv e sz slm ct None /\
  op_head s' db dk None = RObj v e sz lm ct None /\
  op_head s' db dk (Some v) = RObj v e sz lm ct None.
Proof. exact run_copy_read_your_write. Qed.
Print Assumptions C01_copy_read_your_write_history.

(* AppendObject: the acknowledged ETag and total size are what HEAD by key returns *)
Theorem C01_append_read_your_write : forall i hist s b k c off s' e sz,
  step i hist s (OApp b k c off) = (s', RAppend e sz) ->
  exists v lm ct, op_head s' b k None = RObj v e sz lm ct None.
Proof. exact append_read_your_write. Qed.
Print Assumptions C01_append_read_your_write.

Theorem C01_append_read_your_write_history : forall ops b k c off s' rs e sz,
  run (ops ++ [OApp b k c off]) = (s', rs ++ [RAppend e sz]) ->
  exists v lm ct, op_head s' b k None = RObj v e sz lm ct None.
Proof. exact run_append_read_your_write. Qed.
Print Assumptions C01_append_read_your_write_history.

(* CompleteMultipartUpload, from any state with unique row ids: the acknowledged version id and multipart ETag
   are what HEAD by key and HEAD by that version id return *)
Theorem C01_complete_read_your_write : forall i hist s b k u m cr s' v e,
  NoDup (map o_id (objs s)) -> (forall x, In x (objs s) -> (o_id x < next_id s)%N) ->
  step i hist s (OCpl b k u m cr) = (s', RPut v e) ->
  exists sz lm ct,
  op_head s' b k None = RObj v e sz lm ct None /\ op_head s' b k (Some v) = RObj v e sz lm ct None.
Proof. exact complete_read_your_write. Qed.
Print Assumptions C01_complete_read_your_write.

Theorem C01_complete_read_your_write_history : forall ops b k u m cr s' rs v e,
  run (ops ++ [OCpl b k u m cr]) = (s', rs ++ [RPut v e]) ->
  exists sz lm ct,
  op_head s' b k None = RObj v e sz lm ct None /\ op_head s' b k (Some v) = RObj v e sz lm ct None.
Proof. exact run_complete_read_your_write. Qed.
Print Assumptions C01_complete_read_your_write_history.

(* FRAME: an operation not addressed to (b,k) — any bucket operation, any read, any write/delete/multipart
   call on another key, a copy to another destination — leaves the rows of (b,k) (in table order), hence what
   lookups by key / version id / upload id find, and the part rows of those rows, unchanged *)
Theorem C01_frame : forall i hist s o b k,
  NoDup (map o_id (objs s)) -> (forall x, In x (objs s) -> (o_id x < next_id s)%N) ->
  match o with
  | OPut b' k' _ _ | ODel b' k' _ _ | OCmu b' k' | OUp b' k' _ _ _ | OCpl b' k' _ _ _ | OAbt b' k' _
  | OApp b' k' _ _ => ~ (b' = b /\ k' = k)
  | OCp _ _ _ db dk => ~ (db = b /\ dk = k)
  | _ => True
  end ->
  filter (on_key b k) (objs (fst (step i hist s o))) = filter (on_key b k) (objs s) /\
  find_latest (fst (step i hist s o)) b k = find_latest s b k /\
  (forall v, find_version (fst (step i hist s o)) b k v = find_version s b k v) /\
  (forall u, find_upload (fst (step i hist s o)) b k u = find_upload s b k u) /\
  (forall x, In x (objs s) -> on_key b k x = true ->
             obj_parts (fst (step i hist s o)) (o_id x) = obj_parts s (o_id x)).
Proof. exact step_frame_full. Qed.
Print Assumptions C01_frame.

Theorem C01_frame_history : forall ops mid b k,
  Forall (fun o => match o with
    | OPut b' k' _ _ | ODel b' k' _ _ | OCmu b' k' | OUp b' k' _ _ _ | OCpl b' k' _ _ _ | OAbt b' k' _
    | OApp b' k' _ _ => ~ (b' = b /\ k' = k)
    | OCp _ _ _ db dk => ~ (db = b /\ dk = k)
    | _ => True
    end) mid ->
  filter (on_key b k) (objs (fst (run (ops ++ mid)))) = filter (on_key b k) (objs (fst (run ops))) /\
  find_latest (fst (run (ops ++ mid))) b k = find_latest (fst (run ops)) b k /\
  (forall v, find_version (fst (run (ops ++ mid))) b k v = find_version (fst (run ops)) b k v) /\
  (forall x, In x (objs (fst (run ops))) -> on_key b k x = true ->
             obj_parts (fst (run (ops ++ mid))) (o_id x) = obj_parts (fst (run ops)) (o_id x)).
Proof. exact run_frame_full. Qed.
Print Assumptions C01_frame_history.

(* the hypotheses are satisfiable: acknowledged put / copy / append on a non-trivial history *)
Example C01_ex_put_ack : exists s',
  run ([OMb wb; OVer wb VEnabled; OPut wb wk cA CRNone] ++ [OPut wb wk cB CRNone]) =
  (s', [ROk; ROk; RPut (VId 2) (mk_md5 cA)] ++ [RPut (VId 3) (mk_md5 cB)]).
Proof. eexists. vm_compute. reflexivity. Qed.
Example C01_ex_copy_ack : exists s',
  run ([OMb wb; OPut wb wk cA CRNone] ++ [OCp wb wk VRNone wb B"k2"]) =
  (s', [ROk; RPut VNull (mk_md5 cA)] ++ [RPut VNull (mk_md5 cA)]).
Proof. eexists. vm_compute. reflexivity. Qed.
Example C01_ex_append_ack : exists s',
  run ([OMb wb; OPut wb wk cA CRNone] ++ [OApp wb wk cB None]) =
  (s', [ROk; RPut VNull (mk_md5 cA)] ++ [RAppend (mk_multi [cA; cB]) 16%Z]).
Proof. eexists. vm_compute. reflexivity. Qed.
Example C01_ex_complete_ack : exists s',
  run ([OMb wb; OVer wb VEnabled; OCmu wb wk; OUp wb wk 2 1 cA; OUp wb wk 2 2 cB] ++ [OCpl wb wk 2 None CRNone]) =
  (s', [ROk; ROk; RUpload 2; REtag (mk_md5 cA); REtag (mk_md5 cB)] ++ [RPut (VId 5) (mk_multi [cA; cB])]).
Proof. eexists. vm_compute. reflexivity. Qed.

(* ================= BODY level (Proofs/MetaRows11..14, on top of PartsInv / OInv of Proofs/MetaParts*.v) ============ *)

(* HEADLINE — for every history: after an acknowledged PutObject of bytes c to (b,k), followed by ANY operations
   none of which is addressed to (b,k) (other keys and buckets, reads, bucket operations, copies elsewhere), a
   GetObject of the key returns exactly c — with the acknowledged version id, the MD5 ETag and the size of c. *)
Theorem C01_get_returns_last_put : forall ops b k c cr mid s1 rs v e,
  run (ops ++ [OPut b k c cr]) = (s1, rs ++ [RPut v e]) ->
  Forall (fun o => match o with
    | OPut b' k' _ _ | ODel b' k' _ _ | OCmu b' k' | OUp b' k' _ _ _ | OCpl b' k' _ _ _ | OAbt b' k' _
    | OApp b' k' _ _ => ~ (b' = b /\ k' = k)
    | OCp _ _ _ db dk => ~ (db = b /\ dk = k)
    | _ => True
    end) mid ->
  exists lm,
  snd (run ((ops ++ [OPut b k c cr]) ++ mid ++ [OGet b k VRNone])) =
  snd (run ((ops ++ [OPut b k c cr]) ++ mid)) ++ [RObj v (mk_md5 c) (zlen c) lm None (Some c)].
Proof. exact run_put_then_get. Qed.
Print Assumptions C01_get_returns_last_put.

(* … after an acknowledged CopyObject: exactly the bytes (and ETag, size, content type) that GET of the source
   returned before the copy *)
Theorem C01_get_returns_last_copy : forall ops sb sk vr db dk mid s1 rs v e,
  run (ops ++ [OCp sb sk vr db dk]) = (s1, rs ++ [RPut v e]) ->
  Forall (fun o => match o with
    | OPut b' k' _ _ | ODel b' k' _ _ | OCmu b' k' | OUp b' k' _ _ _ | OCpl b' k' _ _ _ | OAbt b' k' _
    | OApp b' k' _ _ => ~ (b' = db /\ k' = dk)
    | OCp _ _ _ db' dk' => ~ (db' = db /\ dk' = dk)
    | _ => True
    end) mid ->
  exists sv sz slm ct lm body,
  op_get (fst (run ops)) sb sk (resolve_vref vr) = RObj sv e sz slm ct (Some body) /\
  snd (run ((ops ++ [OCp sb sk vr db dk]) ++ mid ++ [OGet db dk VRNone])) =
  snd (run ((ops ++ [OCp sb sk vr db dk]) ++ mid)) ++ [RObj v e sz lm ct (Some body)].
Proof. exact run_copy_then_get. Qed.
Print Assumptions C01_get_returns_last_copy.

(* … after an acknowledged AppendObject: the bytes GET of the key returned before the append (nothing, if the key
   was absent or a delete marker) followed by the appended bytes, with the acknowledged ETag and total size *)
Theorem C01_get_returns_last_append : forall ops b k c off mid s1 rs e sz,
  run (ops ++ [OApp b k c off]) = (s1, rs ++ [RAppend e sz]) ->
  Forall (fun o => match o with
    | OPut b' k' _ _ | ODel b' k' _ _ | OCmu b' k' | OUp b' k' _ _ _ | OCpl b' k' _ _ _ | OAbt b' k' _
    | OApp b' k' _ _ => ~ (b' = b /\ k' = k)
    | OCp _ _ _ db dk => ~ (db = b /\ dk = k)
    | _ => True
    end) mid ->
  exists v lm ct,
  snd (run ((ops ++ [OApp b k c off]) ++ mid ++ [OGet b k VRNone])) =
  snd (run ((ops ++ [OApp b k c off]) ++ mid)) ++
  [RObj v e sz lm ct
     (Some (match op_get (fst (run ops)) b k None with RObj _ _ _ _ _ (Some p) => p | _ => [] end ++ c))].
Proof. exact run_append_then_get. Qed.
Print Assumptions C01_get_returns_last_append.

(* … after an acknowledged CompleteMultipartUpload: the concatenation of the upload's recorded part contents in
   part-number order, and the ETag is the multipart ETag of exactly those parts *)
Theorem C01_get_returns_last_complete : forall ops b k u m cr mid s1 rs v e,
  run (ops ++ [OCpl b k u m cr]) = (s1, rs ++ [RPut v e]) ->
  Forall (fun o => match o with
    | OPut b' k' _ _ | ODel b' k' _ _ | OCmu b' k' | OUp b' k' _ _ _ | OCpl b' k' _ _ _ | OAbt b' k' _
    | OApp b' k' _ _ => ~ (b' = b /\ k' = k)
    | OCp _ _ _ db dk => ~ (db = b /\ dk = k)
    | _ => True
    end) mid ->
  exists up sz lm ct,
  find_upload (fst (run ops)) b k u = Some up /\
  e = mk_multi (map p_content (sort_parts (obj_parts (fst (run ops)) (o_id up)))) /\
  snd (run ((ops ++ [OCpl b k u m cr]) ++ mid ++ [OGet b k VRNone])) =
  snd (run ((ops ++ [OCpl b k u m cr]) ++ mid)) ++
  [RObj v e sz lm ct (Some (concat (map p_content (sort_parts (obj_parts (fst (run ops)) (o_id up))))))].
Proof. exact run_complete_then_get. Qed.
Print Assumptions C01_get_returns_last_complete.

(* the step-level statements behind the headline, from ANY state satisfying the invariants (PartsInv: registry
   exact, referenced parts stored, dedup sound; OInv: part rows owned by existing non-marker rows with old ids) *)
Print PartsInv.
Print OInv.
Theorem C01_put_get_your_write : forall i hist s b k c cr s' v e,
  PartsInv s -> OInv s -> step i hist s (OPut b k c cr) = (s', RPut v e) ->
  exists lm,
  op_get s' b k None = RObj v (mk_md5 c) (zlen c) lm None (Some c) /\
  op_get s' b k (Some v) = RObj v (mk_md5 c) (zlen c) lm None (Some c).
Proof. exact put_get_your_write. Qed.
Print Assumptions C01_put_get_your_write.

Theorem C01_copy_get_your_write : forall i hist s sb sk vr db dk s' v e,
  PartsInv s -> OInv s -> step i hist s (OCp sb sk vr db dk) = (s', RPut v e) ->
  exists sv sz slm ct lm body,
  op_get s sb sk (resolve_vref vr) = RObj sv e sz slm ct (Some body) /\
  op_get s' db dk None = RObj v e sz lm ct (Some body) /\
  op_get s' db dk (Some v) = RObj v e sz lm ct (Some body).
Proof. exact copy_get_your_write. Qed.
Print Assumptions C01_copy_get_your_write.

Theorem C01_append_get_your_write : forall i hist s b k c off s' e sz,
  PartsInv s -> OInv s -> step i hist s (OApp b k c off) = (s', RAppend e sz) ->
  exists v lm ct,
  op_get s' b k None =
  RObj v e sz lm ct (Some (match op_get s b k None with RObj _ _ _ _ _ (Some p) => p | _ => [] end ++ c)).
Proof. exact append_get_your_write. Qed.
Print Assumptions C01_append_get_your_write.

Theorem C01_complete_get_your_write : forall i hist s b k u m cr s' v e,
  PartsInv s -> NoDup (map o_id (objs s)) -> (forall x, In x (objs s) -> (o_id x < next_id s)%N) ->
  step i hist s (OCpl b k u m cr) = (s', RPut v e) ->
  exists up sz lm ct,
    find_upload s b k u = Some up /\
    e = mk_multi (map p_content (sort_parts (obj_parts s (o_id up)))) /\
    op_get s' b k None = RObj v e sz lm ct (Some (concat (map p_content (sort_parts (obj_parts s (o_id up)))))) /\
    op_get s' b k (Some v) = RObj v e sz lm ct (Some (concat (map p_content (sort_parts (obj_parts s (o_id up)))))).
Proof. exact complete_get_your_write. Qed.
Print Assumptions C01_complete_get_your_write.

(* a GET (by key or by version id) that succeeded keeps returning the same answer, bytes included, through any
   continuation not addressed to that key *)
Theorem C01_get_stable_history : forall ops mid b k v,
  Forall (fun o => match o with
    | OPut b' k' _ _ | ODel b' k' _ _ | OCmu b' k' | OUp b' k' _ _ _ | OCpl b' k' _ _ _ | OAbt b' k' _
    | OApp b' k' _ _ => ~ (b' = b /\ k' = k)
    | OCp _ _ _ db dk => ~ (db = b /\ dk = k)
    | _ => True
    end) mid ->
  forall v' e sz lm ct bd,
  op_get (fst (run ops)) b k v = RObj v' e sz lm ct bd ->
  op_get (fst (run (ops ++ mid))) b k v = RObj v' e sz lm ct bd.
Proof. exact run_gets_stable. Qed.
Print Assumptions C01_get_stable_history.

(* NoSuchBucket / NoSuchKey EXACTLY when the bucket / the current version of the key is absent (any state) *)
Theorem C01_get_nosuchbucket_iff : forall s b k v,
  op_get s b k v = RErr NoSuchBucket <-> forall x, In x (buckets s) -> b_name x <> b.
Proof. exact get_nosuchbucket_iff. Qed.
Print Assumptions C01_get_nosuchbucket_iff.
Theorem C01_get_nosuchkey_iff : forall s b k,
  op_get s b k None = RErr NoSuchKey <->
  (exists x, In x (buckets s) /\ b_name x = b) /\
  forall r, In r (objs s) -> ~ (on_key b k r = true /\ completed r = true /\ o_latest r = true).
Proof. exact get_nosuchkey_iff. Qed.
Print Assumptions C01_get_nosuchkey_iff.
Theorem C01_head_nosuchbucket_iff : forall s b k v,
  op_head s b k v = RErr NoSuchBucket <-> forall x, In x (buckets s) -> b_name x <> b.
Proof. exact head_nosuchbucket_iff. Qed.
Print Assumptions C01_head_nosuchbucket_iff.
Theorem C01_head_nosuchkey_iff : forall s b k,
  op_head s b k None = RErr NoSuchKey <->
  (exists x, In x (buckets s) /\ b_name x = b) /\
  forall r, In r (objs s) -> ~ (on_key b k r = true /\ completed r = true /\ o_latest r = true).
Proof. exact head_nosuchkey_iff. Qed.
Print Assumptions C01_head_nosuchkey_iff.

(* the headline on a concrete history: put, traffic on other keys and buckets, get *)
Example C01_ex_headline :
  snd (run (([OMb wb; OVer wb VEnabled] ++ [OPut wb wk cA CRNone]) ++
            [OPut wb B"k2" cB CRNone; OMb B"other"; OCp wb wk VRNone B"other" wk; ODel wb B"k2" VRNone CRNone;
             OVer wb VSuspended] ++ [OGet wb wk VRNone])) =
  [ROk; ROk; RPut (VId 2) (mk_md5 cA); RPut (VId 3) (mk_md5 cB); ROk; RPut VNull (mk_md5 cA);
   RDel (Some (VId 6)) true; ROk; RObj (VId 2) (mk_md5 cA) 8 2000 None (Some cA)].
Proof. vm_compute. reflexivity. Qed.
