(* Properties/C01.v — Acknowledged object writes are read back exactly (M-META, Model/Meta.v).
   Statements + exact-lemma proofs + Print Assumptions only. *)
From Verif Require Import Bytes Codec Md5 Meta MetaBasics MetaWitness.

(* every reachable state satisfies the database's unique indexes: at most one completed is_latest row per
   (bucket,key), version ids unique per key, part sequence numbers unique per object — for ALL histories *)
Theorem C01_reachable_unique_indexes : forall ops,
  unique_ok (fst (run ops)) = true /\ parts_unique_ok (fst (run ops)) = true.
Proof. exact run_uniq. Qed.
Print Assumptions C01_reachable_unique_indexes.

(* read operations never change the state *)
Theorem C01_reads_pure : forall i hist s o,
  match o with OGet _ _ _ | OHead _ _ _ | OLsv _ | OLs _ => True | _ => False end ->
  fst (step i hist s o) = with_ids s i.
Proof. exact reads_pure. Qed.
Print Assumptions C01_reads_pure.

(* bucket deletion succeeds only for buckets holding no objects, versions, delete markers or pending uploads *)
Theorem C01_delete_bucket_ok_iff_no_rows : forall s b,
  snd (op_rb s b) = ROk <->
  (exists bk, find_bucket s b = Some bk) /\ forall r, In r (objs s) -> o_bucket r <> b.
Proof. exact rb_ok_iff. Qed.
Print Assumptions C01_delete_bucket_ok_iff_no_rows.

(* non-vacuity / regression examples evaluated on the model: an empty object is read back (fix 5621e3b),
   an append after a multipart completion extends the object (fix 8a28fc6) *)
Example C01_ex_empty_object : exists lm,
  snd (run [OMb wb; OPut wb wk [] CRNone; OGet wb wk VRNone]) =
  [ROk; RPut VNull (mk_md5 []); RObj VNull (mk_md5 []) 0 lm None (Some [])].
Proof. eexists. vm_compute. reflexivity. Qed.
Example C01_ex_append_after_multipart : exists lm,
  nth_error (snd (run [OMb wb; OCmu wb wk; OUp wb wk 1 1 cA; OUp wb wk 1 2 cB; OCpl wb wk 1 None CRNone;
                       OApp wb wk cC (Some 16%Z); OGet wb wk VRNone])) 6 =
  Some (RObj VNull (mk_multi [cA; cB; cC]) 24 lm None (Some (cA ++ cB ++ cC))).
Proof. eexists. vm_compute. reflexivity. Qed.
