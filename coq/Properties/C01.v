(* Properties/C01.v — Acknowledged object writes are read back exactly (M-META, Model/Meta.v).
   Statements + exact-lemma proofs + Print Assumptions only. *)
From Verif Require Import Bytes Codec Md5 Meta MetaBasics MetaWitness.
From Verif Require Import MetaRows1 MetaRows2 MetaRows3 MetaRows4 MetaRows5 MetaRows6 MetaRows7 MetaRows8 MetaRows9 MetaRows10.

(* every reachable state satisfies the database's unique indexes: at most one completed is_latest row per
   (bucket,key), version ids unique per key, part sequence numbers unique per object — for ALL histories *)
Theorem C01_reachable_unique_indexes : forall ops,
  unique_ok (fst (run ops)) = true /\ parts_unique_ok (fst (run ops)) = true.
Proof. exact run_uniq. Qed.
Print Assumptions C01_reachable_unique_indexes.

(* read operations never change the state *)
Theorem C01_reads_pure : forall i hist s o,
  match o with OGet _ _ _ | OHead _ _ _ | OLsv _ | OLs _ => True | _ => False end ->
  fst (step i hist s o) = with_ids s i.
Proof. exact reads_pure. Qed.
Print Assumptions C01_reads_pure.

(* bucket deletion succeeds only for buckets holding no objects, versions, delete markers or pending uploads *)
Theorem C01_delete_bucket_ok_iff_no_rows : forall s b,
  snd (op_rb s b) = ROk <->
  (exists bk, find_bucket s b = Some bk) /\ forall r, In r (objs s) -> o_bucket r <> b.
Proof. exact rb_ok_iff. Qed.
Print Assumptions C01_delete_bucket_ok_iff_no_rows.

(* non-vacuity / regression examples evaluated on the model: an empty object is read back (fix 5621e3b),
   an append after a multipart completion extends the object (fix 8a28fc6) *)
Example C01_ex_empty_object : exists lm,
  snd (run [OMb wb; OPut wb wk [] CRNone; OGet wb wk VRNone]) =
  [ROk; RPut VNull (mk_md5 []); RObj VNull (mk_md5 []) 0 lm None (Some [])].
Proof. eexists. vm_compute. reflexivity. Qed.
Example C01_ex_append_after_multipart : exists lm,
  nth_error (snd (run [OMb wb; OCmu wb wk; OUp wb wk 1 1 cA; OUp wb wk 1 2 cB; OCpl wb wk 1 None CRNone;
                       OApp wb wk cC (Some 16%Z); OGet wb wk VRNone])) 6 =
  Some (RObj VNull (mk_multi [cA; cB; cC]) 24 lm None (Some (cA ++ cB ++ cC))).
Proof. eexists. vm_compute. reflexivity. Qed.

(* ================= row-level theorems (Proofs/MetaRows1..9) ================= *)

(* INVARIANT: row ids are unique and below the id counter, and the unique indexes hold; every operation
   preserves it from ANY state … *)
Theorem C01_step_preserves_row_invariant : forall i hist s o,
  (NoDup (map o_id (objs s)) /\ (forall x, In x (objs s) -> (o_id x < next_id s)%N)) /\
  (unique_ok s = true /\ parts_unique_ok s = true) ->
  (NoDup (map o_id (objs (fst (step i hist s o)))) /\
   (forall x, In x (objs (fst (step i hist s o))) -> (o_id x < next_id (fst (step i hist s o)))%N)) /\
  (unique_ok (fst (step i hist s o)) = true /\ parts_unique_ok (fst (step i hist s o)) = true).
Proof. exact step_inv1. Qed.
Print Assumptions C01_step_preserves_row_invariant.

(* … hence it holds after every history *)
Theorem C01_reachable_row_invariant : forall ops,
  (NoDup (map o_id (objs (fst (run ops)))) /\
   (forall x, In x (objs (fst (run ops))) -> (o_id x < next_id (fst (run ops)))%N)) /\
  (unique_ok (fst (run ops)) = true /\ parts_unique_ok (fst (run ops)) = true).
Proof. exact run_inv1. Qed.
Print Assumptions C01_reachable_row_invariant.

(* READ-YOUR-WRITE, PutObject, from ANY state: an acknowledged put (version id v, ETag e) is what HEAD by key
   and HEAD by that version id return, with the MD5 ETag and the size of the body *)
Theorem C01_put_read_your_write : forall i hist s b k c cr s' v e,
  step i hist s (OPut b k c cr) = (s', RPut v e) ->
  e = mk_md5 c /\ exists lm,
  op_head s' b k None = RObj v e (zlen c) lm None None /\
  op_head s' b k (Some v) = RObj v e (zlen c) lm None None.
Proof. exact put_read_your_write. Qed.
Print Assumptions C01_put_read_your_write.

Theorem C01_put_read_your_write_history : forall ops b k c cr s' rs v e,
  run (ops ++ [OPut b k c cr]) = (s', rs ++ [RPut v e]) ->
  e = mk_md5 c /\ exists lm,
  op_head s' b k None = RObj v e (zlen c) lm None None /\
  op_head s' b k (Some v) = RObj v e (zlen c) lm None None.
Proof. exact run_put_read_your_write. Qed.
Print Assumptions C01_put_read_your_write_history.

(* CopyObject: the destination reads back (by key and by the returned version id) with the ETag, size and
   content type that HEAD of the source reported before the copy *)
Theorem C01_copy_read_your_write : forall i hist s sb sk vr db dk s' v e,
  step i hist s (OCp sb sk vr db dk) = (s', RPut v e) ->
  exists sv sz slm ct lm,
  op_head s sb sk (resolve_vref vr) = RObj sv e sz slm ct None /\
  op_head s' db dk None = RObj v e sz lm ct None /\
  op_head s' db dk (Some v) = RObj v e sz lm ct None.
Proof. exact copy_read_your_write. Qed.
Print Assumptions C01_copy_read_your_write.

Theorem C01_copy_read_your_write_history : forall ops sb sk vr db dk s' rs v e,
  run (ops ++ [OCp sb sk vr db dk]) = (s', rs ++ [RPut v e]) ->
  exists sv sz slm ct lm,
  op_head (fst (run ops)) sb sk (resolve_vref vr) = RObj sv e sz slm ct None /\
  op_head s' db dk None = RObj v e sz lm ct None /\
  op_head s' db dk (Some v) = RObj v e sz lm ct None.
Proof. exact run_copy_read_your_write. Qed.
Print Assumptions C01_copy_read_your_write_history.

(* AppendObject: the acknowledged ETag and total size are what HEAD by key returns *)
Theorem C01_append_read_your_write : forall i hist s b k c off s' e sz,
  step i hist s (OApp b k c off) = (s', RAppend e sz) ->
  exists v lm ct, op_head s' b k None = RObj v e sz lm ct None.
Proof. exact append_read_your_write. Qed.
Print Assumptions C01_append_read_your_write.

Theorem C01_append_read_your_write_history : forall ops b k c off s' rs e sz,
  run (ops ++ [OApp b k c off]) = (s', rs ++ [RAppend e sz]) ->
  exists v lm ct, op_head s' b k None = RObj v e sz lm ct None.
Proof. exact run_append_read_your_write. Qed.
Print Assumptions C01_append_read_your_write_history.

(* CompleteMultipartUpload, from any state with unique row ids: the acknowledged version id and multipart ETag
   are what HEAD by key and HEAD by that version id return *)
Theorem C01_complete_read_your_write : forall i hist s b k u m cr s' v e,
  NoDup (map o_id (objs s)) -> (forall x, In x (objs s) -> (o_id x < next_id s)%N) ->
  step i hist s (OCpl b k u m cr) = (s', RPut v e) ->
  exists sz lm ct,
  op_head s' b k None = RObj v e sz lm ct None /\ op_head s' b k (Some v) = RObj v e sz lm ct None.
Proof. exact complete_read_your_write. Qed.
Print Assumptions C01_complete_read_your_write.

Theorem C01_complete_read_your_write_history : forall ops b k u m cr s' rs v e,
  run (ops ++ [OCpl b k u m cr]) = (s', rs ++ [RPut v e]) ->
  exists sz lm ct,
  op_head s' b k None = RObj v e sz lm ct None /\ op_head s' b k (Some v) = RObj v e sz lm ct None.
Proof. exact run_complete_read_your_write. Qed.
Print Assumptions C01_complete_read_your_write_history.

(* FRAME: an operation not addressed to (b,k) — any bucket operation, any read, any write/delete/multipart
   call on another key, a copy to another destination — leaves the rows of (b,k) (in table order), hence what
   lookups by key / version id / upload id find, and the part rows of those rows, unchanged *)
Theorem C01_frame : forall i hist s o b k,
  NoDup (map o_id (objs s)) -> (forall x, In x (objs s) -> (o_id x < next_id s)%N) ->
  match o with
  | OPut b' k' _ _ | ODel b' k' _ _ | OCmu b' k' | OUp b' k' _ _ _ | OCpl b' k' _ _ _ | OAbt b' k' _
  | OApp b' k' _ _ => ~ (b' = b /\ k' = k)
  | OCp _ _ _ db dk => ~ (db = b /\ dk = k)
  | _ => True
  end ->
  filter (on_key b k) (objs (fst (step i hist s o))) = filter (on_key b k) (objs s) /\
  find_latest (fst (step i hist s o)) b k = find_latest s b k /\
  (forall v, find_version (fst (step i hist s o)) b k v = find_version s b k v) /\
  (forall u, find_upload (fst (step i hist s o)) b k u = find_upload s b k u) /\
  (forall x, In x (objs s) -> on_key b k x = true ->
             obj_parts (fst (step i hist s o)) (o_id x) = obj_parts s (o_id x)).
Proof. exact step_frame_full. Qed.
Print Assumptions C01_frame.

Theorem C01_frame_history : forall ops mid b k,
  Forall (fun o => match o with
    | OPut b' k' _ _ | ODel b' k' _ _ | OCmu b' k' | OUp b' k' _ _ _ | OCpl b' k' _ _ _ | OAbt b' k' _
    | OApp b' k' _ _ => ~ (b' = b /\ k' = k)
    | OCp _ _ _ db dk => ~ (db = b /\ dk = k)
    | _ => True
    end) mid ->
  filter (on_key b k) (objs (fst (run (ops ++ mid)))) = filter (on_key b k) (objs (fst (run ops))) /\
  find_latest (fst (run (ops ++ mid))) b k = find_latest (fst (run ops)) b k /\
  (forall v, find_version (fst (run (ops ++ mid))) b k v = find_version (fst (run ops)) b k v) /\
  (forall x, In x (objs (fst (run ops))) -> on_key b k x = true ->
             obj_parts (fst (run (ops ++ mid))) (o_id x) = obj_parts (fst (run ops)) (o_id x)).
Proof. exact run_frame_full. Qed.
Print Assumptions C01_frame_history.

(* the hypotheses are satisfiable: acknowledged put / copy / append on a non-trivial history *)
Example C01_ex_put_ack : exists s',
  run ([OMb wb; OVer wb VEnabled; OPut wb wk cA CRNone] ++ [OPut wb wk cB CRNone]) =
  (s', [ROk; ROk; RPut (VId 2) (mk_md5 cA)] ++ [RPut (VId 3) (mk_md5 cB)]).
Proof. eexists. vm_compute. reflexivity. Qed.
Example C01_ex_copy_ack : exists s',
  run ([OMb wb; OPut wb wk cA CRNone] ++ [OCp wb wk VRNone wb B"k2"]) =
  (s', [ROk; RPut VNull (mk_md5 cA)] ++ [RPut VNull (mk_md5 cA)]).
Proof. eexists. vm_compute. reflexivity. Qed.
Example C01_ex_append_ack : exists s',
  run ([OMb wb; OPut wb wk cA CRNone] ++ [OApp wb wk cB None]) =
  (s', [ROk; RPut VNull (mk_md5 cA)] ++ [RAppend (mk_multi [cA; cB]) 16%Z]).
Proof. eexists. vm_compute. reflexivity. Qed.
Example C01_ex_complete_ack : exists s',
  run ([OMb wb; OVer wb VEnabled; OCmu wb wk; OUp wb wk 2 1 cA; OUp wb wk 2 2 cB] ++ [OCpl wb wk 2 None CRNone]) =
  (s', [ROk; ROk; RUpload 2; REtag (mk_md5 cA); REtag (mk_md5 cB)] ++ [RPut (VId 5) (mk_multi [cA; cB])]).
Proof. eexists. vm_compute. reflexivity. Qed.
