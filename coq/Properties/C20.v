(* Properties/C20.v — the object-cache middleware is transparent.
   Model: Model/ObjCache.v ([step] = one storage.Storage call through the middleware over the inner
   storage; [inner_head]/[inner_get] = what the inner storage answers at that moment).
   Only statements, [exact]s to Proofs/ObjCacheProofs.v, witnesses and Print Assumptions. *)
From Verif Require Import Bytes Codec ObjCache ObjCacheProofs.
Local Open Scope N_scope.

(* the region in which transparency holds: everything except GETs whose reader stays open across
   other calls (the cache fill completes when the reader is drained, whatever happened to the key in
   between).  TransitionObjectStorageClass is in scope since /repo c25178c (the middleware now
   overrides it and invalidates). *)
Definition C20_in_scope (o : op) : bool :=
  match o with
  | OGetOpen _ _ _ | OGetFinish _ | OGetAbort _ => false
  | _ => true
  end.

(* PROPERTY (sequential clause), strongest true form: after ANY history of in-scope calls (puts with
   conditions/tags/metadata/class, appends, copies, deletes, bulk deletes, tagging changes, storage-class
   transitions, versioning changes (Enabled / Suspended), deletes / bulk deletes / tagging / transitions that
   name a version id (e.g. removing the CURRENT version by its id, which promotes another one), puts and appends
   that the inner storage rejects after or while consuming the body (precondition, checksum mismatch, reader
   error, missing bucket), reads by version id ("null" included) and ranged reads, multipart
   create/part/complete/abort, heads and gets, in both the unversioned and the versioned bucket), every
   HeadObject and every GetObject through the middleware — with any If-Match / If-None-Match — returns
   exactly what the inner storage returns at that moment (same object record incl. every attribute,
   same body, same error).  Reads inside the history are covered because every prefix is a history. *)
Theorem C20_transparent_partial : forall ops,
  forallb C20_in_scope ops = true ->
  forall k im inm, bucket_ok (fst k) = true ->
  let s := fst (run st0 ops) in
  snd (step s (OHead k im inm)) =
    match inner_head (s_in s) k im inm with RObj o => RHead o | RErr e => RStatus e end /\
  snd (step s (OGet k im inm)) =
    match inner_get (s_in s) k im inm with GObj o b => RGet o b | GErr e => RStatus e end.
Proof. exact transparent_partial. Qed.
Print Assumptions C20_transparent_partial.

(* reads that name a version id are answered by the inner storage (the cache is bypassed), in every
   state whatsoever *)
Theorem C20_versioned_reads_bypass : forall s k vr im inm, bucket_ok (fst k) = true ->
  step s (OHeadV k vr im inm) =
    (s, match inner_head_v (s_in s) k vr im inm with RObj o => RHead o | RErr e => RStatus e end) /\
  step s (OGetV k vr im inm) =
    (s, match inner_get_v (s_in s) k vr im inm with GObj o b => RGet o b | GErr e => RStatus e end).
Proof. intros s k vr im inm H. cbn [step]. rewrite H. split; reflexivity. Qed.
Print Assumptions C20_versioned_reads_bypass.

(* ranged reads, with or without a version id, are answered by the inner storage in every state *)
Theorem C20_ranged_reads_bypass : forall s k vr rs re, bucket_ok (fst k) = true ->
  step s (OGetR k vr rs re) =
    (s, match inner_get_range (s_in s) k vr rs re with GRange o st ln => RRange o st ln | GRErr e => RStatus e end).
Proof. intros s k vr rs re H. cbn [step]. rewrite H. reflexivity. Qed.
Print Assumptions C20_ranged_reads_bypass.

(* REJECTED WRITES.  A write call (put, put with a bad checksum / failing reader, append, copy,
   multipart completion) that returns an error leaves the inner storage exactly as it was ... *)
Definition C20_is_write (o : op) : bool :=
  match o with
  | OPut _ _ _ _ _ _ _ | OPutBad _ _ _ | OAppend _ _ _ | OAppendBad _ _ _
  | OCopy _ _ _ _ _ _ _ _ | OMComplete _ => true
  | _ => false
  end.
Theorem C20_rejected_write_store_unchanged : forall s o e,
  C20_is_write o = true -> snd (step s o) = RStatus e -> e <> Ok -> s_in (fst (step s o)) = s_in s.
Proof. exact rejected_write_store_unchanged. Qed.
Print Assumptions C20_rejected_write_store_unchanged.

(* ... and, after any in-scope history (so with any head / body entries warm), every HeadObject and
   GetObject through the middleware after the rejected write returns what the inner storage held
   BEFORE the call: the still-stored object, never the rejected bytes nor a head/body mix *)
Theorem C20_rejected_write_shows_stored : forall ops o e,
  forallb C20_in_scope ops = true -> C20_is_write o = true ->
  let s := fst (run st0 ops) in
  snd (step s o) = RStatus e -> e <> Ok ->
  let s' := fst (step s o) in
  forall k im inm, bucket_ok (fst k) = true ->
  snd (step s' (OHead k im inm)) =
    match inner_head (s_in s) k im inm with RObj o => RHead o | RErr e => RStatus e end /\
  snd (step s' (OGet k im inm)) =
    match inner_get (s_in s) k im inm with GObj o b => RGet o b | GErr e => RStatus e end.
Proof. exact rejected_write_shows_stored. Qed.
Print Assumptions C20_rejected_write_shows_stored.

(* witnesses: a warm key, then four rejected puts (create-only, If-Match mismatch, bad digest, reader
   error) — all reads keep showing content 3; and a null version that is not current (written while
   unversioned, then Enabled + newer put): reads by "null" return it without disturbing the key-only entry *)
Example C20_ex_rejected :
  map show_res (snd (run st0
    [OPut (0, 0) 3 1 1 1 0 PNone; OGet (0, 0) CNone CNone;
     OPut (0, 0) 4 0 0 0 0 PIfNoneStar; OGet (0, 0) CNone CNone;
     OPut (0, 0) 4 0 0 0 0 (PIfMatch (CTag (ES 4))); OHead (0, 0) CNone CNone;
     OPutBad (0, 0) 4 2; OGet (0, 0) CNone CNone; OPutBad (0, 0) 4 4; OGet (0, 0) CNone CNone;
     OGetR (0, 0) VRNone (Some 1) (Some 4); OPut (2, 0) 4 0 0 0 0 PNone])) =
  [B"ok"; B"ok=1:1:1:0:s:3"; B"PreconditionFailed"; B"ok=1:1:1:0:s:3"; B"PreconditionFailed"; B"ok=1:1:1:0:s";
   B"BadDigest"; B"ok=1:1:1:0:s:3"; B"ReadErr"; B"ok=1:1:1:0:s:3"; B"ok=1:1:1:0:s:r1.3"; B"NoSuchBucket"].
Proof. vm_compute. reflexivity. Qed.
Example C20_ex_null_not_current :
  map show_res (snd (run st0
    [OPut (0, 0) 3 0 0 0 0 PNone; OGet (0, 0) CNone CNone; OVers 0 VEnabled; OPut (0, 0) 4 0 0 0 0 PNone;
     OGet (0, 0) CNone CNone; OHeadV (0, 0) VRNull CNone CNone; OGetV (0, 0) VRNull CNone CNone;
     OGetR (0, 0) VRNull (Some 0) (Some 2); OGet (0, 0) CNone CNone; OHead (0, 0) CNone CNone])) =
  [B"ok"; B"ok=0:0:0:0:s:3"; B"ok"; B"ok"; B"ok=0:0:0:0:s:4"; B"ok=0:0:0:0:s"; B"ok=0:0:0:0:s:3";
   B"ok=0:0:0:0:s:r0.2"; B"ok=0:0:0:0:s:4"; B"ok=0:0:0:0:s"].
Proof. vm_compute. reflexivity. Qed.

(* the scenario of the follow-up round: two versions, the current one cached by a GET, then deleted
   BY ITS VERSION ID: the previous version becomes current and the middleware answers with it *)
Definition w_delete_current_by_id : list op :=
  [OPut (1, 0) 3 0 0 0 0 PNone; OPut (1, 0) 4 1 1 1 0 PNone; OGet (1, 0) CNone CNone; ODelete (1, 0) CNone (VRId 1)].
Theorem C20_delete_current_by_id :
  let s := fst (run st0 w_delete_current_by_id) in
  nth_error (map show_res (snd (run st0 w_delete_current_by_id))) 2 = Some B"ok=1:1:1:0:s:4" /\
  (exists o, inner_get (s_in s) (1, 0) CNone CNone = GObj o [3]) /\
  (exists o, snd (step s (OGet (1, 0) CNone CNone)) = RGet o [3]).
Proof. vm_compute. repeat split; eexists; reflexivity. Qed.
Print Assumptions C20_delete_current_by_id.

(* the property as stated (all histories) *)
Definition C20_transparent_full : Prop := forall ops,
  forall k im inm, bucket_ok (fst k) = true ->
  let s := fst (run st0 ops) in
  snd (step s (OHead k im inm)) =
    match inner_head (s_in s) k im inm with RObj o => RHead o | RErr e => RStatus e end /\
  snd (step s (OGet k im inm)) =
    match inner_get (s_in s) k im inm with GObj o b => RGet o b | GErr e => RStatus e end.

(* refuted by the open-reader schedule [w_race] below: afterwards GetObject through the middleware
   returns version 2's record with version 1's body, the inner storage version 2's body *)
Definition w_race : list op :=
  [OPut (0, 0) 3 0 0 0 0 PNone; OTag (0, 0) 1 VRNone; OGetOpen (0, 0) CNone CNone;
   OPut (0, 0) 4 0 0 0 0 PNone; OGetFinish 0].

Theorem C20_transparent_refuted : ~ C20_transparent_full.
Proof.
  intros H. destruct (H w_race (0, 0) CNone CNone eq_refl) as [_ Hg].
  vm_compute in Hg. discriminate Hg.
Qed.
Print Assumptions C20_transparent_refuted.

(* regression of the former finding C20-stale-after-transition (fixed by c25178c): PUT, then a
   successful transition to class 2: inner storage and middleware both report class 2 *)
Definition w_transition : list op :=
  [OPut (0, 0) 3 1 1 1 0 PNone; OHead (0, 0) CNone CNone; OTrans (0, 0) 2 CNone VRNone].
Theorem C20_transition_regression :
  let s := fst (run st0 w_transition) in
  (exists o, inner_head (s_in s) (0, 0) CNone CNone = RObj o /\ o_cls o = 2) /\
  (exists o, snd (step s (OHead (0, 0) CNone CNone)) = RHead o /\ o_cls o = 2) /\
  (exists o b, snd (step s (OGet (0, 0) CNone CNone)) = RGet o b /\ o_cls o = 2).
Proof. vm_compute. repeat split; repeat eexists. Qed.
Print Assumptions C20_transition_regression.

(* PROPERTY (concurrent clause): every body returned by GetObject is the body of the object record
   (ETag, size, …) returned with it.  Histories may interleave other calls between the opening of a GET
   and the draining of its reader (OGetOpen / OGetFinish / OGetAbort), which is how a GET races a PUT. *)
Definition C20_body_matches_full : Prop := forall ops i o b,
  nth_error (snd (run st0 ops)) i = Some (RGet o b) -> b = body_of (o_parts o).

(* finding C20-fill-races-put: GET misses and starts filling the cache from version 1 (content 3); a PUT
   of version 2 (content 4) completes; the reader is drained, which stores version 1's body under the
   key; the next GET returns version 2's record (ETag of content 4, size 64) with version 1's body *)
Definition w_race_get : list op := w_race ++ [OGet (0, 0) CNone CNone].

Theorem C20_body_matches_refuted : ~ C20_body_matches_full.
Proof.
  intros H.
  assert (exists o, nth_error (snd (run st0 w_race_get)) 5 = Some (RGet o [3]) /\ o_parts o = [4]) as (o & E & P).
  { vm_compute. eexists. split; reflexivity. }
  specialize (H w_race_get 5%nat o [3] E). rewrite P in H. vm_compute in H. discriminate H.
Qed.
Print Assumptions C20_body_matches_refuted.

Theorem C20_fill_race_witness :
  exists o, nth_error (snd (run st0 w_race_get)) 5 = Some (RGet o [3]) /\
            o_etag o = ES 4 /\ size_of o = 64 /\ body_of (o_parts o) = [4].
Proof. vm_compute. eexists. repeat split. Qed.
Print Assumptions C20_fill_race_witness.

(* strongest true form: in every history whose GETs are drained before the next call starts (any mix
   of all other calls), every returned body is the body of the
   record returned with it *)
Definition C20_no_open_readers (o : op) : bool :=
  match o with OGetOpen _ _ _ | OGetFinish _ | OGetAbort _ => false | _ => true end.

Theorem C20_body_matches_partial : forall ops,
  forallb C20_no_open_readers ops = true ->
  forall i o b, nth_error (snd (run st0 ops)) i = Some (RGet o b) -> b = body_of (o_parts o).
Proof.
  intros ops S i o b E.
  pose proof (body_matches_partial ops S) as F. rewrite Forall_forall in F.
  exact (F _ (nth_error_In _ _ E)).
Qed.
Print Assumptions C20_body_matches_partial.

(* non-vacuity: an in-scope history that exercises hits, misses, invalidation, both buckets *)
Definition ex_hist : list op :=
  [OPut (0, 0) 3 1 1 1 2 PNone; OPut (0, 2) 0 0 0 0 0 PNone; OGet (0, 2) CNone CNone; OHead (0, 0) CNone CNone; OGet (0, 0) (CTag (ES 3)) CNone;
   OAppend (0, 0) 4 None; OGet (0, 0) CNone CNone; OTrans (0, 0) 3 CNone VRNone; OHead (0, 0) CNone CNone; OCopy (0, 0) (1, 1) false 0 0 true 2 3;
   OGet (1, 1) CNone CNone; ODelete (1, 1) CNone VRNone; OHead (1, 1) CNone CNone;
   ODelete (1, 1) CNone (VRId 1); OGet (1, 1) CNone CNone; OVers 0 VSuspended; OTag (1, 1) 1 (VRId 0); OHeadV (1, 1) (VRId 0) CNone CNone].
Example C20_ex_in_scope : forallb C20_in_scope ex_hist = true.
Proof. reflexivity. Qed.
Example C20_ex_results :
  map show_res (snd (run st0 ex_hist)) =
  [B"ok"; B"ok"; B"ok=0:0:0:0:s:-"; B"ok=1:1:1:2:s"; B"ok=1:1:1:2:s:3"; B"ok"; B"ok=1:1:1:2:m2:3.4"; B"ok"; B"ok=1:1:1:3:m2"; B"ok"; B"ok=1:1:2:3:m2:3.4"; B"ok"; B"DeleteMarker";
   B"ok"; B"ok=1:1:2:3:m2:3.4"; B"ok"; B"ok"; B"ok=1:1:1:3:m2"].
Proof. vm_compute. reflexivity. Qed.
