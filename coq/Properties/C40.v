(* Properties/C40.v — Downloads never silently mix or truncate content.
   Model: Model/Stream.v — the lazy part-sequence reader of GetObject (open part i / read chunk / EOF -> next part, skip and
   limit per part) interleaved with arbitrary changes of the part store (overwrite, delete, GC).  Theorems quantify over
   ALL finite interleavings of Read(n) calls (n > 0) and environment steps (induction over the label list).
   Premises, stated in the theorems: (a) env_ok — the id of a part of the resolved version is never re-used for other
   content: such a part keeps its bytes or disappears (fresh part ids, C08); (b) built into the model: an opened file keeps
   its bytes after unlink (POSIX) — r_cur holds the bytes captured at open; SQL part stores read from the snapshot of the
   read transaction (s_snap). *)
From Verif Require Import Bytes Codec Stream StreamProofs.

(* the bytes delivered so far are always a prefix of the resolved version's content (its range), and a clean EOF is
   signalled only after all of it — for both streaming modes, whatever happens to the store *)
Theorem C40_prefix_or_error : forall (m : smode) (st0 : pstore) (todo : list entry) (ls : list label),
  labels_ok st0 todo ls ->
  let r := s_rd (fst (sys_run (start m st0 todo) ls)) in
  (exists t, expected st0 todo = r_out r ++ t) /\ (r_st r = AtEof -> r_out r = expected st0 todo).
Proof. exact prefix_or_error. Qed.
Print Assumptions C40_prefix_or_error.

(* SQL-backed part stores (snapshot reads): the download never fails, so together with C40_prefix_or_error it can only
   end with the complete old content *)
Theorem C40_snapshot_never_fails : forall (st0 : pstore) (todo : list entry) (ls : list label),
  (forall e, In e todo -> ps_get st0 (e_pid e) <> None) -> labels_ok st0 todo ls ->
  r_st (s_rd (fst (sys_run (start Snapshot st0 todo) ls))) <> Failed.
Proof.
  intros st0 todo ls HP HL. apply (snapshot_never_fails st0 todo HP ls); [apply start_inv|reflexivity|discriminate|exact HL].
Qed.
Print Assumptions C40_snapshot_never_fails.

(* the invariant behind both, for every reachable system state *)
Theorem C40_invariant : forall (m : smode) (st0 : pstore) (todo : list entry) (ls : list label),
  labels_ok st0 todo ls -> SInv st0 todo (fst (sys_run (start m st0 todo) ls)).
Proof. intros m st0 todo ls HL. apply sys_run_inv; [apply start_inv|exact HL]. Qed.
Print Assumptions C40_invariant.

(* SEVERAL RANGES of one GetObject (readers sharing one read transaction, database.WithTxReadClosers): for every schedule of
   Read(i,n) / Close(i) — drain and close one range after the other, close without draining, never close, close twice —
   interleaved with arbitrary store changes: every range reader delivers a prefix of ITS range of the resolved version,
   clean EOF only after all of it, and with a SQL part store (snapshot) a reader that has not been closed never fails:
   the transaction stays open until every reader has been closed once *)
Theorem C40_multi_range_full : forall (m : smode) (st0 : pstore) (todos : list (list entry)) (ls : list mlabel),
  (forall e, In e (concat todos) -> ps_get st0 (e_pid e) <> None) -> mlabels_ok st0 (concat todos) ls ->
  let s := fst (msys_run (mstart m st0 todos) ls) in
  (forall i r, nth_error (ms_rds s) i = Some r ->
     exists todo, nth_error todos i = Some todo /\ (exists t, expected st0 todo = r_out r ++ t) /\
                  (r_st r = AtEof -> r_out r = expected st0 todo)) /\
  (m = Snapshot -> forall i r, nth_error (ms_rds s) i = Some r -> nth_error (ms_closed s) i = Some false -> r_st r <> Failed).
Proof. exact multi_range_full. Qed.
Print Assumptions C40_multi_range_full.

(* the outbox part store over a tx-free inner store: a part with a PENDING DeletePart entry is invisible (GetPart answers
   part-not-found although the inner file still exists), everything else is what the inner store holds.  Whatever the
   inner store and the set of pending deletes are, the visible store satisfies env_ok as soon as the inner store does —
   so C40_prefix_or_error / C40_multi_range_full (mode TxFree) apply with the visible store as environment: the next
   part's read fails, it never ends the body early *)
Theorem C40_outbox_pending_delete_invisible : forall st0 todo inner pending pid,
  ps_get (ob_visible inner pending) pid = (if existsb (N.eqb pid) pending then None else ps_get inner pid) /\
  (env_ok st0 todo inner -> env_ok st0 todo (ob_visible inner pending)).
Proof. intros. split; [apply ob_visible_get|apply ob_env_ok]. Qed.
Print Assumptions C40_outbox_pending_delete_invisible.

(* why the premise "the stored part has (at least) its recorded size" (C15) matters for the declared length: a part file
   shorter than its recorded size ends cleanly early and the next part follows — the body is complete w.r.t. the bytes
   that exist, but shorter than the size announced in the metadata *)
Theorem C40_short_part_is_clean_eof : exists st0 todo ls,
  labels_ok st0 todo ls /\
  let r := s_rd (fst (sys_run (start TxFree st0 todo) ls)) in
  r_st r = AtEof /\ length (r_out r) < fold_right (fun e a => e_limit e + a) 0 todo.
Proof.
  exists [(1%N, B"AAAA"); (2%N, B"BBBB")], [{| e_pid := 1; e_skip := 0; e_limit := 8 |}; {| e_pid := 2; e_skip := 0; e_limit := 4 |}],
         [LRead 16; LRead 16; LRead 16].
  split; [cbn; repeat split; lia|]. cbn. split; [reflexivity|lia].
Qed.
Print Assumptions C40_short_part_is_clean_eof.

(* ---- non-vacuity: evaluated scenarios ---- *)
Example C40_ex_fs_overwrite :
  run_line B"fs 0 41414141,42424242,43434343 0 12 r3,r3,o,r3,r3" = B"414141 41 ERR ERR total:41414141".
Proof. vm_compute. reflexivity. Qed.
Example C40_ex_sql_overwrite :
  run_line B"sql 0 41414141,42424242,43434343 2 11 r3,o,r3,d,r8,r8,r8" = B"4141 424242 42 434343 EOF total:414142424242434343".
Proof. vm_compute. reflexivity. Qed.
Example C40_ex_fs_gc_of_one_part :
  run_line B"fs 0 41414141,42424242,43434343 0 12 r5,x2,r5,r5,r5" = B"41414141 42424242 ERR ERR total:4141414142424242".
Proof. vm_compute. reflexivity. Qed.
Example C40_ex_env_ok : env_ok [(1%N, B"AA"); (2%N, B"BB")] [{| e_pid := 1; e_skip := 0; e_limit := 2 |}] [(2%N, B"BB"); (3%N, B"CC")].
Proof. intros e [<-|[]]. right. reflexivity. Qed.
Example C40_ex_multi_sql :
  run_line B"sql 0 41414141,42424242,43434343 M 0-6;6-12 r0.64,r0.64,c0,o,c0,r1.3,d,r1.64,r1.64,c1" =
  B"41414141 4242 4242 43434343 EOF t0:414141414242 t1:424243434343".
Proof. vm_compute. reflexivity. Qed.
Example C40_ex_outbox_pending_delete :
  run_line B"ob 0 41414141,42424242,43434343 M 0-12 r0.5,o,r0.5,w,r0.5" = B"41414141 ERR ERR t0:41414141".
Proof. vm_compute. reflexivity. Qed.
