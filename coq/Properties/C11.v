(* Properties/C11.v — metadata, tags and storage class follow S3 write semantics.
   Model: Model/Fields.v (request-header parsing + the field plumbing of every write path).
   All theorems quantify over ALL states/histories and ALL header lists of the model. *)
From Verif Require Import Bytes Codec Fields FieldsProofs FieldsOps FieldsParse.

(* ---- PutObject replaces everything with exactly the supplied values (absent => cleared) ---- *)
Theorem C11_put_replaces_all : forall s k hs f,
  req_fields hs = inl f ->
  step s (OPut k hs) = (install s k f, None) /\
  find_version (install s k f) k None = Some f /\
  f_ct f = hget B"content-type" hs /\
  f_cc f = hget B"cache-control" hs /\ f_cd f = hget B"content-disposition" hs /\
  f_ce f = hget B"content-encoding" hs /\ f_cl f = hget B"content-language" hs /\
  f_ex f = hget B"expires" hs /\ f_wr f = hget B"x-amz-website-redirect-location" hs /\
  usermeta_parse hs = Some (f_um f) /\ req_tags hs = Some (f_tags f) /\ req_class hs = Some (f_class f) /\
  (forall k' v, k' <> k -> find_version (install s k f) k' v = find_version s k' v).
Proof. exact put_replaces_all. Qed.
Print Assumptions C11_put_replaces_all.

(* a put without any of the headers clears every field, whatever the object looked like before *)
Theorem C11_put_absent_cleared : forall s k,
  find_version (fst (step s (OPut k []))) k None = Some empty_fields.
Proof. exact put_no_headers_clears. Qed.
Print Assumptions C11_put_absent_cleared.

(* a put whose headers are rejected (InvalidTag / MetadataTooLarge / InvalidStorageClass) changes nothing *)
Theorem C11_put_rejected_unchanged : forall s k hs e,
  req_fields hs = inr e -> step s (OPut k hs) = (s, Some e).
Proof. exact put_rejected. Qed.
Print Assumptions C11_put_rejected_unchanged.

(* ---- CompleteMultipartUpload applies the values given at CreateMultipartUpload, whatever happened
        to the key (or anything else) in between ---- *)
Theorem C11_complete_applies_create_time_values : forall ops1 k hs f ops2,
  req_fields hs = inl f ->
  forallb (fun o => negb (completes (s_nmc (run init ops1)) o)) ops2 = true ->
  snd (step (run init ops1) (OCreate k hs)) = None /\
  snd (step (run (fst (step (run init ops1) (OCreate k hs))) ops2) (OComplete (s_nmc (run init ops1)))) = None /\
  find_version (fst (step (run (fst (step (run init ops1) (OCreate k hs))) ops2) (OComplete (s_nmc (run init ops1))))) k None = Some f.
Proof. exact complete_applies. Qed.
Print Assumptions C11_complete_applies_create_time_values.

(* ---- CopyObject: directives; redirect location never copied; class only from the request ---- *)
Theorem C11_copy_directives : forall s src sv dst hs s',
  step s (OCopy src sv dst hs) = (s', None) ->
  exists fs fd mrep trep,
    find_version s src sv = Some fs /\ find_version s' dst None = Some fd /\
    directive B"x-amz-metadata-directive" hs = Some mrep /\
    directive B"x-amz-tagging-directive" hs = Some trep /\
    (mrep = false ->
       f_ct fd = f_ct fs /\ f_cc fd = f_cc fs /\ f_cd fd = f_cd fs /\ f_ce fd = f_ce fs /\
       f_cl fd = f_cl fs /\ f_ex fd = f_ex fs /\ f_um fd = f_um fs) /\
    (mrep = true ->
       f_ct fd = hget B"content-type" hs /\ f_cc fd = hget B"cache-control" hs /\
       f_cd fd = hget B"content-disposition" hs /\ f_ce fd = hget B"content-encoding" hs /\
       f_cl fd = hget B"content-language" hs /\ f_ex fd = hget B"expires" hs /\
       usermeta_parse hs = Some (f_um fd)) /\
    (trep = false -> f_tags fd = f_tags fs) /\
    (trep = true -> tagging_parse (tagging_value hs) = Some (f_tags fd)) /\
    f_wr fd = hget B"x-amz-website-redirect-location" hs /\
    req_class hs = Some (f_class fd) /\
    (forall k' v, k' <> dst -> find_version s' k' v = find_version s k' v).
Proof. exact copy_directives. Qed.
Print Assumptions C11_copy_directives.

(* ---- AppendObject preserves the fields: REFUTED for versioning-enabled buckets ---- *)
Definition C11_append_preserves_full : Prop := forall s k f,
  find_version s k None = Some f -> find_version (fst (step s (OAppend k))) k None = Some f.

Definition C11_append_witness : state :=
  fst (step init (OPut (1, 0)%N [(B"Cache-Control", B"no-cache"); (B"x-amz-meta-a", B"1");
                                  (B"x-amz-tagging", B"t=1"); (B"x-amz-storage-class", B"GLACIER")])).

Theorem C11_append_preserves_full_refuted : ~ C11_append_preserves_full.
Proof.
  intros H. specialize (H C11_append_witness (1, 0)%N).
  assert (E : exists f, find_version C11_append_witness (1, 0)%N None = Some f /\ f_cc f = Some B"no-cache")
    by (eexists; split; vm_compute; reflexivity).
  destruct E as (f & Hf & Hcc). specialize (H f Hf).
  assert (E2 : find_version (fst (step C11_append_witness (OAppend (1, 0)%N))) (1, 0)%N None = Some empty_fields)
    by (vm_compute; reflexivity).
  rewrite E2 in H. inversion H as [Hx]. rewrite <- Hx in Hcc. discriminate.
Qed.
Print Assumptions C11_append_preserves_full_refuted.

(* what does hold: in the unversioned bucket an append changes nothing at all; in the versioned bucket
   the new version keeps only the content type *)
Theorem C11_append_preserves_partial : forall s k f,
  fst k <> 1%N -> find_version s k None = Some f -> step s (OAppend k) = (s, None).
Proof. exact append_preserves_unversioned. Qed.
Print Assumptions C11_append_preserves_partial.

Theorem C11_append_enabled_keeps_only_content_type : forall s k f,
  fst k = 1%N -> find_version s k None = Some f ->
  find_version (fst (step s (OAppend k))) k None = Some (append_fields_enabled f) /\
  find_version (fst (step s (OAppend k))) k (Some (s_next s)) = Some (append_fields_enabled f).
Proof. exact append_enabled. Qed.
Print Assumptions C11_append_enabled_keeps_only_content_type.

(* ---- transitions preserve everything but the class ---- *)
Theorem C11_transition_preserves_all_but_class : forall s k v c s',
  step s (OTransition k v c) = (s', None) ->
  exists f f', find_version s k v = Some f /\ find_version s' k v = Some f' /\
               valid_class c = true /\ f_class f' = Some c /\
               (f_ct f' = f_ct f /\ f_cc f' = f_cc f /\ f_cd f' = f_cd f /\ f_ce f' = f_ce f /\ f_cl f' = f_cl f /\
                f_ex f' = f_ex f /\ f_wr f' = f_wr f /\ f_um f' = f_um f /\ f_tags f' = f_tags f) /\
               (forall k' v', k' <> k -> find_version s' k' v' = find_version s k' v').
Proof. exact transition_preserves. Qed.
Print Assumptions C11_transition_preserves_all_but_class.

(* ---- PutObjectTagging / DeleteObjectTagging touch only the tags ---- *)
Theorem C11_put_tagging_replaces_only_tags : forall s k v t s',
  step s (OPutTagging k v t) = (s', None) ->
  exists f f', find_version s k v = Some f /\ find_version s' k v = Some f' /\
               f_tags f' = t /\ dup_keys t = false /\ tags_valid t = true /\
               (f_ct f' = f_ct f /\ f_cc f' = f_cc f /\ f_cd f' = f_cd f /\ f_ce f' = f_ce f /\ f_cl f' = f_cl f /\
                f_ex f' = f_ex f /\ f_wr f' = f_wr f /\ f_um f' = f_um f /\ f_class f' = f_class f) /\
               (forall k' v', k' <> k -> find_version s' k' v' = find_version s k' v').
Proof. exact put_tagging_replaces. Qed.
Print Assumptions C11_put_tagging_replaces_only_tags.

Theorem C11_delete_tagging_clears_only_tags : forall s k v s',
  step s (ODeleteTagging k v) = (s', None) ->
  exists f f', find_version s k v = Some f /\ find_version s' k v = Some f' /\
               f_tags f' = [] /\
               (f_ct f' = f_ct f /\ f_cc f' = f_cc f /\ f_cd f' = f_cd f /\ f_ce f' = f_ce f /\ f_cl f' = f_cl f /\
                f_ex f' = f_ex f /\ f_wr f' = f_wr f /\ f_um f' = f_um f /\ f_class f' = f_class f) /\
               (forall k' v', k' <> k -> find_version s' k' v' = find_version s k' v').
Proof. exact delete_tagging_clears. Qed.
Print Assumptions C11_delete_tagging_clears_only_tags.

(* a rejected operation of any kind changes no object version *)
Theorem C11_rejected_changes_nothing : forall s o e,
  snd (step s o) = Some e -> forall k v, find_version (fst (step s o)) k v = find_version s k v.
Proof. exact rejected_changes_nothing. Qed.
Print Assumptions C11_rejected_changes_nothing.

(* ---- header parsing ---- *)
(* user metadata: keys distinct, non-empty and lower-cased; the value of key k is the comma-joined list of
   the values of all x-amz-meta-* headers whose lower-cased name ends in k, in the order sent; accepted iff
   the sum of key and value lengths is at most 2 KiB *)
Theorem C11_usermeta_parse : forall hs,
  let m := um_collect hs [] in
  NoDup (map fst m) /\
  (forall k v, In (k, v) m -> k <> [] /\ to_lower k = k) /\
  (forall k, assoc_get k m = comma_joined (um_values k hs)) /\
  usermeta_parse hs = if (um_size m <=? 2048)%N then Some m else None.
Proof. exact usermeta_parse_spec. Qed.
Print Assumptions C11_usermeta_parse.

(* tagging header: what is accepted is a duplicate-free set within the S3 limits, and it is exactly the list
   of URL-query-decoded '&'-separated segments (all of which decode) *)
Theorem C11_tagging_parse_sound : forall h m,
  tagging_parse h = Some m ->
  NoDup (map fst m) /\ (length m <= 10)%nat /\
  (forall k v, In (k, v) m -> k <> [] /\ (rune_count k <= 128)%N /\ (rune_count v <= 256)%N) /\
  (h = [] /\ m = [] \/
   h <> [] /\ m = seg_pairs (split_on "&"%byte h) /\ forallb seg_ok (split_on "&"%byte h) = true).
Proof. exact tagging_parse_sound. Qed.
Print Assumptions C11_tagging_parse_sound.

Theorem C11_tagging_parse_rejects : forall h m,
  parse_query h = (m, true) ->
  (dup_keys m = true \/ (10 < length m)%nat \/
   exists k v, In (k, v) m /\ (k = [] \/ (128 < rune_count k)%N \/ (256 < rune_count v)%N)) ->
  tagging_parse h = None.
Proof. exact tagging_parse_rejects. Qed.
Print Assumptions C11_tagging_parse_rejects.

(* URL query decoding inverts URL query encoding on every byte string, and encoded text contains no separator *)
Theorem C11_unescape_qescape : forall l, unescape (qescape l) = Some l.
Proof. exact unescape_qescape. Qed.
Print Assumptions C11_unescape_qescape.

Theorem C11_rune_count_ascii : forall l, (forall b, In b l -> (byteN b < 128)%N) -> rune_count l = lenN l.
Proof. exact rune_count_ascii. Qed.
Print Assumptions C11_rune_count_ascii.

(* ---- the hypotheses are satisfiable by non-trivial values ---- *)
Example C11_ex_usermeta :
  usermeta_parse [(B"X-Amz-Meta-Foo", B"1"); (B"x-amz-meta-bar", B"x"); (B"x-amz-meta-FOO", B"2"); (B"x-amz-meta-", B"z")]
  = Some [(B"foo", B"1,2"); (B"bar", B"x")].
Proof. vm_compute. reflexivity. Qed.
Example C11_ex_tagging : tagging_parse B"k+1=a%26b&%C3%A9=" = Some [(B"k 1", B"a&b"); ([xc3; xa9], [])].
Proof. vm_compute. reflexivity. Qed.
Example C11_ex_tagging_dup : tagging_parse B"%61=1&a=2" = None.
Proof. vm_compute. reflexivity. Qed.
Example C11_ex_rune : rune_count [xc3; xa9; x61; xff] = 3%N.
Proof. vm_compute. reflexivity. Qed.
Example C11_ex_copy :
  let s := fst (step C11_append_witness
                  (OCopy (1, 0)%N None (0, 1)%N [(B"x-amz-tagging-directive", B"replace"); (B"x-amz-tagging", B"n=2")])) in
  option_map show_fields (find_version s (0, 1)%N None)
  = Some (show_fields (mkF None (Some B"no-cache") None None None None None [(B"a", B"1")] [(B"n", B"2")] None)).
Proof. vm_compute. reflexivity. Qed.
Example C11_ex_complete :
  let ops := [OCreate (0, 0)%N [(B"Content-Type", B"text/plain"); (B"x-amz-tagging", B"a=1")];
              OPut (0, 0)%N [(B"Cache-Control", B"x")]; OComplete 0%N] in
  find_version (run init ops) (0, 0)%N None = Some (mkF (Some B"text/plain") None None None None None None [] [(B"a", B"1")] None).
Proof. vm_compute. reflexivity. Qed.
