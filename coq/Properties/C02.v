(* Properties/C02.v — Versioning: every live version stays addressable and latest is newest (M-META). *)
From Verif Require Import Bytes Codec Md5 Meta MetaBasics MetaWitness.

(* at most one current version per key, version ids unique per key, in every reachable state *)
Theorem C02_reachable_unique_latest : forall ops,
  unique_ok (fst (run ops)) = true /\ parts_unique_ok (fst (run ops)) = true.
Proof. exact run_uniq. Qed.
Print Assumptions C02_reachable_unique_latest.

(* FULL STATEMENT (Definition C02_latest_is_newest_full in Proofs/MetaWitness.v): in every reachable state the
   current version of a key is the most recently written completed row of that key.  It is FALSE of the
   faithful model — and of the code: the witness is replayed on the implementation on every run
   (corpus/C02/promotion-by-created-at.txt; known finding C02-promotion-by-created-at). *)
Theorem C02_latest_is_newest_refuted :
  ~ (forall ops, forall b k r, find_latest (fst (run ops)) b k = Some r ->
       forall r', In r' (objs (fst (run ops))) -> on_key b k r' = true -> completed r' = true ->
       (o_written r' <= o_written r)%N).
Proof. exact latest_is_newest_refuted. Qed.
Print Assumptions C02_latest_is_newest_refuted.

(* the witness, as observable behaviour: after deleting the newest version D by id, GET by key returns B
   although the null version C — written after B — still exists and is readable by id *)
Theorem C02_promotion_witness :
  op_get (fst (run promo_history)) wb wk None = RObj (VId 4) (mk_md5 cB) 8 9000 None (Some cB) /\
  exists lm, op_get (fst (run promo_history)) wb wk (Some VNull) = RObj VNull (mk_md5 cC) 8 lm None (Some cC).
Proof. exact (conj promo_reads_B promo_null_survives). Qed.
Print Assumptions C02_promotion_witness.
