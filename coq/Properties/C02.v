(* Properties/C02.v — Versioning: every live version stays addressable and latest is newest (M-META). *)
From Verif Require Import Bytes Codec Md5 Meta MetaBasics MetaWitness.
From Verif Require Import MetaPartsDefs MetaParts MetaPartsOps MetaPartsOwned.
From Verif Require Import MetaRows1 MetaRows2 MetaRows3 MetaRows4 MetaRows5 MetaRows6 MetaRows7 MetaRows8 MetaRows9.
From Verif Require Import MetaRows11 MetaRows13 MetaRows15.
From Verif Require Import MetaNewest1 MetaNewest2 MetaNewest3 MetaNewest4 MetaNewest5.

(* at most one current version per key, version ids unique per key, in every reachable state *)
Theorem C02_reachable_unique_latest : forall ops,
  unique_ok (fst (run ops)) = true /\ parts_unique_ok (fst (run ops)) = true.
Proof. exact run_uniq. Qed.
Print Assumptions C02_reachable_unique_latest.

(* FULL STATEMENT (Definition C02_latest_is_newest_full in Proofs/MetaWitness.v): in every reachable state the
   current version of a key is the most recently written completed row of that key.  It is FALSE of the
   faithful model — and of the code: the witness is replayed on the implementation on every run
   (corpus/C02/promotion-by-created-at.txt; known finding C02-promotion-by-created-at). *)
Theorem C02_latest_is_newest_refuted :
  ~ (forall ops, forall b k r, find_latest (fst (run ops)) b k = Some r ->
       forall r', In r' (objs (fst (run ops))) -> on_key b k r' = true -> completed r' = true ->
       (o_written r' <= o_written r)%N).
Proof. exact latest_is_newest_refuted. Qed.
Print Assumptions C02_latest_is_newest_refuted.

(* the witness, as observable behaviour: after deleting the newest version D by id, GET by key returns B
   although the null version C — written after B — still exists and is readable by id *)
Theorem C02_promotion_witness :
  op_get (fst (run promo_history)) wb wk None = RObj (VId 4) (mk_md5 cB) 8 9000 None (Some cB) /\
  exists lm, op_get (fst (run promo_history)) wb wk (Some VNull) = RObj VNull (mk_md5 cC) 8 lm None (Some cC).
Proof. exact (conj promo_reads_B promo_null_survives). Qed.
Print Assumptions C02_promotion_witness.

(* ================= row-level theorems (Proofs/MetaRows1..9) ================= *)

(* VERSION PERSISTENCE, one step from ANY state satisfying the row invariant: the non-null version VId n of
   (b,k), whose row is r, survives every operation — same row id, ETag, size, delete-marker flag, content type,
   creation time and the SAME part rows — except exactly:
   (a) DeleteObject of (b,k) by that very version id;
   (b) AppendObject on (b,k) while the bucket is not Enabled and r is the current row
       (known finding C13-append-in-place: the append rewrites r in place);
   (c) key-only DeleteObject of (b,k) while the bucket's versioning is Unset and r is the current row
       (reachable only after Enabled -> Unset; see C02_unset_delete_destroys_version below). *)
Theorem C02_version_persists : forall i hist s o b k n r,
  (NoDup (map o_id (objs s)) /\ (forall x, In x (objs s) -> (o_id x < next_id s)%N)) /\
  (unique_ok s = true /\ parts_unique_ok s = true) ->
  find_version s b k (VId n) = Some r ->
  match o with
  | ODel b' k' v _ =>
      bytes_eqb b' b && bytes_eqb k' k &&
      match resolve_vref v with
      | Some v' => vid_eqb v' (VId n)
      | None => o_latest r && match option_map b_ver (find_bucket s b) with Some VUnset => true | _ => false end
      end
  | OApp b' k' _ _ =>
      bytes_eqb b' b && bytes_eqb k' k && o_latest r &&
      match option_map b_ver (find_bucket s b) with Some VEnabled | None => false | Some _ => true end
  | _ => false
  end = false ->
  exists r', find_version (fst (step i hist s o)) b k (VId n) = Some r' /\
    o_id r' = o_id r /\ o_etag r' = o_etag r /\ o_size r' = o_size r /\ o_dm r' = o_dm r /\
    o_ctype r' = o_ctype r /\ o_created r' = o_created r /\
    obj_parts (fst (step i hist s o)) (o_id r') = obj_parts s (o_id r).
Proof. exact step_version_persists_out. Qed.
Print Assumptions C02_version_persists.

(* … over histories, with a purely syntactic side condition: once a non-null version exists in a bucket that is
   Enabled or Suspended, it stays addressable with unchanged ETag/size/parts through ANY continuation that
   contains no delete of that very version id, no append to that key, and does not set the bucket's versioning
   back to Unset.  Puts, copies, multipart completes, key-only deletes, deletes of other versions, toggling
   Enabled/Suspended, and everything on other keys/buckets are all allowed. *)
Theorem C02_version_persists_history : forall ops mid b k n r st,
  Forall (fun o => match o with
    | ODel b' k' v _ => b' = b /\ k' = k -> resolve_vref v <> Some (VId n)
    | OApp b' k' _ _ => ~ (b' = b /\ k' = k)
    | OVer b' v => b' = b -> v <> VUnset
    | _ => True
    end) mid ->
  find_version (fst (run ops)) b k (VId n) = Some r ->
  option_map b_ver (find_bucket (fst (run ops)) b) = Some st -> st <> VUnset ->
  exists r', find_version (fst (run (ops ++ mid))) b k (VId n) = Some r' /\
    o_id r' = o_id r /\ o_etag r' = o_etag r /\ o_size r' = o_size r /\ o_dm r' = o_dm r /\
    o_ctype r' = o_ctype r /\ o_created r' = o_created r /\
    obj_parts (fst (run (ops ++ mid))) (o_id r') = obj_parts (fst (run ops)) (o_id r).
Proof. exact run_version_keeps_out. Qed.
Print Assumptions C02_version_persists_history.

(* KEY-ONLY DELETE in an Enabled or Suspended bucket, from ANY state: if it is acknowledged, the answer is a
   delete marker with the fresh version id, and that marker (a new row) is the current version of the key … *)
Theorem C02_key_only_delete_creates_marker : forall i hist s b k cr s' x st,
  option_map b_ver (find_bucket s b) = Some st -> st <> VUnset ->
  step i hist s (ODel b k VRNone cr) = (s', x) -> (forall e, x <> RErr e) ->
  x = RDel (Some (VId i)) true /\
  exists m, find_latest s' b k = Some m /\ o_vid m = Some (VId i) /\ o_dm m = true /\ o_id m = next_id s.
Proof. exact delete_marker_out. Qed.
Print Assumptions C02_key_only_delete_creates_marker.

(* … and it destroys no data of any non-null version: in the Suspended state only the null version can be
   replaced *)
Theorem C02_key_only_delete_keeps_versions : forall i hist s b k cr st n r,
  (NoDup (map o_id (objs s)) /\ (forall x, In x (objs s) -> (o_id x < next_id s)%N)) /\
  (unique_ok s = true /\ parts_unique_ok s = true) ->
  option_map b_ver (find_bucket s b) = Some st -> st <> VUnset ->
  find_version s b k (VId n) = Some r ->
  exists r', find_version (fst (step i hist s (ODel b k VRNone cr))) b k (VId n) = Some r' /\
    o_id r' = o_id r /\ o_etag r' = o_etag r /\ o_size r' = o_size r /\ o_dm r' = o_dm r /\
    o_ctype r' = o_ctype r /\ o_created r' = o_created r /\
    obj_parts (fst (step i hist s (ODel b k VRNone cr))) (o_id r') = obj_parts s (o_id r).
Proof. exact delete_keeps_versions_out. Qed.
Print Assumptions C02_key_only_delete_keeps_versions.

(* exception (c) is real in the model: Enabled, put (version v2), Unset, key-only delete: v2 is gone *)
Theorem C02_unset_delete_destroys_version :
  snd (run [OMb B"bkt1"; OVer B"bkt1" VEnabled; OPut B"bkt1" B"k1" B"AAAAAAAA" CRNone; OVer B"bkt1" VUnset;
            ODel B"bkt1" B"k1" VRNone CRNone; OGet B"bkt1" B"k1" (VROp 2)]) =
  [ROk; ROk; RPut (VId 2) (mk_md5 B"AAAAAAAA"); ROk; RDel None false; RErr NoSuchKey].
Proof. exact unset_delete_destroys_version. Qed.
Print Assumptions C02_unset_delete_destroys_version.

(* the hypotheses are satisfiable, on a continuation that toggles versioning, overwrites, deletes by key and
   deletes another version *)
Example C02_ex_persist_hyps : exists r,
  find_version (fst (run [OMb wb; OVer wb VEnabled; OPut wb wk cA CRNone])) wb wk (VId 2) = Some r /\
  option_map b_ver (find_bucket (fst (run [OMb wb; OVer wb VEnabled; OPut wb wk cA CRNone])) wb) = Some VEnabled /\
  Forall (fun o => match o with
    | ODel b' k' v _ => b' = wb /\ k' = wk -> resolve_vref v <> Some (VId 2)
    | OApp b' k' _ _ => ~ (b' = wb /\ k' = wk)
    | OVer b' v => b' = wb -> v <> VUnset
    | _ => True
    end) [OPut wb wk cB CRNone; OVer wb VSuspended; OPut wb wk cC CRNone; ODel wb wk VRNone CRNone;
          ODel wb wk (VROp 3) CRNone; OVer wb VEnabled; OCp wb wk (VROp 2) wb wk].
Proof.
  eexists. split; [vm_compute; reflexivity|]. split; [vm_compute; reflexivity|].
  repeat constructor; cbn; try discriminate; intros _; discriminate.
Qed.
Example C02_ex_delete_marker_hyps :
  snd (run [OMb wb; OVer wb VSuspended; OPut wb wk cA CRNone; ODel wb wk VRNone CRNone]) =
  [ROk; ROk; RPut VNull (mk_md5 cA); RDel (Some (VId 3)) true].
Proof. vm_compute. reflexivity. Qed.

(* … and in the Enabled state a key-only delete keeps the null version as well (nothing at all is destroyed) *)
Theorem C02_enabled_key_only_delete_keeps_null : forall i hist s b k cr r,
  (NoDup (map o_id (objs s)) /\ (forall x, In x (objs s) -> (o_id x < next_id s)%N)) /\
  (unique_ok s = true /\ parts_unique_ok s = true) ->
  option_map b_ver (find_bucket s b) = Some VEnabled -> find_version s b k VNull = Some r ->
  exists r', find_version (fst (step i hist s (ODel b k VRNone cr))) b k VNull = Some r' /\
    o_id r' = o_id r /\ o_etag r' = o_etag r /\ o_size r' = o_size r /\ o_dm r' = o_dm r /\
    o_ctype r' = o_ctype r /\ o_created r' = o_created r /\
    obj_parts (fst (step i hist s (ODel b k VRNone cr))) (o_id r') = obj_parts s (o_id r).
Proof. exact delete_enabled_keeps_null_out. Qed.
Print Assumptions C02_enabled_key_only_delete_keeps_null.

(* ================= "latest is newest", the true part (Proofs/MetaNewest1..5) ================= *)

(* PARTIAL STATEMENT pinning the defect region of C02_latest_is_newest_refuted: for every history and every key
   (b,k), the current version of the key is the most recently WRITTEN completed row of the key, provided that no
   operation of the history, evaluated in the state sp it is executed in, is one of:
     (1) a PutObject / CopyObject to (b,k) while the bucket is not Enabled and the null version of the key exists
         but is NOT the current version (the in-place overwrite then makes an old-created row current:
         the witness promo_history does exactly this at its 7th operation);
     (2) a CompleteMultipartUpload on (b,k) (the completed row keeps the upload's creation time).
   Everything else is allowed: unversioned overwrites, appends (also in place), versioned puts, key-only and
   version-id deletes WITH promotion by created_at, toggling the versioning state, all other keys.
   The side condition is a decidable boolean, written out below. *)
Theorem C02_latest_is_newest_partial : forall b k ops,
  (forall p o rest, ops = p ++ o :: rest ->
     match o with
     | OPut b' k' _ _ | OCp _ _ _ b' k' =>
         negb (bytes_eqb b' b && bytes_eqb k' k)
         || match option_map b_ver (find_bucket (fst (run p)) b) with Some VEnabled => true | _ => false end
         || match find_version (fst (run p)) b k VNull with
            | None => true
            | Some nr => match find_latest (fst (run p)) b k with
                         | Some l => N.eqb (o_id l) (o_id nr)
                         | None => false
                         end
            end
     | OCpl b' k' _ _ _ => negb (bytes_eqb b' b && bytes_eqb k' k)
     | _ => true
     end = true) ->
  forall r, find_latest (fst (run ops)) b k = Some r ->
  forall r', In r' (objs (fst (run ops))) -> on_key b k r' = true -> completed r' = true ->
  (o_written r' <= o_written r)%N.
Proof. exact latest_is_newest_partial. Qed.
Print Assumptions C02_latest_is_newest_partial.

(* the refutation witness lies in the excluded region: its 7th operation (put in Suspended state) overwrites the
   null version in place while version v4 is current *)
Example C02_ex_promo_history_excluded :
  promo_history = firstn 6 promo_history ++ OPut wb wk cC CRNone :: skipn 7 promo_history /\
  good_op wb wk (fst (run (firstn 6 promo_history))) (OPut wb wk cC CRNone) = false.
Proof. split; vm_compute; reflexivity. Qed.

(* the side condition is satisfiable by a history with unversioned overwrites, an in-place append, versions, a
   key-only delete, deletes by version id that promote by created_at, and a Suspended put onto a current null
   version (good_from is the recursive form of the prefix condition: Proofs/MetaNewest5.good_from_prefixes) *)
Example C02_ex_good_history :
  good_from wb wk 0 [] init
    [OMb wb; OPut wb wk cA CRNone; OPut wb wk cB CRNone; OApp wb wk cC None; OVer wb VEnabled;
     OPut wb wk cA CRNone; OPut wb wk cB CRNone; ODel wb wk VRNone CRNone; ODel wb wk (VROp 7) CRNone;
     ODel wb wk (VROp 6) CRNone; ODel wb wk (VROp 5) CRNone; OVer wb VSuspended; OPut wb wk cD CRNone;
     OGet wb wk VRNone].
Proof. vm_compute. repeat split. Qed.
Example C02_ex_good_history_result :
  nth_error (snd (run
    [OMb wb; OPut wb wk cA CRNone; OPut wb wk cB CRNone; OApp wb wk cC None; OVer wb VEnabled;
     OPut wb wk cA CRNone; OPut wb wk cB CRNone; ODel wb wk VRNone CRNone; ODel wb wk (VROp 7) CRNone;
     ODel wb wk (VROp 6) CRNone; ODel wb wk (VROp 5) CRNone; OVer wb VSuspended; OPut wb wk cD CRNone;
     OGet wb wk VRNone])) 13 = Some (RObj VNull (mk_md5 cD) 8 12001 None (Some cD)).
Proof. vm_compute. reflexivity. Qed.
