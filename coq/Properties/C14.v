(* Properties/C14.v — storage-class transitions preserve objects and route data.
   Model: Model/Transition.v (objects = lists of part rows (id, store, content); part registry; named
   stores; dedup index; the class -> store configuration [cfg] is a parameter of every step and may differ
   from phase to phase).  Theorems hold for ALL states, configurations and arguments of the model; the two
   byte-level theorems name their (local, checkable) well-formedness hypotheses explicitly. *)
From Verif Require Import Bytes Codec Transition TransitionProofs TransitionOps.

(* a successful transition keeps the version (same address, same list of version ordinals), the content
   (content ids of the parts, hence size and ETag), metadata and tags; only the class changes; every part
   row of the object then names the store the configuration maps the target class to; other keys are untouched *)
Theorem C14_transition_preserves : forall cfg s k v c s',
  step cfg s (OTransition k v c) = (s', None) ->
  exists o o', find_version s k v = Some o /\ find_version s' k v = Some o' /\ valid_class c = true /\
    o_class o' = Some c /\ o_meta o' = o_meta o /\ o_tags o' = o_tags o /\
    map p_cont (o_parts o') = map p_cont (o_parts o) /\
    map fst (versions_of k (s_objs s')) = map fst (versions_of k (s_objs s)) /\
    (forall p, In p (o_parts o') -> p_store p = cfg_get c cfg) /\
    (forall k' v', k' <> k -> find_version s' k' v' = find_version s k' v').
Proof. exact transition_preserves. Qed.
Print Assumptions C14_transition_preserves.

(* ... and the named store holds the bytes: the n-th part row after the transition is backed, in the store
   it names, by exactly what backed the n-th row before.  Hypotheses on the pre-state: the object's part ids
   were allocated (below the fresh-id counter) and one part id lives in one store. *)
Theorem C14_transition_routes : forall cfg s k v c s' o,
  step cfg s (OTransition k v c) = (s', None) -> find_version s k v = Some o ->
  (forall p, In p (o_parts o) -> (p_id p < s_nextp s)%N) ->
  (forall p q, In p (o_parts o) -> In q (o_parts o) -> p_id p = p_id q -> p_store p = p_store q) ->
  exists o', find_version s' k v = Some o' /\
    forall n, option_map (blob_of s') (nth_error (o_parts o') n) = option_map (blob_of s) (nth_error (o_parts o) n).
Proof. exact transition_routes_bytes. Qed.
Print Assumptions C14_transition_routes.

Theorem C14_transition_reads_same : forall cfg s k v c s' o,
  step cfg s (OTransition k v c) = (s', None) -> find_version s k v = Some o ->
  (forall p, In p (o_parts o) -> (p_id p < s_nextp s)%N) ->
  (forall p q, In p (o_parts o) -> In q (o_parts o) -> p_id p = p_id q -> p_store p = p_store q) ->
  read s' k v = read s k v.
Proof. exact transition_reads_same. Qed.
Print Assumptions C14_transition_reads_same.

(* shared / deduplicated parts survive the transition of one of their sharers: a stored part keeps its bytes
   unless the transitioned object holds ALL registered references to its id (the refcount argument) *)
Theorem C14_shared_parts_survive : forall cfg s k v c s' o st i,
  step cfg s (OTransition k v c) = (s', None) -> find_version s k v = Some o ->
  (i < s_nextp s)%N ->
  (rows_with i (o_parts o) = 0 \/ rows_with i (o_parts o) < reg_get i (s_reg s))%N ->
  blob_get (st, i) (s_blobs s') = blob_get (st, i) (s_blobs s).
Proof. exact transition_spares. Qed.
Print Assumptions C14_shared_parts_survive.

Theorem C14_sharers_stay_readable : forall cfg s k v c s' o qs,
  step cfg s (OTransition k v c) = (s', None) -> find_version s k v = Some o ->
  (forall q, In q qs -> (p_id q < s_nextp s)%N /\
                        (rows_with (p_id q) (o_parts o) = 0 \/ rows_with (p_id q) (o_parts o) < reg_get (p_id q) (s_reg s))%N) ->
  read_parts s' qs = read_parts s qs.
Proof. exact transition_spares_object. Qed.
Print Assumptions C14_sharers_stay_readable.

(* failure cases leave the state unchanged (any operation, any configuration) *)
Theorem C14_failure_leaves_state_unchanged : forall cfg s o e,
  snd (step cfg s o) = Some e -> fst (step cfg s o) = s.
Proof. exact failed_step_unchanged. Qed.
Print Assumptions C14_failure_leaves_state_unchanged.

(* readable everywhere: a read resolves every part through the store recorded on its row, so neither its
   result nor the state depends on the class -> store configuration in force (true by construction of the
   model; the executed correspondence is what ties this to ByName in the code) *)
Theorem C14_read_ignores_configuration : forall cfg cfg' s k v,
  step cfg s (ORead k v) = step cfg' s (ORead k v) /\
  show_result (fst (step cfg s (ORead k v))) (ORead k v) None = show_read s k v.
Proof. intros. split; reflexivity. Qed.
Print Assumptions C14_read_ignores_configuration.

(* ---- non-trivial instances ---- *)
Definition C14_cfg1 : config := [(B"GLACIER", 1%N)].
Definition C14_cfg2 : config := [(B"GLACIER", 2%N); (B"STANDARD", 1%N)].
(* two keys with identical content in store 1 share one deduplicated part *)
Definition C14_shared_state : state :=
  run C14_cfg1 init [OPut (0, 0)%N (Some B"GLACIER") 7 1 1; OPut (0, 1)%N (Some B"GLACIER") 7 2 2].
Example C14_ex_shared : show_counts C14_shared_state = B"0,1,0" /\ reg_get 0 (s_reg C14_shared_state) = 2%N.
Proof. vm_compute. split; reflexivity. Qed.
(* one sharer moves to the default store: the other one still reads its bytes from store 1 *)
Example C14_ex_transition :
  let s' := fst (step C14_cfg1 C14_shared_state (OTransition (0, 0)%N None B"STANDARD")) in
  show_read s' (0, 0)%N None = B"5354414e44415244|7|1|1|0" /\
  show_read s' (0, 1)%N None = B"474c4143494552|7|2|2|1" /\ show_counts s' = B"1,1,0".
Proof. vm_compute. repeat split; reflexivity. Qed.
(* after a remap of GLACIER to store 2, an append puts the new part there; a transition to GLACIER then
   moves only the old part *)
Example C14_ex_remap :
  let s1 := run C14_cfg2 C14_shared_state [OAppend (0, 1)%N 8] in
  let s2 := run C14_cfg2 s1 [OTransition (0, 1)%N None B"GLACIER"] in
  show_read s1 (0, 1)%N None = B"474c4143494552|7.8|2|2|1.2" /\
  show_read s2 (0, 1)%N None = B"474c4143494552|7.8|2|2|2.2" /\
  show_read s2 (0, 0)%N None = B"474c4143494552|7|1|1|1".
Proof. vm_compute. repeat split; reflexivity. Qed.
