(* Properties/C14.v — storage-class transitions preserve objects and route data.
   Model: Model/Transition.v.  A key has ROWS (versions): harness ordinal, "null" version id?, delete marker?,
   is_latest, created_at rank, object record (class, part rows (id, store, content), metadata, tags, ETag style).
   Buckets are Unversioned / Enabled / Suspended; a request addresses a row by no version id (the is_latest
   row), by the version id of a given row, by the literal id "null", or by an unknown id.  Part registry,
   named stores, dedup index as before; the class -> store configuration [cfg] is a parameter of every step
   and may differ from phase to phase.  Theorems hold for ALL states, configurations and arguments of the
   model; the byte-level theorems name their (local, checkable) well-formedness hypotheses explicitly. *)
From Verif Require Import Bytes Codec Transition TransitionProofs TransitionOps.

(* the row a selector resolves to carries what the selector names: "null" resolves to the row whose version
   id is "null" (current or not), never to "whatever is current" *)
Theorem C14_resolve_addresses : forall vs v i r,
  resolve vs v = Some i -> nth_error vs i = Some r ->
  match v with
  | VLatest => v_latest r = true
  | VOrd n => v_ord r = n
  | VNull => v_null r = true
  | VUnknown => False
  end.
Proof. exact resolve_addresses. Qed.
Print Assumptions C14_resolve_addresses.

(* EXACTLY the addressed version changes: it keeps its ordinal / version id / delete-marker and is_latest
   flags / created_at, its content (content ids, hence size and ETag), ETag style, metadata and tags; its class
   becomes the target; every one of its part rows names the store the configuration in force maps the TARGET
   class to (whatever the object's previous class maps to); an If-Match, if given, equals the ETag of the
   ADDRESSED version.  Every other row of the key, every other key and the bucket states are untouched. *)
Theorem C14_transition_preserves : forall cfg s k v c im s',
  step cfg s (OTransition k v c im) = (s', None) ->
  exists i r o',
    resolve (versions_of k (s_objs s)) v = Some i /\ nth_error (versions_of k (s_objs s)) i = Some r /\
    v_dm r = false /\ valid_class c = true /\ ifmatch_holds s k r im /\
    nth_error (versions_of k (s_objs s')) i = Some (set_obj o' r) /\
    o_class o' = Some c /\ o_meta o' = o_meta (v_obj r) /\ o_tags o' = o_tags (v_obj r) /\ o_mp o' = o_mp (v_obj r) /\
    map p_cont (o_parts o') = map p_cont (o_parts (v_obj r)) /\
    (forall p, In p (o_parts o') -> p_store p = cfg_get c cfg) /\
    (forall j, j <> i -> nth_error (versions_of k (s_objs s')) j = nth_error (versions_of k (s_objs s)) j) /\
    length (versions_of k (s_objs s')) = length (versions_of k (s_objs s)) /\
    (forall k', k' <> k -> versions_of k' (s_objs s') = versions_of k' (s_objs s)) /\
    s_st0 s' = s_st0 s /\ s_st1 s' = s_st1 s.
Proof. exact transition_preserves. Qed.
Print Assumptions C14_transition_preserves.

(* ... and the named store holds the bytes: the n-th part row of the addressed version after the transition is
   backed, in the store it names, by exactly what backed its n-th row before.  Hypotheses on the pre-state: the
   version's part ids were allocated (below the fresh-id counter) and one part id lives in one store. *)
Theorem C14_transition_routes : forall cfg s k v c im s' i r,
  step cfg s (OTransition k v c im) = (s', None) ->
  resolve (versions_of k (s_objs s)) v = Some i -> nth_error (versions_of k (s_objs s)) i = Some r ->
  (forall p, In p (o_parts (v_obj r)) -> (p_id p < s_nextp s)%N) ->
  (forall p q, In p (o_parts (v_obj r)) -> In q (o_parts (v_obj r)) -> p_id p = p_id q -> p_store p = p_store q) ->
  exists r', nth_error (versions_of k (s_objs s')) i = Some r' /\
    forall n, option_map (blob_of s') (nth_error (o_parts (v_obj r')) n) = option_map (blob_of s) (nth_error (o_parts (v_obj r)) n).
Proof. exact transition_routes_bytes. Qed.
Print Assumptions C14_transition_routes.

Theorem C14_transition_reads_same : forall cfg s k v c im s' i r,
  step cfg s (OTransition k v c im) = (s', None) ->
  resolve (versions_of k (s_objs s)) v = Some i -> nth_error (versions_of k (s_objs s)) i = Some r ->
  (forall p, In p (o_parts (v_obj r)) -> (p_id p < s_nextp s)%N) ->
  (forall p q, In p (o_parts (v_obj r)) -> In q (o_parts (v_obj r)) -> p_id p = p_id q -> p_store p = p_store q) ->
  read s' k v = read s k v.
Proof. exact transition_reads_same. Qed.
Print Assumptions C14_transition_reads_same.

(* shared / deduplicated parts survive the transition of one of their sharers: a stored part keeps its bytes
   unless the transitioned version holds ALL registered references to its id (the refcount argument) *)
Theorem C14_shared_parts_survive : forall cfg s k v c im s' i r st id,
  step cfg s (OTransition k v c im) = (s', None) ->
  resolve (versions_of k (s_objs s)) v = Some i -> nth_error (versions_of k (s_objs s)) i = Some r ->
  (id < s_nextp s)%N ->
  (rows_with id (o_parts (v_obj r)) = 0 \/ rows_with id (o_parts (v_obj r)) < reg_get id (s_reg s))%N ->
  blob_get (st, id) (s_blobs s') = blob_get (st, id) (s_blobs s).
Proof. exact transition_spares. Qed.
Print Assumptions C14_shared_parts_survive.

Theorem C14_sharers_stay_readable : forall cfg s k v c im s' i r qs,
  step cfg s (OTransition k v c im) = (s', None) ->
  resolve (versions_of k (s_objs s)) v = Some i -> nth_error (versions_of k (s_objs s)) i = Some r ->
  (forall q, In q qs -> (p_id q < s_nextp s)%N /\
       (rows_with (p_id q) (o_parts (v_obj r)) = 0 \/ rows_with (p_id q) (o_parts (v_obj r)) < reg_get (p_id q) (s_reg s))%N) ->
  read_parts s' qs = read_parts s qs.
Proof. exact transition_spares_object. Qed.
Print Assumptions C14_sharers_stay_readable.

(* every OTHER version of the key — also one that shares (deduplicated) parts with the addressed one — is the
   same row afterwards, is addressed by the same selectors, and reads the same bytes *)
Theorem C14_other_versions_untouched : forall cfg s k v c im s' i r j rj,
  step cfg s (OTransition k v c im) = (s', None) ->
  resolve (versions_of k (s_objs s)) v = Some i -> nth_error (versions_of k (s_objs s)) i = Some r ->
  j <> i -> nth_error (versions_of k (s_objs s)) j = Some rj ->
  (forall q, In q (o_parts (v_obj rj)) -> (p_id q < s_nextp s)%N /\
       (rows_with (p_id q) (o_parts (v_obj r)) = 0 \/ rows_with (p_id q) (o_parts (v_obj r)) < reg_get (p_id q) (s_reg s))%N) ->
  nth_error (versions_of k (s_objs s')) j = Some rj /\
  (forall w, resolve (versions_of k (s_objs s')) w = resolve (versions_of k (s_objs s)) w) /\
  read_parts s' (o_parts (v_obj rj)) = read_parts s (o_parts (v_obj rj)).
Proof. exact transition_other_versions. Qed.
Print Assumptions C14_other_versions_untouched.

(* an If-Match that differs from the ETag of the ADDRESSED version refuses the transition *)
Theorem C14_ifmatch_mismatch_refused : forall cfg s k v c n i r rr,
  known_version s k v = true -> valid_class c = true ->
  resolve (versions_of k (s_objs s)) v = Some i -> nth_error (versions_of k (s_objs s)) i = Some r -> v_dm r = false ->
  find_row s k (VOrd n) = Some rr -> v_dm rr = false -> etag_eqb (v_obj r) (v_obj rr) = false ->
  step cfg s (OTransition k v c (IMOrd n)) = (s, Some PreconditionFailed).
Proof. exact transition_ifmatch_mismatch. Qed.
Print Assumptions C14_ifmatch_mismatch_refused.

(* failure cases (unknown version, delete marker, invalid class, If-Match, ...) leave the state unchanged — any
   operation, any configuration *)
Theorem C14_failure_leaves_state_unchanged : forall cfg s o e,
  snd (step cfg s o) = Some e -> fst (step cfg s o) = s.
Proof. exact failed_step_unchanged. Qed.
Print Assumptions C14_failure_leaves_state_unchanged.

(* readable everywhere, in whatever KIND of store the parts live: GetObject streams without a transaction iff
   every configured store is transaction-free capable, so for EVERY assignment of kinds to stores, every state
   (hence every history and every class -> store configuration, remapped or not) and every list of part rows
   the mode chosen is admissible for every store holding one of the parts ... *)
Theorem C14_read_mode_admissible : forall kd ps,
  forallb (part_mode_ok kd (tx_free_streaming kd)) ps = true.
Proof. exact read_mode_admissible. Qed.
Print Assumptions C14_read_mode_admissible.

(* ... hence the read through the mode decision returns exactly the bytes the part rows are backed by: no
   object becomes unreadable or different because of the kind of store it was routed or transitioned to *)
Theorem C14_readable_in_every_store_kind : forall kd s k v,
  read_k kd s k v = read s k v /\
  (forall ps, read_parts_k kd s ps = read_parts s ps).
Proof. intros. split; [apply read_k_eq | intros; apply read_parts_k_eq]. Qed.
Print Assumptions C14_readable_in_every_store_kind.

(* with store kinds: the transitioned version reads the same bytes before and after, whatever kinds the old and
   the new store have (into and out of a transaction-bound store, by key or by version id) *)
Theorem C14_transition_reads_same_any_kind : forall kd cfg s k v c im s' i r,
  step cfg s (OTransition k v c im) = (s', None) ->
  resolve (versions_of k (s_objs s)) v = Some i -> nth_error (versions_of k (s_objs s)) i = Some r ->
  (forall p, In p (o_parts (v_obj r)) -> (p_id p < s_nextp s)%N) ->
  (forall p q, In p (o_parts (v_obj r)) -> In q (o_parts (v_obj r)) -> p_id p = p_id q -> p_store p = p_store q) ->
  read_k kd s' k v = read_k kd s k v.
Proof. intros. rewrite !read_k_eq. eapply transition_reads_same; eauto. Qed.
Print Assumptions C14_transition_reads_same_any_kind.

(* the intersection matters: a mode decided from a single store (say the default one) is NOT admissible in general *)
Theorem C14_single_store_mode_refuted :
  exists kd p, part_mode_ok kd (negb (needs_tx kd 0)) p = false.
Proof. exact single_store_mode_inadmissible. Qed.
Print Assumptions C14_single_store_mode_refuted.

(* reads never consult the class -> store configuration (true by construction of the model; tied to ByName by
   the executed correspondence) *)
Theorem C14_read_ignores_configuration : forall kd cfg cfg' s k v,
  step cfg s (ORead k v) = step cfg' s (ORead k v) /\ show_result kd (fst (step cfg s (ORead k v))) (ORead k v) None = show_read kd s k v.
Proof. intros. split; reflexivity. Qed.
Print Assumptions C14_read_ignores_configuration.

(* ---- non-trivial instances ---- *)
Definition C14_kf : kinds := [false; false; false].
Definition C14_cfg1 : config := [(B"GLACIER", 1%N)].
Definition C14_cfg2 : config := [(B"GLACIER", 2%N); (B"STANDARD", 1%N)].
(* two keys with identical content in store 1 share one deduplicated part *)
Definition C14_shared_state : state :=
  run C14_cfg1 init [OPut (0, 0)%N (Some B"GLACIER") 7 1 1; OPut (0, 1)%N (Some B"GLACIER") 7 2 2].
Example C14_ex_shared : show_counts C14_shared_state = B"0,1,0" /\ reg_get 0 (s_reg C14_shared_state) = 2%N.
Proof. vm_compute. split; reflexivity. Qed.
Example C14_ex_transition :
  let s' := fst (step C14_cfg1 C14_shared_state (OTransition (0, 0)%N VLatest B"STANDARD" IMNone)) in
  show_read C14_kf s' (0, 0)%N VLatest = B"5354414e44415244|7|1|1|0|s" /\
  show_read C14_kf s' (0, 1)%N VLatest = B"474c4143494552|7|2|2|1|s" /\ show_counts s' = B"1,1,0".
Proof. vm_compute. repeat split; reflexivity. Qed.
(* the lifecycle case: a null version written while unversioned becomes noncurrent under a newer version with the
   SAME content (same ETag, one shared part); transitioning "null" changes the null row only *)
Definition C14_noncurrent_null : state :=
  run C14_cfg1 init [OPut (0, 0)%N None 7 1 1; OVersioning 0 Enabled; OPut (0, 0)%N None 7 2 2].
Example C14_ex_null_noncurrent :
  let s' := fst (step C14_cfg1 C14_noncurrent_null (OTransition (0, 0)%N VNull B"GLACIER" (IMOrd 1))) in
  show_read C14_kf C14_noncurrent_null (0, 0)%N VNull = B"5354414e44415244|7|1|1|0|s" /\
  reg_get 0 (s_reg C14_noncurrent_null) = 2%N /\
  show_read C14_kf s' (0, 0)%N VNull = B"474c4143494552|7|1|1|1|s" /\
  show_read C14_kf s' (0, 0)%N VLatest = B"5354414e44415244|7|2|2|0|s" /\
  show_read C14_kf s' (0, 0)%N (VOrd 1) = B"5354414e44415244|7|2|2|0|s".
Proof. vm_compute. repeat split; reflexivity. Qed.
(* remapped configuration: written under cfg1 (STANDARD -> store 0); under cfg2 STANDARD and STANDARD_IA... here
   GLACIER maps to store 2 and STANDARD to store 1: an object recorded in store 0 with class STANDARD that is
   transitioned to REDUCED_REDUNDANCY (unmapped -> store 0) stays, one transitioned to STANDARD moves to store 1 *)
Example C14_ex_remap_recorded_store :
  let s0 := run C14_cfg1 init [OPut (0, 2)%N None 5 0 0] in
  let s1 := fst (step C14_cfg2 s0 (OTransition (0, 2)%N VLatest B"STANDARD" IMNone)) in
  show_read C14_kf s0 (0, 2)%N VLatest = B"5354414e44415244|5|0|0|0|s" /\
  show_read C14_kf s1 (0, 2)%N VLatest = B"5354414e44415244|5|0|0|1|s".
Proof. vm_compute. repeat split; reflexivity. Qed.
(* mixed kinds: default = filesystem, store 1 = SQL part store; a multipart object in GLACIER lives in the
   transaction-bound store, a ranged read crosses its parts, and a transition by version id moves it out *)
Example C14_ex_mixed_kinds :
  let kd := [false; true; false] in
  let s0 := run C14_cfg1 (fst (step C14_cfg1 init (OVersioning 0 Enabled))) [OMultipart (0, 0)%N (Some B"GLACIER") [1; 2]%N] in
  let s1 := fst (step C14_cfg1 s0 (OTransition (0, 0)%N (VOrd 0) B"STANDARD" IMStar)) in
  tx_free_streaming kd = false /\ show_read kd s0 (0, 0)%N VLatest = B"474c4143494552|1.2|0|0|1.1|m2" /\ show_range kd s0 (0, 0)%N VLatest [(20, 40); (0, 1000)]%N = B"1@20+8.2@0+12,1@0+28.2@0+33" /\ show_read kd s1 (0, 0)%N (VOrd 0) = B"5354414e44415244|1.2|0|0|0.0|m2".
Proof. vm_compute. repeat split; reflexivity. Qed.
