(* Properties/C35.v — checksum arithmetic is exact.
   Only statements, [exact]s to Proofs/CrcProofs.v, non-vacuity examples and Print Assumptions. *)
From Verif Require Import Bytes Codec Crc CrcProofs.

(* combining the CRCs of two byte strings with the length of the second equals the CRC of their
   concatenation — for every reflected CRC whose initial value equals its final xor (all three
   variants pithos uses), every a and every b (including b = []).  The arguments are exactly what
   createCombineFunction passes to combine. *)
Theorem C35_combine_correct : forall P,
  (8 <= width P)%nat -> (poly_refl P < 2 ^ N.of_nat (width P))%N ->
  (init P < 2 ^ N.of_nat (width P))%N -> xorout P = init P ->
  forall a b,
  combine (poly_refl P) (width P) (N.lxor 0 (xorout P)) (xorout P) (crc P a) (crc P b) (lenN b) = crc P (a ++ b).
Proof. intros P H1 H2 H3 H4. apply combine_correct. repeat split; assumption. Qed.
Print Assumptions C35_combine_correct.

(* the three exported functions on digests (big-endian byte strings as returned by hash.Hash.Sum),
   including the bit reversal of the normal-form polynomial done by createCombineFunction *)
Theorem C35_combine_crc32 : forall a b,
  combine_crc32 (crc_digest crc32_params a) (crc_digest crc32_params b) (lenN b) = crc_digest crc32_params (a ++ b).
Proof. exact combine_crc32_correct. Qed.
Print Assumptions C35_combine_crc32.

Theorem C35_combine_crc32c : forall a b,
  combine_crc32c (crc_digest crc32c_params a) (crc_digest crc32c_params b) (lenN b) = crc_digest crc32c_params (a ++ b).
Proof. exact combine_crc32c_correct. Qed.
Print Assumptions C35_combine_crc32c.

Theorem C35_combine_crc64nvme : forall a b,
  combine_crc64nvme (crc_digest crc64nvme_params a) (crc_digest crc64nvme_params b) (lenN b) =
  crc_digest crc64nvme_params (a ++ b).
Proof. exact combine_crc64nvme_correct. Qed.
Print Assumptions C35_combine_crc64nvme.

(* the identity the algorithm rests on: appending b shifts crc(a) through 8|b| zero bits *)
Theorem C35_crc_concat_shift : forall P a b, xorout P = init P ->
  crc P (a ++ b) = N.lxor (iter (8 * length b) (step0 P) (crc P a)) (crc P b).
Proof. exact crc_app_shift. Qed.
Print Assumptions C35_crc_concat_shift.

(* gf2_matrix_times computes the linear operator whose columns the matrix holds, and
   gf2_matrix_square composes it with itself *)
Theorem C35_matrix_times_represents : forall W m f v,
  (forall a b, f (N.lxor a b) = N.lxor (f a) (f b)) ->
  length m = W -> (forall i, (i < W)%nat -> nth i m 0%N = f (N.shiftl 1 (N.of_nat i))) ->
  (v < 2 ^ N.of_nat W)%N -> matrix_times m v = f v.
Proof. intros W m f v L Hl Hc Hv. apply (matrix_times_spec W m f v L (conj Hl Hc) Hv). Qed.
Print Assumptions C35_matrix_times_represents.

Theorem C35_matrix_square_composes : forall W m f,
  (forall a b, f (N.lxor a b) = N.lxor (f a) (f b)) ->
  (forall x, (x < 2 ^ N.of_nat W)%N -> (f x < 2 ^ N.of_nat W)%N) ->
  length m = W -> (forall i, (i < W)%nat -> nth i m 0%N = f (N.shiftl 1 (N.of_nat i))) ->
  length (matrix_square m) = W /\
  forall i, (i < W)%nat -> nth i (matrix_square m) 0%N = f (f (N.shiftl 1 (N.of_nat i))).
Proof. intros W m f L Pf Hl Hc. exact (square_represents W m f L Pf (conj Hl Hc)). Qed.
Print Assumptions C35_matrix_square_composes.

(* streaming = one shot, Gallina CRC register: feeding any split of the input *)
Theorem C35_streaming_eq_oneshot : forall P ws,
  fold_left (raw P) ws (init P) = raw P (init P) (concat ws).
Proof. intros P ws. apply raw_feed_concat. Qed.
Print Assumptions C35_streaming_eq_oneshot.

(* the parallel writer: for every write schedule and every block size, the blocks handed to the
   hash workers (after Flush) concatenate to the written bytes ... *)
Theorem C35_blocks_concat : forall BS ws, 0 < BS -> concat (dispatched BS ws) = concat ws.
Proof. exact blocks_concat. Qed.
Print Assumptions C35_blocks_concat.

(* ... every block but the last is exactly one block size, the last is non-empty and shorter ... *)
Theorem C35_blocks_shape : forall BS ws, 0 < BS ->
  exists full last, dispatched BS ws = full ++ last /\ Forall (fun b => length b = BS) full /\
    (last = [] \/ exists b, last = [b] /\ 0 < length b < BS).
Proof. exact blocks_shape. Qed.
Print Assumptions C35_blocks_shape.

(* ... so a CRC fed block-wise through the writer equals the one-shot CRC for every read chunking *)
Theorem C35_stream_crc_eq_oneshot : forall P BS ws, 0 < BS -> stream_crc P BS ws = crc P (concat ws).
Proof. exact stream_crc_oneshot. Qed.
Print Assumptions C35_stream_crc_eq_oneshot.

(* ... and so does every hash whose Write is a monoid action on its state (MD5, SHA-1, SHA-256 are
   kept abstract: this hypothesis is the contract of hash.Hash, exercised against the stdlib one-shot
   functions by the harness) *)
Theorem C35_stream_hash_eq_oneshot : forall (S : Type) (upd : S -> bytes -> S) s0 BS ws, 0 < BS ->
  (forall s, upd s [] = s) -> (forall s a b, upd (upd s a) b = upd s (a ++ b)) ->
  stream_hash upd s0 BS ws = upd s0 (concat ws).
Proof. intros S upd s0 BS ws. apply stream_hash_oneshot. Qed.
Print Assumptions C35_stream_hash_eq_oneshot.

(* the TeeReader's writes for any read-size schedule concatenate to the content *)
Theorem C35_chunks_concat : forall lens c, concat (chunks lens c) = c.
Proof. exact chunks_concat. Qed.
Print Assumptions C35_chunks_concat.

(* the length-level closed form run by the correspondence check at the real block size is the
   byte-level writer's block-length sequence *)
Theorem C35_block_lens_agree : forall BS ws, 0 < BS ->
  map lenN (dispatched BS ws) = block_lens (N.of_nat BS) (map lenN ws).
Proof. exact block_lens_agree. Qed.
Print Assumptions C35_block_lens_agree.

(* non-vacuity: the parameter sets satisfy the hypotheses; concrete values *)
Example C35_ex_params_ok :
  (8 <= width crc64nvme_params)%nat /\ (poly_refl crc64nvme_params < 2 ^ N.of_nat (width crc64nvme_params))%N /\
  (init crc64nvme_params < 2 ^ N.of_nat (width crc64nvme_params))%N /\ xorout crc64nvme_params = init crc64nvme_params.
Proof. exact wf_crc64nvme. Qed.
Example C35_ex_check_values :   (* the standard check values of "123456789" *)
  crc crc32_params B"123456789" = 3421780262%N (* 0xCBF43926 *) /\
  crc crc32c_params B"123456789" = 3808858755%N (* 0xE3069283 *) /\
  crc crc64nvme_params B"123456789" = 12577168950296156296%N (* 0xAE8B14860A799888 *).
Proof. vm_compute. repeat split; reflexivity. Qed.
Example C35_ex_combine :
  combine_crc32 (crc_digest crc32_params B"1234") (crc_digest crc32_params B"56789") 5 = be_enc 4 3421780262.
Proof. vm_compute. reflexivity. Qed.
Example C35_ex_blocks :
  map (@length byte) (dispatched 4 [B"ab"; B"cdefghi"; []; B"j"]) = [4; 4; 2]%nat /\
  block_lens 4 [2; 7; 0; 1]%N = [4; 4; 2]%N.
Proof. vm_compute. split; reflexivity. Qed.
