(* Properties/C04.v — ETags and checksums always describe the stored bytes.
   Only statements, [exact]s to Proofs/EtagProofs.v, non-vacuity examples and Print Assumptions.
   MD5 / SHA-1 / SHA-256 values are symbolic terms ([HOne c] = H(c), [HCat cs] = H(H(c1)..H(cn))-n); the
   specification values [spec_single] / [spec_multi] are defined in Model/Etag.v, the predicates in Spec/EtagSpec.v. *)
From Verif Require Import Bytes Codec Crc Etag EtagSpec EtagProofs.

(* FULL_OBJECT: CalculateMultipartChecksums' fold of Combine over the part CRCs is the CRC of the concatenated
   bytes, for every non-empty part list and all three CRC variants (from C35's law by induction on the parts) *)
Theorem C04_full_object_crc_correct : forall s cs, is_crc_slot s = true -> cs <> [] ->
  combine_parts s None false (map (fun c => {| p_content := c; p_has := true |}) cs) =
  (Some (crc_digest (crc_params_of s) (concat cs)), false).
Proof. intros s cs Hs Hne. exact (combine_parts_full s cs Hs Hne). Qed.
Print Assumptions C04_full_object_crc_correct.

(* every value CalculateMultipartChecksums returns for an upload's parts is the value the property prescribes
   (ETag = MD5-of-part-MD5s-n; FULL_OBJECT CRC of the whole; COMPOSITE digest-of-digests-n), and it returns a
   value exactly on the slots listed by [computed_multi] *)
Theorem C04_multipart_checksums_spec : forall cs ty s,
  multipart_cks (map (fun c => {| p_content := c; p_has := true |}) cs) ty s =
  if computed_multi cs ty s then Some (spec_multi cs ty s) else None.
Proof. exact multipart_cks_spec. Qed.
Print Assumptions C04_multipart_checksums_spec.

(* after ANY history of put / create / upload-part / upload-part-copy / complete / append / copy / ranged copy /
   head / list-parts (with any supplied checksums), every stored object's ETag is MD5(content) (single part) or
   MD5-of-part-MD5s-n, every stored checksum is the prescribed function of the object's bytes, and every value
   an operation reported describes the bytes it is about *)
Theorem C04_state_describes_bytes : forall ops,
  (forall k o, lookup k (st_objs (fst (run init_state ops))) = Some o ->
     (exists v, o_cks o SEtag = Some v /\
        ((v = VH (HOne (concat (o_parts o))) /\ length (o_parts o) = 1) \/ v = VH (HCat (o_parts o)))) /\
     (forall s v, s <> SEtag -> o_cks o s = Some v -> v = spec_multi (o_parts o) (o_type o) s)) /\
  Forall res_ok (snd (run init_state ops)).
Proof. intros ops. exact (run_ok ops init_state init_ok). Qed.
Print Assumptions C04_state_describes_bytes.

(* "a supplied checksum that disagrees makes the write fail", at full strength: whenever a write that would
   otherwise be carried out carries, in some slot, a value different from the prescribed one *)
Definition C04_bad_digest_rejected_full : Prop := forall st o sup s,
  op_sup o = Some sup -> op_ready st o -> wrong_at sup (op_spec st o) s ->
  step st o = (st, RErr BadDigest).

(* refuted on the faithful model: completing a FULL_OBJECT upload with a wrong x-amz-checksum-sha256 succeeds
   (CalculateMultipartChecksums computes no SHA for FULL_OBJECT, ValidateChecksums skips the nil side) *)
Theorem C04_bad_digest_rejected_refuted : ~ C04_bad_digest_rejected_full.
Proof.
  intros H. destruct witness_accepted as [Hr [Hw Hacc]].
  specialize (H wit_state wit_op wit_sup SSha256 eq_refl Hr Hw). rewrite H in Hacc. apply Hacc. reflexivity.
Qed.
Print Assumptions C04_bad_digest_rejected_refuted.

(* the strongest true statement: the write fails with BadDigest and leaves the state unchanged whenever the
   wrong value sits in a slot the code computes for that operation: every slot for put / upload-part / append;
   for complete the slots of [computed_multi] (FULL_OBJECT: ETag and the three CRCs; COMPOSITE: ETag, CRC32,
   CRC32C, SHA-1, SHA-256) *)
Theorem C04_bad_digest_rejected_partial : forall st o sup s,
  op_sup o = Some sup -> op_ready st o -> wrong_at sup (op_spec st o) s -> op_computed st o s = true ->
  step st o = (st, RErr BadDigest).
Proof. exact bad_digest_partial. Qed.
Print Assumptions C04_bad_digest_rejected_partial.

(* non-vacuity *)
Example C04_ex_history :
  let ops := [OPut B"k" B"ab" no_cks; OCreate B"m" FullObject; OPart 0 1 B"ab" no_cks; OPart 0 2 B"c" no_cks;
              OComplete 0 no_cks; OAppend B"k" B"c" no_cks; OHead B"m"; OHead B"k"] in
  map show_res (snd (run init_state ops)) =
  [B"OK,MD5,9e83486d,e2a22936,eb4fb212c8b65432,SHA1,SHA256"; B"OK";
   B"OK,MD5,9e83486d,e2a22936,eb4fb212c8b65432,SHA1,SHA256"; B"OK,MD5,06b9df6f,20eb33c7,72f265d5d4a0eece,SHA1,SHA256";
   B"OK,MD5CAT-2,352441c2,364b3fb7,05e5cabb3fc1faeb,-,-,FULL_OBJECT"; B"OK,MD5CAT-2,3";
   B"OK,MD5CAT-2,352441c2,364b3fb7,05e5cabb3fc1faeb,-,-,FULL_OBJECT,3"; B"OK,MD5CAT-2,-,-,-,-,-,FULL_OBJECT,3"].
Proof. vm_compute. reflexivity. Qed.
Example C04_ex_rejected :   (* a wrong CRC32C on a put *)
  snd (step init_state (OPut B"k" B"ab" (fun s => match s with SCrc32c => Some (bad (spec_single B"ab" s)) | _ => None end)))
  = RErr BadDigest.
Proof. vm_compute. reflexivity. Qed.
