(* Properties/C09.v — C09 "unreferenced parts are eventually reclaimed" (Model/MetaGc.v over Model/Meta.v).
   "Eventually" is proved as: ONE sequential run of the collector ([gc_run young g], the composition of the
   GC steps of the trace model in the order of runGCWithContext) in a quiescent state does it.
   Statements + exact-lemma proofs + Print Assumptions only. *)
From Verif Require Import Bytes Codec Md5 Meta MetaGc MetaGcConverge MetaGcFinal.

(* For EVERY state (no invariant assumed: corrupted/missing registry rows, stale or missing dedup entries,
   orphan files, states left by failed operations are all in the domain) with no external delete pending,
   and every set [young] of ids still inside the grace window, a GC run
   - leaves objects, part rows and buckets alone,
   - makes the registry exact (ref_count = number of part rows, row absent iff 0),
   - leaves only dedup entries that point at referenced parts,
   - removes a stored id iff it is unreferenced and not young, and changes no other store entry
     (in particular no referenced part: the C08 direction for the sequential collector),
   - never touches the invisible leftovers and leaves no work pending. *)
Theorem C09_gc_converges : forall young g, g_cond g = [] ->
  let s := ms g in let s' := ms (gc_run young g) in
  parts s' = parts s /\ objs s' = objs s /\ buckets s' = buckets s
  /\ (forall pid, reg_get (registry s') pid =
                  if N.eqb (live_rows s' pid) 0 then None else Some (live_rows s' pid))
  /\ (forall c p, In (c, p) (dedup s') -> live_rows s p <> 0%N)
  /\ (forall p, store_get (store s') p =
                if N.eqb (live_rows s p) 0 && negb (mem_N p young) then None else store_get (store s) p)
  /\ g_junk (gc_run young g) = g_junk g /\ g_cond (gc_run young g) = [].
Proof. exact gc_converges. Qed.
Print Assumptions C09_gc_converges.

(* With the grace window elapsed, in every quiescent state reachable by ANY interleaving of operations,
   GC steps and crashes, after a GC run the part store holds EXACTLY the referenced parts, each with the
   bytes recorded by its part rows *)
Theorem C09_store_is_exactly_the_referenced_set : forall tr,
  let g := run_trace ginit tr in
  g_cond g = [] ->
  let g' := gc_run [] g in
  forall p c, store_get (store (ms g')) p = Some c <->
              exists row, In row (parts (ms g')) /\ p_pid row = p /\ p_content row = c.
Proof. exact gc_converges_reachable. Qed.
Print Assumptions C09_store_is_exactly_the_referenced_set.

(* The property with crash points in the quantifier: after quiescence and a GC run the part directory holds
   nothing but referenced parts — in particular no leftover file of a crashed operation. *)
Definition C09_converges_full : Prop := forall tr,
  let g := run_trace ginit tr in
  g_cond g = [] ->
  let g' := gc_run [] g in
  g_junk g' = [] /\
  forall p c, store_get (store (ms g')) p = Some c <->
              exists row, In row (parts (ms g')) /\ p_pid row = p /\ p_content row = c.

(* REFUTED: a writer that dies after PutPart wrote ".<id>.<rnd>.tmp" (before the pre-commit publication), or
   after the commit but before its after-commit hook removed "<id>.txbackup.<ulid>", leaves a file that
   GetPartIds never lists; no GC run and no start-up code removes it. *)
Theorem C09_converges_full_refuted : ~ C09_converges_full.
Proof. exact gc_full_refuted. Qed.
Print Assumptions C09_converges_full_refuted.

(* the second witness: an overwrite that dies after its commit leaves the replaced part's backup file *)
Theorem C09_backup_leftover_witness :
  let tr := [SOp 0 [] (OMb B"b"); SOp 1 [] (OPut B"b" B"k" B"old" CRNone);
             SCrashAfterCommit 2 [] (OPut B"b" B"k" B"new" CRNone)] in
  g_junk (gc_run [] (gc_run [] (run_trace ginit tr))) = [(JBackup, B"old")].
Proof. exact gc_backup_witness. Qed.
Print Assumptions C09_backup_leftover_witness.

(* PARTIAL (strongest true statement): excluded are exactly the two crash windows that leave invisible files;
   a crash between publication and commit (a visible orphan, SCrashPublished) is NOT excluded *)
Theorem C09_converges_partial : forall tr,
  forallb (fun st => negb (is_crash st)) tr = true ->
  let g := run_trace ginit tr in
  g_cond g = [] ->
  let g' := gc_run [] g in
  g_junk g' = [] /\
  forall p c, store_get (store (ms g')) p = Some c <->
              exists row, In row (parts (ms g')) /\ p_pid row = p /\ p_content row = c.
Proof. exact gc_converges_no_crash. Qed.
Print Assumptions C09_converges_partial.

(* non-vacuity: a GC run with real work — an orphan, a zero-count registry row, a drifted count, a stale
   dedup entry — ends with the one referenced part and an exact registry *)
Example C09_ex_reclaims :
  let g0 := run_trace ginit [SOp 0 [] (OMb B"b"); SOp 1 [] (OPut B"b" B"k" B"live" CRNone); SCrashPublished B"dead"] in
  let g1 := set_ms g0 (set_dedup (set_registry (ms g0) [(1, 7); (2, 0)]%N) [(B"live", 1%N); (B"dead", 2%N)]) in
  let g2 := gc_run [] g1 in
  store (ms g2) = [(1%N, B"live")] /\ registry (ms g2) = [(1, 1)]%N /\ dedup (ms g2) = [(B"live", 1%N)].
Proof. vm_compute. repeat split; reflexivity. Qed.
