(* Properties/C10.v — Operations are all-or-nothing across process crashes (kill -9; no power-loss modelling).
   M-TX (Model/Tx.v) with crash points (Model/Crash.v): after any number of body steps (temp files written),
   between the two renames of PutPart's pre-commit hook, after each pre-commit hook, after the database commit,
   after each after-commit hook.  Durable state = committed database state + directory as it is; recovery = reopen
   (no start-up code looks at temp or backup files).  [refs d] = the part ids referenced by the objects visible in
   database state d.  Statements + exact-lemma proofs + Print Assumptions only. *)
From Verif Require Import Bytes Codec Tx TxProofs Crash CrashProofs.

(* (1) a crash before the database commit: committed state unchanged and NO final part file other than those of the
   ids named by the transaction's own PutPart/DeletePart calls is touched — all programs, all crash points *)
Theorem C10_before_commit_untouched : forall (D : Type) (prog : list (tstep D)) dbc fs0 pt d f,
  match pt with CBody _ | CPreHalf _ | CPre _ => True | _ => False end ->
  crash_at pt prog dbc fs0 = Some (d, f) ->
  d = dbc /\ forall id, ~ In id (prog_ids prog) -> f (PFinal id) = fs0 (PFinal id).
Proof. exact crash_before_commit. Qed.
Print Assumptions C10_before_commit_untouched.

(* (2) a crash after the database commit: the operation is entirely applied — committed state and every final part
   file are those of the completed operation (only backup files may be left over) *)
Theorem C10_after_commit_applied : forall (D : Type) (prog : list (tstep D)) dbc fs0 pt d f,
  match pt with CCommit | CAfter _ => True | _ => False end ->
  crash_at pt prog dbc fs0 = Some (d, f) ->
  let '(ok, w, fsF) := run_tx FNone prog dbc fs0 in
  d = w /\ forall id, f (PFinal id) = fsF (PFinal id).
Proof. exact crash_after_commit. Qed.
Print Assumptions C10_after_commit_applied.

(* (3) all-or-nothing + readability for every operation whose transaction does not PutPart/DeletePart a part id that
   a visible object references before the operation (puts of fresh parts, appends, uploads, dedup hits, copies):
   at EVERY crash point the durable state is the pre-state or the post-state ... *)
Theorem C10_crash_safe_partial : forall (D : Type) (refs : D -> list N) (prog : list (tstep D)) dbc fs0 pt d f,
  (forall id, In id (prog_ids prog) -> ~ In id (refs dbc)) ->
  crash_at pt prog dbc fs0 = Some (d, f) ->
  let '(ok, w, fsF) := run_tx FNone prog dbc fs0 in
  (d = dbc /\ forall id, In id (refs dbc) -> f (PFinal id) = fs0 (PFinal id)) \/
  (d = w /\ forall id, f (PFinal id) = fsF (PFinal id)).
Proof. exact crash_safe_unreferenced. Qed.
Print Assumptions C10_crash_safe_partial.

(* ... and every visible object's parts are present *)
Theorem C10_readable_partial : forall (D : Type) (refs : D -> list N) (prog : list (tstep D)) dbc fs0 pt d f,
  (forall id, In id (prog_ids prog) -> ~ In id (refs dbc)) ->
  crash_at pt prog dbc fs0 = Some (d, f) ->
  (forall id, In id (refs dbc) -> fs0 (PFinal id) <> None) ->
  let '(ok, w, fsF) := run_tx FNone prog dbc fs0 in
  (forall id, In id (refs w) -> fsF (PFinal id) <> None) ->
  forall id, In id (refs d) -> f (PFinal id) <> None.
Proof. exact crash_readable_unreferenced. Qed.
Print Assumptions C10_readable_partial.

(* (4) the property at full strength — ANY operation, in particular one that deletes or replaces a referenced part
   file (overwrite in an unversioned bucket, delete, abort, complete replacing the null version, transition) — is
   FALSE: DeletePart's pre-commit hook renames the file to its backup name BEFORE the database commit; a crash
   in between leaves the old committed rows pointing at a file that is gone, and nothing restores backups *)
Definition C10_full : Prop :=
  forall (refs : N -> list N) (prog : list (tstep N)) (dbc : N) (fs0 : fsys) pt d f,
  (forall n, fs0 (PTemp n) = None /\ fs0 (PBackup n) = None) ->
  NoDup (prog_ids prog) ->
  crash_at pt prog dbc fs0 = Some (d, f) ->
  let '(ok, w, fsF) := run_tx FNone prog dbc fs0 in
  (d = dbc /\ forall id, In id (refs dbc) -> f (PFinal id) = fs0 (PFinal id)) \/
  (d = w /\ forall id, f (PFinal id) = fsF (PFinal id)).
Theorem C10_full_refuted : ~ C10_full.
Proof.
  intros H.
  specialize (H (fun d => if N.eqb d 0 then [1%N] else []) [SDb (fun _ => 5%N); SDel 1%N] 0%N
                (init_fs [(1%N, B"aa")]) (CPre 0) 0%N
                (fst (rename (PFinal 1%N) (PBackup 1) (init_fs [(1%N, B"aa")])))).
  assert (Hfresh : forall n, init_fs [(1%N, B"aa")] (PTemp n) = None /\ init_fs [(1%N, B"aa")] (PBackup n) = None)
    by (intros n; split; reflexivity).
  assert (Hnd : NoDup (prog_ids [SDb (fun _ : N => 5%N); SDel 1%N])) by (repeat constructor; intros []).
  specialize (H Hfresh Hnd eq_refl). cbn in H. destruct H as [[_ H]|[H _]].
  - specialize (H 1%N (or_introl eq_refl)). discriminate.
  - discriminate.
Qed.
Print Assumptions C10_full_refuted.

(* non-vacuity: a put of a fresh part next to an existing object is safe at the crash point that breaks a delete *)
Example C10_ex_put_fresh :
  crash_at (CPre 0) [SPut 2%N B"bb"; SDb (fun _ => 5%N)] 0%N (init_fs [(1%N, B"aa")]) <> None /\
  match crash_at (CPre 0) [SPut 2%N B"bb"; SDb (fun _ => 5%N)] 0%N (init_fs [(1%N, B"aa")]) with
  | Some (d, f) => d = 0%N /\ f (PFinal 1%N) = Some B"aa" /\ f (PFinal 2%N) = Some B"bb"
  | None => False
  end.
Proof. vm_compute. split; [discriminate | repeat split]. Qed.
Example C10_ex_delete_torn :
  match crash_at (CPre 0) [SDb (fun _ => 5%N); SDel 1%N] 0%N (init_fs [(1%N, B"aa")]) with
  | Some (d, f) => d = 0%N /\ f (PFinal 1%N) = None /\ f (PBackup 1) = Some B"aa"
  | None => False
  end.
Proof. vm_compute. repeat split. Qed.
