(* Properties/C22.v — event notifications exactly for committed mutations (model: Model/Notify.v). *)
From Verif Require Import Bytes Codec Notify NotifyProofs NotifyStepProofs.

(* RuleMatches = the documented rule: some configured event equals the event name or is a "<prefix>:*" pattern
   whose "<prefix>:" starts the name, and every prefix / suffix filter rule holds for the key (other filter names
   are ignored) — for ALL byte strings *)
Theorem C22_rule_match_spec : forall (r : rule) (name key : bytes),
  rule_matches r name key = true <->
  (exists c, In c (r_events r) /\ (c = name \/ exists p rest, c = p ++ B":*" /\ name = p ++ B":" ++ rest)) /\
  (forall f, In f (r_filters r) ->
     (f_name f = B"prefix" -> exists rest, key = f_value f ++ rest) /\
     (f_name f = B"suffix" -> exists pre, key = pre ++ f_value f)).
Proof. exact rule_matches_spec. Qed.
Print Assumptions C22_rule_match_spec.

(* one mutation through runWithNotifications, with every fault position (the wrapped mutation fails, the j-th
   outbox insert fails, the commit fails): either nothing at all is persisted (state unchanged, no rows), or the
   mutation and exactly the rows of buildEntriesForEvent are persisted together *)
Theorem C22_entry_iff_commit : forall (m : mut) (j : nat) (commitfail : bool) (s s' : st) (ok : bool) (es : list entry),
  run_mut m j commitfail s = (s', ok, es) ->
  (ok = false -> s' = s /\ es = []) /\
  (ok = true -> commitfail = false /\ ~ (0 < j <= length es) /\ s_outbox s' = s_outbox s ++ es /\
     exists b name key, apply_mut m (s_buckets s) = Some (s_buckets s', b, name, key) /\
       es = match blookup b (s_buckets s') with Some bk => entries_for bk b name key | None => [] end).
Proof. exact run_mut_atomic. Qed.
Print Assumptions C22_entry_iff_commit.

(* which rows: one per matching rule of the event's bucket (+ the EventBridge row when enabled), nothing else *)
Theorem C22_entries_are_matching_rules : forall (bk : bucket) (b name key : bytes) (e : entry),
  In e (entries_for bk b name key) <->
  (exists r, In r (b_rules bk) /\ rule_matches r name key = true /\ e = new_entry (r_dest r) name key)
  \/ (b_eb bk = true /\ e = new_entry (eb_dest b) name key).
Proof. exact entries_for_spec. Qed.
Print Assumptions C22_entries_are_matching_rules.

(* histories: after any sequence of mutations with arbitrary faults the outbox is the old outbox followed by the
   rows of the committed mutations, in order (rolled-back mutations contribute [] by C22_entry_iff_commit) *)
Theorem C22_outbox_is_committed_rows : forall (l : list (mut * nat * bool)) (s : st),
  s_outbox (fst (run_muts l s)) = s_outbox s ++ concat (snd (run_muts l s)).
Proof. exact run_muts_outbox. Qed.
Print Assumptions C22_outbox_is_committed_rows.

(* the dispatcher, one outbox row over n rounds with time passing in between (traj = rounds on a singleton, see
   C22_rounds_single): attempts are numbered consecutively; a successful publish is the LAST publish and removes the
   row (never published after the acknowledgement); a row that is still there has only failed publishes, one per
   round while pending (retried every round), and is dead-lettered exactly at attempt MaxAttempts *)
Theorem C22_delivered_or_dead_lettered : forall (c : dcfg) (fails : bytes -> Z -> bool) (n : nat) (e : entry),
  n_state e = Pending true ->
  ((0 < d_maxatt c)%Z -> (n_attempts e < d_maxatt c)%Z) ->
  forall ps r, traj c fails n e = (ps, r) ->
    map p_attempt ps = map (fun i => (n_attempts e + 1 + Z.of_nat i)%Z) (seq 0 (length ps))
    /\ (forall i p, nth_error ps i = Some p -> p_ok p = true -> S i = length ps /\ r = None)
    /\ (r = None -> exists p, nth_error ps (length ps - 1) = Some p /\ p_ok p = true)
    /\ (forall e', r = Some e' ->
          (forall p, In p ps -> p_ok p = false) /\ n_attempts e' = (n_attempts e + Z.of_nat (length ps))%Z /\
          match n_state e' with
          | Dead => (0 < d_maxatt c)%Z /\ n_attempts e' = d_maxatt c
          | Pending _ => length ps = n /\ ((0 < d_maxatt c)%Z -> (n_attempts e' < d_maxatt c)%Z)
          end).
Proof. exact traj_spec. Qed.
Print Assumptions C22_delivered_or_dead_lettered.

(* consequence: with MaxAttempts = m > 0 a fresh row is, after m rounds, delivered or dead-lettered — never pending *)
Theorem C22_settled_after_max_attempts : forall (c : dcfg) (fails : bytes -> Z -> bool) (n : nat) (d ev k : bytes),
  (0 < d_maxatt c)%Z -> (d_maxatt c <= Z.of_nat n)%Z ->
  snd (traj c fails n (new_entry d ev k)) = None \/
  exists e', snd (traj c fails n (new_entry d ev k)) = Some e' /\ n_state e' = Dead /\ n_attempts e' = d_maxatt c.
Proof.
  intros c fails n d ev k Hm Hn.
  destruct (traj c fails n (new_entry d ev k)) as [ps r] eqn:E.
  destruct (traj_spec c fails n (new_entry d ev k) eq_refl ltac:(cbn; lia) ps r E) as (_ & _ & _ & H4).
  destruct r as [e'|]; [|left; reflexivity]. right. exists e'. split; [reflexivity|].
  destruct (H4 e' eq_refl) as (_ & Ha & Hs). cbn in Ha.
  destruct (n_state e'); [|tauto]. destruct Hs as [Hl Hlt]. specialize (Hlt Hm). lia.
Qed.
Print Assumptions C22_settled_after_max_attempts.

(* the rounds of a one-row outbox are that row's trajectory *)
Theorem C22_rounds_single : forall (c : dcfg) (fails : bytes -> Z -> bool) (n : nat) (e : entry),
  rounds c fails n [e] = (fst (traj c fails n e), match snd (traj c fails n e) with Some e' => [e'] | None => [] end).
Proof. intros. apply rounds_single. Qed.
Print Assumptions C22_rounds_single.

(* backoff: for EVERY configuration (after withDefaults) and EVERY attempt count (negative, zero, astronomically
   large) the retry delay lies within [MinBackoff, MaxBackoff], grows monotonically, and is the exponential
   schedule min * 2^(attempts-1) capped at max *)
Theorem C22_backoff_bounds : forall (c : dcfg) (attempts : Z),
  let c' := with_defaults c in
  (0 < d_min c' <= d_max c')%Z /\ (d_min c' <= delay c' attempts <= d_max c')%Z.
Proof. intros c a c'. split; [apply defaults_ok | apply delay_bounds, defaults_ok]. Qed.
Print Assumptions C22_backoff_bounds.

Theorem C22_backoff_exponential_monotone : forall (c : dcfg) (a a' : Z),
  let c' := with_defaults c in
  ((a <= a')%Z -> (delay c' a <= delay c' a')%Z) /\
  ((d_max c' < 2 ^ 63)%Z -> (1 <= a)%Z -> delay c' a = Z.min (d_min c' * 2 ^ (a - 1)) (d_max c')).
Proof.
  intros c a a' c'. split.
  - apply delay_monotone, defaults_ok.
  - apply delay_exponential, defaults_ok.
Qed.
Print Assumptions C22_backoff_exponential_monotone.

(* ================= round 2a: DeleteObjects (multi-object delete) ================= *)

(* one DeleteObjects request through the middleware, with every fault position: either nothing is persisted, or the
   bucket after deciding every entry on the transaction's working copy is persisted together with exactly
   batch_rows of the per-entry results; one result per requested entry *)
Theorem C22_batch_atomic : forall (b : bytes) (ents : list bent) (j : nat) (commitfail : bool) (s s' : st)
                                  (ok : bool) (rs : list bres) (es : list entry),
  run_batch b ents j commitfail s = (s', ok, rs, es) ->
  (ok = false -> s' = s /\ rs = [] /\ es = []) /\
  (ok = true -> commitfail = false /\ ~ (0 < j <= length es) /\ length rs = length ents /\
     s_outbox s' = s_outbox s ++ es /\
     exists bk bk', blookup b (s_buckets s) = Some bk /\ batch_entries bk (map (resolve bk) ents) = (bk', rs) /\
                    s_buckets s' = bset b bk' (s_buckets s) /\ es = batch_rows bk' b (map be_key ents) rs).
Proof. exact run_batch_spec. Qed.
Print Assumptions C22_batch_atomic.

(* the rows of a batch are the rows of exactly the entries reported deleted: a row is enqueued iff some entry i
   was answered Deleted, the row belongs to that entry's key, to the event of that entry (DeleteMarkerCreated iff
   the result says DeleteMarker) and to a matching rule (C22_entries_are_matching_rules); refused entries
   (Deleted=false) contribute nothing *)
Theorem C22_batch_rows_iff_deleted : forall (bk : bucket) (b : bytes) (ks : list bytes) (rs : list bres) (e : entry),
  In e (batch_rows bk b ks rs) <->
  exists i k m, nth_error ks i = Some k /\ nth_error rs i = Some (BDeleted m) /\
                In e (entries_for bk b (if m then ev_marker else ev_del) k).
Proof. exact batch_rows_spec. Qed.
Print Assumptions C22_batch_rows_iff_deleted.

(* a refused entry leaves the working copy as it was *)
Theorem C22_batch_refused_untouched : forall (bk bk' : bucket) (e : rent), batch_entry bk e = (bk', BRefused) -> bk' = bk.
Proof. intros bk bk' e. apply batch_entry_refused. Qed.
Print Assumptions C22_batch_refused_untouched.

(* ================= round 2b: the dispatcher across crashes, lease expiry and several owners =================
   The persisted attempts counter is incremented by the CLAIM.  An owner that claimed and never dispatched is a
   crashed process; [wfail] is a dispatcher whose delete / release / dead-letter write did not happen. *)

(* claims: only a due, not dead-lettered row that is unclaimed or whose lease ran out is claimed; the claim persists
   attempts+1 and the claimer; every other row is untouched, no row appears or disappears *)
Theorem C22_claim_spec : forall (oid : nat) (rs rs' : list row) (id : nat) (a : Z) (e : entry),
  claim_first oid rs = (rs', Some (id, a, e)) ->
  exists r, In r rs /\ w_id r = id /\ claimable r = true /\ e = w_e r /\ a = (n_attempts (w_e r) + 1)%Z /\
            In (with_entry (set_attempts a (w_e r)) (Some (oid, false)) r) rs' /\
            map w_id rs' = map w_id rs /\
            (forall r0, In r0 rs' -> r0 = with_entry (set_attempts a (w_e r)) (Some (oid, false)) r \/ In r0 rs).
Proof. exact claim_first_spec. Qed.
Print Assumptions C22_claim_spec.

Theorem C22_dead_or_leased_not_claimable : forall (r : row),
  (n_state (w_e r) = Dead -> claimable r = false) /\ (forall o, w_claim r = Some (o, false) -> claimable r = false).
Proof. intros r. split; [apply dead_not_claimable | intros o; apply live_lease_not_claimable]. Qed.
Print Assumptions C22_dead_or_leased_not_claimable.

(* THE DEAD-LETTER RULE: whenever the claim owner handles a failed attempt whose attempts value is >= its
   MaxAttempts > 0 — equal to it or, after crashed claims / a lowered MaxAttempts, already beyond it — the row is
   dead-lettered at once (and by C22_dead_or_leased_not_claimable never claimed, hence never dispatched, again) *)
Theorem C22_dead_letter_at_or_past_max : forall (c : dcfg) (fails : bytes -> Z -> bool) (o : owner) (id : nat) (a : Z)
                                                (e : entry) (rs : list row),
  o_held o = Some (id, a, e) -> holds_claim o id rs -> fails (n_dest e) a = true ->
  (forall r, find_row id rs = Some r -> n_dest (w_e r) = n_dest e) ->
  (0 < o_max o <= a)%Z ->
  exists r', find_row id (fst (handle_held c fails o false rs)) = Some r' /\ n_state (w_e r') = Dead /\ w_claim r' = None.
Proof. exact handle_dead_letters. Qed.
Print Assumptions C22_dead_letter_at_or_past_max.

(* below MaxAttempts (or unlimited): released, not due, attempts unchanged, backoff of that attempt *)
Theorem C22_release_below_max : forall (c : dcfg) (fails : bytes -> Z -> bool) (o : owner) (id : nat) (a : Z)
                                       (e : entry) (rs : list row),
  o_held o = Some (id, a, e) -> holds_claim o id rs -> fails (n_dest e) a = true ->
  (forall r, find_row id rs = Some r -> n_dest (w_e r) = n_dest e) ->
  ~ (0 < o_max o <= a)%Z ->
  exists r r', find_row id rs = Some r /\ find_row id (fst (handle_held c fails o false rs)) = Some r' /\
    n_state (w_e r') = Pending false /\ w_claim r' = None /\ n_attempts (w_e r') = n_attempts (w_e r) /\
    n_delay (w_e r') = Some (delay c a).
Proof. exact handle_releases. Qed.
Print Assumptions C22_release_below_max.

(* an acknowledged publish whose delete is written by the claim owner removes the row: never published after that *)
Theorem C22_ack_deletes : forall (c : dcfg) (fails : bytes -> Z -> bool) (o : owner) (id : nat) (a : Z) (e : entry) (rs : list row),
  NoDup (map w_id rs) -> o_held o = Some (id, a, e) -> holds_claim o id rs -> fails (n_dest e) a = false ->
  (forall r, find_row id rs = Some r -> n_dest (w_e r) = n_dest e) ->
  find_row id (fst (handle_held c fails o false rs)) = None.
Proof. exact handle_ack_deletes. Qed.
Print Assumptions C22_ack_deletes.

(* THE EXCEPTION, stated explicitly: a dispatcher whose database write does not happen (it died between publish and
   delete / release / dead-letter) or that lost the claim (lease ran out, another owner took the row over) still
   PUBLISHES, and changes nothing in the table.  After an acknowledged publish of this kind the row is still there and
   is delivered again once its lease has run out: the at-least-once redelivery.  This is the only way a row is
   published after an acknowledged publish. *)
Theorem C22_publish_without_effect : forall (c : dcfg) (fails : bytes -> Z -> bool) (o : owner) (wfail : bool)
                                            (rs : list row) (id : nat) (a : Z) (e : entry),
  o_held o = Some (id, a, e) ->
  wfail = true \/ ~ holds_claim o id rs ->
  fst (handle_held c fails o wfail rs) = rs /\
  snd (handle_held c fails o wfail rs) =
    Some {| p_dest := n_dest e; p_event := n_event e; p_key := n_key e; p_attempt := a; p_ok := negb (fails (n_dest e) a) |}.
Proof. exact handle_without_claim. Qed.
Print Assumptions C22_publish_without_effect.

(* never lost, one dispatch: a row leaves the table only when its claim owner's write follows a successful publish *)
Theorem C22_never_lost_step : forall (c : dcfg) (fails : bytes -> Z -> bool) (o : owner) (wfail : bool) (rs : list row) (r : row),
  In r rs ->
  (exists r', In r' (fst (handle_held c fails o wfail rs)) /\ w_id r' = w_id r) \/
  (exists a e x, o_held o = Some (w_id r, a, e) /\ wfail = false /\ w_claim r = Some (o_id o, x) /\
                 fails (n_dest (w_e r)) a = false).
Proof. exact handle_never_loses. Qed.
Print Assumptions C22_never_lost_step.

(* ALL SCHEDULES: for every step of every history (mutations, batches, dispatchAvailable, claims by any owner,
   dispatches with or without failing writes, lease expiry, ageing, restarts with another MaxAttempts) the table
   after the step is old ++ new where
   - every dead-lettered row of the old table is still there, dead-lettered, with the same attempts, unclaimed;
   - every row of the old table is still there with the same destination, or a publish to its destination succeeded;
   - no row appears among the old ones; new rows (of a committed mutation) are due, unclaimed, attempts 0, fresh ids;
   - dead rows carry no claim and ids stay unique *)
Theorem C22_every_step : forall (c : dcfg) (fails : bytes -> Z -> bool) (o : hop) (s s' : hst) (out : bytes),
  hstep c fails o s = (s', out) ->
  exists old new, h_rows s' = old ++ new /\
    (forall r, In r (h_rows s) -> n_state (w_e r) = Dead -> w_claim r = None ->
       exists r', In r' old /\ w_id r' = w_id r /\ n_state (w_e r') = Dead /\ n_attempts (w_e r') = n_attempts (w_e r) /\ w_claim r' = None) /\
    (forall r, In r (h_rows s) -> (exists r', In r' old /\ w_id r' = w_id r /\ n_dest (w_e r') = n_dest (w_e r)) \/
                                  (exists a, fails (n_dest (w_e r)) a = false)) /\
    (forall r', In r' old -> exists r, In r (h_rows s) /\ w_id r = w_id r') /\
    (forall r, In r new -> n_state (w_e r) = Pending true /\ w_claim r = None /\ n_attempts (w_e r) = 0%Z) /\
    map w_id new = seq (h_nextid s) (length new).
Proof.
  intros c fails o s s' out H.
  destruct (hstep_rows _ _ _ _ _ _ H) as (old & new & Hr & (S1 & S2 & S3 & _ & _) & Hn & Hi & _).
  exists old, new. auto 10.
Qed.
Print Assumptions C22_every_step.

(* every reachable table has unique row ids and its dead-lettered rows carry no claim (so C22_ack_deletes applies
   and, with C22_every_step, a dead-lettered row stays dead-lettered for ever) *)
Theorem C22_reachable_good : forall (c : dcfg) (fails : bytes -> Z -> bool) (ops : list hop),
  let s := hstate c fails ops (hst_init c) in
  NoDup (map w_id (h_rows s)) /\ (forall r, In r (h_rows s) -> n_state (w_e r) = Dead -> w_claim r = None).
Proof.
  intros c fails ops s. destruct (hstate_good c fails ops (hst_init c) (good_init c)) as (H1 & _ & H2). split; [exact H1 | exact H2].
Qed.
Print Assumptions C22_reachable_good.

(* what does NOT hold (and is not claimed by the property): "a row is published at most MaxAttempts times".
   With MaxAttempts 2 and a dispatcher that dies after every publish the row is published three times (and more). *)
Definition C22_publishes_bounded_by_max_full : Prop :=
  forall (c : dcfg) (fails : bytes -> Z -> bool) (ops : list hop) (outs : list bytes),
    hrun c fails ops (hst_init c) = outs ->
    length (filter (fun o => is_prefix B"pub[q|" o) outs) <= Z.to_nat (d_maxatt c).
Theorem C22_publishes_bounded_by_max_refuted : ~ C22_publishes_bounded_by_max_full.
Proof.
  intros H.
  set (c := with_defaults {| d_maxatt := 2; d_min := 60000000000; d_max := 0 |}).
  set (q := {| r_dest := B"q"; r_events := [B"s3:*"]; r_filters := [] |}).
  specialize (H c (fun _ _ => true)
    [HCreate B"bka"; HConfig B"bka" false [q]; HMut (MPut B"bka" B"a") 0;
     HClaim 0; HHandle 0 true; HExpire; HClaim 1; HHandle 1 true; HExpire; HClaim 2; HHandle 2 true] _ eq_refl).
  vm_compute in H. lia.
Qed.
Print Assumptions C22_publishes_bounded_by_max_refuted.

(* attempts stepping PAST MaxAttempts without a handled failure, then one handled failure: dead-lettered at once *)
Example C22_ex_past_max :
  let c := with_defaults {| d_maxatt := 2; d_min := 60000000000; d_max := 0 |} in
  let q := {| r_dest := B"q"; r_events := [B"s3:*"]; r_filters := [] |} in
  hrun c (fun _ _ => true)
    [HCreate B"bka"; HConfig B"bka" false [q]; HMut (MPut B"bka" B"a") 0;
     HClaim 0; HExpire; HClaim 1; HExpire; HClaim 2; HHandle 2 false; HExpire; HAge; HClaim 0] (hst_init c)
  = [B"ok"; B"ok"; B"ok[q|ObjectCreated:Put|a]+";
     B"cq|ObjectCreated:Put|a|1"; B"ok"; B"cq|ObjectCreated:Put|a|2"; B"ok"; B"cq|ObjectCreated:Put|a|3";
     B"pub[q|ObjectCreated:Put|a|3|f]rows[q|ObjectCreated:Put|a|3|D]"; B"ok"; B"ok"; B"none"].
Proof. vm_compute. reflexivity. Qed.

(* non-vacuity *)
Example C22_ex_rule :
  rule_matches {| r_dest := B"q"; r_events := [B"s3:ObjectCreated:*"];
                  r_filters := [{| f_name := B"prefix"; f_value := B"img/" |}; {| f_name := B"suffix"; f_value := B".jpg" |}] |}
               B"s3:ObjectCreated:Put" B"img/a.jpg" = true
  /\ rule_matches {| r_dest := B"q"; r_events := [B"s3:ObjectCreated:*"]; r_filters := [] |} B"s3:ObjectRemoved:Delete" B"a" = false.
Proof. split; vm_compute; reflexivity. Qed.
Example C22_ex_deadletter :
  let c := with_defaults {| d_maxatt := 3; d_min := 100000000; d_max := 0 |} in
  map p_ok (fst (traj c (fun _ _ => true) 5 (new_entry B"q" B"s3:ObjectCreated:Put" B"a"))) = [false; false; false]
  /\ option_map n_state (snd (traj c (fun _ _ => true) 5 (new_entry B"q" B"s3:ObjectCreated:Put" B"a"))) = Some Dead.
Proof. split; vm_compute; reflexivity. Qed.
