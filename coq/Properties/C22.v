(* Properties/C22.v — event notifications exactly for committed mutations (model: Model/Notify.v). *)
From Verif Require Import Bytes Codec Notify NotifyProofs.

(* RuleMatches = the documented rule: some configured event equals the event name or is a "<prefix>:*" pattern
   whose "<prefix>:" starts the name, and every prefix / suffix filter rule holds for the key (other filter names
   are ignored) — for ALL byte strings *)
Theorem C22_rule_match_spec : forall (r : rule) (name key : bytes),
  rule_matches r name key = true <->
  (exists c, In c (r_events r) /\ (c = name \/ exists p rest, c = p ++ B":*" /\ name = p ++ B":" ++ rest)) /\
  (forall f, In f (r_filters r) ->
     (f_name f = B"prefix" -> exists rest, key = f_value f ++ rest) /\
     (f_name f = B"suffix" -> exists pre, key = pre ++ f_value f)).
Proof. exact rule_matches_spec. Qed.
Print Assumptions C22_rule_match_spec.

(* one mutation through runWithNotifications, with every fault position (the wrapped mutation fails, the j-th
   outbox insert fails, the commit fails): either nothing at all is persisted (state unchanged, no rows), or the
   mutation and exactly the rows of buildEntriesForEvent are persisted together *)
Theorem C22_entry_iff_commit : forall (m : mut) (j : nat) (commitfail : bool) (s s' : st) (ok : bool) (es : list entry),
  run_mut m j commitfail s = (s', ok, es) ->
  (ok = false -> s' = s /\ es = []) /\
  (ok = true -> commitfail = false /\ ~ (0 < j <= length es) /\ s_outbox s' = s_outbox s ++ es /\
     exists b name key, apply_mut m (s_buckets s) = Some (s_buckets s', b, name, key) /\
       es = match blookup b (s_buckets s') with Some bk => entries_for bk b name key | None => [] end).
Proof. exact run_mut_atomic. Qed.
Print Assumptions C22_entry_iff_commit.

(* which rows: one per matching rule of the event's bucket (+ the EventBridge row when enabled), nothing else *)
Theorem C22_entries_are_matching_rules : forall (bk : bucket) (b name key : bytes) (e : entry),
  In e (entries_for bk b name key) <->
  (exists r, In r (b_rules bk) /\ rule_matches r name key = true /\ e = new_entry (r_dest r) name key)
  \/ (b_eb bk = true /\ e = new_entry (eb_dest b) name key).
Proof. exact entries_for_spec. Qed.
Print Assumptions C22_entries_are_matching_rules.

(* histories: after any sequence of mutations with arbitrary faults the outbox is the old outbox followed by the
   rows of the committed mutations, in order (rolled-back mutations contribute [] by C22_entry_iff_commit) *)
Theorem C22_outbox_is_committed_rows : forall (l : list (mut * nat * bool)) (s : st),
  s_outbox (fst (run_muts l s)) = s_outbox s ++ concat (snd (run_muts l s)).
Proof. exact run_muts_outbox. Qed.
Print Assumptions C22_outbox_is_committed_rows.

(* the dispatcher, one outbox row over n rounds with time passing in between (traj = rounds on a singleton, see
   C22_rounds_single): attempts are numbered consecutively; a successful publish is the LAST publish and removes the
   row (never published after the acknowledgement); a row that is still there has only failed publishes, one per
   round while pending (retried every round), and is dead-lettered exactly at attempt MaxAttempts *)
Theorem C22_delivered_or_dead_lettered : forall (c : dcfg) (fails : bytes -> Z -> bool) (n : nat) (e : entry),
  n_state e = Pending true ->
  ((0 < d_maxatt c)%Z -> (n_attempts e < d_maxatt c)%Z) ->
  forall ps r, traj c fails n e = (ps, r) ->
    map p_attempt ps = map (fun i => (n_attempts e + 1 + Z.of_nat i)%Z) (seq 0 (length ps))
    /\ (forall i p, nth_error ps i = Some p -> p_ok p = true -> S i = length ps /\ r = None)
    /\ (r = None -> exists p, nth_error ps (length ps - 1) = Some p /\ p_ok p = true)
    /\ (forall e', r = Some e' ->
          (forall p, In p ps -> p_ok p = false) /\ n_attempts e' = (n_attempts e + Z.of_nat (length ps))%Z /\
          match n_state e' with
          | Dead => (0 < d_maxatt c)%Z /\ n_attempts e' = d_maxatt c
          | Pending _ => length ps = n /\ ((0 < d_maxatt c)%Z -> (n_attempts e' < d_maxatt c)%Z)
          end).
Proof. exact traj_spec. Qed.
Print Assumptions C22_delivered_or_dead_lettered.

(* consequence: with MaxAttempts = m > 0 a fresh row is, after m rounds, delivered or dead-lettered — never pending *)
Theorem C22_settled_after_max_attempts : forall (c : dcfg) (fails : bytes -> Z -> bool) (n : nat) (d ev k : bytes),
  (0 < d_maxatt c)%Z -> (d_maxatt c <= Z.of_nat n)%Z ->
  snd (traj c fails n (new_entry d ev k)) = None \/
  exists e', snd (traj c fails n (new_entry d ev k)) = Some e' /\ n_state e' = Dead /\ n_attempts e' = d_maxatt c.
Proof.
  intros c fails n d ev k Hm Hn.
  destruct (traj c fails n (new_entry d ev k)) as [ps r] eqn:E.
  destruct (traj_spec c fails n (new_entry d ev k) eq_refl ltac:(cbn; lia) ps r E) as (_ & _ & _ & H4).
  destruct r as [e'|]; [|left; reflexivity]. right. exists e'. split; [reflexivity|].
  destruct (H4 e' eq_refl) as (_ & Ha & Hs). cbn in Ha.
  destruct (n_state e'); [|tauto]. destruct Hs as [Hl Hlt]. specialize (Hlt Hm). lia.
Qed.
Print Assumptions C22_settled_after_max_attempts.

(* the rounds of a one-row outbox are that row's trajectory *)
Theorem C22_rounds_single : forall (c : dcfg) (fails : bytes -> Z -> bool) (n : nat) (e : entry),
  rounds c fails n [e] = (fst (traj c fails n e), match snd (traj c fails n e) with Some e' => [e'] | None => [] end).
Proof. intros. apply rounds_single. Qed.
Print Assumptions C22_rounds_single.

(* backoff: for EVERY configuration (after withDefaults) and EVERY attempt count (negative, zero, astronomically
   large) the retry delay lies within [MinBackoff, MaxBackoff], grows monotonically, and is the exponential
   schedule min * 2^(attempts-1) capped at max *)
Theorem C22_backoff_bounds : forall (c : dcfg) (attempts : Z),
  let c' := with_defaults c in
  (0 < d_min c' <= d_max c')%Z /\ (d_min c' <= delay c' attempts <= d_max c')%Z.
Proof. intros c a c'. split; [apply defaults_ok | apply delay_bounds, defaults_ok]. Qed.
Print Assumptions C22_backoff_bounds.

Theorem C22_backoff_exponential_monotone : forall (c : dcfg) (a a' : Z),
  let c' := with_defaults c in
  ((a <= a')%Z -> (delay c' a <= delay c' a')%Z) /\
  ((d_max c' < 2 ^ 63)%Z -> (1 <= a)%Z -> delay c' a = Z.min (d_min c' * 2 ^ (a - 1)) (d_max c')).
Proof.
  intros c a a' c'. split.
  - apply delay_monotone, defaults_ok.
  - apply delay_exponential, defaults_ok.
Qed.
Print Assumptions C22_backoff_exponential_monotone.

(* non-vacuity *)
Example C22_ex_rule :
  rule_matches {| r_dest := B"q"; r_events := [B"s3:ObjectCreated:*"];
                  r_filters := [{| f_name := B"prefix"; f_value := B"img/" |}; {| f_name := B"suffix"; f_value := B".jpg" |}] |}
               B"s3:ObjectCreated:Put" B"img/a.jpg" = true
  /\ rule_matches {| r_dest := B"q"; r_events := [B"s3:ObjectCreated:*"]; r_filters := [] |} B"s3:ObjectRemoved:Delete" B"a" = false.
Proof. split; vm_compute; reflexivity. Qed.
Example C22_ex_deadletter :
  let c := with_defaults {| d_maxatt := 3; d_min := 100000000; d_max := 0 |} in
  map p_ok (fst (traj c (fun _ _ => true) 5 (new_entry B"q" B"s3:ObjectCreated:Put" B"a"))) = [false; false; false]
  /\ option_map n_state (snd (traj c (fun _ _ => true) 5 (new_entry B"q" B"s3:ObjectCreated:Put" B"a"))) = Some Dead.
Proof. split; vm_compute; reflexivity. Qed.
