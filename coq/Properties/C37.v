(* C37 — Storage migration copies every object faithfully.
   "Migrating into a destination whose buckets are empty creates every source bucket and every current
   object with identical content, content type, system and user metadata, tags and storage class, and
   migrating into a non-empty destination bucket fails without overwriting anything."
   Model: Model/Migrate.v (MigrateStorage over abstract S3 states).  The faithful model REFUTES the
   first half for the storage class and for Expires; the partial theorems state exactly what is kept. *)
From Verif Require Import Bytes Codec Migrate MigrateProofs.
From Coq Require Import Lia ZifyBool ZifyN.
Local Open Scope N_scope.

(* well-formed source: bucket names and the keys of a bucket are distinct *)
Definition src_wf (src : store) : Prop :=
  NoDup (map fst src) /\ forall n sb, In (n, sb) src -> NoDup (map fst (b_keys sb)).
(* "a destination whose buckets are empty": no bucket lists a current object *)
Definition dst_buckets_empty (dst : store) : Prop := forall n db, aget n dst = Some db -> cur_objs db = [].
(* the fields the property names *)
Definition same_named_fields (o o' : obj) : Prop :=
  o_body o' = o_body o /\ o_ct o' = o_ct o /\ o_meta o' = o_meta o /\ o_tags o' = o_tags o /\
  eff_cls (o_cls o') = eff_cls (o_cls o).

(* ---- first half, full strength: REFUTED ---- *)
Definition C37_migrate_faithful_full : Prop :=
  forall src dst, src_wf src -> dst_buckets_empty dst ->
    snd (migrate src dst) = MOk /\
    forall n sb, aget n src = Some sb ->
      exists db, aget n (fst (migrate src dst)) = Some db /\
        forall k o, cur sb k = Some o -> exists o', cur db k = Some o' /\ same_named_fields o o'.

(* what the migrator really does: every source bucket exists afterwards and every current object is
   there with the same body, content type, Cache-Control, Content-Disposition, Content-Encoding,
   Content-Language, website redirect location, user metadata and tags; Expires is re-spelled by
   exp_norm (dropped when it is not an HTTP date), the storage class is reset to unset (= STANDARD) and
   the ETag is multipart exactly above the uploader's part size.  In particular all named fields are
   equal when the source class is STANDARD/unset and Expires is absent or canonically spelled. *)
Theorem C37_migrate_faithful_partial :
  forall src dst, src_wf src -> dst_buckets_empty dst ->
    snd (migrate src dst) = MOk /\
    forall n sb, aget n src = Some sb ->
      exists db, aget n (fst (migrate src dst)) = Some db /\
        forall k o, cur sb k = Some o ->
          exists o', cur db k = Some o' /\
            o_body o' = o_body o /\ o_ct o' = o_ct o /\ o_tags o' = o_tags o /\
            m_cc (o_meta o') = m_cc (o_meta o) /\ m_cd (o_meta o') = m_cd (o_meta o) /\
            m_ce (o_meta o') = m_ce (o_meta o) /\ m_cl (o_meta o') = m_cl (o_meta o) /\
            m_wrl (o_meta o') = m_wrl (o_meta o) /\ m_um (o_meta o') = m_um (o_meta o) /\
            m_exp (o_meta o') = exp_norm (m_exp (o_meta o)) /\
            o_cls o' = 0 /\
            o_np o' = (if body_size (o_body o) <=? part_size then 0
                       else (body_size (o_body o) + part_size - 1) / part_size) /\
            (eff_cls (o_cls o) = 1 -> exp_norm (m_exp (o_meta o)) = m_exp (o_meta o) -> same_named_fields o o').
Proof.
  intros src dst [Hnd Hk] He. destruct (migrate_faithful mig_obj src dst Hnd Hk He) as [Hok Hall].
  split; auto. intros n sb Hg. destruct (Hall n sb Hg) as [db [Hd Hc]]. exists db. split; auto.
  intros k o Ho. exists (mig_obj o). split; [now apply Hc|].
  assert (Hlast : eff_cls (o_cls o) = 1 -> exp_norm (m_exp (o_meta o)) = m_exp (o_meta o) -> same_named_fields o (mig_obj o)).
  { intros Hcl Hex. unfold same_named_fields. cbn. do 2 (split; [reflexivity|]). split.
    - destruct (o_meta o). unfold mig_meta. cbn in *. now rewrite Hex.
    - split; [reflexivity|]. now rewrite Hcl. }
  do 12 (split; [reflexivity|]). exact Hlast.
Qed.
Print Assumptions C37_migrate_faithful_partial.

(* Expires survives unchanged exactly when it is absent or spelled canonically; re-spelling is idempotent *)
Theorem C37_expires_kept_iff_canonical :
  forall e, exp_norm e = e <-> (e = 0 \/ (e - 1) mod 5 = 0).
Proof. exact exp_norm_fixed. Qed.
Print Assumptions C37_expires_kept_iff_canonical.

(* a source holding one object o migrates faithfully iff o's class is STANDARD/unset and its Expires is
   absent or canonical: this decides the full statement on every single-object source *)
Theorem C37_single_object_faithful_iff :
  forall o, (exists o', cur_objs (match aget 0 (fst (migrate (one_src o) [])) with Some b => b | None => mkB false [] end) = [(0, o')]
                         /\ same_named_fields o o')
            <-> (eff_cls (o_cls o) = 1 /\ exp_norm (m_exp (o_meta o)) = m_exp (o_meta o)).
Proof.
  intros o. rewrite one_src_result. cbn. split.
  - intros [o' [He [_ [_ [Hm [_ Hc]]]]]]. inversion He. subst o'. cbn in Hc, Hm. split; [symmetry; exact Hc|].
    destruct (o_meta o) as [cc cd ce cl e wrl um]. unfold mig_meta in Hm. cbn [m_cc m_cd m_ce m_cl m_exp m_wrl m_um] in *. congruence.
  - intros [Hc Hx]. exists (mig_obj o). split; auto. unfold same_named_fields. cbn.
    do 2 (split; [reflexivity|]). split.
    + destruct (o_meta o). unfold mig_meta. cbn in *. now rewrite Hx.
    + split; [reflexivity|]. now rewrite Hc.
Qed.
Print Assumptions C37_single_object_faithful_iff.

Definition plain_meta : meta := mkMeta 0 0 0 0 0 0 [].
(* witness 1: an object of class GLACIER (2) arrives as STANDARD *)
Definition glacier_obj : obj := mkObj [(1, 3)] 0 1 plain_meta [] 2.
(* witness 2: Expires spelled as RFC 850 (form 1 of time 0) arrives re-spelled; a junk Expires is dropped *)
Definition rfc850_obj : obj := mkObj [(1, 3)] 0 1 (mkMeta 0 0 0 0 2 0 []) [] 0.

Lemma refute_with o :
  (eff_cls (o_cls o) <> 1 \/ exp_norm (m_exp (o_meta o)) <> m_exp (o_meta o)) -> ~ C37_migrate_faithful_full.
Proof.
  intros Hbad Hfull.
  destruct (Hfull (one_src o) []) as [_ Hall].
  - split; [repeat constructor; intros []|]. intros n sb [Hin|[]]. inversion Hin. subst. repeat constructor. intros [].
  - intros n db Hg. discriminate.
  - destruct (Hall 0 (mkB false [(0, [VObj o])]) eq_refl) as [db [Hd Hc]].
    rewrite one_src_result in Hd. cbn in Hd. inversion Hd. subst db.
    destruct (Hc 0 o eq_refl) as [o' [Ho' [_ [_ [Hm [_ Hcl]]]]]].
    cbn in Ho'. inversion Ho'. subst o'. cbn in *.
    destruct Hbad as [Hb|Hb].
    + apply Hb. now rewrite <- Hcl.
    + apply Hb. destruct (o_meta o) as [cc cd ce cl e wrl um]. unfold mig_meta in Hm. cbn [m_cc m_cd m_ce m_cl m_exp m_wrl m_um] in *. congruence.
Qed.
Theorem C37_migrate_faithful_refuted_storage_class : ~ C37_migrate_faithful_full.
Proof. apply (refute_with glacier_obj). left. vm_compute. discriminate. Qed.
Print Assumptions C37_migrate_faithful_refuted_storage_class.
Theorem C37_migrate_faithful_refuted_expires : ~ C37_migrate_faithful_full.
Proof. apply (refute_with rfc850_obj). right. vm_compute. discriminate. Qed.
Print Assumptions C37_migrate_faithful_refuted_expires.

(* ---- every kind of source and destination storage ----
   MigrateStorage is also used with an S3ClientStorage (a remote S3 endpoint / another pithos) as source or
   destination.  migrate_k sk dk models it for the four combinations; the state of a client-side storage is the
   state of the storage behind its server.  For EVERY source kind the body, the tags, Cache-Control,
   Content-Disposition/-Encoding/-Language, redirect location and user metadata arrive (local destination);
   the source kind makes no difference at all.  Two client defects show through a client DESTINATION for
   single-part objects: the tag set is not stored, and an absent content type is stored as
   application/octet-stream. *)
Theorem C37_migrate_every_kind_partial :
  forall sk dk src dst, src_wf src -> dst_buckets_empty dst ->
    snd (migrate_k sk dk src dst) = MOk /\
    forall n sb, aget n src = Some sb ->
      exists db, aget n (fst (migrate_k sk dk src dst)) = Some db /\
        forall k o, cur sb k = Some o ->
          exists o', cur db k = Some o' /\
            o_body o' = o_body o /\
            m_cc (o_meta o') = m_cc (o_meta o) /\ m_cd (o_meta o') = m_cd (o_meta o) /\
            m_ce (o_meta o') = m_ce (o_meta o) /\ m_cl (o_meta o') = m_cl (o_meta o) /\
            m_wrl (o_meta o') = m_wrl (o_meta o) /\ m_um (o_meta o') = m_um (o_meta o) /\
            m_exp (o_meta o') = exp_norm (m_exp (o_meta o)) /\
            o_cls o' = 0 /\
            o_ct o' = (match dk with
                       | KClient => if body_size (o_body o) <=? part_size
                                    then (if o_ct o =? 0 then ct_octet else o_ct o) else o_ct o
                       | KLocal => o_ct o
                       end) /\
            o_tags o' = (match dk with
                         | KClient => if body_size (o_body o) <=? part_size then [] else o_tags o
                         | KLocal => o_tags o
                         end).
Proof.
  intros sk dk src dst [Hnd Hk] He. unfold migrate_k.
  destruct (migrate_faithful (mig_obj_k sk dk) src dst Hnd Hk He) as [Hok Hall].
  split; auto. intros n sb Hg. destruct (Hall n sb Hg) as [db [Hd Hc]]. exists db. split; auto.
  intros k o Ho. exists (mig_obj_k sk dk o). split; [now apply Hc|]. apply mig_obj_k_fields.
Qed.
Print Assumptions C37_migrate_every_kind_partial.

(* in particular: whatever the source kind, body, content type, tags and user metadata arrive in a local destination *)
Theorem C37_object_arrives_from_every_source_kind :
  forall sk src dst, src_wf src -> dst_buckets_empty dst ->
    forall n sb, aget n src = Some sb ->
      exists db, aget n (fst (migrate_k sk KLocal src dst)) = Some db /\
        forall k o, cur sb k = Some o ->
          exists o', cur db k = Some o' /\ o_tags o' = o_tags o /\ o_body o' = o_body o /\ o_ct o' = o_ct o /\
                     m_um (o_meta o') = m_um (o_meta o).
Proof.
  intros sk src dst Hw He n sb Hg.
  destruct (C37_migrate_every_kind_partial sk KLocal src dst Hw He) as [_ Hall].
  destruct (Hall n sb Hg) as [db [Hd Hc]]. exists db. split; auto.
  intros k o Ho. destruct (Hc k o Ho) as [o' [Hc' [Hb [_ [_ [_ [_ [_ [Hum [_ [_ [Hct Ht]]]]]]]]]]]].
  exists o'. repeat split; auto.
Qed.
Print Assumptions C37_object_arrives_from_every_source_kind.

(* the two deviations, as refuted full statements *)
Definition C37_client_destination_keeps_content_type_full : Prop :=
  forall src dst, src_wf src -> dst_buckets_empty dst ->
    forall n sb, aget n src = Some sb ->
      exists db, aget n (fst (migrate_k KLocal KClient src dst)) = Some db /\
        forall k o, cur sb k = Some o -> exists o', cur db k = Some o' /\ o_ct o' = o_ct o.
Definition C37_client_destination_keeps_tags_full : Prop :=
  forall src dst, src_wf src -> dst_buckets_empty dst ->
    forall n sb, aget n src = Some sb ->
      exists db, aget n (fst (migrate_k KLocal KClient src dst)) = Some db /\
        forall k o, cur sb k = Some o -> exists o', cur db k = Some o' /\ o_tags o' = o_tags o.
Definition no_ct_obj : obj := mkObj [(1, 3)] 0 0 (mkMeta 0 0 0 0 0 0 []) [] 0.
Definition tagged_obj : obj := mkObj [(1, 3)] 0 1 (mkMeta 0 0 0 0 0 0 []) [(0, 1)] 0.
Lemma one_src_wf o : src_wf (one_src o).
Proof. split; [repeat constructor; intros []|]. intros n sb [Hin|[]]. inversion Hin. subst. repeat constructor. intros []. Qed.
Theorem C37_client_destination_keeps_content_type_refuted : ~ C37_client_destination_keeps_content_type_full.
Proof.
  intros H. destruct (H (one_src no_ct_obj) [] (one_src_wf _) ltac:(intros n db Hg; discriminate) 0 _ eq_refl) as [db [Hd Hc]].
  vm_compute in Hd. inversion Hd. subst db. destruct (Hc 0 no_ct_obj eq_refl) as [o' [Ho' Hct]].
  vm_compute in Ho'. inversion Ho'. subst o'. discriminate.
Qed.
Print Assumptions C37_client_destination_keeps_content_type_refuted.
Theorem C37_client_destination_keeps_tags_refuted : ~ C37_client_destination_keeps_tags_full.
Proof.
  intros H. destruct (H (one_src tagged_obj) [] (one_src_wf _) ltac:(intros n db Hg; discriminate) 0 _ eq_refl) as [db [Hd Hc]].
  vm_compute in Hd. inversion Hd. subst db. destruct (Hc 0 tagged_obj eq_refl) as [o' [Ho' Ht]].
  vm_compute in Ho'. inversion Ho'. subst o'. discriminate.
Qed.
Print Assumptions C37_client_destination_keeps_tags_refuted.

(* ---- second half ---- *)
(* a common bucket that lists a current object in the destination makes the migration fail *)
Theorem C37_nonempty_dst_fails :
  forall src dst n sb db, NoDup (map fst src) ->
    aget n src = Some sb -> aget n dst = Some db -> cur_objs db <> [] ->
    snd (migrate src dst) = MNotEmpty.
Proof. exact (migrate_nonempty mig_obj). Qed.
Print Assumptions C37_nonempty_dst_fails.

(* nothing is ever overwritten, whether the migration succeeds or fails: every destination bucket
   survives with its versioning state and, for every key, its old version stack is a suffix of the new
   one (unversioned destination buckets are assumed to hold no delete markers on top of a key) *)
Theorem C37_nothing_overwritten :
  forall src dst, src_wf src ->
    (forall n db, aget n dst = Some db -> b_ver db = false ->
       Forall (fun p => snd p = [] \/ exists o s', snd p = VObj o :: s') (b_keys db)) ->
    forall n db, aget n dst = Some db ->
      exists db', aget n (fst (migrate src dst)) = Some db' /\ b_ver db' = b_ver db /\
        forall k, exists pre, stack db' k = pre ++ stack db k.
Proof. intros src dst [Hnd Hk] Hwf. apply (migrate_suffix mig_obj); auto. Qed.
Print Assumptions C37_nothing_overwritten.

(* both hold for every source / destination kind *)
Theorem C37_nonempty_dst_fails_every_kind :
  forall sk dk src dst n sb db, NoDup (map fst src) ->
    aget n src = Some sb -> aget n dst = Some db -> cur_objs db <> [] ->
    snd (migrate_k sk dk src dst) = MNotEmpty.
Proof. intros sk dk. exact (migrate_nonempty (mig_obj_k sk dk)). Qed.
Print Assumptions C37_nonempty_dst_fails_every_kind.
Theorem C37_nothing_overwritten_every_kind :
  forall sk dk src dst, src_wf src ->
    (forall n db, aget n dst = Some db -> b_ver db = false ->
       Forall (fun p => snd p = [] \/ exists o s', snd p = VObj o :: s') (b_keys db)) ->
    forall n db, aget n dst = Some db ->
      exists db', aget n (fst (migrate_k sk dk src dst)) = Some db' /\ b_ver db' = b_ver db /\
        forall k, exists pre, stack db' k = pre ++ stack db k.
Proof. intros sk dk src dst [Hnd Hk] Hwf. apply (migrate_suffix (mig_obj_k sk dk)); auto. Qed.
Print Assumptions C37_nothing_overwritten_every_kind.

(* stronger reading ("fails and leaves the destination unchanged"): REFUTED — buckets are created
   and earlier buckets are filled before the non-empty bucket is reached *)
Definition C37_nonempty_dst_fails_unchanged_full : Prop :=
  forall src dst n sb db, src_wf src ->
    aget n src = Some sb -> aget n dst = Some db -> cur_objs db <> [] ->
    fst (migrate src dst) = dst.
Definition w_obj : obj := mkObj [(1, 3)] 0 1 plain_meta [] 0.
Definition w_src : store := [(0, mkB false [(0, [VObj w_obj])]); (1, mkB false [])].
Definition w_dst : store := [(1, mkB false [(0, [VObj w_obj])])].
Theorem C37_nonempty_dst_fails_unchanged_refuted : ~ C37_nonempty_dst_fails_unchanged_full.
Proof.
  intros H. specialize (H w_src w_dst 1 (mkB false []) (mkB false [(0, [VObj w_obj])])).
  assert (Hwf : src_wf w_src).
  { split. - repeat constructor; cbn; intuition discriminate.
    - intros n sb [Hin|[Hin|[]]]; inversion Hin; subst; repeat constructor. intros []. }
  specialize (H Hwf eq_refl eq_refl). vm_compute in H. assert (Hne : [(0, w_obj)] <> []) by discriminate.
  specialize (H Hne). discriminate.
Qed.
Print Assumptions C37_nonempty_dst_fails_unchanged_refuted.

(* the hypotheses are satisfiable by non-trivial values *)
Example C37_example_migrates :
  migrate [(0, mkB true [(0, [VDM; VObj w_obj]); (1, [VObj glacier_obj; VDM])])] [(0, mkB true [(1, [VDM])])]
  = ([(0, mkB true [(1, [VObj (mkObj [(1, 3)] 0 1 plain_meta [] 0); VDM])])], MOk).
Proof. reflexivity. Qed.
Example C37_example_fails : snd (migrate w_src w_dst) = MNotEmpty /\ length (fst (migrate w_src w_dst)) = 2%nat.
Proof. split; reflexivity. Qed.

(* ---- outside the literal property text (recorded because a migration that loses them loses data):
   noncurrent versions / delete markers and the versioning state of a bucket are not carried over ---- *)
Definition C37_versioning_state_migrated_full : Prop :=
  forall src dst, src_wf src -> dst_buckets_empty dst ->
    forall n sb, aget n src = Some sb ->
      exists db, aget n (fst (migrate src dst)) = Some db /\ b_ver db = b_ver sb.
Definition C37_all_versions_migrated_full : Prop :=
  forall src dst, src_wf src -> dst_buckets_empty dst ->
    forall n sb, aget n src = Some sb ->
      exists db, aget n (fst (migrate src dst)) = Some db /\ forall k, length (stack db k) = length (stack sb k).
Definition h_src : store := [(0, mkB true [(0, [VObj w_obj; VDM; VObj glacier_obj])])].
Lemma h_src_wf : src_wf h_src.
Proof. split; [repeat constructor; intros []|]. intros n sb [Hin|[]]. inversion Hin. subst. repeat constructor. intros []. Qed.
Theorem C37_versioning_state_migrated_refuted : ~ C37_versioning_state_migrated_full.
Proof.
  intros H. destruct (H h_src [] h_src_wf ltac:(intros n db Hg; discriminate) 0 _ eq_refl) as [db [Hd Hv]].
  vm_compute in Hd. inversion Hd. subst db. discriminate.
Qed.
Print Assumptions C37_versioning_state_migrated_refuted.
Theorem C37_all_versions_migrated_refuted : ~ C37_all_versions_migrated_full.
Proof.
  intros H. destruct (H h_src [] h_src_wf ltac:(intros n db Hg; discriminate) 0 _ eq_refl) as [db [Hd Hv]].
  vm_compute in Hd. inversion Hd. subst db. specialize (Hv 0). discriminate.
Qed.
Print Assumptions C37_all_versions_migrated_refuted.
