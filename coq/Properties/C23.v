(* Properties/C23.v — replicas converge to the primary.
   Model: Model/Repl.v ([rstep] = one call through the replication storage over a primary and any
   number of secondaries, all instances of one abstract S3 machine without clocks whose upload ids
   are storage specific). *)
From Verif Require Import Bytes Codec ObjCache Repl ReplProofs.
Local Open Scope N_scope.

(* "the secondaries are replicas of the primary": same object state (every version stack of every key:
   contents, content type, metadata, tags, class, ETag, delete markers) and same uploads, and the
   wrapper's id map translates the primary's id of every open upload to the secondaries' ids *)
Definition C23_in_lockstep (s : rst) : Prop :=
  Forall (fun t => t_objs t = t_objs (p_prim s) /\ t_ups t = t_ups (p_prim s)) (p_secs s) /\
  (forall j u, nth_error (t_ups (p_prim s)) j = Some u -> ru_open u = true ->
     mlookup (t_off (p_prim s) + N.of_nat j) (p_map s) =
     Some (map (fun t => t_off t + N.of_nat j) (p_secs s))).

Definition C23_not_restart (o : rop) : bool := match o with QRestart => false | _ => true end.

(* PROPERTY, one step: from ANY state in lockstep (any number of secondaries, any upload id offsets),
   any call (put with any precondition/tags/metadata/class, append with any offset, copy with
   directives, delete / bulk delete with conditions, tagging, transition, multipart create / part /
   complete / abort, successful or not) leaves the replicas in lockstep and never hits the
   index-out-of-range of a missing id-map entry.  Conditions are evaluated by the primary only; the
   calls sent to the secondaries are the filtered ones of the real code. *)
Theorem C23_lockstep : forall s o,
  C23_not_restart o = true -> C23_in_lockstep s ->
  C23_in_lockstep (fst (rstep s o)) /\ snd (rstep s o) <> QPanic.
Proof. exact lockstep. Qed.
Print Assumptions C23_lockstep.

(* PROPERTY, histories: after every operation of every history through the wrapper, starting from
   replicas in lockstep, every secondary exposes the primary's buckets' keys, contents, content types,
   metadata, tags (and classes, versions, pending uploads): the observation [converged] that the
   harness evaluates on the real storages is true after every step *)
Theorem C23_converges : forall ops s,
  forallb C23_not_restart ops = true -> C23_in_lockstep s ->
  Forall (fun rc : rres * bool => fst rc <> QPanic /\ snd rc = true) (rrun s ops).
Proof. intros ops s. exact (history_lockstep ops s). Qed.
Print Assumptions C23_converges.

Theorem C23_initial_lockstep : C23_in_lockstep rst0.
Proof. exact rel_rst0. Qed.
Print Assumptions C23_initial_lockstep.

(* the option filtering is sound: an unconditional put / append on a replica in the primary's previous
   state reproduces the primary's conditional put / append *)
Theorem C23_filtered_put : forall m k cid ct me tg cl c m',
  m_put m k cid ct me tg cl c = (m', Ok) -> m_put m k cid ct me tg cl PNone = (m', Ok).
Proof. exact put_strip. Qed.
Print Assumptions C23_filtered_put.
Theorem C23_filtered_append : forall m k cid off m',
  m_append m k cid off = (m', Ok) -> m_append m k cid None = (m', Ok).
Proof. exact append_strip. Qed.
Print Assumptions C23_filtered_append.

(* outside the property's quantifier (a restart is not a storage operation), but a genuine defect:
   the primary->secondary upload id map lives in memory only.  finding C23-upload-map-volatile *)
Definition C23_converges_across_restarts : Prop := forall ops,
  Forall (fun rc : rres * bool => fst rc <> QPanic /\ snd rc = true) (rrun rst0 ops).

Definition w_restart : list rop :=
  [QMCreate (0, 0) 0 0 0 0; QMPart 0 1 3; QRestart; QMPart 0 2 4; QMComplete 0; QPut (0, 1) 3 0 0 0 0 PNone].

Theorem C23_restart_refuted : ~ C23_converges_across_restarts.
Proof.
  intros H. specialize (H w_restart). vm_compute in H.
  repeat match goal with H : Forall _ (_ :: _) |- _ => inversion H; clear H; subst end.
  repeat match goal with H : _ /\ _ |- _ => destruct H end. congruence.
Qed.
Print Assumptions C23_restart_refuted.

(* after the restart: UploadPart and CompleteMultipartUpload run on the primary and then panic; the
   completed object exists on the primary only, and the later successful PUT finds the replicas diverged *)
Theorem C23_restart_witness :
  map (fun rc : rres * bool => (match fst rc with QPanic => true | _ => false end, snd rc)) (rrun rst0 w_restart) =
  [(false, true); (false, true); (false, true); (true, false); (true, false); (false, false)].
Proof. vm_compute. reflexivity. Qed.
Print Assumptions C23_restart_witness.

(* non-vacuity *)
Definition ex_hist23 : list rop :=
  [QPut (0, 0) 3 1 1 1 2 PNone; QPut (0, 0) 4 0 0 0 0 (PIfMatch (CTag (ES 3))); QAppend (0, 0) 1 (Some 64);
   QMCreate (0, 1) 1 1 1 2; QMPart 0 1 3; QMPart 0 2 4; QMComplete 0; QDelete (1, 0) CNone;
   QCopy (0, 1) (1, 2) false 0 0 false 0 3; QView (1, 2)].
Example C23_ex : map show_rres (rrun rst0 ex_hist23) =
  [B"ok/E"; B"ok/E"; B"ok/E"; B"ok/E"; B"ok/E"; B"ok/E"; B"ok/E"; B"ok/E"; B"ok/E"; B"ok=1:1:1:3:m2:3.4"].
Proof. vm_compute. reflexivity. Qed.
