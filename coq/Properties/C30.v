(* Properties/C30.v — Chunked uploads store exactly the decoded payload.
   PARTIAL: the faithful model refutes two of the three claims of the property (below, by computation on
   concrete witnesses that are replayed on the real server).  The general positive theorems of DESIGN §7
   (decode (encode payload chunking) = payload for every chunking; rejection of every single-point
   tamper under HMAC/hash injectivity) are NOT proved here; that half rests on the executed
   correspondence + the direct oracle only. *)
From Verif Require Import Bytes Codec AwsChunked AwsChunkedProofs.

Definition cr : byte := x0d.
Definition CRLF : bytes := [x0d; x0a].
Definition cfgU : cfg := {| has_trailer := false; trailer_signed := false; skip_val := true; tname := [];
                            exp_sigs := []; exp_tsig := []; exp_ck := [] |}.
(* STREAMING-UNSIGNED-PAYLOAD-TRAILER with x-amz-checksum-crc32; [ck] = the checksum that matches the carried data *)
Definition cfgUT (ck : bytes) : cfg :=
  {| has_trailer := true; trailer_signed := false; skip_val := true; tname := B"x-amz-checksum-crc32";
     exp_sigs := []; exp_tsig := []; exp_ck := ck |}.
(* STREAMING-AWS4-HMAC-SHA256-PAYLOAD; "{i}" is the (opaque) signature verifying at call i *)
Definition cfgS : cfg := {| has_trailer := false; trailer_signed := false; skip_val := false; tname := [];
                            exp_sigs := [B"{0}"; B"{1}"; B"{2}"]; exp_tsig := []; exp_ck := [] |}.

(* claim 1: the stored object does not depend on whether authentication is enabled *)
Definition C30_auth_off_same_full : Prop :=
  forall a c body, upload a c body = upload AuthSigned c body.

(* refuted for EVERY body whose decoding differs from the raw bytes: without SigV4 authentication
   (server without credentials, or an anonymous request) the aws-chunked framing is stored verbatim *)
Theorem C30_auth_off_same_refuted_general : forall a c body p,
  a <> AuthSigned -> decode c body = Stored p -> p <> body -> upload a c body <> upload AuthSigned c body.
Proof. exact auth_off_differs. Qed.
Print Assumptions C30_auth_off_same_refuted_general.

Definition hello_body : bytes := B"5" ++ CRLF ++ B"hello" ++ CRLF ++ B"0" ++ CRLF ++ CRLF.

Theorem C30_auth_off_same_refuted : ~ C30_auth_off_same_full.
Proof.
  intros H. specialize (H AuthOff cfgU hello_body). vm_compute in H. discriminate H.
Qed.
Print Assumptions C30_auth_off_same_refuted.

Theorem C30_auth_off_witness :
  upload AuthSigned cfgU hello_body = Stored B"hello" /\
  upload AuthOff cfgU hello_body = Stored hello_body /\ upload AuthAnonymous cfgU hello_body = Stored hello_body.
Proof. vm_compute. repeat split. Qed.
Print Assumptions C30_auth_off_witness.

(* claim 2: a body that is not a complete, untampered encoding is rejected.  Full form for truncation:
   whatever prefix of a body is sent, either it is the whole body or it is rejected *)
Definition C30_truncation_rejected_full : Prop :=
  forall c body n p, n < length body -> decode c body = Stored p -> decode c (firstn n body) = Reject.

(* refuted: signed mode, body cut at the chunk boundary before the terminating zero chunk: the prefix of
   the payload is stored (x-amz-decoded-content-length is never compared) *)
Definition signed_body : bytes :=
  B"3;chunk-signature={0}" ++ CRLF ++ B"abc" ++ CRLF ++ B"3;chunk-signature={1}" ++ CRLF ++ B"def" ++ CRLF
  ++ B"0;chunk-signature={2}" ++ CRLF ++ CRLF.

Theorem C30_truncation_rejected_refuted : ~ C30_truncation_rejected_full.
Proof.
  intros H. specialize (H cfgS signed_body 29 B"abcdef"). vm_compute in H.
  assert (E : Stored B"abc" = Reject) by (apply H; [repeat constructor | reflexivity]). discriminate E.
Qed.
Print Assumptions C30_truncation_rejected_refuted.

Theorem C30_truncation_witness :
  decode cfgS signed_body = Stored B"abcdef" /\
  decode cfgS (firstn 28 signed_body) = Stored B"abc" /\          (* cut before the 2nd chunk *)
  decode cfgS (firstn 54 signed_body) = Stored B"abc" /\          (* cut after the 2nd chunk's data, before its CRLF: chunk dropped *)
  decode cfgS (firstn 56 signed_body) = Stored B"abcdef" /\       (* cut before the zero chunk: final signature never checked *)
  decode cfgS (firstn 53 signed_body) = Reject.                   (* cut inside the data: rejected *)
Proof. vm_compute. repeat split. Qed.
Print Assumptions C30_truncation_witness.

(* worse in the unsigned-trailer mode: a modified chunk is accepted when the terminating chunk (and with
   it the checksum trailer) is simply left out — the trailer checksum is only looked at after a zero chunk *)
Definition ut_body (data ck : bytes) : bytes :=
  B"5" ++ CRLF ++ data ++ CRLF ++ B"0" ++ CRLF ++ B"x-amz-checksum-crc32:" ++ ck ++ CRLF ++ CRLF.

Theorem C30_modified_chunk_without_terminator_accepted :
  decode (cfgUT B"NhCmhg==") (ut_body B"hello" B"NhCmhg==") = Stored B"hello" /\        (* honest *)
  decode (cfgUT B"other===") (ut_body B"hellz" B"NhCmhg==") = Reject /\                 (* modified chunk: checksum mismatch *)
  decode (cfgUT B"other===") (firstn 10 (ut_body B"hellz" B"NhCmhg==")) = Stored B"hellz".  (* same, terminator omitted: stored *)
Proof. vm_compute. repeat split. Qed.
Print Assumptions C30_modified_chunk_without_terminator_accepted.

(* single-point tampering of a complete signed body is rejected — on this witness (general theorem not proved) *)
Example C30_ex_tamper_rejected :
  decode cfgS (B"3;chunk-signature={0}" ++ CRLF ++ B"abX" ++ CRLF ++ B"0;chunk-signature={1}" ++ CRLF ++ CRLF) = Stored B"abX" /\
  decode cfgS (B"3;chunk-signature={bad}" ++ CRLF ++ B"abc" ++ CRLF ++ B"0;chunk-signature={1}" ++ CRLF ++ CRLF) = Reject /\
  decode cfgS (B"3" ++ CRLF ++ B"abc" ++ CRLF ++ B"0;chunk-signature={1}" ++ CRLF ++ CRLF) = Reject /\
  decode cfgS (B"3;chunk-signature={0}" ++ CRLF ++ B"abc" ++ CRLF ++ B"0;chunk-signature={0}" ++ CRLF ++ CRLF) = Reject.
Proof. vm_compute. repeat split. Qed.
