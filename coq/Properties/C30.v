(* Properties/C30.v — Chunked uploads store exactly the decoded payload.
   Positive half (general, part 2 of this file): decode (encode …) = payload for EVERY payload, EVERY chunking and the
   four streaming modes; a non-verifying chunk signature (= modified chunk bytes or size field under
   token consistency), a non-verifying final-chunk signature, a wrong trailer checksum or trailer
   signature on a complete body => Reject.  Signatures / checksums are opaque tokens supplied consistently.
   Negative half (part 1): three claims of the property are refuted on the faithful model by concrete
   witnesses replayed on the real server. *)
From Verif Require Import Bytes Codec AwsChunked AwsChunkedSpec AwsChunkedProofs.

Definition cfgU : cfg := {| has_trailer := false; trailer_signed := false; skip_val := true; is_v4a := false; tname := [];
                            exp_sigs := []; exp_tsig := []; exp_ck := [] |}.
(* STREAMING-UNSIGNED-PAYLOAD-TRAILER with x-amz-checksum-crc32; [ck] = the checksum that matches the carried data *)
Definition cfgUT (ck : bytes) : cfg :=
  {| has_trailer := true; trailer_signed := false; skip_val := true; is_v4a := false; tname := B"x-amz-checksum-crc32";
     exp_sigs := []; exp_tsig := []; exp_ck := ck |}.
(* STREAMING-AWS4-HMAC-SHA256-PAYLOAD; "{i}" is the (opaque) signature verifying at call i *)
Definition cfgS : cfg := {| has_trailer := false; trailer_signed := false; skip_val := false; is_v4a := false; tname := [];
                            exp_sigs := [B"{0}"; B"{1}"; B"{2}"]; exp_tsig := []; exp_ck := [] |}.

(* claim 1: the stored object does not depend on whether authentication is enabled *)
Definition C30_auth_off_same_full : Prop :=
  forall a c body, upload a c body = upload AuthSigned c body.

(* refuted for EVERY body whose decoding differs from the raw bytes: without SigV4 authentication
   (server without credentials, or an anonymous request) the aws-chunked framing is stored verbatim *)
Theorem C30_auth_off_same_refuted_general : forall a c body p,
  a <> AuthSigned -> decode c body = Stored p -> p <> body -> upload a c body <> upload AuthSigned c body.
Proof. exact auth_off_differs. Qed.
Print Assumptions C30_auth_off_same_refuted_general.

Definition hello_body : bytes := B"5" ++ CRLF ++ B"hello" ++ CRLF ++ B"0" ++ CRLF ++ CRLF.

Theorem C30_auth_off_same_refuted : ~ C30_auth_off_same_full.
Proof.
  intros H. specialize (H AuthOff cfgU hello_body). vm_compute in H. discriminate H.
Qed.
Print Assumptions C30_auth_off_same_refuted.

Theorem C30_auth_off_witness :
  upload AuthSigned cfgU hello_body = Stored B"hello" /\
  upload AuthOff cfgU hello_body = Stored hello_body /\ upload AuthAnonymous cfgU hello_body = Stored hello_body.
Proof. vm_compute. repeat split. Qed.
Print Assumptions C30_auth_off_witness.

(* claim 2: a body that is not a complete, untampered encoding is rejected.  Full form for truncation:
   whatever prefix of a body is sent, either it is the whole body or it is rejected *)
Definition C30_truncation_rejected_full : Prop :=
  forall c body n p, n < length body -> decode c body = Stored p -> decode c (firstn n body) = Reject.

(* refuted: signed mode, body cut at the chunk boundary before the terminating zero chunk: the prefix of
   the payload is stored (x-amz-decoded-content-length is never compared) *)
Definition signed_body : bytes :=
  B"3;chunk-signature={0}" ++ CRLF ++ B"abc" ++ CRLF ++ B"3;chunk-signature={1}" ++ CRLF ++ B"def" ++ CRLF
  ++ B"0;chunk-signature={2}" ++ CRLF ++ CRLF.

Theorem C30_truncation_rejected_refuted : ~ C30_truncation_rejected_full.
Proof.
  intros H. specialize (H cfgS signed_body 29 B"abcdef"). vm_compute in H.
  assert (E : Stored B"abc" = Reject) by (apply H; [repeat constructor | reflexivity]). discriminate E.
Qed.
Print Assumptions C30_truncation_rejected_refuted.

Theorem C30_truncation_witness :
  decode cfgS signed_body = Stored B"abcdef" /\
  decode cfgS (firstn 28 signed_body) = Stored B"abc" /\          (* cut before the 2nd chunk *)
  decode cfgS (firstn 54 signed_body) = Stored B"abc" /\          (* cut after the 2nd chunk's data, before its CRLF: chunk dropped *)
  decode cfgS (firstn 56 signed_body) = Stored B"abcdef" /\       (* cut before the zero chunk: final signature never checked *)
  decode cfgS (firstn 53 signed_body) = Reject.                   (* cut inside the data: rejected *)
Proof. vm_compute. repeat split. Qed.
Print Assumptions C30_truncation_witness.

(* worse in the unsigned-trailer mode: a modified chunk is accepted when the terminating chunk (and with
   it the checksum trailer) is simply left out — the trailer checksum is only looked at after a zero chunk *)
Definition ut_body (data ck : bytes) : bytes :=
  B"5" ++ CRLF ++ data ++ CRLF ++ B"0" ++ CRLF ++ B"x-amz-checksum-crc32:" ++ ck ++ CRLF ++ CRLF.

Theorem C30_modified_chunk_without_terminator_accepted :
  decode (cfgUT B"NhCmhg==") (ut_body B"hello" B"NhCmhg==") = Stored B"hello" /\        (* honest *)
  decode (cfgUT B"other===") (ut_body B"hellz" B"NhCmhg==") = Reject /\                 (* modified chunk: checksum mismatch *)
  decode (cfgUT B"other===") (firstn 10 (ut_body B"hellz" B"NhCmhg==")) = Stored B"hellz".  (* same, terminator omitted: stored *)
Proof. vm_compute. repeat split. Qed.
Print Assumptions C30_modified_chunk_without_terminator_accepted.

(* single-point tampering of a complete signed body is rejected — on this witness (general theorem not proved) *)
Example C30_ex_tamper_rejected :
  decode cfgS (B"3;chunk-signature={0}" ++ CRLF ++ B"abX" ++ CRLF ++ B"0;chunk-signature={1}" ++ CRLF ++ CRLF) = Stored B"abX" /\
  decode cfgS (B"3;chunk-signature={bad}" ++ CRLF ++ B"abc" ++ CRLF ++ B"0;chunk-signature={1}" ++ CRLF ++ CRLF) = Reject /\
  decode cfgS (B"3" ++ CRLF ++ B"abc" ++ CRLF ++ B"0;chunk-signature={1}" ++ CRLF ++ CRLF) = Reject /\
  decode cfgS (B"3;chunk-signature={0}" ++ CRLF ++ B"abc" ++ CRLF ++ B"0;chunk-signature={0}" ++ CRLF ++ CRLF) = Reject.
Proof. vm_compute. repeat split. Qed.

(* claim 3: a declared trailer checksum is verified.  Full form for the unsigned-trailer mode: a checksum
   line for a supported algorithm whose value is not the checksum of the carried data is rejected *)
Definition C30_wrong_checksum_rejected_full : Prop :=
  forall c chs name value,
    has_trailer c = true -> trailer_signed c = false -> skip_val c = true -> Forall wf_chunk chs ->
    plain name = true -> name <> [] -> ~ In ":"%byte name -> mem_bytes (to_lower name) known_algos = true ->
    plain value = true -> value <> exp_ck c ->
    decode c (enc false chs B"0" [] (canonical_trailer false name value [])) = Reject.

(* refuted: x-amz-trailer: x-amz-meta-note,x-amz-checksum-crc32 — no hasher is created for the list value and it
   does not start with "x-amz-checksum-", so validateTrailerChecksum returns nil *)
Theorem C30_declared_checksum_unverified : ~ C30_wrong_checksum_rejected_full.
Proof.
  intros H.
  specialize (H {| has_trailer := true; trailer_signed := false; skip_val := true; is_v4a := false;
                   tname := B"x-amz-meta-note,x-amz-checksum-crc32"; exp_sigs := []; exp_tsig := []; exp_ck := B"NhCmhg==" |}
                [] B"x-amz-checksum-crc32" B"AAAAAA==" eq_refl eq_refl eq_refl (Forall_nil _) eq_refl).
  assert (E : Stored [] = Reject).
  { apply H; try reflexivity; try discriminate. cbn. intuition discriminate. }
  discriminate E.
Qed.
Print Assumptions C30_declared_checksum_unverified.

(* ---------------------------------------------------------------------------------------------
   part 2: what does hold, for ALL payloads and chunkings.
   A chunk is (size field hs : 1*HEXDIG with value = length data > 0, signature token without CR/LF, data);
   [enc signed chs hs0 sgf tr] is the wire format (Spec/AwsChunkedSpec.v); signed = not skip_val. *)

(* every well-formed upload decodes to exactly its payload: any cfg (= any of the four modes), any chunk list
   (any sizes, any data bytes incl. CR/LF/';'), any zero size field (0, 00, …); the expected tokens are
   consistent with the carried ones; trailer modes: the canonical trailer section
   name:value CRLF [x-amz-trailer-signature:ts CRLF] CRLF with the declared name (any case) and the matching tokens *)
Theorem C30_decode_encode : forall c chs hs0 sgf tr name value ts,
  Forall wf_chunk chs -> hexstr hs0 = true -> hexv hs0 = 0%N -> tok_ok sgf = true ->
  (skip_val c = true \/
   forall i sg, nth_error (map c_sig chs ++ [sgf]) i = Some sg -> nth_error (exp_sigs c) i = Some (norm_sig c sg)) ->
  (has_trailer c = false \/
   ((tr = canonical_trailer (trailer_signed c) name value ts /\
     mem_bytes (tname c) known_algos = true /\ plain name = true /\ name <> [] /\ ~ In ":"%byte name /\
     to_lower name = tname c /\ plain value = true /\ plain ts = true) /\
    value = exp_ck c /\ (trailer_signed c = true -> norm_sig c ts = exp_tsig c))) ->
  decode c (enc (negb (skip_val c)) chs hs0 sgf tr) = Stored (concat (map c_data chs)).
Proof. exact decode_encode_canonical. Qed.
Print Assumptions C30_decode_encode.

(* signed modes: after any honest prefix, a chunk whose signature token does not verify — which is what a
   modified data byte or a modified size field means when tokens are consistent (the expected token is the one
   for the bytes actually framed) — is rejected as soon as it is completely present, whatever follows *)
Theorem C30_tamper_rejected_chunk : forall c chs hs sg Y,
  skip_val c = false -> Forall wf_chunk chs ->
  (skip_val c = true \/ forall i s, nth_error (map c_sig chs) i = Some s -> nth_error (exp_sigs c) i = Some (norm_sig c s)) ->
  hexstr hs = true -> (0 < hexv hs < 18446744073709551616)%N -> tok_ok sg = true ->
  nth_error (exp_sigs c) (length chs) <> Some (norm_sig c sg) -> (hexv hs + 2 <= lenN Y)%N ->
  decode c (enc_chunks true chs ++ hs ++ sig_ext ++ sg ++ CRLF ++ Y) = Reject.
Proof. exact tamper_chunk_canonical. Qed.
Print Assumptions C30_tamper_rejected_chunk.

(* signed modes: a terminating chunk whose signature does not verify (forged terminator after a cut at a chunk
   boundary, modified final signature) is rejected, whatever the trailer section *)
Theorem C30_tamper_rejected_final_signature : forall c chs hs0 sgf tr,
  skip_val c = false -> Forall wf_chunk chs ->
  (skip_val c = true \/ forall i s, nth_error (map c_sig chs) i = Some s -> nth_error (exp_sigs c) i = Some (norm_sig c s)) ->
  hexstr hs0 = true -> hexv hs0 = 0%N -> tok_ok sgf = true ->
  nth_error (exp_sigs c) (length chs) <> Some (norm_sig c sgf) ->
  decode c (enc true chs hs0 sgf tr) = Reject.
Proof. exact tamper_final_sig_canonical. Qed.
Print Assumptions C30_tamper_rejected_final_signature.

(* trailer modes, complete body, checksum declared as the sole x-amz-trailer name: a checksum value that is not the
   checksum of the carried data (modified chunk in the unsigned mode, or modified trailer), or a wrong trailer
   signature, is rejected *)
Theorem C30_tamper_rejected_trailer : forall c chs hs0 sgf name value ts,
  has_trailer c = true ->
  Forall wf_chunk chs -> hexstr hs0 = true -> hexv hs0 = 0%N -> tok_ok sgf = true ->
  (skip_val c = true \/ forall i s, nth_error (map c_sig chs) i = Some s -> nth_error (exp_sigs c) i = Some (norm_sig c s)) ->
  (mem_bytes (tname c) known_algos = true /\ plain name = true /\ name <> [] /\ ~ In ":"%byte name /\
   to_lower name = tname c /\ plain value = true /\ plain ts = true) ->
  value <> exp_ck c \/ (trailer_signed c = true /\ norm_sig c ts <> exp_tsig c) ->
  decode c (enc (negb (skip_val c)) chs hs0 sgf (canonical_trailer (trailer_signed c) name value ts)) = Reject.
Proof.
  intros c chs hs0 sgf name value ts Hht Hwf Hhs Hz Htok Hs Hform Hbad.
  apply tamper_trailer_canonical; try assumption. split; [reflexivity|exact Hform].
Qed.
Print Assumptions C30_tamper_rejected_trailer.

(* ---------------------------------------------------------------------------------------------
   part 3: the mode table of checkAuthentication (x-amz-content-sha256 -> framing flags), for both request
   signature algorithms.  [norm_sig] in the theorems above is the SigV4a '*'-padding normalisation, so they are
   already statements about the ECDSA modes too ([is_v4a c = true]); signature verification (HMAC or ECDSA) is the
   opaque-token oracle [exp_sigs]/[exp_tsig] — unforgeability is the premise "a token that was not issued for
   these bytes does not verify", see trusted_base. *)

(* every STREAMING-* constant the server accepts for an algorithm gets flags under which each payload byte is
   covered by a verified chunk signature (skip = false) or by a trailer checksum (trailer = true) — with the single,
   explicit exception of STREAMING-UNSIGNED-PAYLOAD (no trailer), which carries no integrity information at all;
   the trailer signature is demanded exactly in the signed trailer modes; the HMAC constants are refused on
   SigV4a requests and the ECDSA constants on SigV4 requests *)
Theorem C30_mode_table_covered : forall v4a sha,
  In sha streaming_constants ->
  match mode_flags v4a sha with
  | None => (v4a = true /\ (sha = sha_S \/ sha = sha_ST)) \/ (v4a = false /\ (sha = sha_ES \/ sha = sha_EST))
  | Some (trailer, trailer_sig, skip) =>
      (skip = false \/ trailer = true \/ sha = sha_U) /\
      trailer_sig = (trailer && negb skip) /\
      (skip = true <-> (sha = sha_U \/ sha = sha_UT)) /\
      (trailer = true <-> (sha = sha_UT \/ sha = sha_ST \/ sha = sha_EST))
  end.
Proof.
  intros v4a sha Hin. destruct v4a; cbn in Hin;
    repeat (destruct Hin as [<-|Hin]; [vm_compute; repeat split; intros; try discriminate; intuition discriminate|]);
    destruct Hin.
Qed.
Print Assumptions C30_mode_table_covered.

(* the table is total: whatever else is sent as x-amz-content-sha256 together with Content-Encoding: aws-chunked is
   decoded as signed chunks without trailer (never as an unsigned mode) *)
Theorem C30_mode_table_default_signed : forall v4a sha,
  ~ In sha streaming_constants -> mode_flags v4a sha = Some (false, false, false).
Proof.
  intros v4a sha Hn. unfold mode_flags, accepts_streaming.
  assert (H : forall k, In k streaming_constants -> bytes_eqb sha k = false).
  { intros k Hk. apply bytes_eqb_neq. intros ->. contradiction. }
  rewrite (H sha_U), (H sha_UT), (H sha_S), (H sha_ST), (H sha_ES), (H sha_EST) by (cbn; tauto).
  destruct v4a; reflexivity.
Qed.
Print Assumptions C30_mode_table_default_signed.

(* signed modes: a chunk header WITHOUT the chunk-signature extension — in particular a stream cut at a chunk boundary and
   closed with the bare terminator "0 CRLF CRLF" — is rejected after any honest prefix, whatever follows (padding etc.) *)
Theorem C30_unsigned_terminator_rejected : forall c chs hs Y,
  skip_val c = false -> Forall wf_chunk chs ->
  (skip_val c = true \/ forall i s, nth_error (map c_sig chs) i = Some s -> nth_error (exp_sigs c) i = Some (norm_sig c s)) ->
  hexstr hs = true ->
  decode c (enc_chunks true chs ++ hs ++ CRLF ++ Y) = Reject.
Proof. exact unsigned_terminator_stmt. Qed.
Print Assumptions C30_unsigned_terminator_rejected.

(* trailer modes with a supported declared checksum: a complete upload is accepted ONLY IF the value of the checksum line
   the reader picks is byte-identical (after trimming surrounding white space) to [exp_ck c] — the canonical base64 text of
   the checksum of the decoded payload; any other spelling of the same bytes (unused bits, padding, alphabet, inner white
   space, folding) is a different byte string and is refused, for ANY trailer section [tr] *)
Theorem C30_accepted_only_canonical_checksum : forall c chs hs0 sgf tr p,
  has_trailer c = true -> mem_bytes (tname c) known_algos = true ->
  Forall wf_chunk chs ->
  (skip_val c = true \/ forall i s, nth_error (map c_sig chs) i = Some s -> nth_error (exp_sigs c) i = Some (norm_sig c s)) ->
  hexstr hs0 = true -> hexv hs0 = 0%N -> tok_ok sgf = true ->
  decode c (enc (negb (skip_val c)) chs hs0 sgf tr) = Stored p ->
  exists name value, split_first ":"%byte (fst (trailer_lines 8 true tr [] [])) = Some (name, value) /\
                     to_lower (trim_space name) = tname c /\ trim_space value = exp_ck c.
Proof. exact accepted_only_canonical_stmt. Qed.
Print Assumptions C30_accepted_only_canonical_checksum.

(* ECDSA instance on a witness: '*'-padded signatures verify, an empty or foreign one does not *)
Definition cfgES : cfg := {| has_trailer := false; trailer_signed := false; skip_val := false; is_v4a := true; tname := [];
                             exp_sigs := [B"{0}"; B"{1}"]; exp_tsig := []; exp_ck := [] |}.
Example C30_ex_ecdsa :
  mode_flags true sha_ES = Some (false, false, false) /\ mode_flags true sha_EST = Some (true, true, false) /\
  mode_flags false sha_ES = None /\
  decode cfgES (B"3;chunk-signature={0}***" ++ CRLF ++ B"abc" ++ CRLF ++ B"0;chunk-signature={1}*" ++ CRLF ++ CRLF) = Stored B"abc" /\
  decode cfgES (B"3;chunk-signature=" ++ CRLF ++ B"abc" ++ CRLF ++ B"0;chunk-signature={1}" ++ CRLF ++ CRLF) = Reject /\
  decode cfgES (B"3;chunk-signature={0}" ++ CRLF ++ B"abc" ++ CRLF ++ B"0;chunk-signature={0}" ++ CRLF ++ CRLF) = Reject.
Proof. vm_compute. repeat split. Qed.

(* non-vacuity: the hypotheses are satisfiable by the concrete uploads used above *)
Example C30_ex_wf : wf_chunk {| c_hs := B"0A"; c_sig := B"{0}"; c_data := B"0123456789" |}.
Proof. unfold wf_chunk. cbn. repeat split; reflexivity || lia. Qed.
Example C30_ex_encode :
  enc true [{| c_hs := B"3"; c_sig := B"{0}"; c_data := B"abc" |}; {| c_hs := B"3"; c_sig := B"{1}"; c_data := B"def" |}]
      B"0" B"{2}" CRLF = signed_body.
Proof. reflexivity. Qed.
Example C30_ex_trailer :
  canonical_trailer true B"X-Amz-Checksum-Crc32" B"NhCmhg==" B"{t}" =
  B"X-Amz-Checksum-Crc32:NhCmhg==" ++ CRLF ++ B"x-amz-trailer-signature:{t}" ++ CRLF ++ CRLF.
Proof. reflexivity. Qed.
