(* Properties/C28.v — SigV4 authentication cannot be satisfied by an altered request.
   Statements about the model coq/Model/SigV4.v (signature.go).  HMAC-SHA256 and SHA-256 are abstract: the
   verifier accepts a signature iff it is the MAC recorded in one of the signing facts [facts] (the only MACs
   that exist for the secret keys) for exactly the derived key material and string to sign — i.e. MAC
   unforgeability and injectivity in the message are the explicit premise, built into [verify]. *)
From Verif Require Import Bytes Codec SigV4 SigV4Spec SigV4EncProofs SigV4HdrProofs SigV4SortProofs SigV4AuthProofs C28Proofs.
From Coq Require Import Permutation.

(* 1. soundness of acceptance: a request is authenticated as [id] only if [id] is a configured credential, the
   credential scope is (date of the timestamp, configured region, s3, aws4_request), the instant lies in
   [timestamp - 15 min, timestamp + expiry] (5 min in header mode, X-Amz-Expires in 1..604800 s when presigned),
   host and every x-amz-* / Content-MD5 header of the request are signed, and the presented signature is the MAC
   of a signing fact whose key material is (that credential's secret, that scope) and whose message is
   (algorithm, timestamp, scope, the canonical request of THIS request). *)
Theorem C28_accepted_only_with_matching_fact : forall cfg facts now r id,
  middleware cfg facts now r = Accepted id ->
  exists esc p date secret t f,
    go_escaped_path (r_path r) = Some esc /\
    parse_signature_parameters r = Some p /\
    p_alg p = alg_v4 /\
    split_on "/"%byte (p_credential p) = [id; date; c_region cfg; B"s3"; B"aws4_request"] /\
    find_cred id (c_creds cfg) = Some secret /\
    parse_timestamp (p_timestamp p) = Some t /\ date = ts_date (p_timestamp p) /\
    (t - 900 * ns <= now)%Z /\ (now <= t + p_expiry_s p * ns)%Z /\
    mem_bytes B"host" (signed_header_names (p_signed_headers p)) = true /\
    (forall k vs, In (k, vs) (r_headers r) -> must_be_signed (to_lower k) = true ->
       mem_bytes (to_lower k) (signed_header_names (p_signed_headers p)) = true) /\
    (needs_body_hash r (p_presigned p) = true -> r_body_err r = false) /\
    In f facts /\
    f_key f = {| k_secret := secret; k_date := date; k_region := c_region cfg; k_service := B"s3"; k_term := B"aws4_request" |} /\
    f_msg f = {| s_alg := p_alg p; s_ts := p_timestamp p;
                 s_scope := join B"/" [date; c_region cfg; B"s3"; B"aws4_request"];
                 s_cr := canonical_request r esc (signed_header_names (p_signed_headers p)) (p_presigned p) |} /\
    f_mac f = p_signature p.
Proof. exact accepted_sound. Qed.
Print Assumptions C28_accepted_only_with_matching_fact.

(* 2. no signing fact, no authentication (whatever the request says) *)
Theorem C28_no_fact_no_access : forall cfg now r id, middleware cfg [] now r <> Accepted id.
Proof.
  intros cfg now r id H. apply accepted_sound in H.
  destruct H as (? & ? & ? & ? & ? & f & H). destruct H as (_ & _ & _ & _ & _ & _ & _ & _ & _ & _ & _ & _ & Hin & _). exact Hin.
Qed.
Print Assumptions C28_no_fact_no_access.

(* 3. the canonical request is an injective encoding (no delimiter ambiguity): the five components are determined,
   provided method, URI and query contain no LF and header names contain neither ':' nor LF and values no LF *)
Theorem C28_canonical_request_injective : forall m u q hs p m' u' q' hs' p',
  ~ In nl m -> ~ In nl m' -> ~ In nl u -> ~ In nl u' -> ~ In nl q -> ~ In nl q' ->
  Forall (fun h => ~ In ":"%byte (fst h) /\ ~ In nl (fst h) /\ ~ In nl (snd h)) hs ->
  Forall (fun h => ~ In ":"%byte (fst h) /\ ~ In nl (fst h) /\ ~ In nl (snd h)) hs' ->
  canonical_request_of m u q hs p = canonical_request_of m' u' q' hs' p' ->
  m = m' /\ u = u' /\ q = q' /\ hs = hs' /\ p = p'.
Proof. exact canonical_request_of_inj. Qed.
Print Assumptions C28_canonical_request_injective.

(* 4. the canonical query string determines the multiset of decoded parameters (X-Amz-Signature aside) *)
Theorem C28_canonical_query_determines_parameters : forall ps ps',
  canon_query_of_pairs ps = canon_query_of_pairs ps' -> Permutation ps ps'.
Proof. exact canon_query_determines. Qed.
Print Assumptions C28_canonical_query_determines_parameters.

(* 5. the canonical URI determines the decoded path (a stray '%' counting as itself) *)
Theorem C28_canonical_uri_determines_path : forall e e',
  canon_uri_body e = canon_uri_body e' -> pct_decode e = pct_decode e'.
Proof. intros e e' H. rewrite <- (canon_uri_body_decode e), <- (canon_uri_body_decode e'), H. reflexivity. Qed.
Print Assumptions C28_canonical_uri_determines_path.

(* 6. two requests with the same canonical request agree on everything the signature is meant to protect:
   method, decoded path, parameter multiset, every signed header (name; each value after Trimall — white space at
   the ends stripped and every run of spaces collapsed to one space; multiple values joined by ','), and the
   payload line (body hash, or the declared literal).
   Caveats, part of the statement: requests are as net/http delivers them (no LF in method, host, header names and
   values; no ':' in header names); the path is compared after percent-decoding; the query after url.ParseQuery
   (pairs containing ';' or a malformed escape are invisible to canonicalisation and to r.URL.Query() alike);
   header values up to Trimall and up to splitting at ',': since /repo bc241f9 two values that differ only in
   white space at the ends or in the LENGTH of runs of inner spaces are deliberately identified, as the SigV4
   specification prescribes (made precise by C28_signed_header_values_up_to_trimall below); headers that are
   neither signed nor x-amz-* / Content-MD5 are not protected. *)
Theorem C28_same_canonical_request_same_request : forall r esc names pre r0 esc0 names0 pre0,
  (~ In nl (r_method r) /\ ~ In nl (r_host r) /\
   forall k vs, In (k, vs) (r_headers r) -> ~ In ":"%byte k /\ ~ In nl k /\ Forall (fun v => ~ In nl v) vs) ->
  (~ In nl (r_method r0) /\ ~ In nl (r_host r0) /\
   forall k vs, In (k, vs) (r_headers r0) -> ~ In ":"%byte k /\ ~ In nl k /\ Forall (fun v => ~ In nl v) vs) ->
  esc <> [] -> esc0 <> [] ->
  canonical_request r esc names pre = canonical_request r0 esc0 names0 pre0 ->
  r_method r = r_method r0 /\
  pct_decode esc = pct_decode esc0 /\
  Permutation (query_pairs (r_query r)) (query_pairs (r_query r0)) /\
  collect_signed_headers (r_host r) (r_headers r) names = collect_signed_headers (r_host r0) (r_headers r0) names0 /\
  payload_line r pre = payload_line r0 pre0.
Proof. exact canonical_request_determines. Qed.
Print Assumptions C28_same_canonical_request_same_request.

(* 7. the property: if the only MAC in existence was made for request r0 (signed at timestamp ts0 for scope sc0
   with its canonical request), then any request r that is authenticated presents that timestamp and scope, lies in
   the time window of ts0, and agrees with r0 on method, decoded path, parameters, signed headers and payload line;
   all its x-amz-* / Content-MD5 headers are among the signed ones. *)
Theorem C28_altered_request_rejected : forall cfg now r id k0 alg0 ts0 sc0 mac0 r0 esc0 names0 pre0,
  (~ In nl (r_method r) /\ ~ In nl (r_host r) /\
   forall k vs, In (k, vs) (r_headers r) -> ~ In ":"%byte k /\ ~ In nl k /\ Forall (fun v => ~ In nl v) vs) ->
  (~ In nl (r_method r0) /\ ~ In nl (r_host r0) /\
   forall k vs, In (k, vs) (r_headers r0) -> ~ In ":"%byte k /\ ~ In nl k /\ Forall (fun v => ~ In nl v) vs) ->
  esc0 <> [] -> r_path r <> [] ->
  middleware cfg
    [{| f_key := k0; f_msg := {| s_alg := alg0; s_ts := ts0; s_scope := sc0;
                                 s_cr := canonical_request r0 esc0 names0 pre0 |}; f_mac := mac0 |}] now r = Accepted id ->
  exists esc p t,
    go_escaped_path (r_path r) = Some esc /\ parse_signature_parameters r = Some p /\
    p_signature p = mac0 /\ p_timestamp p = ts0 /\ p_alg p = alg0 /\
    find_cred id (c_creds cfg) = Some (k_secret k0) /\
    sc0 = join B"/" [ts_date ts0; c_region cfg; B"s3"; B"aws4_request"] /\
    parse_timestamp ts0 = Some t /\ (t - 900 * ns <= now)%Z /\ (now <= t + p_expiry_s p * ns)%Z /\
    r_method r = r_method r0 /\
    pct_decode esc = pct_decode esc0 /\
    Permutation (query_pairs (r_query r)) (query_pairs (r_query r0)) /\
    collect_signed_headers (r_host r) (r_headers r) (signed_header_names (p_signed_headers p))
      = collect_signed_headers (r_host r0) (r_headers r0) names0 /\
    payload_line r (p_presigned p) = payload_line r0 pre0 /\
    (forall k vs, In (k, vs) (r_headers r) -> must_be_signed (to_lower k) = true ->
       mem_bytes (to_lower k) (signed_header_names (p_signed_headers p)) = true) /\
    (* the body, when it is signed (header mode, no payload literal), was received completely and its SHA-256 is
       the one that was signed — whatever its length, below, at or above the 10,000,000-byte in-memory limit *)
    (needs_body_hash r (p_presigned p) = true -> r_body_err r = false) /\
    (needs_body_hash r (p_presigned p) = true -> needs_body_hash r0 pre0 = true -> r_payload r = r_payload r0).
Proof. exact altered_request_rejected. Qed.
Print Assumptions C28_altered_request_rejected.

(* 8. every signed header of a request (in particular every x-amz-* / Content-MD5 header of an authenticated one,
   by theorem 1) is a line of the signed header block, carrying the ','-join of its Trimall'ed values — adding or
   changing such a header after signing changes the canonical request unless the change is one Trimall erases *)
Theorem C28_sensitive_headers_are_in_the_canonical_request : forall host h names k vs,
  In (k, vs) h -> mem_bytes (to_lower k) names = true ->
  In (to_lower k, join B"," (map spec_trimall vs)) (collect_signed_headers host h names).
Proof.
  intros host h names k vs Hin Hm. rewrite <- (map_ext _ _ canonical_header_value_eq_spec).
  exact (signed_header_in_block host h names k vs Hin Hm).
Qed.
Print Assumptions C28_sensitive_headers_are_in_the_canonical_request.

(* 9. the caveat made precise: the line of a header depends on its values only through Trimall and the ','-join;
   e.g. "a  b" and " a b " give the same line, "a b" and "ab" (or "a\tb") do not *)
Theorem C28_signed_header_values_up_to_trimall : forall host h h' names,
  map (fun kv => (to_lower (fst kv), join B"," (map spec_trimall (snd kv)))) h =
  map (fun kv => (to_lower (fst kv), join B"," (map spec_trimall (snd kv)))) h' ->
  spec_trimall host = spec_trimall host ->
  collect_signed_headers host h names = collect_signed_headers host h' names.
Proof. exact header_block_up_to_trimall. Qed.
Print Assumptions C28_signed_header_values_up_to_trimall.

(* 10. the payload line of a header-signed request without a payload literal is the SHA-256 of the bytes RECEIVED
   as body (r_payload, by the protocol of the model the hash of what r.Body delivers), for EVERY body length: the
   in-memory / spooled split of generateHashedPayload at max_memory_cache_size = 10,000,000 bytes does not enter
   the result, and the declared x-amz-content-sha256 is never used in its place *)
Theorem C28_payload_line_is_hash_of_received_bytes : forall m h p q hs received_hash len err,
  mem_bytes (hget sha_hdr hs) payload_literals = false ->
  payload_line {| r_method := m; r_host := h; r_path := p; r_query := q; r_headers := hs;
                  r_payload := received_hash; r_body_len := len; r_body_err := err |} false = received_hash.
Proof.
  intros m h p q hs rh len err H. apply payload_line_hashed. unfold needs_body_hash. cbn [r_headers]. rewrite H. reflexivity.
Qed.
Print Assumptions C28_payload_line_is_hash_of_received_bytes.

(* ---- non-vacuity: a signed request is accepted, its mutants are not ---- *)
Definition ex_cfg : config := {| c_region := B"eu-central-1"; c_creds := [(B"AK", B"secret")] |}.
Definition ex_hdrs (date : bytes) : header_map :=
  [(B"Authorization", [B"AWS4-HMAC-SHA256 Credential=AK/20260921/eu-central-1/s3/aws4_request, SignedHeaders=host;x-amz-content-sha256;x-amz-date, Signature=ab"]);
   (B"X-Amz-Content-Sha256", [B"UNSIGNED-PAYLOAD"]); (B"X-Amz-Date", [date])].
Definition ex_r0 : request :=
  {| r_method := B"GET"; r_host := B"s3.localhost"; r_path := B"/bucket/a%20b"; r_query := B"prefix=a%2Fb";
     r_headers := ex_hdrs B"20260921T120000Z"; r_payload := B"e3b0"; r_body_len := 0; r_body_err := false |}.
Definition ex_names : list bytes := [B"host"; B"x-amz-content-sha256"; B"x-amz-date"].
Definition ex_fact : fact :=
  {| f_key := {| k_secret := B"secret"; k_date := B"20260921"; k_region := B"eu-central-1"; k_service := B"s3"; k_term := B"aws4_request" |};
     f_msg := {| s_alg := alg_v4; s_ts := B"20260921T120000Z"; s_scope := B"20260921/eu-central-1/s3/aws4_request";
                 s_cr := canonical_request ex_r0 B"/bucket/a%20b" ex_names false |};
     f_mac := B"ab" |}.
Definition ex_rh : request :=
  {| r_method := B"PUT"; r_host := B"s3.localhost"; r_path := B"/bucket/big"; r_query := [];
     r_headers := [(B"Authorization", [B"AWS4-HMAC-SHA256 Credential=AK/20260921/eu-central-1/s3/aws4_request, SignedHeaders=host;x-amz-content-sha256;x-amz-date, Signature=cd"]);
                   (B"X-Amz-Content-Sha256", [B"cafe"]); (B"X-Amz-Date", [B"20260921T120000Z"])];
     r_payload := B"cafe"; r_body_len := 10000001; r_body_err := false |}.
Definition ex_fact_h : fact :=
  {| f_key := f_key ex_fact;
     f_msg := {| s_alg := alg_v4; s_ts := B"20260921T120000Z"; s_scope := B"20260921/eu-central-1/s3/aws4_request";
                 s_cr := canonical_request ex_rh B"/bucket/big" ex_names false |};
     f_mac := B"cd" |}.
Definition ex_now : Z := (1789992000 * 1000000000 + 60 * 1000000000)%Z.
Example C28_ex_original_accepted : middleware ex_cfg [ex_fact] ex_now ex_r0 = Accepted B"AK".
Proof. vm_compute. reflexivity. Qed.
Example C28_ex_mutants_rejected :
  middleware ex_cfg [ex_fact] ex_now
    {| r_method := B"DELETE"; r_host := r_host ex_r0; r_path := r_path ex_r0; r_query := r_query ex_r0; r_headers := r_headers ex_r0; r_payload := r_payload ex_r0; r_body_len := 0; r_body_err := false |} = Rejected /\
  middleware ex_cfg [ex_fact] ex_now
    {| r_method := B"GET"; r_host := r_host ex_r0; r_path := B"/bucket/a%20c"; r_query := r_query ex_r0; r_headers := r_headers ex_r0; r_payload := r_payload ex_r0; r_body_len := 0; r_body_err := false |} = Rejected /\
  middleware ex_cfg [ex_fact] ex_now
    {| r_method := B"GET"; r_host := r_host ex_r0; r_path := r_path ex_r0; r_query := B"prefix=a%2Fb&versionId=1"; r_headers := r_headers ex_r0; r_payload := r_payload ex_r0; r_body_len := 0; r_body_err := false |} = Rejected /\
  middleware ex_cfg [ex_fact] ex_now
    {| r_method := B"GET"; r_host := r_host ex_r0; r_path := r_path ex_r0; r_query := r_query ex_r0;
       r_headers := (B"X-Amz-Acl", [B"public-read"]) :: r_headers ex_r0; r_payload := r_payload ex_r0; r_body_len := 0; r_body_err := false |} = Rejected /\
  middleware ex_cfg [ex_fact] (ex_now + 241 * 1000000000)%Z ex_r0 = Rejected /\
  (* header mode with a real payload hash: a 10,000,001-byte body whose received hash is not the signed one, and a
     body that ends with an error, are rejected although the declared x-amz-content-sha256 is the signed value *)
  middleware ex_cfg [ex_fact_h] ex_now ex_rh = Accepted B"AK" /\
  middleware ex_cfg [ex_fact_h] ex_now
    {| r_method := r_method ex_rh; r_host := r_host ex_rh; r_path := r_path ex_rh; r_query := r_query ex_rh; r_headers := r_headers ex_rh;
       r_payload := B"beef"; r_body_len := 10000001; r_body_err := false |} = Rejected /\
  middleware ex_cfg [ex_fact_h] ex_now
    {| r_method := r_method ex_rh; r_host := r_host ex_rh; r_path := r_path ex_rh; r_query := r_query ex_rh; r_headers := r_headers ex_rh;
       r_payload := r_payload ex_rh; r_body_len := 10000000; r_body_err := true |} = Rejected /\
  middleware {| c_region := B"us-east-1"; c_creds := c_creds ex_cfg |} [ex_fact] ex_now ex_r0 = Rejected.
Proof. vm_compute. repeat split; reflexivity. Qed.
