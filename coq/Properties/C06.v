(* Properties/C06.v — listings are complete, ordered, duplicate-free and prefix-exact.
   Only statements, [exact]s to Proofs/ListingProofs.v, refutation witnesses, non-vacuity examples
   and Print Assumptions.

   Part 1 (C06_spec_*, C06_paging_partition): the S3 listing specification [spec_entries] /
   [spec_page] of Model/Listing.v IS the property: its entries are exactly the byte-exact matches,
   grouped at the first delimiter after the prefix, strictly ordered (hence duplicate-free), and
   following the next-markers until not truncated yields every entry exactly once, in order.
   Part 2: the faithful model of pithos' listing path (SQL LIKE filter, listObjects,
   listAndFilterObjects, a marker-following client) against that specification:
   refuted in general (three independent witnesses, all replayed on the real code), proved on the
   region without delimiter and without LIKE-sensitive prefixes, for every page size. *)
From Verif Require Import Bytes Codec Listing ListingProofs.
From Coq Require Import Sorting.Sorted.

(* ---- Part 1: the specification ---- *)

(* complete and nothing else: the entries are exactly the images of the keys that start
   byte-for-byte with the prefix *)
Theorem C06_spec_sound_complete : forall keys prefix delim e,
  In e (spec_entries keys prefix delim) <->
  exists k, In k keys /\ is_prefix prefix k = true /\ classify prefix delim k = e.
Proof.
  intros keys prefix delim e. split; [apply spec_entries_sound|].
  intros (k & H1 & H2 & <-). apply spec_entries_complete; assumption.
Qed.
Print Assumptions C06_spec_sound_complete.

(* CommonPrefixes group exactly the keys that contain the delimiter after the prefix ... *)
Theorem C06_spec_common_prefix_iff_delimiter : forall prefix delim k,
  (exists p, classify prefix delim k = ECP p) <->
  delim <> [] /\ exists x r, skipn (length prefix) k = x ++ delim ++ r.
Proof. exact common_prefix_iff_delimiter. Qed.
Print Assumptions C06_spec_common_prefix_iff_delimiter.

(* ... and the common prefix runs from the start of the key through the FIRST delimiter after the prefix *)
Theorem C06_spec_common_prefix_shape : forall prefix delim k p,
  is_prefix prefix k = true -> classify prefix delim k = ECP p ->
  exists x r, k = prefix ++ x ++ delim ++ r /\ p = prefix ++ x ++ delim /\
              find_sub delim (x ++ delim ++ r) = Some x.
Proof. exact common_prefix_shape. Qed.
Print Assumptions C06_spec_common_prefix_shape.

(* ordered and duplicate-free: names strictly increase in byte order (so no key and common prefix
   share a name either) *)
Theorem C06_spec_strictly_ordered : forall keys prefix delim,
  StronglySorted (fun a b => bcmp a b = Lt) (map name (spec_entries keys prefix delim)).
Proof. intros. apply (sorted_by_StronglySorted name). apply spec_entries_sorted. Qed.
Print Assumptions C06_spec_strictly_ordered.

(* [bcmp] is the byte-wise lexicographic order: a strict total order on byte strings *)
Theorem C06_bcmp_strict_total_order : forall a b c,
  (bcmp a b = Eq <-> a = b) /\ bcmp b a = CompOpp (bcmp a b) /\
  (bcmp a b = Lt -> bcmp b c = Lt -> bcmp a c = Lt).
Proof.
  intros a b c. split; [split; [apply bcmp_eq | intros ->; apply bcmp_refl]|].
  split; [apply bcmp_antisym | apply bcmp_lt_trans].
Qed.
Print Assumptions C06_bcmp_strict_total_order.

(* paging partitions the listing: for every key set, prefix, delimiter, start marker and page size
   >= 1, following the next-markers (name of the last entry of each truncated page) until a page is
   not truncated yields exactly the entries after the start marker — each once, in order *)
Theorem C06_paging_partition : forall keys prefix delim marker max,
  1 <= max ->
  spec_follow (S (length keys)) keys prefix delim marker max =
  after_marker marker (spec_entries keys prefix delim).
Proof. exact paging_partition. Qed.
Print Assumptions C06_paging_partition.

(* ---- Part 2: pithos' listing path (faithful model) against the specification ---- *)

(* the property for ListObjects V1/V2 as served by pithos: a client that follows the markers
   receives exactly the S3 listing (keys are distinct and non-empty, as the storage enforces) *)
Definition C06_listing_full : Prop := forall keys prefix delim marker max,
  NoDup keys -> ~ In [] keys -> 1 <= max ->
  let pages := client_follow (page_cap keys) keys prefix delim marker max in
  let expected := after_marker marker (spec_entries keys prefix delim) in
  all_objs pages = entry_keys expected /\ all_cps pages = entry_cps expected.

Ltac refute_with keys prefix delim max :=
  let H := fresh in
  intros H; specialize (H keys prefix delim (@None bytes) max);
  assert (NoDup keys) as HN by (repeat constructor; cbn; intuition discriminate);
  assert (~ In [] keys) as HE by (cbn; intuition discriminate);
  assert (1 <= max) as HM by (cbn; lia);
  specialize (H HN HE HM); vm_compute in H; destruct H; discriminate.

(* witness 1 (finding C06-like-prefix): SQLite LIKE — prefix "a_" lists "Ab" and "ab" *)
Theorem C06_listing_full_refuted_like : ~ C06_listing_full.
Proof. refute_with [B"Ab"; B"ab"; B"bc"] B"a_" (@nil byte) 5. Qed.
Print Assumptions C06_listing_full_refuted_like.

(* witness 1b: even a plain letter is folded — prefix "a" lists "Ab" *)
Theorem C06_listing_full_refuted_case : ~ C06_listing_full.
Proof. refute_with [B"Ab"; B"ab"] B"a" (@nil byte) 5. Qed.
Print Assumptions C06_listing_full_refuted_case.

(* witness 2 (finding C06-delimiter-paging): keys a/1, b, c; delimiter "/"; max-keys 1 —
   the common prefix "a/" is never returned *)
Theorem C06_listing_full_refuted_delimiter_lost : ~ C06_listing_full.
Proof. refute_with [B"a/1"; B"b"; B"c"] (@nil byte) B"/" 1. Qed.
Print Assumptions C06_listing_full_refuted_delimiter_lost.

(* witness 2b: keys a/1, a/2, zz; delimiter "/"; max-keys 2 — "zz" is returned twice *)
Theorem C06_listing_full_refuted_delimiter_duplicate : ~ C06_listing_full.
Proof. refute_with [B"a/1"; B"a/2"; B"zz"] (@nil byte) B"/" 2. Qed.
Print Assumptions C06_listing_full_refuted_delimiter_duplicate.

(* witness 3 (finding C06-multibyte-delimiter): prefix "a", delimiter "aa", key "aaa" — the
   delimiter match straddles the end of the prefix and the common prefix comes out as "aa" *)
Theorem C06_listing_full_refuted_multibyte_delimiter : ~ C06_listing_full.
Proof. refute_with [B"aaa"; B"ab"] B"a" B"aa" 5. Qed.
Print Assumptions C06_listing_full_refuted_multibyte_delimiter.

(* what the model (and the real server, see corpus/C06) answers on the witnesses *)
Example C06_witness_like :
  all_objs (client_follow 9 [B"Ab"; B"ab"; B"bc"] B"a_" [] None 5) = [B"Ab"; B"ab"] /\
  spec_entries [B"Ab"; B"ab"; B"bc"] B"a_" [] = [].
Proof. vm_compute. split; reflexivity. Qed.
Example C06_witness_delimiter_lost :
  let pages := client_follow 9 [B"a/1"; B"b"; B"c"] [] B"/" None 1 in
  all_objs pages = [B"b"; B"c"] /\ all_cps pages = [] /\
  spec_entries [B"a/1"; B"b"; B"c"] [] B"/" = [ECP B"a/"; EKey B"b"; EKey B"c"].
Proof. vm_compute. repeat split; reflexivity. Qed.
Example C06_witness_delimiter_duplicate :
  all_objs (client_follow 9 [B"a/1"; B"a/2"; B"zz"] [] B"/" None 2) = [B"zz"; B"zz"].
Proof. vm_compute. reflexivity. Qed.
Example C06_witness_multibyte :
  all_cps (client_follow 9 [B"aaa"; B"ab"] B"a" B"aa" None 5) = [B"aa"] /\
  spec_entries [B"aaa"; B"ab"] B"a" B"aa" = [ECP B"aaa"; EKey B"ab"].
Proof. vm_compute. split; reflexivity. Qed.

(* on the safe region SQLite's LIKE is the byte-exact prefix test *)
Theorem C06_like_exact_on_safe_region : forall prefix k,
  no_like_special prefix = true -> case_safe prefix k = true ->
  like_prefix prefix k = is_prefix prefix k.
Proof. exact like_prefix_exact. Qed.
Print Assumptions C06_like_exact_on_safe_region.

(* the strongest true statement: without a delimiter, with a prefix that contains neither '%' nor
   '_' and that no key matches at some position only up to ASCII case, the pages a marker-following
   client receives from pithos are exactly the S3 listing — for every key set, start marker and
   page size >= 1 *)
Theorem C06_listing_partial : forall keys prefix marker max,
  1 <= max -> ~ In [] keys ->
  no_like_special prefix = true ->
  (forall k, In k keys -> case_safe prefix k = true) ->
  let pages := client_follow (page_cap keys) keys prefix [] marker max in
  let expected := after_marker marker (spec_entries keys prefix []) in
  all_objs pages = entry_keys expected /\ all_cps pages = entry_cps expected.
Proof. exact listing_partial. Qed.
Print Assumptions C06_listing_partial.

(* page by page on the same region: each response is the specification's page *)
Theorem C06_page_partial : forall keys prefix marker max,
  1 <= max -> ~ In [] keys ->
  no_like_special prefix = true ->
  (forall k, In k keys -> case_safe prefix k = true) ->
  exists r, http_list keys prefix [] marker max = Some r /\
    map EKey (h_objs r) = fst (spec_page keys prefix [] marker max) /\ h_cps r = [] /\
    h_trunc r = snd (spec_page keys prefix [] marker max).
Proof. exact page_partial. Qed.
Print Assumptions C06_page_partial.

(* ListParts: every response is the page "first max part numbers after the marker, ascending",
   truncated iff more remain, next marker = last part of the page *)
Theorem C06_parts_page : forall parts marker max,
  1 <= max -> (forall p, In p parts -> (0 < p)%N) ->
  let r := parts_http parts marker max in
  let '(pg, tr) := parts_spec_page parts marker max in
  p_parts r = pg /\ p_trunc r = tr /\ p_next r = (if tr then last_opt pg else None).
Proof. exact parts_page. Qed.
Print Assumptions C06_parts_page.

(* ---- Part 3: ListObjectVersions and ListMultipartUploads ---- *)

(* specification of the version listing: exactly the rows of keys that start byte-for-byte with the
   prefix, each either itself or rolled up into its CommonPrefix *)
Theorem C06_versions_spec_sound_complete : forall rows prefix delim e,
  In e (spec_ventries rows prefix delim) <->
  exists r, In r rows /\ is_prefix prefix (vr_key r) = true /\ vclassify prefix delim r = e.
Proof. exact spec_ventries_In. Qed.
Print Assumptions C06_versions_spec_sound_complete.

Theorem C06_uploads_spec_sound_complete : forall ups prefix delim e,
  In e (spec_uentries ups prefix delim) <->
  exists r, In r ups /\ is_prefix prefix (fst r) = true /\ uclassify prefix delim r = e.
Proof. exact spec_uentries_In. Qed.
Print Assumptions C06_uploads_spec_sound_complete.

(* no (key, version) and no common prefix is listed twice *)
Theorem C06_versions_spec_duplicate_free : forall rows ups prefix delim,
  NoDup (spec_ventries rows prefix delim) /\ NoDup (spec_uentries ups prefix delim).
Proof. intros. split; apply dedup_NoDup. Qed.
Print Assumptions C06_versions_spec_duplicate_free.

(* paging partitions both listings: pages of max >= 1 entries, each continued after the entry its
   last entry names, until a page is not truncated, yield every entry exactly once, in order *)
Theorem C06_versions_paging_partition : forall rows prefix delim max,
  1 <= max ->
  let l := spec_ventries rows prefix delim in
  follow_ident ventry_eqb (S (length l)) l None max = l.
Proof. intros rows prefix delim max Hm. cbn zeta. apply ident_paging_partition; [apply dedup_NoDup | exact Hm]. Qed.
Print Assumptions C06_versions_paging_partition.

Theorem C06_uploads_paging_partition : forall ups prefix delim max,
  1 <= max ->
  let l := spec_uentries ups prefix delim in
  follow_ident ventry_eqb (S (length l)) l None max = l.
Proof. intros ups prefix delim max Hm. cbn zeta. apply ident_paging_partition; [apply dedup_NoDup | exact Hm]. Qed.
Print Assumptions C06_uploads_paging_partition.

(* the next marker of an entry names that entry *)
Theorem C06_version_marker_names_entry : forall e,
  vmarks (fst (vnext e)) (snd (vnext e)) e = true.
Proof. intros [k v d|p]; cbn; rewrite ?bytes_eqb_refl; reflexivity. Qed.
Print Assumptions C06_version_marker_names_entry.

Definition ventry_items (l : list ventry) : list ventry :=
  filter (fun e => match e with VCP _ => false | _ => true end) l.
Definition ventry_cps (l : list ventry) : list bytes :=
  flat_map (fun e => match e with VCP p => [p] | _ => [] end) l.

(* the property for ListObjectVersions as served by pithos (faithful model of the SQL query, the entity
   loop and its next markers, followed by a client), for every write history *)
Definition C06_versions_full : Prop := forall ops prefix delim max,
  1 <= max ->
  let rows := fst (run_history 0 ops [] []) in
  let pages := versions_follow (S (hist_cap ops)) rows prefix delim None max in
  let expected := spec_ventries rows prefix delim in
  flat_map vres_entries pages = ventry_items expected /\ flat_map v_cps pages = ventry_cps expected.

(* witness (finding C06-null-version-order): PUT a, PUT a (versioned), suspend, PUT a: the null version
   is the newest and must be listed first; pithos lists it last *)
Theorem C06_versions_full_refuted_null_order : ~ C06_versions_full.
Proof.
  intros H. specialize (H [HP B"a"; HP B"a"; HS B"a"] (@nil byte) (@nil byte) 5 ltac:(lia)).
  vm_compute in H. destruct H; discriminate.
Qed.
Print Assumptions C06_versions_full_refuted_null_order.

(* witness (finding C06-like-prefix, versions): prefix "a_" lists the versions of "Ab" and "ab" *)
Theorem C06_versions_full_refuted_like : ~ C06_versions_full.
Proof.
  intros H. specialize (H [HP B"Ab"; HP B"ab"] B"a_" (@nil byte) 5 ltac:(lia)).
  vm_compute in H. destruct H; discriminate.
Qed.
Print Assumptions C06_versions_full_refuted_like.

Example C06_witness_null_order :
  let rows := fst (run_history 0 [HP B"a"; HP B"a"; HS B"a"] [] []) in
  flat_map vres_entries (versions_follow 9 rows [] [] None 5)
    = [VEnt B"a" B"v001" false; VEnt B"a" B"v000" false; VEnt B"a" B"null" false] /\
  spec_ventries rows [] [] = [VEnt B"a" B"null" false; VEnt B"a" B"v001" false; VEnt B"a" B"v000" false].
Proof. vm_compute. split; reflexivity. Qed.

(* versions written in non-key order with delete markers and a delimiter: here model = specification *)
Example C06_versions_ex_agree :
  let ops := [HP B"b"; HP B"a/1"; HP B"b"; HD B"a/2"; HP B"a/1"; HP B"c"] in
  let rows := fst (run_history 0 ops [] []) in
  let pages := versions_follow (S (hist_cap ops)) rows [] B"/" None 1 in
  length pages = 4 /\
  flat_map vres_entries pages = ventry_items (spec_ventries rows [] B"/") /\
  flat_map v_cps pages = ventry_cps (spec_ventries rows [] B"/").
Proof. vm_compute. repeat split; reflexivity. Qed.

(* the same for ListMultipartUploads over HTTP *)
Definition C06_uploads_full : Prop := forall ops prefix delim max,
  1 <= max ->
  let ups := snd (run_history 0 ops [] []) in
  let pages := uploads_follow (hist_cap ops) ups prefix delim None None max in
  let expected := spec_uentries ups prefix delim in
  map (fun r => VEnt (fst r) (snd r) false) (flat_map uh_ups pages) = ventry_items expected /\
  flat_map uh_cps pages = ventry_cps expected.

(* witness (finding C06-delimiter-paging, uploads): uploads a/1, b, c; delimiter "/"; max-uploads 1:
   the common prefix "a/" is never returned *)
Theorem C06_uploads_full_refuted_delimiter : ~ C06_uploads_full.
Proof.
  intros H. specialize (H [HM B"a/1"; HM B"b"; HM B"c"] (@nil byte) B"/" 1 ltac:(lia)).
  vm_compute in H. destruct H; discriminate.
Qed.
Print Assumptions C06_uploads_full_refuted_delimiter.

(* non-vacuity of the partial theorem's hypotheses: a mixed-case key set, a prefix that is safe for it,
   three pages *)
Example C06_partial_nonvacuous :
  let keys := [B"ab/1"; B"ab/2"; B"abc"; B"Xy"; B"b"] in
  no_like_special B"ab" = true /\ forallb (case_safe B"ab") keys = true /\
  map h_objs (client_follow (page_cap keys) keys B"ab" [] None 1) = [[B"ab/1"]; [B"ab/2"]; [B"abc"]].
Proof. vm_compute. repeat split; reflexivity. Qed.
