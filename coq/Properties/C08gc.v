(* Properties/C08gc.v — C08 "no referenced part content is ever deleted", garbage-collector and
   interleaving half (Model/MetaGc.v over Model/Meta.v).  The operations half (every storage operation
   preserves the part-protocol invariant, sequential histories) is Properties/C08.v by p-meta2; its
   theorems step_parts_inv / step_dead / step_next_id_mono (Proofs/MetaPartsOps.v) are what discharges the
   premises of the generic interleaving lemmas of Proofs/MetaGcSafe.v here.
   Statements + exact-lemma proofs + Print Assumptions only.

   Trace model: [run_trace ginit tr] for an ARBITRARY list [tr] of atomic steps
     SOp i h o            one whole storage operation transaction (Meta.step, any operation, any arguments)
     SObserve             GC: read the registry-vs-part-rows reconciliation (a snapshot that goes stale)
     SReconcile k aba     GC: apply one pending observation (version-guarded registry write)
     SPrune               GC: prune + backfill the dedup index
     SList young          GC: list the store's part ids (a snapshot that goes stale); ANY subset may be
                          exempted as "younger than the grace window" — including none
     SCondemn k           GC: Condemn one listed id inside a transaction (+ delete its dedup entries)
     SExtDel k/SExtSkip k GC: the transaction-free DeletePart of one condemned id, at any later time / failing
     SCrashPublished c, SCrashBeforeCommit c, SCrashAfterCommit i h o   processes dying around a commit
   The pools of pending observations / candidates / condemned ids are shared, steps pick any element:
   every interleaving of any number of operation threads and collector threads is such a list. *)
From Verif Require Import Bytes Codec Md5 Meta MetaGc MetaGcFinal.

(* SAFETY: in every state reachable by any interleaving, every part row (of a committed version or a
   pending upload) has its recorded bytes in the part store.  No grace window is assumed. *)
Theorem C08_gc_safe : forall tr,
  let g := run_trace ginit tr in
  forall row, In row (parts (ms g)) -> store_get (store (ms g)) (p_pid row) = Some (p_content row).
Proof. exact gc_safe. Qed.
Print Assumptions C08_gc_safe.

(* … hence every object row reads back completely: the reader's concatenation over its part rows succeeds
   and yields exactly the recorded part contents *)
Theorem C08_gc_every_version_readable : forall tr,
  let g := run_trace ginit tr in
  forall r, read_parts (ms g) (row_parts (ms g) r) = Some (concat (map p_content (row_parts (ms g) r))).
Proof. exact gc_readable. Qed.
Print Assumptions C08_gc_every_version_readable.

(* the registry equals the number of part rows at every transaction boundary of every interleaving *)
Theorem C08_gc_registry_exact : forall tr,
  let s := ms (run_trace ginit tr) in
  forall pid, reg_get (registry s) pid =
              if N.eqb (live_rows s pid) 0 then None else Some (live_rows s pid).
Proof. exact gc_registry_exact. Qed.
Print Assumptions C08_gc_registry_exact.

(* condemn_only_unreferenced: in ANY state (no invariant needed) Condemn answers true only for an id
   without part rows, and touches neither part rows nor the store *)
Theorem C08_condemn_only_unreferenced : forall s pid s',
  condemn_check s pid = (true, s') ->
  live_rows s pid = 0%N /\ parts s' = parts s /\ store s' = store s /\ reg_get (registry s') pid = None.
Proof. exact gc_condemn_unreferenced. Qed.
Print Assumptions C08_condemn_only_unreferenced.

(* condemned_never_re_referenced: once an id is on a collector's condemned list it has no part row, no
   registry row, no dedup entry, and is not a fresh id — in every continuation of the trace, i.e. whatever
   operations and GC steps run before (or after) its external delete *)
Theorem C08_condemned_never_re_referenced : forall tr1 tr2 pid,
  let g1 := run_trace ginit tr1 in
  In pid (g_cond g1) ->
  let s := ms (run_trace g1 tr2) in
  live_rows s pid = 0%N /\ reg_get (registry s) pid = None /\ (forall c, ~ In (c, pid) (dedup s))
  /\ (pid < next_id s)%N.
Proof. exact gc_condemned_dead. Qed.
Print Assumptions C08_condemned_never_re_referenced.

(* a stale reconciliation snapshot is harmless: in reachable states applying any pending observation
   changes nothing (the registry is already exact when the observation is taken) *)
Theorem C08_stale_reconciliation_is_noop : forall tr k aba,
  let g := run_trace ginit tr in
  ms (gstep_fn g (SReconcile k aba)) = ms g.
Proof. exact gc_reconcile_noop. Qed.
Print Assumptions C08_stale_reconciliation_is_noop.

(* non-vacuity: a trace in which the collector really condemns and deletes something while operations run:
   an orphan published by a crashed writer is listed, an identical body is then written (a fresh part, the
   dead one is not shared), the orphan is condemned and deleted, the object stays readable *)
Definition exb : bytes := B"b".
Definition exk : bytes := B"k".
Definition ex_trace : list gstep :=
  [SOp 0 [] (OMb exb); SCrashPublished B"xx"; SObserve; SList []; SOp 1 [] (OPut exb exk B"xx" CRNone);
   SCondemn 0; SReconcile 0 false; SPrune].
Example C08_ex_condemned : g_cond (run_trace ginit ex_trace) = [1%N].
Proof. vm_compute. reflexivity. Qed.
Example C08_ex_after_delete :
  let g := run_trace ginit (ex_trace ++ [SExtDel 0; SOp 2 [] (OGet exb exk VRNone)]) in
  map fst (store (ms g)) = [2%N] /\ map p_pid (parts (ms g)) = [2%N].
Proof. vm_compute. split; reflexivity. Qed.
