From Verif Require Import Codec MetaIP.
Require Extraction. Require Import ExtrOcamlBasic.
Extraction Language OCaml.
Extraction "model.ml" all_bytes run_line.
