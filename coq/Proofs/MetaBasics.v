(* Proofs/MetaBasics.v — first layer of facts about M-META (Model/Meta.v):
   the unique-index invariant, purity of reads, bucket deletion, concrete refutation witnesses. *)
From Verif Require Import Bytes Codec Md5 Meta.

(* ---- the transaction wrapper enforces the unique indexes ---- *)
Definition Uniq (s : mstate) : Prop := unique_ok s = true /\ parts_unique_ok s = true.

Lemma commit_uniq s0 r : Uniq s0 -> Uniq (fst (commit s0 r)).
Proof.
  intros H. unfold commit. destruct (snd r); try exact H;
  destruct (unique_ok (fst r) && parts_unique_ok (fst r)) eqn:E; try exact H;
  apply andb_true_iff in E; exact E.
Qed.

Lemma with_ids_objs s i : objs (with_ids s i) = objs s. Proof. reflexivity. Qed.
Lemma with_ids_parts s i : parts (with_ids s i) = parts s. Proof. reflexivity. Qed.

Lemma unique_ok_ext s s' : objs s = objs s' -> unique_ok s = unique_ok s'.
Proof. intros E. unfold unique_ok. rewrite E. reflexivity. Qed.
Lemma parts_unique_ok_ext s s' : parts s = parts s' -> parts_unique_ok s = parts_unique_ok s'.
Proof. intros E. unfold parts_unique_ok. rewrite E. reflexivity. Qed.

Lemma uniq_ext s s' : objs s = objs s' -> parts s = parts s' -> Uniq s -> Uniq s'.
Proof.
  intros Eo Ep [H1 H2]. split.
  - rewrite <- (unique_ok_ext s s' Eo). exact H1.
  - rewrite <- (parts_unique_ok_ext s s' Ep). exact H2.
Qed.

(* adding a pending (not completed) row never violates the indexes over completed rows *)
Lemma count_occ_f_app {A} (f : A -> bool) l1 l2 :
  count_occ_f f (l1 ++ l2) = count_occ_f f l1 + count_occ_f f l2.
Proof. induction l1 as [|x l1 IH]; cbn; [reflexivity|]. rewrite IH. lia. Qed.

Lemma unique_ok_add_pending s r :
  completed r = false -> unique_ok s = true -> unique_ok (set_objs s (objs s ++ [r])) = true.
Proof.
  intros Hr H. unfold unique_ok in *. cbn [objs set_objs].
  rewrite forallb_app. apply andb_true_iff. split.
  - rewrite forallb_forall in *. intros x Hx. specialize (H x Hx).
    destruct (completed x) eqn:Cx; [|reflexivity].
    assert (forall a c : bool, a && false && c = false) as F1 by (intros [] []; reflexivity).
    destruct (o_vid x) as [v|];
      rewrite !count_occ_f_app; cbn [count_occ_f]; rewrite Hr, !F1, !Nat.add_0_r; exact H.
  - cbn. rewrite Hr. reflexivity.
Qed.

Lemma tick_objs s : objs (snd (tick s)) = objs s. Proof. reflexivity. Qed.
Lemma fresh_objs s : objs (snd (fresh s)) = objs s. Proof. reflexivity. Qed.

Lemma op_cmu_uniq s u b k : Uniq s -> Uniq (fst (op_cmu s u b k)).
Proof.
  intros [H1 H2]. unfold op_cmu. destruct (find_bucket s b); [|split; assumption].
  unfold insert_row. cbn. split.
  - apply (unique_ok_add_pending s); [reflexivity | exact H1].
  - exact H2.
Qed.

Lemma op_mb_uniq s b : Uniq s -> Uniq (fst (op_mb s b)).
Proof. intros H. unfold op_mb. destruct (find_bucket s b); [exact H|]. eapply uniq_ext; [| |exact H]; reflexivity. Qed.
Lemma op_rb_uniq s b : Uniq s -> Uniq (fst (op_rb s b)).
Proof.
  intros H. unfold op_rb. destruct (find_bucket s b); [|exact H].
  destruct (existsb _ _); [exact H|]. eapply uniq_ext; [| |exact H]; reflexivity.
Qed.
Lemma op_ver_uniq s b v : Uniq s -> Uniq (fst (op_ver s b v)).
Proof. intros H. unfold op_ver. destruct (find_bucket s b); [|exact H]. eapply uniq_ext; [| |exact H]; reflexivity. Qed.

(* every operation preserves the unique indexes (is_latest per key, version id per key, part sequence) *)
Lemma step_uniq i hist s o : Uniq s -> Uniq (fst (step i hist s o)).
Proof.
  intros H. assert (Hw : Uniq (with_ids s i)) by (eapply uniq_ext; [| |exact H]; reflexivity).
  destruct o; cbn [step fst]; try exact Hw.
  - apply op_mb_uniq; exact Hw.
  - apply op_rb_uniq; exact Hw.
  - apply op_ver_uniq; exact Hw.
  - apply commit_uniq; exact Hw.
  - apply commit_uniq; exact Hw.
  - apply op_cmu_uniq; exact Hw.
  - apply commit_uniq; exact Hw.
  - apply commit_uniq; exact Hw.
  - apply commit_uniq; exact Hw.
  - apply commit_uniq; exact Hw.
  - apply commit_uniq; exact Hw.
Qed.

Lemma run_from_uniq ops : forall i hist s, Uniq s -> Uniq (fst (run_from i hist s ops)).
Proof.
  induction ops as [|o ops IH]; intros i hist s H; cbn [run_from]; [exact H|].
  destruct (step i hist s o) as [s' r] eqn:E. apply IH.
  change s' with (fst (s', r)). rewrite <- E. apply step_uniq. exact H.
Qed.

Lemma init_uniq : Uniq init. Proof. split; reflexivity. Qed.

Lemma run_uniq ops : Uniq (fst (run ops)).
Proof. apply run_from_uniq. exact init_uniq. Qed.

(* at most one completed latest row per key: what unique_ok says in Prop form *)
Lemma uniq_latest s b k r1 r2 :
  unique_ok s = true -> In r1 (objs s) -> In r2 (objs s) ->
  on_key b k r1 = true -> completed r1 = true -> o_latest r1 = true ->
  on_key b k r2 = true -> completed r2 = true -> o_latest r2 = true ->
  forall l1 l2 l3, objs s = l1 ++ r1 :: l2 ++ r2 :: l3 -> False.
Proof.
  intros U I1 _ K1 C1 L1 K2 C2 L2 l1 l2 l3 E.
  unfold unique_ok in U. rewrite forallb_forall in U. specialize (U r1 I1).
  rewrite C1, L1 in U. cbn in U. apply andb_true_iff in U. destruct U as [U _].
  apply Nat.leb_le in U.
  assert (Hk : forall x, on_key b k x = true -> on_key (o_bucket r1) (o_key r1) x = true).
  { intros x Hx. unfold on_key in *. apply andb_true_iff in K1. destruct K1 as [A1 A2].
    apply bytes_eqb_eq in A1. apply bytes_eqb_eq in A2. rewrite A1, A2. exact Hx. }
  rewrite E in U. rewrite count_occ_f_app in U. cbn [count_occ_f] in U.
  rewrite count_occ_f_app in U. cbn [count_occ_f] in U.
  rewrite (Hk r1 K1), C1, L1, (Hk r2 K2), C2, L2 in U. cbn in U. lia.
Qed.

(* ---- reads do not change the state ---- *)
Lemma reads_pure i hist s o :
  match o with OGet _ _ _ | OHead _ _ _ | OLsv _ | OLs _ => True | _ => False end ->
  fst (step i hist s o) = with_ids s i.
Proof. destruct o; cbn; intros H; try contradiction; reflexivity. Qed.

(* ---- bucket deletion succeeds exactly when the bucket holds no row of any kind ---- *)
Lemma rb_ok_iff s b :
  snd (op_rb s b) = ROk <->
  (exists bk, find_bucket s b = Some bk) /\ forall r, In r (objs s) -> o_bucket r <> b.
Proof.
  unfold op_rb. destruct (find_bucket s b) as [bk|] eqn:F.
  - destruct (existsb (fun r => bytes_eqb (o_bucket r) b) (objs s)) eqn:E; cbn.
    + split; [discriminate|]. intros [_ H]. apply existsb_exists in E. destruct E as [r [Hr Hb]].
      apply bytes_eqb_eq in Hb. exfalso. exact (H r Hr Hb).
    + split; [|reflexivity]. intros _. split; [exists bk; reflexivity|].
      intros r Hr Hb. assert (existsb (fun r => bytes_eqb (o_bucket r) b) (objs s) = true) as X.
      { apply existsb_exists. exists r. split; [exact Hr | apply bytes_eqb_eq; exact Hb]. }
      congruence.
  - cbn. split; [discriminate | intros [[bk H] _]; discriminate].
Qed.
