(* Proofs/MetaNewest4.v — M-META, "latest is newest" (C02), layer 4: deletes (with promotion by created_at),
   multipart bookkeeping operations. *)
From Verif Require Import Bytes Codec Md5 Meta MetaBasics MetaRows1 MetaRows2 MetaRows3 MetaRows4 MetaRows5 MetaRows6.
From Verif Require Import MetaNewest1 MetaNewest2 MetaNewest3.
From Coq Require Import ZifyBool ZifyN ZifyNat.

Lemma fold_max_created_max l : forall a r, fold_left max_created l a = Some r ->
  (forall y, In y l -> (o_created y <= o_created r)%N) /\ (forall x, a = Some x -> (o_created x <= o_created r)%N).
Proof.
  induction l as [|z l IH]; intros a r H; cbn [fold_left] in H.
  - split; [intros y []|]. intros x ->. inversion H. lia.
  - destruct (IH _ _ H) as [H1 H2]. split.
    + intros y [E|Hy]; [subst y|apply H1; exact Hy].
      unfold max_created in H2. destruct a as [x|]; [|apply (H2 z eq_refl)].
      destruct (N.ltb_spec (o_created x) (o_created z)) as [L|L]; [apply (H2 z eq_refl)|].
      specialize (H2 x eq_refl). lia.
    + intros x ->. unfold max_created in H2.
      destruct (N.ltb_spec (o_created x) (o_created z)) as [L|L]; [specialize (H2 z eq_refl); lia | apply (H2 x eq_refl)].
Qed.

Lemma set_latest_other s x l r : In r (objs (set_latest s x l)) -> o_id r <> o_id x -> In r (objs s).
Proof.
  unfold set_latest. rewrite update_row_objs. intros H N. apply in_map_iff in H. destruct H as [y [E Hy]].
  unfold upd_fun in E. cbn [with_row o_id] in E. destruct (N.eqb_spec (o_id y) (o_id x)) as [E1|E1].
  - subst r. cbn [with_row o_id] in N. congruence.
  - subst r. exact Hy.
Qed.

Section Key.
Variables (b k : bytes).
Notation K := (K b k).
Notation Q := (Q b k).
Notation isK := (isK b k).

(* closing lemma: no completed row of the key is new or changed *)
Lemma sub_close i s s' : unique_ok s = true -> Q i s ->
  (forall r, In r (objs s') -> isK r = true -> In r (objs s)) -> Q (i + 1) s'.
Proof.
  intros U HQ Sub.
  assert (SubK : forall c, In c (K s') -> In c (K s)).
  { intros c Hc. destruct (K_inv b k s' c Hc) as (r & Hr & <- & Kr & Cr).
    apply in_K; try assumption. apply Sub; [exact Hr | apply isK_true; split; assumption]. }
  apply (Q_sub b k i (i + 1) s s'); [lia | exact SubK | | exact HQ].
  intros r Hr c Hc. destruct (find_latest_some _ _ _ _ Hr) as (H1 & H2 & H3 & H4).
  apply (qLM b k i s HQ r); [|apply SubK; exact Hc].
  apply find_latest_unique; try assumption. apply Sub; [exact H1 | apply isK_true; split; assumption].
Qed.

(* closing lemma: the current version was removed and the row with the newest created_at promoted *)
Lemma promote_close i s S s' ve nx :
  IdsOk s -> unique_ok s = true -> Q i s ->
  objs S = filter (fun r => negb (N.eqb (o_id r) ve)) (objs s) -> (next_id s <= next_id S)%N ->
  find_next_latest S b k ve = Some nx ->
  objs s' = objs (set_latest S nx true) -> unique_ok s' = true -> Q (i + 1) s'.
Proof.
  intros I U HQ ES Ln Hn Eo U'.
  destruct (find_next_latest_some _ _ _ _ _ Hn) as (Hnx & Knx & Cnx & _).
  assert (IS : IdsOk S).
  { split; rewrite ES.
    - rewrite (map_filter_comm o_id (fun j => negb (N.eqb j ve))). apply NoDup_filter. exact (proj1 I).
    - intros x Hx. apply filter_In in Hx. pose proof (proj2 I x (proj1 Hx)). lia. }
  assert (Ec : cores s' = cores S) by (rewrite (cores_ext _ s' Eo); apply cores_set_latest_in; assumption).
  assert (SubS : forall y, In y (objs S) -> In y (objs s)) by (intros y Hy; rewrite ES in Hy; apply filter_In in Hy; tauto).
  assert (SubK : forall c, In c (K s') -> In c (K s)).
  { intros c Hc. unfold MetaNewest1.K in Hc. rewrite Ec in Hc. apply filter_In in Hc. destruct Hc as [Hc Kc].
    apply in_map_iff in Hc. destruct Hc as [y [<- Hy]]. apply filter_In. split; [apply in_map; apply SubS; exact Hy | exact Kc]. }
  apply (Q_sub b k i (i + 1) s s'); [lia | exact SubK | | exact HQ].
  intros r Hr c Hc.
  (* the current row afterwards is the promoted one *)
  assert (Wr : o_written r = o_written nx).
  { destruct (update_row_in S (with_row nx true (o_updated nx) (o_lock nx))) as [lk Hlk];
      [cbn [with_row o_id]; apply in_map; exact Hnx|].
    match type of Hlk with In ?x0 _ =>
      rewrite (find_latest_unique s' b k x0 U') in Hr; [inversion Hr; reflexivity | rewrite Eo; exact Hlk | exact Knx | | reflexivity] end.
    unfold completed in *. cbn [with_row o_upload]. exact Cnx. }
  rewrite Wr. unfold MetaNewest1.K in Hc. rewrite Ec in Hc. apply filter_In in Hc. destruct Hc as [Hc Kc].
  apply in_map_iff in Hc. destruct Hc as [y [<- Hy]]. rewrite isK_core in Kc. cbn [core with_row o_written].
  apply isK_true in Kc. destruct Kc as [Ky Cy].
  assert (Le : (o_created y <= o_created nx)%N).
  { unfold find_next_latest in Hn. apply fold_max_created_max in Hn. destruct Hn as [Hn _]. apply Hn.
    apply filter_In. split; [exact Hy|]. rewrite Ky, Cy. cbn [andb]. apply negb_true_iff. apply N.eqb_neq.
    rewrite ES in Hy. apply filter_In in Hy. destruct Hy as [_ Hy]. apply negb_true_iff in Hy. apply N.eqb_neq in Hy. exact Hy. }
  pose proof (in_K b k s y (SubS y Hy) Ky Cy) as Iy. pose proof (in_K b k s nx (SubS nx Hnx) Knx Cnx) as In'.
  destruct (N.lt_trichotomy (o_created y) (o_created nx)) as [Lt|[Eq|Gt]]; [| |lia].
  - pose proof (qM b k i s HQ _ _ Iy In' Lt) as X. cbn [core with_row o_written] in X. lia.
  - pose proof (qCU b k i s HQ _ _ Iy In' Eq) as X. rewrite !core_id in X.
    assert (y = nx) as -> by (eapply NoDup_map_inj; [exact (proj1 I) | apply SubS; exact Hy | apply SubS; exact Hnx | exact X]). lia.
Qed.

Lemma filter_isK_sub (p : orow -> bool) l x : In x (filter isK (filter p l)) -> In x (filter isK l).
Proof. intros H. apply filter_In in H. destruct H as [H1 H2]. apply filter_In in H1. apply filter_In. tauto. Qed.

Lemma objs_delete_unreferenced s u : objs (delete_unreferenced s u) = objs s.
Proof. apply (sm_objs _ _ (same_delete_unreferenced u s)). Qed.

Ltac objs_norm_in H :=
  repeat first [ rewrite objs_delete_unreferenced in H | rewrite delete_row_objs in H | rewrite remove_parts_of_objs in H
               | rewrite save_part_rows_objs in H | rewrite insert_row_objs in H ].

Lemma op_delete_Q i s v cd : IdsOk s -> unique_ok s = true -> Q i s ->
  Q (i + 1) (fst (op_delete (with_ids s i) i b k v cd)).
Proof.
  intros I U HQ. unfold op_delete.
  match goal with |- context[commit ?s0 ?body] => destruct (commit_cases_u s0 body) as [E|(E & Ne & U')]; rewrite E end.
  - apply (Q_ext b k i (i + 1) s); [lia | reflexivity | exact HQ].
  - clear E. revert Ne U'. unfold meta_delete, purge_row. cbv beta zeta.
    repeat dm; cbn [fst snd]; intros Ne U'; try contradiction.
    all: assert (I0 : IdsOk (with_ids s i)) by (apply (IdsOk_same s); [apply same_with_ids | exact I]).
    (* a delete marker is inserted *)
    all: try match type of U' with context[insert_row ?S2 ?mk] =>
           eapply (insert_close b k i s S2 _ mk _ HQ);
           [ repeat first
               [ rewrite cores_set_latest_gen by
                   (intros x Hx Ex; objs_norm_in Hx; repeat (apply filter_In in Hx; destruct Hx as [Hx _]);
                    match goal with Hl : find_latest _ _ _ = Some ?cur |- _ =>
                      assert (x = cur) as -> by (eapply NoDup_map_inj;
                        [exact (proj1 I0) | exact Hx | exact (proj1 (find_latest_some _ _ _ _ Hl)) | exact Ex]) end;
                    reflexivity)
               | rewrite cores_delete
               | rewrite (cores_ext _ _ (remove_parts_of_objs _ _)) ];
             reflexivity
           | first [ tauto | apply filter_isK_sub ]
           | unfold set_latest; rewrite ?clock_update_row, ?clock_delete_row, ?clock_remove_parts_of; cbn [clock with_ids]; lia
           | intros id now; unfold MetaNewest1.isK, on_key, completed, mk_row;
             cbn [o_bucket o_key o_upload o_created o_written o_latest]; rewrite !bytes_eqb_refl; repeat split; reflexivity
           | apply objs_delete_unreferenced | exact U' ] end.
    (* promotion *)
    all: try match goal with Hn : find_next_latest ?S _ _ ?ve = Some ?nx |- _ =>
           apply (promote_close i s S _ ve nx I U HQ);
           [ rewrite delete_row_objs, ?remove_parts_of_objs; reflexivity
           | rewrite delete_row_next; unfold remove_parts_of; rewrite ?remove_part_rows_next; cbn [next_id with_ids]; lia
           | assumption
           | apply objs_delete_unreferenced | exact U' ] end.
    (* rows only removed *)
    all: apply (sub_close i s _ U HQ); intros r Hr _; objs_norm_in Hr;
         repeat (apply filter_In in Hr; destruct Hr as [Hr ?]); try exact Hr.
    all: match goal with Hn : negb (o_id _ =? _)%N = true |- _ =>
           apply negb_true_iff in Hn; apply N.eqb_neq in Hn; exact (set_latest_other _ _ _ _ Hr Hn) end.
Qed.
End Key.
