(* Proofs/MetaConcBase.v — generic lemmas for the concurrency theorems: interleavings, the transaction
   wrapper, list search, the insertion sort of part rows. *)
From Verif Require Import Bytes Codec Md5 Meta MetaBasics MetaConc.
From Coq Require Import Permutation ZifyBool ZifyN ZifyNat.

(* ---------- interleavings ---------- *)
Lemma replace_nth_perm {A} (ts : list (list A)) t x rest :
  nth_error ts t = Some (x :: rest) ->
  Permutation (concat ts) (x :: concat (replace_nth ts t rest)).
Proof.
  revert t. induction ts as [|y ts IH]; intros [|t] H; cbn in *; try discriminate.
  - inversion H; subst. cbn. reflexivity.
  - specialize (IH t H). rewrite IH. apply Permutation_sym, Permutation_middle.
Qed.

Lemma concat_all_nil {A} (ts : list (list A)) : Forall (fun t => t = []) ts -> concat ts = [].
Proof. induction 1 as [|t ts Ht _ IH]; cbn; [reflexivity|]. rewrite Ht, IH. reflexivity. Qed.

(* a schedule contains every operation of every thread exactly once *)
Lemma interleaving_perm {A} (ts : list (list A)) sched :
  is_interleaving ts sched -> Permutation (concat ts) sched.
Proof.
  induction 1 as [ts H | ts t x rest sched Hn _ IH].
  - rewrite (concat_all_nil ts H). constructor.
  - rewrite (replace_nth_perm ts t x rest Hn). constructor. exact IH.
Qed.

Lemma interleaving_forall {A} (P : A -> Prop) ts sched :
  is_interleaving ts sched -> Forall (Forall P) ts -> Forall P sched.
Proof.
  intros Hi Hf. apply interleaving_perm in Hi.
  assert (Forall P (concat ts)) as Hc.
  { clear Hi. induction Hf as [|t ts Ht _ IH]; cbn; [constructor|]. apply Forall_app. split; assumption. }
  rewrite Forall_forall in *. intros x Hx. apply Hc. eapply Permutation_in; [apply Permutation_sym; exact Hi|exact Hx].
Qed.

(* ---------- transaction wrapper ---------- *)
Definition not_err (r : res) : Prop := forall e, r <> RErr e.

Lemma commit_inv s0 r s' x :
  commit s0 r = (s', x) -> not_err x -> r = (s', x) /\ unique_ok s' = true /\ parts_unique_ok s' = true.
Proof.
  unfold commit. destruct r as [s1 r1]. cbn [fst snd]. intros H Hx.
  destruct r1; try (inversion H; subst; exfalso; eapply Hx; reflexivity);
  (destruct (unique_ok s1 && parts_unique_ok s1) eqn:E;
   [ apply andb_true_iff in E; destruct E; inversion H; subst; auto
   | inversion H; subst; exfalso; eapply Hx; reflexivity ]).
Qed.

Lemma commit_err_state s0 r s' e : commit s0 r = (s', RErr e) -> s' = s0.
Proof.
  unfold commit. destruct r as [s1 r1]. cbn [fst snd]. intros H.
  destruct r1; try (inversion H; subst; reflexivity);
  (destruct (unique_ok s1 && parts_unique_ok s1); inversion H; subst; reflexivity).
Qed.

(* ---------- find ---------- *)
Lemma find_some_in {A} (f : A -> bool) l x : find f l = Some x -> In x l /\ f x = true.
Proof. apply find_some. Qed.

(* with at most one element satisfying f, find returns that element *)
Lemma find_unique {A} (f : A -> bool) l a :
  (count_occ_f f l <= 1)%nat -> In a l -> f a = true -> find f l = Some a.
Proof.
  induction l as [|x l IH]; cbn; intros Hc Hi Hf; [contradiction|].
  destruct (f x) eqn:Fx.
  - destruct Hi as [->|Hi]; [reflexivity|]. exfalso.
    assert (1 <= count_occ_f f l)%nat.
    { clear -Hi Hf. induction l as [|y l IH]; [contradiction|]. cbn. destruct Hi as [->|Hi]; [rewrite Hf; lia|].
      specialize (IH Hi). destruct (f y); lia. }
    lia.
  - destruct Hi as [->|Hi]; [congruence|]. apply IH; [lia|exact Hi|exact Hf].
Qed.

Lemma count_occ_f_ext {A} (f g : A -> bool) l :
  (forall x, In x l -> f x = g x) -> count_occ_f f l = count_occ_f g l.
Proof.
  induction l as [|x l IH]; cbn; intros H; [reflexivity|].
  rewrite (H x (or_introl eq_refl)), IH; [reflexivity|]. intros y Hy. apply H. right. exact Hy.
Qed.

Lemma count_occ_f_map {A C} (f : C -> bool) (g : A -> C) l :
  count_occ_f f (map g l) = count_occ_f (fun x => f (g x)) l.
Proof. induction l as [|x l IH]; cbn; [reflexivity|]. rewrite IH. reflexivity. Qed.

Lemma count_occ_f_zero {A} (f : A -> bool) l : (forall x, In x l -> f x = false) -> count_occ_f f l = 0%nat.
Proof.
  induction l as [|x l IH]; cbn; intros H; [reflexivity|].
  rewrite (H x (or_introl eq_refl)), IH; [reflexivity|]. intros y Hy. apply H. right. exact Hy.
Qed.

(* find over a mapped list where the map rewrites exactly the rows with one id into a row satisfying f *)
Lemma find_map_replace (f : orow -> bool) (l : list orow) (old new : orow) :
  find f l = Some old -> f new = true ->
  find f (map (fun x => if N.eqb (o_id x) (o_id old) then new else x) l) = Some new.
Proof.
  induction l as [|x l IH]; cbn; intros H Hn; [discriminate|].
  destruct (N.eqb (o_id x) (o_id old)) eqn:E.
  - rewrite Hn. reflexivity.
  - destruct (f x) eqn:Fx.
    + inversion H; subst. rewrite N.eqb_refl in E. discriminate.
    + apply IH; assumption.
Qed.

(* ---------- insertion sort of part rows ---------- *)
Fixpoint sorted_seq (l : list prow) : Prop :=
  match l with
  | [] => True
  | p :: r => (forall q, In q r -> (p_seq p <= p_seq q)%N) /\ sorted_seq r
  end.

Lemma insert_sorted_in p l q : In q (insert_sorted p l) <-> q = p \/ In q l.
Proof.
  induction l as [|x l IH]; cbn; [intuition|].
  destruct (p_seq p <=? p_seq x)%N; cbn; [intuition|]. rewrite IH. intuition.
Qed.
Lemma sort_parts_in l q : In q (sort_parts l) <-> In q l.
Proof.
  unfold sort_parts. induction l as [|x l IH]; cbn; [reflexivity|].
  rewrite insert_sorted_in, IH. intuition.
Qed.
Lemma insert_sorted_sorted p l : sorted_seq l -> sorted_seq (insert_sorted p l).
Proof.
  induction l as [|x l IH]; cbn; intros H; [split; [intros q []|exact I]|].
  destruct (p_seq p <=? p_seq x)%N eqn:E.
  - cbn. split; [|exact H]. intros q [<-|Hq]; [lia|]. destruct H as [H _]. specialize (H q Hq). lia.
  - destruct H as [H1 H2]. cbn. split; [|apply IH; exact H2].
    intros q Hq. apply insert_sorted_in in Hq. destruct Hq as [->|Hq]; [lia|apply H1; exact Hq].
Qed.
Lemma sort_parts_sorted l : sorted_seq (sort_parts l).
Proof. unfold sort_parts. induction l as [|x l IH]; cbn; [exact I|]. apply insert_sorted_sorted. exact IH. Qed.

Lemma insert_sorted_snoc q m p :
  (p_seq q <= p_seq p)%N -> insert_sorted q (m ++ [p]) = insert_sorted q m ++ [p].
Proof.
  intros H. induction m as [|x m IH]; cbn.
  - destruct (p_seq q <=? p_seq p)%N eqn:E; [reflexivity|lia].
  - destruct (p_seq q <=? p_seq x)%N; [reflexivity|]. rewrite IH. reflexivity.
Qed.
(* a row whose sequence number is not below any other goes last *)
Lemma sort_parts_snoc l p :
  (forall q, In q l -> (p_seq q <= p_seq p)%N) -> sort_parts (l ++ [p]) = sort_parts l ++ [p].
Proof.
  unfold sort_parts. induction l as [|x l IH]; cbn; intros H; [reflexivity|].
  rewrite IH by (intros q Hq; apply H; right; exact Hq).
  apply insert_sorted_snoc. apply H. left. reflexivity.
Qed.
Lemma sorted_last_max l lastp rest :
  sorted_seq l -> rev l = lastp :: rest -> forall q, In q l -> (p_seq q <= p_seq lastp)%N.
Proof.
  revert lastp rest. induction l as [|x l IH]; intros lastp rest Hs Hr q Hq; [contradiction|].
  cbn in Hr. destruct Hs as [H1 H2].
  destruct (rev l) as [|y ys] eqn:R.
  - cbn in Hr. inversion Hr; subst. assert (l = []) as -> by (apply (f_equal (@rev _)) in R; rewrite rev_involutive in R; exact R).
    destruct Hq as [->|[]]. lia.
  - cbn in Hr. inversion Hr; subst. assert (In lastp l) as Hl by (apply in_rev; rewrite R; left; reflexivity).
    destruct Hq as [<-|Hq]; [apply H1; exact Hl|]. eapply IH; [exact H2|reflexivity|exact Hq].
Qed.

(* already ascending lists are left alone *)
Fixpoint strictly_asc (i : N) (l : list prow) : Prop :=
  match l with [] => True | p :: r => p_seq p = i /\ strictly_asc (i + 1) r end.
Lemma strictly_asc_lb i l q : strictly_asc i l -> In q l -> (i <= p_seq q)%N.
Proof.
  revert i. induction l as [|x l IH]; intros i H Hq; [contradiction|]. destruct H as [H1 H2].
  destruct Hq as [<-|Hq]; [lia|]. specialize (IH _ H2 Hq). lia.
Qed.
Lemma sort_parts_asc i l : strictly_asc i l -> sort_parts l = l.
Proof.
  revert i. unfold sort_parts. induction l as [|x l IH]; intros i H; cbn; [reflexivity|].
  destruct H as [H1 H2]. rewrite (IH _ H2). destruct l as [|y l]; [reflexivity|].
  cbn. destruct H2 as [H2 _]. destruct (p_seq x <=? p_seq y)%N eqn:E; [reflexivity|lia].
Qed.
