(* Proofs/RangeHttpProofs.v — C05: the header parser on syntactically valid headers, and the HTTP
   response against the RFC 7233 spec. *)
From Verif Require Import Bytes Codec Range RangeSpec RangeProofs.
From Coq Require Import ZifyBool ZifyN ZifyNat.
Local Open Scope Z_scope.

(* ---- bytes: digits are neither white space nor separators ---- *)
Lemma digit_not_space c : is_digit c = true -> is_space c = false.
Proof. unfold is_digit, is_space. lia. Qed.

Lemma digit_neq c d : is_digit c = true -> (byteN d < 48 \/ 57 < byteN d)%N -> beqb c d = false.
Proof. intros H Hd. apply beqb_neq. intros ->. unfold is_digit in H. lia. Qed.

Lemma digits_no (d : byte) ds : forallb is_digit ds = true -> (byteN d < 48 \/ 57 < byteN d)%N -> ~ In d ds.
Proof.
  intros H Hd Hin. rewrite forallb_forall in H. specialize (H d Hin). unfold is_digit in H. lia.
Qed.

(* ---- decimal parsing ---- *)
Lemma parse_dec_fold ds acc : forallb is_digit ds = true ->
  parse_dec ds acc = Some (fold_left (fun acc b => 10 * acc + (byteN b - 48))%N ds acc).
Proof.
  revert acc; induction ds as [|b ds IH]; intros acc H; cbn in *; [reflexivity|].
  apply andb_prop in H as [Hb Hds]. unfold is_digit in Hb. rewrite Hb. apply IH; exact Hds.
Qed.

Lemma parse_int64_digits ds : digits ds = true -> (dec_val ds < 9223372036854775808)%N ->
  parse_int64 ds = Some (Z.of_N (dec_val ds)).
Proof.
  unfold digits, parse_int64. intros H Hlt. destruct ds as [|c rest]; [discriminate|].
  cbn [is_empty negb andb] in H. pose proof H as H'. cbn [forallb] in H'. apply andb_prop in H' as [Hc _].
  rewrite (digit_neq c "-"%byte Hc) by (cbn; lia). rewrite (digit_neq c "+"%byte Hc) by (cbn; lia).
  cbn [orb]. unfold parse_N. rewrite (parse_dec_fold (c :: rest) 0%N H). fold (dec_val (c :: rest)).
  unfold two63. destruct (Z.of_N (dec_val (c :: rest)) <? 9223372036854775808) eqn:E; [reflexivity|lia].
Qed.

Lemma wrap64_small z : - two63 <= z < two63 -> wrap64 z = z.
Proof. unfold wrap64, two63. intros H. rewrite Z.mod_small by lia. lia. Qed.

(* ---- trimming ---- *)
Definition head_ok (m : bytes) : Prop := match m with [] => True | c :: _ => is_space c = false end.

Lemma ows_space l : ows l = true -> forallb is_space l = true.
Proof.
  unfold ows. rewrite !forallb_forall. intros H b Hb. specialize (H b Hb).
  apply orb_prop in H as [H|H]; apply beqb_eq in H; subst; reflexivity.
Qed.

Lemma trim_left_spaces l m : forallb is_space l = true -> trim_left (l ++ m) = trim_left m.
Proof. induction l as [|c l IH]; cbn; [reflexivity|]. intros H. apply andb_prop in H as [Hc Hl]. rewrite Hc. auto. Qed.

Lemma trim_left_id m : head_ok m -> trim_left m = m.
Proof. destruct m as [|c m]; cbn; [reflexivity|]. intros ->. reflexivity. Qed.

Lemma forallb_rev {A} (f : A -> bool) l : forallb f (rev l) = forallb f l.
Proof.
  induction l as [|x l IH]; cbn; [reflexivity|]. rewrite forallb_app, IH. cbn. rewrite andb_true_r. apply andb_comm.
Qed.

Lemma trim_space_padded l m r : ows l = true -> ows r = true -> head_ok m -> head_ok (rev m) ->
  trim_space (l ++ m ++ r) = m.
Proof.
  intros Hl Hr Hm Hrm. unfold trim_space, trim_right.
  rewrite trim_left_spaces by (apply ows_space; exact Hl).
  destruct m as [|c m'] eqn:Em.
  - cbn [app]. assert (Ht : forall r, forallb is_space r = true -> trim_left r = []).
    { induction r0 as [|x r0 IH]; cbn; [reflexivity|]. intros H. apply andb_prop in H as [-> H]. auto. }
    rewrite (Ht r) by (apply ows_space; exact Hr). reflexivity.
  - rewrite <- Em in *. assert (trim_left (m ++ r) = m ++ r) as ->.
    { subst m. cbn. cbn in Hm. rewrite Hm. reflexivity. }
    rewrite rev_app_distr. rewrite trim_left_spaces by (rewrite forallb_rev; apply ows_space; exact Hr).
    rewrite trim_left_id by exact Hrm. apply rev_involutive.
Qed.

(* ---- one item ---- *)
Definition zN (ds : bytes) : Z := Z.of_N (dec_val ds).

Definition storage_range (it : item) : brange :=
  match it with
  | IRange f l => {| b_start := Some (zN f); b_end := Some (zN l + 1) |}
  | IFrom f => {| b_start := Some (zN f); b_end := None |}
  | ISuffix n => {| b_start := None; b_end := Some (zN n) |}
  end.

Lemma digits_head ds : digits ds = true -> head_ok ds /\ head_ok (rev ds) /\ ds <> [] /\ forallb is_digit ds = true.
Proof.
  unfold digits. intros H. apply andb_prop in H as [Hne Hd]. destruct ds as [|c ds]; [discriminate|].
  repeat split; try discriminate; try exact Hd.
  - cbn. apply digit_not_space. cbn in Hd. apply andb_prop in Hd as [Hc _]. exact Hc.
  - rewrite <- forallb_rev in Hd. destruct (rev (c :: ds)) as [|x xs] eqn:E.
    + apply (f_equal (@length _)) in E. rewrite rev_length in E. discriminate.
    + cbn. cbn in Hd. apply andb_prop in Hd as [Hx _]. apply digit_not_space. exact Hx.
Qed.

Lemma dash_not_space : is_space "-"%byte = false. Proof. reflexivity. Qed.

Lemma render_item_heads it : item_wf it = true -> head_ok (render_item it) /\ head_ok (rev (render_item it)).
Proof.
  destruct it as [f l|f|n]; cbn [item_wf render_item]; intros H.
  - apply andb_prop in H as [H _]. apply andb_prop in H as [Hf Hl].
    destruct (digits_head f Hf) as [Hf1 [_ [Hfn _]]]. destruct (digits_head l Hl) as [_ [Hl2 [Hln _]]].
    split.
    + destruct f; [contradiction|]. exact Hf1.
    + rewrite !rev_app_distr. destruct (rev l) eqn:E; [|exact Hl2].
      apply (f_equal (@length _)) in E. rewrite rev_length in E. destruct l; [contradiction|discriminate].
  - destruct (digits_head f H) as [Hf1 [_ [Hfn _]]]. split.
    + destruct f; [contradiction|]. exact Hf1.
    + rewrite rev_app_distr. cbn. reflexivity.
  - destruct (digits_head n H) as [_ [Hn2 [Hnn _]]]. split; [cbn; reflexivity|].
    rewrite rev_app_distr. destruct (rev n) eqn:E; [|exact Hn2].
    apply (f_equal (@length _)) in E. rewrite rev_length in E. destruct n; [contradiction|discriminate].
Qed.

Lemma split_dash f l : forallb is_digit f = true -> split_first "-"%byte (f ++ "-"%byte :: l) = Some (f, l).
Proof. intros H. apply split_first_Some. split; [reflexivity|]. apply digits_no; [exact H|cbn; lia]. Qed.

Lemma parse_opt_int_digits ds : digits ds = true -> (dec_val ds < 9223372036854775808)%N ->
  parse_opt_int ds = Some (Some (zN ds)).
Proof.
  intros H Hlt. unfold parse_opt_int. destruct ds as [|c r] eqn:E; [discriminate|]. rewrite <- E in *.
  rewrite parse_int64_digits by assumption. reflexivity.
Qed.

Lemma parse_one_item p : pitem_wf p = true -> item_comfort (p_it p) = true ->
  parse_one (render_pitem p) = Some (storage_range (p_it p)).
Proof.
  unfold pitem_wf, render_pitem. intros H Hc. apply andb_prop in H as [H Hr]. apply andb_prop in H as [Hl Hit].
  unfold parse_one. destruct (render_item_heads _ Hit) as [H1 H2].
  rewrite trim_space_padded by assumption.
  destruct (p_it p) as [f l|f|n]; cbn [item_wf render_item item_comfort storage_range] in *.
  - apply andb_prop in Hit as [Hit _]. apply andb_prop in Hit as [Hf Hl'].
    apply andb_prop in Hc as [Hcf Hcl]. apply N.ltb_lt in Hcf, Hcl.
    destruct (digits_head f Hf) as [_ [_ [_ Hdf]]].
    cbn [app]. rewrite split_dash by exact Hdf. cbv beta iota.
    rewrite parse_opt_int_digits by (try assumption; lia).
    rewrite parse_opt_int_digits by (try assumption; lia).
    unfold zN. rewrite wrap64_small by (unfold two63; lia). reflexivity.
  - apply N.ltb_lt in Hc. destruct (digits_head f Hit) as [_ [_ [_ Hdf]]].
    cbn [app]. rewrite split_dash by exact Hdf. cbv beta iota.
    rewrite parse_opt_int_digits by (try assumption; lia). reflexivity.
  - apply N.ltb_lt in Hc. cbn [app]. change (split_first "-"%byte ("-"%byte :: n)) with (Some (@nil byte, n)). cbv beta iota.
    change (parse_opt_int []) with (@Some (option Z) None). cbv beta iota.
    rewrite parse_opt_int_digits by (try assumption; lia). reflexivity.
Qed.

(* ---- the whole header, single range ---- *)
Lemma split_on_absent c l : ~ In c l -> split_on c l = [l].
Proof.
  induction l as [|x l IH]; cbn; [reflexivity|]. intros H.
  destruct (beqb x c) eqn:E; [apply beqb_eq in E; exfalso; apply H; left; exact E|].
  rewrite IH by (intros Hin; apply H; right; exact Hin). reflexivity.
Qed.

Lemma ows_no (d : byte) l : ows l = true -> d <> " "%byte -> d <> x09 -> ~ In d l.
Proof.
  unfold ows. rewrite forallb_forall. intros H H1 H2 Hin. specialize (H d Hin).
  apply orb_prop in H as [H|H]; apply beqb_eq in H; congruence.
Qed.

Lemma digits_forall ds : digits ds = true -> forallb is_digit ds = true.
Proof. unfold digits. intros H. apply andb_prop in H as [_ H]. exact H. Qed.

Lemma render_pitem_no_comma p : pitem_wf p = true -> ~ In ","%byte (render_pitem p).
Proof.
  unfold pitem_wf, render_pitem. intros H. apply andb_prop in H as [H Hr]. apply andb_prop in H as [Hl Hit].
  intros Hin. apply in_app_or in Hin as [Hin|Hin]; [revert Hin; apply ows_no; [exact Hl|discriminate|discriminate]|].
  apply in_app_or in Hin as [Hin|Hin]; [|revert Hin; apply ows_no; [exact Hr|discriminate|discriminate]].
  assert (Hd : forall ds, digits ds = true -> ~ In ","%byte ds).
  { intros ds Hds. apply digits_no; [apply digits_forall; exact Hds|cbn; lia]. }
  destruct (p_it p) as [f l|f|n]; cbn [item_wf render_item] in *.
  - apply andb_prop in Hit as [Hit _]. apply andb_prop in Hit as [Hf Hl'].
    apply in_app_or in Hin as [Hin|Hin]; [exact (Hd f Hf Hin)|].
    cbn [app] in Hin. destruct Hin as [Hin|Hin]; [discriminate|exact (Hd l Hl' Hin)].
  - apply in_app_or in Hin as [Hin|Hin]; [exact (Hd f Hit Hin)|]. cbn in Hin. destruct Hin as [Hin|[]]. discriminate.
  - cbn [app] in Hin. destruct Hin as [Hin|Hin]; [discriminate|exact (Hd n Hit Hin)].
Qed.

Lemma parse_header_single p : pitem_wf p = true -> item_comfort (p_it p) = true ->
  parse_range_header (render B"bytes" [p]) = Some [storage_range (p_it p)].
Proof.
  intros Hwf Hc. unfold render. cbn [map join].
  assert (Hs : split_first "="%byte (B"bytes" ++ B"=" ++ render_pitem p) = Some (B"bytes", render_pitem p)).
  { apply split_first_Some. split; [reflexivity|]. cbn. intros [H|[H|[H|[H|[H|[]]]]]]; discriminate. }
  unfold parse_range_header. rewrite Hs. cbn [app]. rewrite bytes_eqb_refl.
  rewrite split_on_absent by (apply render_pitem_no_comma; exact Hwf).
  cbn [mapM]. rewrite parse_one_item by assumption. reflexivity.
Qed.

(* ---- the response for one parsed range ---- *)
Lemma crr_plan : forall (parts : list bytes) (objsize : Z) (r : brange),
  let gs := match b_start r with Some s => s | None => 0 end in
  let ge := match b_end r with Some e => e | None => objsize end in
  0 <= gs < ge ->
  exists p, create_range_reader (map lenZ parts) objsize r = RRPlan p /\
            read_plan parts p = slice (concat parts) gs ge.
Proof.
  intros parts objsize r gs ge H. unfold create_range_reader. fold gs ge.
  destruct (ge <=? gs) eqn:E; [exfalso; lia|].
  destruct (plan_go_spec parts [] 0 gs ge eq_refl ltac:(lia)) as [p [Hp Hr]].
  cbn [length app] in *. rewrite Hp. exists p. split; [reflexivity|].
  rewrite Hr. unfold zslice, slice. rewrite !Z.sub_0_r. f_equal. lia.
Qed.

Lemma show_Z_of_N n : show_Z (Z.of_N n) = show_N n.
Proof. destruct n; reflexivity. Qed.

Definition sr (r : rspec) : brange :=
  match r with
  | FromTo f l => {| b_start := Some (Z.of_N f); b_end := Some (Z.of_N l + 1) |}
  | From f => {| b_start := Some (Z.of_N f); b_end := None |}
  | Suffix n => {| b_start := None; b_end := Some (Z.of_N n) |}
  end.

Definition spec_wf (r : rspec) : Prop := match r with FromTo f l => (f <= l)%N | _ => True end.

Lemma total_lenN parts : total parts = Z.of_N (lenN (concat parts)).
Proof. unfold total, lenZ, lenN. lia. Qed.

Lemma slice_selected content (a b : N) :
  copy_n (Z.of_N (b + 1 - a)) (concat [slice content (Z.of_N a) (Z.of_N b + 1)]) = selected content (a, b).
Proof.
  unfold copy_n, selected, slice. cbn [concat fst snd]. rewrite app_nil_r. rewrite firstn_firstn.
  f_equal; [lia|]. f_equal. lia.
Qed.

Lemma respond_single sep parts r : 0 < total parts -> spec_wf r ->
  respond_ranges sep parts [sr r] = rfc7233 sep (concat parts) (Some [r]).
Proof.
  intros Hpos Hwf. rewrite total_lenN in Hpos. unfold respond_ranges, get_object, rfc7233.
  rewrite total_lenN. set (size := lenN (concat parts)) in *. unfold normalize. cbn [mapM].
  destruct r as [f l|f|n]; cbn [sr satisfiable spec_wf] in *.
  - (* first-last *)
    unfold normalize_one. cbn [b_start b_end].
    replace (Z.of_N f <? 0) with false by lia.
    destruct (f <? size)%N eqn:Esat.
    + set (e := if Z.of_N size <? Z.of_N l + 1 then Z.of_N size else Z.of_N l + 1).
      assert (He : e = Z.of_N (N.min l (size - 1)) + 1) by (unfold e; destruct (Z.of_N size <? Z.of_N l + 1) eqn:E; lia).
      replace (if Z.of_N size <? Z.of_N l + 1 then Some (Z.of_N size) else Some (Z.of_N l + 1)) with (Some e)
        by (unfold e; destruct (Z.of_N size <? Z.of_N l + 1); reflexivity).
      replace (e <=? Z.of_N f) with false by lia.
      cbn [open_readers].
      destruct (crr_plan parts (Z.of_N size) {| b_start := Some (Z.of_N f); b_end := Some e |}) as [p [Hp Hr]];
        [cbn [b_start b_end]; lia|].
      rewrite Hp. cbn [map]. rewrite Hr. cbn [b_start b_end resolve].
      unfold range_size, content_range, cr_value. cbn [b_start b_end fst snd].
      replace (Z.min (Z.of_N l + 1) (Z.of_N size)) with e by lia.
      rewrite He. replace (Z.of_N (N.min l (size - 1)) + 1 - 1) with (Z.of_N (N.min l (size - 1))) by lia.
      rewrite !show_Z_of_N.
      replace (Z.of_N (N.min l (size - 1)) + 1 - Z.of_N f) with (Z.of_N (N.min l (size - 1) + 1 - f)) by lia.
      rewrite slice_selected. reflexivity.
    + set (e := if Z.of_N size <? Z.of_N l + 1 then Z.of_N size else Z.of_N l + 1).
      replace (if Z.of_N size <? Z.of_N l + 1 then Some (Z.of_N size) else Some (Z.of_N l + 1)) with (Some e)
        by (unfold e; destruct (Z.of_N size <? Z.of_N l + 1); reflexivity).
      replace (e <=? Z.of_N f) with true by (unfold e; destruct (Z.of_N size <? Z.of_N l + 1) eqn:E; lia).
      reflexivity.
  - (* first- *)
    unfold normalize_one. cbn [b_start b_end].
    replace (Z.of_N f <? 0) with false by lia. cbn [open_readers].
    destruct (f <? size)%N eqn:Esat.
    + destruct (crr_plan parts (Z.of_N size) {| b_start := Some (Z.of_N f); b_end := None |}) as [p [Hp Hr]];
        [cbn [b_start b_end]; lia|].
      rewrite Hp. cbn [map]. rewrite Hr. cbn [b_start b_end resolve].
      unfold range_size, content_range, cr_value. cbn [b_start b_end fst snd].
      replace (Z.of_N size - 1) with (Z.of_N (size - 1)) by lia. rewrite !show_Z_of_N.
      replace (Z.of_N size - Z.of_N f) with (Z.of_N (size - 1 + 1 - f)) by lia.
      replace (Z.of_N size) with (Z.of_N (size - 1) + 1) by lia.
      rewrite slice_selected. reflexivity.
    + unfold create_range_reader. cbn [b_start b_end].
      replace (Z.of_N size <=? Z.of_N f) with true by lia. reflexivity.
  - (* suffix *)
    unfold normalize_one. cbn [b_start b_end].
    destruct (0 <? n)%N eqn:En; cbn [andb].
    + replace (0 <? size)%N with true by lia.
      replace (Z.of_N n <=? 0) with false by lia. cbn [open_readers].
      set (a := (size - N.min n size)%N).
      replace (Z.of_N size - Z.min (Z.of_N n) (Z.of_N size)) with (Z.of_N a) by lia.
      destruct (crr_plan parts (Z.of_N size) {| b_start := Some (Z.of_N a); b_end := Some (Z.of_N size) |}) as [p [Hp Hr]];
        [cbn [b_start b_end]; lia|].
      rewrite Hp. cbn [map]. rewrite Hr. cbn [b_start b_end resolve].
      unfold range_size, content_range, cr_value. cbn [b_start b_end fst snd]. fold a.
      replace (Z.of_N size - Z.min (Z.of_N n) (Z.of_N size)) with (Z.of_N a) by lia.
      replace (Z.of_N size - 1) with (Z.of_N (size - 1)) by lia. rewrite !show_Z_of_N.
      replace (Z.min (Z.of_N n) (Z.of_N size)) with (Z.of_N (size - 1 + 1 - a)) by lia.
      replace (Z.of_N size) with (Z.of_N (size - 1) + 1) by lia.
      rewrite slice_selected. reflexivity.
    + replace (Z.of_N n <=? 0) with true by lia. reflexivity.
Qed.

Lemma storage_range_sr it : storage_range it = sr (spec_of it).
Proof. destruct it; reflexivity. Qed.

Lemma item_wf_spec it : item_wf it = true -> spec_wf (spec_of it).
Proof.
  destruct it as [f l|f|n]; cbn; auto. intros H. apply andb_prop in H as [_ H]. apply N.leb_le in H. exact H.
Qed.

Lemma http_partial_stmt : forall sep parts p,
  pitem_wf p = true -> item_comfort (p_it p) = true -> 0 < total parts ->
  respond sep parts (render B"bytes" [p]) = rfc7233 sep (concat parts) (Some (specs_of [p])).
Proof.
  intros sep parts p Hwf Hc Hpos. unfold respond. rewrite parse_header_single by assumption.
  rewrite storage_range_sr. apply respond_single; [exact Hpos|].
  apply item_wf_spec. unfold pitem_wf in Hwf. apply andb_prop in Hwf as [Hwf _]. apply andb_prop in Hwf as [_ Hwf]. exact Hwf.
Qed.

Lemma no_range_stmt : forall sep parts,
  respond sep parts [] = rfc7233 sep (concat parts) None.
Proof.
  intros sep parts. unfold respond, respond_ranges, get_object, rfc7233. cbn [parse_range_header normalize mapM].
  unfold normalize_one. cbn [b_start b_end open_readers].
  destruct (Z.eq_dec (total parts) 0) as [Hz|Hnz].
  - unfold create_range_reader. cbn [b_start b_end]. rewrite Hz. cbn [Z.leb Z.compare Z.eqb map concat read_plan].
    rewrite total_lenN in Hz. assert (Hc : concat parts = []).
    { destruct (concat parts); [reflexivity|]. unfold lenN in Hz. cbn [length] in Hz. lia. }
    rewrite Hc. reflexivity.
  - assert (Hpos : 0 < total parts) by (unfold total, lenZ in *; lia).
    destruct (crr_plan parts (total parts) {| b_start := None; b_end := None |}) as [p [Hp Hr]]; [cbn [b_start b_end]; lia|].
    rewrite Hp. cbn [map concat b_start b_end] in *. rewrite Hr. rewrite app_nil_r.
    unfold slice, copy_n. cbn [skipn Z.to_nat]. rewrite Z.sub_0_r. rewrite firstn_firstn, Nat.min_id.
    rewrite total_lenN. f_equal. apply firstn_ge_length. unfold lenN. lia.
Qed.

(* the declared Content-Length of a multipart/byteranges answer is the length of the body written *)
Lemma lenZ_app a b : lenZ (a ++ b) = lenZ a + lenZ b.
Proof. unfold lenZ. rewrite app_length. lia. Qed.

Lemma multipart_go_length sep first ps :
  lenZ (multipart_go sep first ps) =
  fold_right Z.add 0 (map (fun p => lenZ (snd p)) ps)
  + fold_right (fun cr acc => lenZ (part_header cr) + acc) 0 (map fst ps)
  + (4 + lenZ sep) * Z.of_nat (length ps)
  + (if first then 0 else 2) * (if is_nil ps then 0 else 1) + 2 * Z.of_nat (Nat.pred (length ps))
  + (8 + lenZ sep).
Proof.
  revert first; induction ps as [|[cr d] ps IH]; intros first.
  - cbn [multipart_go map fold_right length is_nil]. rewrite !lenZ_app.
    change (lenZ crlf) with 2. change (lenZ B"--") with 2. destruct first; lia.
  - cbn [multipart_go map fold_right length is_nil fst snd]. rewrite !lenZ_app.
    rewrite (IH false). destruct first; change (lenZ crlf) with 2; change (lenZ B"--") with 2; try change (lenZ (@nil byte)) with 0;
    destruct ps; cbn [is_nil length Nat.pred]; lia.
Qed.

Lemma multipart_length_stmt : forall sep (ps : list (bytes * bytes)), ps <> [] ->
  lenZ (multipart_body sep ps) = multipart_clen (lenZ sep) (map fst ps) (map (fun p => lenZ (snd p)) ps).
Proof.
  intros sep ps Hne. unfold multipart_body, multipart_clen. rewrite multipart_go_length. rewrite map_length.
  destruct ps; [contradiction|]. cbn [is_nil length Nat.pred]. lia.
Qed.
