(* Proofs/AwsChunkedProofs.v — C30 *)
From Verif Require Import Bytes Codec AwsChunked.

Lemma unauthenticated_raw : forall a c body, a <> AuthSigned -> upload a c body = Stored body.
Proof. intros [| |] c body H; [contradiction| |]; reflexivity. Qed.

Lemma auth_off_differs : forall a c body p,
  a <> AuthSigned -> decode c body = Stored p -> p <> body -> upload a c body <> upload AuthSigned c body.
Proof.
  intros a c body p Ha Hd Hne. rewrite (unauthenticated_raw a c body Ha). cbn [upload]. rewrite Hd.
  intros E. inversion E. congruence.
Qed.
