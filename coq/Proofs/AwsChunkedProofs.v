(* Proofs/AwsChunkedProofs.v — C30 *)
From Verif Require Import Bytes Codec AwsChunked AwsChunkedSpec.
From Coq Require Import ZifyBool ZifyN ZifyNat.

Lemma unauthenticated_raw : forall a c body, a <> AuthSigned -> upload a c body = Stored body.
Proof. intros [| |] c body H; [contradiction| |]; reflexivity. Qed.

Lemma auth_off_differs : forall a c body p,
  a <> AuthSigned -> decode c body = Stored p -> p <> body -> upload a c body <> upload AuthSigned c body.
Proof.
  intros a c body p Ha Hd Hne. rewrite (unauthenticated_raw a c body Ha). cbn [upload]. rewrite Hd.
  intros E. inversion E. congruence.
Qed.

(* ---- hex size fields ---- *)
Lemma parse_hex_go_fold hs acc : forallb is_hex hs = true ->
  parse_hex_go hs acc = Some (fold_left (fun acc b => 16 * acc + match hex_val b with Some d => d | None => 0 end)%N hs acc).
Proof.
  revert acc; induction hs as [|b hs IH]; intros acc H; cbn in *; [reflexivity|].
  apply andb_prop in H as [Hb Hs]. unfold is_hex in Hb. destruct (hex_val b); [|discriminate]. apply IH; exact Hs.
Qed.

Lemma parse_hex_ok hs : hexstr hs = true -> (hexv hs < 18446744073709551616)%N -> parse_hex hs = Some (hexv hs).
Proof.
  unfold hexstr, parse_hex. intros H Hlt. apply andb_prop in H as [Hne Hh].
  destruct hs as [|b hs]; [discriminate|]. rewrite (parse_hex_go_fold _ _ Hh). fold (hexv (b :: hs)).
  destruct (hexv (b :: hs) <? 18446744073709551616)%N eqn:E; [reflexivity|lia].
Qed.

Lemma hex_not (d : byte) hs : forallb is_hex hs = true -> is_hex d = false -> ~ In d hs.
Proof. intros H Hd Hin. rewrite forallb_forall in H. rewrite (H d Hin) in Hd. discriminate. Qed.

Lemma hex_not_crlf hs : forallb is_hex hs = true -> forallb (fun b => negb (is_crlf b)) hs = true.
Proof.
  rewrite !forallb_forall. intros H b Hb. specialize (H b Hb).
  unfold is_crlf. destruct (beqb b x0d) eqn:E1; [apply beqb_eq in E1; subst; discriminate|].
  destruct (beqb b x0a) eqn:E2; [apply beqb_eq in E2; subst; discriminate|]. reflexivity.
Qed.

(* ---- the header line ---- *)
Lemma trim_l_id p l : forallb (fun b => negb (p b)) l = true -> trim_l p l = l.
Proof. destruct l as [|x l]; cbn; [reflexivity|]. intros H. apply andb_prop in H as [Hx _]. destruct (p x); [discriminate|reflexivity]. Qed.

Lemma forallb_rev' {A} (f : A -> bool) l : forallb f (rev l) = forallb f l.
Proof. induction l as [|x l IH]; cbn; [reflexivity|]. rewrite forallb_app, IH. cbn. rewrite andb_true_r. apply andb_comm. Qed.

Lemma trim_crlf_line m : forallb (fun b => negb (is_crlf b)) m = true -> trim_crlf ((m ++ [x0d]) ++ [nl]) = m.
Proof.
  intros H. unfold trim_crlf. rewrite <- app_assoc. cbn [app].
  destruct m as [|x m]; [reflexivity|].
  assert (H1 : trim_l is_crlf ((x :: m) ++ [x0d; nl]) = (x :: m) ++ [x0d; nl]).
  { cbn in *. apply andb_prop in H as [Hx _]. destruct (is_crlf x); [discriminate|reflexivity]. }
  rewrite H1. rewrite rev_app_distr. cbn [rev app]. change (is_crlf nl) with true. cbn [trim_l].
  change (is_crlf x0d) with true. cbv iota.
  change (rev m ++ [x]) with (rev (x :: m)). rewrite trim_l_id by (rewrite forallb_rev'; exact H).
  apply rev_involutive.
Qed.

Lemma is_prefix_app p r : is_prefix p (p ++ r) = true.
Proof. apply is_prefix_spec. exists r. reflexivity. Qed.

Lemma skipn_app_exact {A} (p r : list A) : skipn (length p) (p ++ r) = r.
Proof. induction p; cbn; auto. Qed.

Lemma split_sub_hit hs sg : ~ In ";"%byte hs -> split_sub sig_ext (hs ++ sig_ext ++ sg) = Some (hs, sg).
Proof.
  induction hs as [|x hs IH]; intros H.
  - cbn [app]. change (sig_ext ++ sg) with (";"%byte :: (tl sig_ext ++ sg)). cbn [split_sub].
    change (";"%byte :: (tl sig_ext ++ sg)) with (sig_ext ++ sg). rewrite is_prefix_app, skipn_app_exact. reflexivity.
  - cbn [app split_sub]. assert (Hx : beqb ";"%byte x = false) by (apply beqb_neq; intros E; apply H; left; symmetry; exact E).
    change (is_prefix sig_ext (x :: hs ++ sig_ext ++ sg)) with (beqb ";"%byte x && is_prefix (tl sig_ext) (hs ++ sig_ext ++ sg)).
    rewrite Hx. cbn [andb]. rewrite IH by (intros Hin; apply H; right; exact Hin). reflexivity.
Qed.

Lemma split_sub_miss hs : ~ In ";"%byte hs -> split_sub sig_ext hs = None.
Proof.
  induction hs as [|x hs IH]; intros H; [reflexivity|].
  cbn [split_sub]. assert (Hx : beqb ";"%byte x = false) by (apply beqb_neq; intros E; apply H; left; symmetry; exact E).
  change (is_prefix sig_ext (x :: hs)) with (beqb ";"%byte x && is_prefix (tl sig_ext) hs). rewrite Hx. cbn [andb].
  rewrite IH by (intros Hin; apply H; right; exact Hin). reflexivity.
Qed.

(* what Read sees of a chunk header [hs ext CRLF]: the size field and the claimed signature *)
Definition header_view (signed : bool) (hs sg cursig : bytes) : bytes * bytes * bool :=
  if signed then (hs, sg, true) else (hs, cursig, false).

Lemma header_line signed hs sg X cursig :
  forallb is_hex hs = true -> tok_ok sg = true ->
  split_first nl (hs ++ ext signed sg ++ CRLF ++ X) = Some ((hs ++ ext signed sg) ++ [x0d], X) /\
  (let meta := trim_crlf (((hs ++ ext signed sg) ++ [x0d]) ++ [nl]) in
   match split_sub sig_ext meta with
   | Some (a, s) => (a, s, true)
   | None => (meta, cursig, false)
   end) = header_view signed hs sg cursig.
Proof.
  intros Hh Ht.
  assert (Hm : forallb (fun b => negb (is_crlf b)) (hs ++ ext signed sg) = true).
  { rewrite forallb_app. rewrite (hex_not_crlf _ Hh). destruct signed; cbn [ext andb]; [|reflexivity].
    rewrite forallb_app. unfold tok_ok in Ht. rewrite Ht. reflexivity. }
  split.
  - apply split_first_Some. split.
    + rewrite <- !app_assoc. reflexivity.
    + intros Hin. apply in_app_or in Hin as [Hin|Hin].
      * rewrite forallb_forall in Hm. specialize (Hm _ Hin). discriminate.
      * destruct Hin as [E|[]]. discriminate.
  - cbv zeta. rewrite trim_crlf_line by exact Hm.
    assert (Hsemi : ~ In ";"%byte hs) by (apply hex_not; [exact Hh|reflexivity]).
    destruct signed; cbn [ext header_view].
    + rewrite split_sub_hit by exact Hsemi. reflexivity.
    + rewrite app_nil_r. rewrite split_sub_miss by exact Hsemi. reflexivity.
Qed.

Definition verifies (c : cfg) (calls : nat) (sg : bytes) : Prop :=
  skip_val c = true \/ nth_error (exp_sigs c) calls = Some (norm_sig c sg).

Lemma sig_ok_of c calls sg : nth_error (exp_sigs c) calls = Some (norm_sig c sg) -> sig_ok c calls sg = true.
Proof. unfold sig_ok. intros ->. apply bytes_eqb_refl. Qed.

Lemma sig_ok_not c calls sg : nth_error (exp_sigs c) calls <> Some (norm_sig c sg) -> sig_ok c calls sg = false.
Proof.
  unfold sig_ok. intros H. destruct (nth_error (exp_sigs c) calls) as [e|]; [|reflexivity].
  apply bytes_eqb_neq. intros E. apply H. congruence.
Qed.

(* one data chunk *)
Lemma dec_chunk f c ch X cursig calls acc :
  wf_chunk ch -> verifies c calls (c_sig ch) ->
  dec (S f) c (enc_chunk (negb (skip_val c)) ch ++ X) cursig calls acc =
  dec f c X (if skip_val c then cursig else c_sig ch) (S calls) (acc ++ c_data ch).
Proof.
  intros [Hhs [Hlen [[Hpos Hlt] Htok]]] Hv. unfold enc_chunk. rewrite <- !app_assoc.
  pose proof Hhs as Hhs'. unfold hexstr in Hhs'. apply andb_prop in Hhs' as [_ Hh].
  destruct (header_line (negb (skip_val c)) (c_hs ch) (c_sig ch) (c_data ch ++ CRLF ++ X) cursig Hh Htok) as [H1 H2].
  cbn [dec]. rewrite H1. cbv zeta in H2. cbv zeta. rewrite H2. unfold header_view.
  set (rest := c_data ch ++ CRLF ++ X).
  assert (Hhave : (lenN rest = lenN (c_data ch) + 2 + lenN X)%N).
  { unfold rest, lenN. rewrite !app_length. cbn [length CRLF]. lia. }
  assert (Hfirst : firstn (N.to_nat (hexv (c_hs ch))) rest = c_data ch).
  { unfold rest. rewrite Hlen. unfold lenN. rewrite Nat2N.id. rewrite firstn_app, Nat.sub_diag, firstn_all. cbn. apply app_nil_r. }
  assert (Hskip : skipn (N.to_nat (hexv (c_hs ch))) rest = CRLF ++ X).
  { unfold rest. rewrite Hlen. unfold lenN. rewrite Nat2N.id. apply skipn_app_exact. }
  destruct (skip_val c) eqn:Esk; cbn [negb andb].
  - rewrite parse_hex_ok by assumption.
    replace (hexv (c_hs ch) =? 0)%N with false by lia.
    replace (lenN rest =? 0)%N with false by lia. replace (lenN rest <? hexv (c_hs ch))%N with false by lia.
    rewrite Hfirst, Hskip. cbn [CRLF app skipn]. replace (lenN (x0d :: x0a :: X) <? 2)%N with false by (unfold lenN; cbn [length]; lia).
    reflexivity.
  - rewrite parse_hex_ok by assumption.
    replace (hexv (c_hs ch) =? 0)%N with false by lia.
    replace (lenN rest =? 0)%N with false by lia. replace (lenN rest <? hexv (c_hs ch))%N with false by lia.
    rewrite Hfirst, Hskip. cbn [CRLF app skipn]. replace (lenN (x0d :: x0a :: X) <? 2)%N with false by (unfold lenN; cbn [length]; lia).
    destruct Hv as [Hv|Hv]; [congruence|]. rewrite (sig_ok_of _ _ _ Hv). reflexivity.
Qed.

(* the trailer section as the reader sees it *)
Definition trailer_accepts (c : cfg) (tr : bytes) : bool :=
  if has_trailer c then
    let '(ck, tsig) := trailer_lines 8 true tr [] [] in
    if trailer_signed c && negb (bytes_eqb (norm_sig c tsig) (exp_tsig c)) then false else ck_check c ck
  else true.

(* the terminating chunk *)
Lemma dec_final f c hs0 sgf tr cursig calls acc :
  hexstr hs0 = true -> hexv hs0 = 0%N -> tok_ok sgf = true ->
  dec (S f) c (hs0 ++ ext (negb (skip_val c)) sgf ++ CRLF ++ tr) cursig calls acc =
  if negb (skip_val c) && negb (sig_ok c calls sgf) then Reject
  else if trailer_accepts c tr then Stored acc else Reject.
Proof.
  intros Hhs Hz Htok. pose proof Hhs as Hhs'. unfold hexstr in Hhs'. apply andb_prop in Hhs' as [_ Hh].
  destruct (header_line (negb (skip_val c)) hs0 sgf tr cursig Hh Htok) as [H1 H2].
  cbn [dec]. rewrite H1. cbv zeta in H2. cbv zeta. rewrite H2. unfold header_view, trailer_accepts.
  destruct (skip_val c) eqn:Esk; cbn [negb andb]; rewrite parse_hex_ok by (try assumption; lia); rewrite Hz;
    change (0 =? 0)%N with true; cbv iota.
  - destruct (has_trailer c); [|reflexivity].
    destruct (trailer_lines 8 true tr [] []) as [ck ts].
    destruct (trailer_signed c && negb (bytes_eqb (norm_sig c ts) (exp_tsig c))); [reflexivity|]. destruct (ck_check c ck); reflexivity.
  - destruct (sig_ok c calls sgf); cbn [negb]; [|reflexivity].
    destruct (has_trailer c); [|reflexivity].
    destruct (trailer_lines 8 true tr [] []) as [ck ts].
    destruct (trailer_signed c && negb (bytes_eqb (norm_sig c ts) (exp_tsig c))); [reflexivity|]. destruct (ck_check c ck); reflexivity.
Qed.

(* consistency of the expected tokens with the signatures carried by the chunks, from call [calls] on *)
Definition sigs_from (c : cfg) (calls : nat) (sgs : list bytes) : Prop :=
  skip_val c = true \/ forall i sg, nth_error sgs i = Some sg -> nth_error (exp_sigs c) (calls + i) = Some (norm_sig c sg).

Lemma sigs_from_head c calls sg sgs : sigs_from c calls (sg :: sgs) -> verifies c calls sg /\ sigs_from c (S calls) sgs.
Proof.
  intros [H|H]; [split; left; exact H|]. split.
  - right. specialize (H 0 sg eq_refl). rewrite Nat.add_0_r in H. exact H.
  - right. intros i s Hi. specialize (H (S i) s Hi). rewrite Nat.add_succ_r in H. exact H.
Qed.

Definition last_sig (c : cfg) (cursig : bytes) (chs : list chunk) : bytes :=
  if skip_val c then cursig else match rev chs with [] => cursig | ch :: _ => c_sig ch end.

(* an honest prefix of chunks is consumed chunk by chunk *)
Lemma dec_prefix : forall chs f c Z cursig calls acc,
  Forall wf_chunk chs -> sigs_from c calls (map c_sig chs) ->
  dec (length chs + f) c (enc_chunks (negb (skip_val c)) chs ++ Z) cursig calls acc =
  dec f c Z (last_sig c cursig chs) (calls + length chs) (acc ++ payload_of chs).
Proof.
  induction chs as [|ch chs IH]; intros f c Z cursig calls acc Hwf Hs.
  - cbn. rewrite Nat.add_0_r, app_nil_r. unfold last_sig. cbn. destruct (skip_val c); reflexivity.
  - inversion Hwf as [|? ? Hch Hrest]; subst. cbn [map] in Hs. apply sigs_from_head in Hs as [Hv Hs'].
    unfold enc_chunks. cbn [map concat length]. rewrite <- app_assoc. cbn [plus].
    rewrite (dec_chunk (length chs + f) c ch _ cursig calls acc Hch Hv).
    fold (enc_chunks (negb (skip_val c)) chs). rewrite (IH f c Z _ (S calls) (acc ++ c_data ch) Hrest Hs').
    unfold payload_of. cbn [map concat]. rewrite <- app_assoc.
    replace (S calls + length chs) with (calls + S (length chs)) by lia.
    f_equal. unfold last_sig. destruct (skip_val c); [reflexivity|]. cbn [rev].
    destruct (rev chs) as [|x xs] eqn:E; cbn [app]; reflexivity.
Qed.

Lemma enc_chunks_length signed chs : length chs <= length (enc_chunks signed chs).
Proof.
  induction chs as [|ch chs IH]; [cbn; lia|]. unfold enc_chunks in *. cbn [map concat length]. rewrite app_length.
  assert (1 <= length (enc_chunk signed ch)) by (unfold enc_chunk; rewrite !app_length; cbn [length CRLF]; lia). lia.
Qed.

Lemma decode_fuel c chs Z : exists f, S (length (enc_chunks (negb (skip_val c)) chs ++ Z)) = length chs + S f.
Proof.
  pose proof (enc_chunks_length (negb (skip_val c)) chs). rewrite app_length.
  exists (length (enc_chunks (negb (skip_val c)) chs) - length chs + length Z). lia.
Qed.

Lemma decode_encode_stmt : forall c chs hs0 sgf tr,
  Forall wf_chunk chs -> hexstr hs0 = true -> hexv hs0 = 0%N -> tok_ok sgf = true ->
  sigs_from c 0 (map c_sig chs ++ [sgf]) -> trailer_accepts c tr = true ->
  decode c (enc (negb (skip_val c)) chs hs0 sgf tr) = Stored (payload_of chs).
Proof.
  intros c chs hs0 sgf tr Hwf Hhs Hz Htok Hs Htr. unfold decode, enc.
  destruct (decode_fuel c chs (hs0 ++ ext (negb (skip_val c)) sgf ++ CRLF ++ tr)) as [f Hf]. rewrite Hf.
  assert (Hs1 : sigs_from c 0 (map c_sig chs)).
  { destruct Hs as [H|H]; [left; exact H|right]. intros i sg Hi. apply H. rewrite nth_error_app1; [exact Hi|].
    apply nth_error_Some. congruence. }
  rewrite (dec_prefix chs (S f) c _ [] 0 [] Hwf Hs1). cbn [app plus].
  rewrite dec_final by assumption. rewrite Htr.
  destruct (skip_val c) eqn:Esk; cbn [negb andb]; [reflexivity|].
  destruct Hs as [H|H]; [congruence|].
  specialize (H (length chs) sgf). rewrite nth_error_app2 in H by (rewrite map_length; lia).
  rewrite map_length, Nat.sub_diag in H. specialize (H eq_refl). cbn [plus] in H.
  rewrite (sig_ok_of _ _ _ H). reflexivity.
Qed.

(* ---- tampering ---- *)
(* a chunk (any size field, any data that is completely present) whose signature token does not verify *)
Lemma dec_bad_chunk f c hs sg Y cursig calls acc :
  skip_val c = false -> hexstr hs = true -> (0 < hexv hs < 18446744073709551616)%N -> tok_ok sg = true ->
  nth_error (exp_sigs c) calls <> Some (norm_sig c sg) -> (hexv hs + 2 <= lenN Y)%N ->
  dec (S f) c (hs ++ sig_ext ++ sg ++ CRLF ++ Y) cursig calls acc = Reject.
Proof.
  intros Esk Hhs [Hpos Hlt] Htok Hbad Hlen. pose proof Hhs as Hhs'. unfold hexstr in Hhs'. apply andb_prop in Hhs' as [_ Hh].
  destruct (header_line true hs sg Y cursig Hh Htok) as [H1 H2].
  replace (hs ++ sig_ext ++ sg ++ CRLF ++ Y) with (hs ++ ext true sg ++ CRLF ++ Y) by (cbn [ext]; rewrite <- app_assoc; reflexivity).
  cbn [dec]. rewrite H1. cbv zeta in H2. cbv zeta. rewrite H2. unfold header_view.
  rewrite Esk. cbn [negb andb]. rewrite parse_hex_ok by assumption.
  replace (hexv hs =? 0)%N with false by lia. replace (lenN Y =? 0)%N with false by lia.
  replace (lenN Y <? hexv hs)%N with false by lia.
  assert (Hl : (lenN (skipn (N.to_nat (hexv hs)) Y) <? 2)%N = false).
  { unfold lenN in *. rewrite skipn_length. lia. }
  rewrite Hl. rewrite (sig_ok_not _ _ _ Hbad). reflexivity.
Qed.

Lemma tamper_chunk_stmt : forall c chs hs sg Y,
  skip_val c = false -> Forall wf_chunk chs -> sigs_from c 0 (map c_sig chs) ->
  hexstr hs = true -> (0 < hexv hs < 18446744073709551616)%N -> tok_ok sg = true ->
  nth_error (exp_sigs c) (length chs) <> Some (norm_sig c sg) -> (hexv hs + 2 <= lenN Y)%N ->
  decode c (enc_chunks true chs ++ hs ++ sig_ext ++ sg ++ CRLF ++ Y) = Reject.
Proof.
  intros c chs hs sg Y Esk Hwf Hs Hhs Hv Htok Hbad Hlen. unfold decode.
  replace true with (negb (skip_val c)) by (rewrite Esk; reflexivity).
  destruct (decode_fuel c chs (hs ++ sig_ext ++ sg ++ CRLF ++ Y)) as [f Hf]. rewrite Hf.
  rewrite (dec_prefix chs (S f) c _ [] 0 [] Hwf Hs). cbn [plus].
  apply dec_bad_chunk; assumption.
Qed.

Lemma tamper_final_stmt : forall c chs hs0 sgf tr,
  Forall wf_chunk chs -> sigs_from c 0 (map c_sig chs) ->
  hexstr hs0 = true -> hexv hs0 = 0%N -> tok_ok sgf = true ->
  (skip_val c = false /\ nth_error (exp_sigs c) (length chs) <> Some (norm_sig c sgf)) \/ trailer_accepts c tr = false ->
  decode c (enc (negb (skip_val c)) chs hs0 sgf tr) = Reject.
Proof.
  intros c chs hs0 sgf tr Hwf Hs Hhs Hz Htok Hbad. unfold decode, enc.
  destruct (decode_fuel c chs (hs0 ++ ext (negb (skip_val c)) sgf ++ CRLF ++ tr)) as [f Hf]. rewrite Hf.
  rewrite (dec_prefix chs (S f) c _ [] 0 [] Hwf Hs). cbn [app plus].
  rewrite dec_final by assumption.
  destruct Hbad as [[Esk Hb]|Htr].
  - rewrite Esk. cbn [negb andb]. rewrite (sig_ok_not _ _ _ Hb). reflexivity.
  - rewrite Htr. destruct (negb (skip_val c) && negb (sig_ok c (length chs) sgf)); reflexivity.
Qed.

(* ---- the canonical trailer section is accepted / a wrong value is refused ---- *)
Definition plain (t : bytes) : bool := forallb (fun b => negb (is_space b)) t.   (* no white space, CR or LF *)

Lemma trim_left_plain m r : plain m = true -> m <> [] -> trim_left (m ++ r) = m ++ r.
Proof. destruct m as [|x m]; [contradiction|]. cbn. intros H _. apply andb_prop in H as [Hx _]. destruct (is_space x); [discriminate|reflexivity]. Qed.

Lemma trim_left_plain_all m : plain m = true -> trim_left m = m.
Proof. destruct m as [|x m]; [reflexivity|]. cbn. intros H. apply andb_prop in H as [Hx _]. destruct (is_space x); [discriminate|reflexivity]. Qed.

Lemma trim_space_cr m : plain m = true -> trim_space (m ++ [x0d]) = m.
Proof.
  intros H. unfold trim_space, trim_right. destruct m as [|x m].
  - reflexivity.
  - rewrite trim_left_plain by (try exact H; discriminate). rewrite rev_app_distr. cbn [rev app].
    change (trim_left (x0d :: rev m ++ [x])) with (trim_left (rev m ++ [x])).
    change (rev m ++ [x]) with (rev (x :: m)). rewrite trim_left_plain_all by (unfold plain; rewrite forallb_rev'; exact H).
    apply rev_involutive.
Qed.

Lemma trim_space_plain t : plain t = true -> trim_space t = t.
Proof.
  intros Hpt. unfold trim_space, trim_right. rewrite (trim_left_plain_all t Hpt).
  rewrite (trim_left_plain_all (rev t)) by (unfold plain; rewrite forallb_rev'; exact Hpt). apply rev_involutive.
Qed.

Lemma plain_no_nl m : plain m = true -> ~ In nl m.
Proof. unfold plain. rewrite forallb_forall. intros H Hin. specialize (H _ Hin). discriminate. Qed.

Lemma line_split m rest : plain m = true -> split_first nl (m ++ CRLF ++ rest) = Some (m ++ [x0d], rest).
Proof.
  intros H. apply split_first_Some. split; [rewrite <- app_assoc; reflexivity|].
  intros Hin. apply in_app_or in Hin as [Hin|[E|[]]]; [exact (plain_no_nl _ H Hin)|discriminate].
Qed.

Definition canonical_trailer (signed : bool) (name value ts : bytes) : bytes :=
  name ++ B":" ++ value ++ CRLF ++ (if signed then tsig_prefix ++ ts ++ CRLF else []) ++ CRLF.

Lemma canonical_trailer_lines signed name value ts :
  plain (name ++ B":" ++ value) = true -> name <> [] -> is_prefix tsig_prefix (name ++ B":" ++ value) = false ->
  plain ts = true ->
  trailer_lines 8 true (canonical_trailer signed name value ts) [] [] =
  (name ++ B":" ++ value, if signed then ts else []).
Proof.
  intros Hp Hne Hnp Hts. unfold canonical_trailer.
  set (line := name ++ B":" ++ value) in *.
  replace (name ++ B":" ++ value ++ CRLF ++ (if signed then tsig_prefix ++ ts ++ CRLF else []) ++ CRLF)
    with (line ++ CRLF ++ (if signed then tsig_prefix ++ ts ++ CRLF else []) ++ CRLF)
    by (unfold line; rewrite <- !app_assoc; reflexivity).
  assert (Hline : line <> []) by (unfold line; destruct name; [contradiction|discriminate]).
  cbn [trailer_lines]. rewrite line_split by exact Hp. rewrite trim_space_cr by exact Hp.
  destruct line as [|l0 lr] eqn:El; [contradiction|]. rewrite <- El in *. cbn [is_empty].
  replace (is_empty line) with false by (rewrite El; reflexivity). rewrite Hnp. cbn [is_empty].
  destruct signed.
  - assert (Hp2 : plain (tsig_prefix ++ ts) = true) by (unfold plain in *; rewrite forallb_app, Hts; reflexivity).
    replace ((tsig_prefix ++ ts ++ CRLF) ++ CRLF) with ((tsig_prefix ++ ts) ++ CRLF ++ CRLF) by (rewrite <- !app_assoc; reflexivity).
    rewrite line_split by exact Hp2. rewrite trim_space_cr by exact Hp2.
    change (is_empty (tsig_prefix ++ ts)) with false. rewrite is_prefix_app. rewrite skipn_app_exact.
    rewrite (trim_space_plain ts Hts). reflexivity.
  - cbn [app]. reflexivity.
Qed.

Lemma canonical_trailer_accepts c name value ts :
  has_trailer c = true -> mem_bytes (tname c) known_algos = true ->
  plain name = true -> name <> [] -> ~ In ":"%byte name -> to_lower name = tname c ->
  plain value = true -> plain ts = true ->
  trailer_accepts c (canonical_trailer (trailer_signed c) name value ts) =
  (if trailer_signed c then bytes_eqb (norm_sig c ts) (exp_tsig c) else true) && bytes_eqb value (exp_ck c).
Proof.
  intros Ht Hk Hn Hne Hcolon Hlow Hv Hts. unfold trailer_accepts. rewrite Ht.
  assert (Hp : plain (name ++ B":" ++ value) = true).
  { unfold plain in *. rewrite !forallb_app, Hn, Hv. reflexivity. }
  assert (Hnp : is_prefix tsig_prefix (name ++ B":" ++ value) = false).
  { destruct (is_prefix tsig_prefix (name ++ B":" ++ value)) eqn:E; [|reflexivity].
    apply is_prefix_spec in E as [r Hr].
    (* the first ':' of the line is the one after [name]; in tsig_prefix it is the last byte; so to_lower name = "x-amz-trailer-signature", which is not a known checksum name *)
    assert (Hs1 : split_first ":"%byte (name ++ B":" ++ value) = Some (name, value)) by (apply split_first_Some; split; [reflexivity|exact Hcolon]).
    rewrite Hr in Hs1. change (tsig_prefix ++ r) with (B"x-amz-trailer-signature" ++ ":"%byte :: r) in Hs1.
    assert (Hs2 : split_first ":"%byte (B"x-amz-trailer-signature" ++ ":"%byte :: r) = Some (B"x-amz-trailer-signature", r)).
    { apply split_first_Some. split; [reflexivity|]. cbn. intuition discriminate. }
    rewrite Hs2 in Hs1. inversion Hs1; subst name. rewrite <- Hlow in Hk. vm_compute in Hk. discriminate. }
  rewrite canonical_trailer_lines by assumption.
  unfold ck_check. rewrite Hk.
  assert (Hs : split_first ":"%byte (name ++ B":" ++ value) = Some (name, value)) by (apply split_first_Some; split; [reflexivity|exact Hcolon]).
  rewrite Hs.
  rewrite (trim_space_plain name Hn), (trim_space_plain value Hv), Hlow, bytes_eqb_refl. cbn [andb].
  destruct (trailer_signed c); cbn [andb negb].
  - destruct (bytes_eqb (norm_sig c ts) (exp_tsig c)); reflexivity.
  - reflexivity.
Qed.

(* ---- statements used by Properties/C30.v, with every premise syntactic ---- *)
Definition sigs_consistent (c : cfg) (sgs : list bytes) : Prop :=
  skip_val c = true \/ forall i sg, nth_error sgs i = Some sg -> nth_error (exp_sigs c) i = Some (norm_sig c sg).

Lemma sigs_consistent_from c sgs : sigs_consistent c sgs -> sigs_from c 0 sgs.
Proof. intros [H|H]; [left; exact H|right; exact H]. Qed.

Definition trailer_form (c : cfg) (tr name value ts : bytes) : Prop :=
  tr = canonical_trailer (trailer_signed c) name value ts /\
  mem_bytes (tname c) known_algos = true /\ plain name = true /\ name <> [] /\ ~ In ":"%byte name /\
  to_lower name = tname c /\ plain value = true /\ plain ts = true.

Lemma decode_encode_canonical : forall c chs hs0 sgf tr name value ts,
  Forall wf_chunk chs -> hexstr hs0 = true -> hexv hs0 = 0%N -> tok_ok sgf = true ->
  sigs_consistent c (map c_sig chs ++ [sgf]) ->
  (has_trailer c = false \/
   (trailer_form c tr name value ts /\ value = exp_ck c /\ (trailer_signed c = true -> norm_sig c ts = exp_tsig c))) ->
  decode c (enc (negb (skip_val c)) chs hs0 sgf tr) = Stored (payload_of chs).
Proof.
  intros c chs hs0 sgf tr name value ts Hwf Hhs Hz Htok Hs Htr.
  apply decode_encode_stmt; [assumption|assumption|assumption|assumption|apply sigs_consistent_from; exact Hs|].
  destruct Htr as [Hnt|[[-> [Hk [Hn [Hne [Hc [Hl [Hv Hts]]]]]]] [Hval Hsig]]].
  - unfold trailer_accepts. rewrite Hnt. reflexivity.
  - destruct (has_trailer c) eqn:Eht; [|unfold trailer_accepts; rewrite Eht; reflexivity].
    rewrite canonical_trailer_accepts by assumption. subst value. rewrite bytes_eqb_refl.
    destruct (trailer_signed c); [rewrite (Hsig eq_refl), bytes_eqb_refl|]; reflexivity.
Qed.

Lemma tamper_trailer_canonical : forall c chs hs0 sgf name value ts,
  has_trailer c = true ->
  Forall wf_chunk chs -> hexstr hs0 = true -> hexv hs0 = 0%N -> tok_ok sgf = true ->
  sigs_consistent c (map c_sig chs) ->
  trailer_form c (canonical_trailer (trailer_signed c) name value ts) name value ts ->
  value <> exp_ck c \/ (trailer_signed c = true /\ norm_sig c ts <> exp_tsig c) ->
  decode c (enc (negb (skip_val c)) chs hs0 sgf (canonical_trailer (trailer_signed c) name value ts)) = Reject.
Proof.
  intros c chs hs0 sgf name value ts Hht Hwf Hhs Hz Htok Hs [_ [Hk [Hn [Hne [Hc [Hl [Hv Hts]]]]]]] Hbad.
  apply tamper_final_stmt; try assumption. right.
  rewrite canonical_trailer_accepts by assumption.
  destruct Hbad as [Hb|[Hsg Hb]].
  - apply bytes_eqb_neq in Hb. rewrite Hb. apply andb_false_r.
  - rewrite Hsg. apply bytes_eqb_neq in Hb. rewrite Hb. reflexivity.
Qed.

Lemma tamper_chunk_canonical : forall c chs hs sg Y,
  skip_val c = false -> Forall wf_chunk chs -> sigs_consistent c (map c_sig chs) ->
  hexstr hs = true -> (0 < hexv hs < 18446744073709551616)%N -> tok_ok sg = true ->
  nth_error (exp_sigs c) (length chs) <> Some (norm_sig c sg) -> (hexv hs + 2 <= lenN Y)%N ->
  decode c (enc_chunks true chs ++ hs ++ sig_ext ++ sg ++ CRLF ++ Y) = Reject.
Proof. intros. apply tamper_chunk_stmt; assumption. Qed.

Lemma tamper_final_sig_canonical : forall c chs hs0 sgf tr,
  skip_val c = false -> Forall wf_chunk chs -> sigs_consistent c (map c_sig chs) ->
  hexstr hs0 = true -> hexv hs0 = 0%N -> tok_ok sgf = true ->
  nth_error (exp_sigs c) (length chs) <> Some (norm_sig c sgf) ->
  decode c (enc true chs hs0 sgf tr) = Reject.
Proof.
  intros c chs hs0 sgf tr Esk Hwf Hs Hhs Hz Htok Hbad.
  replace true with (negb (skip_val c)) by (rewrite Esk; reflexivity).
  apply tamper_final_stmt; try assumption. left. split; assumption.
Qed.

(* ---- round 3 ---- *)
(* signed modes: a chunk header without the chunk-signature extension (e.g. the bare terminator "0 CRLF CRLF") *)
Lemma dec_unsigned_header f c hs Y cursig calls acc :
  skip_val c = false -> hexstr hs = true ->
  dec (S f) c (hs ++ CRLF ++ Y) cursig calls acc = Reject.
Proof.
  intros Esk Hhs. pose proof Hhs as Hhs'. unfold hexstr in Hhs'. apply andb_prop in Hhs' as [_ Hh].
  destruct (header_line false hs [] Y cursig Hh eq_refl) as [H1 H2]. cbn [ext app] in H1, H2.
  cbn [dec]. rewrite H1. cbv zeta in H2. cbv zeta. rewrite H2. unfold header_view. rewrite Esk. reflexivity.
Qed.

Lemma unsigned_terminator_stmt : forall c chs hs Y,
  skip_val c = false -> Forall wf_chunk chs -> sigs_consistent c (map c_sig chs) -> hexstr hs = true ->
  decode c (enc_chunks true chs ++ hs ++ CRLF ++ Y) = Reject.
Proof.
  intros c chs hs Y Esk Hwf Hs Hhs. unfold decode.
  replace true with (negb (skip_val c)) by (rewrite Esk; reflexivity).
  destruct (decode_fuel c chs (hs ++ CRLF ++ Y)) as [f Hf]. rewrite Hf.
  rewrite (dec_prefix chs (S f) c _ [] 0 [] Hwf (sigs_consistent_from _ _ Hs)). cbn [plus].
  apply dec_unsigned_header; assumption.
Qed.

(* a checksum line is accepted only if its value is byte-identical (up to surrounding white space) to the expected text *)
Lemma ck_check_text c line : mem_bytes (tname c) known_algos = true -> ck_check c line = true ->
  exists name value, split_first ":"%byte line = Some (name, value) /\
                     to_lower (trim_space name) = tname c /\ trim_space value = exp_ck c.
Proof.
  unfold ck_check. intros Hk. rewrite Hk. destruct (split_first ":"%byte line) as [[name value]|]; [|discriminate].
  intros H. apply andb_prop in H as [H1 H2]. apply bytes_eqb_eq in H1, H2. exists name, value. auto.
Qed.

Lemma accepted_only_canonical_stmt : forall c chs hs0 sgf tr p,
  has_trailer c = true -> mem_bytes (tname c) known_algos = true ->
  Forall wf_chunk chs -> sigs_consistent c (map c_sig chs) ->
  hexstr hs0 = true -> hexv hs0 = 0%N -> tok_ok sgf = true ->
  decode c (enc (negb (skip_val c)) chs hs0 sgf tr) = Stored p ->
  exists name value, split_first ":"%byte (fst (trailer_lines 8 true tr [] [])) = Some (name, value) /\
                     to_lower (trim_space name) = tname c /\ trim_space value = exp_ck c.
Proof.
  intros c chs hs0 sgf tr p Hht Hk Hwf Hs Hhs Hz Htok Hd. unfold decode, enc in Hd.
  destruct (decode_fuel c chs (hs0 ++ ext (negb (skip_val c)) sgf ++ CRLF ++ tr)) as [f Hf]. rewrite Hf in Hd.
  rewrite (dec_prefix chs (S f) c _ [] 0 [] Hwf (sigs_consistent_from _ _ Hs)) in Hd. cbn [app plus] in Hd.
  rewrite dec_final in Hd by assumption.
  destruct (negb (skip_val c) && negb (sig_ok c (length chs) sgf)); [discriminate|].
  unfold trailer_accepts in Hd. rewrite Hht in Hd.
  destruct (trailer_lines 8 true tr [] []) as [ck ts]. cbn [fst].
  destruct (trailer_signed c && negb (bytes_eqb (norm_sig c ts) (exp_tsig c))); [discriminate|].
  destruct (ck_check c ck) eqn:E; [|discriminate]. apply ck_check_text; assumption.
Qed.
