(* Proofs/TxStreamProofs.v — C36 round 2 (Model/TxStream.v). *)
From Verif Require Import Bytes Codec TxReaders TxReadersProofs TxStream.

(* ---------- (a) the streaming decision ---------- *)
Lemma decide_free_all stores : decide stores = MFree <-> forall k, In k stores -> txfree k = true.
Proof.
  unfold decide. destruct (forallb txfree stores) eqn:E.
  - split; [intros _; now apply forallb_forall | reflexivity].
  - split; [discriminate|]. intros H. apply forallb_forall in H. congruence.
Qed.
Lemma decide_tx_some stores : decide stores = MTx <-> exists k, In k stores /\ txfree k = false.
Proof.
  split.
  - intros H. unfold decide in H. destruct (forallb txfree stores) eqn:E; [discriminate|].
    clear H. induction stores as [|k r IH]; [discriminate|]. cbn in E. apply andb_false_iff in E as [E|E].
    + exists k. split; [now left | exact E].
    + destruct (IH E) as (k' & Hin & Hk). exists k'. split; [now right | exact Hk].
  - intros (k & Hin & Hk). destruct (decide stores) eqn:E; [reflexivity|].
    pose proof (proj1 (decide_free_all stores) E k Hin) as E2. rewrite E2 in Hk. discriminate.
Qed.

Lemma nth_sql_in k stores : nth k stores SFs = SSql -> In SSql stores.
Proof.
  intros H. destruct (Nat.lt_ge_cases k (length stores)) as [Hl|Hl].
  - rewrite <- H. now apply nth_In.
  - rewrite nth_overflow in H by assumption. discriminate.
Qed.

(* with the mode the code decides, opening a part never dereferences a nil transaction — whatever store the part
   is recorded in *)
Lemma open_no_niltx stores done p len :
  fst (fst (open_part (decide stores) done stores p len)) <> inr ENilTx.
Proof.
  unfold open_part. destruct (nth (p_store p) stores SFs) eqn:K; destruct (decide stores) eqn:M; cbn;
    try (destruct (p_kind p); cbn; discriminate); try (destruct done; destruct (p_kind p); cbn; discriminate).
  apply nth_sql_in in K. pose proof (proj1 (decide_free_all stores) M SSql K) as E2. discriminate.
Qed.

Definition tx_err (r : rres) : Prop :=
  r = RErrS ENilTx \/ (exists t, r = RErrEnd ENilTx t).

Lemma read_loop_no_niltx stores done ps bsz : forall fuel r bg fn,
  ~ tx_err (snd (fst (fst (read_loop fuel (decide stores) done stores ps bsz r bg fn)))).
Proof.
  induction fuel as [|f IH]; intros r bg fn; cbn [read_loop].
  - cbn. intros [H|[t H]]; discriminate.
  - destruct (r_cur r) as [c|].
    + destruct (cu_left c =? 0); [apply IH|]. cbn. intros [H|[t H]]; discriminate.
    + destruct (r_todo r) as [|pr rest]; [cbn; intros [H|[t H]]; discriminate|].
      pose proof (open_no_niltx stores done
                    (nth (pr_part pr) ps {| p_store := 0; p_size := 0; p_kind := KGone |}) (pr_len pr)) as Ho.
      destruct (open_part (decide stores) done stores _ (pr_len pr)) as [[res db] df]. cbn [fst] in Ho.
      destruct res as [c|e]; [apply IH|]. cbn. intros [H|[t H]]; [|discriminate]. inversion H. subst. now apply Ho.
Qed.

Lemma read_once_no_niltx stores done ps bsz r bg fn :
  ~ tx_err (snd (fst (fst (read_once (decide stores) done stores ps bsz r bg fn)))).
Proof.
  unfold read_once. destruct (r_closed r); [cbn; intros [H|[t H]]; discriminate | apply read_loop_no_niltx].
Qed.

Lemma read_all_no_niltx stores done ps bsz : forall fuel r bg fn total,
  ~ tx_err (snd (fst (fst (read_all fuel (decide stores) done stores ps bsz r bg fn total)))).
Proof.
  induction fuel as [|f IH]; intros r bg fn total; cbn [read_all].
  - cbn. intros [H|[t H]]; discriminate.
  - pose proof (read_once_no_niltx stores done ps bsz r bg fn) as Ho.
    destruct (read_once (decide stores) done stores ps bsz r bg fn) as [[[r' res] bg'] fn']. cbn [fst snd] in Ho.
    destruct res; try (cbn; intros [H|[t H]]; discriminate); [apply IH|].
    cbn. intros [H|[t H]]; [discriminate|]. inversion H; subst. apply Ho. now left.
Qed.

Lemma sstep_no_niltx stores bsz s o : ~ tx_err (snd (sstep (decide stores) stores bsz s o)).
Proof.
  destruct o; cbn [sstep].
  - pose proof (read_once_no_niltx stores (amb_is_done (decide stores) s) (parts s) bsz (nth i (rdrs s) dead_rdr)
                  (begun s) (finalized s)) as H.
    destruct (read_once _ _ _ _ _ _ _ _) as [[[r res] bg] fn]. exact H.
  - pose proof (read_all_no_niltx stores (amb_is_done (decide stores) s) (parts s) bsz
                  (todo_bytes (nth i (rdrs s) dead_rdr) + read_fuel (nth i (rdrs s) dead_rdr) + 2)
                  (nth i (rdrs s) dead_rdr) (begun s) (finalized s) 0) as H.
    destruct (read_all _ _ _ _ _ _ _ _ _ _) as [[[r res] bg] fn]. exact H.
  - destruct (close_rdr _ _) as [r fn]. destruct (decide stores); cbn; intros [H|[t H]]; discriminate.
  - cbn; intros [H|[t H]]; discriminate.
  - cbn; intros [H|[t H]]; discriminate.
Qed.

Theorem srun_no_niltx stores bsz : forall ops s x,
  In x (snd (srun (decide stores) stores bsz s ops)) -> ~ tx_err (fst x).
Proof.
  induction ops as [|o t IH]; intros s x; cbn [srun]; [intros []|].
  pose proof (sstep_no_niltx stores bsz s o) as Ho.
  destruct (sstep (decide stores) stores bsz s o) as [s1 r]. cbn [snd] in Ho.
  specialize (IH s1). destruct (srun (decide stores) stores bsz s1 t) as [s2 rs]. cbn [snd] in *.
  intros [<-|Hin]; [exact Ho | now apply IH].
Qed.

(* ---------- (b) transactions begun by the part stores themselves ---------- *)
Definition hold (r : rdr) : nat := match r_cur r with Some c => if cu_own c then 1 else 0 | None => 0 end.
Definition holding (l : list rdr) : nat := fold_right (fun r a => hold r + a) 0 l.
Definition rdr_ok (r : rdr) : Prop := r_closed r = true -> r_cur r = None.

Lemma open_counts m done stores p len :
  let '(res, db, df) := open_part m done stores p len in
  db = df + match res with inl c => if cu_own c then 1 else 0 | inr _ => 0 end.
Proof.
  unfold open_part. destruct (nth (p_store p) stores SFs), m, done, (p_kind p); cbn; reflexivity.
Qed.

Lemma read_loop_counts m done stores ps bsz : forall fuel r bg fn,
  let '(r', _, bg', fn') := read_loop fuel m done stores ps bsz r bg fn in
  bg' + fn + hold r = bg + fn' + hold r' /\ r_closed r' = r_closed r.
Proof.
  induction fuel as [|f IH]; intros r bg fn; cbn [read_loop]; [split; [lia|reflexivity]|].
  destruct (r_cur r) as [c|] eqn:Ec.
  - destruct (cu_left c =? 0).
    + specialize (IH {| r_todo := r_todo r; r_cur := None; r_closed := r_closed r |} bg (if cu_own c then S fn else fn)).
      destruct (read_loop f m done stores ps bsz _ bg _) as [[[r' res] bg'] fn'].
      unfold hold in *. rewrite Ec. cbn [r_cur r_closed] in IH. destruct IH as [IH1 IH2]. split; [|exact IH2].
      destruct (cu_own c); lia.
    + unfold hold. rewrite Ec. cbn [r_cur cu_own r_closed]. split; [lia|reflexivity].
  - destruct (r_todo r) as [|pr rest].
    + split; [lia|reflexivity].
    + pose proof (open_counts m done stores (nth (pr_part pr) ps {| p_store := 0; p_size := 0; p_kind := KGone |}) (pr_len pr)) as Ho.
      destruct (open_part m done stores _ (pr_len pr)) as [[res db] df].
      destruct res as [c|e].
      * specialize (IH {| r_todo := rest; r_cur := Some c; r_closed := r_closed r |} (bg + db) (fn + df)).
        destruct (read_loop f m done stores ps bsz _ (bg + db) (fn + df)) as [[[r' res] bg'] fn'].
        unfold hold in *. rewrite Ec. cbn [r_cur r_closed] in IH. destruct IH as [IH1 IH2]. split; [|exact IH2].
        destruct (cu_own c); lia.
      * unfold hold. rewrite Ec. cbn [r_cur r_closed]. split; [lia|reflexivity].
Qed.

Lemma read_once_counts m done stores ps bsz r bg fn :
  let '(r', _, bg', fn') := read_once m done stores ps bsz r bg fn in
  bg' + fn + hold r = bg + fn' + hold r' /\ r_closed r' = r_closed r /\ (rdr_ok r -> rdr_ok r').
Proof.
  unfold read_once. destruct (r_closed r) eqn:Ecl.
  - split; [lia|]. split; [exact Ecl | auto].
  - pose proof (read_loop_counts m done stores ps bsz (read_fuel r) r bg fn) as H.
    destruct (read_loop (read_fuel r) m done stores ps bsz r bg fn) as [[[r' res] bg'] fn'].
    destruct H as [H1 H2]. split; [exact H1|]. split; [congruence|]. unfold rdr_ok. intros _ Hc. congruence.
Qed.

Lemma read_all_counts m done stores ps bsz : forall fuel r bg fn total,
  let '(r', _, bg', fn') := read_all fuel m done stores ps bsz r bg fn total in
  bg' + fn + hold r = bg + fn' + hold r' /\ r_closed r' = r_closed r /\ (rdr_ok r -> rdr_ok r').
Proof.
  induction fuel as [|f IH]; intros r bg fn total; cbn [read_all]; [split; [lia|split; auto]|].
  pose proof (read_once_counts m done stores ps bsz r bg fn) as Ho.
  destruct (read_once m done stores ps bsz r bg fn) as [[[r1 res] bg1] fn1]. destruct Ho as (H1 & H2 & H3).
  destruct res; try (split; [exact H1 | split; [exact H2 | exact H3]]).
  specialize (IH r1 bg1 fn1 (total + n)).
  destruct (read_all f m done stores ps bsz r1 bg1 fn1 (total + n)) as [[[r' res'] bg'] fn'].
  destruct IH as (I1 & I2 & I3). split; [lia|]. split; [congruence | auto].
Qed.

Lemma length_upd {A} (l : list A) i x : length (upd l i x) = length l.
Proof. revert i; induction l as [|a l IH]; intros [|i]; cbn; auto. Qed.
Lemma nth_upd_same {A} (l : list A) i x d : i < length l -> nth i (upd l i x) d = x.
Proof. revert i; induction l as [|a l IH]; intros [|i] H; cbn in *; try lia; auto. apply IH; lia. Qed.
Lemma nth_upd_other {A} (l : list A) i j x d : i <> j -> nth j (upd l i x) d = nth j l d.
Proof. revert i j; induction l as [|a l IH]; intros [|i] [|j] H; cbn; auto; try lia. Qed.
Lemma upd_overflow {A} (l : list A) i x : length l <= i -> upd l i x = l.
Proof. revert i; induction l as [|a l IH]; intros [|i] H; cbn in *; try lia; auto. f_equal. apply IH; lia. Qed.

Lemma holding_upd l i r' : i < length l ->
  holding (upd l i r') + hold (nth i l dead_rdr) = holding l + hold r'.
Proof.
  unfold holding. revert i; induction l as [|a l IH]; intros [|i] H; cbn [length] in H; try lia;
    cbn [fold_right upd nth].
  - lia.
  - specialize (IH i ltac:(lia)). lia.
Qed.

Definition counts_inv (s : sst) : Prop :=
  begun s = finalized s + holding (rdrs s) /\ (forall r, In r (rdrs s) -> rdr_ok r).

Lemma In_upd {A} (l : list A) i x y : In y (upd l i x) -> y = x \/ In y l.
Proof.
  revert i; induction l as [|a l IH]; intros [|i]; cbn; auto.
  - intros [H|H]; auto.
  - intros [H|H]; auto. destruct (IH i H); auto.
Qed.

Lemma dead_ok : rdr_ok dead_rdr. Proof. intros _. reflexivity. Qed.
Lemma nth_ok l i : (forall r, In r l -> rdr_ok r) -> rdr_ok (nth i l dead_rdr).
Proof.
  intros H. destruct (Nat.lt_ge_cases i (length l)); [apply H; now apply nth_In|].
  rewrite nth_overflow by assumption. apply dead_ok.
Qed.

(* a result computed for reader i is written back; outside the list nothing happens and nothing was counted *)
Lemma with_rdr_inv s i r' bg' fn' :
  counts_inv s ->
  bg' + finalized s + hold (nth i (rdrs s) dead_rdr) = begun s + fn' + hold r' ->
  (length (rdrs s) <= i -> hold r' = 0) ->
  rdr_ok r' ->
  counts_inv (with_rdr s i r' bg' fn').
Proof.
  intros [Hc Hok] He Hout Hr. unfold counts_inv, with_rdr. cbn [begun finalized rdrs].
  split.
  - destruct (Nat.lt_ge_cases i (length (rdrs s))) as [Hl|Hl].
    + pose proof (holding_upd (rdrs s) i r' Hl). lia.
    + rewrite upd_overflow by assumption. rewrite nth_overflow in He by assumption.
      specialize (Hout Hl). cbn in He. lia.
  - intros y Hy. apply In_upd in Hy as [->|Hy]; auto.
Qed.

Lemma dead_read_hold m done stores ps bsz bg fn :
  hold (fst (fst (fst (read_once m done stores ps bsz dead_rdr bg fn)))) = 0.
Proof. reflexivity. Qed.

Lemma sstep_counts m stores bsz s o : counts_inv s -> counts_inv (fst (sstep m stores bsz s o)).
Proof.
  intros Hinv. pose proof Hinv as [Hc Hok]. destruct o; cbn [sstep].
  - pose proof (read_once_counts m (amb_is_done m s) stores (parts s) bsz (nth i (rdrs s) dead_rdr) (begun s) (finalized s)) as H.
    destruct (read_once _ _ _ _ _ _ _ _) as [[[r res] bg] fn] eqn:E. destruct H as (H1 & H2 & H3). cbn [fst].
    apply with_rdr_inv; [exact Hinv | exact H1 | | apply H3, nth_ok, Hok].
    intros Hl. rewrite nth_overflow in E by assumption. unfold read_once in E. cbn in E. inversion E. reflexivity.
  - pose proof (read_all_counts m (amb_is_done m s) stores (parts s) bsz
                  (todo_bytes (nth i (rdrs s) dead_rdr) + read_fuel (nth i (rdrs s) dead_rdr) + 2)
                  (nth i (rdrs s) dead_rdr) (begun s) (finalized s) 0) as H.
    destruct (read_all _ _ _ _ _ _ _ _ _ _) as [[[r res] bg] fn] eqn:E. destruct H as (H1 & H2 & H3). cbn [fst].
    apply with_rdr_inv; [exact Hinv | exact H1 | | apply H3, nth_ok, Hok].
    intros Hl. pose proof (H3 (nth_ok _ _ Hok)) as Hr. rewrite nth_overflow in H2 by assumption. cbn in H2.
    unfold hold. rewrite (Hr H2). reflexivity.
  - unfold close_rdr.
    set (r0 := nth i (rdrs s) dead_rdr).
    assert (counts_inv (with_rdr s i {| r_todo := r_todo r0; r_cur := None; r_closed := true |} (begun s)
                          match r_cur r0 with Some c => if cu_own c then S (finalized s) else finalized s | None => finalized s end)).
    { apply with_rdr_inv; [exact Hinv | | intros _; reflexivity | intros _; reflexivity].
      fold r0. unfold hold. destruct (r_cur r0) as [c|]; [destruct (cu_own c)|]; cbn; lia. }
    destruct m; exact H.
  - exact Hinv.
  - exact Hinv.
Qed.

Lemma srun_fst_cons m stores bsz s o t :
  fst (srun m stores bsz s (o :: t)) = fst (srun m stores bsz (fst (sstep m stores bsz s o)) t).
Proof. cbn [srun]. destruct (sstep m stores bsz s o) as [s1 r]. cbn [fst]. destruct (srun m stores bsz s1 t). reflexivity. Qed.

Lemma srun_counts m stores bsz : forall ops s, counts_inv s -> counts_inv (fst (srun m stores bsz s ops)).
Proof.
  induction ops as [|o t IH]; intros s H; [exact H|]. rewrite srun_fst_cons. apply IH, sstep_counts, H.
Qed.
Lemma srun_trace_counts m stores bsz : forall ops s x, counts_inv s ->
  In x (snd (srun m stores bsz s ops)) -> counts_inv (snd x).
Proof.
  induction ops as [|o t IH]; intros s x H; cbn [srun]; [intros []|].
  pose proof (sstep_counts m stores bsz s o H) as H1.
  destruct (sstep m stores bsz s o) as [s1 r]. cbn [fst] in H1.
  specialize (IH s1). destruct (srun m stores bsz s1 t) as [s2 rs]. cbn [snd] in *.
  intros [<-|Hin]; [exact H1 | now apply IH].
Qed.

(* closed readers stay closed; the reader list keeps its length *)
Definition closed_at (s : sst) (i : nat) : Prop := r_closed (nth i (rdrs s) dead_rdr) = true.

Lemma sstep_shape m stores bsz s o :
  let s' := fst (sstep m stores bsz s o) in
  length (rdrs s') = length (rdrs s) /\ (forall j, closed_at s j -> closed_at s' j) /\
  match o with SC i => closed_at s' i | _ => True end.
Proof.
  unfold closed_at. destruct o; cbn [sstep].
  - pose proof (read_once_counts m (amb_is_done m s) stores (parts s) bsz (nth i (rdrs s) dead_rdr) (begun s) (finalized s)) as H.
    destruct (read_once _ _ _ _ _ _ _ _) as [[[r res] bg] fn]. destruct H as (_ & H2 & _). cbn [fst with_rdr rdrs].
    split; [apply length_upd|]. split; [|exact I]. intros j Hj.
    destruct (Nat.eq_dec i j) as [->|Hn]; [|now rewrite nth_upd_other].
    destruct (Nat.lt_ge_cases j (length (rdrs s))); [rewrite nth_upd_same by assumption; congruence|].
    now rewrite upd_overflow.
  - pose proof (read_all_counts m (amb_is_done m s) stores (parts s) bsz
                  (todo_bytes (nth i (rdrs s) dead_rdr) + read_fuel (nth i (rdrs s) dead_rdr) + 2)
                  (nth i (rdrs s) dead_rdr) (begun s) (finalized s) 0) as H.
    destruct (read_all _ _ _ _ _ _ _ _ _ _) as [[[r res] bg] fn]. destruct H as (_ & H2 & _). cbn [fst with_rdr rdrs].
    split; [apply length_upd|]. split; [|exact I]. intros j Hj.
    destruct (Nat.eq_dec i j) as [->|Hn]; [|now rewrite nth_upd_other].
    destruct (Nat.lt_ge_cases j (length (rdrs s))); [rewrite nth_upd_same by assumption; congruence|].
    now rewrite upd_overflow.
  - unfold close_rdr.
    set (l1 := upd (rdrs s) i {| r_todo := r_todo (nth i (rdrs s) dead_rdr); r_cur := None; r_closed := true |}).
    assert (H : length l1 = length (rdrs s) /\
                (forall j, r_closed (nth j (rdrs s) dead_rdr) = true -> r_closed (nth j l1 dead_rdr) = true) /\
                r_closed (nth i l1 dead_rdr) = true).
    { split; [apply length_upd|].
      assert (Hi : r_closed (nth i l1 dead_rdr) = true).
      { unfold l1. destruct (Nat.lt_ge_cases i (length (rdrs s))); [now rewrite nth_upd_same|].
        rewrite upd_overflow by assumption. now rewrite nth_overflow. }
      split; [|exact Hi]. intros j Hj. destruct (Nat.eq_dec i j) as [->|Hn]; [exact Hi | unfold l1; now rewrite nth_upd_other]. }
    destruct m; cbn [fst rdrs with_rdr]; exact H.
  - cbn. auto.
  - cbn. auto.
Qed.

Lemma srun_shape m stores bsz : forall ops s,
  let s' := fst (srun m stores bsz s ops) in
  length (rdrs s') = length (rdrs s) /\ (forall j, closed_at s j -> closed_at s' j) /\
  (forall i, In (SC i) ops -> closed_at s' i).
Proof.
  induction ops as [|o t IH]; intros s; [cbn; repeat split; auto; intros i []|].
  cbn zeta. rewrite srun_fst_cons.
  destruct (sstep_shape m stores bsz s o) as (L1 & M1 & C1).
  destruct (IH (fst (sstep m stores bsz s o))) as (L2 & M2 & C2).
  split; [congruence|]. split; [auto|].
  intros i [->|Hin]; [apply M2; exact C1 | now apply C2].
Qed.

Lemma holding_closed l : (forall r, In r l -> rdr_ok r) -> (forall r, In r l -> r_closed r = true) -> holding l = 0.
Proof.
  induction l as [|a l IH]; intros Hok Hcl; [reflexivity|].
  change (holding (a :: l)) with (hold a + holding l).
  rewrite IH; [| intros r H; apply Hok; now right | intros r H; apply Hcl; now right].
  unfold hold. rewrite (Hok a (or_introl eq_refl) (Hcl a (or_introl eq_refl))). reflexivity.
Qed.

Lemma holding_le_unclosed l : (forall r, In r l -> rdr_ok r) ->
  holding l <= length (filter (fun r => negb (r_closed r)) l).
Proof.
  induction l as [|a l IH]; intros Hok; [cbn; lia|].
  change (holding (a :: l)) with (hold a + holding l). cbn [filter].
  specialize (IH (fun r H => Hok r (or_intror H))).
  destruct (r_closed a) eqn:E; cbn [negb length].
  - unfold hold. rewrite (Hok a (or_introl eq_refl) E). lia.
  - unfold hold. destruct (r_cur a) as [c|]; [destruct (cu_own c)|]; lia.
Qed.

Lemma sinit_counts m ps rgs : counts_inv (sinit m ps rgs).
Proof.
  unfold counts_inv, sinit. cbn [begun finalized rdrs]. split.
  - induction rgs as [|a l IH]; [reflexivity|]. cbn. unfold mk_rdr at 1. destruct (match a with Some x => x | None => _ end). cbn. exact IH.
  - intros r Hr. apply in_map_iff in Hr as (x & <- & _). unfold mk_rdr, rdr_ok.
    destruct (match x with Some y => y | None => _ end). cbn. discriminate.
Qed.

(* for every mode, store configuration, object, set of ranges, buffer size and EVERY schedule of reads, reads-to-end,
   closes (repeated ones too), deletes and worker passes: transactions begun = transactions finalized + those held by a
   reader's open part, never more than the readers that are not closed *)
Theorem stream_counts m stores bsz ps rgs ops :
  let s := fst (srun m stores bsz (sinit m ps rgs) ops) in
  begun s = finalized s + holding (rdrs s) /\
  holding (rdrs s) <= length (filter (fun r => negb (r_closed r)) (rdrs s)).
Proof.
  cbn zeta. destruct (srun_counts m stores bsz ops _ (sinit_counts m ps rgs)) as [H1 H2].
  split; [exact H1 | now apply holding_le_unclosed].
Qed.

(* ... and once every reader has been closed (here: by closing all of them after the schedule), begun = finalized *)
Theorem stream_quiescent m stores bsz ps rgs ops :
  let s := fst (srun m stores bsz (sinit m ps rgs) (ops ++ close_all (length rgs))) in
  begun s = finalized s.
Proof.
  cbn zeta.
  destruct (srun_counts m stores bsz (ops ++ close_all (length rgs)) _ (sinit_counts m ps rgs)) as [H1 H2].
  destruct (srun_shape m stores bsz (ops ++ close_all (length rgs)) (sinit m ps rgs)) as (L & _ & C).
  rewrite H1. rewrite holding_closed; [lia | exact H2 |].
  intros r Hr. apply In_nth with (d := dead_rdr) in Hr as (i & Hi & <-).
  apply C. apply in_or_app. right. unfold close_all. apply in_map. apply in_seq.
  rewrite L in Hi. unfold sinit in Hi. cbn [rdrs] in Hi. rewrite map_length in Hi. lia.
Qed.

(* ---------- the GetObject transaction in MTx mode IS the WithTxReadClosers machine of Model/TxReaders.v ---------- *)
Fixpoint amb_ops (ops : list sop) : list rop :=
  match ops with
  | [] => []
  | SC i :: t => Close i :: amb_ops t
  | _ :: t => amb_ops t
  end.

Lemma In_amb_ops i ops : In (Close i) (amb_ops ops) <-> In (SC i) ops.
Proof.
  induction ops as [|o t IH]; [tauto|]. destruct o; cbn; rewrite ?IH; try (split; [auto | intros [H|H]; [discriminate|auto]]).
  split; intros [H|H]; auto; inversion H; auto.
Qed.
Lemma amb_ops_valid n ops : (forall i, In (SC i) ops -> i < n) -> forall op, In op (amb_ops ops) -> op_index op < n.
Proof.
  intros H op Hin. induction ops as [|o t IH]; [destruct Hin|].
  destruct o; cbn in Hin; try (apply IH; [intros j Hj; apply H; now right | exact Hin]).
  destruct Hin as [<-|Hin]; [apply H; now left | apply IH; [intros j Hj; apply H; now right | exact Hin]].
Qed.

Lemma sstep_amb stores bsz s o :
  amb (fst (sstep MTx stores bsz s o)) = match o with SC i => fst (step true (amb s) (Close i)) | _ => amb s end.
Proof.
  destruct o; cbn [sstep].
  - destruct (read_once _ _ _ _ _ _ _ _) as [[[r res] bg] fn]. reflexivity.
  - destruct (read_all _ _ _ _ _ _ _ _ _ _) as [[[r res] bg] fn]. reflexivity.
  - destruct (close_rdr _ _) as [r fn]. reflexivity.
  - reflexivity.
  - reflexivity.
Qed.

Lemma srun_amb stores bsz : forall ops s,
  amb (fst (srun MTx stores bsz s ops)) = fst (run_ops true (amb s) (amb_ops ops)).
Proof.
  induction ops as [|o t IH]; intros s; [reflexivity|].
  rewrite srun_fst_cons, IH, sstep_amb. destruct o; try reflexivity.
  cbn [amb_ops]. now rewrite run_ops_cons_fst.
Qed.

Theorem stream_ambient_is_txreaders stores bsz ps rgs ops :
  amb (fst (srun MTx stores bsz (sinit MTx ps rgs) ops)) = final true (length rgs) (amb_ops ops).
Proof. rewrite srun_amb. reflexivity. Qed.

(* released exactly when every reader has been closed, exactly once *)
Theorem stream_release stores bsz ps rgs ops :
  0 < length rgs -> (forall i, In (SC i) ops -> i < length rgs) ->
  let s := fst (srun MTx stores bsz (sinit MTx ps rgs) ops) in
  (tx_done (amb s) = true <-> forall i, i < length rgs -> In (SC i) ops) /\
  rb_hooks (amb s) = (if tx_done (amb s) then 1 else 0) /\ rb_calls (amb s) <= 1.
Proof.
  intros Hn Hv. cbn zeta. rewrite stream_ambient_is_txreaders.
  destruct (fixed_full_stmt (length rgs) (amb_ops ops) Hn (amb_ops_valid _ _ Hv)) as (H1 & H2 & H3 & _).
  split; [|split; assumption].
  rewrite H1. split; intros H i Hi; [apply In_amb_ops | apply In_amb_ops]; auto.
Qed.

(* ---------- no read of any schedule fails for a transaction reason ---------- *)
Definition txdone_err (r : rres) : Prop := r = RErrS ETxDone \/ (exists t, r = RErrEnd ETxDone t).

Lemma open_no_txdone m done stores p len :
  m = MFree \/ done = false -> fst (fst (open_part m done stores p len)) <> inr ETxDone.
Proof.
  intros H. unfold open_part.
  destruct (nth (p_store p) stores SFs), m, done, (p_kind p); cbn; try discriminate; destruct H; discriminate.
Qed.

Lemma read_loop_no_txdone m done stores ps bsz : m = MFree \/ done = false -> forall fuel r bg fn,
  ~ txdone_err (snd (fst (fst (read_loop fuel m done stores ps bsz r bg fn)))).
Proof.
  intros Hm. induction fuel as [|f IH]; intros r bg fn; cbn [read_loop].
  - cbn. intros [H|[t H]]; discriminate.
  - destruct (r_cur r) as [c|].
    + destruct (cu_left c =? 0); [apply IH|]. cbn. intros [H|[t H]]; discriminate.
    + destruct (r_todo r) as [|pr rest]; [cbn; intros [H|[t H]]; discriminate|].
      pose proof (open_no_txdone m done stores
                    (nth (pr_part pr) ps {| p_store := 0; p_size := 0; p_kind := KGone |}) (pr_len pr) Hm) as Ho.
      destruct (open_part m done stores _ (pr_len pr)) as [[res db] df]. cbn [fst] in Ho.
      destruct res as [c|e]; [apply IH|]. cbn. intros [H|[t H]]; [|discriminate]. inversion H. subst. now apply Ho.
Qed.

Lemma read_once_no_txdone m done stores ps bsz r bg fn :
  (m = MFree \/ done = false) \/ r_closed r = true ->
  ~ txdone_err (snd (fst (fst (read_once m done stores ps bsz r bg fn)))).
Proof.
  intros H. unfold read_once. destruct (r_closed r) eqn:E; [cbn; intros [H1|[t H1]]; discriminate|].
  destruct H as [H|H]; [now apply read_loop_no_txdone | discriminate].
Qed.

Lemma read_all_no_txdone m done stores ps bsz : forall fuel r bg fn total,
  (m = MFree \/ done = false) \/ r_closed r = true ->
  ~ txdone_err (snd (fst (fst (read_all fuel m done stores ps bsz r bg fn total)))).
Proof.
  induction fuel as [|f IH]; intros r bg fn total H; cbn [read_all].
  - cbn. intros [H1|[t H1]]; discriminate.
  - pose proof (read_once_no_txdone m done stores ps bsz r bg fn H) as Ho.
    pose proof (read_once_counts m done stores ps bsz r bg fn) as Hc.
    destruct (read_once m done stores ps bsz r bg fn) as [[[r' res] bg'] fn']. cbn [fst snd] in Ho.
    destruct Hc as (_ & Hcl & _).
    destruct res; try (cbn; intros [H1|[t H1]]; discriminate).
    + apply IH. destruct H as [H|H]; [now left | right; congruence].
    + cbn. intros [H1|[t H1]]; [discriminate|]. inversion H1; subst. apply Ho. now left.
Qed.

Theorem stream_no_txdone stores bsz ps rgs pre o :
  0 < length rgs -> (forall i, In (SC i) pre -> i < length rgs) ->
  let m := decide stores in
  let s := fst (srun m stores bsz (sinit m ps rgs) pre) in
  ~ txdone_err (snd (sstep m stores bsz s o)).
Proof.
  intros Hn Hv. cbn zeta.
  set (m := decide stores). set (s := fst (srun m stores bsz (sinit m ps rgs) pre)).
  (* whenever the shared transaction is gone, every reader is closed *)
  assert (Hcl : (m = MFree \/ amb_is_done m s = false) \/ forall i, closed_at s i).
  { destruct m eqn:Em; [|left; now left]. cbn [amb_is_done].
    destruct (tx_done (amb s)) eqn:Ed; [|left; now right]. right.
    destruct (stream_release stores bsz ps rgs pre Hn Hv) as [H1 _]. fold s in H1.
    pose proof (proj1 H1 Ed) as Hall.
    destruct (srun_shape MTx stores bsz pre (sinit MTx ps rgs)) as (L & _ & C). fold s in L, C.
    intros i. destruct (Nat.lt_ge_cases i (length rgs)) as [Hi|Hi]; [apply C, Hall, Hi|].
    unfold closed_at. rewrite nth_overflow; [reflexivity|].
    rewrite L. unfold sinit. cbn [rdrs]. now rewrite map_length. }
  destruct o; cbn [sstep].
  - pose proof (read_once_no_txdone m (amb_is_done m s) stores (parts s) bsz (nth i (rdrs s) dead_rdr) (begun s) (finalized s)) as H.
    destruct (read_once _ _ _ _ _ _ _ _) as [[[r res] bg] fn]. apply H.
    destruct Hcl as [Hc|Hc]; [now left | right; apply Hc].
  - pose proof (read_all_no_txdone m (amb_is_done m s) stores (parts s) bsz
                  (todo_bytes (nth i (rdrs s) dead_rdr) + read_fuel (nth i (rdrs s) dead_rdr) + 2)
                  (nth i (rdrs s) dead_rdr) (begun s) (finalized s) 0) as H.
    destruct (read_all _ _ _ _ _ _ _ _ _ _) as [[[r res] bg] fn]. apply H.
    destruct Hcl as [Hc|Hc]; [now left | right; apply Hc].
  - destruct (close_rdr _ _) as [r fn]. destruct m; cbn; intros [H|[t H]]; discriminate.
  - cbn; intros [H|[t H]]; discriminate.
  - cbn; intros [H|[t H]]; discriminate.
Qed.

(* what an unsound decision looks like (deciding from the default store alone): default filesystem, a class routed to
   the SQL store, object there: the first Read dereferences a nil transaction *)
Definition decide_default_only (stores : list skind) : mode :=
  match stores with k :: _ => if txfree k then MFree else MTx | [] => MFree end.
Lemma default_only_unsound :
  let stores := [SFs; SSql] in
  let m := decide_default_only stores in
  snd (sstep m stores 4 (sinit m (mk_parts 1 false [8] 0) [None]) (SR 0)) = RErrS ENilTx.
Proof. reflexivity. Qed.
