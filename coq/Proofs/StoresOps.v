(* Proofs/StoresOps.v — every storage operation of Model/MetaGcStores.v (put, append in place / as a new version,
   copy, cross-store transition, delete, multipart upload / upload-part-copy / complete / abort) preserves the
   invariant SInv D for every set D of dead ids. *)
From Coq Require Import Lia ZifyBool ZifyN ZifyNat.
From Verif Require Import Bytes Codec MetaGc MetaGcStores StoresBasics StoresBlocks.

Definition occn (x : N) (ids : list N) : N := N.of_nat (length (filter (N.eqb x) ids)).
Definition pre_ids (rs : list (srow * bool)) : list N := map (fun rp => r_id (fst rp)) (filter (fun rp => snd rp) rs).
Definition new_ids (rs : list (srow * bool)) : list N := map (fun rp => r_id (fst rp)) (filter (fun rp => negb (snd rp)) rs).

Lemma renumber_ids h : forall rs i, pre_ids (renumber h i rs) = pre_ids rs /\ new_ids (renumber h i rs) = new_ids rs.
Proof.
  induction rs as [|[r pre] rs IH]; intros i; [auto|].
  destruct (IH (i + 1)%N) as [A B]. unfold pre_ids, new_ids in *. cbn. destruct pre; cbn; split; congruence.
Qed.

(* savePartRows over the rows prepared by an operation: the pre-acquired references are exactly consumed, the
   fresh ids are exactly registered *)
Lemma add_rows_consume D : forall rs s,
  PI D s (fun x => occn x (pre_ids rs)) (fun x => In x (new_ids rs)) ->
  NoDup (new_ids rs) ->
  (forall r pre, In (r, pre) rs -> bget (blobs s) (r_store r, r_id r) = Some (r_cont r)) ->
  SInv D (add_rows s rs).
Proof.
  unfold add_rows. induction rs as [|[r pre] rs IH]; intros s H Hnd Hb; cbn [fold_left].
  - eapply PI_ext; [| |exact H]; [reflexivity|]. intros x. cbn. unfold none_new. tauto.
  - cbn [fst snd]. destruct (add_row_frame s r pre) as (Fb & Fn & Fh & Fi).
    assert (forall r0 pre0, In (r0, pre0) rs -> bget (blobs (add_row s r pre)) (r_store r0, r_id r0) = Some (r_cont r0)) as Hb'
      by (intros; rewrite Fb; eapply Hb; right; eauto).
    destruct pre.
    + apply IH; auto.
      eapply PI_ext; [| |apply (add_row_pre_PI D s _ _ r H)].
      * intros x. unfold unbump, occn, pre_ids. cbn [filter snd map fst]. destruct (N.eqb_spec x (r_id r)); cbn [length]; lia.
      * unfold new_ids. cbn. tauto.
      * unfold occn, pre_ids. cbn. rewrite N.eqb_refl. cbn. lia.
      * apply (Hb r true). now left.
    + unfold new_ids in Hnd. cbn in Hnd. inversion Hnd as [|? ? Hnin Hnd']. subst.
      destruct (pi_new _ _ _ _ H (r_id r)) as (_ & HnD & Hlt); [unfold new_ids; cbn; now left|].
      apply IH; auto.
      eapply PI_ext; [| |apply (add_row_new_PI D s _ _ r H HnD Hlt)].
      * intros x. unfold occn, pre_ids. cbn. reflexivity.
      * intros x. unfold new_ids. cbn. split.
        -- intros [[Heq|Hin] Hne]; [congruence|exact Hin].
        -- intros Hin. split; [now right|]. intros ->. contradiction.
      * apply (Hb r false). now left.
Qed.

Lemma add_rows_holds s rs : holds (add_rows s rs) = holds s.
Proof.
  unfold add_rows. revert s. induction rs as [|[r pre] rs IH]; intros s; cbn; auto.
  rewrite IH. now destruct (add_row_frame s r pre) as (_ & _ & ? & _).
Qed.

(* ---- one fresh part written into a holder (PutObject, UploadPart, AppendObject in place, UploadPartCopy with
   a byte copy): alloc; dedupe; optionally remove the rows it replaces; save the row ---- *)
Definition write_part (s : sst) (st : N) (c : bytes) (sel : option (srow -> bool)) (h slot : N) : sst :=
  let '(id, s) := alloc s st c in
  let '(s, id', pre) := dedupe s st c id in
  let s := match sel with Some f => drop_rows s f | None => s end in
  add_row s {| r_h := h; r_slot := slot; r_id := id'; r_store := st; r_cont := c |} pre.

Lemma write_part_SInv D s st c sel h slot : SInv D s -> SInv D (write_part s st c sel h slot).
Proof.
  intros H. unfold write_part.
  destruct (alloc_PI D s zero_e none_new st c H) as (Ha & Hba & Hka).
  pose proof (PI_fresh _ _ _ _ H) as (Hc & He & Hr & HD & Hn & Hi & Hb).
  assert (fresh_in D (snd (alloc s st c)) zero_e (nextp s)) as Hf.
  { repeat split; auto; cbn; try lia. }
  change (alloc s st c) with (nextp s, snd (alloc s st c)). cbn iota beta.
  remember (snd (alloc s st c)) as s1 eqn:Es1.
  pose proof (dedupe_PI D s1 zero_e none_new st c (nextp s) Ha Hf Hba) as Hd.
  destruct (dedupe s1 st c (nextp s)) as [[s2 id'] pre].
  destruct Hd as (Hb2 & Hr2 & Hn2 & Hh2 & Hk2 & Hpre & Hnew).
  set (row := {| r_h := h; r_slot := slot; r_id := id'; r_store := st; r_cont := c |}).
  destruct pre.
  - specialize (Hpre eq_refl).
    assert (exists s3, s3 = match sel with Some f => drop_rows s2 f | None => s2 end
                       /\ PI D s3 (bump zero_e id') none_new /\ bget (blobs s3) (st, id') = Some c) as (s3 & -> & H3 & Hb3).
    { eexists. split; [reflexivity|]. destruct sel as [f|]; [|auto].
      destruct (drop_rows_PI D s2 _ _ f Hpre) as (Hp & _ & _ & _ & Hk). cbn zeta in *. split; auto.
      rewrite Hk; auto. left. cbn. unfold bump. rewrite N.eqb_refl. unfold zero_e. lia. }
    eapply PI_ext; [| |apply (add_row_pre_PI D _ _ _ row H3)]; auto.
    + intros x. unfold unbump, bump, zero_e. cbn. destruct (N.eqb x id'); lia.
    + tauto.
    + cbn. unfold bump. rewrite N.eqb_refl. unfold zero_e. lia.
  - destruct (Hnew eq_refl) as [-> Hpn].
    assert (exists s3, s3 = match sel with Some f => drop_rows s2 f | None => s2 end
                       /\ PI D s3 zero_e (fun x => none_new x \/ x = nextp s) /\ bget (blobs s3) (st, nextp s) = Some c
                       /\ nextp s3 = nextp s2) as (s3 & -> & H3 & Hb3 & Hn3).
    { eexists. split; [reflexivity|]. destruct sel as [f|]; [|auto].
      destruct (drop_rows_PI D s2 _ _ f Hpn) as (Hp & _ & Hnn & _ & Hk). cbn zeta in *. split; auto. split; auto.
      rewrite Hk; auto. right. cbn. apply (pi_new _ _ _ _ Hpn). now right. }
    destruct (pi_new _ _ _ _ H3 (nextp s)) as (_ & HnD & Hlt); [now right|].
    eapply PI_ext; [| |apply (add_row_new_PI D _ _ _ row H3)]; auto.
    unfold none_new. cbn. intros x. split; [intros [[[]|Hx] Hne]; congruence|tauto].
Qed.

Lemma set_hold_SInv D s x : SInv D s -> SInv D (set_hold s x).
Proof. apply PI_holds. Qed.
Lemma del_hold_SInv D s h : SInv D s -> SInv D (del_hold s h).
Proof. apply PI_holds. Qed.

Lemma q_put_SInv D s x c : SInv D s -> SInv D (q_put s x c).
Proof.
  intros H. unfold q_put.
  pose proof (write_part_SInv D s (h_cs x) c (Some (fun r => N.eqb (r_h r) (h_id x))) (h_id x) 0 H) as Hw.
  unfold write_part in Hw. destruct (alloc s (h_cs x) c) as [id s1].
  destruct (dedupe s1 (h_cs x) c id) as [[s2 id'] pre]. now apply set_hold_SInv.
Qed.

Lemma q_append_inplace_SInv D s h c : SInv D s -> SInv D (q_append_inplace s h c).
Proof.
  intros H. unfold q_append_inplace.
  set (x := match find_hold s h with Some x => x | None => _ end).
  destruct (alloc s (h_cs x) c) as [id s1] eqn:Ea.
  destruct (dedupe s1 (h_cs x) c id) as [[s2 id'] pre] eqn:Ed.
  apply set_hold_SInv.
  pose proof (write_part_SInv D s (h_cs x) c None h
                (match rev (rows_of s2 h) with [] => 0%N | l :: _ => (r_slot l + 1)%N end) H) as Hw.
  unfold write_part in Hw. rewrite Ea, Ed in Hw. exact Hw.
Qed.

Lemma q_upload_SInv D s m pn c : SInv D s -> SInv D (fst (q_upload s m pn c)).
Proof.
  intros H. unfold q_upload. destruct (find_hold s m) as [x|]; [|exact H].
  destruct (h_pend x); cbn [negb]; [|exact H].
  pose proof (write_part_SInv D s (h_cs x) c (Some (fun r => N.eqb (r_h r) m && N.eqb (r_slot r) pn)) m pn H) as Hw.
  unfold write_part in Hw. destruct (alloc s (h_cs x) c) as [id s1].
  destruct (dedupe s1 (h_cs x) c id) as [[s2 id'] pre]. exact Hw.
Qed.

(* ---- DeleteObject / AbortMultipartUpload ---- *)
Lemma q_drop_SInv D s h : SInv D s -> SInv D (q_drop s h).
Proof.
  intros H. unfold q_drop. apply del_hold_SInv.
  now destruct (drop_rows_PI D s _ _ (fun r => N.eqb (r_h r) h) H) as (Hp & _).
Qed.

(* ---- rows prepared by copy / transition ---- *)
Lemma occn_cons x y l : occn x (y :: l) = ((if N.eqb x y then 1 else 0) + occn x l)%N.
Proof. unfold occn. cbn. destruct (N.eqb x y); cbn [length]; [rewrite Nat2N.inj_succ|]; lia. Qed.
Lemma occn_In x l : In x l -> occn x l <> 0%N.
Proof.
  intros Hin. unfold occn. assert (In x (filter (N.eqb x) l)) as H by (apply filter_In; split; auto; apply N.eqb_refl).
  destruct (filter _ l); [contradiction|cbn; lia].
Qed.
Lemma addocc_occn e ids x : addocc e ids x = (e x + occn x ids)%N. Proof. reflexivity. Qed.

Lemma pre_ids_cons_true r rs : pre_ids ((r, true) :: rs) = r_id r :: pre_ids rs. Proof. reflexivity. Qed.
Lemma pre_ids_cons_false r rs : pre_ids ((r, false) :: rs) = pre_ids rs. Proof. reflexivity. Qed.
Lemma new_ids_cons_true r rs : new_ids ((r, true) :: rs) = new_ids rs. Proof. reflexivity. Qed.
Lemma new_ids_cons_false r rs : new_ids ((r, false) :: rs) = r_id r :: new_ids rs. Proof. reflexivity. Qed.

Lemma idx_add_PI D s e nw st c id : PI D s e nw -> bget (blobs s) (st, id) = Some c ->
  (rget (reg s) id <> None \/ nw id) -> ~ D id -> PI D (w_idx s (((st, c), id) :: idx s)) e nw.
Proof.
  intros [H1 H2 H3 H4 H5 H6 H7] Hb Hr Hd. constructor; cbn [w_idx reg rows blobs idx nextp]; auto.
  - intros st0 c0 x [Heq|Hin]; [inversion Heq; subst; auto|eauto].
  - intros x Hx. destruct (H7 _ Hx) as (a & b & Hi & d). repeat split; auto.
    intros k [Heq|Hin]; [inversion Heq; subst; contradiction|eapply Hi; eauto].
Qed.
Lemma idx_shrink_PI D s e nw x : PI D s e nw -> PI D (w_idx s (idel_id (idx s) x)) e nw.
Proof.
  intros [H1 H2 H3 H4 H5 H6 H7]. constructor; cbn [w_idx reg rows blobs idx nextp]; auto.
  - intros st c id Hin. unfold idel_id in Hin. apply filter_In in Hin. destruct Hin. eauto.
  - intros id Hid. destruct (H7 _ Hid) as (a & b & Hi & d). repeat split; auto.
    intros k Hin. unfold idel_id in Hin. apply filter_In in Hin. destruct Hin. eapply Hi; eauto.
Qed.

Definition Prepared (D : N -> Prop) (s s' : sst) (e e' : N -> N) (nw nw' : N -> Prop)
           (rs : list (srow * bool)) (shared : list N) : Prop :=
  PI D s' e' nw' /\ rows s' = rows s /\ holds s' = holds s /\ (nextp s <= nextp s')%N
  /\ (forall k, bget (blobs s) k <> None -> bget (blobs s') k = bget (blobs s) k)
  /\ (forall x, (e' x + occn x shared = e x + occn x (pre_ids rs))%N)
  /\ (forall x, nw' x <-> nw x \/ In x (new_ids rs))
  /\ NoDup (new_ids rs) /\ (forall x, In x (new_ids rs) -> (nextp s <= x)%N)
  /\ (forall r pre, In (r, pre) rs -> bget (blobs s') (r_store r, r_id r) = Some (r_cont r)).

Lemma Prepared_intro D s s' e e' nw nw' rs shared :
  PI D s' e' nw' -> rows s' = rows s -> holds s' = holds s -> (nextp s <= nextp s')%N ->
  (forall k, bget (blobs s) k <> None -> bget (blobs s') k = bget (blobs s) k) ->
  (forall x, (e' x + occn x shared = e x + occn x (pre_ids rs))%N) ->
  (forall x, nw' x <-> nw x \/ In x (new_ids rs)) ->
  NoDup (new_ids rs) -> (forall x, In x (new_ids rs) -> (nextp s <= x)%N) ->
  (forall r pre, In (r, pre) rs -> bget (blobs s') (r_store r, r_id r) = Some (r_cont r)) ->
  Prepared D s s' e e' nw nw' rs shared.
Proof. unfold Prepared. tauto. Qed.

(* one cross-store part copied under a fresh id (shared by copy_parts and move_parts) *)
Lemma alloc_new_PI D s e nw st c : PI D s e nw ->
  let s1 := snd (alloc s st c) in
  PI D s1 e (fun x => nw x \/ x = nextp s)
  /\ bget (blobs s1) (st, nextp s) = Some c
  /\ (forall k, bget (blobs s) k <> None -> bget (blobs s1) k = bget (blobs s) k)
  /\ rows s1 = rows s /\ holds s1 = holds s /\ nextp s1 = (nextp s + 1)%N /\ ~ D (nextp s) /\ ~ nw (nextp s).
Proof.
  intros H. cbn zeta. destruct (alloc_PI D s e nw st c H) as (Ha & Hb & Hk).
  pose proof (PI_fresh _ _ _ _ H) as (Hc & He & Hr & HD & Hn & Hi & Hbl).
  split; [|split; auto; split; [|cbn; repeat split; auto]].
  - apply mark_new; auto; cbn; try lia.
  - intros k Hk0. apply Hk. intros Heq. destruct k as [st0 id0]. cbn in Heq. subst. now rewrite Hbl in Hk0.
Qed.

Lemma move_parts_PI D dst : forall ps s e nw s' rs shared,
  PI D s e nw ->
  (forall p, In p ps -> bget (blobs s) (r_store p, r_id p) = Some (r_cont p)) ->
  move_parts s dst ps = Some (s', rs, shared) ->
  exists e' nw', Prepared D s s' e e' nw nw' rs shared.
Proof.
  induction ps as [|p ps IH]; intros s e nw s' rs shared H Hsrc Hm; cbn [move_parts] in Hm.
  - inversion Hm. subst. exists e, nw. apply Prepared_intro; auto; try lia; try constructor; try (cbn; intros; try tauto; contradiction).
  - destruct (N.eqb_spec (r_store p) dst) as [Hst|Hst].
    + destruct (move_parts s dst ps) as [[[s1 rs1] sh1]|] eqn:Em; [|discriminate]. inversion Hm. subst s' rs shared.
      destruct (IH _ _ _ _ _ _ H ltac:(intros; apply Hsrc; now right) Em) as (e' & nw' & P1 & P2 & P3 & P4 & P5 & P6 & P7 & P8 & P9 & P10).
      exists e', nw'. apply Prepared_intro; auto.
      * intros x. rewrite pre_ids_cons_true, !occn_cons. specialize (P6 x). lia.
      * intros r pre [Heq|Hin]; [inversion Heq; subst|eauto].
        rewrite P5; [apply Hsrc; now left|]. rewrite (Hsrc r); [discriminate|now left].
    + destruct (bget (blobs s) (r_store p, r_id p)) as [c|] eqn:Eb; [|discriminate].
      assert (c = r_cont p) as -> by (rewrite (Hsrc p) in Eb; [congruence|now left]).
      destruct (alloc_new_PI D s e nw dst (r_cont p) H) as (A1 & A2 & A3 & A4 & A5 & A6 & A7 & A8). cbn zeta in *.
      change (alloc s dst (r_cont p)) with (nextp s, snd (alloc s dst (r_cont p))) in Hm. cbn iota beta in Hm.
      remember (snd (alloc s dst (r_cont p))) as s1.
      destruct (move_parts s1 dst ps) as [[[s2 rs1] sh1]|] eqn:Em; [|discriminate]. inversion Hm. subst s' rs shared.
      destruct (IH _ _ _ _ _ _ A1 ltac:(intros q Hq; rewrite A3; [apply Hsrc; now right|rewrite (Hsrc q); [discriminate|now right]]) Em)
        as (e' & nw' & P1 & P2 & P3 & P4 & P5 & P6 & P7 & P8 & P9 & P10).
      exists e', nw'. apply Prepared_intro; auto; try congruence; try lia.
      * intros k Hk. rewrite P5; [now apply A3|]. rewrite A3; auto.
      * intros y. rewrite new_ids_cons_false. rewrite P7. cbn. intuition (subst; auto).
      * rewrite new_ids_cons_false. constructor; auto. cbn. intros Hin. apply P9 in Hin. lia.
      * rewrite new_ids_cons_false. intros y [<-|Hin]; cbn; [lia|]. apply P9 in Hin. lia.
      * intros r pre [Heq|Hin]; [inversion Heq; subst; cbn|eauto].
        rewrite P5; [exact A2|]. rewrite A2. discriminate.
Qed.

Lemma copy_parts_PI D dst : forall ps s e nw s' rs shared,
  PI D s e nw ->
  (forall p, In p ps -> bget (blobs s) (r_store p, r_id p) = Some (r_cont p)) ->
  copy_parts s dst ps = Some (s', rs, shared) ->
  exists e' nw', Prepared D s s' e e' nw nw' rs shared.
Proof.
  induction ps as [|p ps IH]; intros s e nw s' rs shared H Hsrc Hm; cbn [copy_parts] in Hm.
  - inversion Hm. subst. exists e, nw. apply Prepared_intro; auto; try lia; try constructor; try (cbn; intros; try tauto; contradiction).
  - (* the fresh-copy branch, common to "no index entry" and "stale index entry" *)
    assert (forall s0, PI D s0 e nw -> rows s0 = rows s -> holds s0 = holds s -> nextp s0 = nextp s -> blobs s0 = blobs s ->
              match bget (blobs s0) (r_store p, r_id p) with
              | None => None
              | Some c =>
                  let '(id, s1) := alloc s0 dst c in
                  let s1 := w_idx s1 (((dst, r_cont p), id) :: idx s1) in
                  match copy_parts s1 dst ps with
                  | Some (s', rs, shared) =>
                      Some (s', ({| r_h := 0; r_slot := 0; r_id := id; r_store := dst; r_cont := r_cont p |}, false) :: rs, shared)
                  | None => None
                  end
              end = Some (s', rs, shared) ->
              exists e' nw', Prepared D s s' e e' nw nw' rs shared) as Hfresh.
    { intros s0 H0 Er Eh En Ebl Hm0. rewrite Ebl in Hm0.
      destruct (bget (blobs s) (r_store p, r_id p)) as [c|] eqn:Eb; [|discriminate].
      assert (c = r_cont p) as -> by (rewrite (Hsrc p) in Eb; [congruence|now left]).
      destruct (alloc_new_PI D s0 e nw dst (r_cont p) H0) as (A1 & A2 & A3 & A4 & A5 & A6 & A7 & A8). cbn zeta in *.
      change (alloc s0 dst (r_cont p)) with (nextp s0, snd (alloc s0 dst (r_cont p))) in Hm0. cbn iota beta in Hm0.
      remember (snd (alloc s0 dst (r_cont p))) as s1.
      assert (PI D (w_idx s1 (((dst, r_cont p), nextp s0) :: idx s1)) e (fun x => nw x \/ x = nextp s0)) as A1'
        by (apply idx_add_PI; auto).
      destruct (copy_parts (w_idx s1 (((dst, r_cont p), nextp s0) :: idx s1)) dst ps) as [[[s2 rs1] sh1]|] eqn:Em; [|discriminate].
      inversion Hm0. subst s' rs shared.
      destruct (IH _ _ _ _ _ _ A1' ltac:(intros q Hq; cbn [w_idx blobs]; rewrite A3, Ebl; [apply Hsrc; now right|rewrite Ebl, (Hsrc q); [discriminate|now right]]) Em)
        as (e' & nw' & P1 & P2 & P3 & P4 & P5 & P6 & P7 & P8 & P9 & P10). cbn [w_idx blobs rows holds nextp] in *.
      exists e', nw'. apply Prepared_intro; auto; try congruence; try lia.
      * intros k Hk. rewrite P5; [rewrite A3; congruence|]. rewrite A3; congruence.
      * intros y. rewrite new_ids_cons_false. rewrite P7. cbn. intuition (subst; auto).
      * rewrite new_ids_cons_false. constructor; auto. cbn. intros Hin. apply P9 in Hin. lia.
      * rewrite new_ids_cons_false. intros y [<-|Hin]; cbn; [lia|]. apply P9 in Hin. lia.
      * intros r pre [Heq|Hin]; [inversion Heq; subst; cbn|eauto].
        rewrite P5; [exact A2|]. rewrite A2. discriminate. }
    destruct (N.eqb_spec (r_store p) dst) as [Hst|Hst].
    + destruct (copy_parts s dst ps) as [[[s1 rs1] sh1]|] eqn:Em; [|discriminate]. inversion Hm. subst s' rs shared.
      destruct (IH _ _ _ _ _ _ H ltac:(intros; apply Hsrc; now right) Em) as (e' & nw' & P1 & P2 & P3 & P4 & P5 & P6 & P7 & P8 & P9 & P10).
      exists e', nw'. apply Prepared_intro; auto.
      * intros x. rewrite pre_ids_cons_true, !occn_cons. specialize (P6 x). lia.
      * intros r pre [Heq|Hin]; [inversion Heq; subst|eauto].
        rewrite P5; [apply Hsrc; now left|]. rewrite (Hsrc r); [discriminate|now left].
    + destruct (iget (idx s) (dst, r_cont p)) as [e0|] eqn:Ei.
      * apply iget_In in Ei. destruct (pi_idx _ _ _ _ H _ _ _ Ei) as [Hbe _].
        destruct (live s e0) eqn:Hl.
        -- (* shared through the destination store's dedup index *)
           pose proof (addref_PI D s e nw e0 Hl H) as Ha. destruct (addref_blobs s e0) as (Ab & Ar & Aidx & An & Ah).
           destruct (copy_parts (addref s e0) dst ps) as [[[s1 rs1] sh1]|] eqn:Em; [|discriminate]. inversion Hm. subst s' rs shared.
           destruct (IH _ _ _ _ _ _ Ha ltac:(intros q Hq; rewrite Ab; apply Hsrc; now right) Em)
             as (e' & nw' & P1 & P2 & P3 & P4 & P5 & P6 & P7 & P8 & P9 & P10).
           exists e', nw'. apply Prepared_intro; auto; try congruence; try lia.
           ++ intros k Hk. rewrite P5; rewrite Ab; auto.
           ++ intros y. rewrite pre_ids_cons_true, occn_cons. specialize (P6 y). unfold bump in P6. cbn [fst r_id].
              destruct (N.eqb y e0); lia.
           ++ rewrite new_ids_cons_true. intros y Hy. apply P9 in Hy. lia.
           ++ intros r pre [Heq|Hin]; [inversion Heq; subst; cbn|eauto].
              rewrite P5; rewrite Ab; [exact Hbe|]. rewrite Hbe. discriminate.
        -- (* stale entry removed, then a fresh copy *)
           apply (Hfresh (w_idx s (idel_id (idx s) e0))); auto. now apply idx_shrink_PI.
      * apply (Hfresh s); auto.
Qed.

Lemma renumber_In h : forall rs i r pre, In (r, pre) (renumber h i rs) ->
  exists r0, In (r0, pre) rs /\ r_id r = r_id r0 /\ r_store r = r_store r0 /\ r_cont r = r_cont r0.
Proof.
  induction rs as [|[r0 pre0] rs IH]; intros i r pre Hin; cbn in Hin; [contradiction|].
  destruct Hin as [Heq|Hin].
  - inversion Heq. subst. exists r0. cbn. auto.
  - destruct (IH _ _ _ Hin) as [r1 [? ?]]. exists r1. split; auto. now right.
Qed.

(* after the preparation: TryAddPartReferences for the parts that stay, removal of the rows that are replaced,
   savePartRows of the prepared rows *)
Lemma finish_SInv D s s' e' nw' rs shared sel h i :
  Prepared D s s' zero_e e' none_new nw' rs shared -> all_live s' shared = true ->
  SInv D (add_rows (drop_rows (addrefs s' shared) sel) (renumber h i rs)).
Proof.
  intros (P1 & P2 & P3 & P4 & P5 & P6 & P7 & P8 & P9 & P10) Hl.
  pose proof (addrefs_PI D shared s' e' nw' Hl P1) as Ha.
  destruct (addrefs_frame shared s') as (Fb & Fr & Fi & Fn & Fh).
  destruct (drop_rows_PI D _ _ _ sel Ha) as (Hd & _ & _ & _ & Hk). cbn zeta in *.
  destruct (renumber_ids h rs i) as [Rp Rn].
  apply add_rows_consume.
  - rewrite Rp, Rn. eapply PI_ext; [| |exact Hd].
    + intros x. rewrite addocc_occn. specialize (P6 x). unfold zero_e in P6. lia.
    + intros x. rewrite P7. unfold none_new. tauto.
  - now rewrite Rn.
  - intros r pre Hin. destruct (renumber_In _ _ _ _ _ Hin) as (r0 & Hin0 & E1 & E2 & E3).
    rewrite E1, E2, E3. rewrite Hk; [rewrite Fb; eauto|].
    cbn [snd]. destruct pre.
    + left. rewrite addocc_occn. specialize (P6 (r_id r0)). unfold zero_e in P6.
      assert (occn (r_id r0) (pre_ids rs) <> 0%N); [|lia].
      apply occn_In. unfold pre_ids. apply in_map_iff. exists (r0, true). split; auto. apply filter_In. auto.
    + right. apply (pi_new _ _ _ _ Ha). apply P7. right. unfold new_ids. apply in_map_iff. exists (r0, false).
      split; auto. apply filter_In. auto.
Qed.

Lemma In_ins_row q p l : In q (ins_row p l) -> q = p \/ In q l.
Proof. induction l as [|x l IH]; cbn; [intuition|]. destruct (r_slot p <=? r_slot x)%N; cbn; intuition. Qed.
Lemma In_sort_rows q l : In q (sort_rows l) -> In q l.
Proof. unfold sort_rows. induction l as [|x l IH]; cbn; auto. intros H. apply In_ins_row in H. intuition. Qed.
Lemma rows_of_In s h q : In q (rows_of s h) -> In q (rows s).
Proof. unfold rows_of. intros H. apply In_sort_rows in H. apply filter_In in H. tauto. Qed.

Lemma q_transition_SInv D s h dst : SInv D s -> SInv D (fst (q_transition s h dst)).
Proof.
  intros H. unfold q_transition. destruct (find_hold s h) as [x|]; [|exact H].
  destruct (h_pend x); [exact H|].
  destruct (move_parts s dst (rows_of s h)) as [[[s1 rs] shared]|] eqn:Em; [|exact H].
  destruct (move_parts_PI D dst _ _ _ _ _ _ _ H
              ltac:(intros p Hp; apply (pi_present _ _ _ _ H); eapply rows_of_In; eauto) Em) as (e' & nw' & HP).
  destruct (all_live s1 shared) eqn:Hl; cbn [negb fst]; [|exact H].
  apply set_hold_SInv. eapply finish_SInv; eauto.
Qed.

Lemma q_copy_SInv D s src dst : SInv D s -> SInv D (fst (q_copy s src dst)).
Proof.
  intros H. unfold q_copy. destruct (find_hold s src) as [x|]; [|exact H].
  destruct (h_pend x); [exact H|].
  destruct (copy_parts s (h_cs dst) (rows_of s src)) as [[[s1 rs] shared]|] eqn:Em; [|exact H].
  destruct (copy_parts_PI D (h_cs dst) _ _ _ _ _ _ _ H
              ltac:(intros p Hp; apply (pi_present _ _ _ _ H); eapply rows_of_In; eauto) Em) as (e' & nw' & HP).
  destruct (all_live s1 shared) eqn:Hl; cbn [negb fst]; [|exact H].
  apply set_hold_SInv. eapply finish_SInv; eauto.
Qed.

(* ---- AppendObject as a new version: the old parts are shared, one fresh part is added ---- *)
Lemma pre_ids_app a b : pre_ids (a ++ b) = pre_ids a ++ pre_ids b.
Proof. unfold pre_ids. now rewrite filter_app, map_app. Qed.
Lemma new_ids_app a b : new_ids (a ++ b) = new_ids a ++ new_ids b.
Proof. unfold new_ids. now rewrite filter_app, map_app. Qed.
Lemma pre_ids_all_true l : pre_ids (map (fun r => (r, true)) l) = map r_id l.
Proof. unfold pre_ids. induction l; cbn; congruence. Qed.
Lemma new_ids_all_true l : new_ids (map (fun r => (r, true)) l) = [].
Proof. unfold new_ids. induction l; cbn; auto. Qed.
Lemma occn_app x a b : occn x (a ++ b) = (occn x a + occn x b)%N.
Proof. unfold occn. now rewrite filter_app, app_length, Nat2N.inj_add. Qed.

Lemma finish_nodrop_SInv D s2 rs h i :
  PI D s2 (fun x => occn x (pre_ids rs)) (fun x => In x (new_ids rs)) -> NoDup (new_ids rs) ->
  (forall r pre, In (r, pre) rs -> bget (blobs s2) (r_store r, r_id r) = Some (r_cont r)) ->
  SInv D (add_rows s2 (renumber h i rs)).
Proof.
  intros H Hnd Hb. destruct (renumber_ids h rs i) as [Rp Rn]. apply add_rows_consume.
  - now rewrite Rp, Rn.
  - now rewrite Rn.
  - intros r pre Hin. destruct (renumber_In _ _ _ _ _ Hin) as (r0 & Hin0 & E1 & E2 & E3). rewrite E1, E2, E3. eauto.
Qed.

Lemma q_append_version_SInv D s src dst c :
  SInv D s -> SInv D (fst (q_append_version s src dst c)).
Proof.
  intros H. unfold q_append_version.
  set (st := match src with Some x => h_cs x | None => 0%N end).
  destruct (alloc_PI D s zero_e none_new st c H) as (Ha & Hba & Hka).
  pose proof (PI_fresh _ _ _ _ H) as (Hc & He & Hr & HD & Hn & Hi & Hb).
  assert (fresh_in D (snd (alloc s st c)) zero_e (nextp s)) as Hf by (repeat split; auto; cbn; try lia).
  change (alloc s st c) with (nextp s, snd (alloc s st c)). cbn iota beta.
  remember (snd (alloc s st c)) as s1 eqn:Es1.
  pose proof (dedupe_PI D s1 zero_e none_new st c (nextp s) Ha Hf Hba) as Hd.
  destruct (dedupe s1 st c (nextp s)) as [[s2 id'] pre].
  destruct Hd as (Hb2 & Hr2 & Hn2 & Hh2 & Hk2 & Hpre & Hnew).
  set (old := match src with Some x => rows_of s2 (h_id x) | None => [] end).
  assert (forall r, In r old -> In r (rows s)) as Hold.
  { intros r Hin. unfold old in Hin. destruct src; [|contradiction]. apply rows_of_In in Hin. rewrite Hr2, Es1 in Hin. exact Hin. }
  assert (forall r, In r old -> bget (blobs s2) (r_store r, r_id r) = Some (r_cont r)) as Holdb.
  { intros r Hin. pose proof (Hold r Hin) as Hin'. rewrite Hk2.
    - rewrite Hka; [now apply (pi_present _ _ _ _ H)|]. cbn. pose proof (PI_row_bound _ _ _ _ _ H Hin'). lia.
    - cbn. pose proof (PI_row_bound _ _ _ _ _ H Hin'). lia. }
  destruct (all_live s2 (map r_id old)) eqn:Hl; cbn [negb fst]; [|exact H].
  apply set_hold_SInv.
  set (frow := {| r_h := 0; r_slot := 0; r_id := id'; r_store := st; r_cont := c |}).
  destruct (addrefs_frame (map r_id old) s2) as (Fb & Fr & Fi & Fn & Fh).
  apply finish_nodrop_SInv.
  - rewrite pre_ids_app, new_ids_app, pre_ids_all_true, new_ids_all_true. destruct pre.
    + pose proof (addrefs_PI D (map r_id old) s2 _ _ Hl (Hpre eq_refl)) as Hp.
      eapply PI_ext; [| |exact Hp].
      * intros x. rewrite addocc_occn, occn_app. unfold pre_ids, bump, zero_e. cbn. rewrite occn_cons.
        change (occn x []) with 0%N. destruct (N.eqb x id'); lia.
      * unfold new_ids, none_new. cbn. tauto.
    + destruct (Hnew eq_refl) as [-> Hpn].
      pose proof (addrefs_PI D (map r_id old) s2 _ _ Hl Hpn) as Hp.
      eapply PI_ext; [| |exact Hp].
      * intros x. rewrite addocc_occn, occn_app. unfold pre_ids, zero_e. cbn. change (occn x []) with 0%N. lia.
      * unfold new_ids, none_new. cbn. intuition.
  - rewrite new_ids_app, new_ids_all_true. unfold new_ids. destruct pre; cbn; repeat constructor; auto.
  - intros r p Hin. rewrite Fb. apply in_app_or in Hin. destruct Hin as [Hin|[Heq|[]]].
    + apply in_map_iff in Hin. destruct Hin as [r0 [Heq Hin]]. inversion Heq. subst. auto.
    + inversion Heq. subst. exact Hb2.
Qed.

(* ---- UploadPartCopy ---- *)
Lemma q_upload_copy_SInv D s src m pn : SInv D s -> SInv D (fst (q_upload_copy s src m pn)).
Proof.
  intros H. unfold q_upload_copy.
  destruct (find_hold s src) as [sx|]; [|exact H]. destruct (find_hold s m) as [x|]; [|exact H].
  destruct (h_pend sx); [exact H|]. destruct (h_pend x); cbn [negb]; [|exact H].
  set (sel := fun r => N.eqb (r_h r) m && N.eqb (r_slot r) pn).
  assert (forall ps c, read_rows s ps = Some c ->
            SInv D (fst (let '(id, s1) := alloc s (h_cs x) c in
                         let '(s2, id', pre) := dedupe s1 (h_cs x) c id in
                         let s3 := drop_rows s2 sel in
                         (add_row s3 {| r_h := m; r_slot := pn; r_id := id'; r_store := h_cs x; r_cont := c |} pre, @None serr)))) as Hcopy.
  { intros ps c _. pose proof (write_part_SInv D s (h_cs x) c (Some sel) m pn H) as Hw. unfold write_part in Hw.
    destruct (alloc s (h_cs x) c) as [id s1]. destruct (dedupe s1 (h_cs x) c id) as [[s2 id'] pre]. exact Hw. }
  destruct (rows_of s src) as [|p [|p2 ps]] eqn:Er.
  - destruct (read_rows s []) as [c|] eqn:Ec; [|exact H]. apply (Hcopy [] c Ec).
  - destruct (N.eqb_spec (r_store p) (h_cs x)) as [Hst|Hst].
    + destruct (live s (r_id p)) eqn:Hl; cbn [negb fst]; [|exact H].
      assert (In p (rows s)) as Hin by (eapply rows_of_In; rewrite Er; now left).
      pose proof (addref_PI D s _ _ (r_id p) Hl H) as Ha. destruct (addref_blobs s (r_id p)) as (Ab & Ar & Ai & An & Ah).
      destruct (drop_rows_PI D _ _ _ sel Ha) as (Hd & _ & _ & _ & Hk). cbn zeta in *.
      eapply PI_ext; [| |apply (add_row_pre_PI D _ _ _ {| r_h := m; r_slot := pn; r_id := r_id p; r_store := h_cs x; r_cont := r_cont p |} Hd)].
      * intros y. unfold unbump, bump, zero_e. cbn. destruct (N.eqb y (r_id p)); lia.
      * tauto.
      * cbn. unfold bump. rewrite N.eqb_refl. unfold zero_e. lia.
      * cbn. rewrite Hk; [|left; cbn; unfold bump; rewrite N.eqb_refl; unfold zero_e; lia].
        rewrite Ab, <- Hst. now apply (pi_present _ _ _ _ H).
    + destruct (read_rows s [p]) as [c|] eqn:Ec; [|exact H]. apply (Hcopy [p] c Ec).
  - destruct (read_rows s (p :: p2 :: ps)) as [c|] eqn:Ec; [|exact H]. apply (Hcopy _ c Ec).
Qed.

(* ---- CompleteMultipartUpload ---- *)
Lemma cntid_map f l id : (forall r, r_id (f r) = r_id r) -> cntid id (map f l) = cntid id l.
Proof. intros Hf. induction l as [|r l IH]; cbn [map]; auto. now rewrite !cntid_cons, IH, Hf. Qed.

Lemma map_rows_PI D s e nw f :
  (forall r, r_id (f r) = r_id r /\ r_store (f r) = r_store r /\ r_cont (f r) = r_cont r) ->
  PI D s e nw -> PI D (w_rows s (map f (rows s))) e nw.
Proof.
  intros Hf [H1 H2 H3 H4 H5 H6 H7].
  assert (forall id, cntid id (map f (rows s)) = cntid id (rows s)) as Hc
    by (intros id; apply cntid_map; intros r; apply Hf).
  constructor; cbn [w_rows reg rows blobs idx nextp]; auto.
  - intros id. rewrite H1, !scount_cntid. cbn [w_rows rows]. now rewrite Hc.
  - intros r Hin. apply in_map_iff in Hin. destruct Hin as [r0 [<- Hin]]. destruct (Hf r0) as (-> & -> & ->). auto.
  - intros id Hid. destruct (H7 _ Hid) as (a & b & c & d). repeat split; auto.
    rewrite scount_cntid in *. cbn [w_rows rows]. now rewrite Hc.
Qed.

Lemma q_complete_SInv D s m dst : SInv D s -> SInv D (fst (q_complete s m dst)).
Proof.
  intros H. unfold q_complete. destruct (find_hold s m) as [x|]; [|exact H].
  destruct (h_pend x); cbn [negb]; [|exact H].
  destruct (contiguous 1 (rows_of s m)); cbn [negb fst]; [|exact H].
  apply set_hold_SInv, del_hold_SInv.
  apply (map_rows_PI D (q_drop s dst)); [|now apply q_drop_SInv].
  intros r. destruct (N.eqb (r_h r) m); cbn; auto.
Qed.

(* ---- all operations ---- *)
Theorem sop_run_SInv D s o : SInv D s -> SInv D (fst (sop_run s o)).
Proof.
  intros H. destruct o; cbn [sop_run fst].
  - now apply q_put_SInv.
  - now apply q_append_inplace_SInv.
  - now apply q_append_version_SInv.
  - now apply q_copy_SInv.
  - now apply q_transition_SInv.
  - now apply q_drop_SInv.
  - now apply set_hold_SInv.
  - now apply q_upload_SInv.
  - now apply q_upload_copy_SInv.
  - now apply q_complete_SInv.
Qed.
