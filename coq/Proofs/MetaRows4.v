(* Proofs/MetaRows4.v — M-META at row level, layer 4: step- and history-level theorems:
   the row-id invariant, the frame property, version persistence. *)
From Verif Require Import Bytes Codec Md5 Meta MetaBasics MetaRows1 MetaRows2 MetaRows3.
From Coq Require Import ZifyBool ZifyN ZifyNat.

(* the (bucket,key) whose rows an operation may change *)
Definition op_key (o : op) : option (bytes * bytes) :=
  match o with
  | OPut b k _ _ | ODel b k _ _ | OCmu b k | OUp b k _ _ _ | OCpl b k _ _ _ | OAbt b k _ | OApp b k _ _ => Some (b, k)
  | OCp _ _ _ db dk => Some (db, dk)
  | _ => None
  end.
Definition op_dv (o : op) : option vid := match o with ODel _ _ v _ => resolve_vref v | _ => None end.
Definition bucket_ver (s : mstate) (b : bytes) : option vstate := option_map b_ver (find_bucket s b).
Definition op_inplace (s : mstate) (o : op) : bool :=
  match o with
  | OApp b _ _ _ => match bucket_ver s b with Some VEnabled | None => false | Some _ => true end
  | ODel b _ v _ => match resolve_vref v, bucket_ver s b with None, Some VUnset => true | _, _ => false end
  | _ => false
  end.
Definition same_rows (s s' : mstate) : Prop :=
  objs s' = objs s /\ parts s' = parts s /\ next_id s' = next_id s.

Lemma step_cases i hist s o :
  (exists b k, op_key o = Some (b, k) /\ Tr b k (op_dv o) (op_inplace s o) s (fst (step i hist s o))) \/
  (op_key o = None /\ same_rows s (fst (step i hist s o))).
Proof.
  assert (T0 : forall b k dv ip, Tr b k dv ip s (with_ids s i)) by (intros; tr).
  destruct o; cbn [step op_key op_dv].
  - right. split; [reflexivity|]. unfold op_mb. destruct (find_bucket _ _); repeat split.
  - right. split; [reflexivity|]. unfold op_rb. destruct (find_bucket _ _); [|repeat split].
    destruct (existsb _ _); repeat split.
  - right. split; [reflexivity|]. unfold op_ver. destruct (find_bucket _ _); repeat split.
  - left. exists b, k. split; [reflexivity|]. apply op_put_Tr. apply T0.
  - right. repeat split.
  - right. repeat split.
  - left. exists b, k. split; [reflexivity|]. apply op_delete_Tr; [apply T0 | reflexivity|].
    intros bk Hb Hv Hu. split; [|reflexivity]. unfold op_inplace, bucket_ver.
    change (find_bucket (with_ids s i) b) with (find_bucket s b) in Hb. rewrite Hb, Hv. cbn. rewrite Hu. reflexivity.
  - right. repeat split.
  - right. repeat split.
  - left. exists b, k. split; [reflexivity|]. apply op_cmu_Tr. apply T0.
  - left. exists b, k. split; [reflexivity|]. apply op_upload_part_Tr. apply T0.
  - left. exists b, k. split; [reflexivity|]. apply op_complete_Tr. apply T0.
  - left. exists b, k. split; [reflexivity|]. apply op_abort_Tr. apply T0.
  - left. exists b, k. split; [reflexivity|]. apply op_append_Tr; [apply T0|].
    intros bk Hb Hv. split; [|reflexivity]. unfold op_inplace, bucket_ver.
    change (find_bucket (with_ids s i) b) with (find_bucket s b) in Hb. rewrite Hb. cbn.
    destruct (b_ver bk); congruence.
  - left. exists db, dk. split; [reflexivity|]. apply op_copy_Tr. apply T0.
Qed.

(* ---------- 1. the row-id invariant ---------- *)
Definition Inv1 (s : mstate) : Prop := IdsOk s /\ Uniq s.

Lemma step_ids i hist s o : IdsOk s -> IdsOk (fst (step i hist s o)).
Proof.
  intros H. destruct (step_cases i hist s o) as [(b & k & _ & T)|(_ & E1 & _ & E3)].
  - eapply Tr_ids; eassumption.
  - eapply IdsOk_objs; eassumption.
Qed.
Lemma step_inv1 i hist s o : Inv1 s -> Inv1 (fst (step i hist s o)).
Proof. intros [H1 H2]. split; [apply step_ids; exact H1 | apply step_uniq; exact H2]. Qed.

Lemma run_from_inv1 ops : forall i hist s, Inv1 s -> Inv1 (fst (run_from i hist s ops)).
Proof.
  induction ops as [|o ops IH]; intros i hist s H; cbn [run_from]; [exact H|].
  destruct (step i hist s o) as [s' r] eqn:E. apply IH.
  change s' with (fst (s', r)). rewrite <- E. apply step_inv1. exact H.
Qed.
Lemma init_inv1 : Inv1 init.
Proof. split; [split; [constructor | intros x []] | exact init_uniq]. Qed.
Lemma run_inv1 ops : Inv1 (fst (run ops)).
Proof. apply run_from_inv1. exact init_inv1. Qed.

(* histories: the state after ops ++ [o] is one step from the state after ops *)
Lemma run_from_snoc ops o : forall i hist s,
  run_from i hist s (ops ++ [o]) =
  (let '(s1, rs) := run_from i hist s ops in
   let '(s2, r) := step (i + N.of_nat (length ops)) (rev rs) s1 o in (s2, rs ++ [r])).
Proof.
  induction ops as [|o' ops IH]; intros i hist s; cbn [app run_from length].
  - rewrite N.add_0_r, rev_involutive. destruct (step i hist s o) as [s2 r]. cbn. reflexivity.
  - destruct (step i hist s o') as [s1 r1]. rewrite IH.
    replace (i + 1 + N.of_nat (length ops))%N with (i + N.of_nat (S (length ops)))%N by lia. reflexivity.
Qed.
Lemma run_snoc ops o :
  run (ops ++ [o]) =
  (let '(s2, r) := step (N.of_nat (length ops)) (rev (snd (run ops))) (fst (run ops)) o in
   (s2, snd (run ops) ++ [r])).
Proof. unfold run. rewrite run_from_snoc. destruct (run_from 0 [] init ops) as [s1 rs]. reflexivity. Qed.

(* ---------- 3. frame ---------- *)
Lemma find_latest_krows s b k : find_latest s b k = find (fun r => completed r && o_latest r) (krows s b k).
Proof.
  unfold find_latest, krows. induction (objs s) as [|x l IH]; cbn; [reflexivity|].
  destruct (on_key b k x); cbn; [destruct (completed x && o_latest x); [reflexivity | exact IH] | exact IH].
Qed.
Lemma find_version_krows s b k v :
  find_version s b k v =
  find (fun r => completed r && match o_vid r with Some v' => vid_eqb v v' | None => false end) (krows s b k).
Proof.
  unfold find_version, krows. induction (objs s) as [|x l IH]; cbn; [reflexivity|].
  destruct (on_key b k x); cbn; [|exact IH].
  destruct (completed x && _); [reflexivity | exact IH].
Qed.
Lemma find_upload_krows s b k u :
  find_upload s b k u =
  find (fun r => match o_upload r with Some u' => N.eqb u u' | None => false end) (krows s b k).
Proof.
  unfold find_upload, krows. induction (objs s) as [|x l IH]; cbn; [reflexivity|].
  destruct (on_key b k x); cbn; [|exact IH]. destruct (o_upload x) as [u'|]; [destruct (N.eqb u u')|]; try reflexivity; exact IH.
Qed.

(* one step addressed elsewhere leaves the rows of (b,k), in order, and their part rows unchanged *)
Lemma step_frame i hist s o b k :
  IdsOk s -> op_key o <> Some (b, k) ->
  krows (fst (step i hist s o)) b k = krows s b k /\
  (forall x, In x (krows s b k) -> obj_parts (fst (step i hist s o)) (o_id x) = obj_parts s (o_id x)).
Proof.
  intros H N. destruct (step_cases i hist s o) as [(b' & k' & Ek & T)|(_ & E1 & E2 & _)].
  - destruct (Tr_frame_ids b' k' _ _ s H _ T) as [[F1 F2] _].
    assert (Nk : ~ (b = b' /\ k = k')) by (intros [-> ->]; apply N; exact Ek).
    split; [apply F1; exact Nk|].
    intros x Hx. apply filter_In in Hx. destruct Hx as [Hx Kx]. apply F2; [exact Hx|].
    destruct (on_key b' k' x) eqn:E; [|reflexivity]. rewrite (on_key_other b' k' b k x E Nk) in Kx. discriminate.
  - unfold krows, obj_parts. rewrite E1, E2. split; reflexivity.
Qed.

Lemma run_from_frame ops b k : Forall (fun o => op_key o <> Some (b, k)) ops ->
  forall i hist s, IdsOk s ->
  krows (fst (run_from i hist s ops)) b k = krows s b k /\
  (forall x, In x (krows s b k) -> obj_parts (fst (run_from i hist s ops)) (o_id x) = obj_parts s (o_id x)).
Proof.
  induction 1 as [|o ops Ho _ IH]; intros i hist s H; cbn [run_from]; [split; reflexivity|].
  destruct (step_frame i hist s o b k H Ho) as [F1 F2]. pose proof (step_ids i hist s o H) as H'.
  destruct (step i hist s o) as [s' r]. cbn [fst] in *.
  destruct (IH (i + 1)%N (r :: hist) s' H') as [G1 G2]. split; [congruence|].
  intros x Hx. rewrite G2 by (rewrite F1; exact Hx). apply F2. exact Hx.
Qed.

Lemma run_from_app l1 l2 : forall i hist s,
  fst (run_from i hist s (l1 ++ l2)) =
  fst (run_from (i + N.of_nat (length l1)) (rev (snd (run_from i hist s l1))) (fst (run_from i hist s l1)) l2).
Proof.
  induction l1 as [|o l1 IH]; intros i hist s; cbn [app run_from length].
  - cbn [fst snd]. rewrite N.add_0_r, rev_involutive. reflexivity.
  - destruct (step i hist s o) as [s1 r1]. rewrite IH.
    replace (i + 1 + N.of_nat (length l1))%N with (i + N.of_nat (S (length l1)))%N by lia. reflexivity.
Qed.

(* the bucket of an existing row cannot disappear *)
Lemma find_bucket_app s b l : find_bucket s b <> None -> find (fun x => bytes_eqb (b_name x) b) (buckets s ++ l) <> None.
Proof.
  unfold find_bucket. induction (buckets s) as [|x bs IH]; cbn; [congruence|].
  destruct (bytes_eqb (b_name x) b); [congruence | exact IH].
Qed.
Lemma find_bucket_filter_other (l : list bucket) b b0 : b0 <> b ->
  find (fun x => bytes_eqb (b_name x) b) (filter (fun x => negb (bytes_eqb (b_name x) b0)) l) =
  find (fun x => bytes_eqb (b_name x) b) l.
Proof.
  intros Nb. induction l as [|y l IH]; cbn; [reflexivity|].
  destruct (bytes_eqb (b_name y) b0) eqn:E0; cbn.
  - apply bytes_eqb_eq in E0. destruct (bytes_eqb (b_name y) b) eqn:E; [|exact IH].
    apply bytes_eqb_eq in E. congruence.
  - rewrite IH. reflexivity.
Qed.
Lemma find_bucket_map_ver (l : list bucket) b b0 v :
  find (fun x => bytes_eqb (b_name x) b) l <> None ->
  find (fun x => bytes_eqb (b_name x) b)
       (map (fun x => if bytes_eqb (b_name x) b0 then {| b_name := b0; b_ver := v |} else x) l) <> None.
Proof.
  induction l as [|y l IH]; cbn; [congruence|]. intros H.
  destruct (bytes_eqb (b_name y) b0) eqn:E0; cbn.
  - apply bytes_eqb_eq in E0. revert H. rewrite E0. destruct (bytes_eqb b0 b); [discriminate | exact IH].
  - revert H. destruct (bytes_eqb (b_name y) b); [discriminate | exact IH].
Qed.
Lemma step_bucket_kept i hist s o b :
  (exists x, In x (objs s) /\ o_bucket x = b) -> find_bucket s b <> None ->
  find_bucket (fst (step i hist s o)) b <> None.
Proof.
  intros [x [Hx Bx]] Hb. destruct (step_cases i hist s o) as [(b' & k' & _ & T)|[Ek _]].
  - unfold find_bucket. rewrite (proj1 (Tr_buckets_next _ _ _ _ _ _ T)). exact Hb.
  - destruct o; try discriminate Ek; cbn [step fst]; try exact Hb.
    + unfold op_mb. change (find_bucket (with_ids s i) b0) with (find_bucket s b0).
      destruct (find_bucket s b0); [exact Hb|]. cbn [fst]. unfold find_bucket at 1. cbn [buckets set_buckets with_ids].
      apply find_bucket_app. exact Hb.
    + unfold op_rb. change (find_bucket (with_ids s i) b0) with (find_bucket s b0).
      destruct (find_bucket s b0); [|exact Hb]. cbn [objs with_ids].
      destruct (existsb _ (objs s)) eqn:E; [exact Hb|]. cbn [fst].
      unfold find_bucket in *. cbn [buckets set_buckets with_ids].
      assert (Nb : b0 <> b).
      { intros ->. assert (existsb (fun r => bytes_eqb (o_bucket r) b) (objs s) = true); [|congruence].
        apply existsb_exists. exists x. split; [exact Hx | apply bytes_eqb_eq; exact Bx]. }
      rewrite find_bucket_filter_other by exact Nb. exact Hb.
    + unfold op_ver. change (find_bucket (with_ids s i) b0) with (find_bucket s b0).
      destruct (find_bucket s b0); [|exact Hb]. cbn [fst]. unfold find_bucket in *. cbn [buckets set_buckets with_ids].
      apply find_bucket_map_ver. exact Hb.
Qed.

(* a HEAD by version id that succeeded keeps returning the same answer — same ETag, size AND Last-Modified —
   as long as no operation is addressed to that (bucket,key) *)
Lemma heads_stable ops b k v : Forall (fun o => op_key o <> Some (b, k)) ops ->
  forall i hist s, IdsOk s -> forall v' e sz lm ct bd,
  op_head s b k v = RObj v' e sz lm ct bd ->
  op_head (fst (run_from i hist s ops)) b k v = RObj v' e sz lm ct bd.
Proof.
  induction 1 as [|o ops Ho _ IH]; intros i hist s H v' e sz lm ct bd Hh; cbn [run_from]; [exact Hh|].
  destruct (step_frame i hist s o b k H Ho) as [F1 _]. pose proof (step_ids i hist s o H) as H'.
  assert (Hb : find_bucket s b <> None).
  { unfold op_head, lookup in Hh. destruct (find_bucket s b); [discriminate | discriminate Hh]. }
  assert (Hx : exists x, In x (objs s) /\ o_bucket x = b).
  { unfold op_head, lookup in Hh. destruct (find_bucket s b); [|discriminate Hh].
    destruct v as [v|].
    - destruct (find_version s b k v) as [r|] eqn:E; [|discriminate Hh]. apply find_version_some in E.
      destruct E as (I & K & _). apply on_key_eq in K. exists r. tauto.
    - destruct (find_latest s b k) as [r|] eqn:E; [|discriminate Hh]. apply find_latest_some in E.
      destruct E as (I & K & _). apply on_key_eq in K. exists r. tauto. }
  pose proof (step_bucket_kept i hist s o b Hx Hb) as Hb'.
  destruct (step i hist s o) as [s' r]. cbn [fst] in *. apply IH; [exact H'|].
  rewrite <- Hh. unfold op_head, lookup. destruct v; rewrite ?find_latest_krows, ?find_version_krows, F1.
  all: destruct (find_bucket s b); [|congruence]; destruct (find_bucket s' b); [reflexivity | congruence].
Qed.

Lemma run_heads_stable ops mid b k v : Forall (fun o => op_key o <> Some (b, k)) mid ->
  forall v' e sz lm ct bd,
  op_head (fst (run ops)) b k v = RObj v' e sz lm ct bd ->
  op_head (fst (run (ops ++ mid))) b k v = RObj v' e sz lm ct bd.
Proof.
  intros F v' e sz lm ct bd Hh. unfold run. rewrite run_from_app. apply heads_stable; [exact F| |exact Hh].
  apply (proj1 (run_inv1 ops)).
Qed.
