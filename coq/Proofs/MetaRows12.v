(* Proofs/MetaRows12.v — M-META, body-level read-your-write (C01), part 2: AppendObject. *)
From Verif Require Import Bytes Codec Md5 Meta MetaBasics MetaPartsDefs MetaParts MetaPartsOps MetaPartsOwned.
From Verif Require Import MetaRows1 MetaRows2 MetaRows3 MetaRows4 MetaRows5 MetaRows6 MetaRows11.
From Coq Require Import ZifyBool ZifyN ZifyNat.

(* ---------- sorting facts ---------- *)
Fixpoint ssorted (m : list prow) : Prop :=
  match m with [] => True | a :: r => (forall q, In q r -> (p_seq a <= p_seq q)%N) /\ ssorted r end.

Lemma insert_sorted_ssorted p m : ssorted m -> ssorted (insert_sorted p m).
Proof.
  induction m as [|a r IH]; intros H; cbn [insert_sorted]; [cbn; tauto|].
  destruct H as [H1 H2]. destruct (N.leb_spec (p_seq p) (p_seq a)) as [L|L].
  - split; [|split; assumption]. intros q [<-|Hq]; [exact L|]. specialize (H1 q Hq). lia.
  - split; [|apply IH; exact H2]. intros q Hq. apply In_insert_sorted in Hq. destruct Hq as [->|Hq]; [lia | apply H1; exact Hq].
Qed.
Lemma sort_parts_ssorted l : ssorted (sort_parts l).
Proof. unfold sort_parts. induction l as [|a l IH]; cbn [fold_right]; [exact I | apply insert_sorted_ssorted; exact IH]. Qed.
Lemma ssorted_snoc m p : ssorted (m ++ [p]) -> forall q, In q m -> (p_seq q <= p_seq p)%N.
Proof.
  induction m as [|a r IH]; intros H q Hq; [contradiction|]. cbn in H. destruct H as [H1 H2].
  destruct Hq as [<-|Hq]; [apply H1; apply in_or_app; right; left; reflexivity | apply IH; assumption].
Qed.
Lemma insert_sorted_snoc q m p : (p_seq q <= p_seq p)%N -> insert_sorted q (m ++ [p]) = insert_sorted q m ++ [p].
Proof.
  intros L. induction m as [|a r IH]; cbn [app insert_sorted].
  - destruct (N.leb_spec (p_seq q) (p_seq p)); [reflexivity | lia].
  - destruct (p_seq q <=? p_seq a)%N; [reflexivity | rewrite IH; reflexivity].
Qed.
Lemma sort_parts_snoc l p : (forall q, In q l -> (p_seq q <= p_seq p)%N) -> sort_parts (l ++ [p]) = sort_parts l ++ [p].
Proof.
  unfold sort_parts. induction l as [|a l IH]; intros H; cbn [app fold_right insert_sorted]; [reflexivity|].
  rewrite IH by (intros q Hq; apply H; right; exact Hq). apply insert_sorted_snoc. apply H. left. reflexivity.
Qed.
(* the sequence number an in-place append chooses is above every existing one *)
Lemma next_seq_above l : forall q, In q l ->
  (p_seq q < match rev (sort_parts l) with [] => 0 | lastp :: _ => p_seq lastp + 1 end)%N.
Proof.
  intros q Hq. apply In_sort_parts in Hq. pose proof (sort_parts_ssorted l) as S.
  destruct (rev (sort_parts l)) as [|lastp t] eqn:E.
  - apply (f_equal (@rev prow)) in E. rewrite rev_involutive in E. rewrite E in Hq. contradiction.
  - apply (f_equal (@rev prow)) in E. rewrite rev_involutive in E. cbn [rev] in E. rewrite E in *.
    apply in_app_or in Hq. destruct Hq as [Hq|[<-|[]]]; [|lia].
    pose proof (ssorted_snoc _ _ S q Hq). lia.
Qed.

Lemma parts_size_app l1 l2 : parts_size (l1 ++ l2) = (parts_size l1 + parts_size l2)%Z.
Proof. rewrite !parts_size_length, map_app, concat_app, app_length. lia. Qed.

(* ---------- what GET returned before the append ---------- *)
Definition prev_body (s : mstate) (b k : bytes) : bytes :=
  match op_get s b k None with RObj _ _ _ _ _ (Some p) => p | _ => [] end.

Lemma prev_body_some s b k bk r : PartsInv s ->
  find_bucket s b = Some bk -> find_latest s b k = Some r -> o_dm r = false -> manifest_complete s r = true ->
  prev_body s b k = concat (map p_content (row_parts s r)) /\ parts_size (row_parts s r) = o_size r.
Proof.
  intros P Hb Hl Hd M. unfold manifest_complete in M. apply andb_true_iff in M. destruct M as [M _].
  apply Z.eqb_eq in M. split; [|exact M]. unfold prev_body.
  rewrite (op_get_recorded s b k None r P); [reflexivity| |exact M].
  unfold lookup. rewrite Hb, Hl, Hd. reflexivity.
Qed.
Lemma prev_body_dm s b k r : find_latest s b k = Some r -> o_dm r = true -> prev_body s b k = [].
Proof. intros Hl Hd. unfold prev_body, op_get, lookup. destruct (find_bucket s b); [rewrite Hl, Hd|]; reflexivity. Qed.
Lemma prev_body_none s b k : find_latest s b k = None -> prev_body s b k = [].
Proof. intros Hl. unfold prev_body, op_get, lookup. destruct (find_bucket s b); [rewrite Hl|]; reflexivity. Qed.

Lemma row_parts_ext s s' r : parts s' = parts s -> row_parts s' r = row_parts s r.
Proof. intros E. unfold row_parts. rewrite (obj_parts_ext s s' _ E). reflexivity. Qed.

Lemma shared_np_content old np c : n_content np = c ->
  concat (map n_content (map (fun p => {| n_pid := p_pid p; n_content := p_content p; n_pre := true |}) old ++ [np])) =
  concat (map p_content old) ++ c.
Proof.
  intros E. rewrite map_app, map_map, concat_app. cbn [n_content map concat]. rewrite E, app_nil_r. reflexivity.
Qed.

(* in-place append on the current row [old]: GET returns the old parts followed by the new bytes *)
Lemma inplace_get s1 s' b k old r' np ns c :
  s' = save_part_rows (update_row s1 r') (o_id old) [np] ns -> unique_ok s' = true -> PartsInv s' ->
  find_bucket s' b <> None -> In old (objs s1) -> o_id r' = o_id old -> on_key b k r' = true ->
  o_upload r' = None -> o_latest r' = true -> o_dm r' = false -> n_content np = c ->
  (forall q, In q (obj_parts s1 (o_id old)) -> (p_seq q < ns)%N) ->
  o_size r' = (parts_size (row_parts s1 old) + zlen c)%Z ->
  exists lm, op_get s' b k None =
    RObj (row_vid r') (o_etag r') (o_size r') lm (o_ctype r') (Some (concat (map p_content (row_parts s1 old)) ++ c)).
Proof.
  intros -> U P Hb Ho Eid K Up L D Ec Hns Sz.
  destruct (update_row_in s1 r') as [lk Hlk]; [rewrite Eid; apply in_map; exact Ho|].
  set (x := with_row r' (o_latest r') (clock s1) lk) in *.
  set (s' := save_part_rows (update_row s1 r') (o_id old) [np] ns) in *.
  assert (Hx : In x (objs s')) by (unfold s'; rewrite save_part_rows_objs; exact Hlk).
  assert (R : row_parts s' x = row_parts s1 old ++ [{| p_obj := o_id old; p_seq := ns; p_pid := n_pid np; p_content := c |}]).
  { unfold row_parts, s'. cbn [x with_row o_id]. rewrite Eid, obj_parts_save.
    rewrite (obj_parts_ext s1 (update_row s1 r')) by apply update_row_parts. cbn [new_prows]. rewrite Ec.
    apply sort_parts_snoc. intros q Hq. specialize (Hns q Hq). cbn [p_seq]. lia. }
  exists (o_updated x).
  rewrite (op_get_recorded s' b k None x P).
  - rewrite R, map_app, concat_app. cbn [map concat p_content]. rewrite app_nil_r. reflexivity.
  - unfold lookup. destruct (find_bucket s' b); [|congruence].
    rewrite (find_latest_unique s' b k x U Hx); [cbn [x with_row o_dm]; rewrite D; reflexivity | exact K | | exact L].
    unfold completed. cbn [x with_row o_upload]. rewrite Up. reflexivity.
  - rewrite R, parts_size_app. cbn [x with_row o_size]. rewrite Sz. f_equal.
    all: try (rewrite parts_size_length; cbn [map concat p_content]; rewrite app_nil_r; reflexivity).
Qed.

(* append creating a fresh null row *)
Lemma fresh_row_get s1 s' b k mk np c :
  s' = save_part_rows (snd (insert_row s1 mk)) (fst (insert_row s1 mk)) [np] 0 -> unique_ok s' = true -> PartsInv s' ->
  find_bucket s' b <> None -> PBound s1 -> n_content np = c ->
  (forall id now, o_id (mk id now) = id /\ on_key b k (mk id now) = true /\ o_upload (mk id now) = None /\
                  o_latest (mk id now) = true /\ o_dm (mk id now) = false /\ o_size (mk id now) = zlen c) ->
  exists x, op_get s' b k None = RObj (row_vid x) (o_etag x) (zlen c) (o_updated x) (o_ctype x) (Some c) /\
            x = mk (next_id s1) (clock s1).
Proof.
  intros -> U P Hb Hpb Ec Hmk. set (x := mk (next_id s1) (clock s1)). exists x. split; [|reflexivity].
  destruct (Hmk (next_id s1) (clock s1)) as (Eid & K & Up & L & D & Sz). fold x in Eid, K, Up, L, D, Sz.
  set (s' := save_part_rows _ _ [np] 0) in *.
  assert (Hx : In x (objs s')) by (unfold s'; rewrite save_part_rows_objs, insert_row_objs; apply in_or_app; right; left; reflexivity).
  assert (R : row_parts s' x = [{| p_obj := next_id s1; p_seq := 0; p_pid := n_pid np; p_content := c |}]).
  { unfold row_parts, s'. rewrite Eid, insert_row_fst, obj_parts_save.
    rewrite (obj_parts_fresh' s1); [cbn [new_prows app]; rewrite Ec; reflexivity | exact Hpb | apply insert_row_parts | lia]. }
  rewrite (op_get_recorded s' b k None x P).
  - rewrite R, Sz. cbn [map concat p_content]. rewrite app_nil_r. reflexivity.
  - unfold lookup. destruct (find_bucket s' b); [|congruence].
    rewrite (find_latest_unique s' b k x U Hx K); [rewrite D; reflexivity | unfold completed; rewrite Up; reflexivity | exact L].
  - rewrite R, Sz, parts_size_length. cbn [map concat p_content]. rewrite app_nil_r. reflexivity.
Qed.

Lemma dm_no_parts s r : OInv s -> In r (objs s) -> o_dm r = true -> obj_parts s (o_id r) = [].
Proof.
  intros O Hr D. unfold obj_parts. apply filter_none. intros p Hp. apply N.eqb_neq.
  apply (no_parts_of_dm s r O); [apply agrees_In; assumption | exact D | exact Hp].
Qed.

Lemma append_get_your_write i hist s b k c off s' e sz :
  PartsInv s -> OInv s -> step i hist s (OApp b k c off) = (s', RAppend e sz) ->
  exists v lm ct, op_get s' b k None = RObj v e sz lm ct (Some (prev_body s b k ++ c)).
Proof.
  intros P O H0.
  assert (P' : PartsInv s') by (pose proof (step_parts_inv i hist s (OApp b k c off) P) as X; rewrite H0 in X; exact X).
  pose proof (step_buckets_keyed i hist s (OApp b k c off) (b, k) eq_refl) as Eb. rewrite H0 in Eb. cbn [fst] in Eb.
  change (prev_body s b k) with (prev_body (with_ids s i) b k).
  assert (P0 : PartsInv (with_ids s i)) by exact P.
  assert (O0 : OInv (with_ids s i)) by (eapply oinv_osame; [apply with_ids_frame | exact O]).
  revert H0. cbn [step]. unfold op_append. intros H. apply commit_ok in H; [|exact I]. destruct H as [H U].
  set (s0 := with_ids s i) in *. assert (Eb0 : buckets s' = buckets s0) by exact Eb. clearbody s0.
  revert H. cbv beta zeta. repeat dm; intros H; try discriminate H;
  pose proof (f_equal fst H) as H1; pose proof (f_equal snd H) as H2; cbn [fst snd] in H1, H2; try discriminate H2.
  all: pose proof (sm_parts _ _ (same_put_fresh_part s0 c)) as Ep1;
       pose proof (sm_objs _ _ (same_put_fresh_part s0 c)) as Eo1;
       pose proof (PBound_same _ _ (same_put_fresh_part s0 c) (parts_bound s0 O0)) as Hpb1.
  all: try match goal with Hr : snd (fst (meta_put ?a1 ?a2 ?a3 ?a4 ?a5 ?a6)) = _ |- _ =>
         pose proof (meta_put_res a1 a2 a3 a4 a5 a6) as R; rewrite Hr in R; try contradiction end.
  all: assert (Hb : find_bucket s' b <> None)
         by (rewrite (find_bucket_buckets _ _ b Eb0); congruence).
  all: repeat match goal with Hf : find_latest (snd (put_fresh_part _ _)) _ _ = _ |- _ =>
         rewrite (proj1 (find_ext_objs Eo1)) in Hf end.
  all: try congruence.
  all: repeat match goal with G1 : ?t = Some ?a, G2 : ?t = Some ?a' |- _ =>
         assert (a' = a) by congruence; subst a'; clear G2 end.
  (* what GET returned before *)
  all: first
    [ match goal with Hl : find_latest ?s0 ?bb ?kk = Some ?r, Hd : o_dm ?r = false,
                      Hm : negb (manifest_complete ?s0 ?r) = false, Hbk : find_bucket ?s0 ?bb = Some _ |- _ =>
        apply negb_false_iff in Hm; destruct (prev_body_some s0 bb kk _ r P0 Hbk Hl Hd Hm) as [Epv Esz]; rewrite Epv;
        rewrite <- (row_parts_ext s0 _ r Ep1) in Esz |- * end
    | match goal with Hl : find_latest ?s0 ?bb ?kk = Some ?r, Hd : o_dm ?r = true |- _ =>
        rewrite (prev_body_dm s0 bb kk r Hl Hd) end
    | match goal with Hl : find_latest ?s0 ?bb ?kk = None |- _ => rewrite (prev_body_none s0 bb kk Hl) end ].
  (* a new version through meta_put *)
  all: try match goal with Hr : snd (fst (meta_put ?S _ _ _ ?W _)) = RPut ?v0 ?e0 |- _ =>
         inversion H2; subst e sz;
         destruct (meta_put_then_get _ _ _ _ _ _ _ _ _ _
                     (PBound_same _ _ (same_set_registry _ _) Hpb1) Hr (eq_sym H1) U P') as [lm X];
         [ cbn [w_size w_parts]; rewrite (shared_np_content _ _ c (put_fresh_part_content s0 c));
           unfold zlen; rewrite app_length; cbn [map concat length];
           try (rewrite <- Esz, parts_size_length); lia
         | cbn [w_size w_ctype w_parts] in X; rewrite (shared_np_content _ _ c (put_fresh_part_content s0 c)) in X;
           eexists _, _, _; exact (proj1 X) ] end.
  all: try match goal with Hl : find_latest ?s0 _ _ = Some ?r, Hd : o_dm ?r = true |- _ =>
         assert (Edm : row_parts (snd (put_fresh_part s0 c)) r = [])
           by (unfold row_parts;
               rewrite (obj_parts_ext s0 _ _ Ep1), (dm_no_parts s0 r O0 (proj1 (find_latest_some _ _ _ _ Hl)) Hd);
               reflexivity) end.
  (* in place on the current row *)
  all: try match type of H1 with save_part_rows (update_row _ _) (o_id ?old) _ _ = _ =>
         inversion H2; subst e sz;
         destruct (inplace_get _ s' b k old _ _ _ c (eq_sym H1) U P' Hb) as [lm X];
         [ rewrite Eo1; match goal with Hl : find_latest _ _ _ = Some old |- _ => exact (proj1 (find_latest_some _ _ _ _ Hl)) end
         | reflexivity
         | unfold on_key; cbn [o_bucket o_key]; rewrite !bytes_eqb_refl; reflexivity
         | reflexivity | reflexivity | reflexivity
         | apply put_fresh_part_content
         | intros q Hq; pose proof (next_seq_above _ q Hq) as NS; rewrite Heql in NS; exact NS
         | cbn [o_size]; first [ rewrite Esz; reflexivity | rewrite Edm; reflexivity ]
         | cbn [o_etag o_size o_ctype] in X; try rewrite Edm in X; eexists _, _, _; exact X ] end.
  (* a fresh null row *)
  all: inversion H2; subst e sz.
  all: destruct (fresh_row_get _ s' b k _ _ c (eq_sym H1) U P' Hb Hpb1 (put_fresh_part_content s0 c)) as (x & X & Ex);
       [ intros id now; unfold mk_row, on_key; cbn [o_id o_bucket o_key o_upload o_latest o_dm o_size w_size];
         rewrite !bytes_eqb_refl; repeat split; reflexivity
       | subst x; unfold mk_row in X; cbn [o_etag o_ctype w_etag w_ctype] in X; eexists _, _, _; exact X ].
Qed.
