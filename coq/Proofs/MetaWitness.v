(* Proofs/MetaWitness.v — concrete histories on which the faithful model M-META violates the full
   statements of C02/C13 (each is replayed on the real code from corpus/C02, corpus/C13 on every run),
   and the statements they refute. *)
From Verif Require Import Bytes Codec Md5 Meta MetaBasics.

Definition wb : bytes := B"bkt1".
Definition wk : bytes := B"k1".
Definition cA : bytes := B"AAAAAAAA".
Definition cB : bytes := B"BBBBBBBB".
Definition cC : bytes := B"CCCCCCCC".
Definition cD : bytes := B"DDDDDDDD".

(* the current version of a key is the most recently WRITTEN completed row of that key *)
Definition latest_is_newest (s : mstate) : Prop :=
  forall b k r, find_latest s b k = Some r ->
  forall r', In r' (objs s) -> on_key b k r' = true -> completed r' = true ->
  (o_written r' <= o_written r)%N.

Definition C02_latest_is_newest_full : Prop := forall ops, latest_is_newest (fst (run ops)).

(* Suspended put (null), Enabled put B, Suspended put C (null overwritten in place: created_at stays),
   Enabled put D, delete D by id: the implementation promotes B (newest created_at); C was written later *)
Definition promo_history : list op :=
  [OMb wb; OVer wb VSuspended; OPut wb wk cA CRNone; OVer wb VEnabled; OPut wb wk cB CRNone;
   OVer wb VSuspended; OPut wb wk cC CRNone; OVer wb VEnabled; OPut wb wk cD CRNone;
   ODel wb wk (VROp 8) CRNone].

Lemma promo_reads_B :
  op_get (fst (run promo_history)) wb wk None =
  RObj (VId 4) (mk_md5 cB) 8 9000 None (Some cB).
Proof. vm_compute. reflexivity. Qed.

Lemma promo_null_survives :
  exists lm, op_get (fst (run promo_history)) wb wk (Some VNull) = RObj VNull (mk_md5 cC) 8 lm None (Some cC).
Proof. eexists. vm_compute. reflexivity. Qed.

Lemma latest_is_newest_refuted : ~ C02_latest_is_newest_full.
Proof.
  intros H. specialize (H promo_history).
  remember (fst (run promo_history)) as s eqn:Es.
  assert (exists r r', find_latest s wb wk = Some r /\ In r' (objs s) /\ on_key wb wk r' = true /\
                       completed r' = true /\ (o_written r <? o_written r')%N = true) as W.
  { subst s. vm_compute.
    eexists. eexists. split; [reflexivity|]. split; [left; reflexivity|]. repeat split. }
  destruct W as [r [r' [F [I [K [C L]]]]]]. apply N.ltb_lt in L.
  specialize (H wb wk r F r' I K C). lia.
Qed.

(* ---- C13: Last-Modified of an existing version changes when the key is written again ---- *)
Definition lm_history : list op :=
  [OMb wb; OVer wb VEnabled; OPut wb wk cA CRNone; OHead wb wk (VROp 2); OPut wb wk cB CRNone; OHead wb wk (VROp 2)].

Definition res_lm (r : res) : option N := match r with RObj _ _ _ lm _ _ => Some (lm / 1000)%N | _ => None end.

(* for every history and every two reads of the same non-null version id: equal Last-Modified *)
Definition C13_last_modified_full : Prop :=
  forall ops i j b k n lm1 lm2,
    nth_error ops i = Some (OHead b k (VROp n)) -> nth_error ops j = Some (OHead b k (VROp n)) ->
    option_map res_lm (nth_error (snd (run ops)) i) = Some (Some lm1) ->
    option_map res_lm (nth_error (snd (run ops)) j) = Some (Some lm2) -> lm1 = lm2.

Lemma last_modified_refuted : ~ C13_last_modified_full.
Proof.
  intros H. specialize (H lm_history 3%nat 5%nat wb wk 2%N 2%N 4%N eq_refl eq_refl).
  assert (2 = 4)%N as X by (apply H; vm_compute; reflexivity). discriminate.
Qed.

(* ---- C13/C02: append in a non-enabled bucket rewrites a non-null version in place ---- *)
Definition app_history : list op :=
  [OMb wb; OVer wb VEnabled; OPut wb wk cA CRNone; OGet wb wk (VROp 2); OVer wb VSuspended;
   OApp wb wk cB None; OGet wb wk (VROp 2)].

Definition res_body (r : res) : option bytes := match r with RObj _ _ _ _ _ (Some b) => Some b | _ => None end.

(* for every history: two successful reads of the same non-null version id return the same bytes *)
Definition C13_content_full : Prop :=
  forall ops i j b k n c1 c2,
    nth_error ops i = Some (OGet b k (VROp n)) -> nth_error ops j = Some (OGet b k (VROp n)) ->
    option_map res_body (nth_error (snd (run ops)) i) = Some (Some c1) ->
    option_map res_body (nth_error (snd (run ops)) j) = Some (Some c2) -> c1 = c2.

Lemma append_in_place_refuted : ~ C13_content_full.
Proof.
  intros H. specialize (H app_history 3%nat 6%nat wb wk 2%N cA (cA ++ cB) eq_refl eq_refl).
  assert (cA = cA ++ cB) as X by (apply H; vm_compute; reflexivity). discriminate.
Qed.
