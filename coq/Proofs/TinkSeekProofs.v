(* Proofs/TinkSeekProofs.v — segment arithmetic of the seekable reader, authenticity of loaded
   segments under an ideal AEAD, and the refutations of full tamper evidence. *)
From Verif Require Import Bytes Codec TinkSeek.
From Coq Require Import ZifyBool ZifyN ZifyNat.
Open Scope N_scope.

(* ------------------------------------------------------------ arithmetic *)
Lemma seg_index_inverse css off : 56 < css ->
  seg_start css (seg_of css off) <= off < seg_start css (seg_of css off + 1).
Proof.
  intros Hc. unfold seg_of, seg_start, first_pss, pss.
  destruct (off <? css - 56) eqn:E.
  - cbn [N.eqb]. replace (0 + 1 =? 0) with false by lia. lia.
  - set (q := (off - (css - 56)) / (css - 16)).
    pose proof (N.div_mod (off - (css - 56)) (css - 16)) as Hd.
    pose proof (N.mod_lt (off - (css - 56)) (css - 16)) as Hm.
    fold q in Hd.
    replace (1 + q =? 0) with false by lia. replace (1 + q + 1 =? 0) with false by lia.
    replace (1 + q - 1) with q by lia. replace (1 + q + 1 - 1) with (q + 1) by lia. nia.
Qed.

Lemma seg_of_unique css off j : 56 < css ->
  seg_start css j <= off < seg_start css (j + 1) -> seg_of css off = j.
Proof.
  intros Hc H. pose proof (seg_index_inverse css off Hc) as Hi.
  set (k := seg_of css off) in *. unfold seg_start, first_pss, pss in *.
  destruct (N.lt_trichotomy k j) as [Hlt|[->|Hgt]]; [|reflexivity|]; exfalso.
  - destruct (k + 1 =? 0) eqn:E1; [lia|]. destruct (j =? 0) eqn:E2; [lia|].
    destruct (k =? 0) eqn:E3; destruct (j + 1 =? 0) eqn:E4; try lia; nia.
  - destruct (j + 1 =? 0) eqn:E1; [lia|]. destruct (k =? 0) eqn:E2; [lia|].
    destruct (j =? 0) eqn:E3; destruct (k + 1 =? 0) eqn:E4; try lia; nia.
Qed.

(* the reader recovers segment count and plaintext length from the ciphertext length alone *)
Lemma reader_layout css n : 56 < css ->
  let ct := stream_len css n in
  (ct + css - 1) / css = nseg_of css n /\ ct - 40 - 16 * nseg_of css n = n /\ 56 <= ct.
Proof.
  intros Hc. unfold stream_len, nseg_of, first_pss, pss. cbn zeta.
  destruct (n <=? css - 56) eqn:E.
  - split; [|lia]. symmetry. apply (N.div_unique _ _ _ (40 + n + 16 * 1 - 1)); lia.
  - set (m := n - (css - 56)).
    set (q := (m + (css - 16) - 1) / (css - 16)).
    pose proof (N.div_mod (m + (css - 16) - 1) (css - 16)) as Hd.
    pose proof (N.mod_lt (m + (css - 16) - 1) (css - 16)) as Hm. fold q in Hd.
    set (r := (m + (css - 16) - 1) mod (css - 16)) in *.
    assert (Hq : 1 <= q) by (subst q; apply N.div_le_lower_bound; lia).
    split; [|lia].
    symmetry. apply (N.div_unique _ _ _ (r + 16)); [|].
    + assert (r + 1 <= css - 16) by lia. (* need r + 16 < css *) lia.
    + subst m. nia.
Qed.

(* ------------------------------------------------------------ authenticity of loaded segments *)
Section Ideal.
Variable css0 : N.
Variable p : bytes.
Variable hdr0 : bytes.
Variable openH : bytes -> N -> bool -> bytes -> option bytes.
(* the idealised AEAD of this stream: whatever opens is a segment the writer sealed, under the
   stream header, index and last-segment flag it was sealed with *)
Hypothesis ideal : forall hdr j last c pt, openH hdr j last c = Some pt ->
  hdr = hdr0 /\ j < nseg_of css0 (lenN p) /\ last = (j =? nseg_of css0 (lenN p) - 1) /\ pt = pt_seg css0 p j.

Lemma load_authentic rd file st j st' :
  load openH rd file st j = (st', true) ->
  buf st' = pt_seg css0 p j /\ segidx st' = Some j /\ segstart st' = seg_start (r_css rd) j /\
  pos st' = pos st /\ r_hdr rd = hdr0 /\
  j < nseg_of css0 (lenN p) /\ (j =? r_nseg rd - 1) = (j =? nseg_of css0 (lenN p) - 1).
Proof.
  unfold load. destruct (r_ctlen rd <? _); [intros H; inversion H|].
  destruct (N.min _ _ <? 16); [intros H; inversion H|].
  destruct (4294967295 <? j); [intros H; inversion H|].
  destruct (openH _ _ _ _) as [pt|] eqn:E.
  - intros H; inversion H; subst; cbn. apply ideal in E. destruct E as [E1 [E2 [E3 E4]]]. subst pt. auto 8.
  - destruct (_ <=? cap st); intros H; inversion H.
Qed.

Lemma load_fail_pos rd file st j st' : load openH rd file st j = (st', false) -> pos st' = pos st.
Proof.
  unfold load. destruct (r_ctlen rd <? _); [intros H; inversion H; reflexivity|].
  destruct (N.min _ _ <? 16); [intros H; inversion H; reflexivity|].
  destruct (4294967295 <? j); [intros H; inversion H; reflexivity|].
  destruct (openH _ _ _ _) as [pt|]; [intros H; inversion H|].
  destruct (_ <=? cap st); intros H; inversion H; reflexivity.
Qed.

Lemma skipn_skipn' {A} (a b : nat) (l : list A) : skipn a (skipn b l) = skipn (b + a) l.
Proof.
  revert l; induction b as [|b IH]; intros l; [reflexivity|].
  destruct l; cbn; [destruct a; reflexivity | apply IH].
Qed.

Lemma skipn_sub (l : bytes) (start c d : N) : d <= c ->
  skipn (N.to_nat d) (sub l start c) = sub l (start + d) (c - d).
Proof.
  intros Hd. unfold sub. rewrite skipn_firstn_comm, skipn_skipn'.
  f_equal; [lia | f_equal; lia].
Qed.

Lemma firstn_sub (l : bytes) (start c n : N) :
  firstn (N.to_nat n) (sub l start c) = sub l start (N.min n c).
Proof. unfold sub. rewrite firstn_firstn. f_equal. lia. Qed.

Lemma sub_length (l : bytes) (start c : N) : lenN (sub l start c) = N.min c (lenN l - start).
Proof. unfold sub, lenN. rewrite firstn_length, skipn_length. lia. Qed.

Lemma sub_clip (l : bytes) (s c : N) : sub l s (lenN (sub l s c)) = sub l s c.
Proof.
  unfold sub, lenN. rewrite Nat2N.id. set (x := skipn _ l). rewrite firstn_length.
  destruct (le_lt_dec (N.to_nat c) (length x)).
  - rewrite Nat.min_l by lia. reflexivity.
  - rewrite Nat.min_r by lia. rewrite !firstn_all2 by lia. reflexivity.
Qed.

(* a Read that has to (re)load its segment returns exactly the original bytes at its position,
   when the reader runs with the writer's segment size *)
Lemma read_loaded_exact rd file st n st' d : 56 < css0 -> r_css rd = css0 ->
  eq_optN (segidx st) (seg_of css0 (pos st)) = false ->
  read openH rd file st n = (st', RData d) ->
  d = sub p (pos st) (lenN d) /\ pos st' = pos st + lenN d.
Proof.
  intros Hc Hcss Hne. unfold read. destruct (r_ptlen rd <=? pos st); [intros H; inversion H|].
  rewrite Hcss, Hne. destruct (load openH rd file st (seg_of css0 (pos st))) as [st1 ok] eqn:El.
  destruct ok; cbn [negb]; [|intros H; inversion H].
  destruct (load_authentic _ _ _ _ _ El) as [Hb [Hi [Hs [Hp _]]]].
  rewrite Hb, Hs, Hp, Hcss.
  destruct (lenN (pt_seg css0 p _) <? _) eqn:Elen; [intros H; inversion H|].
  intros H; injection H as H1 H2. rewrite <- H1, <- H2. clear H1 H2. cbn [pos]. split; [|reflexivity].
  pose proof (seg_index_inverse css0 (pos st) Hc) as Hinv.
  set (j := seg_of css0 (pos st)) in *. set (o := pos st) in *.
  unfold pt_seg in *. rewrite sub_length in Elen.
  assert (Hcap : seg_start css0 (j + 1) = seg_start css0 j + seg_cap css0 j).
  { unfold seg_start, seg_cap, first_pss, pss. destruct (j =? 0) eqn:E0.
    - replace (j + 1 =? 0) with false by lia. replace (j + 1 - 1) with 0 by lia. lia.
    - replace (j + 1 =? 0) with false by lia. replace (j + 1 - 1) with (j - 1 + 1) by lia. lia. }
  rewrite skipn_sub by lia. rewrite firstn_sub.
  replace (seg_start css0 j + (o - seg_start css0 j)) with o by lia.
  symmetry. apply sub_clip.
Qed.

(* a reader built for another part id (wrong key: nothing opens) fails every read before EOF *)
End Ideal.

Lemma load_none rd file st j : snd (load (fun _ _ _ _ => None) rd file st j) = false.
Proof.
  unfold load. destruct (r_ctlen rd <? _); [reflexivity|]. destruct (N.min _ _ <? 16); [reflexivity|].
  destruct (4294967295 <? j); [reflexivity|]. destruct (_ <=? cap st); reflexivity.
Qed.

Lemma wrong_key_fails rd file st n :
  pos st < r_ptlen rd -> segidx st = None ->
  snd (read (fun _ _ _ _ => None) rd file st n) = RFail.
Proof.
  intros Hp Hs. unfold read. replace (r_ptlen rd <=? pos st) with false by lia.
  rewrite Hs. cbn [eq_optN].
  pose proof (load_none rd file st (seg_of (r_css rd) (pos st))) as Hl.
  destruct (load _ rd file st _) as [st1 ok]. cbn in Hl. subst ok. reflexivity.
Qed.

(* ------------------------------------------------------------ the ideal table AEAD is ideal *)
Lemma ideal_open_ideal css0 p hdr j last c pt :
  ideal_open css0 p true hdr j last c = Some pt ->
  hdr = toy_hdr /\ j < nseg_of css0 (lenN p) /\ last = (j =? nseg_of css0 (lenN p) - 1) /\ pt = pt_seg css0 p j.
Proof.
  unfold ideal_open. cbn [andb].
  destruct (bytes_eqb hdr toy_hdr) eqn:E1; cbn [andb]; [|discriminate].
  destruct (j <? _) eqn:E2; cbn [andb]; [|discriminate].
  destruct (Bool.eqb last _) eqn:E3; cbn [andb]; [|discriminate].
  destruct (bytes_eqb c _); [|discriminate].
  intros H; inversion H. apply bytes_eqb_eq in E1. apply Bool.eqb_prop in E3. repeat split; auto. lia.
Qed.

Lemma ideal_open_correct css0 p j : j < nseg_of css0 (lenN p) ->
  let last := (j =? nseg_of css0 (lenN p) - 1) in
  ideal_open css0 p true toy_hdr j last (toy_seal j last (pt_seg css0 p j)) = Some (pt_seg css0 p j).
Proof.
  intros Hj. cbn zeta. unfold ideal_open. rewrite !bytes_eqb_refl, Bool.eqb_reflx.
  replace (j <? _) with true by lia. reflexivity.
Qed.

(* complete enumeration: segment sizes 57, 58, 64; every length up to 2*css+40; every offset *)
Lemma seek_read_bounded :
  forallb (fun css => forallb (fun n => forallb (fun off => seek_read_ok css n off) (upto n))
                              (upto (2 * css + 40)))
          [57; 58; 64] = true.
Proof. vm_compute. reflexivity. Qed.
