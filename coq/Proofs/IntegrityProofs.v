(* Proofs/IntegrityProofs.v — the validator model against "flags exactly the corrupted objects". *)
From Verif Require Import Bytes Codec Integrity.
Local Open Scope N_scope.

Lemma Ns_eqb_refl l : Ns_eqb l l = true.
Proof. induction l; cbn; [reflexivity|]. rewrite N.eqb_refl. exact IHl. Qed.

(* a part is damaged: its bytes are gone or differ from what was recorded *)
Definition damaged (p : part) : Prop := actual p = None \/ exists a, actual p = Some a /\ a <> rec p.
Definition corrupted (o : obj) : Prop := exists p, In p (parts o) /\ damaged p.

(* how the storage records ETags: PutObject -> the digest of the single part; multipart/append ->
   derived from the recorded part ETags *)
Definition recorded_by_put (o : obj) : Prop := exists p, parts o = [p] /\ oetag o = Single (rec p).
Definition recorded_by_multipart (o : obj) : Prop := oetag o = Multi (map rec (parts o)).

Lemma part_ok_iff p : part_ok p = false <-> damaged p.
Proof.
  unfold part_ok, damaged. destruct (actual p) as [a|].
  - rewrite N.eqb_neq. split; [intros H; right; exists a; auto | intros [H|[a' [E H]]]; [discriminate | inversion E; subst; exact H]].
  - split; auto.
Qed.

Lemma forallb_part_ok_false ps : forallb part_ok ps = false <-> exists p, In p ps /\ damaged p.
Proof.
  induction ps as [|p ps IH]; cbn.
  - split; [discriminate | intros [p [[] _]]].
  - rewrite andb_false_iff, IH, part_ok_iff. split.
    + intros [H | [q [Hq Hd]]]; [exists p; auto | exists q; auto].
    + intros [q [[<- | Hq] Hd]]; [left; exact Hd | right; exists q; auto].
Qed.

Lemma flags_iff_put o : recorded_by_put o -> (validate_object o = false <-> corrupted o).
Proof.
  intros [p [Hp He]]. unfold validate_object, corrupted. destruct (forallb part_ok (parts o)) eqn:F.
  - split.
    + intros H. exfalso. unfold object_ok in H. rewrite Hp, He in *. cbn in F. rewrite andb_true_r in F.
      unfold part_ok in F. destruct (actual p) as [a|]; [|discriminate]. apply N.eqb_eq in F. subst a.
      cbn in H. rewrite N.eqb_refl in H. discriminate.
    + intros H. apply forallb_part_ok_false in H. congruence.
  - split; [intros _; apply forallb_part_ok_false; exact F | reflexivity].
Qed.

Lemma flags_iff_multi o : recorded_by_multipart o -> length (parts o) <> 1%nat ->
  (validate_object o = false <-> corrupted o).
Proof.
  intros He Hl. unfold validate_object, corrupted. destruct (forallb part_ok (parts o)) eqn:F.
  - split.
    + intros H. exfalso. unfold object_ok in H. rewrite He in H.
      destruct (parts o) as [|p [|q r]] eqn:P; cbn in H, Hl; try congruence.
      * rewrite !N.eqb_refl, Ns_eqb_refl in H. discriminate.
    + intros H. apply forallb_part_ok_false in H. congruence.
  - split; [intros _; apply forallb_part_ok_false; exact F | reflexivity].
Qed.

Lemma flags_iff_stmt : forall o,
  recorded_by_put o \/ (recorded_by_multipart o /\ length (parts o) <> 1%nat) ->
  (validate_object o = false <-> corrupted o).
Proof. intros o [H | [H1 H2]]; [apply flags_iff_put | apply flags_iff_multi]; assumption. Qed.

(* an intact multipart object with exactly one part is reported *)
Definition one_part_multipart : obj := {| oetag := Multi [7]; parts := [{| rec := 7; actual := Some 7 |}] |}.
Lemma one_part_multipart_flagged :
  recorded_by_multipart one_part_multipart /\ validate_object one_part_multipart = false /\ ~ corrupted one_part_multipart.
Proof.
  split; [reflexivity|]. split; [reflexivity|]. intros [p [[<- | []] [H | [a [E H]]]]]; cbn in *; [discriminate|].
  inversion E; subst. apply H. reflexivity.
Qed.

(* corrupted objects are always reported, whatever the recorded ETag form (no false negatives) *)
Lemma corrupted_reported : forall o, corrupted o -> validate_object o = false.
Proof. intros o H. unfold validate_object. apply forallb_part_ok_false in H. rewrite H. reflexivity. Qed.

(* ValidateAll: deletions only of reported objects, only in delete mode, one result per object *)
Lemma deletes_only_flagged_stmt : forall l del objs rs,
  validate_all l del objs = Some rs ->
  length rs = length objs /\
  forall i, (i < length objs)%nat ->
    fst (nth i rs (true, false)) = validate_object (nth i objs {| oetag := Multi []; parts := [] |}) /\
    (snd (nth i rs (true, false)) = true -> del = true /\ fst (nth i rs (true, false)) = false).
Proof.
  intros l del objs rs H. unfold validate_all in H. destruct (find_part_store l); [|discriminate].
  inversion H; subst. clear H. split; [apply map_length|]. intros i Hi.
  set (d := {| oetag := Multi []; parts := [] |}).
  rewrite (nth_indep _ (true, false) ((fun o => let s := validate_object o in (s, negb s && del)) d)) by (rewrite map_length; exact Hi).
  rewrite (map_nth (fun o => let s := validate_object o in (s, negb s && del))). cbn.
  split; [reflexivity|]. intros E. apply andb_true_iff in E. destruct E as [E1 E2].
  split; [exact E2|]. destruct (validate_object (nth i objs d)); [discriminate | reflexivity].
Qed.

(* on the storage the server builds ValidateAll runs, and its verdicts are validateObject's *)
Lemma validate_all_runs_stmt : forall del objs,
  validate_all current_layout del objs =
  Some (map (fun o => (validate_object o, negb (validate_object o) && del)) objs).
Proof. reflexivity. Qed.

(* the layout before /repo df6e7b9: the search found nothing and ValidateAll failed for every input *)
Lemma validate_all_failed_before_fix : forall del objs, validate_all (L false []) del objs = None.
Proof. reflexivity. Qed.

(* the search does find a part store that is a direct field of the storage or of a wrapped storage *)
Lemma find_part_store_spec : forall d inner,
  find_part_store (L d inner) = true <-> d = true \/ exists l, In l inner /\ find_part_store l = true.
Proof.
  intros d inner. cbn. rewrite orb_true_iff, existsb_exists. tauto.
Qed.

Lemma validate_all_exact_stmt : forall del objs rs,
  Forall (fun o => recorded_by_put o \/ (recorded_by_multipart o /\ length (parts o) <> 1%nat)) objs ->
  validate_all current_layout del objs = Some rs ->
  length rs = length objs /\
  forall i, (i < length objs)%nat ->
    let o := nth i objs {| oetag := Multi []; parts := [] |} in
    (fst (nth i rs (true, false)) = false <-> corrupted o) /\
    (snd (nth i rs (true, false)) = true <-> corrupted o /\ del = true).
Proof.
  intros del objs rs HF H. rewrite validate_all_runs_stmt in H. inversion H; subst. clear H.
  split; [apply map_length|]. intros i Hi.
  set (d := {| oetag := Multi []; parts := [] |}).
  set (f := fun o => (validate_object o, negb (validate_object o) && del)).
  rewrite (nth_indep _ (true, false) (f d)) by (rewrite map_length; exact Hi).
  rewrite (map_nth f). cbn.
  assert (Hw : validate_object (nth i objs d) = false <-> corrupted (nth i objs d)).
  { apply flags_iff_stmt. rewrite Forall_forall in HF. apply HF. apply nth_In. exact Hi. }
  split; [exact Hw|]. rewrite andb_true_iff, negb_true_iff, Hw. tauto.
Qed.
