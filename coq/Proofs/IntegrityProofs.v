(* Proofs/IntegrityProofs.v — the validator model against "flags exactly the corrupted objects". *)
From Verif Require Import Bytes Codec Integrity.
Local Open Scope N_scope.

Lemma Ns_eqb_refl l : Ns_eqb l l = true.
Proof. induction l; cbn; [reflexivity|]. rewrite N.eqb_refl. exact IHl. Qed.
Lemma etag_eqb_multi_refl ds n : etag_eqb (Multi ds n) (Multi ds n) = true.
Proof. cbn. rewrite Ns_eqb_refl, Nat.eqb_refl. reflexivity. Qed.
Lemma cks_eqb_refl c : c <> GarbledC -> cks_eqb c c = true.
Proof.
  destruct c; cbn; intros H; try (rewrite ?N.eqb_refl, ?Ns_eqb_refl, ?Nat.eqb_refl; reflexivity). congruence.
Qed.
Lemma mk_comb_not_garbled ds : mk_comb ds <> GarbledC.
Proof. destruct ds as [|a [|b r]]; cbn; discriminate. Qed.

(* a part is damaged: its bytes are gone or differ from what was recorded *)
Definition damaged (p : part) : Prop := actual p = None \/ exists a, actual p = Some a /\ a <> rec p.
Definition corrupted (o : obj) : Prop := exists p, In p (parts o) /\ damaged p.

(* ---- how the storage records object checksums (classes of objects) ---- *)
Definition recs (o : obj) : list N := map rec (parts o).
Definition opt_is (x : option cks) (v : cks) : Prop := x = None \/ x = Some v.
(* PutObject, ranged CopyObject (and full copies of those): one part; ETag and checksum fields are the
   part's plain digests; the checksum type is irrelevant *)
Definition recorded_by_put (o : obj) : Prop :=
  exists p, parts o = [p] /\ oetag o = Single (rec p) /\
            opt_is (ocrc o) (Plain (rec p)) /\ opt_is (osha o) (Plain (rec p)).
(* multipart upload with checksum type COMPOSITE (and full copies of it) *)
Definition recorded_composite (o : obj) : Prop :=
  otype o = TComp /\ oetag o = Multi (recs o) (length (parts o)) /\
  opt_is (ocrc o) (Comp (recs o) (length (parts o))) /\ opt_is (osha o) (Comp (recs o) (length (parts o))).
(* multipart upload with checksum type FULL_OBJECT or unspecified, AppendObject results (no CRC
   recorded), and full copies of those; a recorded SHA field is never compared *)
Definition recorded_full (o : obj) : Prop :=
  otype o = TFull /\ oetag o = Multi (recs o) (length (parts o)) /\
  (ocrc o = None \/ ocrc o = calc_comb (recs o)).

Lemma part_ok_iff p : part_ok p = false <-> damaged p.
Proof.
  unfold part_ok, damaged. destruct (actual p) as [a|].
  - rewrite N.eqb_neq. split; [intros H; right; exists a; auto | intros [H|[a' [E H]]]; [discriminate | inversion E; subst; exact H]].
  - split; auto.
Qed.

Lemma forallb_part_ok_false ps : forallb part_ok ps = false <-> exists p, In p ps /\ damaged p.
Proof.
  induction ps as [|p ps IH]; cbn.
  - split; [discriminate | intros [p [[] _]]].
  - rewrite andb_false_iff, IH, part_ok_iff. split.
    + intros [H | [q [Hq Hd]]]; [exists p; auto | exists q; auto].
    + intros [q [[<- | Hq] Hd]]; [left; exact Hd | right; exists q; auto].
Qed.

Lemma opt_match_is x v : opt_is x v -> v <> GarbledC -> opt_match x (Some v) = true.
Proof. intros [-> | ->] H; cbn; [reflexivity | apply cks_eqb_refl; exact H]. Qed.

(* when every part is fine, the object-level check passes for the three classes *)
Lemma object_ok_put o : recorded_by_put o -> forallb part_ok (parts o) = true -> object_ok o = true.
Proof.
  intros [p [Hp [He [Hc Hs]]]] F. unfold object_ok. rewrite Hp in *. cbn in F. rewrite andb_true_r in F.
  unfold part_ok in F. destruct (actual p) as [a|]; [|discriminate]. apply N.eqb_eq in F. subst a.
  rewrite He. cbn [etag_eqb]. rewrite N.eqb_refl.
  rewrite (opt_match_is _ _ Hc), (opt_match_is _ _ Hs) by discriminate. reflexivity.
Qed.
Lemma object_ok_composite o : recorded_composite o -> length (parts o) <> 1%nat -> object_ok o = true.
Proof.
  intros [Ht [He [Hc Hs]]] Hl. unfold object_ok, recs in *.
  destruct (parts o) as [|p [|q r]] eqn:P; cbn [length] in Hl; try congruence;
    rewrite Ht, He, etag_eqb_multi_refl, (opt_match_is _ _ Hc), (opt_match_is _ _ Hs) by discriminate; reflexivity.
Qed.
Lemma object_ok_full o : recorded_full o -> length (parts o) <> 1%nat -> object_ok o = true.
Proof.
  intros [Ht [He Hc]] Hl. unfold object_ok, recs in *.
  destruct (parts o) as [|p [|q r]] eqn:P; cbn [length] in Hl; try congruence;
    rewrite Ht, He, etag_eqb_multi_refl; cbn [andb].
  - destruct Hc as [-> | ->]; reflexivity.
  - destruct Hc as [-> | ->]; [reflexivity|]. cbn [map calc_comb opt_match]. apply cks_eqb_refl, mk_comb_not_garbled.
Qed.

Lemma flags_iff_stmt : forall o,
  recorded_by_put o \/ ((recorded_composite o \/ recorded_full o) /\ length (parts o) <> 1%nat) ->
  (validate_object o = false <-> corrupted o).
Proof.
  intros o H. unfold validate_object, corrupted. destruct (forallb part_ok (parts o)) eqn:F.
  - assert (object_ok o = true) as ->.
    { destruct H as [H | [[H | H] Hl]];
        [apply object_ok_put | apply object_ok_composite | apply object_ok_full]; assumption. }
    split; [discriminate|]. intros C. apply forallb_part_ok_false in C. congruence.
  - split; [intros _; apply forallb_part_ok_false; exact F | reflexivity].
Qed.

(* an intact object with a multipart-style ETag and exactly one part is reported: FULL_OBJECT /
   unspecified / append form and COMPOSITE form *)
Definition one_part_full : obj :=
  {| otype := TFull; oetag := Multi [7] 1; ocrc := None; osha := None; parts := [{| rec := 7; actual := Some 7 |}] |}.
Definition one_part_composite : obj :=
  {| otype := TComp; oetag := Multi [7] 1; ocrc := Some (Comp [7] 1); osha := Some (Comp [7] 1);
     parts := [{| rec := 7; actual := Some 7 |}] |}.
Lemma not_corrupted_7 o : parts o = [{| rec := 7; actual := Some 7 |}] -> ~ corrupted o.
Proof.
  intros P [p [Hin [H | [a [E H]]]]]; rewrite P in Hin; destruct Hin as [<- | []]; cbn in *; [discriminate|].
  inversion E; subst. apply H. reflexivity.
Qed.
Lemma one_part_flagged :
  (recorded_full one_part_full /\ validate_object one_part_full = false /\ ~ corrupted one_part_full) /\
  (recorded_composite one_part_composite /\ validate_object one_part_composite = false /\ ~ corrupted one_part_composite).
Proof.
  split; (split; [repeat split; auto; right; reflexivity || (left; reflexivity) |]); (split; [reflexivity | apply not_corrupted_7; reflexivity]).
Qed.

(* corrupted objects are always reported, whatever was recorded (no false negatives) *)
Lemma corrupted_reported : forall o, corrupted o -> validate_object o = false.
Proof. intros o H. unfold validate_object. apply forallb_part_ok_false in H. rewrite H. reflexivity. Qed.

(* ---- the object kinds of the harness fall into the classes ---- *)
Lemma rec_resolve w ids : map rec (map (resolve w) ids) = ids.
Proof. induction ids; cbn; congruence. Qed.

Lemma put_in_class w id : recorded_by_put (to_obj w (put_spec id)).
Proof. exists (resolve w id). cbn. split; [reflexivity|]. split; [reflexivity|]. split; right; reflexivity. Qed.
Lemma composite_in_class w ids : recorded_composite (to_obj w (multipart_spec TComp ids)).
Proof.
  unfold recorded_composite, recs. cbn. rewrite rec_resolve, map_length.
  split; [reflexivity|]. split; [reflexivity|]. split; right; reflexivity.
Qed.
Lemma full_in_class w ids : recorded_full (to_obj w (multipart_spec TFull ids)).
Proof.
  unfold recorded_full, recs. cbn. rewrite rec_resolve, map_length.
  split; [reflexivity|]. split; [reflexivity|]. right; reflexivity.
Qed.
Lemma append_in_class w ids : recorded_full (to_obj w (append_spec ids)).
Proof.
  unfold recorded_full, recs. cbn. rewrite rec_resolve, map_length.
  split; [reflexivity|]. split; [reflexivity|]. left; reflexivity.
Qed.

Lemma kinds_in_classes : forall w,
  (forall id, recorded_by_put (to_obj w (put_spec id))) /\
  (forall ids, recorded_composite (to_obj w (multipart_spec TComp ids))) /\
  (forall ids, recorded_full (to_obj w (multipart_spec TFull ids))) /\
  (forall ids, recorded_full (to_obj w (append_spec ids))) /\
  (forall s, length (parts (to_obj w s)) = length (sids s)).
Proof.
  intros w. split; [apply put_in_class|]. split; [apply composite_in_class|]. split; [apply full_in_class|].
  split; [apply append_in_class|]. intros s. cbn. apply map_length.
Qed.

(* parts are shared between objects (deduplication, full copies): a modified part file makes EVERY
   object that references it reported — a verdict may not be reused for the bytes of another object
   unless it is the verdict of these very bytes *)
Lemma shared_part_corrupts_all : forall w s id v,
  In id (sids s) -> wfind w id = Some v -> (v = None \/ exists a, v = Some a /\ a <> id) ->
  validate_object (to_obj w s) = false.
Proof.
  intros w s id v Hin Hw Hv. apply corrupted_reported. exists (resolve w id). split.
  - cbn. apply in_map. exact Hin.
  - unfold damaged, resolve. cbn. rewrite Hw. destruct Hv as [-> | [a [-> Ha]]]; [left; reflexivity | right; exists a; auto].
Qed.

(* a COMPOSITE object (>= 2 parts, CRC recorded) whose checksum type says FULL_OBJECT is reported although
   its bytes are intact: the validator is right to flag the record, the writer of the record is wrong *)
Lemma retyped_composite_reported : forall o,
  recorded_composite o -> (2 <= length (parts o))%nat -> ocrc o = Some (Comp (recs o) (length (parts o))) ->
  validate_object {| otype := TFull; oetag := oetag o; ocrc := ocrc o; osha := osha o; parts := parts o |} = false.
Proof.
  intros o [Ht [He _]] Hl Hc. unfold validate_object. cbn [parts].
  destruct (forallb part_ok (parts o)); [|reflexivity].
  unfold object_ok. cbn [parts otype oetag ocrc]. unfold recs in *.
  destruct (parts o) as [|p [|q r]] eqn:P; cbn [length] in Hl; try lia.
  rewrite He, etag_eqb_multi_refl, Hc. reflexivity.
Qed.

(* ValidateAll: deletions only of reported objects, only in delete mode, one result per object *)
Definition dflt : obj := {| otype := TFull; oetag := Multi [] 0; ocrc := None; osha := None; parts := [] |}.
Lemma deletes_only_flagged_stmt : forall l del objs rs,
  validate_all l del objs = Some rs ->
  length rs = length objs /\
  forall i, (i < length objs)%nat ->
    fst (nth i rs (true, false)) = validate_object (nth i objs dflt) /\
    (snd (nth i rs (true, false)) = true -> del = true /\ fst (nth i rs (true, false)) = false).
Proof.
  intros l del objs rs H. unfold validate_all in H. destruct (find_part_store l); [|discriminate].
  inversion H; subst. clear H. split; [apply map_length|]. intros i Hi.
  rewrite (nth_indep _ (true, false) ((fun o => let s := validate_object o in (s, negb s && del)) dflt)) by (rewrite map_length; exact Hi).
  rewrite (map_nth (fun o => let s := validate_object o in (s, negb s && del))). cbn.
  split; [reflexivity|]. intros E. apply andb_true_iff in E. destruct E as [E1 E2].
  split; [exact E2|]. destruct (validate_object (nth i objs dflt)); [discriminate | reflexivity].
Qed.

(* on the storage the server builds ValidateAll runs, and its verdicts are validateObject's *)
Lemma validate_all_runs_stmt : forall del objs,
  validate_all current_layout del objs =
  Some (map (fun o => (validate_object o, negb (validate_object o) && del)) objs).
Proof. reflexivity. Qed.

(* the layout before /repo df6e7b9: the search found nothing and ValidateAll failed for every input *)
Lemma validate_all_failed_before_fix : forall del objs, validate_all (L false []) del objs = None.
Proof. reflexivity. Qed.

Lemma find_part_store_spec : forall d inner,
  find_part_store (L d inner) = true <-> d = true \/ exists l, In l inner /\ find_part_store l = true.
Proof. intros d inner. cbn. rewrite orb_true_iff, existsb_exists. tauto. Qed.

Lemma validate_all_exact_stmt : forall del objs rs,
  Forall (fun o => recorded_by_put o \/ ((recorded_composite o \/ recorded_full o) /\ length (parts o) <> 1%nat)) objs ->
  validate_all current_layout del objs = Some rs ->
  length rs = length objs /\
  forall i, (i < length objs)%nat ->
    let o := nth i objs dflt in
    (fst (nth i rs (true, false)) = false <-> corrupted o) /\
    (snd (nth i rs (true, false)) = true <-> corrupted o /\ del = true).
Proof.
  intros del objs rs HF H. rewrite validate_all_runs_stmt in H. inversion H; subst. clear H.
  split; [apply map_length|]. intros i Hi.
  set (f := fun o => (validate_object o, negb (validate_object o) && del)).
  rewrite (nth_indep _ (true, false) (f dflt)) by (rewrite map_length; exact Hi).
  rewrite (map_nth f). cbn.
  assert (Hw : validate_object (nth i objs dflt) = false <-> corrupted (nth i objs dflt)).
  { apply flags_iff_stmt. rewrite Forall_forall in HF. apply HF. apply nth_In. exact Hi. }
  split; [exact Hw|]. rewrite andb_true_iff, negb_true_iff, Hw. tauto.
Qed.

(* ================= several buckets ================= *)
From Coq Require Import Permutation.
Local Open Scope nat_scope.

Definition zero_counters : counters := {| c_total := 0; c_failed := 0; c_deleted := 0 |}.
Definition n_failed (r : list (bool * bool * post)) : nat :=
  count_true (map (fun x : bool * bool * post => negb (fst (fst x))) r).
Definition n_deleted (r : list (bool * bool * post)) : nat :=
  count_true (map (fun x : bool * bool * post => snd (fst x)) r).
Definition sum_by {A} (f : A -> nat) (l : list A) : nat := list_sum (map f l).

Lemma sum_by_cons {A} (f : A -> nat) x l : sum_by f (x :: l) = f x + sum_by f l.
Proof. reflexivity. Qed.

Lemma fold_bucket_step del : forall bs c acc,
  fold_left (bucket_step del) bs (c, acc) =
  ({| c_total := c_total c + sum_by (@length _) (map (validate_bucket del) bs);
      c_failed := c_failed c + sum_by n_failed (map (validate_bucket del) bs);
      c_deleted := c_deleted c + sum_by n_deleted (map (validate_bucket del) bs) |},
   acc ++ map (validate_bucket del) bs).
Proof.
  induction bs as [|b bs IH]; intros c acc.
  - cbn. rewrite !Nat.add_0_r, app_nil_r. destruct c; reflexivity.
  - cbn [fold_left]. unfold bucket_step at 2. cbn [fst snd]. rewrite IH.
    cbn [map]. rewrite !sum_by_cons. unfold add_counters. cbn [c_total c_failed c_deleted].
    rewrite <- app_assoc. cbn [app]. f_equal. fold (n_failed (validate_bucket del b)). fold (n_deleted (validate_bucket del b)).
    f_equal; lia.
Qed.

(* the fold over the buckets is a map: the verdicts and deletions of a bucket depend on that bucket
   only; the only state carried from bucket to bucket are the three report counters, which are sums *)
Lemma buckets_independent_stmt : forall del bs,
  validate_buckets current_layout del bs =
  Some ({| c_total := sum_by (@length _) (map (validate_bucket del) bs);
           c_failed := sum_by n_failed (map (validate_bucket del) bs);
           c_deleted := sum_by n_deleted (map (validate_bucket del) bs) |},
        map (validate_bucket del) bs).
Proof. intros del bs. unfold validate_buckets. cbn [find_part_store current_layout orb]. rewrite fold_bucket_step. reflexivity. Qed.

Lemma sum_by_perm {A} (f : A -> nat) l l' : Permutation l l' -> sum_by f l = sum_by f l'.
Proof. unfold sum_by, list_sum. induction 1; cbn [map fold_right] in *; lia. Qed.

(* every order of the buckets gives the same per-bucket results and the same counters *)
Lemma bucket_order_irrelevant_stmt : forall del bs bs', Permutation bs bs' ->
  exists c rs rs', validate_buckets current_layout del bs = Some (c, rs) /\
                   validate_buckets current_layout del bs' = Some (c, rs') /\
                   Permutation rs rs' /\
                   rs = map (validate_bucket del) bs /\ rs' = map (validate_bucket del) bs'.
Proof.
  intros del bs bs' P. rewrite !buckets_independent_stmt.
  pose proof (Permutation_map (validate_bucket del) P) as PM.
  rewrite <- (sum_by_perm _ _ _ PM), <- (sum_by_perm n_failed _ _ PM), <- (sum_by_perm n_deleted _ _ PM).
  eexists _, _, _. repeat split; auto.
Qed.

Definition exact_class (o : obj) : Prop :=
  recorded_by_put o \/ ((recorded_composite o \/ recorded_full o) /\ length (parts o) <> 1).

Lemma verdict_exact del versioned o : exact_class o ->
  let v := verdict del versioned o in
  (fst (fst v) = false <-> corrupted o) /\
  (snd (fst v) = true <-> corrupted o /\ del = true) /\
  (snd v <> Kept <-> corrupted o /\ del = true) /\
  (snd v = delete_effect versioned \/ snd v = Kept).
Proof.
  intros E. pose proof (flags_iff_stmt o E) as Hw. unfold verdict. cbn [fst snd].
  destruct (validate_object o) eqn:V; destruct del; cbn.
  all: repeat split; try tauto; try (intros; exfalso; (discriminate || (apply Hw in H; discriminate) || tauto)).
  all: try (intros [C _]; apply Hw in C; discriminate).
  all: try (intros _; split; [apply Hw; reflexivity | reflexivity]).
  all: try (destruct versioned; cbn; discriminate).
  all: try (left; reflexivity); try (right; reflexivity).
  all: try (intros H; exfalso; apply H; reflexivity).
  all: try (intros [_ H]; discriminate).
Qed.

(* deleted = flagged, bucket by bucket *)
Lemma deleted_eq_flagged_stmt : forall del bs c rs,
  Forall (fun b => Forall exact_class (bobjs b)) bs ->
  validate_buckets current_layout del bs = Some (c, rs) ->
  length rs = length bs /\
  forall k b, nth_error bs k = Some b ->
    exists r, nth_error rs k = Some r /\ length r = length (bobjs b) /\
    forall i o, nth_error (bobjs b) i = Some o ->
      exists v, nth_error r i = Some v /\
        (fst (fst v) = false <-> corrupted o) /\
        (snd (fst v) = true <-> corrupted o /\ del = true) /\
        (snd v <> Kept <-> corrupted o /\ del = true) /\
        (snd v = delete_effect (bvers b) \/ snd v = Kept).
Proof.
  intros del bs c rs HF H. rewrite buckets_independent_stmt in H. inversion H; subst. clear H.
  split; [apply map_length|]. intros k b Hb.
  exists (validate_bucket del b). split; [apply map_nth_error; exact Hb|].
  split; [apply map_length|]. intros i o Ho.
  exists (verdict del (bvers b) o). split; [apply map_nth_error; exact Ho|].
  apply verdict_exact. rewrite Forall_forall in HF. apply nth_error_In in Hb. specialize (HF b Hb).
  rewrite Forall_forall in HF. apply HF. eapply nth_error_In; eauto.
Qed.

(* a report-only run deletes nothing, in any bucket *)
Lemma report_only_deletes_nothing_stmt : forall bs c rs,
  validate_buckets current_layout false bs = Some (c, rs) ->
  c_deleted c = 0 /\ Forall (Forall (fun v : bool * bool * post => snd (fst v) = false /\ snd v = Kept)) rs.
Proof.
  intros bs c rs H. rewrite buckets_independent_stmt in H. inversion H; subst. clear H. cbn [c_deleted].
  assert (F : Forall (Forall (fun v : bool * bool * post => snd (fst v) = false /\ snd v = Kept)) (map (validate_bucket false) bs)).
  { apply Forall_forall. intros r Hr. apply in_map_iff in Hr. destruct Hr as [b [<- _]].
    apply Forall_forall. intros v Hv. apply in_map_iff in Hv. destruct Hv as [o [<- _]].
    unfold verdict. cbn. rewrite andb_false_r. auto. }
  split; [|exact F].
  induction (map (validate_bucket false) bs) as [|r l IH]; [reflexivity|].
  inversion F as [|? ? Fr Fl]; subst. rewrite sum_by_cons, (IH Fl), Nat.add_0_r.
  unfold n_deleted, count_true. clear -Fr. induction r as [|v r IHr]; [reflexivity|].
  inversion Fr as [|? ? [Hv _] Fr']; subst. cbn [map filter]. rewrite Hv. apply IHr. exact Fr'.
Qed.

(* the DeletedObjects counter is the number of deleted verdicts, FailedObjects the number of reported ones *)
Lemma counters_stmt : forall del bs c rs,
  validate_buckets current_layout del bs = Some (c, rs) ->
  c_total c = sum_by (@length _) rs /\ c_failed c = sum_by n_failed rs /\ c_deleted c = sum_by n_deleted rs.
Proof. intros del bs c rs H. rewrite buckets_independent_stmt in H. inversion H; subst. auto. Qed.
