(* Proofs/MetaGcFinal.v — the interleaving lemmas of MetaGcSafe.v with their three premises about
   Meta.step discharged by the theorems of Proofs/MetaPartsOps.v (p-meta2), and the statements of
   Properties/C08gc.v and Properties/C09.v derived from them. *)
From Coq Require Import Lia ZifyBool ZifyN ZifyNat.
From Verif Require Import Bytes Codec Md5 Meta MetaGc MetaPartsDefs MetaParts MetaPartsOps
  MetaGcBasics MetaGcSafe MetaGcConverge.

Lemma reach_GInv tr : GInv (run_trace ginit tr).
Proof. apply (trace_GInv step_parts_inv step_dead step_next_id_mono). apply ginit_GInv. Qed.

Lemma gc_safe tr : let g := run_trace ginit tr in
  forall row, In row (parts (ms g)) -> store_get (store (ms g)) (p_pid row) = Some (p_content row).
Proof. cbn. destruct (reach_GInv tr) as ((_ & H2 & _) & _). exact H2. Qed.

Lemma gc_readable tr : let g := run_trace ginit tr in
  forall r, read_parts (ms g) (row_parts (ms g) r) = Some (concat (map p_content (row_parts (ms g) r))).
Proof.
  cbn. intros r. apply read_parts_ok. intros row Hrow. apply gc_safe. eapply row_parts_sub; eauto.
Qed.

Lemma gc_registry_exact tr : let s := ms (run_trace ginit tr) in
  forall pid, reg_get (registry s) pid =
              if N.eqb (live_rows s pid) 0 then None else Some (live_rows s pid).
Proof. cbn. destruct (reach_GInv tr) as ((H1 & _) & _). exact H1. Qed.

Lemma gc_condemned_dead tr1 tr2 pid : let g1 := run_trace ginit tr1 in
  In pid (g_cond g1) ->
  let s := ms (run_trace g1 tr2) in
  live_rows s pid = 0%N /\ reg_get (registry s) pid = None /\ (forall c, ~ In (c, pid) (dedup s))
  /\ (pid < next_id s)%N.
Proof.
  cbn. intros Hin.
  exact (dead_forever step_parts_inv step_dead step_next_id_mono tr2 _ pid (reach_GInv tr1) Hin).
Qed.

Lemma gc_reconcile_noop tr k aba : let g := run_trace ginit tr in
  ms (gstep_fn g (SReconcile k aba)) = ms g.
Proof.
  cbn. destruct (reach_GInv tr) as (_ & HO & _).
  destruct (nth_error (g_obs (run_trace ginit tr)) k) as [o|] eqn:En; auto. cbn.
  apply harmless_noop. rewrite Forall_forall in HO. apply HO. eapply nth_error_In; eauto.
Qed.

Lemma gc_condemn_unreferenced s pid s' : condemn_check s pid = (true, s') ->
  live_rows s pid = 0%N /\ parts s' = parts s /\ store s' = store s /\ reg_get (registry s') pid = None.
Proof. intros H. apply condemn_check_true in H. tauto. Qed.

(* ---- C09 ---- *)
Lemma gc_converges young g : g_cond g = [] ->
  let s := ms g in let s' := ms (gc_run young g) in
  parts s' = parts s /\ objs s' = objs s /\ buckets s' = buckets s
  /\ (forall pid, reg_get (registry s') pid =
                  if N.eqb (live_rows s' pid) 0 then None else Some (live_rows s' pid))
  /\ (forall c p, In (c, p) (dedup s') -> live_rows s p <> 0%N)
  /\ (forall p, store_get (store s') p =
                if N.eqb (live_rows s p) 0 && negb (mem_N p young) then None else store_get (store s) p)
  /\ g_junk (gc_run young g) = g_junk g /\ g_cond (gc_run young g) = [].
Proof. exact (gc_run_converges young g). Qed.

Definition exactly_referenced (s : mstate) : Prop :=
  forall p c, store_get (store s) p = Some c <->
              exists row, In row (parts s) /\ p_pid row = p /\ p_content row = c.

Lemma converged_exact g : PartsInv (ms g) -> g_cond g = [] -> exactly_referenced (ms (gc_run [] g)).
Proof.
  intros (_ & H2 & _) Hc.
  destruct (gc_run_converges [] g Hc) as (Hp & _ & _ & _ & _ & Hst & _). cbn zeta in *.
  intros p c. rewrite Hst, Hp. cbn [mem_N existsb negb]. rewrite andb_true_r.
  destruct (N.eqb_spec (count_rows (ms g) p) 0) as [Hz|Hnz].
  - split; [discriminate|]. intros [row [Hrow [Hpid _]]]. exfalso. subst p.
    now apply (count_rows_pos (ms g) row).
  - split.
    + intros Hs. unfold count_rows in Hnz.
      destruct (filter (fun x => N.eqb (p_pid x) p) (parts (ms g))) as [|row l] eqn:Ef; [cbn in Hnz; lia|].
      assert (In row (filter (fun x => N.eqb (p_pid x) p) (parts (ms g)))) as Hin by (rewrite Ef; now left).
      apply filter_In in Hin. destruct Hin as [Hin Heq]. apply N.eqb_eq in Heq.
      exists row. repeat split; auto. specialize (H2 row Hin). rewrite Heq in H2. congruence.
    + intros [row [Hrow [<- <-]]]. auto.
Qed.

Lemma gc_converges_no_crash tr :
  forallb (fun st => negb (is_crash st)) tr = true ->
  let g := run_trace ginit tr in
  g_cond g = [] ->
  let g' := gc_run [] g in
  g_junk g' = [] /\
  forall p c, store_get (store (ms g')) p = Some c <->
              exists row, In row (parts (ms g')) /\ p_pid row = p /\ p_content row = c.
Proof.
  cbn zeta. intros Hnc Hc. split.
  - destruct (gc_run_converges [] _ Hc) as (_ & _ & _ & _ & _ & _ & Hj & _). rewrite Hj.
    now rewrite no_crash_no_junk.
  - apply converged_exact; auto. apply reach_GInv.
Qed.

Lemma gc_converges_reachable tr :
  let g := run_trace ginit tr in
  g_cond g = [] ->
  let g' := gc_run [] g in
  forall p c, store_get (store (ms g')) p = Some c <->
              exists row, In row (parts (ms g')) /\ p_pid row = p /\ p_content row = c.
Proof. cbn zeta. intros Hc. apply converged_exact; auto. apply reach_GInv. Qed.

Lemma gc_full_refuted :
  ~ (forall tr,
      let g := run_trace ginit tr in
      g_cond g = [] ->
      let g' := gc_run [] g in
      g_junk g' = [] /\
      forall p c, store_get (store (ms g')) p = Some c <->
                  exists row, In row (parts (ms g')) /\ p_pid row = p /\ p_content row = c).
Proof.
  intros H. specialize (H [SCrashBeforeCommit B"x"] eq_refl). destruct H as [H _].
  vm_compute in H. discriminate.
Qed.

Lemma gc_backup_witness :
  let tr := [SOp 0 [] (OMb B"b"); SOp 1 [] (OPut B"b" B"k" B"old" CRNone);
             SCrashAfterCommit 2 [] (OPut B"b" B"k" B"new" CRNone)] in
  g_junk (gc_run [] (gc_run [] (run_trace ginit tr))) = [(JBackup, B"old")].
Proof. vm_compute. reflexivity. Qed.
