(* Proofs/EtagProofs.v — ETags and checksums of the model always describe the stored bytes. *)
From Verif Require Import Bytes Codec Crc CrcProofs Etag EtagSpec.

(* ---- decidable equalities ---- *)
Lemma list_bytes_eqb_eq a b : list_bytes_eqb a b = true <-> a = b.
Proof.
  revert b; induction a as [|x a IH]; intros [|y b]; cbn; try (split; congruence).
  rewrite andb_true_iff, bytes_eqb_eq, IH. split; [intros [-> ->]; reflexivity | intros E; inversion E; auto].
Qed.
Lemma hterm_eqb_eq a : forall b, hterm_eqb a b = true <-> a = b.
Proof.
  induction a as [x|x|x IH]; intros [y|y|y]; cbn; try (split; congruence).
  - rewrite bytes_eqb_eq. split; congruence.
  - rewrite list_bytes_eqb_eq. split; congruence.
  - rewrite IH. split; congruence.
Qed.
Lemma optnat_eqb_eq a b : optnat_eqb a b = true <-> a = b.
Proof. destruct a, b; cbn; try (split; congruence). rewrite Nat.eqb_eq. split; congruence. Qed.
Lemma cval_eqb_eq a b : cval_eqb a b = true <-> a = b.
Proof.
  destruct a as [d s], b as [d' s']; cbn. rewrite andb_true_iff, bytes_eqb_eq, optnat_eqb_eq.
  split; [intros [-> ->]; reflexivity | intros E; inversion E; auto].
Qed.
Lemma val_eqb_eq a b : val_eqb a b = true <-> a = b.
Proof.
  destruct a, b; cbn; try (split; congruence).
  - rewrite hterm_eqb_eq. split; congruence.
  - rewrite cval_eqb_eq. split; congruence.
Qed.
Lemma val_eqb_neq a b : a <> b -> val_eqb a b = false.
Proof. intros H. destruct (val_eqb a b) eqn:E; [apply val_eqb_eq in E; contradiction | reflexivity]. Qed.

Lemma hbad_neq t : HBad t <> t.
Proof. induction t as [x|x|x IH]; try discriminate. intros E. inversion E. contradiction. Qed.
Lemma bad_neq v : bad v <> v.
Proof.
  destruct v as [t|[d sfx]]; cbn.
  - intros E. inversion E as [E']. exact (hbad_neq t E').
  - intros E. inversion E as [E']. apply (f_equal (@length byte)) in E'. rewrite app_length in E'. cbn in E'. lia.
Qed.

(* ---- FULL_OBJECT: folding Combine over the part CRCs gives the CRC of the concatenation ---- *)
Lemma combine_of_slot_correct s a b : is_crc_slot s = true ->
  combine_of_slot s (crc_digest (crc_params_of s) a) (crc_digest (crc_params_of s) b) (lenN b) =
  crc_digest (crc_params_of s) (a ++ b).
Proof.
  destruct s; cbn [is_crc_slot]; try discriminate; intros _; cbn [combine_of_slot crc_params_of].
  - apply combine_crc32_correct.
  - apply combine_crc32c_correct.
  - apply combine_crc64nvme_correct.
Qed.

Lemma combine_parts_acc s : is_crc_slot s = true -> forall cs a,
  combine_parts s (Some (crc_digest (crc_params_of s) a)) false (map (mkpart true) cs) =
  (Some (crc_digest (crc_params_of s) (a ++ concat cs)), false).
Proof.
  intros Hs. induction cs as [|c cs IH]; intros a; cbn [map combine_parts concat].
  - rewrite app_nil_r. reflexivity.
  - cbn [mkpart p_has p_content]. rewrite combine_of_slot_correct by exact Hs. rewrite IH, app_assoc. reflexivity.
Qed.

Lemma combine_parts_full s cs : is_crc_slot s = true -> cs <> [] ->
  combine_parts s None false (map (mkpart true) cs) = (Some (crc_digest (crc_params_of s) (concat cs)), false).
Proof.
  intros Hs Hne. destruct cs as [|c cs]; [contradiction|].
  cbn [map combine_parts mkpart p_has p_content concat]. apply combine_parts_acc. exact Hs.
Qed.

Lemma combine_parts_empty s : combine_parts s None false [] = (None, false).
Proof. reflexivity. Qed.

Lemma combine_parts_nohas s : forall cs acc skip,
  snd (combine_parts s acc skip (map (mkpart false) cs)) = (skip || negb (is_nil cs))%bool.
Proof.
  induction cs as [|c cs IH]; intros acc skip; cbn [map combine_parts mkpart p_has is_nil].
  - cbn. rewrite orb_false_r. reflexivity.
  - rewrite IH. cbn. rewrite orb_true_r. destruct cs; reflexivity.
Qed.

Lemma map_content_mkpart b cs : map p_content (map (mkpart b) cs) = cs.
Proof. rewrite map_map. cbn. apply map_id. Qed.
Lemma forallb_has_true cs : forallb p_has (map (mkpart true) cs) = true.
Proof. induction cs; cbn; auto. Qed.

Lemma multipart_cks_spec cs ty s :
  multipart_cks (map (mkpart true) cs) ty s =
  if computed_multi cs ty s then Some (spec_multi cs ty s) else None.
Proof.
  unfold multipart_cks, spec_multi, computed_multi. rewrite map_content_mkpart, forallb_has_true.
  destruct s, ty; cbn [is_crc_slot]; try reflexivity;
    try (destruct cs as [|c cs]; [reflexivity|];
         rewrite combine_parts_full by (try reflexivity; discriminate); reflexivity);
    try (rewrite map_map, map_length; reflexivity).
Qed.

Lemma single_obj_ok c : obj_ok (single_obj c).
Proof.
  unfold obj_ok, cks_ok, single_obj; cbn [o_parts o_type o_cks]. split.
  - exists (VH (HOne c)). split; [reflexivity|]. left. cbn. rewrite app_nil_r. auto.
  - intros s v Hs E. unfold single_cks in E. unfold spec_multi. cbn [concat]. rewrite app_nil_r.
    destruct s; cbn [is_crc_slot] in *; try contradiction; inversion E; reflexivity.
Qed.

Lemma lookup_store k k' o l :
  lookup k (store k' o l) = if bytes_eqb k k' then Some o else lookup k l.
Proof.
  induction l as [|[k2 o2] l IH]; cbn.
  - reflexivity.
  - destruct (bytes_eqb k' k2) eqn:E2; cbn.
    + apply bytes_eqb_eq in E2. subst k2. destruct (bytes_eqb k k'); reflexivity.
    + destruct (bytes_eqb k k2) eqn:E3.
      * apply bytes_eqb_eq in E3. subst k2.
        destruct (bytes_eqb k k') eqn:E4; [|reflexivity].
        apply bytes_eqb_eq in E4. subst k'. rewrite bytes_eqb_refl in E2. discriminate.
      * exact IH.
Qed.

Lemma state_ok_store st k o : state_ok st -> obj_ok o ->
  forall ups, state_ok {| st_objs := store k o (st_objs st); st_ups := ups |}.
Proof.
  intros Hst Ho ups k' o'. cbn [st_objs]. rewrite lookup_store.
  destruct (bytes_eqb k' k); [intros E; inversion E; subst; exact Ho | apply Hst].
Qed.
Lemma state_ok_ups st ups : state_ok st -> state_ok {| st_objs := st_objs st; st_ups := ups |}.
Proof. intros H k o. apply H. Qed.

Lemma complete_obj_ok cs ty :
  obj_ok {| o_parts := cs; o_cks := multipart_cks (map (mkpart true) cs) ty; o_type := ty |}.
Proof.
  unfold obj_ok, cks_ok; cbn [o_parts o_type o_cks]. split.
  - exists (VH (HCat cs)). split; [|right; reflexivity].
    rewrite multipart_cks_spec. reflexivity.
  - intros s v Hs E. rewrite multipart_cks_spec in E.
    destruct (computed_multi cs ty s); [inversion E; reflexivity | discriminate].
Qed.

Lemma append_obj_ok cs :
  obj_ok {| o_parts := cs;
            o_cks := (fun s => match s with SEtag => multipart_cks (map (mkpart false) cs) FullObject SEtag | _ => None end);
            o_type := FullObject |}.
Proof.
  unfold obj_ok, cks_ok; cbn [o_parts o_type o_cks]. split.
  - exists (VH (HCat cs)). split; [|right; reflexivity].
    unfold multipart_cks. rewrite map_content_mkpart. reflexivity.
  - intros s v Hs E. destruct s; try contradiction; discriminate.
Qed.

Lemma single_cks_spec c s : single_cks c s = Some (spec_single c s).
Proof. unfold single_cks, spec_single. destruct (is_crc_slot s); reflexivity. Qed.

Lemma step_ok st o : state_ok st -> state_ok (fst (step st o)) /\ res_ok (snd (step st o)).
Proof.
  intros Hst. destruct o as [k c sup|k ty|u n c sup|u n src|u sup|k c sup|src dst|src dst a b|k|u]; cbn [step].
  - destruct (validate sup (single_cks c)); cbn [fst snd res_ok]; [|auto].
    split; [apply state_ok_store; [exact Hst | apply single_obj_ok] | apply single_cks_spec].
  - cbn [fst snd res_ok]. split; [apply state_ok_ups, Hst | exact I].
  - destruct (open_upload st u); [|cbn; auto].
    destruct (validate sup (single_cks c)); cbn [fst snd res_ok]; [|auto].
    split; [apply state_ok_ups, Hst | apply single_cks_spec].
  - destruct (lookup src (st_objs st)) as [so|] eqn:El; [|cbn; auto].
    destruct (concat (o_parts so)) as [|x c'] eqn:Ec; [cbn; auto|].
    destruct (open_upload st u); [|cbn; auto].
    cbn [fst snd res_ok]. split; [apply state_ok_ups, Hst|].
    exists (VH (HOne (x :: c'))). split; [reflexivity|]. left. cbn. rewrite app_nil_r. auto.
  - destruct (open_upload st u) as [up|]; [|cbn; auto].
    destruct (seq_ok 1 (u_parts up)); [|cbn; auto].
    change (map (fun c => {| p_content := c; p_has := true |}) (map snd (u_parts up)))
      with (map (mkpart true) (map snd (u_parts up))).
    destruct (validate sup _); cbn [fst snd res_ok]; [|auto].
    split; [apply state_ok_store; [exact Hst | apply complete_obj_ok] | apply (complete_obj_ok (map snd (u_parts up)) (u_type up))].
  - destruct (validate sup (single_cks c)); cbn [fst snd res_ok]; [|auto].
    set (all := _ ++ [c]).
    change (map (fun c0 => {| p_content := c0; p_has := false |}) all) with (map (mkpart false) all).
    split; [apply state_ok_store; [exact Hst | apply append_obj_ok]|].
    split; [|reflexivity]. unfold multipart_cks. rewrite map_content_mkpart. reflexivity.
  - destruct (lookup src (st_objs st)) as [so|] eqn:El; [|cbn; auto].
    cbn [fst snd res_ok]. pose proof (Hst _ _ El) as Hso.
    split; [apply state_ok_store; assumption|]. destruct Hso as [[v [Ev Hv]] _]. exists v. auto.
  - destruct (lookup src (st_objs st)) as [so|] eqn:El; [|cbn; auto].
    destruct (concat (o_parts so)) as [|x c'] eqn:Ec; [cbn; auto|].
    cbn [fst snd res_ok]. split; [apply state_ok_store; [exact Hst | apply single_obj_ok]|].
    eexists. split; [reflexivity|]. left. cbn. rewrite app_nil_r. auto.
  - destruct (lookup k (st_objs st)) as [o|] eqn:El; cbn [fst snd res_ok]; [|auto].
    split; [exact Hst | apply (Hst _ _ El)].
  - destruct (open_upload st u); cbn; auto.
Qed.

Lemma init_ok : state_ok init_state.
Proof. intros k o E. discriminate. Qed.

Theorem run_ok ops : forall st, state_ok st ->
  state_ok (fst (run st ops)) /\ Forall res_ok (snd (run st ops)).
Proof.
  induction ops as [|o ops IH]; intros st Hst; cbn [run].
  - split; [exact Hst | constructor].
  - destruct (step_ok st o Hst) as [H1 H2]. destruct (step st o) as [st1 r] eqn:Es.
    cbn [fst snd] in H1, H2. destruct (IH st1 H1) as [H3 H4]. destruct (run st1 ops) as [st2 rs].
    cbn [fst snd] in *. split; [exact H3 | constructor; assumption].
Qed.

Lemma In_all_slots s : In s all_slots.
Proof. destruct s; cbn; auto 10. Qed.

Lemma validate_false sup calc spec s :
  wrong_at sup spec s -> calc s = Some (spec s) -> validate sup calc = false.
Proof.
  intros [v [Ev Hne]] Ec. unfold validate.
  destruct (forallb (slot_agrees sup calc) all_slots) eqn:E; [|reflexivity].
  rewrite forallb_forall in E. specialize (E s (In_all_slots s)).
  unfold slot_agrees in E. rewrite Ev, Ec in E. rewrite (val_eqb_neq _ _ Hne) in E. discriminate.
Qed.

Lemma open_upload_nth st u up : open_upload st u = Some up -> nth_error (st_ups st) u = Some up.
Proof. unfold open_upload. destruct (nth_error (st_ups st) u) as [up'|]; [|discriminate]. destruct (u_open up'); congruence. Qed.

Theorem bad_digest_partial st o sup s :
  op_sup o = Some sup -> op_ready st o -> wrong_at sup (op_spec st o) s -> op_computed st o s = true ->
  step st o = (st, RErr BadDigest).
Proof.
  intros Hsup Hready Hwrong Hcomp.
  destruct o as [k c sup'|k ty|u n c sup'|u n src|u sup'|k c sup'|src dst|src dst a b|k|u];
    cbn in Hsup; inversion Hsup; subst sup'; cbn [step op_spec op_ready op_computed] in *; try contradiction.
  - rewrite (validate_false sup (single_cks c) (spec_single c) s Hwrong (single_cks_spec c s)). reflexivity.
  - destruct (open_upload st u); [|contradiction].
    rewrite (validate_false sup (single_cks c) (spec_single c) s Hwrong (single_cks_spec c s)). reflexivity.
  - destruct Hready as [up [Eo Hseq]]. rewrite Eo, Hseq. rewrite (open_upload_nth _ _ _ Eo) in *.
    change (map (fun c => {| p_content := c; p_has := true |}) (map snd (u_parts up)))
      with (map (mkpart true) (map snd (u_parts up))).
    erewrite validate_false; [reflexivity | exact Hwrong |].
    rewrite multipart_cks_spec, Hcomp. reflexivity.
  - rewrite (validate_false sup (single_cks c) (spec_single c) s Hwrong (single_cks_spec c s)). reflexivity.
Qed.

(* the unrestricted statement fails: a wrong SHA-256 supplied when completing a FULL_OBJECT upload *)
Definition wit_state : state :=
  fst (run init_state [OCreate B"k" FullObject; OPart 0 1 B"a" no_cks]).
Definition wit_sup : cks := fun s => match s with SSha256 => Some (bad (spec_multi [B"a"] FullObject SSha256)) | _ => None end.
Definition wit_op : op := OComplete 0 wit_sup.

Definition is_bad_digest (r : res) : bool := match r with RErr BadDigest => true | _ => false end.

Lemma witness_accepted :
  op_ready wit_state wit_op /\ wrong_at wit_sup (op_spec wit_state wit_op) SSha256 /\
  snd (step wit_state wit_op) <> RErr BadDigest.
Proof.
  split; [|split].
  - exists {| u_key := B"k"; u_type := FullObject; u_parts := [(1%N, B"a")]; u_open := true |}.
    split; vm_compute; reflexivity.
  - exists (bad (spec_multi [B"a"] FullObject SSha256)). split; [reflexivity|].
    replace (op_spec wit_state wit_op SSha256) with (spec_multi [B"a"] FullObject SSha256) by (vm_compute; reflexivity).
    apply bad_neq.
  - assert (H : is_bad_digest (snd (step wit_state wit_op)) = false) by (vm_compute; reflexivity).
    intros E. rewrite E in H. discriminate.
Qed.
