(* Proofs/MetaRows3.v — M-META at row level, layer 3: every operation is a trace [Tr] of primitive row
   actions addressed to its own (bucket,key). *)
From Verif Require Import Bytes Codec Md5 Meta MetaBasics MetaRows1.
From Coq Require Import ZifyBool ZifyN ZifyNat.

Lemma find_null_some s b k r : find_null s b k = Some r ->
  In r (objs s) /\ on_key b k r = true /\ completed r = true /\ o_vid r = Some VNull.
Proof. apply find_version_some. Qed.

Ltac dpair e :=
  let a := fresh "a" in let b := fresh "b" in let E := fresh "E" in
  destruct e as [a b] eqn:E;
  assert (a = fst e) by (rewrite E; reflexivity);
  assert (b = snd e) by (rewrite E; reflexivity); clear E; subst a b.

Ltac dm :=
  match goal with
  | |- context[match ?e with _ => _ end] =>
      lazymatch e with context[match _ with _ => _ end] => fail | _ => idtac end;
      lazymatch type of e with
      | (_ * _)%type => dpair e
      | _ => destruct e eqn:?
      end
  end.

Ltac prov_in :=
  match goal with
  | H : find_latest _ _ _ = Some ?r |- In ?r _ => exact (proj1 (find_latest_some _ _ _ _ H))
  | H : find_version _ _ _ _ = Some ?r |- In ?r _ => exact (proj1 (find_version_some _ _ _ _ _ H))
  | H : find_null _ _ _ = Some ?r |- In ?r _ => exact (proj1 (find_null_some _ _ _ _ H))
  | H : find_upload _ _ _ _ = Some ?r |- In ?r _ => exact (proj1 (find_upload_some _ _ _ _ _ H))
  | H : find_next_latest _ _ _ _ = Some ?r |- In ?r _ => exact (proj1 (find_next_latest_some _ _ _ _ _ H))
  end.
Ltac prov_key :=
  match goal with
  | H : find_latest _ _ _ = Some ?r |- on_key _ _ ?r = true => exact (proj1 (proj2 (find_latest_some _ _ _ _ H)))
  | H : find_version _ _ _ _ = Some ?r |- on_key _ _ ?r = true => exact (proj1 (proj2 (find_version_some _ _ _ _ _ H)))
  | H : find_null _ _ _ = Some ?r |- on_key _ _ ?r = true => exact (proj1 (proj2 (find_null_some _ _ _ _ H)))
  | H : find_upload _ _ _ _ = Some ?r |- on_key _ _ ?r = true => exact (proj1 (proj2 (find_upload_some _ _ _ _ _ H)))
  | H : find_next_latest _ _ _ _ = Some ?r |- on_key _ _ ?r = true => exact (proj1 (proj2 (find_next_latest_some _ _ _ _ _ H)))
  end.
Ltac prov_rw :=
  match goal with
  | H : find_null _ _ _ = Some ?r |- may_rewrite _ _ _ _ _ ?r =>
      left; right; left; exact (proj2 (proj2 (proj2 (find_null_some _ _ _ _ H))))
  | H : find_upload _ _ _ _ = Some ?r |- may_rewrite _ _ _ _ _ ?r =>
      left; left; unfold completed; rewrite (proj2 (proj2 (find_upload_some _ _ _ _ _ H))); reflexivity
  | H : find_version _ _ _ ?v = Some ?r |- may_rewrite _ _ (Some ?v) _ _ ?r =>
      left; right; right; split; [exact (proj2 (proj2 (proj2 (find_version_some _ _ _ _ _ H)))) | discriminate]
  | H : find_latest _ ?b ?k = Some ?r |- may_rewrite ?b ?k _ _ _ ?r =>
      right; split; [solve [reflexivity | eauto] | exact H]
  end.

Ltac tr_hook := fail.
Ltac tr :=
  cbn [fst snd];
  first
  [ assumption
  | apply Tr_refl
  | lazymatch goal with
    | |- Tr _ _ _ _ _ (set_latest _ _ _) => eapply Tr_flags; [tr | idtac | prov_in | prov_key]; tr
    | |- Tr _ _ _ _ _ (update_row _ ?r) =>
        let i := eval cbn [o_id] in (o_id r) in
        lazymatch i with o_id ?r1 => eapply Tr_rewrite with (r0 := r1) end; [tr | idtac | prov_in | prov_key | prov_rw | reflexivity
                           | unfold on_key; cbn [o_bucket o_key]; rewrite !bytes_eqb_refl; reflexivity]; tr
    | |- Tr _ _ _ _ _ (snd (insert_row _ _)) =>
        apply Tr_insert; [tr | intros ? ?; split; [reflexivity | unfold on_key, mk_row; cbn [o_bucket o_key]; rewrite !bytes_eqb_refl; reflexivity]]
    | |- Tr _ _ _ _ _ (delete_row _ (o_id _)) => eapply Tr_delete; [tr | idtac | prov_in | prov_key | prov_rw]; tr
    | |- Tr _ _ _ _ _ (save_part_rows _ (o_id _) _ _) => eapply Tr_save; [tr | idtac | prov_in | prov_key | prov_rw]; tr
    | |- Tr ?b ?k ?dv ?ip ?s0 (save_part_rows _ (fst (insert_row ?s _)) _ _) =>
        apply Tr_save_new; [tr | rewrite insert_row_fst; apply (proj2 (Tr_buckets_next b k dv ip s0 s ltac:(tr)))]
    | |- Tr _ _ _ _ _ (fst (remove_parts_of _ (o_id ?r))) =>
        unfold remove_parts_of; eapply Tr_remparts with (r0 := r); [tr | idtac | prov_in | prov_key | prov_rw
          | intros ? Hsel; apply N.eqb_eq in Hsel; exact Hsel]; tr
    | |- Tr _ _ _ _ _ (fst (remove_part_rows _ (fun p => N.eqb (p_obj p) (o_id ?r) && _))) =>
        eapply Tr_remparts with (r0 := r); [tr | idtac | prov_in | prov_key | prov_rw
          | intros ? Hsel; apply andb_true_iff in Hsel; destruct Hsel as [Hsel _]; apply N.eqb_eq in Hsel; exact Hsel]; tr
    | |- Tr _ _ _ _ _ (with_ids _ _) => eapply Tr_same; [|apply same_with_ids]; tr
    | |- Tr _ _ _ _ _ (snd (put_fresh_part _ _)) => eapply Tr_same; [|apply same_put_fresh_part]; tr
    | |- Tr _ _ _ _ _ (set_registry _ _) => eapply Tr_same; [|apply same_set_registry]; tr
    | |- Tr _ _ _ _ _ (delete_unreferenced _ _) => eapply Tr_same; [|apply same_delete_unreferenced]; tr
    | _ => tr_hook
    end ].

Section Walk.
Variables (b k : bytes) (dv : option vid) (ip : bool) (s0 : mstate).
Notation Tr := (Tr b k dv ip s0).

Lemma meta_put_Tr s vn w c : Tr s -> Tr (fst (fst (meta_put s vn b k w c))).
Proof.
  intros T. unfold meta_put. cbv beta zeta. repeat dm; tr.
Qed.

Ltac tr_hook ::=
  lazymatch goal with
  | |- MetaRows1.Tr _ _ _ _ _ (fst (fst (meta_put _ _ _ _ _ _))) => apply meta_put_Tr; tr
  end.

Lemma commit_Tr s r : Tr s -> Tr (fst r) -> Tr (fst (commit s r)).
Proof.
  intros T1 T2. unfold commit. destruct (snd r); try exact T2; try exact T1;
  destruct (unique_ok (fst r) && parts_unique_ok (fst r)); assumption.
Qed.

Ltac tr_hook ::=
  lazymatch goal with
  | |- MetaRows1.Tr _ _ _ _ _ (fst (fst (meta_put _ _ _ _ _ _))) => apply meta_put_Tr; tr
  | |- MetaRows1.Tr _ _ _ _ _ (fst (commit _ _)) => apply commit_Tr; [tr|]
  end.

Lemma op_put_Tr s vn content c : Tr s -> Tr (fst (op_put s vn b k content c)).
Proof. intros T. unfold op_put. apply commit_Tr; [tr|]. repeat dm. tr. Qed.

Lemma meta_delete_Tr s vn bk v c :
  Tr s -> dv = v -> (v = None -> b_ver bk = VUnset -> ip = true /\ objs s = objs s0) ->
  Tr (fst (fst (meta_delete s vn bk b k v c))).
Proof.
  intros T Hdv Hip. unfold meta_delete, purge_row. cbv beta zeta. repeat dm; subst dv.
  all: try (destruct (Hip ltac:(first [assumption|reflexivity]) ltac:(first [assumption|reflexivity])) as [Hip1 Hip2];
            repeat match goal with H : find_latest ?s1 _ _ = _ |- _ =>
              progress rewrite (proj1 (find_ext_objs Hip2)) in H end).
  all: tr.
Qed.

Ltac tr_hook ::=
  lazymatch goal with
  | |- MetaRows1.Tr _ _ _ _ _ (fst (fst (meta_put _ _ _ _ _ _))) => apply meta_put_Tr; tr
  | |- MetaRows1.Tr _ _ _ _ _ (fst (commit _ _)) => apply commit_Tr; [tr|]
  | |- MetaRows1.Tr _ _ _ _ _ (fst (fst (meta_delete _ _ _ _ _ _ _))) => apply meta_delete_Tr; [tr | eauto | eauto]
  end.

Lemma op_delete_Tr s vn v c :
  Tr s -> dv = v ->
  (forall bk, find_bucket s b = Some bk -> v = None -> b_ver bk = VUnset -> ip = true /\ objs s = objs s0) ->
  Tr (fst (op_delete s vn b k v c)).
Proof.
  intros T Hdv Hip. unfold op_delete. apply commit_Tr; [tr|]. cbv beta zeta. repeat dm; tr.
Qed.

Lemma op_cmu_Tr s u : Tr s -> Tr (fst (op_cmu s u b k)).
Proof. intros T. unfold op_cmu. repeat dm; tr. Qed.

Lemma meta_upload_part_Tr s u pn np : Tr s -> Tr (fst (fst (meta_upload_part s b k u pn np))).
Proof. intros T. unfold meta_upload_part. cbv beta zeta. repeat dm; tr. Qed.

Ltac tr_hook ::=
  lazymatch goal with
  | |- MetaRows1.Tr _ _ _ _ _ (fst (fst (meta_put _ _ _ _ _ _))) => apply meta_put_Tr; tr
  | |- MetaRows1.Tr _ _ _ _ _ (fst (commit _ _)) => apply commit_Tr; [tr|]
  | |- MetaRows1.Tr _ _ _ _ _ (fst (fst (meta_delete _ _ _ _ _ _ _))) => apply meta_delete_Tr; [tr | eauto | eauto]
  | |- MetaRows1.Tr _ _ _ _ _ (fst (fst (meta_upload_part _ _ _ _ _ _))) => apply meta_upload_part_Tr; tr
  end.

Lemma op_upload_part_Tr s u pn content : Tr s -> Tr (fst (op_upload_part s b k u pn content)).
Proof. intros T. unfold op_upload_part. apply commit_Tr; [tr|]. repeat dm; tr. Qed.

Lemma op_abort_Tr s u : Tr s -> Tr (fst (op_abort s b k u)).
Proof. intros T. unfold op_abort. apply commit_Tr; [tr|]. repeat dm; tr. Qed.

Lemma op_complete_Tr s vn u decl c : Tr s -> Tr (fst (op_complete s vn b k u decl c)).
Proof. intros T. unfold op_complete. apply commit_Tr; [tr|]. cbv beta zeta. repeat dm; tr. Qed.

Lemma op_append_Tr s vn content off :
  Tr s ->
  (forall bk, find_bucket s b = Some bk -> b_ver bk <> VEnabled -> ip = true /\ objs s = objs s0) ->
  Tr (fst (op_append s vn b k content off)).
Proof.
  intros T Hip. unfold op_append. apply commit_Tr; [tr|]. cbv beta zeta. repeat dm.
  all: repeat match goal with H : find_latest (snd (put_fresh_part ?s1 ?c1)) _ _ = _ |- _ =>
         rewrite (proj1 (find_ext_objs (sm_objs _ _ (same_put_fresh_part s1 c1)))) in H end.
  all: try match goal with Hb : find_bucket _ _ = Some ?bk, Hv : b_ver ?bk = _ |- _ =>
         destruct (Hip bk ltac:(first [exact Hb | reflexivity]) ltac:(rewrite Hv; discriminate)) as [Hip1 Hip2];
         repeat match goal with H : find_latest ?s1 _ _ = _ |- _ =>
              progress rewrite (proj1 (find_ext_objs Hip2)) in H end end.
  all: tr.
Qed.
End Walk.

Ltac tr_hook ::=
  lazymatch goal with
  | |- MetaRows1.Tr _ _ _ _ _ (fst (fst (meta_put _ _ _ _ _ _))) => apply meta_put_Tr; tr
  | |- MetaRows1.Tr _ _ _ _ _ (fst (commit _ _)) => apply commit_Tr; [tr|]
  end.

(* copy writes the destination key *)
Lemma op_copy_Tr db dk dv ip s0 s vn sb sk sv :
  Tr db dk dv ip s0 s -> Tr db dk dv ip s0 (fst (op_copy s vn sb sk sv db dk)).
Proof. intros T. unfold op_copy. apply commit_Tr; [tr|]. cbv beta zeta. repeat dm; tr. Qed.
