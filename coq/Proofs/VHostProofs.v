(* Proofs/VHostProofs.v — addressing lemmas for Model/VHost.v *)
From Verif Require Import Bytes Codec VHost.
From Coq Require Import ZifyBool ZifyN ZifyNat.

Notation colon := (":"%byte) (only parsing).
Notation rbracket := ("]"%byte) (only parsing).
Notation dot := ("."%byte) (only parsing).

Lemma is_suffix_app s r : is_suffix s (r ++ s) = true.
Proof. apply is_suffix_spec. exists r. reflexivity. Qed.

Lemma trim_suffix_app s r : trim_suffix s (r ++ s) = r.
Proof.
  unfold trim_suffix. rewrite is_suffix_app, app_length.
  replace (length r + length s - length s) with (length r) by lia.
  rewrite firstn_app, firstn_all, Nat.sub_diag. cbn. apply app_nil_r.
Qed.

Lemma not_suffix_slash X c : c <> slash -> is_suffix [slash] (X ++ [c]) = false.
Proof.
  intros Hc. destruct (is_suffix [slash] (X ++ [c])) eqn:E; [|reflexivity].
  apply is_suffix_spec in E. destruct E as [r Hr]. apply app_inj_tail in Hr. destruct Hr as [_ Hr]. congruence.
Qed.

Lemma trim_slash_keeps X c : c <> slash -> trim_suffix [slash] (X ++ [c]) = X ++ [c].
Proof. intros Hc. unfold trim_suffix. rewrite (not_suffix_slash X c Hc). reflexivity. Qed.

Lemma existsb_false_notin (c : byte) l : ~ In c l -> existsb (fun b => beqb b c) l = false.
Proof.
  induction l as [|x l IH]; cbn; [reflexivity|]. intros H.
  destruct (beqb x c) eqn:E; [apply beqb_eq in E; exfalso; apply H; left; exact E|].
  apply IH. intros Hin. apply H. right. exact Hin.
Qed.

Lemma strip_port_no_colon h : ~ In colon h -> strip_port h = h.
Proof.
  intros H. unfold strip_port.
  assert (split_first colon (rev h) = None) as ->; [|reflexivity].
  apply split_first_None. intros Hin. apply H. apply in_rev. exact Hin.
Qed.

Lemma strip_port_with_port h ds : ~ In colon ds -> ~ In rbracket ds -> strip_port (h ++ colon :: ds) = h.
Proof.
  intros Hc Hb. unfold strip_port.
  assert (split_first colon (rev (h ++ colon :: ds)) = Some (rev ds, rev h)) as ->.
  { apply split_first_Some. split.
    - rewrite rev_app_distr. cbn [rev]. rewrite <- app_assoc. reflexivity.
    - intros Hin. apply Hc. apply in_rev. exact Hin. }
  rewrite existsb_false_notin by (intros Hin; apply Hb; apply in_rev; exact Hin).
  apply rev_involutive.
Qed.

Lemma host_not_endpoint b api : bytes_eqb (b ++ dot :: api) api = false.
Proof.
  apply bytes_eqb_neq. intros E. apply (f_equal (@length byte)) in E. rewrite app_length in E. cbn in E. lia.
Qed.

(* a port is absent, or ":" followed by bytes other than ':' and ']' *)
Definition port_ok (port : bytes) : Prop :=
  port = [] \/ exists ds, port = colon :: ds /\ ~ In colon ds /\ ~ In rbracket ds.

Lemma strip_port_host h port : ~ In colon h -> port_ok port -> strip_port (h ++ port) = h.
Proof.
  intros Hh [->|(ds & -> & Hc & Hb)].
  - rewrite app_nil_r. apply strip_port_no_colon. exact Hh.
  - apply strip_port_with_port; assumption.
Qed.

Lemma not_in_app (c : byte) a b : ~ In c a -> ~ In c b -> ~ In c (a ++ b).
Proof. intros Ha Hb Hin. apply in_app_or in Hin. tauto. Qed.

Lemma vhost_host_colonfree bucket api :
  ~ In colon bucket -> ~ In colon api -> ~ In colon (bucket ++ dot :: api).
Proof.
  intros Hb Ha. apply not_in_app; [exact Hb|]. intros [E|Hin]; [discriminate | contradiction].
Qed.

(* the rewritten path of a virtual-hosted request *)
Lemma vhost_rewrite_vhost fixed api bucket port path :
  bucket <> [] -> ~ In colon bucket -> ~ In colon api -> port_ok port ->
  vhost_rewrite fixed api ((bucket ++ dot :: api) ++ port) path =
  if fixed then (if bytes_eqb path [slash] || is_empty path then slash :: bucket else slash :: bucket ++ path)
  else trim_suffix [slash] (slash :: bucket ++ path).
Proof.
  intros Hne Hb Ha Hp. unfold vhost_rewrite.
  rewrite (strip_port_host _ port (vhost_host_colonfree bucket api Hb Ha) Hp).
  rewrite host_not_endpoint, is_suffix_app, trim_suffix_app. cbn [negb andb].
  destruct bucket; [contradiction | reflexivity].
Qed.

Lemma vhost_rewrite_path_style fixed api port path :
  ~ In colon api -> port_ok port -> vhost_rewrite fixed api (api ++ port) path = path.
Proof.
  intros Ha Hp. unfold vhost_rewrite. rewrite (strip_port_host _ port Ha Hp), bytes_eqb_refl. reflexivity.
Qed.

Lemma route_api_vhost fixed api web bucket port path method :
  bucket <> [] -> ~ In colon bucket -> ~ In colon api -> port_ok port ->
  route_gen fixed api web ((bucket ++ dot :: api) ++ port) path method =
  mux false method
    (if fixed then (if bytes_eqb path [slash] || is_empty path then slash :: bucket else slash :: bucket ++ path)
     else trim_suffix [slash] (slash :: bucket ++ path)).
Proof.
  intros Hne Hb Ha Hp. unfold route_gen.
  rewrite (strip_port_host _ port (vhost_host_colonfree bucket api Hb Ha) Hp).
  rewrite is_suffix_app, orb_true_r. rewrite vhost_rewrite_vhost by assumption. reflexivity.
Qed.

Lemma route_api_path_style fixed api web port path method :
  ~ In colon api -> port_ok port -> route_gen fixed api web (api ++ port) path method = mux false method path.
Proof.
  intros Ha Hp. unfold route_gen. rewrite (strip_port_host _ port Ha Hp), bytes_eqb_refl. cbn [orb].
  rewrite vhost_rewrite_path_style by assumption. reflexivity.
Qed.

(* ---- statements of Properties/C33.v ---- *)
Definition vhost_eq_path_full_stmt (fixed : bool) : Prop :=
  forall api web bucket port key method,
  bucket <> [] -> ~ In colon bucket -> ~ In colon api -> port_ok port -> key <> [] ->
  route_gen fixed api web ((bucket ++ dot :: api) ++ port) (slash :: key) method =
  route_gen fixed api web (api ++ port) (slash :: bucket ++ slash :: key) method.

(* current code: every non-empty key *)
Lemma vhost_eq_path_full_fixed_stmt : vhost_eq_path_full_stmt true.
Proof.
  intros api web bucket port key method Hne Hb Ha Hp Hk.
  rewrite route_api_vhost, route_api_path_style by assumption.
  destruct key as [|c k]; [contradiction|]. reflexivity.
Qed.

(* the bare root (path "/" or empty) of a virtual-hosted request addresses the bucket itself *)
Lemma vhost_root_is_bucket_stmt : forall api web bucket port method,
  bucket <> [] -> ~ In colon bucket -> ~ In colon api -> port_ok port ->
  route_gen true api web ((bucket ++ dot :: api) ++ port) [slash] method =
  route_gen true api web (api ++ port) (slash :: bucket) method /\
  route_gen true api web ((bucket ++ dot :: api) ++ port) [] method =
  route_gen true api web (api ++ port) (slash :: bucket) method.
Proof.
  intros api web bucket port method Hne Hb Ha Hp.
  rewrite !route_api_vhost, route_api_path_style by assumption.
  split; reflexivity.
Qed.

(* ---- historical: the pre-fix rewrite (TrimSuffix of the whole rewritten path) ---- *)
Lemma prefix_vhost_eq_path_partial_stmt : forall api web bucket port k c method,
  bucket <> [] -> ~ In colon bucket -> ~ In colon api -> port_ok port -> c <> slash ->
  route_gen false api web ((bucket ++ dot :: api) ++ port) (slash :: k ++ [c]) method =
  route_gen false api web (api ++ port) (slash :: bucket ++ slash :: k ++ [c]) method.
Proof.
  intros api web bucket port k c method Hne Hb Ha Hp Hc.
  rewrite route_api_vhost, route_api_path_style by assumption.
  replace (slash :: bucket ++ slash :: k ++ [c]) with ((slash :: bucket ++ slash :: k) ++ [c])
    by (cbn; rewrite <- app_assoc; reflexivity).
  rewrite trim_slash_keeps by exact Hc. reflexivity.
Qed.

Lemma prefix_vhost_trailing_slash_stmt : forall api web bucket port k method,
  bucket <> [] -> ~ In colon bucket -> ~ In colon api -> port_ok port ->
  route_gen false api web ((bucket ++ dot :: api) ++ port) (slash :: k ++ [slash]) method =
  route_gen false api web (api ++ port) (slash :: bucket ++ slash :: k) method.
Proof.
  intros api web bucket port k method Hne Hb Ha Hp.
  rewrite route_api_vhost, route_api_path_style by assumption.
  replace (slash :: bucket ++ slash :: k ++ [slash]) with ((slash :: bucket ++ slash :: k) ++ [slash])
    by (cbn; rewrite <- app_assoc; reflexivity).
  rewrite trim_suffix_app. reflexivity.
Qed.

Definition wit_api := B"s3.localhost".
Definition wit_web := B"s3-website.localhost".

Lemma prefix_witness_values :
  route_gen false wit_api wit_web B"bucket.s3.localhost" B"/folder/" B"PUT" = Routed (ApiObject B"bucket" B"folder") /\
  route_gen false wit_api wit_web B"s3.localhost" B"/bucket/folder/" B"PUT" = Routed (ApiObject B"bucket" B"folder/").
Proof. vm_compute. split; reflexivity. Qed.

Lemma witness_values_now :
  route wit_api wit_web B"bucket.s3.localhost" B"/folder/" B"PUT" = Routed (ApiObject B"bucket" B"folder/") /\
  route wit_api wit_web B"s3.localhost" B"/bucket/folder/" B"PUT" = Routed (ApiObject B"bucket" B"folder/").
Proof. vm_compute. split; reflexivity. Qed.

Lemma prefix_vhost_eq_path_refuted_stmt : ~ vhost_eq_path_full_stmt false.
Proof.
  intros H.
  specialize (H wit_api wit_web B"bucket" [] B"folder/" B"PUT").
  assert (route_gen false wit_api wit_web ((B"bucket" ++ dot :: wit_api) ++ []) (slash :: B"folder/") B"PUT" =
          route_gen false wit_api wit_web (wit_api ++ []) (slash :: B"bucket" ++ slash :: B"folder/") B"PUT") as E.
  { apply H.
    - discriminate.
    - vm_compute. intuition discriminate.
    - vm_compute. intuition discriminate.
    - left; reflexivity.
    - discriminate. }
  vm_compute in E. discriminate.
Qed.

Lemma mem_read_methods m : mem_bytes m read_methods = true -> m = B"GET" \/ m = B"HEAD".
Proof. intros H. apply mem_bytes_In in H. destruct H as [H|[H|[]]]; auto. Qed.

Definition is_web_target (t : target) : bool :=
  match t with WebBucket _ | WebObject _ _ => true | _ => false end.

Lemma mux_web_readonly method p t : mux true method p = Routed t ->
  is_web_target t = true /\ (method = B"GET" \/ method = B"HEAD").
Proof.
  unfold mux. destruct (negb (bytes_eqb (clean_path p) p)); [discriminate|].
  destruct (path_segments (clean_path p)) as [|b [|r rest]]; [discriminate| |].
  - destruct (is_empty b); [discriminate|].
    destruct (mem_bytes method read_methods) eqn:E; [|discriminate].
    intros H; inversion H; subst. split; [reflexivity | apply mem_read_methods; exact E].
  - destruct (mem_bytes method read_methods) eqn:E; [|discriminate].
    intros H; inversion H; subst. split; [reflexivity | apply mem_read_methods; exact E].
Qed.

Lemma read_in_api m : mem_bytes m read_methods = true -> In m api_methods.
Proof. intros H. apply mem_read_methods in H. destruct H as [->| ->]; cbn; auto. Qed.

Lemma mux_api_targets method p t : mux false method p = Routed t ->
  is_web_target t = false /\ In method api_methods.
Proof.
  unfold mux. destruct (negb (bytes_eqb (clean_path p) p)); [discriminate|].
  destruct (path_segments (clean_path p)) as [|b [|r rest]]; [discriminate| |].
  - destruct (is_empty b).
    + destruct (mem_bytes method read_methods) eqn:E; [|discriminate].
      intros H; inversion H; subst. split; [reflexivity | apply read_in_api; exact E].
    + destruct (mem_bytes method api_methods) eqn:E; [|discriminate].
      intros H; inversion H; subst. split; [reflexivity | apply mem_bytes_In; exact E].
  - destruct (mem_bytes method api_methods) eqn:E; [|discriminate].
    intros H; inversion H; subst. split; [reflexivity | apply mem_bytes_In; exact E].
Qed.

Lemma website_readonly_stmt : forall fixed api web host path method t,
  route_gen fixed api web host path method = Routed t ->
  let on_api := bytes_eqb (strip_port host) api || is_suffix ("."%byte :: api) (strip_port host) in
  (on_api = false -> is_web_target t = true /\ (method = B"GET" \/ method = B"HEAD")) /\
  (on_api = true -> is_web_target t = false /\ In method api_methods).
Proof.
  intros fixed api web host path method t H on_api. unfold route_gen in H. fold on_api in H.
  destruct on_api eqn:E.
  - split; [discriminate|]. intros _. apply (mux_api_targets _ _ _ H).
  - split; [|discriminate]. intros _.
    destruct (is_suffix ("."%byte :: web) (strip_port host) && negb (is_empty (trim_suffix ("."%byte :: web) (strip_port host))));
      apply (mux_web_readonly _ _ _ H).
Qed.

Lemma website_never_mutates_stmt : forall fixed api web host path method,
  bytes_eqb (strip_port host) api || is_suffix ("."%byte :: api) (strip_port host) = false ->
  method <> B"GET" -> method <> B"HEAD" ->
  forall t, route_gen fixed api web host path method <> Routed t.
Proof.
  intros fixed api web host path method Hweb Hg Hh t H.
  destruct (website_readonly_stmt fixed api web host path method t H) as [Hw _].
  destruct (Hw Hweb) as [_ [E|E]]; contradiction.
Qed.
