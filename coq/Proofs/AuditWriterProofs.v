(* Proofs/AuditWriterProofs.v — lemmas for C26: the writer's output is accepted by the validator. *)
From Verif Require Import Bytes Codec AuditLog AuditLogProofs AuditWriter.
From Coq Require Import ZifyBool ZifyN ZifyNat.
Local Open Scope N_scope.

Section WriterProofs.
Variable H : bytes -> bytes.
Variables signE signM : bytes -> bytes.
Variables vE vM : bytes -> bytes -> bool.
Variables (useE useM : bool) (block : N).
Hypothesis HvE : forall h, vE h (signE h) = true.
Hypothesis HvM : forall h, vM h (signM h) = true.
Hypothesis HlenE : forall h, lenN (signE h) = ed_sig_size.
Hypothesis HlenM : forall h, lenN (signM h) = mldsa_sig_size.
Hypothesis Hblock : 0 < block.

Notation ventry := (validate_entry H vE vM useE useM block).
Notation vfrom := (validate_from H vE vM useE useM block).
Notation mk := (mk_entry H signE).

Lemma vfrom_app : forall l1 l2 st,
  vfrom st (l1 ++ l2) = match vfrom st l1 with VOk st1 => vfrom st1 l2 | r => r end.
Proof.
  induction l1 as [|e l1 IH]; intros l2 st; [reflexivity|].
  cbn [app validate_from]. destruct (ventry st e); [apply IH | reflexivity | reflexivity].
Qed.

Definition hashable (det : details) : Prop :=
  match det with DGround _ sE sM => lenN sE = ed_sig_size /\ lenN sM = mldsa_sig_size | _ => True end.

Lemma mk_hash ts ty det prev : hashable det ->
  exists x, hash_input (mk ts ty det prev) = Some x /\ e_hash (mk ts ty det prev) = H x.
Proof.
  intros Hh. unfold mk_entry, hi_or_empty, hash_input. cbn [e_ver e_ts e_type e_det e_prev e_hash].
  destruct det as [|d|root sE sM|]; cbn [details_hash_part].
  - eexists; split; reflexivity.
  - eexists; split; reflexivity.
  - destruct Hh as [-> ->]. rewrite !N.eqb_refl. cbn [andb]. eexists; split; reflexivity.
  - eexists; split; reflexivity.
Qed.

Lemma andb_negb_sig h b : b && negb (vE h (signE h)) = false.
Proof. rewrite HvE. destruct b; reflexivity. Qed.

(* a LOG entry made by the writer on top of the validator's current state *)
Lemma ventry_log st ts d : v_idx st <> 0 -> lenL (v_buf st) < block ->
  let e := mk ts t_log (DLog d) (v_prev st) in
  ventry st e = VOk {| v_prev := e_hash e; v_buf := v_buf st ++ [e_hash e]; v_idx := v_idx st + 1 |}.
Proof.
  intros Hi Hb e. destruct (mk_hash ts t_log (DLog d) (v_prev st) I) as (x & Hx & Hh). fold e in Hx, Hh.
  unfold validate_entry. rewrite Hx, Hh, bytes_eqb_refl. cbn [negb].
  replace (v_idx st =? 0) with false by lia. cbn [andb negb].
  change (e_prev e) with (v_prev st). rewrite bytes_eqb_refl. cbn [negb].
  change (e_sig e) with (signE (e_hash e)). rewrite Hh, andb_negb_sig.
  change (e_type e) with t_log. rewrite (bytes_eqb_refl t_log).
  replace (block <? lenL (v_buf st ++ [H x])) with false; [reflexivity|].
  unfold lenL in *. rewrite app_length. cbn [length]. lia.
Qed.

Lemma ventry_grounding st ts : v_idx st <> 0 -> lenL (v_buf st) = block ->
  let root := merkle_root H (v_buf st) in
  let g := mk ts t_grounding (DGround root (signE root) (signM root)) (v_prev st) in
  ventry st g = VOk {| v_prev := e_hash g; v_buf := []; v_idx := v_idx st + 1 |}.
Proof.
  intros Hi Hb root g.
  destruct (mk_hash ts t_grounding (DGround root (signE root) (signM root)) (v_prev st) (conj (HlenE root) (HlenM root)))
    as (x & Hx & Hh). fold g in Hx, Hh.
  unfold validate_entry. rewrite Hx, Hh, bytes_eqb_refl. cbn [negb].
  replace (v_idx st =? 0) with false by lia. cbn [andb negb].
  change (e_prev g) with (v_prev st). rewrite bytes_eqb_refl. cbn [negb].
  change (e_sig g) with (signE (e_hash g)). rewrite Hh, andb_negb_sig.
  change (e_type g) with t_grounding. rewrite eqb_ground_log, (bytes_eqb_refl t_grounding).
  rewrite Hb, N.eqb_refl. cbn [negb].
  change (e_det g) with (DGround root (signE root) (signM root)). cbv iota.
  fold root. rewrite bytes_eqb_refl. cbn [negb].
  rewrite andb_negb_sig. rewrite HvM. destruct useM; reflexivity.
Qed.

Lemma ventry_genesis ts :
  let g := mk ts t_genesis DGenesis (genesis_prev H) in
  ventry init_state g = VOk {| v_prev := e_hash g; v_buf := []; v_idx := 1 |}.
Proof.
  intros g. destruct (mk_hash ts t_genesis DGenesis (genesis_prev H) I) as (x & Hx & Hh). fold g in Hx, Hh.
  unfold validate_entry. rewrite Hx, Hh, bytes_eqb_refl. cbn [negb init_state v_idx v_prev v_buf].
  change (0 =? 0) with true. cbn [andb negb].
  change (e_type g) with t_genesis. rewrite (bytes_eqb_refl t_genesis). cbn [negb].
  change (e_prev g) with (genesis_prev H). rewrite bytes_eqb_refl. cbn [negb].
  change (e_sig g) with (signE (e_hash g)). rewrite Hh, andb_negb_sig.
  reflexivity.
Qed.

(* the writer state mirrors the validator state after reading  L0 ++ (what this writer has written) *)
Definition winv (L0 : list entry) (w : wstate) : Prop :=
  exists st, vfrom init_state (L0 ++ w_out w) = VOk st /\ v_prev st = w_last w /\ v_buf st = w_buf w /\
             v_idx st <> 0 /\ lenL (w_buf w) < block.

Lemma log_step_inv L0 w ts tsg d : winv L0 w -> winv L0 (log_step H signE signM block w ts tsg d).
Proof.
  intros (st & Hv & Hp & Hb & Hi & Hl). unfold log_step.
  set (e := mk ts t_log (DLog d) (w_last w)).
  assert (ventry st e = VOk {| v_prev := e_hash e; v_buf := v_buf st ++ [e_hash e]; v_idx := v_idx st + 1 |}) as He.
  { unfold e. rewrite <- Hp. apply ventry_log; [exact Hi | rewrite Hb; exact Hl]. }
  set (st1 := {| v_prev := e_hash e; v_buf := v_buf st ++ [e_hash e]; v_idx := v_idx st + 1 |}) in *.
  cbn [w_buf w_last w_out].
  destruct (block <=? lenL (w_buf w ++ [e_hash e])) eqn:Eg.
  - (* grounding *)
    unfold emit_grounding. cbn [w_buf w_last w_out].
    set (root := merkle_root H (w_buf w ++ [e_hash e])).
    set (g := mk tsg t_grounding (DGround root (signE root) (signM root)) (e_hash e)).
    assert (lenL (v_buf st1) = block) as Hfull.
    { cbn [st1 v_buf]. rewrite Hb. unfold lenL in *. rewrite app_length in *. cbn [length] in *. lia. }
    assert (ventry st1 g = VOk {| v_prev := e_hash g; v_buf := []; v_idx := v_idx st1 + 1 |}) as Hg.
    { pose proof (ventry_grounding st1 tsg) as X. cbn [st1 v_prev v_buf v_idx] in X. cbn [st1 v_idx].
      rewrite Hb in X. apply X; [lia | cbn [st1 v_buf] in Hfull; rewrite Hb in Hfull; exact Hfull]. }
    exists {| v_prev := e_hash g; v_buf := []; v_idx := v_idx st1 + 1 |}.
    cbn [w_out w_last w_buf].
    split; [|cbn; repeat split; try lia].
    replace (L0 ++ (w_out w ++ [e]) ++ [g]) with ((L0 ++ w_out w) ++ [e; g]) by (rewrite <- !app_assoc; reflexivity).
    rewrite vfrom_app, Hv. cbn [validate_from]. rewrite He, Hg. reflexivity.
  - exists st1. cbn [w_out w_last w_buf]. split.
    + rewrite app_assoc, vfrom_app, Hv. cbn [validate_from]. rewrite He. reflexivity.
    + cbn [st1 v_prev v_buf v_idx]. rewrite Hb. repeat split; try lia.
Qed.

Lemma run_calls_inv L0 : forall cs w, winv L0 w -> winv L0 (run_calls H signE signM block w cs).
Proof.
  induction cs as [|[[ts tsg] d] cs IH]; intros w Hw; [exact Hw|].
  cbn [run_calls fold_left]. apply IH. apply log_step_inv. exact Hw.
Qed.

Lemma new_writer_inv ts : winv [] (new_writer H signE [] [] ts).
Proof.
  unfold new_writer. cbn [all_zero forallb].
  set (g := mk ts t_genesis DGenesis (genesis_prev H)).
  exists {| v_prev := e_hash g; v_buf := []; v_idx := 1 |}. cbn [w_out w_last w_buf app].
  split; [|repeat split; try lia; cbn; lia].
  cbn [validate_from]. pose proof (ventry_genesis ts) as X. cbv zeta in X. fold g in X. rewrite X. reflexivity.
Qed.

Theorem writer_accepted_stmt ts cs :
  accepted H vE vM useE useM block (w_out (run_calls H signE signM block (new_writer H signE [] [] ts) cs)) = true.
Proof.
  destruct (run_calls_inv [] cs _ (new_writer_inv ts)) as (st & Hv & _).
  unfold accepted, validate. cbn [app] in Hv. rewrite Hv. reflexivity.
Qed.

(* restart: NewFileSink re-reads the file with a Validator and hands (last hash, hash buffer) to a new middleware *)
Theorem restart_accepted_stmt L0 st0 ts cs :
  vfrom init_state L0 = VOk st0 -> L0 <> [] ->
  all_zero (v_prev st0) = false -> lenL (v_buf st0) < block ->
  accepted H vE vM useE useM block
    (L0 ++ w_out (run_calls H signE signM block (new_writer H signE (v_prev st0) (v_buf st0) ts) cs)) = true.
Proof.
  intros Hv0 Hne Hz Hl.
  assert (winv L0 (new_writer H signE (v_prev st0) (v_buf st0) ts)) as Hw.
  { unfold new_writer. rewrite Hz. exists st0. cbn [w_out w_last w_buf]. rewrite app_nil_r.
    repeat split; try assumption; try reflexivity.
    destruct L0 as [|e L0]; [contradiction|]. cbn [validate_from] in Hv0.
    destruct (ventry init_state e) as [st1| |] eqn:E1; try discriminate.
    destruct (ventry_ok _ _ _ _ _ _ _ _ _ E1) as (_ & _ & _ & _ & Hi1).
    assert (forall l s s', vfrom s l = VOk s' -> v_idx s <= v_idx s') as Mono.
    { induction l as [|a l IHl]; intros s s' Hs; cbn in Hs; [injection Hs as <-; lia|].
      destruct (ventry s a) as [s1| |] eqn:Ea; try discriminate.
      destruct (ventry_ok _ _ _ _ _ _ _ _ _ Ea) as (_ & _ & _ & _ & Hi). specialize (IHl _ _ Hs). lia. }
    specialize (Mono _ _ _ Hv0). cbn in Hi1. lia. }
  destruct (run_calls_inv L0 cs _ Hw) as (st & Hv & _).
  unfold accepted, validate. rewrite Hv. reflexivity.
Qed.

(* the LOG entries written are exactly the calls, in call order *)
Definition log_details (l : list entry) : list logd :=
  flat_map (fun e => if bytes_eqb (e_type e) t_log then match e_det e with DLog d => [d] | _ => [] end else []) l.

Lemma log_details_app a b : log_details (a ++ b) = log_details a ++ log_details b.
Proof. unfold log_details. apply flat_map_app. Qed.

Lemma log_step_details w ts tsg d :
  log_details (w_out (log_step H signE signM block w ts tsg d)) = log_details (w_out w) ++ [d].
Proof.
  unfold log_step. cbn [w_buf w_out w_last].
  destruct (block <=? _); [unfold emit_grounding|]; cbn [w_out w_buf w_last]; rewrite !log_details_app;
    unfold log_details at 2; cbn [flat_map mk_entry e_type e_det]; rewrite ?(bytes_eqb_refl t_log); cbn; rewrite ?app_nil_r; reflexivity.
Qed.

Lemma run_calls_details : forall cs w,
  log_details (w_out (run_calls H signE signM block w cs)) = log_details (w_out w) ++ map snd cs.
Proof.
  induction cs as [|[[ts tsg] d] cs IH]; intros w; [cbn; rewrite app_nil_r; reflexivity|].
  cbn [run_calls fold_left map snd]. change (fold_left _ cs ?x) with (run_calls H signE signM block x cs).
  rewrite IH, log_step_details, <- app_assoc. reflexivity.
Qed.
End WriterProofs.
