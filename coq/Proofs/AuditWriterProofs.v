(* Proofs/AuditWriterProofs.v — lemmas for C26: the writer's output is accepted by the validator. *)
From Verif Require Import Bytes Codec AuditLog AuditLogProofs AuditWriter.
From Coq Require Import ZifyBool ZifyN ZifyNat.
Local Open Scope N_scope.

Section WriterProofs.
Variable H : bytes -> bytes.
Variables signE signM : bytes -> bytes.
Variables vE vM : bytes -> bytes -> bool.
Variables (useE useM : bool) (block : N).
Hypothesis HvE : forall h, vE h (signE h) = true.
Hypothesis HvM : forall h, vM h (signM h) = true.
Hypothesis HlenE : forall h, lenN (signE h) = ed_sig_size.
Hypothesis HlenM : forall h, lenN (signM h) = mldsa_sig_size.
Hypothesis Hblock : 0 < block.

Notation ventry := (validate_entry H vE vM useE useM block).
Notation vfrom := (validate_from H vE vM useE useM block).
Notation mk := (mk_entry H signE).

Lemma vfrom_app : forall l1 l2 st,
  vfrom st (l1 ++ l2) = match vfrom st l1 with VOk st1 => vfrom st1 l2 | r => r end.
Proof.
  induction l1 as [|e l1 IH]; intros l2 st; [reflexivity|].
  cbn [app validate_from]. destruct (ventry st e); [apply IH | reflexivity | reflexivity].
Qed.

Definition hashable (det : details) : Prop :=
  match det with DGround _ sE sM => lenN sE = ed_sig_size /\ lenN sM = mldsa_sig_size | _ => True end.

Lemma mk_hash ts ty det prev : hashable det ->
  exists x, hash_input (mk ts ty det prev) = Some x /\ e_hash (mk ts ty det prev) = H x.
Proof.
  intros Hh. unfold mk_entry, hi_or_empty, hash_input. cbn [e_ver e_ts e_type e_det e_prev e_hash].
  destruct det as [|d|root sE sM|]; cbn [details_hash_part].
  - eexists; split; reflexivity.
  - eexists; split; reflexivity.
  - destruct Hh as [-> ->]. rewrite !N.eqb_refl. cbn [andb]. eexists; split; reflexivity.
  - eexists; split; reflexivity.
Qed.

Lemma andb_negb_sig h b : b && negb (vE h (signE h)) = false.
Proof. rewrite HvE. destruct b; reflexivity. Qed.

(* a LOG entry made by the writer on top of the validator's current state *)
Lemma ventry_log st ts d : v_idx st <> 0 -> lenL (v_buf st) < block ->
  let e := mk ts t_log (DLog d) (v_prev st) in
  ventry st e = VOk {| v_prev := e_hash e; v_buf := v_buf st ++ [e_hash e]; v_idx := v_idx st + 1 |}.
Proof.
  intros Hi Hb e. destruct (mk_hash ts t_log (DLog d) (v_prev st) I) as (x & Hx & Hh). fold e in Hx, Hh.
  unfold validate_entry. rewrite Hx, Hh, bytes_eqb_refl. cbn [negb].
  replace (v_idx st =? 0) with false by lia. cbn [andb negb].
  change (e_prev e) with (v_prev st). rewrite bytes_eqb_refl. cbn [negb].
  change (e_sig e) with (signE (e_hash e)). rewrite Hh, andb_negb_sig.
  change (e_type e) with t_log. rewrite (bytes_eqb_refl t_log).
  replace (block <? lenL (v_buf st ++ [H x])) with false; [reflexivity|].
  unfold lenL in *. rewrite app_length. cbn [length]. lia.
Qed.

Lemma ventry_grounding st ts : v_idx st <> 0 -> lenL (v_buf st) = block ->
  let root := merkle_root H (v_buf st) in
  let g := mk ts t_grounding (DGround root (signE root) (signM root)) (v_prev st) in
  ventry st g = VOk {| v_prev := e_hash g; v_buf := []; v_idx := v_idx st + 1 |}.
Proof.
  intros Hi Hb root g.
  destruct (mk_hash ts t_grounding (DGround root (signE root) (signM root)) (v_prev st) (conj (HlenE root) (HlenM root)))
    as (x & Hx & Hh). fold g in Hx, Hh.
  unfold validate_entry. rewrite Hx, Hh, bytes_eqb_refl. cbn [negb].
  replace (v_idx st =? 0) with false by lia. cbn [andb negb].
  change (e_prev g) with (v_prev st). rewrite bytes_eqb_refl. cbn [negb].
  change (e_sig g) with (signE (e_hash g)). rewrite Hh, andb_negb_sig.
  change (e_type g) with t_grounding. rewrite eqb_ground_log, (bytes_eqb_refl t_grounding).
  rewrite Hb, N.eqb_refl. cbn [negb].
  change (e_det g) with (DGround root (signE root) (signM root)). cbv iota.
  fold root. rewrite bytes_eqb_refl. cbn [negb].
  rewrite andb_negb_sig. rewrite HvM. destruct useM; reflexivity.
Qed.

Lemma ventry_genesis ts :
  let g := mk ts t_genesis DGenesis (genesis_prev H) in
  ventry init_state g = VOk {| v_prev := e_hash g; v_buf := []; v_idx := 1 |}.
Proof.
  intros g. destruct (mk_hash ts t_genesis DGenesis (genesis_prev H) I) as (x & Hx & Hh). fold g in Hx, Hh.
  unfold validate_entry. rewrite Hx, Hh, bytes_eqb_refl. cbn [negb init_state v_idx v_prev v_buf].
  change (0 =? 0) with true. cbn [andb negb].
  change (e_type g) with t_genesis. rewrite (bytes_eqb_refl t_genesis). cbn [negb].
  change (e_prev g) with (genesis_prev H). rewrite bytes_eqb_refl. cbn [negb].
  change (e_sig g) with (signE (e_hash g)). rewrite Hh, andb_negb_sig.
  reflexivity.
Qed.

(* the writer state mirrors the validator state after reading  L0 ++ (what this writer has written) *)
Definition winv (L0 : list entry) (w : wstate) : Prop :=
  exists st, vfrom init_state (L0 ++ w_out w) = VOk st /\ v_prev st = w_last w /\ v_buf st = w_buf w /\
             v_idx st <> 0 /\ lenL (w_buf w) < block.

Lemma log_step_inv L0 w ts tsg d : winv L0 w -> winv L0 (log_step H signE signM block w ts tsg d).
Proof.
  intros (st & Hv & Hp & Hb & Hi & Hl). unfold log_step.
  set (e := mk ts t_log (DLog d) (w_last w)).
  assert (ventry st e = VOk {| v_prev := e_hash e; v_buf := v_buf st ++ [e_hash e]; v_idx := v_idx st + 1 |}) as He.
  { unfold e. rewrite <- Hp. apply ventry_log; [exact Hi | rewrite Hb; exact Hl]. }
  set (st1 := {| v_prev := e_hash e; v_buf := v_buf st ++ [e_hash e]; v_idx := v_idx st + 1 |}) in *.
  cbn [w_buf w_last w_out].
  destruct (block <=? lenL (w_buf w ++ [e_hash e])) eqn:Eg.
  - (* grounding *)
    unfold emit_grounding. cbn [w_buf w_last w_out].
    set (root := merkle_root H (w_buf w ++ [e_hash e])).
    set (g := mk tsg t_grounding (DGround root (signE root) (signM root)) (e_hash e)).
    assert (lenL (v_buf st1) = block) as Hfull.
    { cbn [st1 v_buf]. rewrite Hb. unfold lenL in *. rewrite app_length in *. cbn [length] in *. lia. }
    assert (ventry st1 g = VOk {| v_prev := e_hash g; v_buf := []; v_idx := v_idx st1 + 1 |}) as Hg.
    { pose proof (ventry_grounding st1 tsg) as X. cbn [st1 v_prev v_buf v_idx] in X. cbn [st1 v_idx].
      rewrite Hb in X. apply X; [lia | cbn [st1 v_buf] in Hfull; rewrite Hb in Hfull; exact Hfull]. }
    exists {| v_prev := e_hash g; v_buf := []; v_idx := v_idx st1 + 1 |}.
    cbn [w_out w_last w_buf].
    split; [|cbn; repeat split; try lia].
    replace (L0 ++ (w_out w ++ [e]) ++ [g]) with ((L0 ++ w_out w) ++ [e; g]) by (rewrite <- !app_assoc; reflexivity).
    rewrite vfrom_app, Hv. cbn [validate_from]. rewrite He, Hg. reflexivity.
  - exists st1. cbn [w_out w_last w_buf]. split.
    + rewrite app_assoc, vfrom_app, Hv. cbn [validate_from]. rewrite He. reflexivity.
    + cbn [st1 v_prev v_buf v_idx]. rewrite Hb. repeat split; try lia.
Qed.

Lemma run_calls_inv L0 : forall cs w, winv L0 w -> winv L0 (run_calls H signE signM block w cs).
Proof.
  induction cs as [|[[ts tsg] d] cs IH]; intros w Hw; [exact Hw|].
  cbn [run_calls fold_left]. apply IH. apply log_step_inv. exact Hw.
Qed.

Lemma new_writer_inv ts : winv [] (new_writer H signE [] [] ts).
Proof.
  unfold new_writer. cbn [all_zero forallb].
  set (g := mk ts t_genesis DGenesis (genesis_prev H)).
  exists {| v_prev := e_hash g; v_buf := []; v_idx := 1 |}. cbn [w_out w_last w_buf app].
  split; [|repeat split; try lia; cbn; lia].
  cbn [validate_from]. pose proof (ventry_genesis ts) as X. cbv zeta in X. fold g in X. rewrite X. reflexivity.
Qed.

Theorem writer_accepted_stmt ts cs :
  accepted H vE vM useE useM block (w_out (run_calls H signE signM block (new_writer H signE [] [] ts) cs)) = true.
Proof.
  destruct (run_calls_inv [] cs _ (new_writer_inv ts)) as (st & Hv & _).
  unfold accepted, validate. cbn [app] in Hv. rewrite Hv. reflexivity.
Qed.

(* restart: NewFileSink re-reads the file with a Validator and hands (last hash, hash buffer) to a new middleware *)
Theorem restart_accepted_stmt L0 st0 ts cs :
  vfrom init_state L0 = VOk st0 -> L0 <> [] ->
  all_zero (v_prev st0) = false -> lenL (v_buf st0) < block ->
  accepted H vE vM useE useM block
    (L0 ++ w_out (run_calls H signE signM block (new_writer H signE (v_prev st0) (v_buf st0) ts) cs)) = true.
Proof.
  intros Hv0 Hne Hz Hl.
  assert (winv L0 (new_writer H signE (v_prev st0) (v_buf st0) ts)) as Hw.
  { unfold new_writer. rewrite Hz. exists st0. cbn [w_out w_last w_buf]. rewrite app_nil_r.
    repeat split; try assumption; try reflexivity.
    destruct L0 as [|e L0]; [contradiction|]. cbn [validate_from] in Hv0.
    destruct (ventry init_state e) as [st1| |] eqn:E1; try discriminate.
    destruct (ventry_ok _ _ _ _ _ _ _ _ _ E1) as (_ & _ & _ & _ & Hi1).
    assert (forall l s s', vfrom s l = VOk s' -> v_idx s <= v_idx s') as Mono.
    { induction l as [|a l IHl]; intros s s' Hs; cbn in Hs; [injection Hs as <-; lia|].
      destruct (ventry s a) as [s1| |] eqn:Ea; try discriminate.
      destruct (ventry_ok _ _ _ _ _ _ _ _ _ Ea) as (_ & _ & _ & _ & Hi). specialize (IHl _ _ Hs). lia. }
    specialize (Mono _ _ _ Hv0). cbn in Hi1. lia. }
  destruct (run_calls_inv L0 cs _ Hw) as (st & Hv & _).
  unfold accepted, validate. rewrite Hv. reflexivity.
Qed.

(* the LOG entries written are exactly the calls, in call order *)
Definition log_details (l : list entry) : list logd :=
  flat_map (fun e => if bytes_eqb (e_type e) t_log then match e_det e with DLog d => [d] | _ => [] end else []) l.

Lemma log_details_app a b : log_details (a ++ b) = log_details a ++ log_details b.
Proof. unfold log_details. apply flat_map_app. Qed.

Lemma log_step_details w ts tsg d :
  log_details (w_out (log_step H signE signM block w ts tsg d)) = log_details (w_out w) ++ [d].
Proof.
  unfold log_step. cbn [w_buf w_out w_last].
  destruct (block <=? _); [unfold emit_grounding|]; cbn [w_out w_buf w_last]; rewrite !log_details_app;
    unfold log_details at 2; cbn [flat_map mk_entry e_type e_det]; rewrite ?(bytes_eqb_refl t_log); cbn; rewrite ?app_nil_r; reflexivity.
Qed.

Lemma run_calls_details : forall cs w,
  log_details (w_out (run_calls H signE signM block w cs)) = log_details (w_out w) ++ map snd cs.
Proof.
  induction cs as [|[[ts tsg] d] cs IH]; intros w; [cbn; rewrite app_nil_r; reflexivity|].
  cbn [run_calls fold_left map snd]. change (fold_left _ cs ?x) with (run_calls H signE signM block x cs).
  rewrite IH, log_step_details, <- app_assoc. reflexivity.
Qed.
End WriterProofs.

(* ================================================================ time zones: Location of Entry.Timestamp *)
Lemma with_ts_id e : with_ts e (e_ts e) = e.
Proof. destruct e; reflexivity. Qed.

Lemma t_wall_utc t : t_wall (t_utc t) = t_inst t.
Proof. unfold t_wall, t_utc. cbn. lia. Qed.

(* the three consumers of the timestamp see the instant only *)
Lemma hash_input_go_inst e off : hash_input_go {| g_e := e; g_off := off |} = hash_input e.
Proof. unfold hash_input_go, g_time, t_unixnano. cbn. rewrite with_ts_id. reflexivity. Qed.
Lemma enc_bin_go_inst e off : enc_bin_go {| g_e := e; g_off := off |} = enc_bin e.
Proof. unfold enc_bin_go, g_time, t_unixnano. cbn. rewrite with_ts_id. reflexivity. Qed.
Lemma enc_json_go_inst e off : enc_json_go {| g_e := e; g_off := off |} = enc_json e.
Proof. unfold enc_json_go. rewrite t_wall_utc. unfold g_time. cbn. rewrite with_ts_id. reflexivity. Qed.

Lemma dec_json_go_enc e off : wf_json e ->
  dec_json_go (enc_json_go {| g_e := e; g_off := off |}) = Some {| g_e := e; g_off := 0%Z |}.
Proof.
  intros Hwf. rewrite enc_json_go_inst. unfold dec_json_go. rewrite dec_json_enc_json by exact Hwf.
  unfold t_parse_z. cbn [t_inst t_off]. rewrite with_ts_id. reflexivity.
Qed.

Lemma dec_bin_go_enc zone e off bs r : wf_bin e -> enc_bin_go {| g_e := e; g_off := off |} = Some bs ->
  dec_bin_go zone (bs ++ r) = ROk {| g_e := e; g_off := zone (e_ts e) |} r.
Proof.
  intros Hwf Henc. rewrite enc_bin_go_inst in Henc. unfold dec_bin_go. rewrite (dec_bin_enc_bin e bs r Hwf Henc). reflexivity.
Qed.

(* whole files, every assignment of Locations to the entries' timestamps *)
Lemma json_file_any_zone : forall L offs, Forall wf_json L ->
  mapM dec_json_go (map enc_json_go (zipg L offs)) = Some (map (fun e => {| g_e := e; g_off := 0%Z |}) L).
Proof.
  induction L as [|e L IH]; intros offs Hwf; [reflexivity|]. inversion Hwf; subst.
  destruct offs as [|o offs]; cbn [zipg map mapM]; rewrite dec_json_go_enc by assumption; rewrite IH by assumption; reflexivity.
Qed.

Lemma enc_bin_some e : wf_bin e -> exists bs, enc_bin e = Some bs.
Proof.
  intros ((Hv & Hts & Hty & Hdet) & Hp & Hh & Hs & _). unfold enc_bin.
  assert (exists dp, details_bin_part (e_ver e) (e_det e) = Some dp) as [dp ->].
  { destruct (e_det e) as [|l|root sE sM|]; cbn [details_bin_part wf_details] in *; try (eexists; reflexivity).
    destruct Hdet as (_ & _ & -> & ->). rewrite !N.eqb_refl. eexists; reflexivity. }
  rewrite Hp, Hh, Hs, !N.eqb_refl. eexists; reflexivity.
Qed.

Lemma bin_file_any_zone : forall L offs, Forall wf_bin L ->
  exists chunks, mapM enc_bin_go (zipg L offs) = Some chunks /\
                 Forall2 (fun e c => wf_bin e /\ enc_bin e = Some c) L chunks.
Proof.
  induction L as [|e L IH]; intros offs Hwf; [exists []; split; [reflexivity | constructor]|].
  inversion Hwf; subst. destruct (enc_bin_some e H1) as [bs Hbs].
  destruct offs as [|o offs]; cbn [zipg mapM]; rewrite enc_bin_go_inst, Hbs;
    [destruct (IH [] H2) as (chunks & -> & HF) | destruct (IH offs H2) as (chunks & -> & HF)];
    exists (bs :: chunks); (split; [reflexivity | constructor; [split; assumption | exact HF]]).
Qed.

Lemma dec_all_go_file zone L chunks fuel :
  Forall2 (fun e c => wf_bin e /\ enc_bin e = Some c) L chunks -> (length L < fuel)%nat ->
  dec_all_go zone fuel (concat chunks) = (map (fun e => {| g_e := e; g_off := zone (e_ts e) |}) L, None).
Proof.
  intros HF Hf. unfold dec_all_go. rewrite (dec_all_concat L chunks [] fuel HF Hf). reflexivity.
Qed.

(* ---- the writer's entries are well-formed for both serializers *)
Section WriterWf.
Variable H : bytes -> bytes.
Variables signE signM : bytes -> bytes.
Variable block : N.
Hypothesis HlenH : forall x, lenN (H x) = sha_size.
Hypothesis HlenE : forall h, lenN (signE h) = ed_sig_size.
Hypothesis HlenM : forall h, lenN (signM h) = mldsa_sig_size.
Notation mk := (mk_entry H signE).

Definition len64 (h : bytes) : Prop := lenN h = sha_size.

Lemma merkle_level_len l : Forall len64 (merkle_level H l).
Proof.
  assert (forall n l, (length l <= n)%nat -> Forall len64 (merkle_level H l)) as G.
  { induction n as [|n IH]; intros l0 Hl.
    - destruct l0; [constructor | cbn in Hl; lia].
    - destruct l0 as [|a [|b r]]; cbn [merkle_level].
      + constructor.
      + constructor; [apply HlenH | constructor].
      + constructor; [apply HlenH|]. apply IH. cbn in Hl. lia. }
  apply (G (length l)). lia.
Qed.

Lemma merkle_loop_len : forall fuel l, Forall len64 l -> lenN (merkle_loop H fuel l) <= sha_size.
Proof.
  induction fuel as [|f IH]; intros l Hl.
  - destruct l as [|a [|b r]]; cbn; try (unfold sha_size; lia). inversion Hl; subst. unfold len64 in *. lia.
  - destruct l as [|a [|b r]]; cbn [merkle_loop]; try (cbn; unfold sha_size; lia).
    + inversion Hl; subst. unfold len64 in *. lia.
    + apply IH. apply merkle_level_len.
Qed.

Lemma merkle_root_ok l : Forall len64 l -> str_ok (merkle_root H l).
Proof. intros Hl. unfold str_ok, merkle_root. pose proof (merkle_loop_len (length l) l Hl). unfold sha_size in *. lia. Qed.

Lemma str_ok_small s : lenN s < 64 -> str_ok s.
Proof. unfold str_ok. lia. Qed.

Lemma mk_wf_bin ts ty det prev :
  i64_ok ts -> str_ok ty -> wf_details 3 ty det -> lenN prev = sha_size -> wf_bin (mk ts ty det prev).
Proof.
  intros Hts Hty Hdet Hp. unfold wf_bin, wf_hash, mk_entry. cbn [e_ver e_ts e_type e_det e_prev e_hash e_sig].
  repeat split; try assumption; try apply HlenH; try apply HlenE; try (unfold i64_ok in Hts; lia).
Qed.

Definition call_ok (c : call) : Prop := match c with (ts, tsg, d) => i64_ok ts /\ i64_ok tsg /\ logd_ok d end.
Definition wwf (w : wstate) : Prop := len64 (w_last w) /\ Forall len64 (w_buf w) /\ Forall wf_bin (w_out w).

Lemma log_step_wwf w ts tsg d : wwf w -> call_ok (ts, tsg, d) -> wwf (log_step H signE signM block w ts tsg d).
Proof.
  intros (Hl & Hb & Ho) (Hts & Htsg & Hd). unfold log_step.
  set (e := mk ts t_log (DLog d) (w_last w)).
  assert (wf_bin e) as We.
  { apply mk_wf_bin; try assumption; [apply str_ok_small; cbn; lia|]. cbn [wf_details]. split; [reflexivity | split; [exact Hd | intros; lia]]. }
  assert (len64 (e_hash e)) as Hhe by (apply HlenH).
  assert (Forall len64 (w_buf w ++ [e_hash e])) as Hb' by (apply Forall_app; split; [assumption | constructor; [assumption | constructor]]).
  cbn [w_buf w_last w_out]. destruct (block <=? _).
  - unfold emit_grounding. cbn [w_buf w_last w_out].
    set (root := merkle_root H (w_buf w ++ [e_hash e])).
    set (g := mk tsg t_grounding (DGround root (signE root) (signM root)) (e_hash e)).
    assert (wf_bin g) as Wg.
    { apply mk_wf_bin; try assumption; [apply str_ok_small; cbn; lia|]. cbn [wf_details].
      repeat split; [apply merkle_root_ok; exact Hb' | apply HlenE | apply HlenM]. }
    repeat split; cbn [w_buf w_last w_out]; [apply HlenH | constructor |].
    apply Forall_app; split; [apply Forall_app; split; [assumption | constructor; [assumption | constructor]] | constructor; [assumption | constructor]].
  - repeat split; cbn [w_buf w_last w_out]; try assumption.
    apply Forall_app; split; [assumption | constructor; [assumption | constructor]].
Qed.

Lemma run_calls_wwf : forall cs w, wwf w -> Forall call_ok cs -> wwf (run_calls H signE signM block w cs).
Proof.
  induction cs as [|[[ts tsg] d] cs IH]; intros w Hw Hc; [exact Hw|]. inversion Hc; subst.
  cbn [run_calls fold_left]. apply IH; [apply log_step_wwf; assumption | assumption].
Qed.

Lemma new_writer_wwf ts : i64_ok ts -> wwf (new_writer H signE [] [] ts).
Proof.
  intros Hts. unfold new_writer. cbn [all_zero forallb]. repeat split; cbn [w_last w_buf w_out]; [apply HlenH | constructor |].
  constructor; [|constructor]. apply mk_wf_bin; [assumption | apply str_ok_small; cbn; lia | reflexivity | apply HlenH].
Qed.

Lemma writer_wf_bin ts cs : i64_ok ts -> Forall call_ok cs ->
  Forall wf_bin (w_out (run_calls H signE signM block (new_writer H signE [] [] ts) cs)).
Proof. intros Hts Hc. apply (run_calls_wwf cs _ (new_writer_wwf ts Hts) Hc). Qed.
End WriterWf.

(* wf_json needs no ranges: every entry the writer makes has details matching its type and version 3 *)
Lemma writer_wf_json H signE signM block : forall cs w, Forall wf_json (w_out w) ->
  Forall wf_json (w_out (run_calls H signE signM block w cs)).
Proof.
  induction cs as [|[[ts tsg] d] cs IH]; intros w Hw; [exact Hw|]. cbn [run_calls fold_left]. apply IH.
  unfold log_step. cbn [w_buf w_last w_out].
  assert (forall ts prev, wf_json (mk_entry H signE ts t_log (DLog d) prev)) as Wl.
  { intros. unfold wf_json, mk_entry. cbn. split; [reflexivity | intros; lia]. }
  assert (forall ts r a b prev, wf_json (mk_entry H signE ts t_grounding (DGround r a b) prev)) as Wg.
  { intros. unfold wf_json, mk_entry. cbn. reflexivity. }
  destruct (block <=? _); [unfold emit_grounding|]; cbn [w_out w_buf w_last];
    repeat (apply Forall_app; split); try assumption; repeat (constructor; try apply Wl; try apply Wg).
Qed.

Lemma new_writer_wf_json H signE ts last buf : Forall wf_json (w_out (new_writer H signE last buf ts)).
Proof. unfold new_writer. destruct (all_zero last); cbn [w_out]; repeat constructor. Qed.

(* ---- composed statements for Properties/C26.v *)
Lemma map_g_e_const (f : entry -> Z) L : map g_e (map (fun e => {| g_e := e; g_off := f e |}) L) = L.
Proof. induction L as [|e L IH]; cbn; [reflexivity | rewrite IH; reflexivity]. Qed.

Lemma written_log_any_zone_stmt :
  forall (H : bytes -> bytes) (signE signM : bytes -> bytes) (vE vM : bytes -> bytes -> bool)
         (useE useM : bool) (block : N),
  (forall h, vE h (signE h) = true) -> (forall h, vM h (signM h) = true) ->
  (forall x, lenN (H x) = sha_size) ->
  (forall h, lenN (signE h) = ed_sig_size) -> (forall h, lenN (signM h) = mldsa_sig_size) -> 0 < block ->
  forall (ts : Z) (calls : list call), i64_ok ts -> Forall call_ok calls ->
  let L := w_out (run_calls H signE signM block (new_writer H signE [] [] ts) calls) in
  forall (offs : list Z) (zone : Z -> Z) (fuel : nat), (length L < fuel)%nat ->
  (exists gs, mapM dec_json_go (map enc_json_go (zipg L offs)) = Some gs /\ map g_e gs = L) /\
  (exists chunks gs, mapM enc_bin_go (zipg L offs) = Some chunks /\
                     dec_all_go zone fuel (concat chunks) = (gs, None) /\ map g_e gs = L) /\
  accepted H vE vM useE useM block L = true.
Proof.
  intros H signE signM vE vM useE useM block A1 A2 AH A3 A4 A5 ts calls Hts Hc L offs zone fuel Hf.
  split; [|split].
  - eexists. split; [apply json_file_any_zone | apply (map_g_e_const (fun _ => 0%Z))].
    apply writer_wf_json. apply new_writer_wf_json.
  - pose proof (writer_wf_bin H signE signM block AH A3 A4 ts calls Hts Hc) as Wb. fold L in Wb.
    destruct (bin_file_any_zone L offs Wb) as (chunks & Hm & HF).
    exists chunks. eexists. split; [exact Hm|]. split; [apply (dec_all_go_file zone L chunks fuel HF Hf)|].
    apply (map_g_e_const (fun e => zone (e_ts e))).
  - apply (writer_accepted_stmt H signE signM vE vM useE useM block A1 A2 A3 A4 A5).
Qed.

Lemma restart_any_zone_stmt :
  forall (H : bytes -> bytes) (signE signM : bytes -> bytes) (vE vM : bytes -> bytes -> bool)
         (useE useM : bool) (block : N),
  (forall h, vE h (signE h) = true) -> (forall h, vM h (signM h) = true) ->
  (forall h, lenN (signE h) = ed_sig_size) -> (forall h, lenN (signM h) = mldsa_sig_size) -> 0 < block ->
  forall (L0 : list entry) (st0 : vstate) (ts : Z) (calls : list call),
  Forall wf_json L0 ->
  validate_from H vE vM useE useM block init_state L0 = VOk st0 -> L0 <> [] ->
  all_zero (v_prev st0) = false -> lenL (v_buf st0) < block ->
  let L := L0 ++ w_out (run_calls H signE signM block (new_writer H signE (v_prev st0) (v_buf st0) ts) calls) in
  forall offs : list Z,
  (exists gs, mapM dec_json_go (map enc_json_go (zipg L offs)) = Some gs /\ map g_e gs = L) /\
  accepted H vE vM useE useM block L = true.
Proof.
  intros H signE signM vE vM useE useM block A1 A2 A3 A4 A5 L0 st0 ts calls W0 Hv Hne Hz Hl L offs. split.
  - eexists. split; [apply json_file_any_zone | apply (map_g_e_const (fun _ => 0%Z))].
    apply Forall_app; split; [exact W0|]. apply writer_wf_json. apply new_writer_wf_json.
  - apply (restart_accepted_stmt H signE signM vE vM useE useM block A1 A2 A3 A4 A5 L0 st0 ts calls Hv Hne Hz Hl).
Qed.
