(* Proofs/MetaConcCond.v — C07: conditional writes (If-Match / If-None-Match:* on put, complete, delete) on M-META,
   at their commit point and under all interleavings. *)
From Verif Require Import Bytes Codec Md5 Meta MetaBasics MetaConc MetaConcBase MetaConcState MetaConcAppend.
From Coq Require Import Permutation ZifyBool ZifyN ZifyNat.

(* ---------- frame facts: these helpers do not touch the objects table ---------- *)
Lemma remove_ref_objs s pid : objs (fst (remove_ref s pid)) = objs s /\ buckets (fst (remove_ref s pid)) = buckets s.
Proof.
  unfold remove_ref. destruct (reg_get (registry s) pid) as [c|]; [|split; reflexivity].
  destruct (c <? 1)%N; [split; reflexivity|]. destruct (c =? 1)%N; split; reflexivity.
Qed.
Lemma remove_refs_objs pids : forall s, objs (fst (remove_refs s pids)) = objs s /\ buckets (fst (remove_refs s pids)) = buckets s.
Proof.
  induction pids as [|p pids IH]; intros s; cbn [remove_refs]; [split; reflexivity|].
  destruct (remove_ref s p) as [s1 z] eqn:E1. destruct (remove_refs s1 pids) as [s2 zs] eqn:E2. cbn [fst].
  pose proof (remove_ref_objs s p) as [A1 A2]. rewrite E1 in A1, A2. cbn in A1, A2.
  pose proof (IH s1) as [B1 B2]. rewrite E2 in B1, B2. cbn in B1, B2. split; congruence.
Qed.
Lemma remove_parts_of_objs s id : objs (fst (remove_parts_of s id)) = objs s /\ buckets (fst (remove_parts_of s id)) = buckets s.
Proof.
  unfold remove_parts_of, remove_part_rows.
  match goal with |- context [remove_refs ?S ?L] => destruct (remove_refs_objs L S) as [H1 H2] end.
  rewrite H1, H2. split; reflexivity.
Qed.
Lemma delete_unreferenced_objs l : forall s, objs (delete_unreferenced s l) = objs s /\ buckets (delete_unreferenced s l) = buckets s.
Proof.
  unfold delete_unreferenced. induction l as [|p l IH]; intros s; cbn; [split; reflexivity|].
  destruct (IH (store_del s p)) as [H1 H2]. rewrite H1, H2. split; reflexivity.
Qed.

(* ---------- resolving a key through the unique index ---------- *)
Lemma on_key_eq b k a : on_key b k a = true -> o_bucket a = b /\ o_key a = k.
Proof. unfold on_key. intros H. apply andb_true_iff in H. destruct H as [H1 H2]. apply bytes_eqb_eq in H1, H2. auto. Qed.

Lemma latest_by_unique s a b k :
  In a (objs s) -> on_key b k a = true -> completed a = true -> o_latest a = true -> unique_ok s = true ->
  find_latest s b k = Some a.
Proof.
  intros Hi K C L U. unfold find_latest. apply find_unique; [|exact Hi|rewrite K, C, L; reflexivity].
  unfold unique_ok in U. rewrite forallb_forall in U. specialize (U a Hi). rewrite C, L in U. cbn in U.
  apply andb_true_iff in U. destruct U as [U _]. apply Nat.leb_le in U.
  destruct (on_key_eq _ _ _ K) as [E1 E2]. rewrite E1, E2 in U. exact U.
Qed.

(* with a unique latest row, deleting it leaves the key without a latest row *)
Lemma count_le1_unique_pos {A} (f : A -> bool) l1 a l2 c :
  (count_occ_f f (l1 ++ a :: l2) <= 1)%nat -> f a = true -> In c (l1 ++ l2) -> f c = false.
Proof.
  intros H Fa Hc. rewrite count_occ_f_app in H. cbn in H. rewrite Fa in H.
  destruct (f c) eqn:Fc; [|reflexivity]. exfalso.
  assert (G : forall l, In c l -> (1 <= count_occ_f f l)%nat).
  { induction l as [|y l IH]; [intros []|]. intros [->|Hy]; cbn; [rewrite Fc; lia|]. specialize (IH Hy). destruct (f y); lia. }
  apply in_app_or in Hc. destruct Hc as [Hc|Hc]; specialize (G _ Hc); lia.
Qed.

(* ---------- meta_put at its commit point ---------- *)
Lemma set_latest_objs s r l :
  objs (set_latest s r l) = map (upd_fun (with_row r l (o_updated r) (o_lock r)) (clock s)) (objs s) /\
  buckets (set_latest s r l) = buckets s.
Proof. unfold set_latest. destruct (update_row_facts s (with_row r l (o_updated r) (o_lock r))) as (H1 & _ & H3 & _). auto. Qed.

Lemma in_map_same_id (g : orow -> orow) l x :
  (forall y, o_id (g y) = o_id y) -> In x l -> exists x', In x' (map g l) /\ o_id x' = o_id x.
Proof. intros Hg Hx. exists (g x). split; [apply in_map; exact Hx|apply Hg]. Qed.

Lemma meta_put_ok s vn b k w cd s2 r u :
  meta_put s vn b k w cd = (s2, r, u) -> not_err r ->
  cond_fails cd (find_latest s b k) = false /\ (exists v, r = RPut v (w_etag w)) /\
  exists a, In a (objs s2) /\ on_key b k a = true /\ completed a = true /\ o_latest a = true /\ o_dm a = false /\
            o_etag a = w_etag w /\ o_size a = w_size w.
Proof.
  unfold meta_put. intros H NE.
  destruct (find_bucket s b) as [bk|]; [|inversion H; subst; exfalso; eapply NE; reflexivity].
  destruct (cond_fails cd (find_latest s b k)) eqn:CF; [inversion H; subst; exfalso; eapply NE; reflexivity|].
  split; [reflexivity|].
  set (s1 := match find_latest s b k with Some r0 => if is_cond cd then set_latest s r0 (o_latest r0) else s | None => s end) in *.
  assert (K : on_key b k (mk_row b k (Some VNull) true false None w 0 0) = true) by (unfold on_key; cbn; rewrite !bytes_eqb_refl; reflexivity).
  assert (NEW : forall v id now, let a := mk_row b k v true false None w id now in
            on_key b k a = true /\ completed a = true /\ o_latest a = true /\ o_dm a = false /\ o_etag a = w_etag w /\ o_size a = w_size w).
  { intros v id now. cbn. unfold on_key. cbn. rewrite !bytes_eqb_refl. repeat split; reflexivity. }
  destruct (b_ver bk).
  - (* unversioned *) 
    destruct (is_inm cd && match find_null s1 b k with Some _ => true | None => false end);
      [inversion H; subst; exfalso; eapply NE; reflexivity|].
    set (s3 := match find_latest s1 b k with Some r0 => set_latest s1 r0 false | None => s1 end) in *.
    destruct (find_null s1 b k) as [nr|] eqn:FN.
    + destruct (remove_parts_of _ (o_id nr)) as [s4 unref] eqn:RP.
      inversion H; subst s2 r u. clear H. split; [eexists; reflexivity|].
      destruct (spr_facts (w_parts w) s4 (o_id nr) 0) as (S1 & _). rewrite S1.
      pose proof (remove_parts_of_objs (update_row s3 {| o_id := o_id nr; o_bucket := b; o_key := k; o_vid := Some VNull; o_latest := true;
                         o_dm := false; o_upload := None; o_created := o_created nr; o_updated := o_updated nr;
                         o_lock := o_lock nr; o_etag := w_etag w; o_size := w_size w; o_ctype := w_ctype w;
                         o_class := w_class w; o_tags := w_tags w; o_umeta := w_umeta w; o_written := clock s3 |}) (o_id nr)) as [R1 _].
      rewrite RP in R1. cbn [fst] in R1. rewrite R1.
      match type of R1 with _ = objs (update_row s3 ?R) => destruct (update_row_facts s3 R) as (U1 & _); set (r' := R) in * end.
      rewrite U1.
      assert (exists x, In x (objs s3) /\ o_id x = o_id nr) as (x & Hx & Ex).
      { unfold find_null, find_version in FN. apply find_some in FN. destruct FN as [FN _].
        subst s3. destruct (find_latest s1 b k) as [r0|]; [|exists nr; auto].
        destruct (set_latest_objs s1 r0 false) as [E _]. rewrite E.
        destruct (in_map_same_id (upd_fun (with_row r0 false (o_updated r0) (o_lock r0)) (clock s1)) (objs s1) nr) as (x' & X1 & X2);
          [intros y; apply upd_fun_id|exact FN|]. exists x'. auto. }
      exists (upd_fun r' (clock s3) x). split; [apply in_map; exact Hx|].
      unfold upd_fun. cbn [o_id r']. rewrite Ex, N.eqb_refl. cbn. unfold on_key. cbn. rewrite !bytes_eqb_refl. repeat split; reflexivity.
    + destruct (insert_row s3 _) as [id s4] eqn:IR. apply insert_row_facts in IR. destruct IR as (_ & I2 & _).
      inversion H; subst s2 r u. clear H. split; [eexists; reflexivity|].
      destruct (spr_facts (w_parts w) s4 id 0) as (S1 & _). rewrite S1, I2.
      eexists. split; [apply in_or_app; right; left; reflexivity|]. apply NEW.
  - (* enabled *)
    set (s3 := match find_latest s1 b k with Some r0 => set_latest s1 r0 false | None => s1 end) in *.
    destruct (insert_row s3 _) as [id s4] eqn:IR. apply insert_row_facts in IR. destruct IR as (_ & I2 & _).
    inversion H; subst s2 r u. clear H. split; [eexists; reflexivity|].
    destruct (spr_facts (w_parts w) s4 id 0) as (S1 & _). rewrite S1, I2.
    eexists. split; [apply in_or_app; right; left; reflexivity|]. apply NEW.
  - (* suspended: as unversioned *)
    destruct (is_inm cd && match find_null s1 b k with Some _ => true | None => false end);
      [inversion H; subst; exfalso; eapply NE; reflexivity|].
    set (s3 := match find_latest s1 b k with Some r0 => set_latest s1 r0 false | None => s1 end) in *.
    destruct (find_null s1 b k) as [nr|] eqn:FN.
    + destruct (remove_parts_of _ (o_id nr)) as [s4 unref] eqn:RP.
      inversion H; subst s2 r u. clear H. split; [eexists; reflexivity|].
      destruct (spr_facts (w_parts w) s4 (o_id nr) 0) as (S1 & _). rewrite S1.
      pose proof (remove_parts_of_objs (update_row s3 {| o_id := o_id nr; o_bucket := b; o_key := k; o_vid := Some VNull; o_latest := true;
                         o_dm := false; o_upload := None; o_created := o_created nr; o_updated := o_updated nr;
                         o_lock := o_lock nr; o_etag := w_etag w; o_size := w_size w; o_ctype := w_ctype w;
                         o_class := w_class w; o_tags := w_tags w; o_umeta := w_umeta w; o_written := clock s3 |}) (o_id nr)) as [R1 _].
      rewrite RP in R1. cbn [fst] in R1. rewrite R1.
      match type of R1 with _ = objs (update_row s3 ?R) => destruct (update_row_facts s3 R) as (U1 & _); set (r' := R) in * end.
      rewrite U1.
      assert (exists x, In x (objs s3) /\ o_id x = o_id nr) as (x & Hx & Ex).
      { unfold find_null, find_version in FN. apply find_some in FN. destruct FN as [FN _].
        subst s3. destruct (find_latest s1 b k) as [r0|]; [|exists nr; auto].
        destruct (set_latest_objs s1 r0 false) as [E _]. rewrite E.
        destruct (in_map_same_id (upd_fun (with_row r0 false (o_updated r0) (o_lock r0)) (clock s1)) (objs s1) nr) as (x' & X1 & X2);
          [intros y; apply upd_fun_id|exact FN|]. exists x'. auto. }
      exists (upd_fun r' (clock s3) x). split; [apply in_map; exact Hx|].
      unfold upd_fun. cbn [o_id r']. rewrite Ex, N.eqb_refl. cbn. unfold on_key. cbn. rewrite !bytes_eqb_refl. repeat split; reflexivity.
    + destruct (insert_row s3 _) as [id s4] eqn:IR. apply insert_row_facts in IR. destruct IR as (_ & I2 & _).
      inversion H; subst s2 r u. clear H. split; [eexists; reflexivity|].
      destruct (spr_facts (w_parts w) s4 id 0) as (S1 & _). rewrite S1, I2.
      eexists. split; [apply in_or_app; right; left; reflexivity|]. apply NEW.
Qed.

(* ---------- PutObject ---------- *)
Lemma find_latest_ext s1 s b k : objs s1 = objs s -> find_latest s1 b k = find_latest s b k.
Proof. intros E. unfold find_latest. rewrite E. reflexivity. Qed.

Lemma op_put_ok s vn b k c cd s' r :
  op_put s vn b k c cd = (s', r) -> not_err r ->
  cond_fails cd (find_latest s b k) = false /\ (exists v, r = RPut v (mk_md5 c)) /\
  exists a, cur_row s' b k = Some a /\ o_etag a = mk_md5 c.
Proof.
  unfold op_put. intros H NE. apply commit_inv in H; [|exact NE]. destruct H as (H & U1 & _).
  destruct (put_fresh_part s c) as [np s1] eqn:PF. destruct (pfp_facts _ _ _ _ PF) as (Po & _).
  destruct (meta_put s1 vn b k _ cd) as [[s2 r2] u2] eqn:MP.
  inversion H; subst s' r. clear H.
  apply meta_put_ok in MP; [|exact NE]. destruct MP as (CF & RV & a & A1 & A2 & A3 & A4 & A5 & A6 & _).
  rewrite (find_latest_ext s1 s b k Po) in CF. split; [exact CF|]. split; [exact RV|].
  exists a. destruct (delete_unreferenced_objs u2 s2) as [D1 _].
  assert (In a (objs (delete_unreferenced s2 u2))) as Hi by (rewrite D1; exact A1).
  unfold cur_row. rewrite (latest_by_unique _ a b k Hi A2 A3 A4 U1), A5. split; [reflexivity|exact A6].
Qed.

(* an error leaves the state alone *)
Lemma cw_err_state b k i s w s' e : cw_step b k i s w = (s', RErr e) -> s' = with_ids s i.
Proof. destruct w; cbn [cw_step]; intros H; [unfold op_put in H|unfold op_complete in H|unfold op_delete in H]; eapply commit_err_state; exact H. Qed.

(* ---------- DeleteObject by key ---------- *)
Lemma count_le1_same {A} (f : A -> bool) l a c :
  (count_occ_f f l <= 1)%nat -> In a l -> In c l -> f a = true -> f c = true -> a = c.
Proof.
  induction l as [|x l IH]; cbn; intros H Ha Hc Fa Fc; [contradiction|].
  assert (G : forall y, In y l -> f y = true -> (1 <= count_occ_f f l)%nat).
  { clear. induction l as [|z l IH]; [intros y []|]. intros y [->|Hy] Fy; cbn; [rewrite Fy; lia|]. specialize (IH y Hy Fy). destruct (f z); lia. }
  destruct Ha as [<-|Ha], Hc as [<-|Hc]; [reflexivity| | |].
  - rewrite Fa in H. specialize (G c Hc Fc). lia.
  - rewrite Fc in H. specialize (G a Ha Fa). lia.
  - apply IH; try assumption. destruct (f x); lia.
Qed.

Lemma op_delete_ok s vn b k cd s' r :
  op_delete s vn b k None cd = (s', r) -> not_err r ->
  del_cond_fails cd (find_latest s b k) = false /\
  (unique_ok s = true -> cur_row s' b k = None).
Proof.
  unfold op_delete. intros H NE. apply commit_inv in H; [|exact NE]. destruct H as (H & U1 & _).
  destruct (find_bucket s b) as [bk|] eqn:FB; [|inversion H; subst; exfalso; eapply NE; reflexivity].
  cbv zeta in H.
  match type of H with (if ?P then _ else _) = _ => destruct P eqn:PR end.
  - destruct (meta_delete s vn bk b k None cd) as [[s2 r2] u2] eqn:MD. inversion H; subst s' r. clear H.
    unfold meta_delete in MD.
    destruct (del_cond_fails cd (find_latest s b k)) eqn:DC; [inversion MD; subst; exfalso; eapply NE; reflexivity|].
    split; [reflexivity|]. intros U0.
    destruct (delete_unreferenced_objs u2 s2) as [D1 _].
    unfold cur_row. rewrite (find_latest_ext _ s2 b k D1).
    destruct (b_ver bk) eqn:BV.
    + (* unversioned: the current row is purged *)
      destruct (find_latest s b k) as [cur|] eqn:FL.
      * set (s1 := if is_cond cd then set_latest s cur (o_latest cur) else s) in *.
        destruct (purge_row s1 cur) as [s3 un] eqn:PG. inversion MD; subst s2 r2 u2. clear MD.
        unfold purge_row in PG.
        assert (objs s3 = filter (fun r => negb (N.eqb (o_id r) (o_id cur))) (objs s1)) as E3.
        { destruct (o_dm cur).
          - inversion PG; subst. reflexivity.
          - destruct (remove_parts_of s1 (o_id cur)) as [s4 u4] eqn:RP. inversion PG; subst.
            pose proof (remove_parts_of_objs s1 (o_id cur)) as [R1 _]. rewrite RP in R1. cbn in R1. cbn. rewrite R1. reflexivity. }
        destruct (find_latest s3 b k) as [x|] eqn:F3; [|reflexivity]. exfalso.
        apply find_some in F3. destruct F3 as [X1 X2]. rewrite E3 in X1. apply filter_In in X1. destruct X1 as [X1 X3].
        apply negb_true_iff, N.eqb_neq in X3.
        assert (In x (objs s)) as Hx.
        { subst s1. destruct (is_cond cd); [|exact X1]. destruct (set_latest_objs s cur (o_latest cur)) as [E _]. rewrite E in X1.
          apply in_map_iff in X1. destruct X1 as (y & Ey & Hy). unfold upd_fun in Ey. cbn [o_id with_row] in Ey.
          destruct (N.eqb (o_id y) (o_id cur)) eqn:Q; [subst x; cbn in X3; contradiction|subst y; exact Hy]. }
        pose proof (find_some _ _ FL) as [C1 C2].
        assert (x = cur) as ->.
        { apply (count_le1_same (fun r => on_key b k r && completed r && o_latest r) (objs s)); try assumption.
          unfold unique_ok in U0. rewrite forallb_forall in U0. specialize (U0 cur C1).
          apply andb_true_iff in C2. destruct C2 as [C2 C4]. apply andb_true_iff in C2. destruct C2 as [C2 C3].
          rewrite C3, C4 in U0. cbn in U0. apply andb_true_iff in U0. destruct U0 as [U0 _]. apply Nat.leb_le in U0.
          destruct (on_key_eq _ _ _ C2) as [E1 E2]. rewrite E1, E2 in U0. exact U0. }
        contradiction.
      * inversion MD; subst s2 r2 u2. rewrite FL. reflexivity.
    + (* enabled: a delete marker becomes the latest row *)
      set (s3 := match find_latest s b k with Some cur => set_latest s cur false | None => s end) in *.
      destruct (insert_row s3 _) as [id s4] eqn:IR. apply insert_row_facts in IR. destruct IR as (_ & I2 & _).
      inversion MD; subst s2 r2 u2. clear MD.
      match type of I2 with _ = _ ++ [?NR] => set (nr := NR) in * end.
      assert (FL4 : find_latest s4 b k = Some nr).
      { apply latest_by_unique.
        - rewrite I2. apply in_or_app. right. left. reflexivity.
        - unfold on_key. cbn. rewrite !bytes_eqb_refl. reflexivity.
        - reflexivity.
        - reflexivity.
        - erewrite unique_ok_ext; [exact U1|]. exact (eq_sym D1). }
      rewrite FL4. reflexivity.
    + (* suspended: the null version is removed, a delete marker becomes the latest row *)
      destruct (match find_null s b k with
                | Some nr => let '(s0, u) := remove_parts_of s (o_id nr) in (delete_row s0 (o_id nr), u)
                | None => (s, []) end) as [s2' un] eqn:NR.
      set (s3 := match find_latest s b k with Some cur => set_latest s2' cur false | None => s2' end) in *.
      destruct (insert_row s3 _) as [id s4] eqn:IR. apply insert_row_facts in IR. destruct IR as (_ & I2 & _).
      inversion MD; subst s2 r2 u2. clear MD.
      match type of I2 with _ = _ ++ [?NR] => set (nr := NR) in * end.
      assert (FL4 : find_latest s4 b k = Some nr).
      { apply latest_by_unique.
        - rewrite I2. apply in_or_app. right. left. reflexivity.
        - unfold on_key. cbn. rewrite !bytes_eqb_refl. reflexivity.
        - reflexivity.
        - reflexivity.
        - erewrite unique_ok_ext; [exact U1|]. exact (eq_sym D1). }
      rewrite FL4. reflexivity.
  - (* nothing to delete *)
    destruct (is_cond cd) eqn:IC; inversion H; subst s' r; [exfalso; eapply NE; reflexivity|].
    split; [destruct cd; try discriminate; reflexivity|]. intros _.
    unfold cur_row. destruct (b_ver bk) eqn:BV.
    + destruct (find_latest s b k); [discriminate|reflexivity].
    + destruct (find_latest s b k); discriminate.
    + destruct (find_null s b k); discriminate.
Qed.

(* ---------- conditions in terms of what the key resolves to ---------- *)
Lemma cond_if_match s b k e :
  cond_fails (CIfMatch e) (find_latest s b k) = false ->
  exists a, cur_row s b k = Some a /\ etag_eqb (o_etag a) e = true.
Proof.
  unfold cond_fails, cur_row, exists_obj. destruct (find_latest s b k) as [r|]; [|discriminate].
  destruct (o_dm r); [discriminate|]. cbn. intros H. apply negb_false_iff in H. exists r. auto.
Qed.
Lemma del_cond_if_match s b k e :
  del_cond_fails (CIfMatch e) (find_latest s b k) = false ->
  exists a, cur_row s b k = Some a /\ etag_eqb (o_etag a) e = true.
Proof. exact (cond_if_match s b k e). Qed.
Lemma cond_inm s b k :
  cond_fails CIfNoneMatchStar (find_latest s b k) = false -> cur_row s b k = None.
Proof.
  unfold cond_fails, cur_row, exists_obj. destruct (find_latest s b k) as [r|]; [|reflexivity].
  destruct (o_dm r); [reflexivity|discriminate].
Qed.

(* a writer's step: either an error (state unchanged) or a success *)
Lemma cw_step_cases b k i s w s' r :
  cw_step b k i s w = (s', r) -> (exists e, r = RErr e /\ s' = with_ids s i) \/ not_err r.
Proof.
  intros H. destruct r; try (right; intros e0; discriminate).
  left. eexists. split; [reflexivity|]. eapply cw_err_state. exact H.
Qed.

Definition inm_put (w : cwriter) : Prop := exists c, w = WPut c CIfNoneMatchStar.

(* once the key resolves to an object, every If-None-Match:* put fails and nothing changes *)
Lemma inm_all_fail b k : forall sched i s s' rs a,
  Forall inm_put sched -> cur_row s b k = Some a -> run_cw b k i s sched = (s', rs) ->
  count_ok rs = 0%nat /\ cur_row s' b k = Some a.
Proof.
  induction sched as [|w sched IH]; intros i s s' rs a HF HC H; cbn [run_cw] in H.
  - inversion H; subst. split; [reflexivity|exact HC].
  - destruct (cw_step b k i s w) as [s1 r] eqn:ST. destruct (run_cw b k (i + 1) s1 sched) as [s2 rs'] eqn:RC.
    inversion H; subst s2 rs. clear H. inversion HF as [|? ? Hw HF']; subst.
    destruct Hw as (c & ->). destruct (cw_step_cases _ _ _ _ _ _ _ ST) as [(e & -> & ->)|NE].
    + destruct (IH (i + 1)%N (with_ids s i) s' rs' a HF' HC RC) as (C1 & C2). split; [exact C1|exact C2].
    + exfalso. cbn [cw_step] in ST. apply op_put_ok in ST; [|exact NE]. destruct ST as (CF & _).
      apply cond_inm in CF. change (cur_row (with_ids s i) b k) with (cur_row s b k) in CF. congruence.
Qed.

Lemma inm_at_most_one b k : forall sched i s s' rs,
  Forall inm_put sched -> run_cw b k i s sched = (s', rs) -> (count_ok rs <= 1)%nat.
Proof.
  induction sched as [|w sched IH]; intros i s s' rs HF H; cbn [run_cw] in H.
  - inversion H; subst. cbn. lia.
  - destruct (cw_step b k i s w) as [s1 r] eqn:ST. destruct (run_cw b k (i + 1) s1 sched) as [s2 rs'] eqn:RC.
    inversion H; subst s2 rs. clear H. inversion HF as [|? ? Hw HF']; subst.
    destruct (cw_step_cases _ _ _ _ _ _ _ ST) as [(e & -> & ->)|NE].
    + specialize (IH _ _ _ _ HF' RC). unfold count_ok in *. cbn. exact IH.
    + destruct Hw as (c & ->). cbn [cw_step] in ST. apply op_put_ok in ST; [|exact NE].
      destruct ST as (_ & _ & a & A1 & _).
      destruct (inm_all_fail b k sched (i + 1)%N s1 s' rs' a HF' A1 RC) as (C1 & _).
      unfold count_ok in *. cbn. destruct r; cbn; lia.
Qed.

(* ---------- If-Match ---------- *)
Definition im_writer (e : etag) (w : cwriter) : Prop :=
  (exists c, w = WPut c (CIfMatch e) /\ etag_eqb (mk_md5 c) e = false) \/ w = WDel (CIfMatch e).
Definition nomatch (e : etag) (s : mstate) (b k : bytes) : Prop :=
  match cur_row s b k with None => True | Some a => etag_eqb (o_etag a) e = false end.

Lemma im_all_fail b k e : forall sched i s s' rs,
  Forall (im_writer e) sched -> nomatch e s b k -> run_cw b k i s sched = (s', rs) -> count_ok rs = 0%nat.
Proof.
  induction sched as [|w sched IH]; intros i s s' rs HF HN H; cbn [run_cw] in H.
  - inversion H; subst. reflexivity.
  - destruct (cw_step b k i s w) as [s1 r] eqn:ST. destruct (run_cw b k (i + 1) s1 sched) as [s2 rs'] eqn:RC.
    inversion H; subst s2 rs. clear H. inversion HF as [|? ? Hw HF']; subst.
    destruct (cw_step_cases _ _ _ _ _ _ _ ST) as [(e0 & -> & ->)|NE].
    + exact (IH (i + 1)%N (with_ids s i) s' rs' HF' HN RC).
    + exfalso. unfold nomatch in HN. destruct Hw as [(c & -> & _)| ->]; cbn [cw_step] in ST.
      * apply op_put_ok in ST; [|exact NE]. destruct ST as (CF & _). apply cond_if_match in CF.
        destruct CF as (a & A1 & A2). change (cur_row (with_ids s i) b k) with (cur_row s b k) in A1. rewrite A1 in HN. congruence.
      * apply op_delete_ok in ST; [|exact NE]. destruct ST as (CF & _). apply del_cond_if_match in CF.
        destruct CF as (a & A1 & A2). change (cur_row (with_ids s i) b k) with (cur_row s b k) in A1. rewrite A1 in HN. congruence.
Qed.

Lemma im_at_most_one b k e : forall sched i s s' rs,
  Forall (im_writer e) sched -> unique_ok s = true -> run_cw b k i s sched = (s', rs) -> (count_ok rs <= 1)%nat.
Proof.
  induction sched as [|w sched IH]; intros i s s' rs HF U H; cbn [run_cw] in H.
  - inversion H; subst. cbn. lia.
  - destruct (cw_step b k i s w) as [s1 r] eqn:ST. destruct (run_cw b k (i + 1) s1 sched) as [s2 rs'] eqn:RC.
    inversion H; subst s2 rs. clear H. inversion HF as [|? ? Hw HF']; subst.
    destruct (cw_step_cases _ _ _ _ _ _ _ ST) as [(e0 & -> & ->)|NE].
    + specialize (IH (i + 1)%N (with_ids s i) s' rs' HF' U RC). unfold count_ok in *. cbn. exact IH.
    + assert (nomatch e s1 b k) as HN.
      { unfold nomatch. destruct Hw as [(c & -> & Hc)| ->]; cbn [cw_step] in ST.
        - apply op_put_ok in ST; [|exact NE]. destruct ST as (_ & _ & a & A1 & A2). rewrite A1, A2. exact Hc.
        - apply op_delete_ok in ST; [|exact NE]. destruct ST as (_ & PS). rewrite (PS U). exact I. }
      pose proof (im_all_fail b k e sched (i + 1)%N s1 s' rs' HF' HN RC) as C1.
      unfold count_ok in *. cbn. destruct r; cbn; lia.
Qed.
Definition no_rows_on_key (s : mstate) (b k : bytes) : Prop :=
  forall r, In r (objs s) -> on_key b k r && completed r = false.

Lemma find_none_all {A} (f : A -> bool) l : (forall x, In x l -> f x = false) -> find f l = None.
Proof. induction l as [|x l IH]; cbn; intros H; [reflexivity|]. rewrite (H x (or_introl eq_refl)). apply IH. intros y Hy. apply H. right. exact Hy. Qed.

Lemma on_key_sym_false b k r nr :
  o_bucket nr = b -> o_key nr = k -> on_key b k r = false -> on_key (o_bucket r) (o_key r) nr = false.
Proof.
  intros <- <- H. unfold on_key in *. apply andb_false_iff in H. apply andb_false_iff.
  destruct H as [H|H]; [left|right]; apply bytes_eqb_neq in H; apply bytes_eqb_neq; congruence.
Qed.

(* an If-None-Match:* put on a key without completed rows commits *)
Lemma op_put_fresh_live s vn b k c bk s' r :
  find_bucket s b = Some bk -> no_rows_on_key s b k -> unique_ok s = true -> parts_unique_ok s = true ->
  ids_fresh s -> op_put s vn b k c CIfNoneMatchStar = (s', r) -> not_err r.
Proof.
  intros FB NR U PU (F1 & F2) H. unfold op_put in H.
  destruct (put_fresh_part s c) as [np s1] eqn:PF. destruct (pfp_facts _ _ _ _ PF) as (Po & Pp & Pb & Pn & _).
  destruct (meta_put s1 vn b k _ CIfNoneMatchStar) as [[s2 r2] u2] eqn:MP.
  unfold meta_put in MP. unfold find_bucket in MP, FB. rewrite Pb, FB in MP.
  assert (FL : find_latest s1 b k = None).
  { unfold find_latest. rewrite Po. apply find_none_all. intros x Hx. rewrite (NR x Hx). reflexivity. }
  assert (FN : forall st, objs st = objs s -> find_null st b k = None).
  { intros st E. unfold find_null, find_version. rewrite E. apply find_none_all. intros x Hx. rewrite (NR x Hx). reflexivity. }
  rewrite FL in MP. cbn [cond_fails exists_obj] in MP. rewrite FL in MP.
  assert (exists v,
            s2 = save_part_rows (snd (insert_row s1 (mk_row b k (Some v) true false None (plain_obj (mk_md5 c) (zlen c) [np])))) (next_id s1) [np] 0
            /\ r2 = RPut v (mk_md5 c) /\ u2 = []) as (v & E2 & Er & Eu).
  { destruct (b_ver bk).
    - rewrite (FN s1 Po) in MP. cbn in MP. inversion MP; subst. exists VNull. repeat split; reflexivity.
    - cbn in MP. inversion MP; subst. exists (VId vn). repeat split; reflexivity.
    - rewrite (FN s1 Po) in MP. cbn in MP. inversion MP; subst. exists VNull. repeat split; reflexivity. }
  subst r2 u2. clear MP. cbn [delete_unreferenced fold_left] in H.
  set (nr := mk_row b k (Some v) true false None (plain_obj (mk_md5 c) (zlen c) [np]) (next_id s1) (clock s1)) in *.
  subst s2. set (s2 := save_part_rows (snd (insert_row s1 (mk_row b k (Some v) true false None (plain_obj (mk_md5 c) (zlen c) [np])))) (next_id s1) [np] 0) in *.
  destruct (spr_facts [np] (snd (insert_row s1 (mk_row b k (Some v) true false None (plain_obj (mk_md5 c) (zlen c) [np])))) (next_id s1) 0) as (S1 & S2 & _).
  fold s2 in S1, S2.
  assert (O2 : objs s2 = objs s ++ [nr]) by (rewrite S1; cbn; rewrite Po; reflexivity).
  assert (P2 : parts s2 = parts s ++ [{| p_obj := next_id s1; p_seq := 0; p_pid := n_pid np; p_content := n_content np |}])
    by (rewrite S2; cbn; rewrite Pp; reflexivity).
  assert (UO : unique_ok s2 = true).
  { unfold unique_ok. rewrite O2, forallb_app. apply andb_true_iff. split.
    - unfold unique_ok in U. rewrite forallb_forall in U |- *. intros x Hx. specialize (U x Hx).
      destruct (completed x) eqn:Cx; [|reflexivity].
      assert (on_key b k x = false) as OK by (specialize (NR x Hx); rewrite Cx, andb_true_r in NR; exact NR).
      assert (on_key (o_bucket x) (o_key x) nr = false) as OK' by (apply (on_key_sym_false b k); [reflexivity|reflexivity|exact OK]).
      destruct (o_vid x); rewrite !count_occ_f_app; cbn [count_occ_f]; rewrite OK'; cbn; rewrite !Nat.add_0_r; exact U.
    - assert (K : on_key b k nr = true) by (unfold on_key, nr; cbn; rewrite !bytes_eqb_refl; reflexivity).
      assert (Z1 : count_occ_f (fun x0 => on_key b k x0 && completed x0 && o_latest x0) (objs s) = 0%nat).
      { apply count_occ_f_zero. intros x Hx. specialize (NR x Hx). destruct (on_key b k x && completed x); [discriminate|reflexivity]. }
      assert (Z2 : count_occ_f (fun x0 => on_key b k x0 && completed x0 &&
                                 match o_vid x0 with Some v' => vid_eqb v v' | None => false end) (objs s) = 0%nat).
      { apply count_occ_f_zero. intros x Hx. specialize (NR x Hx). destruct (on_key b k x && completed x); [discriminate|reflexivity]. }
      cbn [forallb]. rewrite andb_true_r.
      change (completed nr) with true. change (o_latest nr) with true. change (o_vid nr) with (Some v).
      change (o_bucket nr) with b. change (o_key nr) with k. cbn [negb orb].
      rewrite !count_occ_f_app, Z1, Z2. cbn [count_occ_f]. rewrite K.
      change (completed nr) with true. change (o_latest nr) with true. change (o_vid nr) with (Some v).
      cbn. destruct (vid_eqb v v); reflexivity. }
  assert (PO : parts_unique_ok s2 = true).
  { unfold parts_unique_ok. rewrite P2, forallb_app. apply andb_true_iff. split.
    - unfold parts_unique_ok in PU. rewrite forallb_forall in PU |- *. intros p Hp. specialize (PU p Hp).
      rewrite count_occ_f_app. cbn. specialize (F2 p Hp).
      assert ((next_id s1 =? p_obj p)%N = false) as -> by (apply N.eqb_neq; lia). cbn. rewrite Nat.add_0_r. exact PU.
    - cbn. rewrite count_occ_f_app. cbn. rewrite !N.eqb_refl. cbn.
      rewrite (count_occ_f_zero _ (parts s)); [reflexivity|].
      intros p Hp. specialize (F2 p Hp). assert ((p_obj p =? next_id s1)%N = false) as -> by (apply N.eqb_neq; lia). reflexivity. }
  unfold commit in H. cbn [snd fst] in H. rewrite UO, PO in H. cbn in H. inversion H; subst. intros e; discriminate.
Qed.

Lemma inm_put_present_pf s vn b k c bk a :
  find_bucket s b = Some bk -> cur_row s b k = Some a ->
  op_put s vn b k c CIfNoneMatchStar = (s, RErr PreconditionFailed).
Proof.
  intros FB CR. unfold op_put.
  destruct (put_fresh_part s c) as [np s1] eqn:PF. destruct (pfp_facts _ _ _ _ PF) as (Po & _ & Pb & _).
  unfold meta_put. unfold find_bucket in *. rewrite Pb, FB.
  rewrite (find_latest_ext s1 s b k Po). unfold cur_row in CR.
  destruct (find_latest s b k) as [r0|]; [|discriminate]. destruct (o_dm r0) eqn:D; [discriminate|].
  cbn [cond_fails exists_obj]. rewrite D. cbn. reflexivity.
Qed.

Lemma inm_all_pf b k : forall sched i s s' rs a bk,
  Forall inm_put sched -> find_bucket s b = Some bk -> cur_row s b k = Some a -> run_cw b k i s sched = (s', rs) ->
  Forall (fun r => r = RErr PreconditionFailed) rs.
Proof.
  induction sched as [|w sched IH]; intros i s s' rs a bk HF FB HC H; cbn [run_cw] in H.
  - inversion H; subst. constructor.
  - inversion HF as [|? ? Hw HF']; subst. destruct Hw as (c & ->). cbn [cw_step] in H.
    rewrite (inm_put_present_pf (with_ids s i) i b k c bk a FB HC) in H.
    destruct (run_cw b k (i + 1) (with_ids s i) sched) as [s2 rs'] eqn:RC. inversion H; subst.
    constructor; [reflexivity|]. eapply (IH (i + 1)%N (with_ids s i)); [exact HF'|exact FB|exact HC|exact RC].
Qed.

Lemma meta_put_buckets s vn b k w cd s2 r u : meta_put s vn b k w cd = (s2, r, u) -> buckets s2 = buckets s.
Proof.
  unfold meta_put. destruct (find_bucket s b) as [bk|]; [|intros MP; inversion MP; subst; reflexivity].
  destruct (cond_fails _ _); [intros MP; inversion MP; subst; reflexivity|].
  set (sl := match find_latest s b k with Some r0 => if is_cond cd then set_latest s r0 (o_latest r0) else s | None => s end).
  assert (buckets sl = buckets s) as BS.
  { subst sl. destruct (find_latest s b k); [|reflexivity]. destruct (is_cond cd); [apply set_latest_objs|reflexivity]. }
  set (sd := match find_latest sl b k with Some r0 => set_latest sl r0 false | None => sl end).
  assert (buckets sd = buckets s) as BD.
  { subst sd. destruct (find_latest sl b k) as [o|]; [rewrite (proj2 (set_latest_objs sl o false))|]; exact BS. }
  assert (INS : forall mk id sq ps, insert_row sd mk = (id, sq) -> buckets (save_part_rows sq id ps 0) = buckets s).
  { intros mk id sq ps IR. apply insert_row_facts in IR. destruct IR as (_ & _ & _ & I4 & _).
    destruct (spr_facts ps sq id 0) as (_ & _ & B3 & _). rewrite B3, I4. exact BD. }
  assert (UPD : forall R id sq uq ps, remove_parts_of (update_row sd R) id = (sq, uq) -> buckets (save_part_rows sq id ps 0) = buckets s).
  { intros R id sq uq ps RP. destruct (spr_facts ps sq id 0) as (_ & _ & B3 & _). rewrite B3.
    pose proof (remove_parts_of_objs (update_row sd R) id) as [_ R2]. rewrite RP in R2. cbn in R2. rewrite R2.
    destruct (update_row_facts sd R) as (_ & _ & U3 & _). rewrite ?U3. exact BD. }
  destruct (b_ver bk).
  - destruct (is_inm cd && _); [intros MP; inversion MP; subst; exact BS|].
    destruct (find_null sl b k) as [nr|].
    + destruct (remove_parts_of _ _) as [sq uq] eqn:RP. intros MP. inversion MP; subst. eapply UPD. exact RP.
    + destruct (insert_row sd _) as [id sq] eqn:IR. intros MP. inversion MP; subst. eapply INS. exact IR.
  - destruct (insert_row sd _) as [id sq] eqn:IR. intros MP. inversion MP; subst. eapply INS. exact IR.
  - destruct (is_inm cd && _); [intros MP; inversion MP; subst; exact BS|].
    destruct (find_null sl b k) as [nr|].
    + destruct (remove_parts_of _ _) as [sq uq] eqn:RP. intros MP. inversion MP; subst. eapply UPD. exact RP.
    + destruct (insert_row sd _) as [id sq] eqn:IR. intros MP. inversion MP; subst. eapply INS. exact IR.
Qed.

(* exactly one of n If-None-Match:* puts on a fresh key commits: the first in the schedule *)
Lemma inm_exactly_one b k : forall w sched i s s' rs bk,
  Forall inm_put (w :: sched) -> find_bucket s b = Some bk -> no_rows_on_key s b k ->
  unique_ok s = true -> parts_unique_ok s = true -> ids_fresh s ->
  run_cw b k i s (w :: sched) = (s', rs) ->
  count_ok rs = 1%nat /\
  exists r rs', rs = r :: rs' /\ not_err r /\ Forall (fun x => x = RErr PreconditionFailed) rs'.
Proof.
  intros w sched i s s' rs bk HF FB NR U PU FR H. cbn [run_cw] in H.
  destruct (cw_step b k i s w) as [s1 r] eqn:ST. destruct (run_cw b k (i + 1) s1 sched) as [s2 rs'] eqn:RC.
  inversion H; subst s2 rs. clear H. inversion HF as [|? ? Hw HF']; subst. destruct Hw as (c & ->).
  cbn [cw_step] in ST.
  assert (NE : not_err r) by (eapply (op_put_fresh_live (with_ids s i) i b k c bk); eassumption).
  pose proof ST as ST'. apply op_put_ok in ST'; [|exact NE]. destruct ST' as (_ & _ & a & A1 & _).
  assert (FB1 : find_bucket s1 b = Some bk).
  { unfold op_put in ST. apply commit_inv in ST; [|exact NE]. destruct ST as (ST & _).
    destruct (put_fresh_part (with_ids s i) c) as [np sx] eqn:PF. destruct (pfp_facts _ _ _ _ PF) as (_ & _ & Pb & _).
    destruct (meta_put sx i b k _ CIfNoneMatchStar) as [[sy ry] uy] eqn:MP. inversion ST; subst s1 r.
    destruct (delete_unreferenced_objs uy sy) as [_ D2]. unfold find_bucket in *. rewrite D2.
    assert (buckets sy = buckets sx) as ->; [|rewrite Pb; exact FB].
    eapply meta_put_buckets; exact MP. }
  destruct (inm_all_fail b k sched (i + 1)%N s1 s' rs' a HF' A1 RC) as (C1 & _).
  split.
  - unfold count_ok in *. cbn. destruct r; cbn; try lia. exfalso. eapply NE. reflexivity.
  - exists r, rs'. split; [reflexivity|]. split; [exact NE|].
    eapply inm_all_pf; [exact HF'|exact FB1|exact A1|exact RC].
Qed.

(* CompleteMultipartUpload with a condition commits only when the condition holds for what the key resolves to *)
Lemma op_complete_cond s vn b k u m cd s' r :
  op_complete s vn b k u m cd = (s', r) -> not_err r -> cond_fails cd (find_latest s b k) = false.
Proof.
  unfold op_complete. intros H NE. apply commit_inv in H; [|exact NE]. destruct H as (H & _).
  destruct (find_bucket s b); [|inversion H; subst; exfalso; eapply NE; reflexivity].
  destruct (find_upload s b k u); [|inversion H; subst; exfalso; eapply NE; reflexivity].
  cbv zeta in H.
  destruct (negb (seqs_contiguous 1 _)); [inversion H; subst; exfalso; eapply NE; reflexivity|].
  match type of H with match ?X with Some e => _ | None => _ end = _ => destruct X end;
    [inversion H; subst; exfalso; eapply NE; reflexivity|].
  destruct (cond_fails cd (find_latest s b k)); [inversion H; subst; exfalso; eapply NE; reflexivity|reflexivity].
Qed.
