(* Proofs/FieldsParse.v — header parsing of Model/Fields.v against its specification *)
From Verif Require Import Bytes Codec Fields.
From Coq Require Import ZifyBool ZifyN ZifyNat.

(* ---------------- user metadata ---------------- *)
Fixpoint assoc_get (k : bytes) (m : assoc) : option bytes :=
  match m with [] => None | (k', v) :: m' => if bytes_eqb k k' then Some v else assoc_get k m' end.

(* the values of all x-amz-meta-* headers whose lower-cased key is k, in the order sent *)
Definition um_values (k : bytes) (hs : list hdr) : list bytes :=
  map snd (filter (fun h => match um_key (fst h) with Some k' => bytes_eqb k k' | None => false end) hs).
(* "joined with a comma" *)
Definition comma_joined (vs : list bytes) : option bytes :=
  match vs with [] => None | _ => Some (join B"," vs) end.

Definition join_onto (a : option bytes) (vs : list bytes) : option bytes :=
  fold_left (fun a v => Some (match a with Some x => x ++ B"," ++ v | None => v end)) vs a.

Lemma assoc_get_um_add_same k v m :
  assoc_get k (um_add k v m) = Some (match assoc_get k m with Some a => a ++ B"," ++ v | None => v end).
Proof.
  induction m as [|[k' v'] m IH]; cbn [um_add assoc_get].
  - rewrite bytes_eqb_refl. reflexivity.
  - destruct (bytes_eqb k k') eqn:E; cbn [assoc_get]; rewrite E; [reflexivity | exact IH].
Qed.
Lemma assoc_get_um_add_other k k' v m : k' <> k -> assoc_get k' (um_add k v m) = assoc_get k' m.
Proof.
  intros Hn. induction m as [|[k2 v2] m IH]; cbn [um_add assoc_get].
  - apply bytes_eqb_neq in Hn. rewrite Hn. reflexivity.
  - destruct (bytes_eqb k k2) eqn:E; cbn [assoc_get].
    + apply bytes_eqb_eq in E; subst k2. apply bytes_eqb_neq in Hn. rewrite Hn. reflexivity.
    + destruct (bytes_eqb k' k2); [reflexivity | exact IH].
Qed.

Lemma um_collect_get k hs : forall acc, assoc_get k (um_collect hs acc) = join_onto (assoc_get k acc) (um_values k hs).
Proof.
  induction hs as [|[n v] hs IH]; intros acc; cbn [um_collect]; [reflexivity|].
  rewrite IH. unfold um_values. cbn [filter fst].
  destruct (um_key n) as [k'|] eqn:Hk; [|reflexivity].
  destruct (bytes_eqb k k') eqn:E.
  - apply bytes_eqb_eq in E; subst k'. cbn [map snd]. unfold join_onto. cbn [fold_left].
    rewrite assoc_get_um_add_same. reflexivity.
  - apply bytes_eqb_neq in E. rewrite assoc_get_um_add_other by exact E. reflexivity.
Qed.

Lemma join_cons_concat v vs : join B"," (v :: vs) = v ++ concat (map (fun x => B"," ++ x) vs).
Proof.
  revert v; induction vs as [|w vs IH]; intros v; [cbn; rewrite app_nil_r; reflexivity|].
  change (join B"," (v :: w :: vs)) with (v ++ B"," ++ join B"," (w :: vs)). rewrite IH. cbn [map concat].
  rewrite <- !app_assoc. reflexivity.
Qed.
Lemma join_onto_some vs : forall a, join_onto (Some a) vs = Some (a ++ concat (map (fun x => B"," ++ x) vs)).
Proof.
  induction vs as [|w vs IH]; intros a; unfold join_onto; cbn [fold_left map concat]; [rewrite app_nil_r; reflexivity|].
  fold (join_onto (Some (a ++ B"," ++ w)) vs). rewrite IH. rewrite <- !app_assoc. reflexivity.
Qed.
Lemma join_onto_none vs : join_onto None vs = comma_joined vs.
Proof.
  destruct vs as [|v vs]; [reflexivity|]. unfold join_onto; cbn [fold_left].
  fold (join_onto (Some v) vs). rewrite join_onto_some. unfold comma_joined. rewrite join_cons_concat. reflexivity.
Qed.

Lemma usermeta_lookup hs k : assoc_get k (um_collect hs []) = comma_joined (um_values k hs).
Proof. rewrite um_collect_get. cbn [assoc_get]. apply join_onto_none. Qed.

(* keys: distinct, non-empty, lower-case *)
Lemma lower_byte_idem b : lower_byte (lower_byte b) = lower_byte b.
Proof. destruct b; reflexivity. Qed.
Lemma to_lower_idem l : to_lower (to_lower l) = to_lower l.
Proof. unfold to_lower. rewrite map_map. apply map_ext. intros; apply lower_byte_idem. Qed.
Lemma um_key_lower n k : um_key n = Some k -> k <> [] /\ to_lower k = k.
Proof.
  unfold um_key. destruct (is_prefix um_prefix (to_lower n)); [|discriminate].
  destruct (skipn (length um_prefix) (to_lower n)) as [|b r] eqn:E; [discriminate|].
  intros H; inversion H; subst k. split; [discriminate|].
  rewrite <- E. generalize (length um_prefix) as j. intros j.
  change (to_lower (skipn j (to_lower n))) with (map lower_byte (skipn j (to_lower n))).
  rewrite <- skipn_map. change (map lower_byte (to_lower n)) with (to_lower (to_lower n)).
  rewrite to_lower_idem. reflexivity.
Qed.

Definition keys_ok (m : assoc) : Prop := NoDup (map fst m) /\ forall k v, In (k, v) m -> k <> [] /\ to_lower k = k.

Lemma um_add_keys k v m :
  k <> [] -> to_lower k = k -> keys_ok m -> keys_ok (um_add k v m).
Proof.
  intros Hk1 Hk2. induction m as [|[k' v'] m IH]; intros [Hnd Hall]; cbn [um_add].
  - split; [cbn; constructor; [intros []|constructor]|]. intros k0 v0 [H|[]]; inversion H; subst; auto.
  - cbn [map fst] in Hnd. inversion Hnd as [|? ? Hnin Hnd']; subst.
    destruct (bytes_eqb k k') eqn:E.
    + split; [cbn [map fst]; constructor; assumption|].
      intros k0 v0 [H|H]; [inversion H; subst; apply (Hall k0 v'); left; reflexivity | apply (Hall k0 v0); right; exact H].
    + apply bytes_eqb_neq in E.
      destruct IH as [IH1 IH2]; [split; [exact Hnd' | intros k0 v0 H; apply (Hall k0 v0); right; exact H]|].
      split.
      * cbn [map fst]. constructor; [|exact IH1].
        intros Hin. apply in_map_iff in Hin as [[k1 v1] [Hk Hin]]. cbn [fst] in Hk. subst k1.
        clear IH1 IH2 Hall Hnd Hnd'. induction m as [|[k2 v2] m IHm]; cbn [um_add] in Hin.
        -- destruct Hin as [H|[]]. inversion H. congruence.
        -- destruct (bytes_eqb k k2) eqn:E2.
           ++ apply Hnin. cbn [map fst]. destruct Hin as [H|H]; [inversion H; left; reflexivity|].
              right. apply in_map_iff. exists (k', v1). auto.
           ++ destruct Hin as [H|H]; [inversion H; subst; apply Hnin; left; reflexivity|].
              apply IHm; [intros Hx; apply Hnin; right; exact Hx | exact H].
      * intros k0 v0 [H|H]; [inversion H; subst; apply (Hall k0 v0); left; reflexivity | apply (IH2 k0 v0 H)].
Qed.
Lemma um_collect_keys hs : forall acc, keys_ok acc -> keys_ok (um_collect hs acc).
Proof.
  induction hs as [|[n v] hs IH]; intros acc Hacc; cbn [um_collect]; [exact Hacc|].
  apply IH. destruct (um_key n) as [k|] eqn:Hk; [|exact Hacc].
  destruct (um_key_lower _ _ Hk). apply um_add_keys; assumption.
Qed.
Lemma keys_ok_nil : keys_ok [].
Proof. split; [constructor | intros ? ? []]. Qed.

Lemma usermeta_parse_spec hs :
  let m := um_collect hs [] in
  NoDup (map fst m) /\
  (forall k v, In (k, v) m -> k <> [] /\ to_lower k = k) /\
  (forall k, assoc_get k m = comma_joined (um_values k hs)) /\
  usermeta_parse hs = if (um_size m <=? 2048)%N then Some m else None.
Proof.
  cbv zeta. destruct (um_collect_keys hs [] keys_ok_nil) as [H1 H2].
  split; [exact H1|]. split; [exact H2|]. split; [intros k; apply usermeta_lookup | reflexivity].
Qed.

(* ---------------- tagging header ---------------- *)
(* url.QueryEscape *)
Definition unreserved (b : byte) : bool :=
  let n := byteN b in
  ((48 <=? n) && (n <=? 57) || (65 <=? n) && (n <=? 90) || (97 <=? n) && (n <=? 122)
   || (n =? 45) || (n =? 46) || (n =? 95) || (n =? 126))%N.
Definition hex_upper (n : N) : byte := if (n <? 10)%N then Nbyte (48 + n) else Nbyte (55 + n).
Definition qescape_byte (b : byte) : bytes :=
  if unreserved b then [b]
  else if beqb b " "%byte then ["+"%byte]
  else ["%"%byte; hex_upper (byteN b / 16); hex_upper (byteN b mod 16)].
Definition qescape (l : bytes) : bytes := flat_map qescape_byte l.

Lemma unescape_qescape_byte b r t : unescape r = Some t -> unescape (qescape_byte b ++ r) = Some (b :: t).
Proof. intros H. destruct b; cbn; rewrite H; reflexivity. Qed.
Lemma unescape_qescape l : unescape (qescape l) = Some l.
Proof.
  induction l as [|b l IH]; [reflexivity|]. cbn [qescape flat_map]. apply unescape_qescape_byte. exact IH.
Qed.
Lemma qescape_clean l : forall c, In c (qescape l) -> c <> "&"%byte /\ c <> "="%byte /\ c <> ";"%byte.
Proof.
  induction l as [|b l IH]; intros c; cbn [qescape flat_map]; [intros []|].
  rewrite in_app_iff. intros [H|H]; [|apply IH, H]. clear IH.
  destruct b; cbn in H; repeat (destruct H as [H|H]; [subst c; repeat split; discriminate|]); destruct H.
Qed.

Definition seg_pairs (segs : list bytes) : assoc :=
  flat_map (fun s => match parse_segment s with Some (Some kv) => [kv] | _ => [] end) segs.
Definition seg_ok (s : bytes) : bool := match parse_segment s with None => false | Some _ => true end.
Lemma parse_segments_spec segs : parse_segments segs = (seg_pairs segs, forallb seg_ok segs).
Proof.
  induction segs as [|s segs IH]; [reflexivity|]. cbn [parse_segments]. rewrite IH.
  unfold seg_pairs. cbn [flat_map forallb].
  assert (H : seg_ok s = match parse_segment s with None => false | Some _ => true end) by reflexivity.
  rewrite H. destruct (parse_segment s) as [[kv|]|]; reflexivity.
Qed.

Lemma has_key_In k m : has_key k m = true <-> In k (map fst m).
Proof.
  induction m as [|[k' v] m IH]; cbn [has_key map fst In]; [split; [discriminate | tauto]|].
  rewrite orb_true_iff, bytes_eqb_eq, IH. split; intros [H|H]; auto.
Qed.
Lemma dup_keys_NoDup m : dup_keys m = false <-> NoDup (map fst m).
Proof.
  induction m as [|[k v] m IH]; cbn [dup_keys map fst]; [split; [constructor | reflexivity]|].
  rewrite orb_false_iff, IH. split.
  - intros [H1 H2]. constructor; [|exact H2]. intros Hin. apply has_key_In in Hin. congruence.
  - intros H; inversion H; subst. split; [|assumption].
    destruct (has_key k m) eqn:E; [apply has_key_In in E; contradiction | reflexivity].
Qed.

Lemma tagging_parse_sound h m :
  tagging_parse h = Some m ->
  NoDup (map fst m) /\ (length m <= 10)%nat /\
  (forall k v, In (k, v) m -> k <> [] /\ (rune_count k <= 128)%N /\ (rune_count v <= 256)%N) /\
  (h = [] /\ m = [] \/
   h <> [] /\ m = seg_pairs (split_on "&"%byte h) /\ forallb seg_ok (split_on "&"%byte h) = true).
Proof.
  unfold tagging_parse. destruct (parse_query h) as [m' ok] eqn:Hq.
  destruct (ok && negb (dup_keys m') && tags_valid m') eqn:Hc; [|discriminate].
  intros E; inversion E; subst m'; clear E.
  apply andb_true_iff in Hc as [Hc Hv]. apply andb_true_iff in Hc as [Hok Hd]. subst ok.
  apply negb_true_iff in Hd. unfold tags_valid in Hv. apply andb_true_iff in Hv as [Hl Hall].
  split; [apply dup_keys_NoDup, Hd|]. split; [apply Nat.leb_le in Hl; exact Hl|]. split.
  - intros k v Hin. rewrite forallb_forall in Hall. specialize (Hall _ Hin). unfold tag_ok in Hall. cbn [fst snd] in Hall.
    apply andb_true_iff in Hall as [Hall H3]. apply andb_true_iff in Hall as [H1 H2].
    split; [destruct k; [discriminate | discriminate]|]. unfold max_tag_key_length, max_tag_value_length in *. lia.
  - unfold parse_query in Hq. destruct h as [|b h]; cbn [is_empty] in Hq.
    + left. inversion Hq; auto.
    + right. rewrite parse_segments_spec in Hq. apply pair_equal_spec in Hq as [Hq1 Hq2].
      split; [discriminate|]. split; [symmetry; exact Hq1 | exact Hq2].
Qed.

(* tag sets violating a limit are rejected whatever the encoding *)
Lemma tagging_parse_rejects h m :
  parse_query h = (m, true) ->
  (dup_keys m = true \/ (10 < length m)%nat \/
   exists k v, In (k, v) m /\ (k = [] \/ (128 < rune_count k)%N \/ (256 < rune_count v)%N)) ->
  tagging_parse h = None.
Proof.
  intros Hq Hbad. unfold tagging_parse. rewrite Hq. cbn [andb].
  destruct Hbad as [H|[H|(k & v & Hin & H)]].
  - rewrite H. reflexivity.
  - unfold tags_valid. replace (length m <=? max_object_tags) with false; [rewrite andb_false_r; reflexivity|].
    symmetry. apply Nat.leb_gt. exact H.
  - replace (tags_valid m) with false; [rewrite andb_false_r; reflexivity|].
    symmetry. unfold tags_valid. apply andb_false_iff. right.
    apply not_true_is_false. intros Hall. rewrite forallb_forall in Hall. specialize (Hall _ Hin).
    unfold tag_ok in Hall. cbn [fst snd] in Hall.
    apply andb_true_iff in Hall as [Hall H3]. apply andb_true_iff in Hall as [H1 H2].
    unfold max_tag_key_length, max_tag_value_length in *.
    destruct H as [->|[H|H]]; [discriminate | lia | lia].
Qed.

Lemma rune_count_ascii l : (forall b, In b l -> (byteN b < 128)%N) -> rune_count l = lenN l.
Proof.
  induction l as [|b l IH]; intros H; [reflexivity|].
  assert (Hb : (byteN b <? 128)%N = true) by (apply N.ltb_lt, H; left; reflexivity).
  cbn [rune_count]. rewrite Hb. rewrite IH by (intros; apply H; right; assumption).
  unfold lenN. cbn [length]. lia.
Qed.
