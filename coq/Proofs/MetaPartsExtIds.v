(* Proofs/MetaPartsExtIds.v — row ids are unique and old, and next_id never decreases (unconditionally), for the
   core machine and for the extended machine of Model/MetaExt.v.  Built on the transaction-shape relation [Tr]
   of MetaRows1..4 (row-level proofs). *)
From Verif Require Import Bytes Codec Md5 Meta MetaExt MetaRows1 MetaRows2 MetaRows3 MetaRows4.
From Coq Require Import ZifyBool ZifyN ZifyNat.

Lemma op_copy_range_Tr db dk dv ip s0 vn sb sk sv rs re :
  Tr db dk dv ip s0 (fst (op_copy_range s0 vn sb sk sv db dk rs re)).
Proof.
  unfold op_copy_range. apply commit_Tr; [apply Tr_refl|]. cbv zeta.
  destruct (lookup s0 sb sk sv) as [[src|]|e]; try (cbn [fst]; apply Tr_refl).
  destruct (negb (manifest_complete s0 src)); [cbn [fst]; apply Tr_refl|].
  destruct (range_of (o_size src) rs re) as [rg|]; [|cbn [fst]; apply Tr_refl].
  destruct (row_body s0 src) as [body|]; [|cbn [fst]; apply Tr_refl].
  destruct (put_fresh_part s0 (slice body rg)) as [np s1] eqn:E1.
  match goal with |- context [meta_put ?a ?b ?c ?d ?e ?f] =>
    destruct (meta_put a b c d e f) as [[s2 r] un] eqn:E2 end.
  cbn [fst]. eapply Tr_same; [|apply same_delete_unreferenced].
  change s2 with (fst (fst (s2, r, un))). rewrite <- E2. apply meta_put_Tr.
  eapply Tr_same; [apply Tr_refl|]. change s1 with (snd (np, s1)). rewrite <- E1. apply same_put_fresh_part.
Qed.

Lemma op_upload_part_copy_Tr db dk dv ip s0 sb sk sv u pn rs re :
  Tr db dk dv ip s0 (fst (op_upload_part_copy s0 sb sk sv db dk u pn rs re)).
Proof.
  unfold op_upload_part_copy. apply commit_Tr; [apply Tr_refl|]. cbv zeta.
  destruct (lookup s0 sb sk sv) as [[src|]|e]; try (cbn [fst]; apply Tr_refl).
  destruct (negb (manifest_complete s0 src)); [cbn [fst]; apply Tr_refl|].
  destruct (norm_bounds (o_size src) rs re) as [[bs be]|]; [|cbn [fst]; apply Tr_refl].
  destruct (find_bucket s0 db); [|cbn [fst]; apply Tr_refl].
  destruct (find_upload s0 db dk u); [|cbn [fst]; apply Tr_refl].
  destruct (covered_part (row_parts s0 src) 0 bs be) as [p|].
  - destruct (try_add_refs (registry s0) [p_pid p]) as [reg|]; [|cbn [fst]; apply Tr_refl].
    match goal with |- context [meta_upload_part ?a ?b ?c ?d ?e ?f] =>
      destruct (meta_upload_part a b c d e f) as [[s2 r] un] eqn:E2 end.
    cbn [fst]. eapply Tr_same; [|apply same_delete_unreferenced].
    change s2 with (fst (fst (s2, r, un))). rewrite <- E2. apply meta_upload_part_Tr.
    eapply Tr_same; [apply Tr_refl | apply same_set_registry].
  - destruct (range_of (o_size src) rs re) as [rg|]; [|cbn [fst]; apply Tr_refl].
    destruct (row_body s0 src) as [body|]; [|cbn [fst]; apply Tr_refl].
    destruct (put_fresh_part s0 (slice body rg)) as [np s1] eqn:E1.
    destruct (meta_upload_part s1 db dk u pn np) as [[s2 r] un] eqn:E2.
    cbn [fst]. eapply Tr_same; [|apply same_delete_unreferenced].
    change s2 with (fst (fst (s2, r, un))). rewrite <- E2. apply meta_upload_part_Tr.
    eapply Tr_same; [apply Tr_refl|]. change s1 with (snd (np, s1)). rewrite <- E1. apply same_put_fresh_part.
Qed.

(* ---- row ids unique and old ---- *)
Lemma xstep_ids i hist s o : IdsOk s -> IdsOk (fst (xstep i hist s o)).
Proof.
  intros H. assert (Hw : IdsOk (with_ids s i)) by (eapply IdsOk_same; [apply same_with_ids | exact H]).
  destruct o as [o| | |]; cbn [xstep fst].
  - apply step_ids. exact H.
  - exact Hw.
  - eapply Tr_ids; [exact Hw | apply (op_upload_part_copy_Tr db dk None false)].
  - eapply Tr_ids; [exact Hw | apply (op_copy_range_Tr db dk None false)].
Qed.

Lemma xrun_from_ids ops : forall i hist s, IdsOk s -> IdsOk (fst (xrun_from i hist s ops)).
Proof.
  induction ops as [|o ops IH]; intros i hist s H; cbn [xrun_from]; [exact H|].
  destruct (xstep i hist s o) as [s' r] eqn:E. apply IH.
  change s' with (fst (s', r)). rewrite <- E. apply xstep_ids. exact H.
Qed.

Theorem run_ids : forall ops,
  NoDup (map o_id (objs (fst (run ops)))) /\ forall x, In x (objs (fst (run ops))) -> (o_id x < next_id (fst (run ops)))%N.
Proof. intros ops. exact (proj1 (run_inv1 ops)). Qed.

Theorem xrun_ids : forall ops,
  NoDup (map o_id (objs (fst (xrun ops)))) /\ forall x, In x (objs (fst (xrun ops))) -> (o_id x < next_id (fst (xrun ops)))%N.
Proof. intros ops. apply (xrun_from_ids ops 0%N [] init). exact (proj1 init_inv1). Qed.

(* ---- next_id never decreases, with no premise on the state ---- *)
Theorem step_next_id_mono_all : forall i hist s o, (next_id s <= next_id (fst (step i hist s o)))%N.
Proof.
  intros i hist s o. destruct (step_cases i hist s o) as [(b & k & _ & T)|(_ & _ & _ & E3)].
  - apply Tr_buckets_next in T. apply T.
  - rewrite E3. lia.
Qed.

Theorem xstep_next_id_mono_all : forall i hist s o, (next_id s <= next_id (fst (xstep i hist s o)))%N.
Proof.
  intros i hist s o. destruct o as [o| | |]; cbn [xstep fst].
  - apply step_next_id_mono_all.
  - cbn. lia.
  - pose proof (Tr_buckets_next _ _ _ _ _ _ (op_upload_part_copy_Tr db dk None false (with_ids s i) sb sk (resolve_vref v) u pn s0 e)) as [_ L].
    cbn [next_id with_ids] in L. exact L.
  - pose proof (Tr_buckets_next _ _ _ _ _ _ (op_copy_range_Tr db dk None false (with_ids s i) i sb sk (resolve_vref v) s0 e)) as [_ L].
    cbn [next_id with_ids] in L. exact L.
Qed.
