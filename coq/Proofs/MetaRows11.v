(* Proofs/MetaRows11.v — M-META, body-level read-your-write (C01), part 1: generic lemmas, PutObject, CopyObject.
   Combines the row-level theorems (MetaRows1..10) with the part-protocol invariant PartsInv / OInv
   (MetaParts*.v): GET returns exactly the bytes of the acknowledged write. *)
From Verif Require Import Bytes Codec Md5 Meta MetaBasics MetaPartsDefs MetaParts MetaPartsOps MetaPartsOwned.
From Verif Require Import MetaRows1 MetaRows2 MetaRows3 MetaRows4 MetaRows5 MetaRows6.
From Coq Require Import ZifyBool ZifyN ZifyNat.

(* part rows belong to old object ids *)
Lemma parts_bound s : OInv s -> forall row, In row (parts s) -> (p_obj row < next_id s)%N.
Proof.
  intros O row H. destruct (o_owned s O row H) as (x & Hx & E & _). rewrite <- E. apply (o_fresh s O). exact Hx.
Qed.

Definition PBound (s : mstate) : Prop := forall row, In row (parts s) -> (p_obj row < next_id s)%N.

Lemma filter_all {A} (f : A -> bool) l : (forall x, In x l -> f x = true) -> filter f l = l.
Proof.
  induction l as [|x l IH]; intros H; cbn; [reflexivity|]. rewrite (H x (or_introl eq_refl)), IH; [reflexivity|].
  intros y Hy. apply H. right. exact Hy.
Qed.
Lemma filter_none {A} (f : A -> bool) l : (forall x, In x l -> f x = false) -> filter f l = [].
Proof.
  induction l as [|x l IH]; intros H; cbn; [reflexivity|]. rewrite (H x (or_introl eq_refl)). apply IH.
  intros y Hy. apply H. right. exact Hy.
Qed.
Lemma obj_parts_fresh s oid : PBound s -> (next_id s <= oid)%N -> obj_parts s oid = [].
Proof.
  intros Hpb L. unfold obj_parts. apply filter_none. intros p Hp. apply N.eqb_neq.
  specialize (Hpb p Hp). lia.
Qed.
Lemma obj_parts_ext s s' oid : parts s' = parts s -> obj_parts s' oid = obj_parts s oid.
Proof. intros E. unfold obj_parts. rewrite E. reflexivity. Qed.
Lemma obj_parts_save s oid ps seq :
  obj_parts (save_part_rows s oid ps seq) oid = obj_parts s oid ++ new_prows oid ps seq.
Proof.
  unfold obj_parts. rewrite save_part_rows_parts, filter_app. f_equal. apply filter_all.
  intros p Hp. apply N.eqb_eq. eapply new_prows_obj. exact Hp.
Qed.
Lemma obj_parts_save_other s oid ps seq oid' : oid' <> oid ->
  obj_parts (save_part_rows s oid ps seq) oid' = obj_parts s oid'.
Proof.
  intros N. unfold obj_parts. rewrite save_part_rows_parts, filter_app.
  rewrite (filter_none _ (new_prows oid ps seq)); [apply app_nil_r|].
  intros p Hp. apply N.eqb_neq. rewrite (new_prows_obj _ _ _ _ Hp). congruence.
Qed.
Lemma obj_parts_removed s oid : obj_parts (fst (remove_parts_of s oid)) oid = [].
Proof.
  unfold obj_parts, remove_parts_of. rewrite remove_part_rows_parts. apply filter_none.
  intros p Hp. apply filter_In in Hp. destruct Hp as [_ Hp]. apply negb_true_iff in Hp. exact Hp.
Qed.
Lemma obj_parts_removed_other s oid oid' : oid' <> oid ->
  obj_parts (fst (remove_parts_of s oid)) oid' = obj_parts s oid'.
Proof.
  intros N. unfold obj_parts, remove_parts_of. rewrite remove_part_rows_parts. apply filter_filter_same.
  intros p _ Hp. apply N.eqb_eq in Hp. apply negb_true_iff. apply N.eqb_neq. congruence.
Qed.

(* freshly written part rows are already in sequence order *)
Lemma sort_new_prows oid ps : forall seq, sort_parts (new_prows oid ps seq) = new_prows oid ps seq.
Proof.
  unfold sort_parts. induction ps as [|p rest IH]; intros seq; cbn [new_prows fold_right]; [reflexivity|].
  rewrite IH. destruct rest as [|q rest']; cbn [new_prows insert_sorted]; [reflexivity|].
  cbn [p_seq]. destruct (N.leb_spec seq (seq + 1)); [reflexivity | lia].
Qed.
Lemma new_prows_content oid ps : forall seq, map p_content (new_prows oid ps seq) = map n_content ps.
Proof. induction ps as [|p rest IH]; intros seq; cbn; [reflexivity|]. rewrite IH. reflexivity. Qed.

Lemma put_fresh_part_content s c : n_content (fst (put_fresh_part s c)) = c.
Proof.
  unfold put_fresh_part. cbn [fresh]. destruct (dedup_get _ c); [destruct (try_add_refs _ _)|]; reflexivity.
Qed.

(* GET of the row a write left behind *)
Lemma written_get s b k v e sz ct x :
  unique_ok s = true -> PartsInv s -> find_bucket s b <> None -> In x (objs s) -> written_row b k v e sz ct x ->
  parts_size (row_parts s x) = sz ->
  op_get s b k None = RObj v e sz (o_updated x) ct (Some (concat (map p_content (row_parts s x)))) /\
  op_get s b k (Some v) = RObj v e sz (o_updated x) ct (Some (concat (map p_content (row_parts s x)))).
Proof.
  intros U P Hb Hx (K & C & L & V & D & <- & <- & <-) Sz. split.
  - rewrite (op_get_recorded s b k None x P); [unfold row_vid; rewrite V; reflexivity| |exact Sz].
    unfold lookup. destruct (find_bucket s b); [|congruence].
    rewrite (find_latest_unique s b k x U Hx K C L), D. reflexivity.
  - rewrite (op_get_recorded s b k (Some v) x P); [unfold row_vid; rewrite V; reflexivity| |exact Sz].
    unfold lookup. destruct (find_bucket s b); [|congruence].
    rewrite (find_version_unique s b k v x U Hx K C V), D. reflexivity.
Qed.

Lemma obj_parts_fresh' s0 s oid : PBound s0 -> parts s = parts s0 -> (next_id s0 <= oid)%N -> obj_parts s oid = [].
Proof. intros Hpb E L. rewrite (obj_parts_ext s0 s oid E). apply obj_parts_fresh; assumption. Qed.

(* meta_put: the written row owns exactly the new part rows *)
Ltac mp_parts :=
  unfold mk_row; cbn [o_id with_row]; rewrite ?insert_row_fst, obj_parts_save;
  first [ rewrite obj_parts_removed; reflexivity
        | match goal with Hpb : PBound ?s0 |- _ =>
            rewrite (obj_parts_fresh' s0); [reflexivity | exact Hpb
              | rewrite insert_row_parts; unfold set_latest; rewrite ?update_row_parts; reflexivity
              | unfold set_latest; rewrite ?update_row_next; lia ] end ].

Lemma meta_put_written_parts s vn b k w c v e :
  PBound s -> snd (fst (meta_put s vn b k w c)) = RPut v e ->
  exists x, In x (objs (fst (fst (meta_put s vn b k w c)))) /\ written_row b k v e (w_size w) (w_ctype w) x /\
            obj_parts (fst (fst (meta_put s vn b k w c))) (o_id x) = new_prows (o_id x) (w_parts w) 0.
Proof.
  intros Hpb. unfold meta_put. cbv beta zeta. repeat dm; cbn [fst snd]; intros H; try discriminate H; inversion H; subst.
  all: try match goal with |- context[update_row _ _] => fail 1 | _ =>
         eexists; split; [rewrite save_part_rows_objs, insert_row_objs; apply in_or_app; right; left; reflexivity|];
         split; [wr_fields | mp_parts] end.
  all: match goal with |- context[update_row ?s1 ?r1] =>
         destruct (update_row_in s1 r1) as [lk Hlk]; [cbn [o_id]; in_ids|];
         eexists; split; [rewrite save_part_rows_objs, remove_parts_of_objs; exact Hlk|];
         split; [wr_fields | mp_parts] end.
Qed.

Lemma PBound_same s s' : same s s' -> PBound s -> PBound s'.
Proof. intros [_ E _ L] Hpb row H. rewrite E in H. specialize (Hpb row H). lia. Qed.

Lemma zlen_concat_prows ps : parts_size ps = zlen (concat (map p_content ps)).
Proof. apply parts_size_length. Qed.

(* the common tail of put / copy / append-into-a-new-version, at body level *)
Lemma meta_put_then_get s1 vn b k w c u v e s' :
  PBound s1 -> snd (fst (meta_put s1 vn b k w c)) = RPut v e ->
  s' = delete_unreferenced (fst (fst (meta_put s1 vn b k w c))) u -> unique_ok s' = true -> PartsInv s' ->
  w_size w = zlen (concat (map n_content (w_parts w))) ->
  exists lm,
  op_get s' b k None = RObj v e (w_size w) lm (w_ctype w) (Some (concat (map n_content (w_parts w)))) /\
  op_get s' b k (Some v) = RObj v e (w_size w) lm (w_ctype w) (Some (concat (map n_content (w_parts w)))).
Proof.
  intros Hpb H -> U P Sz. destruct (meta_put_written _ _ _ _ _ _ _ _ H) as (_ & Hb & _).
  destruct (meta_put_written_parts _ _ _ _ _ _ _ _ Hpb H) as (x & Hx & W & Px).
  pose proof (same_delete_unreferenced u (fst (fst (meta_put s1 vn b k w c)))) as [E1 E2 E3 _].
  set (s' := delete_unreferenced _ u) in *.
  assert (R : row_parts s' x = new_prows (o_id x) (w_parts w) 0).
  { unfold row_parts. rewrite (obj_parts_ext _ s' _ E2), Px. apply sort_new_prows. }
  exists (o_updated x). rewrite <- (new_prows_content (o_id x) (w_parts w) 0), <- R.
  apply written_get; try assumption.
  - rewrite (find_bucket_buckets _ _ b E3), (find_bucket_buckets _ _ b (meta_put_buckets _ _ _ _ _ _)). exact Hb.
  - rewrite E1. exact Hx.
  - rewrite R, zlen_concat_prows, new_prows_content. symmetry. exact Sz.
Qed.

(* C01 body level, PutObject *)
Lemma put_get_your_write i hist s b k c cr s' v e :
  PartsInv s -> OInv s -> step i hist s (OPut b k c cr) = (s', RPut v e) ->
  exists lm,
  op_get s' b k None = RObj v (mk_md5 c) (zlen c) lm None (Some c) /\
  op_get s' b k (Some v) = RObj v (mk_md5 c) (zlen c) lm None (Some c).
Proof.
  intros P O H0. assert (P' : PartsInv s') by (pose proof (step_parts_inv i hist s (OPut b k c cr) P) as X; rewrite H0 in X; exact X).
  destruct (put_read_your_write _ _ _ _ _ _ _ _ _ _ H0) as [-> _].
  revert H0. cbn [step]. unfold op_put. intros H. apply commit_ok in H; [|exact I]. destruct H as [H U].
  revert H. repeat dm. intros H.
  pose proof (f_equal fst H) as H1; pose proof (f_equal snd H) as H2; cbn [fst snd] in H1, H2.
  assert (Hpb : PBound (snd (put_fresh_part (with_ids s i) c))).
  { eapply PBound_same; [eapply same_trans; [apply same_with_ids | apply same_put_fresh_part]|].
    exact (parts_bound s O). }
  destruct (meta_put_then_get _ _ _ _ _ _ _ _ _ _ Hpb H2 (eq_sym H1) U P') as [lm X].
  - unfold plain_obj. cbn [w_size w_parts map concat]. rewrite put_fresh_part_content, app_nil_r. reflexivity.
  - unfold plain_obj in X. cbn [w_size w_ctype w_parts map concat] in X.
    rewrite put_fresh_part_content, app_nil_r in X. exists lm. exact X.
Qed.

(* C01 body level, CopyObject: the destination reads back with exactly the bytes GET of the source returned *)
Lemma copy_get_your_write i hist s sb sk vr db dk s' v e :
  PartsInv s -> OInv s -> step i hist s (OCp sb sk vr db dk) = (s', RPut v e) ->
  exists sv sz slm ct lm body,
  op_get s sb sk (resolve_vref vr) = RObj sv e sz slm ct (Some body) /\
  op_get s' db dk None = RObj v e sz lm ct (Some body) /\
  op_get s' db dk (Some v) = RObj v e sz lm ct (Some body).
Proof.
  intros P O H0. assert (P' : PartsInv s') by (pose proof (step_parts_inv i hist s (OCp sb sk vr db dk) P) as X; rewrite H0 in X; exact X).
  revert H0. cbn [step]. unfold op_copy. intros H. apply commit_ok in H; [|exact I]. destruct H as [H U].
  revert H. cbv beta zeta. repeat dm; intros H; try discriminate H;
  pose proof (f_equal fst H) as H1; pose proof (f_equal snd H) as H2; cbn [fst snd] in H1, H2; try discriminate H2.
  match goal with Hl : lookup _ _ _ _ = inl (Some ?o), Hm : negb (manifest_complete _ ?o) = false |- _ =>
    rename o into src; rename Hl into L; rename Hm into M end.
  apply negb_false_iff in M. unfold manifest_complete in M. apply andb_true_iff in M. destruct M as [M _].
  apply Z.eqb_eq in M.
  assert (Hpb : PBound (set_registry (with_ids s i) l)).
  { eapply PBound_same; [eapply same_trans; [apply same_with_ids | apply same_set_registry]|].
    exact (parts_bound s O). }
  destruct (meta_put_then_get _ _ _ _ _ _ _ _ _ _ Hpb H2 (eq_sym H1) U P') as [lm X].
  - cbn [w_size w_parts]. rewrite map_map. cbn [n_content]. rewrite <- zlen_concat_prows. symmetry. exact M.
  - destruct (meta_put_then_head _ _ _ _ _ _ _ _ _ _ H2 (eq_sym H1) U) as [He _].
    cbn [w_etag w_size w_ctype w_parts] in *. rewrite map_map in X. cbn [n_content] in X. subst e.
    exists (row_vid src), (o_size src), (o_updated src), (o_ctype src), lm,
           (concat (map p_content (row_parts (with_ids s i) src))).
    split; [|exact X].
    change (op_get s sb sk (resolve_vref vr)) with (op_get (with_ids s i) sb sk (resolve_vref vr)).
    apply op_get_recorded; [|exact L | exact M].
    exact P.
Qed.
