(* Proofs/ErasureProofs.v — the erasure-coding model against its specification. *)
From Verif Require Import Bytes Codec Erasure.
From Coq Require Import ZifyBool ZifyN ZifyNat.
Local Open Scope N_scope.

(* ---------- list helpers ---------- *)
Lemma firstn_len_app {A} (a x : list A) n : length a = n -> firstn n (a ++ x) = a.
Proof. intros <-. rewrite firstn_app, Nat.sub_diag, firstn_all. cbn. apply app_nil_r. Qed.
Lemma skipn_len_app {A} (a x : list A) n : length a = n -> skipn n (a ++ x) = x.
Proof. intros <-. rewrite skipn_app, Nat.sub_diag, skipn_all. reflexivity. Qed.

Lemma skipn_skipn' {A} : forall b a (l : list A), skipn a (skipn b l) = skipn (b + a) l.
Proof.
  induction b as [|b IH]; intros a l; [reflexivity|].
  destruct l as [|x l]; [cbn; apply skipn_nil|]. cbn. apply IH.
Qed.

(* ---------- big-endian round trip ---------- *)
Lemma byteN_Nbyte x : x < 256 -> byteN (Nbyte x) = x.
Proof.
  intros H. unfold byteN, Nbyte. destruct (Byte.of_N x) eqn:E.
  - apply Byte.to_of_N. exact E.
  - apply Byte.of_N_None_iff in E. lia.
Qed.
Lemma be_enc_length n v : length (be_enc n v) = n.
Proof. induction n; cbn; congruence. Qed.
Lemma be_dec_enc_acc n : forall v acc, be_dec_acc (be_enc n v) acc = acc * 256 ^ N.of_nat n + v mod 256 ^ N.of_nat n.
Proof.
  induction n as [|n IH]; intros v acc.
  - cbn. rewrite N.mod_1_r. lia.
  - cbn [be_enc be_dec_acc]. rewrite IH.
    assert (E : N.land (N.shiftr v (8 * N.of_nat n)) 255 = (v / 256 ^ N.of_nat n) mod 256).
    { change 255 with (N.ones 8). rewrite N.land_ones, N.shiftr_div_pow2.
      replace (2 ^ (8 * N.of_nat n)) with (256 ^ N.of_nat n); [reflexivity|].
      change 256 with (2 ^ 8). rewrite <- N.pow_mul_r. reflexivity. }
    rewrite E. rewrite byteN_Nbyte by (apply N.mod_lt; lia).
    replace (N.of_nat (S n)) with (N.succ (N.of_nat n)) by lia.
    rewrite N.pow_succ_r'.
    assert (P : 256 ^ N.of_nat n <> 0) by (apply N.pow_nonzero; lia).
    rewrite (N.mul_comm 256 (256 ^ N.of_nat n)).
    rewrite (N.mod_mul_r v (256 ^ N.of_nat n) 256) by lia.
    lia.
Qed.
Lemma be_dec_enc n v : v < 256 ^ N.of_nat n -> be_dec (be_enc n v) = v.
Proof. intros H. unfold be_dec. rewrite be_dec_enc_acc, N.mod_small by exact H. lia. Qed.

Section Spec.
  Variable sha : bytes -> bytes.
  Variable rs_enc : nat -> nat -> list bytes -> list bytes.
  Variable rs_rec : nat -> nat -> list (option bytes) -> option (list bytes).
  Variables (k m : nat) (SS : N).

  Hypothesis sha_len : forall p, length (sha p) = 32%nat.

  Notation frame := (frame sha).
  Notation read_frame := (read_frame sha).

  Lemma frame_header_length s db p : length (frame_header sha s db p) = 48%nat.
  Proof. unfold frame_header. rewrite !app_length, !be_enc_length, sha_len. reflexivity. Qed.

  (* a well-formed frame is accepted and the reader advances exactly past it *)
  Lemma read_frame_ok s db p rest :
    s < 2 ^ 64 -> 1 <= db < 2 ^ 32 -> 1 <= lenN p < 2 ^ 32 ->
    read_frame s (frame s db p ++ rest) = FOk db p rest.
  Proof.
    intros Hs Hdb Hp. unfold Erasure.read_frame, Erasure.frame.
    pose proof (frame_header_length s db p) as HL.
    rewrite <- !app_assoc.
    replace (length (frame_header sha s db p ++ p ++ rest) <? 48)%nat with false
      by (symmetry; apply Nat.ltb_ge; rewrite app_length; lia).
    rewrite (firstn_len_app _ _ 48 HL), (skipn_len_app _ _ 48 HL).
    unfold frame_header.
    pose proof (be_enc_length 8 s) as LA. pose proof (be_enc_length 4 db) as LB.
    pose proof (be_enc_length 4 (lenN p)) as LC.
    set (A := be_enc 8 s) in *. set (Bq := be_enc 4 db) in *. set (C := be_enc 4 (lenN p)) in *.
    set (H := sha p) in *.
    assert (E1 : firstn 8 (A ++ Bq ++ C ++ H) = A) by (apply firstn_len_app; exact LA).
    assert (E2 : firstn 4 (skipn 8 (A ++ Bq ++ C ++ H)) = Bq).
    { rewrite (skipn_len_app A _ 8 LA). apply firstn_len_app; exact LB. }
    assert (E3 : firstn 4 (skipn 12 (A ++ Bq ++ C ++ H)) = C).
    { rewrite (app_assoc A Bq). rewrite (skipn_len_app (A ++ Bq) _ 12) by (rewrite app_length; lia).
      apply firstn_len_app; exact LC. }
    assert (E4 : skipn 16 (A ++ Bq ++ C ++ H) = H).
    { rewrite (app_assoc A Bq), (app_assoc (A ++ Bq) C).
      apply skipn_len_app. rewrite !app_length; lia. }
    rewrite E1, E2, E3, E4. subst A Bq C H.
    rewrite !be_dec_enc by (cbn; lia).
    replace ((db <? 1) || (lenN p <? 1)) with false by lia.
    rewrite N.eqb_refl. cbn [negb].
    replace (lenN (p ++ rest) <? lenN p) with false
      by (symmetry; apply N.ltb_ge; unfold lenN; rewrite app_length; lia).
    unfold lenN. rewrite Nat2N.id.
    rewrite (firstn_len_app p rest _ eq_refl), (skipn_len_app p rest _ eq_refl).
    rewrite bytes_eqb_refl. reflexivity.
  Qed.

  (* ---------- generic list facts ---------- *)
  Lemma indexed_from_map {A C} (g : A -> C) l : forall j,
    indexed_from j (map g l) = map (fun ix => (fst ix, g (snd ix))) (indexed_from j l).
  Proof. induction l as [|x l IH]; intros j; cbn; [reflexivity|]. rewrite IH. reflexivity. Qed.
  Lemma indexed_from_nth {A} (l : list A) d : forall j i, (i < length l)%nat ->
    nth i (indexed_from j l) (0%nat, d) = ((j + i)%nat, nth i l d).
  Proof.
    induction l as [|x l IH]; intros j i Hi; cbn in Hi; [lia|].
    destruct i; cbn; [f_equal; lia|]. rewrite IH by lia. f_equal. lia.
  Qed.
  Lemma indexed_from_length {A} (l : list A) : forall j, length (indexed_from j l) = length l.
  Proof. induction l; intros j; cbn; [reflexivity|]. rewrite IHl. reflexivity. Qed.
  Lemma Forall_indexed_nth {A} (P : nat * A -> Prop) (l : list A) d i :
    Forall P (indexed l) -> (i < length l)%nat -> P (i, nth i l d).
  Proof.
    intros HF Hi. rewrite Forall_forall in HF.
    replace (i, nth i l d) with (nth i (indexed l) (0%nat, d)).
    - apply HF, nth_In. unfold indexed. rewrite indexed_from_length. exact Hi.
    - unfold indexed. rewrite indexed_from_nth by exact Hi. reflexivity.
  Qed.
  Lemma filter_length_le {A} (p q : A -> bool) (l : list A) :
    Forall (fun x => p x = true -> q x = true) l -> (length (filter p l) <= length (filter q l))%nat.
  Proof.
    induction 1 as [|x l Hx _ IH]; cbn; [lia|].
    destruct (p x) eqn:Ep; [rewrite (Hx eq_refl); cbn; lia|]. destruct (q x); cbn; lia.
  Qed.
  Lemma filter_map_length {A C} (g : A -> C) (q : C -> bool) (l : list A) :
    length (filter q (map g l)) = length (filter (fun x => q (g x)) l).
  Proof. induction l as [|x l IH]; cbn; [reflexivity|]. destruct (q (g x)); cbn; rewrite IH; reflexivity. Qed.
  Lemma filter_nonempty_In {A} (p : A -> bool) l : (1 <= length (filter p l))%nat -> exists x, In x l /\ p x = true.
  Proof.
    destruct (filter p l) as [|x r] eqn:E; cbn; [lia|]. intros _.
    assert (In x (filter p l)) as Hin by (rewrite E; left; reflexivity).
    apply filter_In in Hin. exists x. exact Hin.
  Qed.

  (* ---------- geometry ---------- *)
  Hypothesis Hk : (1 <= k)%nat.
  Hypothesis HkS : N.of_nat k * SS < 2 ^ 32.
  (* shape of the code: m parity shards as long as the data shards *)
  Hypothesis enc_shape : forall d sl, length d = k -> Forall (fun x => length x = sl) d ->
    length (rs_enc k m d) = m /\ Forall (fun x => length x = sl) (rs_enc k m d).
  (* holes: some positions of the code word of d, at least k of them *)
  Definition consistent (d : list bytes) (holes : list (option bytes)) : Prop :=
    length holes = (k + m)%nat /\
    forall i, (i < k + m)%nat -> nth i holes None = None \/ nth i holes None = Some (nth i (d ++ rs_enc k m d) []).
  (* the MDS law: any k positions of a code word determine the data shards *)
  Hypothesis mds : forall d sl holes, length d = k -> Forall (fun x => length x = sl) d ->
    consistent d holes -> (k <= count_some holes)%nat -> rs_rec k m holes = Some d.

  Notation data_shards := (data_shards k).
  Notation shard_len := (shard_len k).
  Definition okbuf (buf : bytes) : Prop := (1 <= length buf)%nat /\ (length buf <= k * N.to_nat SS)%nat.
  Definition payload (i : nat) (buf : bytes) : bytes := nth i (stripe_shards rs_enc k m buf) [].
  Definition sframe (i : nat) (sb : nat * bytes) : bytes :=
    frame (N.of_nat (fst sb)) (lenN (snd sb)) (payload i (snd sb)).
  Definition good_bytes (i s : nat) (bufs : list bytes) : bytes := concat (map (sframe i) (indexed_from s bufs)).

  Lemma shard_len_bounds n : (1 <= n)%nat -> (n <= k * N.to_nat SS)%nat ->
    (1 <= shard_len n)%nat /\ (shard_len n <= N.to_nat SS)%nat /\ (n <= k * shard_len n)%nat.
  Proof.
    intros H1 H2. unfold Erasure.shard_len.
    pose proof (Nat.div_mod (n + k - 1) k ltac:(lia)) as D.
    pose proof (Nat.mod_upper_bound (n + k - 1) k ltac:(lia)) as M.
    set (q := ((n + k - 1) / k)%nat) in *. set (r := ((n + k - 1) mod k)%nat) in *.
    split; [|split]; nia.
  Qed.

  Lemma pad_length n l : (length l <= n)%nat -> length (pad n l) = n.
  Proof. intros H. unfold pad. rewrite app_length, repeat_length. lia. Qed.

  Lemma data_shards_shape buf :
    length (data_shards buf) = k /\ Forall (fun x => length x = shard_len (length buf)) (data_shards buf).
  Proof.
    unfold Erasure.data_shards. split; [rewrite map_length, seq_length; reflexivity|].
    apply Forall_forall. intros x Hx. apply in_map_iff in Hx. destruct Hx as [i [<- _]].
    apply pad_length. rewrite firstn_length. lia.
  Qed.

  Lemma stripe_shards_shape buf :
    length (stripe_shards rs_enc k m buf) = (k + m)%nat /\
    Forall (fun x => length x = shard_len (length buf)) (stripe_shards rs_enc k m buf).
  Proof.
    destruct (data_shards_shape buf) as [L F]. destruct (enc_shape _ _ L F) as [L2 F2].
    unfold stripe_shards. split; [rewrite app_length; lia|]. apply Forall_app. split; assumption.
  Qed.

  Lemma payload_length i buf : (i < k + m)%nat -> length (payload i buf) = shard_len (length buf).
  Proof.
    intros Hi. destruct (stripe_shards_shape buf) as [L F]. rewrite Forall_forall in F.
    apply F. unfold payload. apply nth_In. lia.
  Qed.

  (* the first [n] bytes of the concatenated data shards are the stripe *)
  Lemma concat_chunks_firstn sl : forall kk buf, (length buf <= kk * sl)%nat ->
    firstn (length buf)
      (concat (map (fun i => pad sl (firstn sl (skipn (i * sl) buf))) (seq 0 kk))) = buf.
  Proof.
    induction kk as [|kk IH]; intros buf Hl.
    - destruct buf; [reflexivity | cbn in Hl; lia].
    - rewrite <- cons_seq, <- seq_shift, map_cons, map_map. cbn [concat].
      replace (map (fun x => pad sl (firstn sl (skipn (S x * sl) buf))) (seq 0 kk))
        with (map (fun x => pad sl (firstn sl (skipn (x * sl) (skipn sl buf)))) (seq 0 kk)).
      2:{ apply map_ext. intros x. rewrite skipn_skipn'. do 3 f_equal; try lia. }
      cbn [Nat.mul skipn]. destruct (Nat.le_gt_cases (length buf) sl) as [Hle|Hgt].
      + rewrite (firstn_all2 buf) by lia. unfold pad at 1. rewrite <- app_assoc.
        apply firstn_len_app. reflexivity.
      + assert (length (firstn sl buf) = sl) as Lf by (rewrite firstn_length; lia).
        unfold pad at 1. rewrite Lf, Nat.sub_diag. cbn [repeat]. rewrite app_nil_r.
        rewrite firstn_app, Lf. rewrite (firstn_all2 (firstn sl buf)) by lia.
        replace (length buf - sl)%nat with (length (skipn sl buf)) by (rewrite skipn_length; lia).
        rewrite IH by (rewrite skipn_length; lia). apply firstn_skipn.
  Qed.

  Lemma data_concat buf : okbuf buf -> firstn (length buf) (concat (data_shards buf)) = buf.
  Proof.
    intros [H1 H2]. destruct (shard_len_bounds _ H1 H2) as [_ [_ H3]].
    unfold Erasure.data_shards. apply concat_chunks_firstn. exact H3.
  Qed.

  (* ---------- what a tolerated (faulty) shard reader may do ----------
     [tol i s bufs st]: the open reader state [st] of shard i, positioned at stripe s with the
     original stripes [bufs] still to come, only ever yields ORIGINAL frames: at each stripe it
     either delivers the frame PutPart wrote for (stripe, shard i) and stays tolerated, or it is
     closed (EOF / rejected frame); once the stripes are exhausted it is at EOF. *)
  Inductive tol (i : nat) : nat -> list bytes -> option bytes -> Prop :=
  | tol_dead s bufs : tol i s bufs None
  | tol_stop s buf bufs r :
      read_frame (N.of_nat s) r = FEof \/ read_frame (N.of_nat s) r = FBad -> tol i s (buf :: bufs) (Some r)
  | tol_end s r : read_frame (N.of_nat s) r = FEof -> tol i s [] (Some r)
  | tol_ok s buf bufs r r' :
      read_frame (N.of_nat s) r = FOk (lenN buf) (payload i buf) r' ->
      tol i (S s) bufs (Some r') -> tol i s (buf :: bufs) (Some r).

  Definition is_good (i s : nat) (bufs : list bytes) (st : option bytes) : bool :=
    match st with Some r => bytes_eqb r (good_bytes i s bufs) | None => false end.

  Lemma lenN_okbuf buf : okbuf buf -> 1 <= lenN buf < 2 ^ 32.
  Proof. intros [H1 H2]. unfold lenN. split; [lia|]. nia. Qed.
  Lemma payload_bounds i buf : okbuf buf -> (i < k + m)%nat -> 1 <= lenN (payload i buf) < 2 ^ 32.
  Proof.
    intros [H1 H2] Hi. unfold lenN. rewrite payload_length by exact Hi.
    destruct (shard_len_bounds _ H1 H2) as [A [B C]]. split; [lia|]. nia.
  Qed.

  Lemma good_bytes_cons i s buf bufs :
    good_bytes i s (buf :: bufs) = frame (N.of_nat s) (lenN buf) (payload i buf) ++ good_bytes i (S s) bufs.
  Proof. reflexivity. Qed.

  Lemma read_one_good i s buf bufs st :
    okbuf buf -> (i < k + m)%nat -> N.of_nat s < 2 ^ 64 ->
    is_good i s (buf :: bufs) st = true ->
    read_one sha (N.of_nat s) st = (Some (lenN buf, payload i buf), Some (good_bytes i (S s) bufs), true).
  Proof.
    intros Hb Hi Hs Hg. destruct st as [r|]; [|discriminate]. unfold is_good in Hg. apply bytes_eqb_eq in Hg. subst r.
    rewrite good_bytes_cons.
    unfold read_one. rewrite read_frame_ok; auto using lenN_okbuf, payload_bounds.
  Qed.

  Lemma read_one_tol i s buf bufs st :
    tol i s (buf :: bufs) st ->
    (fst (fst (read_one sha (N.of_nat s) st)) = None \/
     fst (fst (read_one sha (N.of_nat s) st)) = Some (lenN buf, payload i buf)) /\
    tol i (S s) bufs (snd (fst (read_one sha (N.of_nat s) st))).
  Proof.
    intros H.
    inversion H as [s0 bufs0 | s0 buf0 bufs0 r Hr | s0 r Hr | s0 buf0 bufs0 r r' Hr Ht]; subst; cbn [read_one].
    - split; [left; reflexivity | constructor].
    - destruct Hr as [-> | ->]; (split; [left; reflexivity | constructor]).
    - rewrite Hr. cbn. split; [right; reflexivity | assumption].
  Qed.

  Lemma read_one_end i s st : tol i s [] st -> read_one sha (N.of_nat s) st = (None, None, false).
  Proof.
    intros H. inversion H as [s0 bufs0 | s0 buf0 bufs0 r Hr | s0 r Hr | s0 buf0 bufs0 r r' Hr Ht]; subst;
      cbn [read_one]; [reflexivity|]. rewrite Hr. reflexivity.
  Qed.

  Lemma good_tol i : forall bufs s st, Forall okbuf bufs -> (i < k + m)%nat ->
    N.of_nat (s + length bufs) < 2 ^ 64 -> is_good i s bufs st = true -> tol i s bufs st.
  Proof.
    induction bufs as [|buf bufs IH]; intros s st Hok Hi Hs Hg.
    - destruct st as [r|]; [|discriminate]. cbn in Hg. apply bytes_eqb_eq in Hg. subst r.
      apply tol_end. reflexivity.
    - inversion Hok as [|? ? Hb Hok']; subst. cbn [length] in Hs.
      pose proof (read_one_good i s buf bufs st Hb Hi ltac:(lia) Hg) as R.
      destruct st as [r|]; [|discriminate]. unfold read_one in R.
      destruct (read_frame (N.of_nat s) r) eqn:E; try discriminate.
      inversion R; subst. eapply tol_ok; [exact E|].
      apply IH; auto; [lia|]. cbn. apply bytes_eqb_refl.
  Qed.

  Lemma first_db_spec n (F : list (option (N * bytes))) :
    Forall (fun o => o = None \/ exists p, o = Some (n, p)) F -> (1 <= count_some F)%nat -> first_db F = n.
  Proof.
    induction 1 as [|o F Ho _ IH]; cbn; [lia|]. intros Hc.
    destruct Ho as [-> | [p ->]]; [|reflexivity]. apply IH. exact Hc.
  Qed.

  Notation read_loop := (read_loop sha rs_rec k m).

  (* with at least k intact readers and all other readers tolerated, the loop delivers exactly
     the remaining stripes and ends cleanly *)
  Lemma loop_correct : forall bufs s states heal out fuel,
    Forall okbuf bufs -> N.of_nat (s + length bufs) < 2 ^ 64 ->
    length states = (k + m)%nat ->
    Forall (fun ist => tol (fst ist) s bufs (snd ist)) (indexed states) ->
    (k <= length (filter (fun ist => is_good (fst ist) s bufs (snd ist)) (indexed states)))%nat ->
    (length bufs < fuel)%nat ->
    exists heal', read_loop fuel (N.of_nat s) states heal out = (out ++ concat bufs, true, heal').
  Proof.
    induction bufs as [|buf bufs IH]; intros s states heal out fuel Hok Hs Hlen Htol Hgood Hfuel;
      (destruct fuel as [|fuel]; [cbn in Hfuel; lia|]); cbn [Erasure.read_loop].
    - (* no stripe left: nobody reports anything *)
      assert (E : map (read_one sha (N.of_nat s)) states = map (fun _ => (None, None, false)) states).
      { clear Hgood Hlen. unfold indexed in Htol. revert Htol. generalize 0%nat.
        induction states as [|st states IHs]; intros j Ht; [reflexivity|].
        cbn in Ht. inversion Ht as [|? ? Hhd Htl]; subst. cbn [map]. f_equal; [|eapply IHs; eauto].
        eapply read_one_end. exact Hhd. }
      rewrite E. replace (existsb _ _) with false.
      2:{ symmetry. clear. induction states; cbn; auto. }
      cbn. exists heal. rewrite app_nil_r. reflexivity.
    - inversion Hok as [|? ? Hb Hok']; subst. cbn [length] in Hs.
      set (rs := map (read_one sha (N.of_nat s)) states).
      set (F := map (fun r => fst (fst r)) rs).
      (* per reader facts *)
      assert (Hidx : forall i, (i < k + m)%nat -> tol i s (buf :: bufs) (nth i states None)).
      { intros i Hi. apply (Forall_indexed_nth _ states None i Htol). lia. }
      assert (HF : forall i, (i < k + m)%nat ->
                 nth i F None = None \/ nth i F None = Some (lenN buf, payload i buf)).
      { intros i Hi. unfold F, rs. rewrite map_map.
        rewrite (nth_indep _ None (fst (fst (read_one sha (N.of_nat s) None)))) by (rewrite map_length; lia).
        rewrite (map_nth (fun x => fst (fst (read_one sha (N.of_nat s) x)))).
        apply (read_one_tol i s buf bufs). apply Hidx; exact Hi. }
      assert (HFlen : length F = (k + m)%nat) by (unfold F, rs; rewrite !map_length; exact Hlen).
      (* the good readers *)
      assert (Hgf : Forall (fun ist => is_good (fst ist) s (buf :: bufs) (snd ist) = true ->
                      read_one sha (N.of_nat s) (snd ist)
                      = (Some (lenN buf, payload (fst ist) buf), Some (good_bytes (fst ist) (S s) bufs), true))
                      (indexed states)).
      { apply Forall_forall. intros [i st] Hin Hg. cbn [fst snd] in *.
        apply (read_one_good i s buf bufs st Hb); [|lia|exact Hg].
        apply In_nth with (d := (0%nat, None)) in Hin. destruct Hin as [j [Hj Ej]].
        unfold indexed in *. rewrite indexed_from_length in Hj.
        rewrite indexed_from_nth in Ej by exact Hj. inversion Ej; subst. lia. }
      assert (Hcount : (k <= count_some F)%nat).
      { unfold count_some, F, rs. rewrite map_map, filter_map_length.
        eapply Nat.le_trans; [exact Hgood|].
        assert (length (filter (fun x => is_some (fst (fst (read_one sha (N.of_nat s) x)))) states)
                = length (filter (fun ist => is_some (fst (fst (read_one sha (N.of_nat s) (snd ist))))) (indexed states))) as ->.
        { clear. unfold indexed. generalize 0%nat. induction states as [|st l IHl]; intros j; cbn; [reflexivity|].
          destruct (is_some _); cbn; rewrite (IHl (S j)); reflexivity. }
        apply filter_length_le. eapply Forall_impl; [|exact Hgf].
        intros [i st] H Hg. cbn [fst snd] in *. rewrite (H Hg). reflexivity. }
      assert (Hseen : existsb (fun r => snd r) rs = true).
      { destruct (filter_nonempty_In _ _ (Nat.le_trans _ _ _ Hk Hgood)) as [[i st] [Hin Hg]].
        apply existsb_exists. exists (read_one sha (N.of_nat s) st). split.
        - unfold rs. apply in_map. clear -Hin. unfold indexed in Hin. revert Hin. generalize 0%nat.
          induction states as [|x l IHl]; intros j Hin; cbn in *; [contradiction|].
          destruct Hin as [E|Hin]; [inversion E; left; reflexivity | right; eapply IHl; eauto].
        - rewrite Forall_forall in Hgf. pose proof (Hgf _ Hin Hg) as R. cbn [fst snd] in R. rewrite R. reflexivity. }
      fold rs. fold F. rewrite Hseen. cbn [negb].
      replace (count_some F <? k)%nat with false by (symmetry; apply Nat.ltb_ge; exact Hcount).
      assert (Hdb : first_db F = lenN buf).
      { apply first_db_spec; [|lia]. apply Forall_forall. intros o Hin.
        apply In_nth with (d := None) in Hin. destruct Hin as [j [Hj <-]].
        destruct (HF j ltac:(lia)) as [-> | ->]; [left; reflexivity | right; eexists; reflexivity]. }
      destruct (data_shards_shape buf) as [DL DF].
      assert (Hrec : rs_rec k m (map (option_map snd) F) = Some (data_shards buf)).
      { eapply mds; [exact DL | exact DF | | ].
        - split; [rewrite map_length; exact HFlen|]. intros i Hi.
          rewrite (nth_indep _ None (option_map (@snd N bytes) None)) by (rewrite map_length; lia).
          rewrite (map_nth (option_map (@snd N bytes))).
          destruct (HF i Hi) as [-> | ->]; [left; reflexivity | right; reflexivity].
        - unfold count_some in *. rewrite filter_map_length.
          replace (length (filter (fun x => is_some (option_map snd x)) F)) with (length (filter is_some F)); [exact Hcount|].
          clear. induction F as [|[x|] l IHl]; cbn; auto. }
      rewrite Hrec, Hdb.
      set (chunk := concat (data_shards buf)).
      assert (Hchunk : (if lenN buf <? lenN chunk then firstn (N.to_nat (lenN buf)) chunk else chunk) = buf).
      { pose proof (data_concat buf Hb) as DC. fold chunk in DC.
        destruct (lenN buf <? lenN chunk) eqn:L.
        - unfold lenN at 1. rewrite Nat2N.id. exact DC.
        - apply N.ltb_ge in L. unfold lenN in L.
          transitivity (firstn (length buf) chunk); [symmetry; apply firstn_all2; lia | exact DC]. }
      rewrite Hchunk.
      replace (N.of_nat s + 1) with (N.of_nat (S s)) by lia.
      set (states' := map (fun r => snd (fst r)) rs).
      match goal with |- context [Erasure.read_loop _ _ _ _ fuel _ _ ?h _] =>
        destruct (IH (S s) states' h (out ++ buf) fuel Hok') as [heal' Hh] end.
      + lia.
      + unfold states', rs. rewrite !map_length. exact Hlen.
      + unfold states', rs. rewrite map_map. unfold indexed. rewrite indexed_from_map.
        apply Forall_map. cbn [fst snd]. eapply Forall_impl; [|exact Htol].
        intros [i st] Ht. cbn [fst snd] in *. apply (read_one_tol i s buf bufs st Ht).
      + unfold states', rs. rewrite map_map. unfold indexed. rewrite indexed_from_map, filter_map_length.
        eapply Nat.le_trans; [exact Hgood|]. apply filter_length_le.
        eapply Forall_impl; [|exact Hgf]. intros [i st] H Hg. cbn [fst snd] in *.
        rewrite (H Hg). cbn. apply bytes_eqb_refl.
      + cbn in Hfuel. lia.
      + exists heal'. rewrite Hh. rewrite <- app_assoc. reflexivity.
  Qed.

  (* ---------- shard header ---------- *)
  Hypothesis Hgeo : N.of_nat (k + m) < 65536.
  Hypothesis HS : 1024 <= SS < 2 ^ 32.
  Notation shard_header := (shard_header k m SS).
  Notation open_ok := (open_ok k m SS).

  Lemma open_ok_header i rest : (i < k + m)%nat ->
    open_ok i (shard_header i ++ rest) = true /\ skipn 15 (shard_header i ++ rest) = rest.
  Proof.
    intros Hi. unfold Erasure.open_ok, Erasure.shard_header, magic.
    pose proof (be_enc_length 2 (N.of_nat k)) as LA. pose proof (be_enc_length 2 (N.of_nat (k + m))) as LB.
    pose proof (be_enc_length 2 (N.of_nat i)) as LC. pose proof (be_enc_length 4 SS) as LD.
    pose proof (be_dec_enc 2 (N.of_nat k) ltac:(cbn; lia)) as DA.
    pose proof (be_dec_enc 2 (N.of_nat (k + m)) ltac:(cbn; lia)) as DB.
    pose proof (be_dec_enc 2 (N.of_nat i) ltac:(cbn; lia)) as DC.
    pose proof (be_dec_enc 4 SS ltac:(cbn; lia)) as DD.
    set (A := be_enc 2 (N.of_nat k)) in *. set (Bq := be_enc 2 (N.of_nat (k + m))) in *.
    set (C := be_enc 2 (N.of_nat i)) in *. set (D := be_enc 4 SS) in *.
    set (T := A ++ Bq ++ C ++ D).
    assert (LT : length T = 10%nat) by (unfold T; rewrite !app_length; lia).
    change (("P"%byte :: "E"%byte :: "C"%byte :: "1"%byte :: []) ++ [x01] ++ T)
      with ("P"%byte :: "E"%byte :: "C"%byte :: "1"%byte :: x01 :: T).
    cbn [app].
    replace (length ("P"%byte :: "E"%byte :: "C"%byte :: "1"%byte :: x01 :: T ++ rest) <? 15)%nat with false
      by (symmetry; apply Nat.ltb_ge; cbn [length]; rewrite app_length; lia).
    change (firstn 15 ("P"%byte :: "E"%byte :: "C"%byte :: "1"%byte :: x01 :: T ++ rest))
      with ("P"%byte :: "E"%byte :: "C"%byte :: "1"%byte :: x01 :: firstn 10 (T ++ rest)).
    change (skipn 15 ("P"%byte :: "E"%byte :: "C"%byte :: "1"%byte :: x01 :: T ++ rest)) with (skipn 10 (T ++ rest)).
    rewrite (firstn_len_app T rest 10 LT), (skipn_len_app T rest 10 LT).
    split; [|reflexivity].
    change (skipn 5 ("P"%byte :: "E"%byte :: "C"%byte :: "1"%byte :: x01 :: T)) with T.
    change (skipn 7 ("P"%byte :: "E"%byte :: "C"%byte :: "1"%byte :: x01 :: T)) with (skipn 2 T).
    change (skipn 9 ("P"%byte :: "E"%byte :: "C"%byte :: "1"%byte :: x01 :: T)) with (skipn 4 T).
    change (skipn 11 ("P"%byte :: "E"%byte :: "C"%byte :: "1"%byte :: x01 :: T)) with (skipn 6 T).
    change (firstn 4 ("P"%byte :: "E"%byte :: "C"%byte :: "1"%byte :: x01 :: T)) with ("P"%byte :: "E"%byte :: "C"%byte :: "1"%byte :: @nil byte).
    change (nth 4 ("P"%byte :: "E"%byte :: "C"%byte :: "1"%byte :: x01 :: T) x00) with x01.
    assert (E1 : firstn 2 T = A) by (apply firstn_len_app; exact LA).
    assert (E2 : firstn 2 (skipn 2 T) = Bq).
    { unfold T. rewrite (skipn_len_app A _ 2 LA). apply firstn_len_app; exact LB. }
    assert (E3 : firstn 2 (skipn 4 T) = C).
    { unfold T. rewrite (app_assoc A Bq), (skipn_len_app (A ++ Bq) _ 4) by (rewrite app_length; lia).
      apply firstn_len_app; exact LC. }
    assert (E4 : firstn 4 (skipn 6 T) = D).
    { unfold T. rewrite (app_assoc A Bq), (app_assoc (A ++ Bq) C).
      rewrite (skipn_len_app ((A ++ Bq) ++ C) _ 6) by (rewrite !app_length; lia).
      rewrite <- (app_nil_r D) at 1. apply firstn_len_app; exact LD. }
    rewrite E1, E2, E3, E4, DA, DB, DC, DD. rewrite bytes_eqb_refl.
    cbn [byteN Byte.to_N]. rewrite !N.eqb_refl.
    replace (1 <=? N.of_nat k) with true by lia.
    replace (N.of_nat k <=? N.of_nat (k + m)) with true by lia.
    replace (N.of_nat i <? N.of_nat (k + m)) with true by lia.
    replace (1024 <=? SS) with true by lia. reflexivity.
  Qed.

  (* ---------- PutPart's stripes ---------- *)
  Lemma chunks_spec sz : (1 <= sz)%nat -> forall fuel l, (length l <= fuel)%nat ->
    Forall (fun b => (1 <= length b)%nat /\ (length b <= sz)%nat) (chunks fuel sz l) /\
    concat (chunks fuel sz l) = l /\ (length (chunks fuel sz l) <= length l)%nat.
  Proof.
    intros Hsz. induction fuel as [|fuel IH]; intros l Hl.
    - destruct l; [cbn; auto | cbn in Hl; lia].
    - destruct l as [|x l]; [cbn; auto|]. cbn [chunks].
      destruct (IH (skipn sz (x :: l))) as [F [Cc Ln]].
      { rewrite skipn_length. cbn [length] in *. lia. }
      split; [|split].
      + constructor; [|exact F]. rewrite firstn_length. cbn [length]. lia.
      + cbn [concat]. rewrite Cc. apply firstn_skipn.
      + cbn [length] in *. rewrite skipn_length in Ln. cbn [length] in Ln. lia.
  Qed.

  Notation stripes := (stripes k SS).
  Notation write_all := (write_all sha rs_enc k m SS).

  Lemma stripes_spec part :
    Forall okbuf (stripes part) /\ concat (stripes part) = part /\ (length (stripes part) <= length part)%nat.
  Proof.
    unfold Erasure.stripes. destruct (chunks_spec (k * N.to_nat SS) ltac:(nia) (length part) part (Nat.le_refl _)) as [F [Cc L]].
    split; [|split]; auto.
  Qed.

  Lemma write_all_nth part i : (i < k + m)%nat ->
    nth i (write_all part) [] = shard_header i ++ good_bytes i 0 (stripes part).
  Proof.
    intros Hi. unfold Erasure.write_all.
    rewrite (nth_indep _ [] ((fun i => shard_header i ++ concat (map (fun l => nth i l []) (map (stripe_frames sha rs_enc k m) (indexed (stripes part))))) 0%nat))
      by (rewrite map_length, seq_length; exact Hi).
    rewrite (map_nth (fun i => shard_header i ++ concat (map (fun l => nth i l []) (map (stripe_frames sha rs_enc k m) (indexed (stripes part)))))).
    rewrite seq_nth by exact Hi. cbn [Nat.add]. f_equal. unfold good_bytes, indexed. rewrite map_map. f_equal.
    apply map_ext. intros sb. unfold stripe_frames, sframe, payload.
    destruct (stripe_shards_shape (snd sb)) as [L _].
    rewrite (nth_indep _ [] (frame (N.of_nat (fst sb)) (lenN (snd sb)) [])) by (rewrite map_length; lia).
    rewrite (map_nth (frame (N.of_nat (fst sb)) (lenN (snd sb)))). reflexivity.
  Qed.

  (* ---------- the shard files a read may meet ---------- *)
  Inductive shard_cond (part : bytes) (i : nat) : option bytes -> Prop :=
  | sc_intact : shard_cond part i (Some (nth i (write_all part) []))
  | sc_missing : shard_cond part i None
  | sc_badheader b : open_ok i b = false -> shard_cond part i (Some b)
  | sc_tol b : open_ok i b = true -> tol i 0 (stripes part) (Some (skipn 15 b)) -> shard_cond part i (Some b).

  Definition intact (part : bytes) (if_ : nat * option bytes) : bool :=
    match snd if_ with Some b => bytes_eqb b (nth (fst if_) (write_all part) []) | None => false end.

  Notation read := (read sha rs_rec k m SS).

  Definition open_f (i_f : nat * option bytes) : option bytes :=
    match snd i_f with
    | None => None
    | Some b => if open_ok (fst i_f) b then Some (skipn 15 b) else None
    end.

  Lemma open_f_intact part i f : (i < k + m)%nat -> intact part (i, f) = true ->
    open_f (i, f) = Some (good_bytes i 0 (stripes part)).
  Proof.
    intros Hi H. unfold intact in H. cbn [fst snd] in H. destruct f as [b|]; [|discriminate].
    apply bytes_eqb_eq in H. subst b. rewrite write_all_nth by exact Hi.
    unfold open_f. cbn [fst snd]. destruct (open_ok_header i (good_bytes i 0 (stripes part)) Hi) as [-> ->].
    reflexivity.
  Qed.

  Lemma open_f_tol part i f : N.of_nat (length part) < 2 ^ 64 -> (i < k + m)%nat ->
    shard_cond part i f -> tol i 0 (stripes part) (open_f (i, f)).
  Proof.
    intros Hp Hi H. destruct (stripes_spec part) as [Hok [_ Hn]].
    inversion H as [ | | b Hb | b Hb Ht]; subst.
    - rewrite (open_f_intact part i) by (auto; unfold intact; cbn; apply bytes_eqb_refl).
      apply good_tol; auto; [cbn [Nat.add]; lia | cbn; apply bytes_eqb_refl].
    - constructor.
    - unfold open_f. cbn [fst snd]. rewrite Hb. constructor.
    - unfold open_f. cbn [fst snd]. rewrite Hb. exact Ht.
  Qed.

  Lemma opens_tol part : N.of_nat (length part) < 2 ^ 64 -> forall files j,
    (j + length files <= k + m)%nat ->
    Forall (fun if_ => shard_cond part (fst if_) (snd if_)) (indexed_from j files) ->
    Forall (fun ist => tol (fst ist) 0 (stripes part) (snd ist)) (indexed_from j (map open_f (indexed_from j files))).
  Proof.
    intros Hp. induction files as [|f files IH]; intros j Hj Hc; cbn; [constructor|].
    cbn in Hc, Hj. inversion Hc as [|? ? Hhd Htl]; subst. constructor.
    - cbn [fst snd] in *. apply open_f_tol; auto. lia.
    - apply IH; [lia | exact Htl].
  Qed.

  Lemma opens_good part : forall files j, (j + length files <= k + m)%nat ->
    (length (filter (intact part) (indexed_from j files)) <=
     length (filter (fun ist => is_good (fst ist) 0 (stripes part) (snd ist))
                    (indexed_from j (map open_f (indexed_from j files)))))%nat.
  Proof.
    induction files as [|f files IH]; intros j Hj; cbn; [lia|]. cbn in Hj.
    specialize (IH (S j) ltac:(lia)).
    destruct (intact part (j, f)) eqn:E.
    - rewrite (open_f_intact part j f ltac:(lia) E). cbn [fst snd is_good]. rewrite bytes_eqb_refl. cbn. lia.
    - destruct (is_good _ _ _ _); cbn; lia.
  Qed.

  Lemma max_len_ge files b : In (Some b) files -> (length b <= max_len files)%nat.
  Proof.
    induction files as [|f files IH]; [intros []|]. unfold max_len. cbn [fold_right In]. fold (max_len files).
    intros [-> | H].
    - lia.
    - specialize (IH H). destruct f; lia.
  Qed.
  Lemma good_bytes_length i : forall bufs s, (length bufs <= length (good_bytes i s bufs))%nat.
  Proof.
    induction bufs as [|buf bufs IH]; intros s; [cbn; lia|].
    rewrite good_bytes_cons. unfold Erasure.frame. rewrite !app_length, frame_header_length.
    specialize (IH (S s)). cbn [length]. lia.
  Qed.
  Lemma indexed_from_In {A} (l : list A) : forall j i x, In (i, x) (indexed_from j l) -> In x l.
  Proof.
    induction l as [|y l IH]; intros j i x; cbn; [auto|]. intros [E|H]; [inversion E; auto | right; eapply IH; eauto].
  Qed.

  (* with at least k intact shard files and every other shard missing, unreadable at open or
     tolerated, the read returns exactly the part, without an error *)
  Theorem read_correct part files :
    N.of_nat (length part) < 2 ^ 64 ->
    length files = (k + m)%nat ->
    Forall (fun if_ => shard_cond part (fst if_) (snd if_)) (indexed files) ->
    (k <= length (filter (intact part) (indexed files)))%nat ->
    fst (read files) = (part, true).
  Proof.
    intros Hpart Hlen Hcond Hint. unfold Erasure.read.
    destruct (stripes_spec part) as [Hok [Hcat Hn]].
    change (open_all k m SS files) with (map open_f (indexed files)).
    set (opens := map open_f (indexed files)).
    match goal with |- context [Erasure.read_loop _ _ _ _ ?fu _ _ ?h _] =>
      destruct (loop_correct (stripes part) 0 opens h [] fu Hok) as [heal' Hh] end.
    - cbn [Nat.add]. lia.
    - unfold opens, indexed. rewrite map_length, indexed_from_length. exact Hlen.
    - unfold opens, indexed. apply opens_tol; auto. cbn [Nat.add]. lia.
    - eapply Nat.le_trans; [exact Hint|]. unfold opens, indexed. apply opens_good. cbn [Nat.add]. lia.
    - assert (length (stripes part) <= max_len files)%nat as Hm; [|lia].
      destruct (filter_nonempty_In _ _ (Nat.le_trans _ _ _ Hk Hint)) as [[i f] [Hin Hi]].
      assert (i < k + m)%nat as Hik.
      { apply In_nth with (d := (0%nat, None)) in Hin. destruct Hin as [j [Hj Ej]].
        unfold indexed in *. rewrite indexed_from_length in Hj.
        rewrite indexed_from_nth in Ej by exact Hj. inversion Ej; subst. lia. }
      unfold intact in Hi. cbn [fst snd] in Hi. destruct f as [b|]; [|discriminate].
      apply bytes_eqb_eq in Hi. apply indexed_from_In in Hin. apply max_len_ge in Hin.
      rewrite Hi, write_all_nth, app_length in Hin by exact Hik.
      pose proof (good_bytes_length i (stripes part) 0). lia.
    - cbn [Nat.add N.of_nat] in Hh. rewrite Hh. cbn. rewrite Hcat. reflexivity.
  Qed.
  (* ---------- byte-level faults that are tolerated ---------- *)
  (* a shard file shorter than its header is rejected at open *)
  Lemma short_file_rejected i b : (length b < 15)%nat -> open_ok i b = false.
  Proof. intros H. unfold Erasure.open_ok. replace (length b <? 15)%nat with true by (symmetry; apply Nat.ltb_lt; exact H). reflexivity. Qed.

  (* intact frames of the stripes [bufs1] followed by a tolerated remainder *)
  Lemma tol_prefix i : (i < k + m)%nat -> forall bufs1 bufs2 s tail,
    Forall okbuf bufs1 -> N.of_nat (s + length bufs1) < 2 ^ 64 ->
    tol i (s + length bufs1) bufs2 (Some tail) ->
    tol i s (bufs1 ++ bufs2) (Some (good_bytes i s bufs1 ++ tail)).
  Proof.
    intros Hi. induction bufs1 as [|buf bufs1 IH]; intros bufs2 s tail Hok Hs Ht.
    - cbn in *. rewrite Nat.add_0_r in Ht. exact Ht.
    - inversion Hok as [|? ? Hb Hok']; subst. cbn [length] in *.
      rewrite good_bytes_cons, <- app_assoc. cbn [app].
      eapply tol_ok.
      + apply read_frame_ok; [lia | apply lenN_okbuf; exact Hb | apply payload_bounds; auto].
      + apply IH; auto; [lia|]. replace (S s + length bufs1)%nat with (s + S (length bufs1))%nat by lia. exact Ht.
  Qed.

  (* truncation inside a frame header (or exactly at a frame boundary): the reader sees EOF *)
  Lemma tol_truncated_in_header i bufs1 bufs2 s tail :
    (i < k + m)%nat -> Forall okbuf bufs1 -> N.of_nat (s + length bufs1) < 2 ^ 64 ->
    (length tail < 48)%nat ->
    tol i s (bufs1 ++ bufs2) (Some (good_bytes i s bufs1 ++ tail)).
  Proof.
    intros Hi Hok Hs Hl. apply tol_prefix; auto.
    assert (E : read_frame (N.of_nat (s + length bufs1)) tail = FEof).
    { unfold Erasure.read_frame. replace (length tail <? 48)%nat with true by (symmetry; apply Nat.ltb_lt; exact Hl). reflexivity. }
    destruct bufs2; [apply tol_end | apply tol_stop; left]; exact E.
  Qed.

  (* any continuation whose next frame is rejected (wrong stripe index, zero/other payload length,
     short payload, digest mismatch) while original stripes are still expected *)
  Lemma tol_rejected_frame i bufs1 buf bufs2 s tail :
    (i < k + m)%nat -> Forall okbuf bufs1 -> N.of_nat (s + length bufs1) < 2 ^ 64 ->
    read_frame (N.of_nat (s + length bufs1)) tail = FBad ->
    tol i s (bufs1 ++ buf :: bufs2) (Some (good_bytes i s bufs1 ++ tail)).
  Proof. intros Hi Hok Hs E. apply tol_prefix; auto. apply tol_stop. right. exact E. Qed.

  (* the fault kinds of the property, as shard files, are all covered by [shard_cond] *)
  Lemma fault_kinds part i : N.of_nat (length part) < 2 ^ 64 -> (i < k + m)%nat ->
    shard_cond part i None /\
    (forall b, (length b < 15)%nat -> shard_cond part i (Some b)) /\
    (forall bufs1 bufs2 tail, stripes part = bufs1 ++ bufs2 -> (length tail < 48)%nat ->
       shard_cond part i (Some (shard_header i ++ good_bytes i 0 bufs1 ++ tail))) /\
    (forall bufs1 buf bufs2 tail, stripes part = bufs1 ++ buf :: bufs2 ->
       read_frame (N.of_nat (length bufs1)) tail = FBad ->
       shard_cond part i (Some (shard_header i ++ good_bytes i 0 bufs1 ++ tail))).
  Proof.
    intros Hp Hi. destruct (stripes_spec part) as [Hok [_ Hn]].
    split; [constructor|]. split; [intros b Hb; apply sc_badheader, short_file_rejected; exact Hb|].
    split.
    - intros bufs1 bufs2 tail E Hl.
      destruct (open_ok_header i (good_bytes i 0 bufs1 ++ tail) Hi) as [O Sk].
      apply sc_tol; [exact O|]. rewrite Sk, E. rewrite E in Hok, Hn. apply Forall_app in Hok. destruct Hok as [Hok1 _].
      rewrite app_length in Hn. apply tol_truncated_in_header; auto. cbn [Nat.add]. lia.
    - intros bufs1 buf bufs2 tail E Hr.
      destruct (open_ok_header i (good_bytes i 0 bufs1 ++ tail) Hi) as [O Sk].
      apply sc_tol; [exact O|]. rewrite Sk, E. rewrite E in Hok, Hn. apply Forall_app in Hok. destruct Hok as [Hok1 _].
      rewrite app_length in Hn. apply tol_rejected_frame; auto. cbn [Nat.add]. lia.
  Qed.
End Spec.


(* ---------- a concrete (1+1) instance: replication is an MDS code ---------- *)
Definition sha0 (_ : bytes) : bytes := repeat x00 32.
Definition enc11 (_ _ : nat) (d : list bytes) : list bytes := d.
Definition rec11 (_ _ : nat) (holes : list (option bytes)) : option (list bytes) :=
  match holes with
  | Some x :: _ => Some [x]
  | None :: Some x :: _ => Some [x]
  | _ => None
  end.

Lemma enc11_shape : forall d sl, length d = 1%nat -> Forall (fun x => length x = sl) d ->
  length (enc11 1 1 d) = 1%nat /\ Forall (fun x => length x = sl) (enc11 1 1 d).
Proof. intros d sl L F. split; assumption. Qed.

Lemma mds11 : forall d sl holes, length d = 1%nat -> Forall (fun x : bytes => length x = sl) d ->
  consistent enc11 1 1 d holes -> (1 <= count_some holes)%nat -> rec11 1 1 holes = Some d.
Proof.
  intros d sl holes L _ [HL Hc] Hn.
  destruct d as [|x [|? ?]]; try discriminate.
  destruct holes as [|h0 [|h1 [|? ?]]]; try discriminate.
  pose proof (Hc 0%nat ltac:(lia)) as H0. pose proof (Hc 1%nat ltac:(lia)) as H1. cbn in H0, H1.
  destruct H0 as [-> | ->]; destruct H1 as [-> | ->]; cbn in *; try reflexivity. lia.
Qed.

(* witnesses *)
Definition w_part : bytes := [x01; x02].
Definition w_files : list bytes := write_all sha0 enc11 1 1 1024 w_part.
(* one byte of the unauthenticated dataBytes field of shard 0, frame 0 (file offset 26): 2 -> 1 *)
Definition w_databytes : list (option bytes) :=
  [Some (flip_at 26 3 (nth 0 w_files [])); Some (nth 1 w_files [])].

Lemma w_databytes_lies :
  fst (read sha0 rec11 1 1 1024 w_databytes) = ([x01], true) /\
  length (filter (fun if_ => match snd if_ with Some b => bytes_eqb b (nth (fst if_) w_files []) | None => false end)
                 (indexed w_databytes)) = 1%nat.
Proof. vm_compute. split; reflexivity. Qed.

Lemma w_all_missing_reads_empty : fst (read sha0 rec11 1 1 1024 [None; None]) = ([], true).
Proof. vm_compute. reflexivity. Qed.

Lemma w_parity_not_healed :
  fst (read sha0 rec11 1 1 1024 [Some (nth 0 w_files []); None]) = (w_part, true) /\
  nth 1 (snd (read sha0 rec11 1 1 1024 [Some (nth 0 w_files []); None])) None <> Some (nth 1 w_files []).
Proof. vm_compute. split; [reflexivity | discriminate]. Qed.

(* the assumptions under which the property is stated: geometry accepted by NewWithPartStores,
   32-byte digests, a code whose parity shards are as long as the data shards and which is MDS *)
Definition ec_assumptions (sha : bytes -> bytes) (rs_enc : nat -> nat -> list bytes -> list bytes)
  (rs_rec : nat -> nat -> list (option bytes) -> option (list bytes)) (k m : nat) (SS : N) : Prop :=
  (forall p, length (sha p) = 32%nat) /\ (1 <= k)%nat /\ N.of_nat k * SS < 2 ^ 32 /\
  (forall d sl, length d = k -> Forall (fun x => length x = sl) d ->
     length (rs_enc k m d) = m /\ Forall (fun x => length x = sl) (rs_enc k m d)) /\
  (forall d sl holes, length d = k -> Forall (fun x : bytes => length x = sl) d ->
     consistent rs_enc k m d holes -> (k <= count_some holes)%nat -> rs_rec k m holes = Some d) /\
  N.of_nat (k + m) < 65536 /\ 1024 <= SS < 2 ^ 32.

Lemma assumptions11 : ec_assumptions sha0 enc11 rec11 1 1 1024.
Proof.
  unfold ec_assumptions. split; [intros p; reflexivity|]. split; [lia|]. split; [cbn; lia|].
  split; [exact enc11_shape|]. split; [exact mds11|]. split; cbn; lia.
Qed.

Lemma read_correct_stmt : forall sha rs_enc rs_rec k m SS, ec_assumptions sha rs_enc rs_rec k m SS ->
  forall part files, N.of_nat (length part) < 2 ^ 64 -> length files = (k + m)%nat ->
  Forall (fun if_ => shard_cond sha rs_enc k m SS part (fst if_) (snd if_)) (indexed files) ->
  (k <= length (filter (intact sha rs_enc k m SS part) (indexed files)))%nat ->
  fst (read sha rs_rec k m SS files) = (part, true).
Proof.
  intros sha rs_enc rs_rec k m SS (H1 & H2 & H3 & H4 & H5 & H6 & H7). intros.
  eapply read_correct; eauto.
Qed.

Lemma fault_kinds_stmt : forall sha rs_enc rs_rec k m SS, ec_assumptions sha rs_enc rs_rec k m SS ->
  forall part i, N.of_nat (length part) < 2 ^ 64 -> (i < k + m)%nat ->
    shard_cond sha rs_enc k m SS part i None /\
    (forall b, (length b < 15)%nat -> shard_cond sha rs_enc k m SS part i (Some b)) /\
    (forall bufs1 bufs2 tail, stripes k SS part = bufs1 ++ bufs2 -> (length tail < 48)%nat ->
       shard_cond sha rs_enc k m SS part i
         (Some (shard_header k m SS i ++ good_bytes sha rs_enc k m i 0 bufs1 ++ tail))) /\
    (forall bufs1 buf bufs2 tail, stripes k SS part = bufs1 ++ buf :: bufs2 ->
       read_frame sha (N.of_nat (length bufs1)) tail = FBad ->
       shard_cond sha rs_enc k m SS part i
         (Some (shard_header k m SS i ++ good_bytes sha rs_enc k m i 0 bufs1 ++ tail))).
Proof.
  intros sha rs_enc rs_rec k m SS (H1 & H2 & H3 & H4 & H5 & H6 & H7). intros.
  eapply fault_kinds; eauto.
Qed.
