(* Proofs/MetaGcBasics.v — library facts about the registry/store/dedup association lists and the GC
   step functions of Model/MetaGc.v that do not need any invariant. *)
From Coq Require Import Lia ZifyBool ZifyN ZifyNat.
From Verif Require Import Bytes Codec Md5 Meta MetaGc MetaPartsDefs.

Lemma live_rows_count s p : live_rows s p = count_rows s p. Proof. reflexivity. Qed.

(* ---- registry ---- *)
Lemma reg_get_set_same r p c : reg_get (reg_set r p c) p = Some c.
Proof.
  induction r as [|[q d] r IH]; cbn.
  - now rewrite N.eqb_refl.
  - destruct (N.eqb q p) eqn:E; cbn; rewrite E; auto.
Qed.
Lemma reg_get_set_other r p q c : q <> p -> reg_get (reg_set r p c) q = reg_get r q.
Proof.
  intros Hn. induction r as [|[a d] r IH]; cbn.
  - destruct (N.eqb p q) eqn:E; auto. apply N.eqb_eq in E. congruence.
  - destruct (N.eqb a p) eqn:E; cbn.
    + apply N.eqb_eq in E. subst a. destruct (N.eqb_spec p q); [congruence|auto].
    + destruct (N.eqb a q); auto.
Qed.
Lemma reg_get_del_same r p : reg_get (reg_del r p) p = None.
Proof.
  induction r as [|[a d] r IH]; cbn; auto.
  destruct (N.eqb a p) eqn:E; cbn; auto. now rewrite E.
Qed.
Lemma reg_get_del_other r p q : q <> p -> reg_get (reg_del r p) q = reg_get r q.
Proof.
  intros Hn. induction r as [|[a d] r IH]; cbn; auto.
  destruct (N.eqb a p) eqn:E; cbn.
  - apply N.eqb_eq in E. subst a. destruct (N.eqb p q) eqn:E2; auto. apply N.eqb_eq in E2. congruence.
  - destruct (N.eqb a q); auto.
Qed.
Lemma reg_get_None_notin r p : reg_get r p = None -> forall c, ~ In (p, c) r.
Proof.
  induction r as [|[a d] r IH]; cbn; intros H c; auto.
  destruct (N.eqb a p) eqn:E; [discriminate|].
  intros [Heq|Hin]; [inversion Heq; subst; rewrite N.eqb_refl in E; discriminate | eapply IH; eauto].
Qed.

(* ---- store ---- *)
Lemma store_get_del_same st p :
  store_get (filter (fun x => negb (N.eqb (fst x) p)) st) p = None.
Proof.
  induction st as [|[a c] st IH]; cbn; auto.
  destruct (N.eqb a p) eqn:E; cbn; auto. now rewrite E.
Qed.
Lemma store_get_del_other st p q : q <> p ->
  store_get (filter (fun x => negb (N.eqb (fst x) p)) st) q = store_get st q.
Proof.
  intros Hn. induction st as [|[a c] st IH]; cbn; auto.
  destruct (N.eqb a p) eqn:E; cbn.
  - apply N.eqb_eq in E. subst a. destruct (N.eqb p q) eqn:E2; auto. apply N.eqb_eq in E2. congruence.
  - destruct (N.eqb a q); auto.
Qed.
Lemma store_get_In st p c : store_get st p = Some c -> In (p, c) st.
Proof.
  induction st as [|[a d] st IH]; cbn; [discriminate|].
  destruct (N.eqb a p) eqn:E; intros H.
  - apply N.eqb_eq in E. inversion H. subst. now left.
  - right. auto.
Qed.
Lemma store_get_None_notin st p : store_get st p = None -> ~ In p (map fst st).
Proof.
  induction st as [|[a d] st IH]; cbn; auto.
  destruct (N.eqb a p) eqn:E; [discriminate|]. intros H [Heq|Hin].
  - subst. rewrite N.eqb_refl in E. discriminate.
  - now apply IH.
Qed.

Lemma mem_N_In x l : mem_N x l = true <-> In x l.
Proof.
  unfold mem_N. rewrite existsb_exists. split.
  - intros [y [Hin E]]. apply N.eqb_eq in E. now subst.
  - intros H. exists x. split; auto. apply N.eqb_refl.
Qed.

(* ---- count_rows ---- *)
Lemma count_rows_pos s row : In row (parts s) -> count_rows s (p_pid row) <> 0%N.
Proof.
  unfold count_rows. intros Hin.
  assert (In row (filter (fun p => N.eqb (p_pid p) (p_pid row)) (parts s))) as H
    by (apply filter_In; split; auto; apply N.eqb_refl).
  destruct (filter _ (parts s)); [contradiction | cbn; lia].
Qed.
Lemma count_rows_zero s p row : count_rows s p = 0%N -> In row (parts s) -> p_pid row <> p.
Proof. intros Hz Hin Heq. subst p. now apply (count_rows_pos s row). Qed.
Lemma count_rows_ext s s' p : parts s = parts s' -> count_rows s p = count_rows s' p.
Proof. unfold count_rows. now intros ->. Qed.

(* ---- apply_obs only writes the registry ---- *)
Lemma apply_obs_shape s o b : exists r, apply_obs s o b = set_registry s r.
Proof.
  assert (s = set_registry s (registry s)) as Hs by (destruct s; reflexivity).
  unfold apply_obs.
  destruct (ob_ref o).
  - destruct (N.eqb (ob_actual o) 0).
    + destruct (guard_ok s o b); eauto.
    + destruct (N.eqb n (ob_actual o)); eauto. destruct (guard_ok s o b); eauto.
  - destruct (reg_get (registry s) (ob_pid o)); eauto.
Qed.
Lemma apply_obs_parts s o b : parts (apply_obs s o b) = parts s.
Proof. destruct (apply_obs_shape s o b) as [r ->]. reflexivity. Qed.
Lemma apply_obs_other s o b q : q <> ob_pid o ->
  reg_get (registry (apply_obs s o b)) q = reg_get (registry s) q.
Proof.
  intros Hn. unfold apply_obs.
  destruct (ob_ref o).
  - destruct (N.eqb (ob_actual o) 0).
    + destruct (guard_ok s o b); cbn; auto using reg_get_del_other.
    + destruct (N.eqb n (ob_actual o)); auto.
      destruct (guard_ok s o b); cbn; auto using reg_get_set_other.
  - destruct (reg_get (registry s) (ob_pid o)); cbn; auto using reg_get_set_other.
Qed.

(* ---- prune / backfill ---- *)
Lemma min_pid_spec s c d :
  min_pid s c d = d \/ exists row, In row (parts s) /\ p_content row = c /\ p_pid row = min_pid s c d.
Proof.
  unfold min_pid.
  assert (forall l m, (forall x, In x l -> In x (parts s)) ->
            (m = d \/ exists row, In row (parts s) /\ p_content row = c /\ p_pid row = m) ->
            let r := fold_left (fun m p => if bytes_eqb (p_content p) c then N.min m (p_pid p) else m) l m in
            r = d \/ exists row, In row (parts s) /\ p_content row = c /\ p_pid row = r) as H.
  { induction l as [|x l IH]; cbn; intros m Hsub Hm; auto.
    apply IH; [intros; apply Hsub; now right|].
    destruct (bytes_eqb (p_content x) c) eqn:E; auto.
    apply bytes_eqb_eq in E.
    destruct (N.min_spec m (p_pid x)) as [[_ ->]|[_ ->]]; auto.
    right. exists x. split; [apply Hsub; now left | auto]. }
  apply H; auto.
Qed.

Lemma backfill_dedup_In s c p :
  In (c, p) (dedup (backfill s)) ->
  In (c, p) (dedup s) \/ exists row, In row (parts s) /\ p_content row = c /\ p_pid row = p.
Proof.
  unfold backfill. cbn [dedup set_dedup].
  assert (forall l d0, (forall x, In x l -> In x (parts s)) ->
     (forall c p, In (c, p) d0 -> In (c, p) (dedup s) \/ exists row, In row (parts s) /\ p_content row = c /\ p_pid row = p) ->
     forall c p, In (c, p) (fold_left (fun d row => match dedup_get d (p_content row) with
                             | Some _ => d
                             | None => d ++ [(p_content row, min_pid s (p_content row) (p_pid row))]
                             end) l d0) ->
     In (c, p) (dedup s) \/ exists row, In row (parts s) /\ p_content row = c /\ p_pid row = p) as H.
  { induction l as [|x l IH]; cbn; intros d0 Hsub Hd0 c0 p0 Hin; [auto|].
    eapply IH; [intros; apply Hsub; now right| |exact Hin].
    intros c1 p1 H1. destruct (dedup_get d0 (p_content x)); [auto|].
    apply in_app_or in H1. destruct H1 as [H1|[H1|[]]]; [auto|].
    inversion H1; subst. right.
    destruct (min_pid_spec s (p_content x) (p_pid x)) as [->|[row [? [? ?]]]].
    - exists x. split; [apply Hsub; now left|auto].
    - exists row. auto. }
  intros Hin. eapply H; [| |exact Hin]; auto.
Qed.

Lemma prune_dedup_In s c p : In (c, p) (dedup (prune s)) -> In (c, p) (dedup s) /\ count_rows s p <> 0%N.
Proof.
  unfold prune. cbn [dedup set_dedup]. rewrite filter_In. unfold is_live. cbn [snd].
  rewrite live_rows_count. intros [H1 H2]. split; auto.
  destruct (N.eqb_spec (count_rows s p) 0); [discriminate|auto].
Qed.

Lemma prune_backfill_shape s : exists d, prune_backfill s = set_dedup s d.
Proof. unfold prune_backfill, backfill, prune. destruct s; cbn. eexists. unfold set_dedup. cbn. reflexivity. Qed.

Lemma prune_backfill_dedup_In s c p :
  In (c, p) (dedup (prune_backfill s)) ->
  (In (c, p) (dedup s) /\ count_rows s p <> 0%N)
  \/ exists row, In row (parts s) /\ p_content row = c /\ p_pid row = p.
Proof.
  unfold prune_backfill. intros H. apply backfill_dedup_In in H. destruct H as [H|H].
  - left. now apply prune_dedup_In.
  - right. exact H.
Qed.

(* ---- condemn ---- *)
Lemma condemn_check_true s pid s' :
  condemn_check s pid = (true, s') ->
  count_rows s pid = 0%N /\ reg_get (registry s') pid = None /\ parts s' = parts s /\ store s' = store s
  /\ dedup s' = dedup s /\ next_id s' = next_id s /\ (forall q, q <> pid -> reg_get (registry s') q = reg_get (registry s) q).
Proof.
  unfold condemn_check. rewrite live_rows_count.
  destruct (reg_get (registry s) pid) eqn:Er.
  - destruct (N.eqb n 0); cbn; [|discriminate].
    destruct (N.eqb_spec (count_rows s pid) 0); cbn; [|discriminate].
    intros H. inversion H. subst s'. cbn. repeat split; auto using reg_get_del_same.
    intros q Hq. now apply reg_get_del_other.
  - intros H. inversion H. subst s'. apply N.eqb_eq in H1. repeat split; auto.
Qed.
Lemma condemn_check_false s pid s' : condemn_check s pid = (false, s') -> s' = s.
Proof.
  unfold condemn_check. destruct (reg_get (registry s) pid).
  - destruct (N.eqb n 0); cbn; [|now inversion 1].
    destruct (N.eqb (live_rows s pid) 0); cbn; [discriminate|now inversion 1].
  - now inversion 1.
Qed.

Lemma nth_error_remove_nth_In {A} (l : list A) k x : In x (remove_nth k l) -> In x l.
Proof.
  revert k. induction l as [|y l IH]; intros [|k]; cbn; auto.
  intros [H|H]; eauto.
Qed.
