(* Proofs/MetaRows8.v — M-META at row level, layer 8: history-level corollaries and the syntactic
   multi-step form of version persistence. *)
From Verif Require Import Bytes Codec Md5 Meta MetaBasics MetaRows1 MetaRows2 MetaRows3 MetaRows4 MetaRows5 MetaRows6 MetaRows7.
From Coq Require Import ZifyBool ZifyN ZifyNat.

Lemma run_snoc_step ops o : exists s' r,
  step (N.of_nat (length ops)) (rev (snd (run ops))) (fst (run ops)) o = (s', r) /\
  run (ops ++ [o]) = (s', snd (run ops) ++ [r]).
Proof.
  rewrite run_snoc. destruct (step _ _ _ o) as [s' r]. exists s', r. split; reflexivity.
Qed.

Lemma run_snoc_res ops o s' rs x : run (ops ++ [o]) = (s', rs ++ [x]) ->
  step (N.of_nat (length ops)) (rev (snd (run ops))) (fst (run ops)) o = (s', x).
Proof.
  intros H. destruct (run_snoc_step ops o) as (s1 & r1 & E1 & E2). rewrite E2 in H.
  pose proof (f_equal fst H) as Hs. pose proof (f_equal snd H) as Hr. cbn [fst snd] in Hs, Hr.
  apply app_inj_tail in Hr. destruct Hr as [_ Hr]. rewrite <- Hs, <- Hr. exact E1.
Qed.

(* the inline form of "not addressed to (b,k)" used in the property files *)
Definition elsewhere (o : op) (b k : bytes) : Prop :=
  match o with
  | OPut b' k' _ _ | ODel b' k' _ _ | OCmu b' k' | OUp b' k' _ _ _ | OCpl b' k' _ _ _ | OAbt b' k' _
  | OApp b' k' _ _ => ~ (b' = b /\ k' = k)
  | OCp _ _ _ db dk => ~ (db = b /\ dk = k)
  | _ => True
  end.
Lemma elsewhere_op_key o b k : elsewhere o b k -> op_key o <> Some (b, k).
Proof. destruct o; cbn; intros H E; try discriminate E; inversion E; subst; apply H; split; reflexivity. Qed.

Lemma step_frame_full i hist s o b k :
  NoDup (map o_id (objs s)) -> (forall x, In x (objs s) -> (o_id x < next_id s)%N) -> elsewhere o b k ->
  filter (on_key b k) (objs (fst (step i hist s o))) = filter (on_key b k) (objs s) /\
  find_latest (fst (step i hist s o)) b k = find_latest s b k /\
  (forall v, find_version (fst (step i hist s o)) b k v = find_version s b k v) /\
  (forall u, find_upload (fst (step i hist s o)) b k u = find_upload s b k u) /\
  (forall x, In x (objs s) -> on_key b k x = true ->
             obj_parts (fst (step i hist s o)) (o_id x) = obj_parts s (o_id x)).
Proof.
  intros H1 H2 He. destruct (step_frame i hist s o b k (conj H1 H2) (elsewhere_op_key o b k He)) as [F1 F2].
  split; [exact F1|]. split; [rewrite !find_latest_krows, F1; reflexivity|].
  split; [intros v; rewrite !find_version_krows, F1; reflexivity|].
  split; [intros u; rewrite !find_upload_krows, F1; reflexivity|].
  intros x Hx Kx. apply F2. apply filter_In. split; assumption.
Qed.

Lemma Forall_elsewhere mid b k : Forall (fun o => elsewhere o b k) mid -> Forall (fun o => op_key o <> Some (b, k)) mid.
Proof. intros H. eapply Forall_impl; [|exact H]. intros o. apply elsewhere_op_key. Qed.

Lemma run_frame_full ops mid b k : Forall (fun o => elsewhere o b k) mid ->
  filter (on_key b k) (objs (fst (run (ops ++ mid)))) = filter (on_key b k) (objs (fst (run ops))) /\
  find_latest (fst (run (ops ++ mid))) b k = find_latest (fst (run ops)) b k /\
  (forall v, find_version (fst (run (ops ++ mid))) b k v = find_version (fst (run ops)) b k v) /\
  (forall x, In x (objs (fst (run ops))) -> on_key b k x = true ->
             obj_parts (fst (run (ops ++ mid))) (o_id x) = obj_parts (fst (run ops)) (o_id x)).
Proof.
  intros F. unfold run. rewrite run_from_app.
  destruct (run_from_frame mid b k (Forall_elsewhere _ _ _ F) (0 + N.of_nat (length ops))%N
              (rev (snd (run_from 0 [] init ops))) (fst (run_from 0 [] init ops)) (proj1 (run_inv1 ops))) as [F1 F2].
  split; [exact F1|]. split; [rewrite !find_latest_krows, F1; reflexivity|].
  split; [intros v; rewrite !find_version_krows, F1; reflexivity|].
  intros x Hx Kx. apply F2. apply filter_In. split; assumption.
Qed.

(* ---------- syntactic multi-step persistence ---------- *)
Definition keeps_version (o : op) (b k : bytes) (n : N) : Prop :=
  match o with
  | ODel b' k' v _ => b' = b /\ k' = k -> resolve_vref v <> Some (VId n)
  | OApp b' k' _ _ => ~ (b' = b /\ k' = k)
  | OVer b' v => b' = b -> v <> VUnset
  | _ => True
  end.

Lemma find_bucket_app_some (l l' : list bucket) b x :
  find (fun y => bytes_eqb (b_name y) b) l = Some x -> find (fun y => bytes_eqb (b_name y) b) (l ++ l') = Some x.
Proof.
  induction l as [|y l IH]; cbn; [discriminate|]. destruct (bytes_eqb (b_name y) b); [tauto | exact IH].
Qed.
Lemma find_bucket_map_ver_eq (l : list bucket) b b0 v :
  option_map b_ver (find (fun x => bytes_eqb (b_name x) b)
       (map (fun x => if bytes_eqb (b_name x) b0 then {| b_name := b0; b_ver := v |} else x) l)) =
  if bytes_eqb b0 b then option_map (fun _ => v) (find (fun x => bytes_eqb (b_name x) b) l)
  else option_map b_ver (find (fun x => bytes_eqb (b_name x) b) l).
Proof.
  induction l as [|y l IH]; cbn; [destruct (bytes_eqb b0 b); reflexivity|].
  destruct (bytes_eqb (b_name y) b0) eqn:E0; cbn.
  - apply bytes_eqb_eq in E0. rewrite E0. destruct (bytes_eqb b0 b) eqn:E; [reflexivity|].
    exact IH.
  - destruct (bytes_eqb (b_name y) b) eqn:E.
    + apply bytes_eqb_eq in E. destruct (bytes_eqb b0 b) eqn:E1; [|reflexivity].
      apply bytes_eqb_eq in E1. subst. rewrite bytes_eqb_refl in E0. discriminate.
    + exact IH.
Qed.

Lemma step_bucket_ver i hist s o b k n st :
  (exists x, In x (objs s) /\ o_bucket x = b) -> bucket_ver s b = Some st -> st <> VUnset ->
  keeps_version o b k n ->
  exists st', bucket_ver (fst (step i hist s o)) b = Some st' /\ st' <> VUnset.
Proof.
  intros [x [Hx Bx]] Hst Hn Hk. destruct (step_cases i hist s o) as [(b' & k' & _ & T)|[Ek _]].
  - exists st. split; [|exact Hn]. unfold bucket_ver, find_bucket. rewrite (proj1 (Tr_buckets_next _ _ _ _ _ _ T)). exact Hst.
  - destruct o; try discriminate Ek; cbn [step fst]; try (exists st; split; [exact Hst | exact Hn]).
    + exists st. split; [|exact Hn]. unfold op_mb. change (find_bucket (with_ids s i) b0) with (find_bucket s b0).
      destruct (find_bucket s b0); [exact Hst|]. cbn [fst]. unfold bucket_ver, find_bucket in *.
      cbn [buckets set_buckets with_ids].
      destruct (find (fun y => bytes_eqb (b_name y) b) (buckets s)) as [bb|] eqn:F; [|discriminate].
      rewrite (find_bucket_app_some _ _ _ _ F). exact Hst.
    + exists st. split; [|exact Hn]. unfold op_rb. change (find_bucket (with_ids s i) b0) with (find_bucket s b0).
      destruct (find_bucket s b0); [|exact Hst]. cbn [objs with_ids].
      destruct (existsb _ (objs s)) eqn:E; [exact Hst|]. cbn [fst].
      unfold bucket_ver, find_bucket in *. cbn [buckets set_buckets with_ids].
      assert (Nb : b0 <> b).
      { intros ->. assert (existsb (fun r => bytes_eqb (o_bucket r) b) (objs s) = true); [|congruence].
        apply existsb_exists. exists x. split; [exact Hx | apply bytes_eqb_eq; exact Bx]. }
      rewrite find_bucket_filter_other by exact Nb. exact Hst.
    + unfold op_ver. change (find_bucket (with_ids s i) b0) with (find_bucket s b0).
      destruct (find_bucket s b0); [|exists st; split; [exact Hst | exact Hn]]. cbn [fst].
      unfold bucket_ver, find_bucket in *. cbn [buckets set_buckets with_ids].
      rewrite find_bucket_map_ver_eq. destruct (bytes_eqb b0 b) eqn:E.
      * apply bytes_eqb_eq in E. destruct (find _ (buckets s)); [|discriminate]. cbn.
        exists v. split; [reflexivity|]. apply Hk. exact E.
      * exists st. split; [exact Hst | exact Hn].
Qed.

Lemma keeps_no_destroy s o b k n r st :
  bucket_ver s b = Some st -> st <> VUnset -> keeps_version o b k n -> may_destroy s o b k n r = false.
Proof.
  intros Hst Hn Hk. destruct o; cbn [may_destroy keeps_version] in *; try reflexivity.
  - destruct (bytes_eqb b0 b) eqn:E1; [|reflexivity]. destruct (bytes_eqb k0 k) eqn:E2; [|reflexivity].
    apply bytes_eqb_eq in E1. apply bytes_eqb_eq in E2. specialize (Hk (conj E1 E2)). cbn [andb].
    destruct (resolve_vref v) as [v'|].
    + destruct (vid_eqb v' (VId n)) eqn:E; [|reflexivity]. apply vid_eqb_eq in E. congruence.
    + rewrite Hst. destruct st; try contradiction; apply andb_false_r.
  - destruct (bytes_eqb b0 b) eqn:E1; [|reflexivity]. destruct (bytes_eqb k0 k) eqn:E2; [|reflexivity].
    apply bytes_eqb_eq in E1. apply bytes_eqb_eq in E2. exfalso. apply Hk. split; assumption.
Qed.

Lemma run_from_version_keeps ops b k n : Forall (fun o => keeps_version o b k n) ops ->
  forall i hist s r st, Inv1 s -> find_version s b k (VId n) = Some r -> bucket_ver s b = Some st -> st <> VUnset ->
  exists r', find_version (fst (run_from i hist s ops)) b k (VId n) = Some r' /\ core r' = core r /\
             obj_parts (fst (run_from i hist s ops)) (o_id r) = obj_parts s (o_id r).
Proof.
  induction 1 as [|o ops Ho _ IH]; intros i hist s r st H F Hst Hn; cbn [run_from].
  - exists r. repeat split. exact F.
  - destruct (step_version_persists i hist s o b k n r H F (keeps_no_destroy s o b k n r st Hst Hn Ho))
      as (r1 & F1 & C1 & P1).
    pose proof (step_inv1 i hist s o H) as H'.
    assert (Hx : exists x, In x (objs s) /\ o_bucket x = b).
    { destruct (find_version_some _ _ _ _ _ F) as (I & K & _). apply on_key_eq in K. exists r. tauto. }
    destruct (step_bucket_ver i hist s o b k n st Hx Hst Hn Ho) as (st' & Hst' & Hn').
    destruct (step i hist s o) as [s1 x]. cbn [fst snd] in *.
    destruct (IH (i + 1)%N (x :: hist) s1 r1 st' H' F1 Hst' Hn') as (r2 & F2 & C2 & P2).
    exists r2. split; [exact F2|]. split; [congruence|].
    destruct (core_fields _ _ C1) as (E & _). rewrite E in P2. congruence.
Qed.

Lemma run_version_keeps ops mid b k n r st : Forall (fun o => keeps_version o b k n) mid ->
  find_version (fst (run ops)) b k (VId n) = Some r -> bucket_ver (fst (run ops)) b = Some st -> st <> VUnset ->
  exists r', find_version (fst (run (ops ++ mid))) b k (VId n) = Some r' /\ core r' = core r /\
             obj_parts (fst (run (ops ++ mid))) (o_id r) = obj_parts (fst (run ops)) (o_id r).
Proof.
  intros K F Hst Hn. unfold run. rewrite run_from_app.
  eapply run_from_version_keeps; try eassumption. apply run_inv1.
Qed.
