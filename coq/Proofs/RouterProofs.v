(* Proofs/RouterProofs.v — C24 *)
From Verif Require Import Bytes Codec Router.

Lemma nth_upd_other {A} (f : A -> A) d : forall l i j, i <> j -> nth j (upd_nth i f l) d = nth j l d.
Proof.
  induction l as [|x l IH]; intros i j H; [destruct i; reflexivity|].
  destruct i, j; cbn; try congruence; auto.
Qed.

Lemma nth_upd_same {A} (f : A -> A) d : forall l i, i < length l -> nth i (upd_nth i f l) d = f (nth i l d).
Proof.
  induction l as [|x l IH]; intros i H; cbn in *; [lia|]. destruct i; cbn; [reflexivity | apply IH; lia].
Qed.

Lemma upd_out {A} (f : A -> A) : forall l i, length l <= i -> upd_nth i f l = l.
Proof.
  induction l as [|x l IH]; intros i H; cbn in *; [destruct i; reflexivity|]. destruct i; [lia|]. cbn. f_equal. apply IH. lia.
Qed.

Section AssocLemmas.
  Context {V : Type}.
  Lemma aget_aset_same k (v : V) : forall l, aget k (aset k v l) = Some v.
  Proof.
    induction l as [|[k' v'] l IH]; cbn; [rewrite bytes_eqb_refl; reflexivity|].
    destruct (bytes_eqb k k') eqn:E; cbn; [rewrite bytes_eqb_refl; reflexivity|].
    destruct (bytes_ltb k k'); cbn; [rewrite bytes_eqb_refl; reflexivity | rewrite E; exact IH].
  Qed.
  Lemma aget_aset_other k k2 (v : V) : k2 <> k -> forall l, aget k2 (aset k v l) = aget k2 l.
  Proof.
    intros N. apply bytes_eqb_neq in N.
    induction l as [|[k' v'] l IH]; cbn; [rewrite N; reflexivity|].
    destruct (bytes_eqb k k') eqn:E; cbn.
    - apply bytes_eqb_eq in E. subst k'. rewrite N. reflexivity.
    - destruct (bytes_ltb k k'); cbn; [rewrite N; reflexivity|]. destruct (bytes_eqb k2 k'); [reflexivity | exact IH].
  Qed.
  Lemma aget_adel_other k k2 : k2 <> k -> forall l : list (bytes * V), aget k2 (adel k l) = aget k2 l.
  Proof.
    intros N. apply bytes_eqb_neq in N.
    induction l as [|[k' v'] l IH]; cbn; [reflexivity|].
    destruct (bytes_eqb k k') eqn:E; cbn.
    - apply bytes_eqb_eq in E. subst k'. rewrite N. reflexivity.
    - destruct (bytes_eqb k2 k'); [reflexivity | exact IH].
  Qed.
End AssocLemmas.

(* the backing storage an operation may modify *)
Definition target (c : cfg) (o : op) : option (nat * bytes) :=
  match o with
  | CreateBucket b | DeleteBucket b | Put b _ _ | Del b _ => Some (route c b, b)
  | Copy _ _ db _ => Some (route c db, db)
  | Head _ _ | ListBuckets => None
  end.

Lemma get_store_upd_other f w i j : i <> j -> get_store (upd_nth i f w) j = get_store w j.
Proof. intros H. unfold get_store. apply nth_upd_other. exact H. Qed.

Lemma step_other_storage c w o j :
  (forall i b, target c o = Some (i, b) -> j <> i) -> get_store (fst (step c w o)) j = get_store w j.
Proof.
  intros H. destruct o as [b|b|b k ob|b k|b k|sb sk db dk|]; cbn [step target] in *.
  - destruct (aget b (get_store w (route c b))); cbn; [reflexivity|]. apply get_store_upd_other. intros E. exact (H _ _ eq_refl (eq_sym E)).
  - destruct (aget b (get_store w (route c b))) as [[|x l]|]; cbn; try reflexivity. apply get_store_upd_other. intros E. exact (H _ _ eq_refl (eq_sym E)).
  - destruct (put_obj (get_store w (route c b)) b k ob); cbn; [|reflexivity]. apply get_store_upd_other. intros E. exact (H _ _ eq_refl (eq_sym E)).
  - destruct (aget b (get_store w (route c b))); cbn; [|reflexivity]. apply get_store_upd_other. intros E. exact (H _ _ eq_refl (eq_sym E)).
  - destruct (find_obj (get_store w (route c b)) b k); reflexivity.
  - destruct (find_obj (get_store w (route c sb)) sb sk); cbn; [reflexivity|].
    destruct (put_obj _ db dk _); cbn; [|reflexivity]. apply get_store_upd_other. intros E. exact (H _ _ eq_refl (eq_sym E)).
  - reflexivity.
Qed.

Lemma get_store_upd_same f w i : get_store (upd_nth i f w) i = if i <? length w then f (get_store w i) else get_store w i.
Proof.
  unfold get_store. destruct (i <? length w) eqn:E.
  - apply Nat.ltb_lt in E. apply nth_upd_same. exact E.
  - apply Nat.ltb_ge in E. rewrite upd_out by exact E. reflexivity.
Qed.

Lemma put_obj_other s b k ob s' b2 : put_obj s b k ob = Some s' -> b2 <> b -> aget b2 s' = aget b2 s.
Proof.
  unfold put_obj. destruct (aget b s); [|discriminate]. intros E N. inversion E; subst. apply aget_aset_other. exact N.
Qed.

(* within the target storage only the named bucket changes *)
Lemma step_other_bucket c w o i b b2 :
  target c o = Some (i, b) -> b2 <> b -> i < length w ->
  aget b2 (get_store (fst (step c w o)) i) = aget b2 (get_store w i).
Proof.
  intros T N L. apply Nat.ltb_lt in L.
  destruct o as [b0|b0|b0 k ob|b0 k|b0 k|sb sk db dk|]; cbn [step target] in *; inversion T as [[Hi Hb]]; clear T;
    rewrite Hb in *; clear Hb.
  - destruct (aget b (get_store w (route c b))); cbn [fst]; [rewrite Hi; reflexivity|].
    rewrite Hi, get_store_upd_same, L. apply aget_aset_other. exact N.
  - destruct (aget b (get_store w (route c b))) as [[|x l]|]; cbn [fst]; try (rewrite Hi; reflexivity).
    rewrite Hi, get_store_upd_same, L. apply aget_adel_other. exact N.
  - destruct (put_obj (get_store w (route c b)) b k ob) eqn:E; cbn [fst]; [|rewrite Hi; reflexivity].
    rewrite Hi in *. rewrite get_store_upd_same, L. eapply put_obj_other; eassumption.
  - destruct (aget b (get_store w (route c b))); cbn [fst]; [|rewrite Hi; reflexivity].
    rewrite Hi, get_store_upd_same, L. apply aget_aset_other. exact N.
  - destruct (find_obj (get_store w (route c sb)) sb sk); cbn [fst]; [rewrite Hi; reflexivity|].
    destruct (put_obj _ b dk _) eqn:E; cbn [fst]; [|rewrite Hi; reflexivity].
    rewrite Hi in *. rewrite get_store_upd_same, L. eapply put_obj_other; eassumption.
Qed.

(* sorting neither loses nor invents names *)
Lemma In_ins x y l : In x (ins y l) <-> x = y \/ In x l.
Proof.
  induction l as [|z l IH]; cbn; [intuition|]. destruct (bytes_ltb z y); cbn; rewrite ?IH; intuition.
Qed.
Lemma In_isort x l : In x (isort l) <-> In x l.
Proof. induction l as [|y l IH]; cbn; [tauto|]. rewrite In_ins, IH. intuition. Qed.

Lemma put_obj_get s b k ob s' : put_obj s b k ob = Some s' -> find_obj s' b k = inr ob.
Proof.
  unfold put_obj, find_obj. destruct (aget b s); [|discriminate]. intros E; inversion E; subst.
  rewrite aget_aset_same, aget_aset_same. reflexivity.
Qed.

Lemma put_obj_some_len w i b k ob s' : put_obj (get_store w i) b k ob = Some s' -> i < length w.
Proof.
  unfold put_obj, get_store. intros E. destruct (Nat.lt_ge_cases i (length w)) as [H|H]; [exact H|].
  rewrite nth_overflow in E by exact H. discriminate.
Qed.

Lemma copy_result c w sb sk db dk ob :
  find_obj (get_store w (route c sb)) sb sk = inr ob ->
  snd (step c w (Copy sb sk db dk)) = ROk ->
  find_obj (get_store (fst (step c w (Copy sb sk db dk))) (route c db)) db dk =
  inr (if same_instance c sb db then ob else {| o_data := o_data ob; o_c := o_c ob; o_u := false; o_t := false; o_m := false |}).
Proof.
  intros F. cbn [step]. rewrite F. destruct (put_obj _ db dk _) eqn:E; cbn [fst snd]; [|discriminate]. intros _.
  rewrite get_store_upd_same. pose proof (put_obj_some_len _ _ _ _ _ _ E) as L. apply Nat.ltb_lt in L. rewrite L.
  eapply put_obj_get. exact E.
Qed.
