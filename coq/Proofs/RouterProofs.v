(* Proofs/RouterProofs.v — C24 *)
From Verif Require Import Bytes Codec Router.

Lemma nth_upd_other {A} (f : A -> A) d : forall l i j, i <> j -> nth j (upd_nth i f l) d = nth j l d.
Proof.
  induction l as [|x l IH]; intros i j H; [destruct i; reflexivity|].
  destruct i, j; cbn; try congruence; auto.
Qed.

Lemma nth_upd_same {A} (f : A -> A) d : forall l i, i < length l -> nth i (upd_nth i f l) d = f (nth i l d).
Proof.
  induction l as [|x l IH]; intros i H; cbn in *; [lia|]. destruct i; cbn; [reflexivity | apply IH; lia].
Qed.

Lemma upd_out {A} (f : A -> A) : forall l i, length l <= i -> upd_nth i f l = l.
Proof.
  induction l as [|x l IH]; intros i H; cbn in *; [destruct i; reflexivity|]. destruct i; [lia|]. cbn. f_equal. apply IH. lia.
Qed.

Section AssocLemmas.
  Context {V : Type}.
  Lemma aget_aset_same k (v : V) : forall l, aget k (aset k v l) = Some v.
  Proof.
    induction l as [|[k' v'] l IH]; cbn; [rewrite bytes_eqb_refl; reflexivity|].
    destruct (bytes_eqb k k') eqn:E; cbn; [rewrite bytes_eqb_refl; reflexivity|].
    destruct (bytes_ltb k k'); cbn; [rewrite bytes_eqb_refl; reflexivity | rewrite E; exact IH].
  Qed.
  Lemma aget_aset_other k k2 (v : V) : k2 <> k -> forall l, aget k2 (aset k v l) = aget k2 l.
  Proof.
    intros N. apply bytes_eqb_neq in N.
    induction l as [|[k' v'] l IH]; cbn; [rewrite N; reflexivity|].
    destruct (bytes_eqb k k') eqn:E; cbn.
    - apply bytes_eqb_eq in E. subst k'. rewrite N. reflexivity.
    - destruct (bytes_ltb k k'); cbn; [rewrite N; reflexivity|]. destruct (bytes_eqb k2 k'); [reflexivity | exact IH].
  Qed.
  Lemma aget_adel_other k k2 : k2 <> k -> forall l : list (bytes * V), aget k2 (adel k l) = aget k2 l.
  Proof.
    intros N. apply bytes_eqb_neq in N.
    induction l as [|[k' v'] l IH]; cbn; [reflexivity|].
    destruct (bytes_eqb k k') eqn:E; cbn.
    - apply bytes_eqb_eq in E. subst k'. rewrite N. reflexivity.
    - destruct (bytes_eqb k2 k'); [reflexivity | exact IH].
  Qed.
End AssocLemmas.

(* the backing storage an operation may modify *)
Definition target (c : cfg) (o : op) : option (nat * bytes) :=
  match o with
  | CreateBucket b _ | DeleteBucket b | Put b _ _ | Del b _ => Some (route c b, b)
  | Copy _ _ db _ _ | PartCopy _ _ db _ _ => Some (route c db, db)
  | Head _ _ _ | ListBuckets => None
  end.

Lemma get_store_upd_other f w i j : i <> j -> get_store (upd_nth i f w) j = get_store w j.
Proof. intros H. unfold get_store. apply nth_upd_other. exact H. Qed.

Lemma get_store_upd_same f w i : get_store (upd_nth i f w) i = if i <? length w then f (get_store w i) else get_store w i.
Proof.
  unfold get_store. destruct (i <? length w) eqn:E.
  - apply Nat.ltb_lt in E. apply nth_upd_same. exact E.
  - apply Nat.ltb_ge in E. rewrite upd_out by exact E. reflexivity.
Qed.

Lemma step_other_storage c now w o j :
  (forall i b, target c o = Some (i, b) -> j <> i) -> get_store (fst (step c now w o)) j = get_store w j.
Proof.
  intros H.
  assert (U : forall b f, target c o = Some (route c b, b) -> get_store (upd_nth (route c b) f w) j = get_store w j).
  { intros b f T. apply get_store_upd_other. intros E. exact (H _ _ T (eq_sym E)). }
  destruct o as [b v|b|b k ob|b k|b k vid|sb sk db dk co|sb sk db dk co|]; cbn [step target] in *.
  - destruct (aget b (get_store w (route c b))); cbn [fst]; [reflexivity | apply U; reflexivity].
  - destruct (aget b (get_store w (route c b))) as [bk|]; cbn [fst]; [|reflexivity].
    destruct (bucket_empty bk); cbn [fst]; [apply U; reflexivity | reflexivity].
  - destruct (put_obj (get_store w (route c b)) b k ob); cbn [fst]; [apply U; reflexivity | reflexivity].
  - destruct (aget b (get_store w (route c b))); cbn [fst]; [apply U; reflexivity | reflexivity].
  - destruct (find_version (get_store w (route c b)) b k vid) as [r|[ob v]]; reflexivity.
  - destruct ((if same_instance c sb db then inner_copy else cross_copy) _ _ sb sk db dk co false now) as [[s'|] r]; cbn [fst];
      [apply U; reflexivity | reflexivity].
  - destruct (aget db (get_store w (route c db))); cbn [fst]; [|reflexivity].
    destruct ((if same_instance c sb db then inner_copy else cross_copy) _ _ sb sk db dk co true now) as [[s'|] r]; cbn [fst];
      [apply U; reflexivity | reflexivity].
  - reflexivity.
Qed.

Lemma put_obj_other s b k ob s' b2 : put_obj s b k ob = Some s' -> b2 <> b -> aget b2 s' = aget b2 s.
Proof.
  unfold put_obj. destruct (aget b s); [|discriminate]. intros E N. inversion E; subst. apply aget_aset_other. exact N.
Qed.

Lemma cross_copy_other ss ds sb sk db dk co mp now s' r b2 :
  cross_copy ss ds sb sk db dk co mp now = (Some s', r) -> b2 <> db -> aget b2 s' = aget b2 ds.
Proof.
  unfold cross_copy. destruct (find_version ss sb sk (co_vid co)) as [x|[src v]]; [discriminate|].
  destruct (negb (cross_conditions (co_conds co) (o_lm src))); [discriminate|].
  destruct (read_window _ _); [|discriminate]. destruct (put_obj ds db dk _) eqn:E; [|discriminate].
  intros H N. inversion H; subst. eapply put_obj_other; eassumption.
Qed.
Lemma inner_copy_other ss ds sb sk db dk co mp now s' r b2 :
  inner_copy ss ds sb sk db dk co mp now = (Some s', r) -> b2 <> db -> aget b2 s' = aget b2 ds.
Proof.
  unfold inner_copy. destruct (find_version ss sb sk (co_vid co)) as [x|[src v]]; [discriminate|].
  destruct (inner_conditions (co_conds co) (o_lm src)); [|discriminate].
  destruct ((if mp then part_window else read_window) _ _); [|discriminate]. destruct (put_obj ds db dk _) eqn:E; [|discriminate].
  intros H N. inversion H; subst. eapply put_obj_other; eassumption.
Qed.

(* within the target storage only the named bucket changes *)
Lemma step_other_bucket c now w o i b b2 :
  target c o = Some (i, b) -> b2 <> b -> i < length w ->
  aget b2 (get_store (fst (step c now w o)) i) = aget b2 (get_store w i).
Proof.
  intros T N L. apply Nat.ltb_lt in L.
  destruct o as [b0 v|b0|b0 k ob|b0 k|b0 k vid|sb sk db dk co|sb sk db dk co|]; cbn [step target] in *; inversion T as [[Hi Hb]]; clear T;
    rewrite Hb in *; clear Hb.
  - destruct (aget b (get_store w (route c b))); cbn [fst]; [rewrite Hi; reflexivity|].
    rewrite Hi, get_store_upd_same, L. apply aget_aset_other. exact N.
  - destruct (aget b (get_store w (route c b))) as [bk|]; cbn [fst]; [|rewrite Hi; reflexivity].
    destruct (bucket_empty bk); cbn [fst]; [|rewrite Hi; reflexivity].
    rewrite Hi, get_store_upd_same, L. apply aget_adel_other. exact N.
  - destruct (put_obj (get_store w (route c b)) b k ob) eqn:E; cbn [fst]; [|rewrite Hi; reflexivity].
    rewrite Hi in *. rewrite get_store_upd_same, L. eapply put_obj_other; eassumption.
  - destruct (aget b (get_store w (route c b))); cbn [fst]; [|rewrite Hi; reflexivity].
    rewrite Hi, get_store_upd_same, L. apply aget_aset_other. exact N.
  - destruct (same_instance c sb b).
    + destruct (inner_copy _ _ sb sk b dk co false now) as [[s'|] r] eqn:E; cbn [fst]; [|rewrite Hi; reflexivity].
      rewrite Hi in *. rewrite get_store_upd_same, L. eapply inner_copy_other; eassumption.
    + destruct (cross_copy _ _ sb sk b dk co false now) as [[s'|] r] eqn:E; cbn [fst]; [|rewrite Hi; reflexivity].
      rewrite Hi in *. rewrite get_store_upd_same, L. eapply cross_copy_other; eassumption.
  - destruct (aget b (get_store w (route c b))); cbn [fst]; [|rewrite Hi; reflexivity].
    destruct (same_instance c sb b).
    + destruct (inner_copy _ _ sb sk b dk co true now) as [[s'|] r] eqn:E; cbn [fst]; [|rewrite Hi; reflexivity].
      rewrite Hi in *. rewrite get_store_upd_same, L. eapply inner_copy_other; eassumption.
    + destruct (cross_copy _ _ sb sk b dk co true now) as [[s'|] r] eqn:E; cbn [fst]; [|rewrite Hi; reflexivity].
      rewrite Hi in *. rewrite get_store_upd_same, L. eapply cross_copy_other; eassumption.
Qed.

(* sorting neither loses nor invents names *)
Lemma In_ins x y l : In x (ins y l) <-> x = y \/ In x l.
Proof.
  induction l as [|z l IH]; cbn; [intuition|]. destruct (bytes_ltb z y); cbn; rewrite ?IH; intuition.
Qed.
Lemma In_isort x l : In x (isort l) <-> In x l.
Proof. induction l as [|y l IH]; cbn; [tauto|]. rewrite In_ins, IH. intuition. Qed.

(* ---------- copy options: the middleware's re-implementation vs the storage's own ---------- *)
Lemma conditions_agree c lm : cross_conditions c lm = inner_conditions c lm.
Proof.
  unfold cross_conditions, inner_conditions.
  destruct (c_im c) as [[]|], (c_inm c) as [[]|], (c_ius c) as [t|], (c_ims c) as [t'|]; cbn;
    try reflexivity; repeat (match goal with |- context [(?a <? ?b)%Z] => destruct (a <? b)%Z end; cbn); reflexivity.
Qed.

Lemma conditions_second_granularity c lm lm' : trunc_s lm = trunc_s lm' -> cross_conditions c lm = cross_conditions c lm'.
Proof. intros H. unfold cross_conditions. rewrite H. reflexivity. Qed.

Lemma sizeZ_nonneg d : (0 <= sizeZ d)%Z.
Proof. unfold sizeZ. lia. Qed.

(* the two ways of opening the window agree except for a ranged part copy of an empty source *)
Lemma window_agree r size : (0 <= size)%Z -> (size = 0%Z -> is_ranged r = false) -> part_window r size = read_window r size.
Proof.
  intros Hs Hx. unfold part_window, read_window. destruct (norm_window r size) as [[a b]|] eqn:E; [|reflexivity].
  destruct (reader_ok r (a, b) size) eqn:R; [rewrite orb_true_r; reflexivity|]. rewrite orb_false_r.
  destruct (covers_part (a, b) size) eqn:C; [|reflexivity]. exfalso.
  unfold covers_part in C. cbn in C. apply andb_true_iff in C. destruct C as [C1 C2].
  apply Z.eqb_eq in C1. apply Z.eqb_eq in C2. subst a b.
  unfold reader_ok in R. cbn in R. apply orb_false_iff in R. destruct R as [R1 R2]. apply Z.ltb_ge in R1.
  assert (size = 0%Z) by lia. specialize (Hx H). destruct r; cbn in Hx; try discriminate.
  cbn in R2. subst size. discriminate.
Qed.

Lemma copy_kinds_agree ss ds sb sk db dk co mp now :
  (forall src v, find_version ss sb sk (co_vid co) = inr (src, v) -> mp = true -> o_data src = [] -> is_ranged (co_range co) = false) ->
  snd (cross_copy ss ds sb sk db dk co mp now) = snd (inner_copy ss ds sb sk db dk co mp now).
Proof.
  intros Hx. unfold cross_copy, inner_copy.
  destruct (find_version ss sb sk (co_vid co)) as [r|[src v]] eqn:F; [reflexivity|].
  rewrite conditions_agree. destruct (inner_conditions (co_conds co) (o_lm src)); cbn [negb]; [|reflexivity].
  assert (W : (if mp then part_window else read_window) (co_range co) (sizeZ (o_data src)) = read_window (co_range co) (sizeZ (o_data src))).
  { destruct mp; [|reflexivity]. apply window_agree; [apply sizeZ_nonneg|]. intros Z0. apply (Hx src v eq_refl eq_refl).
    unfold sizeZ in Z0. destruct (o_data src); [reflexivity | cbn in Z0; lia]. }
  rewrite W. destruct (read_window _ _); [|reflexivity].
  unfold put_obj. destruct (aget db ds); reflexivity.
Qed.

Lemma copy_stores_agree ss ds sb sk db dk co mp now :
  (forall src v, find_version ss sb sk (co_vid co) = inr (src, v) ->
     (mp = true -> o_data src = [] -> is_ranged (co_range co) = false) /\
     (mp = true \/ (o_u src = false /\ o_t src = false /\ (o_m src = false \/ is_ranged (co_range co) = true)))) ->
  cross_copy ss ds sb sk db dk co mp now = inner_copy ss ds sb sk db dk co mp now.
Proof.
  intros Hx. unfold cross_copy, inner_copy.
  destruct (find_version ss sb sk (co_vid co)) as [r|[src v]] eqn:F; [reflexivity|].
  destruct (Hx src v eq_refl) as [H1 H2].
  rewrite conditions_agree. destruct (inner_conditions (co_conds co) (o_lm src)); cbn [negb]; [|reflexivity].
  assert (W : (if mp then part_window else read_window) (co_range co) (sizeZ (o_data src)) = read_window (co_range co) (sizeZ (o_data src))).
  { destruct mp; [|reflexivity]. apply window_agree; [apply sizeZ_nonneg|]. intros Z0. apply (H1 eq_refl).
    unfold sizeZ in Z0. destruct (o_data src); [reflexivity | cbn in Z0; lia]. }
  rewrite W. destruct (read_window _ _) as [win|]; [|reflexivity].
  assert (O : copied_obj src win (is_ranged (co_range co)) true mp now = copied_obj src win (is_ranged (co_range co)) false mp now).
  { unfold copied_obj. destruct H2 as [->|(U & T & M)]; [reflexivity|]. rewrite U, T. destruct mp; [reflexivity|]. cbn.
    destruct M as [M|M]; [rewrite M; destruct (is_ranged (co_range co)); reflexivity | rewrite M; reflexivity]. }
  rewrite O. reflexivity.
Qed.

(* content and content type always survive *)
Lemma copied_obj_content src win rg mp now :
  o_data (copied_obj src win rg true mp now) = o_data (copied_obj src win rg false mp now) /\
  o_c (copied_obj src win rg true mp now) = o_c (copied_obj src win rg false mp now).
Proof. split; reflexivity. Qed.
